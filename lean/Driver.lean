/-
  Driver.lean — `mvdriver`: line protocol, one op per input line, one answer per output line.
  The harness (Rust, calling the real implementation) produces the same op lines and its own
  answers; `check` diffs the two streams.  Unknown or malformed ops answer `bad-op` (never a
  default value).
-/
import MainlineModel
open Mainline

structure DState where
  closest : ClosestNodes := { target := ⟨[]⟩ }
  rt : RoutingTable := { id := ⟨[]⟩ }
  now : Nat := 0

def parseAddr (s : String) : Option Addr :=
  match s.splitOn ":" with
  | [ip, port] => match ip.toNat?, port.toNat? with
    | some ip, some port => some ⟨UInt32.ofNat ip, UInt16.ofNat port⟩
    | _, _ => none
  | _ => none

def showAddr (a : Addr) : String := s!"{a.ip.toNat}:{a.port.toNat}"
def showNode (n : Node) : String := bytesToHex n.id.bytes ++ "@" ++ showAddr n.addr
def showNodes (ns : List Node) : String :=
  if ns.isEmpty then "-" else ",".intercalate (ns.map showNode)

def mkNode (idh addr : String) (now : Nat) : Option Node :=
  match hexToBytes idh, parseAddr addr with
  | some i, some a => some { id := ⟨i⟩, addr := a, lastSeen := now }
  | _, _ => none

def showOrd : Ordering → String
  | .lt => "lt" | .eq => "eq" | .gt => "gt"

def hx (s : String) : Option Bytes := if s == "-" then some [] else hexToBytes s

def showIdRes : Except DecodeIdError Id → String
  | .ok i => "ok:" ++ bytesToHex i.bytes
  | .error (.invalidIdSize _) => "err:size"
  | .error .oddNumberOfCharacters => "err:odd"
  | .error .invalidHexCharacter => "err:hex"

def step (st : DState) (line : String) : DState × String :=
  match line.trimAscii.toString.splitOn " " with
  | ["case", n, "closest", t] => (match hx t with
      | some t => ({ closest := { target := ⟨t⟩ } }, "case " ++ n)
      | none => (st, "bad-op"))
  | ["case", n, "rtable", t] => (match hx t with
      | some t => ({ rt := { id := ⟨t⟩ } }, "case " ++ n)
      | none => (st, "bad-op"))
  | "case" :: n :: _ => ({}, "case " ++ n)
  -- closest stream
  | ["add", idh, addr] => (match mkNode idh addr st.now with
      | none => (st, "bad-op")
      | some n =>
        if st.rt.id.bytes.isEmpty then
          let c' := st.closest.add n
          let r := if c'.nodes.length == st.closest.nodes.length + 1 then
              match c'.nodes.findIdx? (fun e => e.id == n.id && e.addr == n.addr) with
              | some p => s!"ins@{p}"
              | none => "noop"
            else "noop"
          ({ st with closest := c' }, r)
        else
          let (rt', r) := st.rt.add n st.now
          ({ st with rt := rt' }, toString r))
  | ["nodes"] =>
      if st.rt.id.bytes.isEmpty then (st, showNodes st.closest.nodes)
      else (st, if st.rt.nodes.isEmpty then "-" else
        ",".intercalate (st.rt.nodes.map (fun n => showNode n ++ "+" ++ toString n.lastSeen)))
  | ["len"] => (st, toString st.closest.nodes.length)
  | ["subnets"] => (st, toString st.closest.subnetsCount)
  | ["tus", _est, edk, avg] => (st, match edk.toNat?, avg.toNat? with
      | some edk, some avg => toString (st.closest.takeUntilSecure edk avg).length
      | _, _ => "bad-op")
  -- rtable stream
  | ["adv", ns] => (match ns.toNat? with
      | some ns => ({ st with now := st.now + ns }, toString (st.now + ns))
      | none => (st, "bad-op"))
  | ["remove", idh] => (match hx idh with
      | some i => ({ st with rt := st.rt.remove ⟨i⟩ }, "ok")
      | none => (st, "bad-op"))
  | ["rekey", idh] => (match hx idh with
      | some i =>
        let rt' := st.rt.resetId ⟨i⟩ st.now
        ({ st with rt := rt' }, s!"{st.rt.nodes.length}->{rt'.nodes.length}")
      | none => (st, "bad-op"))
  | ["buckets"] => (st,
      if st.rt.buckets.isEmpty then "-" else
      ",".intercalate (st.rt.buckets.map (fun b =>
        toString b.1 ++ ":" ++ "/".intercalate (b.2.map (fun n => bytesToHex (n.id.bytes.take 4))))))
  | ["size"] => (st, s!"{st.rt.size} {st.rt.isEmpty}")
  | ["boot"] => (st, toString (st.rt.toBootstrap st.now).length)
  | ["closest", t] => (st, match hx t with
      | some t => showNodes (st.rt.closest ⟨t⟩)
      | none => "bad-op")
  -- hash stream
  | ["himm", v] => (st, match hx v with
      | some v => bytesToHex (sha1 (natToAscii v.length ++ [58] ++ v))
      | none => "bad-op")
  | ["tkey", k, salt] => (st, match hx k, (if salt == "none" then some [] else hx salt) with
      | some k, some s => bytesToHex (sha1 (k ++ s))
      | _, _ => "bad-op")
  | ["crc", v] => (st, match hx v with
      | some v => toString (crc32c v).toNat
      | none => "bad-op")
  -- id stream
  | ["dist", a, b] => (st, match hx a, hx b with
      | some a, some b => toString (Id.distance ⟨a⟩ ⟨b⟩)
      | _, _ => "bad-op")
  | ["ordc", a, b, t] => (st, match hx a, hx b, hx t with
      | some a, some b, some t =>
        let xa := Id.xor ⟨a⟩ ⟨t⟩
        let xb := Id.xor ⟨b⟩ ⟨t⟩
        s!"{Id.distance ⟨a⟩ ⟨t⟩} {Id.distance ⟨b⟩ ⟨t⟩} {showOrd (Id.cmp xa xb)}"
      | _, _, _ => "bad-op")
  | ["xor", a, b] => (st, match hx a, hx b with
      | some a, some b => bytesToHex (Id.xor ⟨a⟩ ⟨b⟩).bytes
      | _, _ => "bad-op")
  | ["lz", a] => (st, match hx a with
      | some a => toString (Id.leadingZeros ⟨a⟩)
      | none => "bad-op")
  | ["idcmp", a, b] => (st, match hx a, hx b with
      | some a, some b => showOrd (Id.cmp ⟨a⟩ ⟨b⟩)
      | _, _ => "bad-op")
  | ["frombytes", a] => (st, match hx a with
      | some a => showIdRes (Id.fromBytes a)
      | none => "bad-op")
  | ["fromstr", a] => (st, match hx a with
      | some a => showIdRes (Id.fromStr a)
      | none => "bad-op")
  | ["display", a] => (st, match hx a with
      | some a => Id.display ⟨a⟩
      | none => "bad-op")
  | ["valid", a, ip] => (st, match hx a, ip.toNat? with
      | some a, some ip => toString (Id.isValidForIp ⟨a⟩ (UInt32.ofNat ip))
      | _, _ => "bad-op")
  | ["fromip", seed, ip] => (st, match seed.toNat?, ip.toNat? with
      | some seed, some ip =>
        let (rnd, _) := rngFill 21 (UInt64.ofNat seed)
        bytesToHex (Id.fromIpv4 rnd (UInt32.ofNat ip)).bytes
      | _, _ => "bad-op")
  | _ => (st, "bad-op")

partial def loop (h : IO.FS.Stream) (out : IO.FS.Stream) (st : DState) : IO Unit := do
  let line ← h.getLine
  if line.isEmpty then return ()
  let (st', o) := step st line
  out.putStrLn o
  loop h out st'

def main : IO Unit := do
  let stdin ← IO.getStdin
  let stdout ← IO.getStdout
  loop stdin stdout {}
