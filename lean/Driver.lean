/-
  Driver.lean — `mvdriver`: line protocol, one op per input line, one answer per output line.
  The harness (Rust, calling the real implementation) produces the same op lines and its own
  answers; `check` diffs the two streams.  Unknown or malformed ops answer `bad-op` (never a
  default value).
-/
import MainlineModel
open Mainline

structure DState where
  dummy : Unit := ()

def showOrd : Ordering → String
  | .lt => "lt" | .eq => "eq" | .gt => "gt"

def hx (s : String) : Option Bytes := if s == "-" then some [] else hexToBytes s

def showIdRes : Except DecodeIdError Id → String
  | .ok i => "ok:" ++ bytesToHex i.bytes
  | .error (.invalidIdSize _) => "err:size"
  | .error .oddNumberOfCharacters => "err:odd"
  | .error .invalidHexCharacter => "err:hex"

def step (st : DState) (line : String) : DState × String :=
  match line.trimAscii.toString.splitOn " " with
  | "case" :: n :: _ => ({}, "case " ++ n)
  -- hash stream
  | ["himm", v] => (st, match hx v with
      | some v => bytesToHex (sha1 (natToAscii v.length ++ [58] ++ v))
      | none => "bad-op")
  | ["tkey", k, salt] => (st, match hx k, (if salt == "none" then some [] else hx salt) with
      | some k, some s => bytesToHex (sha1 (k ++ s))
      | _, _ => "bad-op")
  | ["crc", v] => (st, match hx v with
      | some v => toString (crc32c v).toNat
      | none => "bad-op")
  -- id stream
  | ["dist", a, b] => (st, match hx a, hx b with
      | some a, some b => toString (Id.distance ⟨a⟩ ⟨b⟩)
      | _, _ => "bad-op")
  | ["ordc", a, b, t] => (st, match hx a, hx b, hx t with
      | some a, some b, some t =>
        let xa := Id.xor ⟨a⟩ ⟨t⟩
        let xb := Id.xor ⟨b⟩ ⟨t⟩
        s!"{Id.distance ⟨a⟩ ⟨t⟩} {Id.distance ⟨b⟩ ⟨t⟩} {showOrd (Id.cmp xa xb)}"
      | _, _, _ => "bad-op")
  | ["xor", a, b] => (st, match hx a, hx b with
      | some a, some b => bytesToHex (Id.xor ⟨a⟩ ⟨b⟩).bytes
      | _, _ => "bad-op")
  | ["lz", a] => (st, match hx a with
      | some a => toString (Id.leadingZeros ⟨a⟩)
      | none => "bad-op")
  | ["idcmp", a, b] => (st, match hx a, hx b with
      | some a, some b => showOrd (Id.cmp ⟨a⟩ ⟨b⟩)
      | _, _ => "bad-op")
  | ["frombytes", a] => (st, match hx a with
      | some a => showIdRes (Id.fromBytes a)
      | none => "bad-op")
  | ["fromstr", a] => (st, match hx a with
      | some a => showIdRes (Id.fromStr a)
      | none => "bad-op")
  | ["display", a] => (st, match hx a with
      | some a => Id.display ⟨a⟩
      | none => "bad-op")
  | ["valid", a, ip] => (st, match hx a, ip.toNat? with
      | some a, some ip => toString (Id.isValidForIp ⟨a⟩ (UInt32.ofNat ip))
      | _, _ => "bad-op")
  | ["fromip", seed, ip] => (st, match seed.toNat?, ip.toNat? with
      | some seed, some ip =>
        let (rnd, _) := rngFill 21 (UInt64.ofNat seed)
        bytesToHex (Id.fromIpv4 rnd (UInt32.ofNat ip)).bytes
      | _, _ => "bad-op")
  | _ => (st, "bad-op")

partial def loop (h : IO.FS.Stream) (out : IO.FS.Stream) (st : DState) : IO Unit := do
  let line ← h.getLine
  if line.isEmpty then return ()
  let (st', o) := step st line
  out.putStrLn o
  loop h out st'

def main : IO Unit := do
  let stdin ← IO.getStdin
  let stdout ← IO.getStdout
  loop stdin stdout {}
