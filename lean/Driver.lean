/-
  Driver.lean — `mvdriver`: line protocol, one op per input line, one answer per output line.
  The harness (Rust, calling the real implementation) produces the same op lines and its own
  answers; `check` diffs the two streams.  Unknown or malformed ops answer `bad-op` (never a
  default value).
-/
import MainlineModel
open Mainline

def hx (s : String) : Option Bytes := if s == "-" then some [] else hexToBytes s

inductive DFilter where
  | all | denyIp (ip : UInt32) | denyPut

structure NodeSlot where
  actor : Actor
  nodeAddr : Addr
  nreqs : List (String × Nat) := []
  apiQ : List ApiMsg := []
  immCallers : List Nat := []
  immResolved : List Nat := []
  recent : List (Nat × Option MItem) := []
  boot : List (Nat × Nat) := []
  tobs : List Nat := []
  extraEv : List String := []
  muted : List Nat := []

structure DState where
  closest : ClosestNodes := { target := ⟨[]⟩ }
  rt : RoutingTable := { id := ⟨[]⟩ }
  now : Nat := 0
  -- server stream
  server : Option Server := none
  srt : RoutingTable := { id := ⟨[]⟩ }
  t0 : Nat := 0
  sigs : List (Bytes × Bytes × Bytes) := []
  filter : DFilter := .all
  tokens : Option Tokens := none
  rng : UInt64 := 0
  -- socket / putq streams
  sock : Inflight := {}
  srvMode : Bool := false
  pq : Option PutQuery := none
  pqSent : List (Addr × Bytes × Nat) := []
  -- node stream
  actor : Option Actor := none
  nodeAddr : Addr := ⟨0, 0⟩
  nreqs : List (String × Nat) := []
  apiQ : List ApiMsg := []
  immCallers : List Nat := []
  immResolved : List Nat := []
  /-- callers of `get_mutable_most_recent`, with the item their fold holds (`Api.mostRecentStep`) -/
  recent : List (Nat × Option MItem) := []
  /-- callers of `bootstrapped()` and the stage they are in: 0 waits for the first `Info`, 1 for the
      `find_node` of the own id, 2 for the second `Info` -/
  boot : List (Nat × Nat) := []
  /-- callers of `to_bootstrap()`: their `Info` message is a placeholder whose pick-up is the moment the
      list is taken; `extraEv` holds what was taken until the next flush -/
  tobs : List Nat := []
  extraEv : List String := []
  /-- callers whose future is parked by the harness (`mute=1`): what they are handed is not shown -/
  muted : List Nat := []
  outSeen : Nat := 0
  -- mnet stream: the other nodes of the case (the current one is loaded into the fields above)
  multi : Bool := false
  slots : List (Nat × NodeSlot) := []

def DState.verify (st : DState) : Verify := fun k msg sig => st.sigs.contains (k, msg, sig)
def DState.allow (st : DState) : Allow := fun req src =>
  match st.filter with
  | .all => true
  | .denyIp ip => src.ip != ip
  | .denyPut => match req.rtype with | .put _ _ => false | _ => true

def parseAddr (s : String) : Option Addr :=
  match s.splitOn ":" with
  | [ip, port] => match ip.toNat?, port.toNat? with
    | some ip, some port => some ⟨UInt32.ofNat ip, UInt16.ofNat port⟩
    | _, _ => none
  | _ => none

def showAddr (a : Addr) : String := s!"{a.ip.toNat}:{a.port.toNat}"
def showNode (n : Node) : String := bytesToHex n.id.bytes ++ "@" ++ showAddr n.addr
def showNodes (ns : List Node) : String :=
  if ns.isEmpty then "-" else ",".intercalate (ns.map showNode)

def showOptNodes : Option (List Node) → String
  | none => "none"
  | some ns => showNodes ns

def showReply : Option Reply → String
  | none => "none"
  | some (.error c) => s!"err {c}"
  | some (.response r) =>
    match r with
    | .ping i => "ping " ++ bytesToHex i.bytes
    | .findNode i ns => s!"find_node {bytesToHex i.bytes} nodes={showNodes ns}"
    | .getPeers i tok vals ns =>
      s!"get_peers {bytesToHex i.bytes} tok={if tok.isEmpty then "-" else bytesToHex tok} nodes={showOptNodes ns} values={",".intercalate (vals.map showAddr)}"
    | .getSignedPeers i tok ps ns =>
      s!"signed_peers {bytesToHex i.bytes} tok={if tok.isEmpty then "-" else bytesToHex tok} nodes={showOptNodes ns} peers={",".intercalate (ps.map (fun p => bytesToHex p.k ++ ":" ++ toString p.t ++ ":" ++ bytesToHex p.sig))}"
    | .getImmutable i tok ns v =>
      s!"imm {bytesToHex i.bytes} tok={if tok.isEmpty then "-" else bytesToHex tok} nodes={showOptNodes ns} v={if v.isEmpty then "-" else bytesToHex v}"
    | .getMutable i tok ns v k seq sig =>
      s!"mut {bytesToHex i.bytes} tok={if tok.isEmpty then "-" else bytesToHex tok} nodes={showOptNodes ns} v={if v.isEmpty then "-" else bytesToHex v} k={bytesToHex k} seq={seq} sig={bytesToHex sig}"
    | .noValues i tok ns =>
      s!"no_values {bytesToHex i.bytes} tok={if tok.isEmpty then "-" else bytesToHex tok} nodes={showOptNodes ns}"
    | .noMoreRecentValue i tok ns seq =>
      s!"nmr {bytesToHex i.bytes} tok={if tok.isEmpty then "-" else bytesToHex tok} nodes={showOptNodes ns} seq={seq}"

def hz (b : Bytes) : String := if b.isEmpty then "-" else bytesToHex b
def showOptInt : Option Int → String
  | none => "none"
  | some i => toString i

def showRequest (r : Request) : String :=
  let rid := bytesToHex r.requesterId.bytes
  match r.rtype with
  | .ping => s!"ping {rid}"
  | .findNode t => s!"find_node {rid} {bytesToHex t.bytes}"
  | .getPeers t => s!"get_peers {rid} {bytesToHex t.bytes}"
  | .getSignedPeers t => s!"get_signed_peers {rid} {bytesToHex t.bytes}"
  | .getValue t seq _ => s!"get {rid} {bytesToHex t.bytes} {showOptInt seq}"
  | .put tok (.announcePeer ih port implied) =>
    s!"announce {rid} {hz tok} {bytesToHex ih.bytes} {port.toNat} {match implied with | none => "none" | some false => "0" | some true => "1"}"
  | .put tok (.announceSignedPeer ih t k sig) =>
    s!"announce_signed {rid} {hz tok} {bytesToHex ih.bytes} {t} {bytesToHex k} {bytesToHex sig}"
  | .put tok (.putImmutable t v) => s!"put_imm {rid} {hz tok} {bytesToHex t.bytes} {hz v}"
  | .put tok (.putMutable t v k seq sig salt cas) =>
    s!"put_mut {rid} {hz tok} {bytesToHex t.bytes} {hz v} {bytesToHex k} {seq} {bytesToHex sig} {match salt with | none => "none" | some s => hz s} {showOptInt cas}"

def showMsg (m : Message) : String :=
  let head := s!"t={m.tid.toNat} v={match m.version with | none => "none" | some v => bytesToHex v} ip={match m.requesterIp with | none => "none" | some a => showAddr a} ro={if m.readOnly then 1 else 0}"
  match m.mtype with
  | .request r => s!"{head} q {showRequest r}"
  | .response r => s!"{head} r {showReply (some (.response r))}"
  | .error e => s!"{head} e {e.code} {hz e.description}"

def optInt (s : String) : Option (Option Int) :=
  if s == "none" then some none else s.toInt?.map some

/-- `req <from> <kind> <rid> ...` -/
def parseReq (toks : List String) : Option (Addr × Request) :=
  match toks with
  | src :: kind :: rid :: rest =>
    match parseAddr src, hexToBytes rid with
    | some src, some rid =>
      let rt : Option RequestType := match kind, rest with
        | "ping", [] => some .ping
        | "find_node", [t] => (hexToBytes t).map (fun t => .findNode ⟨t⟩)
        | "get_peers", [t] => (hexToBytes t).map (fun t => .getPeers ⟨t⟩)
        | "get_signed_peers", [t] => (hexToBytes t).map (fun t => .getSignedPeers ⟨t⟩)
        | "get", [t, seq] => match hexToBytes t, optInt seq with
          | some t, some seq => some (.getValue ⟨t⟩ seq none)
          | _, _ => none
        | "announce", [tok, ih, port, imp] => match hx tok, hexToBytes ih, port.toNat? with
          | some tok, some ih, some port =>
            some (.put tok (.announcePeer ⟨ih⟩ (UInt16.ofNat port)
              (if imp == "none" then none else if imp == "0" then some false else some true)))
          | _, _, _ => none
        | "announce_signed", [tok, ih, t, k, sig] => match hx tok, hexToBytes ih, t.toNat?, hexToBytes k, hexToBytes sig with
          | some tok, some ih, some t, some k, some sig => some (.put tok (.announceSignedPeer ⟨ih⟩ t k sig))
          | _, _, _, _, _ => none
        | "put_imm", [tok, t, v] => match hx tok, hexToBytes t, hx v with
          | some tok, some t, some v => some (.put tok (.putImmutable ⟨t⟩ v))
          | _, _, _ => none
        | "put_mut", [tok, t, v, k, seq, sig, salt, cas] =>
          match hx tok, hexToBytes t, hx v, hexToBytes k, seq.toInt?, hexToBytes sig, optInt cas with
          | some tok, some t, some v, some k, some seq, some sig, some cas =>
            let salt := if salt == "none" then some none else (hx salt).map some
            salt.map (fun salt => .put tok (.putMutable ⟨t⟩ v k seq sig salt cas))
          | _, _, _, _, _, _, _ => none
        | _, _ => none
      rt.map (fun rt => (src, { requesterId := ⟨rid⟩, rtype := rt }))
    | _, _ => none
  | _ => none

def mkNode (idh addr : String) (now : Nat) : Option Node :=
  match hexToBytes idh, parseAddr addr with
  | some i, some a => some { id := ⟨i⟩, addr := a, lastSeen := now }
  | _, _ => none

def showOrd : Ordering → String
  | .lt => "lt" | .eq => "eq" | .gt => "gt"


def showIdRes : Except DecodeIdError Id → String
  | .ok i => "ok:" ++ bytesToHex i.bytes
  | .error (.invalidIdSize _) => "err:size"
  | .error .oddNumberOfCharacters => "err:odd"
  | .error .invalidHexCharacter => "err:hex"


/-! ### socket / putq streams -/

/-- the harness's `node_at` -/
def pqNodeAt (i base : Nat) (withToken : Bool) : Node :=
  { id := ⟨[UInt8.ofNat base, UInt8.ofNat (i / 256), UInt8.ofNat (i % 256)] ++ List.replicate 17 0⟩,
    addr := ⟨UInt32.ofNat (base * 16777216 + ((i / 250) % 256) * 65536 + ((i % 250) % 256) * 256 + 1),
             UInt16.ofNat (1000 + i % 50000)⟩,
    token := if withToken then some [UInt8.ofNat base, UInt8.ofNat (i / 256), UInt8.ofNat (i % 256), 0x77] else none }

def pqClosest (nw nwo : Nat) : List Node :=
  (List.range (max nw nwo)).flatMap fun i =>
    (if i < nwo then [pqNodeAt (20000 + i) 97 false] else []) ++
    (if i < nw then [pqNodeAt i 96 true] else [])

def showPutErr : PutErr → String
  | .noClosestNodes => "err:no-closest-nodes"
  | .timeout => "err:timeout"
  | .errorResponse c => s!"err:response:{c}"
  | .casFailed => "err:cas-failed"
  | .notMostRecent => "err:not-most-recent"
  | .conflictRisk => "err:conflict-risk"

def hexz (b : Bytes) : String := if b.isEmpty then "-" else bytesToHex b

def pqView (q : PutQuery) : String :=
  s!"stored={q.storedAt} errors={",".intercalate (q.errors.map fun (c, code) => s!"{c}x{code}")} sent={q.inflight.length}"

def step2 (st : DState) (toks : List String) : DState × String :=
  match toks with
  | ["case", n, "socket", srv, t0, tid] => (match t0.toNat?, tid.toNat? with
      | some t0, some tid => ({ now := t0, srvMode := srv == "1", sock := { nextTid := tid } }, "case " ++ n)
      | _, _ => (st, "bad-op"))
  | ["case", n, "putq", kind, xw, xwo, t0] => (match xw.toNat?, xwo.toNat?, t0.toNat? with
      | some xw, some xwo, some t0 =>
        let extra := (List.range xw).map (fun i => pqNodeAt i 99 true) ++
                     (List.range xwo).map (fun i => pqNodeAt (10000 + i) 98 false)
        ({ now := t0, pq := some { isMutable := kind == "mut", extra := extra } }, "case " ++ n)
      | _, _, _ => (st, "bad-op"))
  | ["case", n, "putq", kind, xw, xwo, t0, tid] => (match xw.toNat?, xwo.toNat?, t0.toNat?, tid.toNat? with
      | some xw, some xwo, some t0, some tid =>
        let extra := (List.range xw).map (fun i => pqNodeAt i 99 true) ++
                     (List.range xwo).map (fun i => pqNodeAt (10000 + i) 98 false)
        ({ now := t0, pq := some { isMutable := kind == "mut", extra := extra }, sock := { nextTid := tid % two32 } },
          "case " ++ n)
      | _, _, _, _ => (st, "bad-op"))
  | ["timeout", ns] => (match ns.toNat? with
      | some ns => ({ st with sock := { st.sock with timeout := ns } }, "ok")
      | none => (st, "bad-op"))
  | ["sreq", addr] => (match parseAddr addr with
      | some a =>
        let (sock, tid) := st.sock.add a st.now
        ({ st with sock := sock }, s!"tid={tid} ro={if st.srvMode then 0 else 1}")
      | none => (st, "bad-op"))
  | ["recv", src, tid, kind] => (match parseAddr src, tid.toNat? with
      | some a, some tid =>
        let k : Option Incoming := if kind == "ok" then some .response else if kind == "err" then some .error
          else if kind == "req" then some .request else none
        (match k with
        | some k =>
          let (sock, up) := st.sock.recv k tid a st.now
          ({ st with sock := sock },
            if k == .request then (if up then "request" else "dropped") else (if up then "accepted" else "dropped"))
        | none => (st, "bad-op"))
      | _, _ => (st, "bad-op"))
  | ["recvraw", src, thex, kind] => (match parseAddr src, hx thex with
      | some a, some t =>
        let tid : Option Nat := match t with
          | [b0, b1, b2, b3] => some (b0.toNat * 16777216 + b1.toNat * 65536 + b2.toNat * 256 + b3.toNat)
          | [b0, b1] => some (b0.toNat * 256 + b1.toNat)
          | _ => none
        let k : Option Incoming := if kind == "ok" then some .response else if kind == "err" then some .error else none
        (match k, tid with
        | some k, some tid =>
          let (sock, up) := st.sock.recv k tid a st.now
          ({ st with sock := sock }, if up then "accepted" else "dropped")
        | some _, none => ({ st with sock := st.sock.cleanup st.now }, "dropped")   -- not a KRPC message: nothing but `cleanup` happens
        | none, _ => (st, "bad-op"))
      | _, _ => (st, "bad-op"))
  | ["inflight", tid] => (match tid.toNat? with
      | some tid => (st, toString (st.sock.isInflight tid st.now))
      | none => (st, "bad-op"))
  | ["state"] =>
      let live := (st.sock.requests.filter fun r => st.sock.live r st.now).length
      (st, s!"next={st.sock.nextTid} live={live} len={st.sock.requests.length} cap={st.sock.cap}")
  -- putq stream
  | ["start", nw, nwo] => (match nw.toNat?, nwo.toNat?, st.pq with
      | some nw, some nwo, some q =>
        let (q', sock', r, sent) := q.start st.sock (pqClosest nw nwo) st.now
        (match r with
        | .error e => ({ st with pq := some q', sock := sock' }, showPutErr e)
        | .ok () =>
          let shown := sent.map fun (a, t) => s!"{showAddr a}/{hexz t}"
          let pqSent := (sent.zip q'.inflight).map fun ((a, t), tid) => (a, t, tid)
          ({ st with pq := some q', sock := sock', pqSent := st.pqSent ++ pqSent },
            s!"sent {shown.length} first={shown.head?.getD "-"} last={shown.getLast?.getD "-"}"))
      | _, _, _ => (st, "bad-op"))
  | "reply" :: i :: what :: spoof => (match i.toNat?, st.pq with
      | some i, some q =>
        (match st.pqSent[i]? with
        | none => (st, "no-such-request")
        | some (to0, _, tid) =>
          let to : Addr := if spoof.isEmpty then to0 else ⟨to0.ip, to0.port + 1⟩
          let kind : Option (Incoming × Int) := if what == "ok" then some (.response, 0) else
            match what.toInt? with
            | some c => some (.error, c)
            | none => none
          (match kind with
          | none => (st, "bad-op")
          | some (k, code) =>
            let (sock, up) := st.sock.recv k tid to st.now
            if !up then ({ st with sock := sock }, "dropped") else
            if !q.isInflight tid then ({ st with sock := sock }, "unowned") else
              let q' := if k == .response then q.success else q.error code
              ({ st with sock := sock, pq := some q' }, pqView q')))
      | _, _ => (st, "bad-op"))
  | ["foreign", what] => (match st.pq with
      | some q =>
        let to : Addr := ⟨0x0A630909, 9999⟩
        let (sock1, tid) := st.sock.add to st.now
        let kind : Option Incoming := if what == "ok" then some .response else (what.toInt?).map fun _ => .error
        (match kind with
        | none => (st, "bad-op")
        | some k =>
          let (sock2, up) := sock1.recv k tid to st.now
          if !up then ({ st with sock := sock2 }, "dropped") else
          ({ st with sock := sock2 }, if q.isInflight tid then "claimed" else "unowned"))
      | none => (st, "bad-op"))
  | ["check"] => (match st.pq with
      | some q => (st, match q.check st.sock st.now with
        | .ok true => "done-ok"
        | .ok false => "pending"
        | .error e => showPutErr e)
      | none => (st, "bad-op"))
  | ["view"] => (match st.pq with
      | some q => (st, pqView q)
      | none => (st, "bad-op"))
  | _ => (st, "bad-op")


/-! ### node stream -/

def kvOf (toks : List String) (key : String) : Option String :=
  toks.findSome? fun t => if t.startsWith (key ++ "=") then some (t.drop (key.length + 1)).toString else none

def reqKindWord : RequestType → String × String
  | .ping => ("ping", "-")
  | .findNode t => ("find_node", bytesToHex t.bytes)
  | .getPeers t => ("get_peers", bytesToHex t.bytes)
  | .getSignedPeers t => ("get_signed_peers", bytesToHex t.bytes)
  | .getValue t _ _ => ("get", bytesToHex t.bytes)
  | .put _ spec => ("put", bytesToHex spec.target.bytes)

/-- canonical line of a datagram the node sent, and its request key -/
def canonOut (_own : Id) (to : Addr) (m0 : Message) : String × Option (String × Nat) :=
  -- what the peer sees is the datagram: encode and decode it
  let m := match Krpc.fromBytes (Krpc.toBytes m0) with
    | .ok (some m') => m'
    | _ => m0
  let ver := match m.version with | none => "none" | some v => bytesToHex v
  let ip := match m.requesterIp with | none => "none" | some a => showAddr a
  let ro := if m.readOnly then 1 else 0
  match m.mtype with
  | .request r =>
    -- put requests carry a random requester id, drawn in `HashMap` order on the implementation side
    let r2 : Request := match r.rtype with
      | .put _ _ => { r with requesterId := ⟨List.replicate 20 0⟩ }
      | _ => r
    let (kind, target) := reqKindWord r.rtype
    (s!"{showAddr to} v={ver} ip={ip} ro={ro} q {showRequest r2}", some (s!"{showAddr to}/{kind}/{target}", m.tid.toNat))
  | .response r => (s!"{showAddr to} t={m.tid.toNat} v={ver} ip={ip} ro={ro} r {showReply (some (.response r))}", none)
  | .error e => (s!"{showAddr to} t={m.tid.toNat} v={ver} ip={ip} ro={ro} e {e.code}", none)

def showValueItem : Value → String
  | .peers l => ",".intercalate (l.map showAddr)
  | .signedPeers l => ",".intercalate (l.map fun p => bytesToHex p.k ++ ":" ++ toString p.t ++ ":" ++ bytesToHex p.sig)
  | .immutable v => hz v
  | .mutable i => s!"k={bytesToHex i.key} seq={i.seq} v={hz i.value} sig={bytesToHex i.sig} salt={match i.salt with | none => "none" | some s => hz s} target={bytesToHex i.target.bytes}"

/-- the API facades on top of the sender-level events -/
def eventCaller : Event → Nat
  | .value c _ | .nodes c _ | .closed c | .putResult c _ | .info c _ => c

def facade (st : DState) (evs : List Event) : DState × List String :=
  (evs.filter fun ev => !st.muted.contains (eventCaller ev)).foldl (fun (acc : DState × List String) ev =>
    let st := acc.1
    match ev with
    | .value c (.immutable v) =>
      if st.immResolved.contains c then acc
      else ({ st with immResolved := c :: st.immResolved }, acc.2 ++ [s!"c{c}:some:{hz v}"])
    | .value c v =>
      (match st.recent.find? (·.1 == c), v with
       | some (_, held), .mutable i =>
         -- `get_mutable_most_recent`: the facade folds the stream (Model/Api.lean) and says nothing yet
         let keep : Bool := match held with
           | some mr => !(Api.newer ⟨i.seq, i.value⟩ ⟨mr.seq, mr.value⟩)
           | none => false
         if keep then acc
         else ({ st with recent := (c, some i) :: st.recent.filter (·.1 != c) }, acc.2)
       | _, _ => (st, acc.2 ++ [s!"c{c}:item:{showValueItem v}"]))
    | .closed c =>
      if (st.recent.find? (·.1 == c)).isSome then
        (match st.recent.find? (·.1 == c) with
         | some (_, some i) => (st, acc.2 ++ [s!"c{c}:recent:{showValueItem (.mutable i)}"])
         | _ => (st, acc.2 ++ [s!"c{c}:recent:none"]))
      else if st.immCallers.contains c then
        (if st.immResolved.contains c then acc else ({ st with immResolved := c :: st.immResolved }, acc.2 ++ [s!"c{c}:none"]))
      else (st, acc.2 ++ [s!"c{c}:end"])
    | .nodes c l =>
      (match st.boot.find? (·.1 == c) with
       | some (_, 1) =>
         -- `bootstrapped()`: the lookup of the own id returned; ask for `Info` again
         ({ st with boot := (c, 2) :: st.boot.filter (·.1 != c), apiQ := st.apiQ ++ [.info c] }, acc.2)
       | _ => (st, acc.2 ++ [s!"c{c}:nodes:{showNodes l}"]))
    | .putResult c (.ok t) => (st, acc.2 ++ [s!"c{c}:ok:{bytesToHex t.bytes}"])
    | .putResult c (.error e) =>
      -- `unreachable!("should not receive a concurrency error from …")` in the facades of the puts that
      -- are not mutable items: the caller panics
      let concurrency := match e with
        | .casFailed | .notMostRecent | .conflictRisk => true
        | _ => false
      if concurrency && st.immCallers.contains (c + 1000000) then (st, acc.2 ++ [s!"c{c}:panic"])
      else (st, acc.2 ++ [s!"c{c}:{showPutErr e}"])
    | .info c i =>
      if st.tobs.contains c then ({ st with tobs := st.tobs.filter (· != c) }, acc.2) else
      match st.boot.find? (·.1 == c) with
      | some (_, 0) =>
        ({ st with boot := (c, 1) :: st.boot.filter (·.1 != c),
                   apiQ := st.apiQ ++ [.get .findNode i.id (.closestNodes c)] }, acc.2)
      | some (_, _) =>
        ({ st with boot := st.boot.filter (·.1 != c) }, acc.2 ++ [s!"c{c}:bootstrapped:{if i.rtSize > 0 then "true" else "false"}"])
      | none => (st, acc.2 ++ [s!"c{c}:info:id={bytesToHex i.id.bytes} pub={match i.publicAddress with | none => "none" | some a => showAddr a} fw={if i.firewalled then 1 else 0} mode={if i.serverMode then "s" else "c"} rt={i.rtSize} srt={i.srtSize}"])) (st, [])

def sortStrings (l : List String) : List String := (l.toArray.qsort (· < ·)).toList

/-- drain what the model node sent and the caller-visible events into one output line -/
def nodeFlush (st : DState) (a : Actor) : DState × String :=
  let lines := a.out.map fun p => canonOut a.id p.1 p.2
  let nreqs := lines.foldl (fun (m : List (String × Nat)) l => match l.2 with
    | some (k, tid) => (k, tid) :: m.filter (·.1 != k)
    | none => m) st.nreqs
  let (st, evs) := facade st a.events
  let evs := evs ++ st.extraEv
  let a := { a with out := [], events := [] }
  ({ st with actor := some a, nreqs := nreqs, extraEv := [] },
   s!"sent=[{" | ".intercalate (sortStrings (lines.map (·.1)))}] ev=[{" | ".intercalate (sortStrings evs)}]")

def nodeEnv (st : DState) : Env :=
  { now := st.now, wall := 1700000000000000 + st.now / 1000, verify := st.verify }

def kindNo : GetKind → Nat
  | .findNode => 1 | .getPeers => 2 | .getSignedPeers => 3 | .getValue _ _ => 4

def showSnapshot (st : DState) (a : Actor) : String :=
  let hexId (i : Id) := bytesToHex i.bytes
  let ids (l : List Id) := ",".intercalate (sortStrings (l.map hexId))
  let cnt {β} (l : List (Id × List β)) := ",".intercalate (sortStrings (l.map fun p => s!"{hexId p.1}:{p.2.length}"))
  let table (rt : RoutingTable) := ",".intercalate (sortStrings (rt.nodes.map showNode))
  let live := (a.sock.requests.filter fun r => a.sock.live r st.now).length
  let cache := ",".intercalate (sortStrings (a.core.cache.iter.map fun p => s!"{hexId p.1}:{kindNo p.2.kind}:{p.2.subnets}:{p.2.nodes.length}"))
  -- sums are shown without their 12 lowest mantissa bits: lookups that finish in the same tick are
  -- added in `HashMap` order, and float addition is not associative
  -- lookups that finish in one tick are added in `HashMap` order on the implementation side and float
  -- addition is not associative: the sums are shown in 1/64 units (residues of a few ulps vanish)
  let hex64 (f : Float) := toString (Float.round (f * 64.0)).toInt64
  let stat (s : Stats) := s!"{s.estCount}/{s.respCount}/{s.subnetsSum}/{hex64 s.estSum}/{hex64 s.respSum}"
  s!"iter=[{ids (a.core.iter.map (·.1))}] puts=[{ids (a.core.puts.map (·.1))}] putsenders=[{cnt a.putSenders}] getsenders=[{cnt a.getSenders}] live={live} raw={a.sock.requests.length} cap={a.sock.cap} to={a.sock.timeout} cache=[{cache}] stats={stat a.core.stats} sstats={stat a.core.sstats} mode={if a.core.serverMode then "s" else "c"}{if a.sockServerMode then "s" else "c"} fw={if a.core.firewalled then 1 else 0} pub={match a.core.publicAddress with | none => "none" | some x => showAddr x} rt=[{table a.core.rt}] srt=[{table a.core.srt}]"

def parseApi (c : Nat) (call : String) (toks : List String) : Option (ApiMsg × Bool) :=
  let hexOf (k : String) : Option Bytes := (kvOf toks k).bind hx
  let idOf (k : String) : Option Id := (kvOf toks k).bind fun h => (hexToBytes h).map fun b => (⟨b⟩ : Id)
  let optHex (k : String) : Option (Option Bytes) := match kvOf toks k with
    | some "none" => some none
    | some h => (hx h).map some
    | none => none
  let optI (k : String) : Option (Option Int) := (kvOf toks k).bind optInt
  match call with
  | "put_imm" => (hexOf "v").map fun v => (.put c (.putImmutable ⟨hashImmutable v⟩ v) [], false)
  | "put_mut" =>
    (match hexOf "k", (kvOf toks "seq").bind String.toInt?, hexOf "v", optHex "salt", hexOf "sig", optI "cas" with
     | some k, some seq, some v, some salt, some sig, some cas =>
       some (.put c (.putMutable ⟨targetFromKey k salt⟩ v k seq sig salt cas) [], false)
     | _, _, _, _, _, _ => none)
  | "announce" =>
    (match idOf "ih", kvOf toks "port" with
     | some ih, some "implied" => some (.put c (.announcePeer ih 0 (some true)) [], false)
     | some ih, some p => p.toNat?.map fun p => (.put c (.announcePeer ih (UInt16.ofNat p) none) [], false)
     | _, _ => none)
  | "sannounce" =>
    (match idOf "ih", hexOf "k", (kvOf toks "t").bind String.toNat?, hexOf "sig" with
     | some ih, some k, some t, some sig => some (.put c (.announceSignedPeer ih t k sig) [], false)
     | _, _, _, _ => none)
  | "get_imm" => (idOf "t").map fun t => (.get (.getValue none none) t (.immutable c), true)
  | "get_mut" =>
    (match hexOf "k", optHex "salt", optI "seq" with
     | some k, some salt, some seq => some (.get (.getValue seq salt) ⟨targetFromKey k salt⟩ (.mutable c), false)
     | _, _, _ => none)
  | "get_mut_recent" =>
    (match hexOf "k", optHex "salt" with
     | some k, some salt => some (.get (.getValue none salt) ⟨targetFromKey k salt⟩ (.mutable c), false)
     | _, _ => none)
  | "get_peers" => (idOf "ih").map fun t => (.get .getPeers t (.peers c), false)
  | "get_speers" => (idOf "ih").map fun t => (.get .getSignedPeers t (.signedPeers c), false)
  | "find_node" => (idOf "t").map fun t => (.get .findNode t (.closestNodes c), false)
  | "closest" => (idOf "t").map fun t => (.get (.getValue none none) t (.closestNodes c), false)
  | "info" => some (.info c, false)
  | "bootstrapped" => some (.info c, false)
  | _ => none

/-- one scheduler step of the model node -/
def nodeStep (st : DState) (a : Actor) (dgram : Option (Message × Addr)) : DState × Actor :=
  let (msg, rest) := match st.apiQ with
    | m :: rest => (some m, rest)
    | [] => (none, [])
  -- `to_bootstrap()` is answered from the state at pick-up, before the maintenance of this iteration
  let extra := match msg with
    | some (.info c) =>
      if st.tobs.contains c then
        [s!"c{c}:bootstrap:{",".intercalate (sortStrings (((a.observed (nodeEnv st) dgram msg).toBootstrap st.now).map showAddr))}"]
      else []
    | _ => []
  ({ st with apiQ := rest, extraEv := st.extraEv ++ extra }, a.step (nodeEnv st) dgram msg)


/-- create the model node described by `mode= boot= ip= pub= seed= caps=` -/
def mkNodeActor (rest : List String) (t0 : Nat) : Option (Actor × Addr) :=
  match (kvOf rest "seed").bind String.toNat? with
  | some seed =>
    let boot : List Addr := match kvOf rest "boot" with
      | some "-" | none => []
      | some l => (l.splitOn ",").filterMap parseAddr
    let pubIp : Option UInt32 := match kvOf rest "pub" with
      | some "-" | none => none
      | some ip => ip.toNat?.map UInt32.ofNat
    let caps : Nat × Nat × Nat × Nat := match kvOf rest "caps" with
      | some c => (match (c.splitOn ",").filterMap String.toNat? with
        | [a, b, c, d] => (a, b, c, d)
        | _ => (0, 0, 0, 0))
      | none => (0, 0, 0, 0)
    let cfg : NodeConfig := { serverMode := kvOf rest "mode" == some "s", bootstrap := boot, publicIp := pubIp, caps }
    let ip : UInt32 := match (kvOf rest "ip").bind String.toNat? with
      | some ip => UInt32.ofNat ip
      | none => pubIp.getD 167772161
    -- tid0=<n>: the socket's transaction id counter starts at n
    let cfg := match (kvOf rest "tid0").bind String.toNat? with
      | some t => { cfg with firstTid := t }
      | none => cfg
    -- deny=<ip>: a request filter that vetoes every request from this address
    let cfg := match (kvOf rest "deny").bind String.toNat? with
      | some ip => { cfg with denyIp := some (UInt32.ofNat ip) }
      | none => cfg
    some (Actor.create cfg (UInt64.ofNat (seed ||| 1)) t0, ⟨ip, 6881⟩)
  | none => none

def step3 (st : DState) (toks : List String) : DState × String :=
  match toks with
  | "case" :: n :: "node" :: rest =>
    (match (kvOf rest "t0").bind String.toNat? with
     | some t0 =>
       (match mkNodeActor rest t0 with
        | some (a, addr) => ({ now := t0, actor := some a, nodeAddr := addr }, "case " ++ n)
        | none => (st, "bad-op"))
     | none => (st, "bad-op"))
  | ["init"] =>
    (match st.actor with
     | some a =>
       if a.out.isEmpty then
         -- the harness learns the id through an `info` call, which costs one loop iteration
         let (st, a) := nodeStep st a none
         let (st, _) := nodeFlush st a
         (st, s!"id={bytesToHex a.id.bytes} via=info")
       else
         let (st, line) := nodeFlush st a
         (st, s!"id={bytesToHex a.id.bytes} {line}")
     | none => (st, "bad-op"))
  | ["know", k, msg, sig] => (match hexToBytes k, hx msg, hexToBytes sig with
      | some k, some msg, some sig => ({ st with sigs := (k, msg, sig) :: st.sigs }, "ok")
      | _, _, _ => (st, "bad-op"))
  | "api" :: c :: call :: rest =>
    (match (c.drop 1).toString.toNat?, st.actor with
     | some c, some _ =>
       if call == "to_bootstrap" then ({ st with apiQ := st.apiQ ++ [.info c], tobs := c :: st.tobs }, "ok") else
       (match parseApi c call rest with
        | some (m, isImm) =>
          -- callers of the facades that treat a concurrency error as unreachable (put_immutable,
          -- announce_peer, announce_signed_peer) are remembered as c + 1000000
          let plain := call == "put_imm" || call == "announce" || call == "sannounce"
          ({ st with apiQ := st.apiQ ++ [m],
                     muted := (if kvOf rest "mute" == some "1" then [c] else []) ++ st.muted,
                     recent := (if call == "get_mut_recent" then [(c, none)] else []) ++ st.recent,
                     boot := (if call == "bootstrapped" then [(c, 0)] else []) ++ st.boot,
                     immCallers := (if isImm then [c] else []) ++ (if plain then [c + 1000000] else []) ++ st.immCallers }, "ok")
        | none => (st, "bad-op"))
     | _, _ => (st, "bad-op"))
  | "step" :: rest =>
    (match st.actor with
     | none => (st, "bad-op")
     | some a =>
       if rest.isEmpty then
         let (st, a) := nodeStep st a none
         (nodeFlush st a)
       else
         match (kvOf rest "from").bind parseAddr with
         | none => (st, "bad-op")
         | some src =>
           match kvOf rest "raw" with
           | some raw =>
             (match hx raw with
              | some bytes =>
                let dgram := match Krpc.recvDatagram bytes with
                  | .ok (some m) => some (m, src)
                  | _ => none
                let (st, a) := nodeStep st a dgram
                nodeFlush st a
              | none => (st, "bad-op"))
           | none =>
             let tid : Option Nat := match kvOf rest "re", kvOf rest "tid" with
               | some k, _ => (st.nreqs.find? (·.1 == k)).map (·.2)
               | none, some n => n.toNat?
               | _, _ => none
             match tid, (kvOf rest "msg").bind hx with
             | some tid, some bytes =>
               let dgram := match Krpc.recvDatagram bytes with
                 | .ok (some m) => some ({ m with tid := UInt32.ofNat tid }, src)
                 | _ => none
               let (st, a) := nodeStep st a dgram
               nodeFlush st a
             | none, _ => (st, "no-such-request")
             | _, none => (st, "bad-op"))
  | ["dbgto"] => (st, match st.actor with
      | some a => s!"to={a.sock.timeout} est={a.rtt.est} dev={a.rtt.dev} cap={a.sock.cap} reqs={a.sock.requests.map fun r => (r.tid, r.to.ip.toNat % 256, (st.now - r.sentAt) / 1000000)} keys={st.nreqs.map fun p => ((p.1.splitOn "/").head!, p.2)}"
      | none => "none")
  | [op] =>
    if op == "snap" || op == "quiet" then
      match st.actor with
      | some a =>
        -- the snapshot request queues behind the API calls already sent: one message per iteration
        let n := st.apiQ.length + 1
        let st := { st with apiQ := st.apiQ ++ [.noop] }
        let (st, a) := (List.range (n - 1)).foldl (fun (acc : DState × Actor) _ => nodeStep acc.1 acc.2 none) (st, a)
        -- the snapshot is taken when its message is picked up, before the maintenance of that iteration
        let snap := showSnapshot st (a.observed (nodeEnv st) none (some .noop))
        let (st, a) := nodeStep st a none
        let (st, line) := nodeFlush st a
        (st, snap ++ " " ++ line)
      | none => (st, "dead")
    else (st, "bad-op")
  | _ => (st, "bad-op")


def saveSlot (st : DState) (i : Nat) : DState :=
  match st.actor with
  | some a =>
    let slot : NodeSlot := { actor := a, nodeAddr := st.nodeAddr, nreqs := st.nreqs, apiQ := st.apiQ,
                             immCallers := st.immCallers, immResolved := st.immResolved, recent := st.recent, boot := st.boot,
                             tobs := st.tobs, extraEv := st.extraEv, muted := st.muted }
    { st with slots := (i, slot) :: st.slots.filter (·.1 != i), actor := none }
  | none => st

def loadSlot (st : DState) (i : Nat) : Option DState :=
  (st.slots.find? (·.1 == i)).map fun p =>
    { st with actor := some p.2.actor, nodeAddr := p.2.nodeAddr, nreqs := p.2.nreqs, apiQ := p.2.apiQ,
              immCallers := p.2.immCallers, immResolved := p.2.immResolved, recent := p.2.recent, boot := p.2.boot,
              tobs := p.2.tobs, extraEv := p.2.extraEv, muted := p.2.muted }

/-- mnet stream: several model nodes, ops prefixed with the node index -/
def step4 (st : DState) (toks : List String) : DState × String :=
  match toks with
  | "node" :: i :: rest =>
    (match i.toNat? with
     | some i =>
       if i != st.slots.length then (st, "bad-op") else
       (match mkNodeActor rest st.now with
        | some (a, addr) =>
          let st1 : DState := { st with actor := some a, nodeAddr := addr, nreqs := [], apiQ := [], immCallers := [], immResolved := [], recent := [], boot := [], tobs := [], extraEv := [], muted := [] }
          let (st2, out) := step3 st1 ["init"]
          (saveSlot st2 i, out)
        | none => (st, "bad-op"))
     | none => (st, "bad-op"))
  | ni :: rest =>
    if ni.startsWith "n" then
      match (ni.drop 1).toString.toNat? with
      | some i =>
        (match loadSlot st i with
         | some st1 =>
           let (st2, out) := step3 st1 rest
           (saveSlot st2 i, out)
         | none => (st, "bad-op"))
      | none => (st, "bad-op")
    else (st, "bad-op")
  | _ => (st, "bad-op")

def step (st : DState) (line : String) : DState × String :=
  match line.trimAscii.toString.splitOn " " with
  | ["case", n, "closest", t] => (match hx t with
      | some t => ({ closest := { target := ⟨t⟩ } }, "case " ++ n)
      | none => (st, "bad-op"))
  | ["case", n, "rtable", t] => (match hx t with
      | some t => ({ rt := { id := ⟨t⟩ } }, "case " ++ n)
      | none => (st, "bad-op"))
  | ["case", n, "server", own, c1, c2, c3, c4, seed, filt, t0] =>
      (match hx own, c1.toNat?, c2.toNat?, c3.toNat?, c4.toNat?, seed.toNat?, t0.toNat? with
      | some own, some c1, some c2, some c3, some c4, some seed, some t0 =>
        let filter : DFilter :=
          if filt == "all" then .all else if filt == "denyput" then .denyPut
          else .denyIp (UInt32.ofNat ((filt.drop 7).toString.toNat?.getD 0))
        ({ server := some (Server.new c1 c2 c3 c4 (UInt64.ofNat seed) 0),
           rt := { id := ⟨own⟩ }, srt := { id := ⟨own⟩ }, t0 := t0, filter := filter }, "case " ++ n)
      | _, _, _, _, _, _, _ => (st, "bad-op"))
  | ["case", n, "tokens", seed, t0] => (match seed.toNat?, t0.toNat? with
      | some seed, some t0 =>
        let (t, rng) := Tokens.new (UInt64.ofNat seed) 0
        ({ tokens := some t, rng := rng, t0 := t0 }, "case " ++ n)
      | _, _ => (st, "bad-op"))
  | "case" :: n :: "node" :: rest => step3 {} ("case" :: n :: "node" :: rest)
  | "case" :: n :: "mnet" :: rest => (match (kvOf rest "t0").bind String.toNat? with
      | some t0 => ({ now := t0, multi := true }, "case " ++ n)
      | none => (st, "bad-op"))
  | "case" :: n :: "socket" :: rest => step2 {} ("case" :: n :: "socket" :: rest)
  | "case" :: n :: "putq" :: rest => step2 {} ("case" :: n :: "putq" :: rest)
  | "case" :: n :: _ => ({}, "case " ++ n)
  -- server stream
  | ["rtdel", which, idh] => (match hexToBytes idh with
      | some b =>
        if which == "main" then ({ st with rt := st.rt.remove ⟨b⟩ }, "ok")
        else ({ st with srt := st.srt.remove ⟨b⟩ }, "ok")
      | none => (st, "bad-op"))
  | ["rtadd", which, idh, addr] => (match mkNode idh addr st.now with
      | none => (st, "bad-op")
      | some n =>
        if which == "main" then
          let (rt', r) := st.rt.add n st.now
          ({ st with rt := rt' }, toString r)
        else
          let (rt', r) := st.srt.add n st.now
          ({ st with srt := rt' }, toString r))
  | ["know", k, msg, sig] => (match hexToBytes k, hx msg, hexToBytes sig with
      | some k, some msg, some sig => ({ st with sigs := (k, msg, sig) :: st.sigs }, "ok")
      | _, _, _ => (st, "bad-op"))
  | "req" :: rest => (match st.server, parseReq rest with
      | some srv, some (src, req) =>
        let wall := 1700000000000000 + (st.t0 + st.now) / 1000
        let (srv', reply) := srv.handleRequest st.verify st.allow st.rt st.srt src st.now wall req
        ({ st with server := some srv' }, showReply reply)
      | _, _ => (st, "bad-op"))
  | ["sizes"] => (match st.server with
      | some s =>
        let mx := fun {κ ν : Type} (l : Lru κ (Lru κ ν)) => (l.items.map (fun p => p.2.len)).foldl max 0
        (st, s!"{s.peers.len} {mx s.peers} {s.signedPeers.len} {(s.signedPeers.items.map (fun p => p.2.len)).foldl max 0} {s.immutable.len} {s.mutable.len}")
      | none => (st, "bad-op"))
  | ["tok", "should"] => (match st.tokens with
      | some t => (st, toString (t.shouldUpdate st.now))
      | none => (st, "bad-op"))
  | ["tok", "rotate"] => (match st.tokens with
      | some t => let (t', rng) := t.rotate st.rng st.now
                  ({ st with tokens := some t', rng := rng }, "ok")
      | none => (st, "bad-op"))
  | ["tok", "gen", addr] => (match st.tokens, parseAddr addr with
      | some t, some a => (st, bytesToHex (t.generate a.ip))
      | _, _ => (st, "bad-op"))
  | ["tok", "val", addr, token] => (match st.tokens, parseAddr addr, hx token with
      | some t, some a, some tk => (st, toString (t.validate a.ip tk))
      | _, _, _ => (st, "bad-op"))
  -- codec stream
  | ["dec", h] => (st, match hx h with
      | some bs => (match Krpc.fromBytes bs with
        | .panic _ => "panic"
        | .ok none => "err"
        | .ok (some m) => s!"ok {showMsg m} | {bytesToHex (Krpc.toBytes m)}")
      | none => "bad-op")
  | ["bep", _name, h] => (st, match hx h with
      | some bs => (match Krpc.fromBytes bs with
        | .panic _ => "panic"
        | .ok none => "err"
        | .ok (some m) => s!"ok {showMsg m} | {bytesToHex (Krpc.toBytes m)}")
      | none => "bad-op")
  | ["encval", n] => (st, match n.toNat? with
      | some n =>
        let v : Bytes := (List.range n).map fun i => UInt8.ofNat ((i * 7 + 3) % 256)
        let idOf (b : UInt8) : Id := ⟨List.replicate 20 b⟩
        let m1 : Message := ⟨7, none, none, .response (.getImmutable (idOf 1) [9, 9] none v), false⟩
        let m2 : Message := ⟨7, none, none, .response (.getMutable (idOf 1) [9, 9] none v (List.replicate 32 3) 5 (List.replicate 64 4)), false⟩
        let one (what : String) (m : Message) : String :=
          let bs := Krpc.toBytes m
          match Krpc.fromBytes bs with
          | .ok (some m') => if showMsg m' == showMsg m then s!"{what}:ok:{bs.length}" else s!"{what}:err"
          | _ => s!"{what}:err"
        one "immutable" m1 ++ " " ++ one "mutable" m2
      | none => "bad-op")
  | ["enctid", n] => (st, match n.toNat? with
      | some n =>
        let m : Message := ⟨UInt32.ofNat n, none, none, .request ⟨⟨List.replicate 20 1⟩, .ping⟩, false⟩
        let bs := Krpc.toBytes m
        (match Krpc.fromBytes bs with
        | .ok (some m') => s!"{bytesToHex bs} -> {m'.tid.toNat}"
        | _ => s!"{bytesToHex bs} -> err")
      | none => "bad-op")
  | ["encint", t, seq, cas] => (st, match t.toNat?, seq.toInt?, optInt cas with
      | some t, some seq, some cas =>
        let m1 : Message := ⟨7, none, none, .request ⟨⟨List.replicate 20 1⟩,
          .put [9] (.announceSignedPeer ⟨List.replicate 20 2⟩ t (List.replicate 32 3) (List.replicate 64 4))⟩, false⟩
        let m2 : Message := ⟨7, none, none, .request ⟨⟨List.replicate 20 1⟩,
          .put [9] (.putMutable ⟨List.replicate 20 2⟩ [1] (List.replicate 32 3) seq (List.replicate 64 4) none cas)⟩, false⟩
        bytesToHex (Krpc.toBytes m1) ++ " " ++ bytesToHex (Krpc.toBytes m2)
      | _, _, _ => "bad-op")
  | ["encaddr", ip, port] => (st, match ip.toNat?, port.toNat? with
      | some ip, some port =>
        let a : Addr := ⟨UInt32.ofNat ip, UInt16.ofNat port⟩
        let idOf (b : UInt8) : Id := ⟨List.replicate 20 b⟩
        let nodes : List Node := [{ id := idOf 5, addr := a }, { id := idOf 6, addr := ⟨0x01020304, 5⟩ }]
        let m1 : Message := ⟨7, none, some a, .response (.findNode (idOf 1) nodes), false⟩
        let m2 : Message := ⟨7, none, none, .response (.getPeers (idOf 1) [9] [a] (some nodes)), false⟩
        bytesToHex (Krpc.toBytes m1) ++ " " ++ bytesToHex (Krpc.toBytes m2)
      | _, _ => "bad-op")
  | ["encann", implied, port] => (st, match port.toNat? with
      | some port =>
        let imp : Option Bool := if implied == "none" then none else if implied == "0" then some false else some true
        let m : Message := ⟨7, none, none, .request ⟨⟨List.replicate 20 1⟩,
          .put [9, 9] (.announcePeer ⟨List.replicate 20 2⟩ (UInt16.ofNat port) imp)⟩, false⟩
        bytesToHex (Krpc.toBytes m)
      | none => "bad-op")
  -- api stream
  | ["mr", _flavour, items] =>
      let parsed : Option (List Api.Item) :=
        if items == "-" then some [] else
        (items.splitOn ",").mapM (fun it => match it.splitOn ":" with
          | [sq, v] => match sq.toInt?, hx v with
            | some sq, some v => some ⟨sq, v⟩
            | _, _ => none
          | _ => none)
      (st, match parsed with
        | some its => (match Api.mostRecent its with
          | none => "none"
          | some r => s!"{r.seq}:{if r.value.isEmpty then "-" else bytesToHex r.value}")
        | none => "bad-op")
  -- closest stream
  | ["add", idh, addr] => (match mkNode idh addr st.now with
      | none => (st, "bad-op")
      | some n =>
        if st.rt.id.bytes.isEmpty then
          let c' := st.closest.add n
          let r := if c'.nodes.length == st.closest.nodes.length + 1 then
              match c'.nodes.findIdx? (fun e => e.id == n.id && e.addr == n.addr) with
              | some p => s!"ins@{p}"
              | none => "noop"
            else "noop"
          ({ st with closest := c' }, r)
        else
          let (rt', r) := st.rt.add n st.now
          ({ st with rt := rt' }, toString r))
  | ["nodes"] =>
      if st.rt.id.bytes.isEmpty then (st, showNodes st.closest.nodes)
      else (st, if st.rt.nodes.isEmpty then "-" else
        ",".intercalate (st.rt.nodes.map (fun n => showNode n ++ "+" ++ toString n.lastSeen)))
  | ["len"] => (st, toString st.closest.nodes.length)
  | ["subnets"] => (st, toString st.closest.subnetsCount)
  | ["tus", _est, edk, avg] => (st, match edk.toNat?, avg.toNat? with
      | some edk, some avg => toString (st.closest.takeUntilSecure edk avg).length
      | _, _ => "bad-op")
  -- rtable stream
  | ["adv", ns] => (match ns.toNat? with
      | some ns => ({ st with now := st.now + ns }, toString (st.now + ns))
      | none => (st, "bad-op"))
  | ["remove", idh] => (match hx idh with
      | some i => ({ st with rt := st.rt.remove ⟨i⟩ }, "ok")
      | none => (st, "bad-op"))
  | ["rekey", idh] => (match hx idh with
      | some i =>
        let rt' := st.rt.resetId ⟨i⟩ st.now
        ({ st with rt := rt' }, s!"{st.rt.nodes.length}->{rt'.nodes.length}")
      | none => (st, "bad-op"))
  | ["buckets"] => (st,
      if st.rt.buckets.isEmpty then "-" else
      ",".intercalate (st.rt.buckets.map (fun b =>
        toString b.1 ++ ":" ++ "/".intercalate (b.2.map (fun n => bytesToHex (n.id.bytes.take 4))))))
  | ["size"] => (st, s!"{st.rt.size} {st.rt.isEmpty}")
  | ["boot"] => (st, toString (st.rt.toBootstrap st.now).length)
  | ["closest", t] => (st, match hx t with
      | some t => showNodes (st.rt.closest ⟨t⟩)
      | none => "bad-op")
  -- hash stream
  | ["himm", v] => (st, match hx v with
      | some v => bytesToHex (sha1 (natToAscii v.length ++ [58] ++ v))
      | none => "bad-op")
  | ["tkey", k, salt] => (st, match hx k, (if salt == "none" then some [] else hx salt) with
      | some k, some s => bytesToHex (sha1 (k ++ s))
      | _, _ => "bad-op")
  | ["crc", v] => (st, match hx v with
      | some v => toString (crc32c v).toNat
      | none => "bad-op")
  -- id stream
  | ["dist", a, b] => (st, match hx a, hx b with
      | some a, some b => toString (Id.distance ⟨a⟩ ⟨b⟩)
      | _, _ => "bad-op")
  | ["ordc", a, b, t] => (st, match hx a, hx b, hx t with
      | some a, some b, some t =>
        let xa := Id.xor ⟨a⟩ ⟨t⟩
        let xb := Id.xor ⟨b⟩ ⟨t⟩
        s!"{Id.distance ⟨a⟩ ⟨t⟩} {Id.distance ⟨b⟩ ⟨t⟩} {showOrd (Id.cmp xa xb)}"
      | _, _, _ => "bad-op")
  | ["xor", a, b] => (st, match hx a, hx b with
      | some a, some b => bytesToHex (Id.xor ⟨a⟩ ⟨b⟩).bytes
      | _, _ => "bad-op")
  | ["lz", a] => (st, match hx a with
      | some a => toString (Id.leadingZeros ⟨a⟩)
      | none => "bad-op")
  | ["idcmp", a, b] => (st, match hx a, hx b with
      | some a, some b => showOrd (Id.cmp ⟨a⟩ ⟨b⟩)
      | _, _ => "bad-op")
  | ["frombytes", a] => (st, match hx a with
      | some a => showIdRes (Id.fromBytes a)
      | none => "bad-op")
  | ["fromstr", a] => (st, match hx a with
      | some a => showIdRes (Id.fromStr a)
      | none => "bad-op")
  | ["display", a] => (st, match hx a with
      | some a => Id.display ⟨a⟩
      | none => "bad-op")
  | ["valid", a, ip] => (st, match hx a, ip.toNat? with
      | some a, some ip => toString (Id.isValidForIp ⟨a⟩ (UInt32.ofNat ip))
      | _, _ => "bad-op")
  | ["fromip", seed, ip] => (st, match seed.toNat?, ip.toNat? with
      | some seed, some ip =>
        let (rnd, _) := rngFill 21 (UInt64.ofNat seed)
        bytesToHex (Id.fromIpv4 rnd (UInt32.ofNat ip)).bytes
      | _, _ => "bad-op")
  | toks => if st.multi then step4 st toks else if st.actor.isSome then step3 st toks else step2 st toks

partial def loop (h : IO.FS.Stream) (out : IO.FS.Stream) (st : DState) : IO Unit := do
  let line ← h.getLine
  if line.isEmpty then return ()
  -- `decx <variant> <hex>` is `dec <hex>` for the model (the expectation is checked on the other side)
  let line := match line.trimAscii.toString.splitOn " " with
    | ["decx", _, h] => "dec " ++ h
    | _ => line
  let (st', o) := step st line
  out.putStrLn o
  loop h out st'

def main : IO Unit := do
  let stdin ← IO.getStdin
  let stdout ← IO.getStdout
  loop stdin stdout {}
