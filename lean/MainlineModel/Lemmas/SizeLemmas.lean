/-
  SizeLemmas.lean — how long the canonical encoding of a message is.

  `encode` of a byte string of at most `n < 10^d` bytes takes at most `d + 1 + n` bytes, of an `i64`
  at most 22; dictionaries and lists add two bytes to the sum of their parts.  Used by
  `Props/C01Size.lean` to show that every answer an honest server sends fits the receive buffer.
-/
import MainlineModel.Model.Krpc
namespace Mainline
open Bencode

theorem natDigits_length_le (f : Nat) : ∀ (n d : Nat), n < 10 ^ d → 0 < d → (natDigits f n).length ≤ d := by
  induction f with
  | zero => intro n d _ _; simp [natDigits]
  | succ f ih =>
    intro n d h hd
    unfold natDigits
    split
    · simp; omega
    · rename_i h10
      have hd2 : 2 ≤ d := by
        rcases Nat.lt_or_ge d 2 with h2 | h2
        · have : d = 1 := by omega
          subst this
          simp at h; omega
        · exact h2
      have hdiv : n / 10 < 10 ^ (d - 1) := by
        have : 10 ^ d = 10 * 10 ^ (d - 1) := by
          have : d = (d - 1) + 1 := by omega
          rw [this, Nat.pow_succ]; simp; omega
        rw [this] at h
        exact Nat.div_lt_of_lt_mul h
      have := ih (n / 10) (d - 1) hdiv (by omega)
      simp only [List.length_append, List.length_singleton]
      omega

theorem natToAscii_length_le (n d : Nat) (h : n < 10 ^ d) (hd : 0 < d) : (natToAscii n).length ≤ d :=
  natDigits_length_le 40 n d h hd

theorem encBytes_length_le (b : Bytes) (n d : Nat) (hb : b.length ≤ n) (hn : n < 10 ^ d) (hd : 0 < d) :
    (encBytes b).length ≤ d + 1 + n := by
  unfold encBytes
  have := natToAscii_length_le b.length d (by omega) hd
  simp only [List.length_append, List.length_singleton, List.length_cons, List.length_nil]
  omega

theorem encBytes_length_eq (b : Bytes) : (encBytes b).length = (natToAscii b.length).length + 1 + b.length := by
  unfold encBytes
  simp only [List.length_append, List.length_singleton, List.length_cons, List.length_nil]

/-- an `i64` takes at most 19 digits, a sign, and the `i` … `e` frame -/
theorem encInt_length_le (i : Int) (lo : -9223372036854775808 ≤ i) (hi : i ≤ 9223372036854775807) :
    (encInt i).length ≤ 22 := by
  unfold encInt intToAscii
  cases i with
  | ofNat n =>
    have : n < 10 ^ 19 := by
      have : (n : Int) ≤ 9223372036854775807 := hi
      omega
    have := natToAscii_length_le n 19 this (by omega)
    simp only [List.length_append, List.length_singleton, List.length_cons, List.length_nil]
    omega
  | negSucc n =>
    have : n + 1 < 10 ^ 19 := by
      have : Int.negSucc n = -((n : Int) + 1) := rfl
      rw [this] at lo
      omega
    have := natToAscii_length_le (n + 1) 19 this (by omega)
    simp only [List.length_append, List.length_singleton, List.length_cons, List.length_nil]
    omega

theorem encodeDict_append (a b : List (BVal × BVal)) : encodeDict (a ++ b) = encodeDict a ++ encodeDict b := by
  induction a with
  | nil => simp [encodeDict]
  | cons p r ih =>
    obtain ⟨k, v⟩ := p
    simp only [List.cons_append, encodeDict, ih, List.append_assoc]

theorem encodeList_length_le (l : List BVal) (c : Nat) (h : ∀ x ∈ l, (encode x).length ≤ c) :
    (encodeList l).length ≤ c * l.length := by
  induction l with
  | nil => simp [encodeList]
  | cons x xs ih =>
    have h1 := h x List.mem_cons_self
    have h2 := ih (fun y hy => h y (List.mem_cons_of_mem _ hy))
    simp only [encodeList, List.length_append, List.length_cons]
    rw [Nat.mul_succ]
    omega

end Mainline
