/-
  Helper lemmas for C19 (`Props/C19.lean`): bit-level specification of the XOR metric and its
  relation to the byte loop of `Id::leading_zeros`.
-/
import MainlineModel.Model.Id
namespace Mainline
namespace Id

/-! ### bit-level specification (independent of `xor` / `leadingZeros`) -/

/-- bits of a byte, most significant first -/
def bitsN (n : Nat) : List Bool :=
  [n.testBit 7, n.testBit 6, n.testBit 5, n.testBit 4, n.testBit 3, n.testBit 2, n.testBit 1, n.testBit 0]

def bitsOfByte (b : UInt8) : List Bool := bitsN b.toNat

/-- the 160 bits of an id, most significant first -/
def bitsOf (bs : Bytes) : List Bool := bs.flatMap bitsOfByte

/-- length of the common prefix of two bit strings -/
def commonPrefixLen : List Bool → List Bool → Nat
  | a :: as, b :: bs => if a = b then 1 + commonPrefixLen as bs else 0
  | _, _ => 0

def clz8N (n : Nat) : Nat :=
  if n ≥ 128 then 0 else if n ≥ 64 then 1 else if n ≥ 32 then 2
  else if n ≥ 16 then 3 else if n ≥ 8 then 4 else if n ≥ 4 then 5
  else if n ≥ 2 then 6 else if n ≥ 1 then 7 else 8

theorem clz8_eq (b : UInt8) : clz8 b = clz8N b.toNat := rfl

theorem clz8N_spec (n : Nat) :
    (clz8N n = 0 ∧ 128 ≤ n) ∨ (clz8N n = 1 ∧ 64 ≤ n ∧ n < 128) ∨ (clz8N n = 2 ∧ 32 ≤ n ∧ n < 64) ∨
    (clz8N n = 3 ∧ 16 ≤ n ∧ n < 32) ∨ (clz8N n = 4 ∧ 8 ≤ n ∧ n < 16) ∨ (clz8N n = 5 ∧ 4 ≤ n ∧ n < 8) ∨
    (clz8N n = 6 ∧ 2 ≤ n ∧ n < 4) ∨ (clz8N n = 7 ∧ n = 1) ∨ (clz8N n = 8 ∧ n = 0) := by
  unfold clz8N
  repeat' split
  all_goals omega

theorem clz8_le8 (b : UInt8) : clz8 b ≤ 8 := by
  rw [clz8_eq]; rcases clz8N_spec b.toNat with h|h|h|h|h|h|h|h|h <;> omega

theorem clz8_le7 (b : UInt8) (h : b.toNat ≠ 0) : clz8 b ≤ 7 := by
  rw [clz8_eq]; rcases clz8N_spec b.toNat with h|h|h|h|h|h|h|h|h <;> omega

theorem clz8_antitone (x y : UInt8) (h : x.toNat ≤ y.toNat) : clz8 y ≤ clz8 x := by
  rw [clz8_eq, clz8_eq]
  rcases clz8N_spec x.toNat with hx|hx|hx|hx|hx|hx|hx|hx|hx <;>
  rcases clz8N_spec y.toNat with hy|hy|hy|hy|hy|hy|hy|hy|hy <;> omega

theorem bitsN_length (n : Nat) : (bitsN n).length = 8 := rfl

theorem bitsOf_length (bs : Bytes) : (bitsOf bs).length = 8 * bs.length := by
  induction bs with
  | nil => rfl
  | cons b bs ih =>
    simp only [bitsOf, List.flatMap_cons, List.length_append, List.length_cons] at *
    simp only [bitsOfByte, bitsN_length]
    omega

/-- index of the first `true` (length if none) -/
def firstTrue : List Bool → Nat
  | [] => 0
  | true :: _ => 0
  | false :: r => 1 + firstTrue r

theorem commonPrefixLen_eq_firstTrue (l1 l2 : List Bool) (h : l1.length = l2.length) :
    commonPrefixLen l1 l2 = firstTrue (List.zipWith (fun a b => a ^^ b) l1 l2) := by
  induction l1 generalizing l2 with
  | nil => cases l2 <;> simp [commonPrefixLen, firstTrue]
  | cons a as ih =>
    cases l2 with
    | nil => simp at h
    | cons b bs =>
      have := ih bs (by simpa using h)
      cases a <;> cases b <;> simp [commonPrefixLen, firstTrue, this]

theorem bitsN_xor (x y : Nat) :
    bitsN (x ^^^ y) = List.zipWith (fun a b => a ^^ b) (bitsN x) (bitsN y) := by
  simp only [bitsN, Nat.testBit_xor, List.zipWith_cons_cons, List.zipWith_nil_left]

/-- byte-level fact, by kernel evaluation over all 256 byte values -/
theorem clz8N_eq_firstTrue : ∀ z < 256, clz8N z = firstTrue (bitsN z) := by
  decide +kernel

theorem clz8N_xor_table (x : Nat) (hx : x < 256) (y : Nat) (hy : y < 256) (hne : x ≠ y) :
      clz8N (x ^^^ y) = commonPrefixLen (bitsN x) (bitsN y) ∧
      commonPrefixLen (bitsN x) (bitsN y) < 8 := by
  have hlt : x ^^^ y < 256 := Nat.xor_lt_two_pow (n := 8) hx hy
  have h1 : clz8N (x ^^^ y) = commonPrefixLen (bitsN x) (bitsN y) := by
    rw [clz8N_eq_firstTrue _ hlt, bitsN_xor,
      commonPrefixLen_eq_firstTrue (bitsN x) (bitsN y) (by simp [bitsN_length])]
  refine ⟨h1, ?_⟩
  rw [← h1]
  have hz : x ^^^ y ≠ 0 := by
    intro h
    have h2 : (x ^^^ y) ^^^ y = 0 ^^^ y := by rw [h]
    rw [Nat.xor_assoc, Nat.xor_self, Nat.xor_zero, Nat.zero_xor] at h2
    exact hne h2
  rcases clz8N_spec (x ^^^ y) with h|h|h|h|h|h|h|h|h <;> omega

theorem commonPrefixLen_self_byte : ∀ x < 256, commonPrefixLen (bitsN x) (bitsN x) = 8 := by
  decide +kernel

theorem commonPrefixLen_le_left (l1 l2 : List Bool) : commonPrefixLen l1 l2 ≤ l1.length := by
  induction l1 generalizing l2 with
  | nil => simp [commonPrefixLen]
  | cons a as ih =>
    cases l2 with
    | nil => simp [commonPrefixLen]
    | cons b bs =>
      simp only [commonPrefixLen]
      split
      · have := ih bs; simp only [List.length_cons]; omega
      · omega

theorem commonPrefixLen_append_of_lt (l1 l2 r s : List Bool)
    (hlen : l1.length = l2.length) (h : commonPrefixLen l1 l2 < l1.length) :
    commonPrefixLen (l1 ++ r) (l2 ++ s) = commonPrefixLen l1 l2 := by
  induction l1 generalizing l2 with
  | nil => simp at h
  | cons a as ih =>
    cases l2 with
    | nil => simp at hlen
    | cons b bs =>
      simp only [List.cons_append, commonPrefixLen] at *
      split
      · rename_i hab
        simp only [hab, ite_true] at h
        have := ih bs (by simpa using hlen) (by simp only [List.length_cons] at h; omega)
        omega
      · rfl

theorem commonPrefixLen_append_of_eq (l1 l2 r s : List Bool)
    (hlen : l1.length = l2.length) (h : commonPrefixLen l1 l2 = l1.length) :
    commonPrefixLen (l1 ++ r) (l2 ++ s) = l1.length + commonPrefixLen r s := by
  induction l1 generalizing l2 with
  | nil =>
    cases l2 with
    | nil => simp
    | cons _ _ => simp at hlen
  | cons a as ih =>
    cases l2 with
    | nil => simp at hlen
    | cons b bs =>
      simp only [List.cons_append, commonPrefixLen] at *
      split
      · rename_i hab
        simp only [hab, ite_true, List.length_cons] at h
        have := ih bs (by simpa using hlen) (by omega)
        simp only [List.length_cons]; omega
      · rename_i hab
        simp only [hab, ite_false, List.length_cons] at h
        omega

theorem xor_eq_zero_iff (x y : UInt8) : x ^^^ y = 0 ↔ x = y := by
  constructor
  · intro h
    have : (x ^^^ y) ^^^ y = 0 ^^^ y := by rw [h]
    simpa [UInt8.xor_assoc] using this
  · intro h; subst h; simp

/-- The byte loop computes the length of the common bit prefix. `i` is the loop index; the
    hypothesis `i * 8 + 8 * len = 160` says the remaining bytes end exactly at bit 160, which is
    what makes the `as u8` cast the identity. -/
theorem leadingZerosFrom_xor (i : Nat) (as bs : Bytes) (hlen : as.length = bs.length)
    (hinv : i * 8 + 8 * as.length = 160) :
    leadingZerosFrom i (List.zipWith (· ^^^ ·) as bs)
      = i * 8 + commonPrefixLen (bitsOf as) (bitsOf bs) := by
  induction as generalizing i bs with
  | nil =>
    cases bs with
    | nil =>
      simp only [List.length_nil] at hinv
      simp [leadingZerosFrom, bitsOf, commonPrefixLen]; omega
    | cons _ _ => simp at hlen
  | cons a as ih =>
    cases bs with
    | nil => simp at hlen
    | cons b bs =>
      simp only [List.zipWith_cons_cons, leadingZerosFrom, bitsOf, List.flatMap_cons]
      have hla := UInt8.toNat_lt a
      have hlb := UInt8.toNat_lt b
      by_cases hab : a = b
      · subst hab
        have hz : a ^^^ a = 0 := by simp
        simp only [hz, ne_eq, not_true_eq_false, ite_false]
        have hself := commonPrefixLen_self_byte a.toNat (by omega)
        have := commonPrefixLen_append_of_eq (bitsOfByte a) (bitsOfByte a) (bitsOf as) (bitsOf bs)
          rfl (by simpa [bitsOfByte, bitsN_length] using hself)
        simp only [bitsOf] at this
        rw [this]
        have := ih (i + 1) bs (by simpa using hlen) (by simp only [List.length_cons] at hinv; omega)
        simp only [bitsOf] at this
        rw [this]
        simp only [bitsOfByte, bitsN_length]
        omega
      · have hne : a ^^^ b ≠ 0 := fun h => hab ((xor_eq_zero_iff a b).1 h)
        simp only [ne_eq, hne, not_false_eq_true, ite_true]
        have hnat : a.toNat ≠ b.toNat := fun h => hab (UInt8.toNat_inj.1 h)
        obtain ⟨h1, h2⟩ := clz8N_xor_table a.toNat (by omega) b.toNat (by omega) hnat
        have := commonPrefixLen_append_of_lt (bitsOfByte a) (bitsOfByte b) (bitsOf as) (bitsOf bs)
          rfl (by simpa [bitsOfByte, bitsN_length] using h2)
        simp only [bitsOf] at this
        rw [this, clz8_eq, UInt8.toNat_xor, h1]
        simp only [bitsOfByte]
        simp only [List.length_cons] at hinv
        omega

theorem leadingZerosFrom_bounds (i : Nat) (l : Bytes) (hinv : i * 8 + 8 * l.length = 160) :
    i * 8 ≤ leadingZerosFrom i l ∧ leadingZerosFrom i l ≤ 160 := by
  induction l generalizing i with
  | nil => simp [leadingZerosFrom]; omega
  | cons b l ih =>
    simp only [leadingZerosFrom]
    simp only [List.length_cons] at hinv
    split
    · have := clz8_le8 b
      omega
    · have := ih (i + 1) (by omega); omega

/-- `leading_zeros = 160` exactly for the all-zero string -/
theorem leadingZerosFrom_eq_160_iff (i : Nat) (l : Bytes) (hinv : i * 8 + 8 * l.length = 160) :
    leadingZerosFrom i l = 160 ↔ ∀ b ∈ l, b = 0 := by
  induction l generalizing i with
  | nil => simp [leadingZerosFrom]
  | cons b l ih =>
    simp only [leadingZerosFrom, List.mem_cons, forall_eq_or_imp]
    simp only [List.length_cons] at hinv
    split
    · rename_i hb
      have h7 : clz8 b ≤ 7 :=
        clz8_le7 b (fun h => hb (UInt8.toNat_inj.1 (by simpa using h)))
      constructor
      · intro h; omega
      · intro ⟨h, _⟩; exact absurd h hb
    · rename_i hb
      have hb0 : b = 0 := by simpa using hb
      rw [ih (i + 1) (by omega)]
      simp [hb0]


/-- lexicographically smaller XOR string has at least as many leading zeros -/
theorem leadingZerosFrom_of_bytesLt (i : Nat) (x y : Bytes) (hlen : x.length = y.length)
    (hinv : i * 8 + 8 * x.length = 160) (hlt : bytesCmp x y = .lt) :
    leadingZerosFrom i y ≤ leadingZerosFrom i x := by
  induction x generalizing i y with
  | nil =>
    cases y with
    | nil => simp [bytesCmp] at hlt
    | cons _ _ => simp at hlen
  | cons a x ih =>
    cases y with
    | nil => simp at hlen
    | cons b y =>
      simp only [List.length_cons] at hinv hlen
      simp only [bytesCmp] at hlt
      by_cases hab : a < b
      · -- first differing byte: a < b
        have habn : a.toNat < b.toNat := UInt8.lt_iff_toNat_lt.1 hab
        have hb0 : b ≠ 0 := by
          intro h; subst h; simp at habn
        have hb7 : clz8 b ≤ 7 := clz8_le7 b (by omega)
        simp only [leadingZerosFrom, ne_eq, hb0, not_false_eq_true, ite_true]
        by_cases ha0 : a = 0
        · subst ha0
          simp only [not_true_eq_false, ite_false]
          have := (leadingZerosFrom_bounds (i + 1) x (by omega)).1
          omega
        · simp only [ha0, not_false_eq_true, ite_true]
          have := clz8_antitone a b (by omega)
          have ha8 : clz8 a ≤ 8 := clz8_le8 a
          omega
      · simp only [hab, ite_false] at hlt
        by_cases hba : b < a
        · simp [hba] at hlt
        · simp only [hba, ite_false] at hlt
          have heq : a = b := by
            have h1 : ¬ a.toNat < b.toNat := fun h => hab (UInt8.lt_iff_toNat_lt.2 h)
            have h2 : ¬ b.toNat < a.toNat := fun h => hba (UInt8.lt_iff_toNat_lt.2 h)
            exact UInt8.toNat_inj.1 (by omega)
          subst heq
          simp only [leadingZerosFrom]
          split
          · exact Nat.le_refl _
          · exact ih (i + 1) y (by omega) (by omega) hlt

theorem bytesCmp_eq_iff (x y : Bytes) : bytesCmp x y = .eq ↔ x = y := by
  induction x generalizing y with
  | nil => cases y <;> simp [bytesCmp]
  | cons a x ih =>
    cases y with
    | nil => simp [bytesCmp]
    | cons b y =>
      simp only [bytesCmp, List.cons.injEq]
      by_cases hab : a < b
      · simp only [hab, ite_true]
        constructor
        · intro h; cases h
        · intro ⟨h, _⟩; subst h; exact absurd hab (by simp)
      · simp only [hab, ite_false]
        by_cases hba : b < a
        · simp only [hba, ite_true]
          constructor
          · intro h; cases h
          · intro ⟨h, _⟩; subst h; exact absurd hba (by simp)
        · simp only [hba, ite_false]
          have heq : a = b := by
            have h1 : ¬ a.toNat < b.toNat := fun h => hab (UInt8.lt_iff_toNat_lt.2 h)
            have h2 : ¬ b.toNat < a.toNat := fun h => hba (UInt8.lt_iff_toNat_lt.2 h)
            exact UInt8.toNat_inj.1 (by omega)
          simp [heq, ih]

theorem bytesCmp_gt_iff_lt (x y : Bytes) : bytesCmp x y = .gt ↔ bytesCmp y x = .lt := by
  induction x generalizing y with
  | nil => cases y <;> simp [bytesCmp]
  | cons a x ih =>
    cases y with
    | nil => simp [bytesCmp]
    | cons b y =>
      simp only [bytesCmp]
      by_cases hab : a < b
      · have hba : ¬ b < a := by
          intro h
          have := UInt8.lt_iff_toNat_lt.1 hab; have := UInt8.lt_iff_toNat_lt.1 h; omega
        simp [hab, hba]
      · by_cases hba : b < a
        · simp [hab, hba]
        · simp [hab, hba, ih]

end Id
end Mainline
