/-
  Lemmas for the KRPC codec: the byte-level conversions invert each other, the top-level
  dictionary parses back, and no conversion can hit a slicing panic.
-/
import MainlineModel.Lemmas.ParseLemmas
namespace Mainline
namespace Krpc
open Bencode WireNames

/-! ### big-endian integers -/

theorem beToNat_be32 (x : UInt32) : beToNat (be32 x) = x.toNat := by
  have hx := UInt32.toNat_lt x
  simp only [beToNat, be32, List.foldl_cons, List.foldl_nil, UInt32.toNat_toUInt8, UInt32.toNat_shiftRight]
  simp only [Nat.shiftRight_eq_div_pow]
  have e1 : UInt32.toNat 24 % 32 = 24 := by decide
  have e2 : UInt32.toNat 16 % 32 = 16 := by decide
  have e3 : UInt32.toNat 8 % 32 = 8 := by decide
  rw [e1, e2, e3]
  omega

theorem beToNat_be16 (x : UInt16) : beToNat (be16 x) = x.toNat := by
  have hx := UInt16.toNat_lt x
  simp only [beToNat, be16, List.foldl_cons, List.foldl_nil, UInt16.toNat_toUInt8, UInt16.toNat_shiftRight]
  simp only [Nat.shiftRight_eq_div_pow]
  have e3 : UInt16.toNat 8 % 16 = 8 := by decide
  rw [e3]
  omega

theorem beToNat_be64 (x : UInt64) : beToNat (be64 x) = x.toNat := by
  have hx := UInt64.toNat_lt x
  simp only [beToNat, be64, List.foldl_cons, List.foldl_nil, UInt64.toNat_toUInt8, UInt64.toNat_shiftRight]
  simp only [Nat.shiftRight_eq_div_pow]
  have e1 : UInt64.toNat 56 % 64 = 56 := by decide
  have e2 : UInt64.toNat 48 % 64 = 48 := by decide
  have e3 : UInt64.toNat 40 % 64 = 40 := by decide
  have e4 : UInt64.toNat 32 % 64 = 32 := by decide
  have e5 : UInt64.toNat 24 % 64 = 24 := by decide
  have e6 : UInt64.toNat 16 % 64 = 16 := by decide
  have e7 : UInt64.toNat 8 % 64 = 8 := by decide
  rw [e1, e2, e3, e4, e5, e6, e7]
  omega

theorem tidOf_be32 (t : UInt32) : tidOf (be32 t) = some t := by
  unfold tidOf
  have : (be32 t).length = 4 := rfl
  simp only [this, beToNat_be32]
  simp

/-! ### slices -/

theorem slice_ok (bs : Bytes) (a b : Nat) (h : a ≤ b ∧ b ≤ bs.length) :
    slice bs a b = .ok ((bs.drop a).take (b - a)) := by
  unfold slice; simp [h]

theorem take_append_exact {α} (x y : List α) (n : Nat) (h : x.length = n) : (x ++ y).take n = x := by
  subst h; simp

theorem drop_append_exact {α} (x y : List α) (n : Nat) (h : x.length = n) : (x ++ y).drop n = y := by
  subst h; simp

/-- the slice `[i, j)` of `a ++ x ++ b` when `a` has length `i` and `x` has length `j - i` -/
theorem slice_mid (a x b : Bytes) (i j : Nat) (hi : a.length = i) (hj : i + x.length = j) :
    slice (a ++ x ++ b) i j = .ok x := by
  rw [slice_ok _ _ _ ⟨by omega, by simp; omega⟩]
  rw [List.append_assoc, drop_append_exact a _ i hi, take_append_exact x b (j - i) (by omega)]

/-! ### addresses, nodes, signed peers -/

theorem bytesToSockaddr_addrBytes (a : Addr) : bytesToSockaddr (addrBytes a) = .ok (some a) := by
  unfold bytesToSockaddr addrBytes
  have h4 : (be32 a.ip).length = 4 := rfl
  have h2 : (be16 a.port).length = 2 := rfl
  have hl : (be32 a.ip ++ be16 a.port).length = 6 := by simp [h4, h2]
  simp only [hl, beq_self_eq_true, ite_true]
  have s1 := slice_mid [] (be32 a.ip) (be16 a.port) 0 4 rfl (by simp [h4])
  have s2 := slice_mid (be32 a.ip) (be16 a.port) [] 4 6 h4 (by simp [h2])
  simp only [List.nil_append, List.append_nil] at s1 s2
  rw [s1, s2]
  simp only [Outcome.bind, beToNat_be32, beToNat_be16]
  cases a; simp

/-- what the decoder makes of a node: id and address, nothing else -/
def normNode (n : Node) : Node := { id := n.id, addr := n.addr }

theorem bytesToNodesLoop_nodesBytes (pre : Bytes) (ns : List Node) (h : ∀ n ∈ ns, n.id.bytes.length = 20) :
    ∀ rest : Bytes, bytesToNodesLoop (pre ++ nodesBytes ns ++ rest) ns.length pre.length = .ok (some (ns.map normNode)) := by
  induction ns generalizing pre with
  | nil => intro rest; simp [bytesToNodesLoop]
  | cons n ns ih =>
    intro rest
    have hn := h n List.mem_cons_self
    have h6 : (addrBytes n.addr).length = 6 := rfl
    simp only [List.length_cons, bytesToNodesLoop, nodesBytes, List.flatMap_cons]
    have e1 : pre ++ (n.id.bytes ++ addrBytes n.addr ++ List.flatMap (fun n => n.id.bytes ++ addrBytes n.addr) ns) ++ rest
        = pre ++ (n.id.bytes ++ (addrBytes n.addr ++ (nodesBytes ns ++ rest))) := by
      simp [nodesBytes]
    rw [e1]
    have s1 : slice (pre ++ (n.id.bytes ++ (addrBytes n.addr ++ (nodesBytes ns ++ rest)))) pre.length (pre.length + 20)
        = .ok n.id.bytes := by
      have := slice_mid pre n.id.bytes (addrBytes n.addr ++ (nodesBytes ns ++ rest)) pre.length (pre.length + 20) rfl (by omega)
      simpa using this
    have s2 : slice (pre ++ (n.id.bytes ++ (addrBytes n.addr ++ (nodesBytes ns ++ rest)))) (pre.length + 20) (pre.length + 26)
        = .ok (addrBytes n.addr) := by
      have := slice_mid (pre ++ n.id.bytes) (addrBytes n.addr) (nodesBytes ns ++ rest) (pre.length + 20) (pre.length + 26)
        (by simp [hn]) (by omega)
      simpa using this
    rw [s1, s2]
    simp only [Outcome.bind, bytesToSockaddr_addrBytes]
    have := ih (pre ++ (n.id.bytes ++ addrBytes n.addr)) (fun m hm => h m (List.mem_cons_of_mem _ hm)) rest
    have hl : (pre ++ (n.id.bytes ++ addrBytes n.addr)).length = pre.length + 26 := by simp [hn, h6]
    rw [hl] at this
    have e2 : pre ++ (n.id.bytes ++ addrBytes n.addr) ++ nodesBytes ns ++ rest
        = pre ++ (n.id.bytes ++ (addrBytes n.addr ++ (nodesBytes ns ++ rest))) := by simp
    rw [e2] at this
    rw [this]
    simp [normNode]

theorem nodesBytes_length (ns : List Node) (h : ∀ n ∈ ns, n.id.bytes.length = 20) :
    (nodesBytes ns).length = 26 * ns.length := by
  induction ns with
  | nil => rfl
  | cons n ns ih =>
    have hn := h n List.mem_cons_self
    have h6 : (addrBytes n.addr).length = 6 := rfl
    simp only [nodesBytes, List.flatMap_cons, List.length_append, List.length_cons] at *
    rw [ih (fun m hm => h m (List.mem_cons_of_mem _ hm)), hn, h6]; omega

theorem bytesToNodes_nodesBytes (ns : List Node) (h : ∀ n ∈ ns, n.id.bytes.length = 20) :
    bytesToNodes (nodesBytes ns) = .ok (some (ns.map normNode)) := by
  unfold bytesToNodes
  have hl := nodesBytes_length ns h
  have h1 : ((nodesBytes ns).length % 26 != 0) = false := by rw [hl]; simp
  simp only [h1, Bool.false_eq_true, ite_false]
  have h2 : (nodesBytes ns).length / 26 = ns.length := by rw [hl]; omega
  rw [h2]
  have := bytesToNodesLoop_nodesBytes [] ns h []
  simpa using this

theorem mapAll_sockaddr (vals : List Addr) :
    mapAll bytesToSockaddr (vals.map addrBytes) = .ok (some vals) := by
  induction vals with
  | nil => rfl
  | cons a vals ih => simp [mapAll, bytesToSockaddr_addrBytes, Outcome.bind, ih]

def okPeer (p : SignedPeer) : Prop := p.k.length = 32 ∧ p.sig.length = 64 ∧ p.t < 18446744073709551616

theorem bytesToSignedPeer_bytes (p : SignedPeer) (h : okPeer p) :
    bytesToSignedPeer (signedPeerBytes p) = .ok (some p) := by
  obtain ⟨hk, hs, ht⟩ := h
  unfold bytesToSignedPeer signedPeerBytes
  have h8 : (be64 (UInt64.ofNat p.t)).length = 8 := rfl
  have hl : (p.k ++ be64 (UInt64.ofNat p.t) ++ p.sig).length = 104 := by simp [hk, hs, h8]
  have hne : ((p.k ++ be64 (UInt64.ofNat p.t) ++ p.sig).length != 104) = false := by rw [hl]; rfl
  simp only [hne, Bool.false_eq_true, ite_false]
  have s1 : slice (p.k ++ be64 (UInt64.ofNat p.t) ++ p.sig) 0 32 = .ok p.k := by
    have := slice_mid [] p.k (be64 (UInt64.ofNat p.t) ++ p.sig) 0 32 rfl (by omega)
    simpa using this
  have s2 : slice (p.k ++ be64 (UInt64.ofNat p.t) ++ p.sig) 32 40 = .ok (be64 (UInt64.ofNat p.t)) :=
    slice_mid p.k _ p.sig 32 40 hk (by omega)
  have s3 : slice (p.k ++ be64 (UInt64.ofNat p.t) ++ p.sig) 40 104 = .ok p.sig := by
    have := slice_mid (p.k ++ be64 (UInt64.ofNat p.t)) p.sig [] 40 104 (by simp [hk, h8]) (by omega)
    simpa using this
  rw [s1]
  rw [s2, s3]
  simp only [Outcome.bind, beToNat_be64]
  have : (UInt64.ofNat p.t).toNat = p.t := by
    simp [UInt64.toNat_ofNat']; omega
  rw [this]

theorem mapAll_signedPeers (ps : List SignedPeer) (h : ∀ p ∈ ps, okPeer p) :
    mapAll bytesToSignedPeer (ps.map signedPeerBytes) = .ok (some ps) := by
  induction ps with
  | nil => rfl
  | cons p ps ih =>
    simp [mapAll, bytesToSignedPeer_bytes p (h p List.mem_cons_self), Outcome.bind,
      ih (fun q hq => h q (List.mem_cons_of_mem _ hq))]

theorem mapM_asBytes (l : List Bytes) : (l.map BVal.bytes).mapM asBytes = some l := by
  induction l with
  | nil => rfl
  | cons b l ih => simp [List.mapM_cons, asBytes, ih]

theorem i64AsU64_u64AsI64 (t : Nat) (h : t < 18446744073709551616) : i64AsU64 (u64AsI64 t) = t := by
  unfold i64AsU64 u64AsI64
  rw [Nat.mod_eq_of_lt h]
  split
  · rename_i hlt
    have : (Int.ofNat t % 18446744073709551616) = Int.ofNat t := by
      simp only [Int.ofNat_eq_natCast]; omega
    rw [this]; simp
  · rename_i hge
    have : ((Int.ofNat t - 18446744073709551616) % 18446744073709551616) = Int.ofNat t := by
      simp only [Int.ofNat_eq_natCast]; omega
    rw [this]; simp

theorem u64AsI64_range (t : Nat) : inI64 (u64AsI64 t) := by
  unfold inI64 u64AsI64
  have := Nat.mod_lt t (show 18446744073709551616 > 0 by decide)
  split <;> (simp only [Int.ofNat_eq_natCast]; omega)

/-! ### no conversion panics -/

def IsOk {α : Type} (o : Outcome α) : Prop := ∃ a, o = .ok a

theorem IsOk.bind {α β : Type} {o : Outcome α} {f : α → Outcome β} (h : IsOk o) (hf : ∀ a, IsOk (f a)) :
    IsOk (o.bind f) := by
  obtain ⟨a, rfl⟩ := h
  exact hf a

theorem isOk_ok {α : Type} (a : α) : IsOk (Outcome.ok a) := ⟨a, rfl⟩

theorem bytesToSockaddr_isOk (bs : Bytes) : IsOk (bytesToSockaddr bs) := by
  unfold bytesToSockaddr
  split
  · rename_i h
    have hl : bs.length = 6 := by simpa using h
    rw [slice_ok _ _ _ ⟨by omega, by omega⟩, slice_ok _ _ _ ⟨by omega, by omega⟩]
    exact isOk_ok _
  · exact isOk_ok _

theorem bytesToNodesLoop_isOk (bs : Bytes) (n i : Nat) (h : i + 26 * n ≤ bs.length) :
    IsOk (bytesToNodesLoop bs n i) := by
  induction n generalizing i with
  | zero => exact isOk_ok _
  | succ n ih =>
    unfold bytesToNodesLoop
    rw [slice_ok _ _ _ ⟨by omega, by omega⟩, slice_ok _ _ _ ⟨by omega, by omega⟩]
    simp only [Outcome.bind]
    apply IsOk.bind (bytesToSockaddr_isOk _)
    intro oa
    cases oa with
    | none => exact isOk_ok _
    | some a => exact IsOk.bind (ih (i + 26) (by omega)) (fun _ => isOk_ok _)

theorem bytesToNodes_isOk (bs : Bytes) : IsOk (bytesToNodes bs) := by
  unfold bytesToNodes
  split
  · exact isOk_ok _
  · rename_i h
    have : bs.length % 26 = 0 := by simpa using h
    exact bytesToNodesLoop_isOk bs _ 0 (by omega)

theorem optNodesOf_isOk (o : Option Bytes) : IsOk (optNodesOf o) := by
  cases o with
  | none => exact isOk_ok _
  | some bs => exact IsOk.bind (bytesToNodes_isOk bs) (fun _ => isOk_ok _)

theorem bytesToSignedPeer_isOk (bs : Bytes) : IsOk (bytesToSignedPeer bs) := by
  unfold bytesToSignedPeer
  split
  · exact isOk_ok _
  · rename_i h
    have hl : bs.length = 104 := by simpa using h
    rw [slice_ok _ _ _ ⟨by omega, by omega⟩, slice_ok _ _ _ ⟨by omega, by omega⟩,
      slice_ok _ _ _ ⟨by omega, by omega⟩]
    exact isOk_ok _

theorem mapAll_isOk {α β : Type} (f : α → Outcome (Option β)) (hf : ∀ a, IsOk (f a)) (l : List α) :
    IsOk (mapAll f l) := by
  induction l with
  | nil => exact isOk_ok _
  | cons x xs ih =>
    unfold mapAll
    apply IsOk.bind (hf x)
    intro o
    cases o with
    | none => exact isOk_ok _
    | some y => exact IsOk.bind ih (fun _ => isOk_ok _)

theorem responseOfRaw_isOk (r : RawResponse) : IsOk (responseOfRaw r) := by
  cases r <;> simp only [responseOfRaw]
  · exact IsOk.bind (optNodesOf_isOk _) (fun _ => isOk_ok _)
  · exact IsOk.bind (optNodesOf_isOk _) (fun _ => isOk_ok _)
  · exact IsOk.bind (optNodesOf_isOk _) (fun _ => isOk_ok _)
  · apply IsOk.bind (optNodesOf_isOk _)
    intro on; cases on with
    | none => exact isOk_ok _
    | some n => exact IsOk.bind (mapAll_isOk _ bytesToSockaddr_isOk _) (fun _ => isOk_ok _)
  · apply IsOk.bind (optNodesOf_isOk _)
    intro on; cases on with
    | none => exact isOk_ok _
    | some n => exact IsOk.bind (mapAll_isOk _ bytesToSignedPeer_isOk _) (fun _ => isOk_ok _)
  · exact IsOk.bind (optNodesOf_isOk _) (fun _ => isOk_ok _)
  · exact IsOk.bind (bytesToNodes_isOk _) (fun _ => isOk_ok _)
  · exact isOk_ok _

theorem variantOf_isOk (d : List (BVal × BVal)) : IsOk (variantOf d) := by
  unfold variantOf
  (repeat' split) <;> first | exact isOk_ok _ | exact IsOk.bind (responseOfRaw_isOk _) (fun _ => isOk_ok _)

theorem ofBVal_isOk (v : BVal) : IsOk (ofBVal v) := by
  unfold ofBVal
  split
  · split
    · exact isOk_ok _
    · split
      · split
        · exact isOk_ok _
        · apply IsOk.bind (variantOf_isOk _)
          intro ov
          cases ov with
          | none => exact isOk_ok _
          | some mt =>
            simp only
            split
            · exact isOk_ok _
            · apply IsOk.bind (bytesToSockaddr_isOk _)
              intro oa; cases oa <;> exact isOk_ok _
      · exact isOk_ok _
  · exact isOk_ok _

theorem fromBytes_isOk (bs : Bytes) : IsOk (fromBytes bs) := by
  unfold fromBytes
  split
  · exact isOk_ok _
  · split
    · split
      · exact ofBVal_isOk _
      · exact isOk_ok _
    · exact isOk_ok _

/-! ### the top-level dictionary parses back -/

/-- entries of the top-level dictionary as the encoder emits them: byte-string keys, leaf or
    dictionary-of-leaves values, and `v` / `ip` are byte strings (not lists) -/
def TopEntries (d : List (BVal × BVal)) : Prop :=
  ∀ p ∈ d, (∃ k, p.1 = .bytes k ∧ okLen k) ∧ Top p.2 ∧ (arrayFieldLen p.1 = none ∨ ∃ b, p.2 = .bytes b ∧ okLen b)

theorem parseTopEntries_enc (d : List (BVal × BVal)) (hd : TopEntries d) :
    ∀ (fuel : Nat) (acc : List (BVal × BVal)) (rest : Bytes),
      fuel ≥ (encodeDict d).length + 2 →
      parseTopEntries fuel (encodeDict d ++ 101 :: rest) acc = some (acc.reverse ++ d) := by
  induction d with
  | nil =>
    intro fuel acc rest hf
    cases fuel with
    | zero => omega
    | succ f => simp [encodeDict, parseTopEntries]
  | cons p d ih =>
    intro fuel acc rest hf
    obtain ⟨kv, v⟩ := p
    obtain ⟨⟨k, hk, hkl⟩, hv, harr⟩ := hd (kv, v) List.mem_cons_self
    simp only at hk hv harr
    subst hk
    cases fuel with
    | zero => omega
    | succ f =>
      simp only [encodeDict, List.append_assoc] at hf ⊢
      obtain ⟨x, r, hx, hne, _⟩ := encode_bytes_head_ne k hkl 101 (by decide)
        (encode v ++ (encodeDict d ++ 101 :: rest))
      rw [hx]
      simp only [parseTopEntries]
      have hxe : (x == 101) = false := by simpa using hne
      simp only [hxe, Bool.false_eq_true, ite_false]
      rw [← hx]
      have hkey : parseVal (2 * (encode (.bytes k) ++ (encode v ++ (encodeDict d ++ 101 :: rest))).length + 4)
          (encode (.bytes k) ++ (encode v ++ (encodeDict d ++ 101 :: rest))) =
            some (.bytes k, encode v ++ (encodeDict d ++ 101 :: rest)) := by
        have : 2 * (encode (.bytes k) ++ (encode v ++ (encodeDict d ++ 101 :: rest))).length + 4 =
            (2 * (encode (.bytes k) ++ (encode v ++ (encodeDict d ++ 101 :: rest))).length + 3) + 1 := by omega
        rw [this]
        exact parseVal_bytes _ k hkl _
      rw [hkey]
      simp only
      have hval : parseVal (2 * (encode v ++ (encodeDict d ++ 101 :: rest)).length + 4)
          (encode v ++ (encodeDict d ++ 101 :: rest)) = some (v, encodeDict d ++ 101 :: rest) :=
        parseVal_top v hv _ _ (by simp only [List.length_append]; omega)
      have hk2 := encode_len_ge2_bytes k hkl
      have hrec := ih (fun q hq => hd q (List.mem_cons_of_mem _ hq)) f ((.bytes k, v) :: acc) rest (by
        simp only [List.length_append] at hf; omega)
      split
      · -- the array-field branch needs the value to start with `l`, which a byte string never does
        rename_i n r' harrsome hr
        rcases harr with hnone | ⟨b, hb, hbl⟩
        · rw [hnone] at harrsome; cases harrsome
        · subst hb
          obtain ⟨y, ry, hy, _, hyd⟩ := encode_bytes_head_ne b hbl 108 (by decide) (encodeDict d ++ 101 :: rest)
          rw [hy] at hr
          injection hr with h1 _
          rw [h1] at hyd; simp [isDigit] at hyd
      · rw [hval]
        simp only
        rw [hrec]
        simp

end Krpc
end Mainline
