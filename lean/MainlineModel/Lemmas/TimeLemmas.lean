/-
  TimeLemmas.lean — request bookkeeping of the whole actor: which transaction ids exist, when their
  requests were sent, and how every phase of the loop moves them.  Used by the time-bound theorems
  of C06 (`Props/C06Time.lean`) and the quiescence theorem of C20.

  The transaction id counter is a `u32`.  Everything here is stated for stretches of the loop
  during which it does not wrap around: `a.sock.nextTid + (datagrams sent during the stretch) <
  2^32`.  (`Adv.ok` carries that hypothesis; the counting facts `Adv.out`, `Adv.cnt` are
  unconditional, which is what makes the relation transitive.)
-/
import MainlineModel.Lemmas.ShapeLemmas
import MainlineModel.Lemmas.SocketLemmas
namespace Mainline
open Actor

/-! ### the socket between wrap-arounds -/

/-- the request table of a socket whose transaction id counter has not wrapped: ids increase along
    the list and lie below the counter, send times never decrease and lie in the past -/
structure SockOrd (s : Inflight) (now : Nat) : Prop where
  next_lt : s.nextTid < two32
  tid_lt : ∀ r ∈ s.requests, r.tid < s.nextTid
  sorted : s.requests.Pairwise (fun x y => x.tid < y.tid)
  times : s.requests.Pairwise (fun x y => x.sentAt ≤ y.sentAt)
  timed : ∀ r ∈ s.requests, r.sentAt ≤ now

namespace SockOrd

/-- such a table satisfies the wrap-aware invariant the socket theorems (C09) are stated for -/
theorem inv {s : Inflight} {now : Nat} (h : SockOrd s now) : s.Inv := by
  refine ⟨h.next_lt, fun r hr => Nat.lt_trans (h.tid_lt r hr) h.next_lt, ?_, ?_, h.times⟩
  · have hlt := h.tid_lt
    have hn := h.next_lt
    refine List.Pairwise.imp_of_mem ?_ h.sorted
    intro x y hx hy hxy
    have := hlt x hx; have := hlt y hy
    unfold wsub two32 at *; omega
  · intro r hr
    have := h.tid_lt r hr
    have hn := h.next_lt
    unfold wsub two32 at *; omega

theorem timedOf {s : Inflight} {now : Nat} (h : SockOrd s now) : s.Timed now := h.timed

theorem mono {s : Inflight} {now now' : Nat} (h : SockOrd s now) (hle : now ≤ now') : SockOrd s now' :=
  ⟨h.next_lt, h.tid_lt, h.sorted, h.times, fun r hr => Nat.le_trans (h.timed r hr) hle⟩

theorem addOk {s : Inflight} {now : Nat} (h : SockOrd s now) (hb : s.nextTid + 1 < two32) : s.addOk := by
  intro r hr
  have := h.tid_lt r hr
  unfold wsub two32 at *; omega

/-- fewer requests, same counter -/
theorem shrink {s s' : Inflight} {now : Nat} (h : SockOrd s now) (hn : s'.nextTid = s.nextTid)
    (hl : s'.requests.Sublist s.requests) : SockOrd s' now :=
  ⟨hn ▸ h.next_lt, fun r hr => hn ▸ h.tid_lt r (hl.subset hr), h.sorted.sublist hl, h.times.sublist hl,
   fun r hr => h.timed r (hl.subset hr)⟩

/-- one more request -/
theorem add {s : Inflight} {now : Nat} (h : SockOrd s now) (hb : s.nextTid + 1 < two32) (to : Addr) :
    SockOrd (s.add to now).1 now := by
  have hnext : (s.add to now).1.nextTid = s.nextTid + 1 := by
    simp only [Inflight.add]; unfold two32 at *; omega
  refine ⟨by rw [hnext]; exact hb, ?_, ?_, ?_, ?_⟩
  · intro r hr
    rw [hnext]
    simp only [Inflight.add, List.mem_append, List.mem_singleton] at hr
    rcases hr with hr | rfl
    · have := h.tid_lt r hr; omega
    · simp
  · simp only [Inflight.add]
    rw [List.pairwise_append]
    refine ⟨h.sorted, by simp, ?_⟩
    intro x hx y hy
    simp only [List.mem_singleton] at hy
    subst hy
    exact h.tid_lt x hx
  · simp only [Inflight.add]
    rw [List.pairwise_append]
    refine ⟨h.times, by simp, ?_⟩
    intro x hx y hy
    simp only [List.mem_singleton] at hy
    subst hy
    exact h.timed x hx
  · intro r hr
    simp only [Inflight.add, List.mem_append, List.mem_singleton] at hr
    rcases hr with hr | rfl
    · exact h.timed r hr
    · exact Nat.le_refl _

end SockOrd

theorem Inflight.add_fields (s : Inflight) (to : Addr) (now : Nat) :
    (s.add to now).2 = s.nextTid ∧ (s.add to now).1.nextTid = (s.nextTid + 1) % two32 ∧
    (s.add to now).1.requests = s.requests ++ [{ tid := s.nextTid, to := to, sentAt := now }] ∧
    (s.add to now).1.timeout = s.timeout := ⟨rfl, rfl, rfl, rfl⟩

/-! ### what a stretch of the loop does to the request bookkeeping -/

/-- the facts, for a stretch at clock `now` during which the counter does not wrap -/
structure Facts (now : Nat) (a a' : Actor) : Prop where
  next : a.sock.nextTid ≤ a'.sock.nextTid
  /-- at most one transaction id per datagram sent -/
  bound : a'.sock.nextTid + a.out.length ≤ a.sock.nextTid + a'.out.length
  ord : SockOrd a.sock now → SockOrd a'.sock now
  /-- a request in the table afterwards was there before, or was sent during the stretch -/
  reqs : ∀ r ∈ a'.sock.requests, r ∈ a.sock.requests ∨ (a.sock.nextTid ≤ r.tid ∧ r.sentAt = now)
  /-- a transaction id a lookup lists afterwards was listed by a lookup before, or is new -/
  iter : ∀ p' ∈ a'.core.iter, ∀ tid ∈ p'.2.inflight,
    (∃ p ∈ a.core.iter, tid ∈ p.2.inflight) ∨ (a.sock.nextTid ≤ tid ∧ tid < a'.sock.nextTid)
  puts : ∀ p' ∈ a'.core.puts, ∀ tid ∈ p'.2.q.inflight,
    (∃ p ∈ a.core.puts, tid ∈ p.2.q.inflight) ∨ (a.sock.nextTid ≤ tid ∧ tid < a'.sock.nextTid)

theorem Facts.refl (now : Nat) (a : Actor) : Facts now a a :=
  ⟨Nat.le_refl _, Nat.le_refl _, id, fun _ h => Or.inl h, fun p hp tid ht => Or.inl ⟨p, hp, ht⟩,
   fun p hp tid ht => Or.inl ⟨p, hp, ht⟩⟩

theorem Facts.trans {now : Nat} {a b c : Actor} (h1 : Facts now a b) (h2 : Facts now b c) : Facts now a c := by
  refine ⟨Nat.le_trans h1.next h2.next, ?_, fun h => h2.ord (h1.ord h), ?_, ?_, ?_⟩
  · have := h1.bound; have := h2.bound; omega
  · intro r hr
    rcases h2.reqs r hr with h | ⟨h, ht⟩
    · exact h1.reqs r h
    · exact Or.inr ⟨Nat.le_trans h1.next h, ht⟩
  · intro p' hp' tid ht
    rcases h2.iter p' hp' tid ht with ⟨p, hp, hin⟩ | ⟨hl, hu⟩
    · rcases h1.iter p hp tid hin with h | ⟨hl, hu⟩
      · exact Or.inl h
      · exact Or.inr ⟨hl, Nat.lt_of_lt_of_le hu h2.next⟩
    · exact Or.inr ⟨Nat.le_trans h1.next hl, hu⟩
  · intro p' hp' tid ht
    rcases h2.puts p' hp' tid ht with ⟨p, hp, hin⟩ | ⟨hl, hu⟩
    · rcases h1.puts p hp tid hin with h | ⟨hl, hu⟩
      · exact Or.inl h
      · exact Or.inr ⟨hl, Nat.lt_of_lt_of_le hu h2.next⟩
    · exact Or.inr ⟨Nat.le_trans h1.next hl, hu⟩

/-- a stretch of the loop at clock `now`: it only appends to the log of datagrams sent and — as long
    as the transaction id counter does not wrap, which it cannot while it stays below 2^32 minus the
    number of datagrams sent — moves the request bookkeeping as `Facts` says -/
structure Adv (now : Nat) (a a' : Actor) : Prop where
  out : ∃ l, a'.out = a.out ++ l
  ok : a.sock.nextTid + (a'.out.length - a.out.length) < two32 → Facts now a a'

theorem Adv.refl (now : Nat) (a : Actor) : Adv now a a := ⟨⟨[], by simp⟩, fun _ => Facts.refl now a⟩

theorem Adv.trans {now : Nat} {a b c : Actor} (h1 : Adv now a b) (h2 : Adv now b c) : Adv now a c := by
  obtain ⟨l1, e1⟩ := h1.out
  obtain ⟨l2, e2⟩ := h2.out
  refine ⟨⟨l1 ++ l2, by rw [e2, e1, List.append_assoc]⟩, ?_⟩
  intro hb
  have hlen1 : b.out.length = a.out.length + l1.length := by rw [e1, List.length_append]
  have hlen2 : c.out.length = b.out.length + l2.length := by rw [e2, List.length_append]
  have f1 := h1.ok (by omega)
  have := f1.bound
  have f2 := h2.ok (by omega)
  exact f1.trans f2

/-- two consecutive stretches within one wrap-free stretch are wrap-free themselves -/
theorem Adv.split {now : Nat} {a b c : Actor} (h1 : Adv now a b) (h2 : Adv now b c)
    (hb : a.sock.nextTid + (c.out.length - a.out.length) < two32) :
    Facts now a b ∧ b.sock.nextTid + (c.out.length - b.out.length) < two32 ∧ Facts now b c := by
  obtain ⟨l1, e1⟩ := h1.out
  obtain ⟨l2, e2⟩ := h2.out
  have hlen1 : b.out.length = a.out.length + l1.length := by rw [e1, List.length_append]
  have hlen2 : c.out.length = b.out.length + l2.length := by rw [e2, List.length_append]
  have f1 := h1.ok (by omega)
  have hbd := f1.bound
  have hb2 : b.sock.nextTid + (c.out.length - b.out.length) < two32 := by omega
  exact ⟨f1, hb2, h2.ok hb2⟩

/-- a stretch that sends nothing and draws no id: the table may lose requests, lookups and puts may
    come and go, but every id listed afterwards was listed before -/
theorem Adv.quiet {now : Nat} {a a' : Actor} (ho : a'.out = a.out) (hn : a'.sock.nextTid = a.sock.nextTid)
    (hr : a'.sock.requests.Sublist a.sock.requests)
    (hi : ∀ p' ∈ a'.core.iter, ∀ tid ∈ p'.2.inflight, ∃ p ∈ a.core.iter, tid ∈ p.2.inflight)
    (hp : ∀ p' ∈ a'.core.puts, ∀ tid ∈ p'.2.q.inflight, ∃ p ∈ a.core.puts, tid ∈ p.2.q.inflight) :
    Adv now a a' :=
  ⟨⟨[], by simp [ho]⟩, fun _ =>
    ⟨by rw [hn]; exact Nat.le_refl _, by rw [hn, ho]; exact Nat.le_refl _, fun h => h.shrink hn hr,
     fun r h => Or.inl (hr.subset h), fun p' h tid ht => Or.inl (hi p' h tid ht),
     fun p' h tid ht => Or.inl (hp p' h tid ht)⟩⟩

/-- a stretch that touches neither the socket, nor the log, nor the registered lookups and puts -/
theorem Adv.same {now : Nat} {a a' : Actor} (ho : a'.out = a.out) (hs : a'.sock = a.sock)
    (hi : a'.core.iter = a.core.iter) (hp : a'.core.puts = a.core.puts) : Adv now a a' :=
  Adv.quiet ho (by rw [hs]) (by rw [hs]; exact List.Sublist.refl _)
    (fun p' h tid ht => ⟨p', by rw [← hi]; exact h, ht⟩) (fun p' h tid ht => ⟨p', by rw [← hp]; exact h, ht⟩)

/-- the bookkeeping invariant of the whole actor -/
structure SockOk (a : Actor) (now : Nat) : Prop where
  ord : SockOrd a.sock now
  iter : ∀ p ∈ a.core.iter, ∀ tid ∈ p.2.inflight, tid < a.sock.nextTid
  puts : ∀ p ∈ a.core.puts, ∀ tid ∈ p.2.q.inflight, tid < a.sock.nextTid

theorem Facts.sockOk {now : Nat} {a a' : Actor} (f : Facts now a a') (h : SockOk a now) : SockOk a' now := by
  refine ⟨f.ord h.ord, ?_, ?_⟩
  · intro p' hp' tid ht
    rcases f.iter p' hp' tid ht with ⟨p, hp, hin⟩ | ⟨_, hu⟩
    · exact Nat.lt_of_lt_of_le (h.iter p hp tid hin) f.next
    · exact hu
  · intro p' hp' tid ht
    rcases f.puts p' hp' tid ht with ⟨p, hp, hin⟩ | ⟨_, hu⟩
    · exact Nat.lt_of_lt_of_le (h.puts p hp tid hin) f.next
    · exact hu

theorem SockOk.mono {a : Actor} {now now' : Nat} (h : SockOk a now) (hle : now ≤ now') : SockOk a now' :=
  ⟨h.ord.mono hle, h.iter, h.puts⟩

/-! ### the primitives -/

theorem request_adv (a : Actor) (to : Addr) (req : Request) (now : Nat) :
    Adv now a (a.request to req now).1 ∧
    (a.sock.nextTid + 1 < two32 → (a.request to req now).2 = a.sock.nextTid ∧
      (a.request to req now).1.sock.nextTid = a.sock.nextTid + 1) := by
  have hout : (a.request to req now).1.out.length = a.out.length + 1 := by simp [request]
  have hnext : a.sock.nextTid + 1 < two32 → (a.request to req now).1.sock.nextTid = a.sock.nextTid + 1 := by
    intro hb
    show (a.sock.nextTid + 1) % two32 = a.sock.nextTid + 1
    exact Nat.mod_eq_of_lt hb
  refine ⟨⟨⟨_, rfl⟩, ?_⟩, fun hb => ⟨rfl, hnext hb⟩⟩
  intro hb
  rw [hout] at hb
  have hb' : a.sock.nextTid + 1 < two32 := by omega
  have hn := hnext hb'
  refine ⟨by rw [hn]; omega, by rw [hn, hout]; omega, fun h => h.add hb' to, ?_, ?_, ?_⟩
  · intro r hr
    have : r ∈ a.sock.requests ++ [{ tid := a.sock.nextTid, to := to, sentAt := now }] := hr
    simp only [List.mem_append, List.mem_singleton] at this
    rcases this with h | rfl
    · exact Or.inl h
    · exact Or.inr ⟨Nat.le_refl _, rfl⟩
  · intro p' hp' tid ht; exact Or.inl ⟨p', hp', ht⟩
  · intro p' hp' tid ht; exact Or.inl ⟨p', hp', ht⟩

theorem ping_adv (a : Actor) (to : Addr) (now : Nat) : Adv now a (a.ping to now) := (request_adv a to _ now).1

theorem reply_adv (a : Actor) (to : Addr) (tid : UInt32) (m : MessageType) (now : Nat) : Adv now a (a.reply to tid m) :=
  ⟨⟨_, rfl⟩, fun _ => ⟨Nat.le_refl _, by simp [reply], id, fun _ h => Or.inl h,
    fun p hp tid ht => Or.inl ⟨p, hp, ht⟩, fun p hp tid ht => Or.inl ⟨p, hp, ht⟩⟩⟩

/-! ### visiting -/

/-- the ids a lookup gained are fresh: at or above the counter before, below the counter after -/
def Gained (a a' : Actor) (q q' : IterQuery) : Prop :=
  ∃ extra, q'.inflight = q.inflight ++ extra ∧ ∀ tid ∈ extra, a.sock.nextTid ≤ tid ∧ tid < a'.sock.nextTid

theorem visit_adv (a : Actor) (q : IterQuery) (to : Addr) (now : Nat) :
    Adv now a (a.visit q to now).1 ∧
    (a.sock.nextTid + 1 < two32 → Gained a (a.visit q to now).1 q (a.visit q to now).2) := by
  obtain ⟨h1, h2⟩ := request_adv a to q.request now
  refine ⟨h1, ?_⟩
  intro hb
  obtain ⟨e1, e2⟩ := h2 hb
  refine ⟨[(a.request to q.request now).2], rfl, ?_⟩
  intro tid ht
  simp only [List.mem_singleton] at ht
  subst ht
  show a.sock.nextTid ≤ (a.request to q.request now).2 ∧ (a.request to q.request now).2 < (a.request to q.request now).1.sock.nextTid
  rw [e1, e2]; omega

theorem visit_out (a : Actor) (q : IterQuery) (to : Addr) (now : Nat) :
    (a.visit q to now).1.out.length = a.out.length + 1 := by simp [visit, request]

theorem visitAll_out (a : Actor) (q : IterQuery) (tos : List Addr) (now : Nat) :
    (a.visitAll q tos now).1.out.length = a.out.length + tos.length := by
  unfold visitAll
  induction tos generalizing a q with
  | nil => rfl
  | cons t ts ih =>
    simp only [List.foldl_cons, List.length_cons]
    rw [ih, visit_out]; omega

theorem Gained.trans {a b c : Actor} {q1 q2 q3 : IterQuery} (hab : a.sock.nextTid ≤ b.sock.nextTid)
    (hbc : b.sock.nextTid ≤ c.sock.nextTid) (h1 : Gained a b q1 q2) (h2 : Gained b c q2 q3) : Gained a c q1 q3 := by
  obtain ⟨x1, e1, p1⟩ := h1
  obtain ⟨x2, e2, p2⟩ := h2
  refine ⟨x1 ++ x2, by rw [e2, e1, List.append_assoc], ?_⟩
  intro tid ht
  rcases List.mem_append.1 ht with h | h
  · have := p1 tid h; omega
  · have := p2 tid h; omega

theorem visitAll_adv (a : Actor) (q : IterQuery) (tos : List Addr) (now : Nat) :
    Adv now a (a.visitAll q tos now).1 ∧
    (a.sock.nextTid + tos.length < two32 → Gained a (a.visitAll q tos now).1 q (a.visitAll q tos now).2) := by
  unfold visitAll
  induction tos generalizing a q with
  | nil => exact ⟨Adv.refl now a, fun _ => ⟨[], by simp, by intro t h; cases h⟩⟩
  | cons t ts ih =>
    simp only [List.foldl_cons, List.length_cons]
    obtain ⟨v1, v2⟩ := visit_adv a q t now
    obtain ⟨i1, i2⟩ := ih (a.visit q t now).1 (a.visit q t now).2
    refine ⟨v1.trans i1, ?_⟩
    intro hb
    have hb1 : a.sock.nextTid + 1 < two32 := by omega
    have g1 := v2 hb1
    have f1 := v1.ok (by rw [visit_out]; omega)
    have hn1 : (a.visit q t now).1.sock.nextTid = a.sock.nextTid + 1 := ((request_adv a t q.request now).2 hb1).2
    have g2 := i2 (by rw [hn1]; omega)
    have hout := visitAll_out (a.visit q t now).1 (a.visit q t now).2 ts now
    unfold visitAll at hout
    have f2 := i1.ok (by rw [hout, hn1]; omega)
    exact Gained.trans f1.next f2.next g1 g2

/-! ### starting a lookup -/

/-- the facts survive a change of the core that registers only ids listed before or drawn meanwhile -/
theorem Facts.recore {now : Nat} {a b c : Actor} (f : Facts now a b) (hs : c.sock = b.sock) (ho : c.out = b.out)
    (hi : ∀ p' ∈ c.core.iter, ∀ tid ∈ p'.2.inflight,
      (∃ p ∈ a.core.iter, tid ∈ p.2.inflight) ∨ (a.sock.nextTid ≤ tid ∧ tid < b.sock.nextTid))
    (hp : ∀ p' ∈ c.core.puts, ∀ tid ∈ p'.2.q.inflight,
      (∃ p ∈ a.core.puts, tid ∈ p.2.q.inflight) ∨ (a.sock.nextTid ≤ tid ∧ tid < b.sock.nextTid)) :
    Facts now a c :=
  ⟨by rw [hs]; exact f.next, by rw [hs, ho]; exact f.bound, by rw [hs]; exact f.ord, by rw [hs]; exact f.reqs,
   by rw [hs]; exact hi, by rw [hs]; exact hp⟩

theorem seed_fold_inflight (ns : List Node) (q : IterQuery) :
    (ns.foldl (fun q n => { q with closest := q.closest.add n }) q).inflight = q.inflight := by
  induction ns generalizing q with
  | nil => rfl
  | cons n ns ih => simp only [List.foldl_cons]; rw [ih]

/-- a lookup just created has sent nothing yet -/
theorem createIter_inflight (c : Core) (k : GetKind) (t : Id) (extra : List Addr) (now : Nat)
    (q : IterQuery) (tv : List Addr) (h : (createIterativeQuery c k t extra now).2 = some (q, tv)) :
    q.inflight = [] := by
  unfold createIterativeQuery at h
  split at h
  · cases h
  · simp only at h
    injection h with h
    injection h with h _
    rw [← h]
    split
    · rw [seed_fold_inflight, seed_fold_inflight]; rfl
    · rw [seed_fold_inflight]; rfl

theorem startLookup_adv (a : Actor) (k : GetKind) (t : Id) (extra : List Addr) (now : Nat) :
    Adv now a (a.startLookup k t extra now) := by
  obtain ⟨_, _, _, c4, c5, _⟩ := createIter_fields a.core k t extra now
  have hin := createIter_inflight a.core k t extra now
  unfold startLookup
  split
  · rename_i core q toVisit hm
    rw [hm] at c4 c5 hin
    simp only at c4 c5 hin
    have hq := hin q toVisit rfl
    obtain ⟨v1, v2⟩ := visitAll_adv { a with core := core } q toVisit now
    have hlen := visitAll_out { a with core := core } q toVisit now
    refine ⟨v1.out, ?_⟩
    intro hb
    have hb' : a.sock.nextTid + toVisit.length < two32 := by
      have : (visitAll { a with core := core } q toVisit now).1.out.length = a.out.length + toVisit.length := hlen
      simp only at hb
      omega
    have f := v1.ok (by simp only; omega)
    obtain ⟨ex, e1, e2⟩ := v2 hb'
    have f' : Facts now a (visitAll { a with core := core } q toVisit now).1 :=
      ⟨f.next, f.bound, f.ord, f.reqs,
       fun p' hp' tid ht => by
         obtain ⟨vc, _⟩ := visitAll_core { a with core := core } q toVisit now
         rw [vc] at hp'
         exact Or.inl ⟨p', by rw [← c4]; exact hp', ht⟩,
       fun p' hp' tid ht => by
         obtain ⟨vc, _⟩ := visitAll_core { a with core := core } q toVisit now
         rw [vc] at hp'
         exact Or.inl ⟨p', by rw [← c5]; exact hp', ht⟩⟩
    refine f'.recore rfl rfl ?_ ?_
    · intro p' hp' tid ht
      rcases mem_alSet _ _ _ _ hp' with rfl | h
      · rw [e1, hq, List.nil_append] at ht
        exact Or.inr (e2 tid ht)
      · exact Or.inl ⟨p', by rw [← c4]; exact h, ht⟩
    · intro p' hp' tid ht
      exact Or.inl ⟨p', by rw [← c5]; exact hp', ht⟩
  · rename_i core hm
    rw [hm] at c4 c5
    simp only at c4 c5
    exact Adv.same rfl rfl c4 c5

theorem get_adv (a : Actor) (k : GetKind) (t : Id) (extra : List Addr) (now : Nat) :
    Adv now a (a.get k t extra now).1 := by
  unfold Actor.get
  split
  · exact Adv.refl now a
  · exact startLookup_adv a k t extra now

theorem populate_adv (a : Actor) (now : Nat) : Adv now a (a.populate now) := by
  unfold populate
  split
  · exact Adv.refl now a
  · exact get_adv a _ _ _ now

/-! ### the store phase of a put -/

/-- what a burst of `n` requests does to the socket, as long as the counter does not wrap -/
structure Burst (now : Nat) (s s' : Inflight) (n : Nat) : Prop where
  next : s'.nextTid = s.nextTid + n
  ord : SockOrd s now → SockOrd s' now
  reqs : ∀ x ∈ s'.requests, x ∈ s.requests ∨ (s.nextTid ≤ x.tid ∧ x.sentAt = now)

theorem sendLoop_time (sock : Inflight) (now : Nat) (nodes : List Node) (tids : List Nat) (sent : List (Addr × Bytes)) :
    ∃ n, (PutQuery.sendLoop sock now nodes tids sent).2.2.length = sent.length + n ∧
      (PutQuery.sendLoop sock now nodes tids sent).2.1.length = tids.length + n ∧
      (sock.nextTid + n < two32 →
        Burst now sock (PutQuery.sendLoop sock now nodes tids sent).1 n ∧
        ∃ extra, (PutQuery.sendLoop sock now nodes tids sent).2.1 = tids ++ extra ∧
          ∀ tid ∈ extra, sock.nextTid ≤ tid ∧ tid < sock.nextTid + n) := by
  induction nodes generalizing sock tids sent with
  | nil =>
    refine ⟨0, rfl, rfl, fun _ => ⟨⟨rfl, id, fun x h => Or.inl h⟩, [], by simp [PutQuery.sendLoop], by intro t h; cases h⟩⟩
  | cons nd ns ih =>
    unfold PutQuery.sendLoop
    cases ht : nd.token with
    | none => simp only; exact ih sock tids sent
    | some tok =>
      simp only
      obtain ⟨n, h1, h2, h3⟩ := ih (sock.add nd.addr now).1 (tids ++ [(sock.add nd.addr now).2]) (sent ++ [(nd.addr, tok)])
      refine ⟨n + 1, ?_, ?_, ?_⟩
      · rw [h1]; simp only [List.length_append, List.length_singleton]; omega
      · rw [h2]; simp only [List.length_append, List.length_singleton]; omega
      · intro hb
        have hb1 : sock.nextTid + 1 < two32 := by omega
        have hn1 : (sock.add nd.addr now).1.nextTid = sock.nextTid + 1 := by
          show (sock.nextTid + 1) % two32 = sock.nextTid + 1
          exact Nat.mod_eq_of_lt hb1
        obtain ⟨b, ex, e1, e2⟩ := h3 (by rw [hn1]; omega)
        refine ⟨⟨by rw [b.next, hn1]; omega, fun h => b.ord (h.add hb1 nd.addr), ?_⟩, [sock.nextTid] ++ ex, ?_, ?_⟩
        · intro x hx
          rcases b.reqs x hx with h | ⟨h, ht⟩
          · have : x ∈ sock.requests ++ [{ tid := sock.nextTid, to := nd.addr, sentAt := now }] := h
            simp only [List.mem_append, List.mem_singleton] at this
            rcases this with h | rfl
            · exact Or.inl h
            · exact Or.inr ⟨Nat.le_refl _, rfl⟩
          · rw [hn1] at h; exact Or.inr ⟨by omega, ht⟩
        · rw [e1]; simp [Inflight.add]
        · intro tid htid
          simp only [List.singleton_append, List.mem_cons] at htid
          rcases htid with rfl | h
          · omega
          · have := e2 tid h; rw [hn1] at this; omega

/-- `PutQuery::start`: the number `n` of requests sent, the ids drawn -/
theorem start_time (q : PutQuery) (sock : Inflight) (closest : List Node) (now : Nat) :
    ∃ n, (q.start sock closest now).2.2.2.length = n ∧
      ((q.start sock closest now).1.inflight.drop q.inflight.length).length = n ∧
      (sock.nextTid + n < two32 →
        Burst now sock (q.start sock closest now).2.1 n ∧
        ∀ tid ∈ (q.start sock closest now).1.inflight, tid ∈ q.inflight ∨ (sock.nextTid ≤ tid ∧ tid < sock.nextTid + n)) := by
  unfold PutQuery.start
  split
  · exact ⟨0, rfl, by simp, fun _ => ⟨⟨rfl, id, fun x h => Or.inl h⟩, fun tid h => Or.inl h⟩⟩
  · split
    · exact ⟨0, rfl, by simp, fun _ => ⟨⟨rfl, id, fun x h => Or.inl h⟩, fun tid h => Or.inl h⟩⟩
    · obtain ⟨n, h1, h2, h3⟩ := sendLoop_time sock now (q.candidates closest) q.inflight []
      refine ⟨n, ?_, ?_, ?_⟩
      · simp only
        split <;> simpa using h1
      · simp only
        split <;> (simp only [List.length_drop]; rw [h2]; omega)
      · intro hb
        obtain ⟨b, ex, e1, e2⟩ := h3 hb
        simp only
        split
        · refine ⟨b, ?_⟩
          intro tid ht
          simp only at ht
          rw [e1] at ht
          rcases List.mem_append.1 ht with h | h
          · exact Or.inl h
          · exact Or.inr (e2 tid h)
        · refine ⟨b, ?_⟩
          intro tid ht
          simp only at ht
          rw [e1] at ht
          rcases List.mem_append.1 ht with h | h
          · exact Or.inl h
          · exact Or.inr (e2 tid h)

/-- one datagram of `sendPuts` -/
def sendPut1 (spec : PutSpec) (a : Actor) (pt : (Addr × Bytes) × Nat) : Actor :=
  let p := pt.1
  let (rnd, rng) := rngFill 20 a.core.server.rng
  let a := { a with core := { a.core with server := { a.core.server with rng := rng } } }
  let req : Request := { requesterId := ⟨rnd⟩, rtype := .put p.2 spec }
  let m : Message :=
    { tid := UInt32.ofNat pt.2
      version := some Constants.VERSION
      requesterIp := none
      mtype := .request req
      readOnly := !a.sockServerMode }
  { a with out := a.out ++ [(p.1, m)] }

theorem sendPuts_eq (a : Actor) (spec : PutSpec) (sent : List ((Addr × Bytes) × Nat)) :
    sendPuts a spec sent = sent.foldl (sendPut1 spec) a := rfl

theorem sendPuts_fields (spec : PutSpec) (sent : List ((Addr × Bytes) × Nat)) : ∀ a : Actor,
    (sendPuts a spec sent).sock = a.sock ∧ (sendPuts a spec sent).core.iter = a.core.iter ∧
    (sendPuts a spec sent).core.puts = a.core.puts ∧ (∃ l, (sendPuts a spec sent).out = a.out ++ l ∧ l.length = sent.length) := by
  intro a
  rw [sendPuts_eq]
  induction sent generalizing a with
  | nil => exact ⟨rfl, rfl, rfl, [], by simp, rfl⟩
  | cons x xs ih =>
    simp only [List.foldl_cons]
    obtain ⟨i1, i2, i3, l, i4, i5⟩ := ih (sendPut1 spec a x)
    have hout : ∃ y, (sendPut1 spec a x).out = a.out ++ [y] := ⟨_, rfl⟩
    obtain ⟨y, hy⟩ := hout
    refine ⟨i1, i2, i3, y :: l, ?_, by simp [i5]⟩
    rw [i4, hy]; simp

theorem startPut_eq (a : Actor) (e : PutEntry) (closest : List Node) (now : Nat) :
    (startPut a e closest now).1 =
      sendPuts { a with sock := (e.q.start a.sock closest now).2.1 } e.spec
        ((e.q.start a.sock closest now).2.2.2.zip ((e.q.start a.sock closest now).1.inflight.drop e.q.inflight.length)) ∧
    (startPut a e closest now).2.1 = { e with q := (e.q.start a.sock closest now).1 } := ⟨rfl, rfl⟩

/-- `PutQuery::start` on the actor's socket: the ids the put lists afterwards are its old ones or new -/
theorem startPut_adv (a : Actor) (e : PutEntry) (closest : List Node) (now : Nat) :
    Adv now a (startPut a e closest now).1 ∧
    (a.sock.nextTid + ((startPut a e closest now).1.out.length - a.out.length) < two32 →
      ∀ tid ∈ (startPut a e closest now).2.1.q.inflight,
        tid ∈ e.q.inflight ∨ (a.sock.nextTid ≤ tid ∧ tid < (startPut a e closest now).1.sock.nextTid)) := by
  obtain ⟨e1, e2⟩ := startPut_eq a e closest now
  obtain ⟨n, h1, h2, h3⟩ := start_time e.q a.sock closest now
  obtain ⟨s1, s2, s3, l, s4, s5⟩ := sendPuts_fields e.spec
    ((e.q.start a.sock closest now).2.2.2.zip ((e.q.start a.sock closest now).1.inflight.drop e.q.inflight.length))
    { a with sock := (e.q.start a.sock closest now).2.1 }
  have hl : l.length = n := by rw [s5, List.length_zip, h1, h2]; simp
  rw [← e1] at s1 s2 s3 s4
  simp only at s1 s2 s3 s4
  have hout : (startPut a e closest now).1.out.length = a.out.length + n := by rw [s4, List.length_append, hl]
  refine ⟨⟨⟨l, s4⟩, ?_⟩, ?_⟩
  · intro hb
    rw [hout] at hb
    obtain ⟨b, _⟩ := h3 (by omega)
    exact ⟨by rw [s1, b.next]; omega, by rw [s1, b.next, hout]; omega, by rw [s1]; exact b.ord, by rw [s1]; exact b.reqs,
      fun p' hp' tid ht => Or.inl ⟨p', by rw [← s2]; exact hp', ht⟩,
      fun p' hp' tid ht => Or.inl ⟨p', by rw [← s3]; exact hp', ht⟩⟩
  · intro hb
    rw [hout] at hb
    obtain ⟨b, ht⟩ := h3 (by omega)
    intro tid htid
    rw [e2] at htid
    rcases ht tid htid with h | h
    · exact Or.inl h
    · exact Or.inr ⟨h.1, by rw [s1, b.next]; exact h.2⟩

theorem startPutOne_adv (now : Nat) (acc : Actor × List (Id × Option PutErr)) (d : Id × List Node) :
    Adv now acc.1 (startPutOne now acc d).1 := by
  unfold startPutOne
  split
  · rename_i e he
    obtain ⟨h1, h2⟩ := startPut_adv acc.1 e d.2 now
    have key : Adv now acc.1
        { (startPut acc.1 e d.2 now).1 with
          core := { (startPut acc.1 e d.2 now).1.core with
                    puts := alSet (startPut acc.1 e d.2 now).1.core.puts d.1 (startPut acc.1 e d.2 now).2.1 } } := by
      refine ⟨h1.out, ?_⟩
      intro hb
      have f := h1.ok hb
      refine f.recore rfl rfl (fun p' hp' tid ht => f.iter p' hp' tid ht) ?_
      intro p' hp' tid ht
      rcases mem_alSet _ _ _ _ hp' with rfl | h
      · rcases h2 hb tid ht with h | h
        · exact Or.inl ⟨(d.1, e), mem_of_alGet _ _ _ he, h⟩
        · exact Or.inr h
      · exact f.puts p' h tid ht
    split
    · exact key
    · exact key
  · exact Adv.refl now _

theorem startPuts_adv (a : Actor) (now : Nat) (di : List (Id × List Node)) (dp : List (Id × Option PutErr)) :
    Adv now a (startPuts a now di dp).1 := by
  unfold startPuts
  have : ∀ (l : List (Id × List Node)) (acc : Actor × List (Id × Option PutErr)),
      Adv now acc.1 (l.foldl (startPutOne now) acc).1 := by
    intro l
    induction l with
    | nil => intro acc; exact Adv.refl now _
    | cons d ds ih => intro acc; simp only [List.foldl_cons]; exact (startPutOne_adv now acc d).trans (ih _)
  exact this di (a, dp)

/-! ### the message pick-up -/

theorem checkConcurrency_time (c : Core) (spec : PutSpec) :
    (checkConcurrency c spec).1.iter = c.iter ∧ ∀ p ∈ (checkConcurrency c spec).1.puts, p ∈ c.puts := by
  unfold checkConcurrency
  split
  · split
    · split
      · split
        · exact ⟨rfl, fun p h => h⟩
        · split
          · exact ⟨rfl, fun p h => h⟩
          · split
            · split
              · exact ⟨rfl, fun p h => mem_alRemove _ _ _ h⟩
              · exact ⟨rfl, fun p h => h⟩
            · exact ⟨rfl, fun p h => h⟩
      · exact ⟨rfl, fun p h => h⟩
    · exact ⟨rfl, fun p h => h⟩
  · exact ⟨rfl, fun p h => h⟩

theorem newPutEntry_inflight (spec : PutSpec) (extra : List Node) : (newPutEntry spec extra).q.inflight = [] := rfl

theorem putFromCache_adv (a : Actor) (spec : PutSpec) (extra : List Node) (closest : List Node) (now : Nat) :
    Adv now a (putFromCache a spec extra closest now).1 := by
  obtain ⟨h1, h2⟩ := startPut_adv a (newPutEntry spec extra) closest now
  unfold putFromCache
  split
  · exact h1
  · simp only [registerPut]
    refine ⟨h1.out, ?_⟩
    intro hb
    have f := h1.ok hb
    refine f.recore rfl rfl (fun p' hp' tid ht => f.iter p' hp' tid ht) ?_
    intro p' hp' tid ht
    rcases mem_alSet _ _ _ _ hp' with rfl | h
    · rcases h2 hb tid ht with h | h
      · rw [newPutEntry_inflight] at h; cases h
      · exact Or.inr h
    · exact f.puts p' h tid ht

theorem putAfterCheck_adv (a : Actor) (spec : PutSpec) (extra : List Node) (now : Nat) :
    Adv now a (putAfterCheck a spec extra now).1 := by
  obtain ⟨_, _, _, g4, g5, _⟩ := getCached_fields a.core spec.target now
  have hb0 : Adv now a { a with core := (getCachedClosestNodes a.core spec.target now).1 } := Adv.same rfl rfl g4 g5
  unfold putAfterCheck
  split
  · exact hb0.trans (putFromCache_adv _ spec extra _ now)
  · simp only [registerPut]
    have hg := get_adv { a with core := (getCachedClosestNodes a.core spec.target now).1 } (GetKind.ofPut spec) spec.target [] now
    refine hb0.trans ⟨hg.out, ?_⟩
    intro hb
    have f := hg.ok hb
    refine f.recore rfl rfl (fun p' hp' tid ht => f.iter p' hp' tid ht) ?_
    intro p' hp' tid ht
    rcases mem_alSet _ _ _ _ hp' with rfl | h
    · rw [newPutEntry_inflight] at ht; cases ht
    · exact f.puts p' h tid ht

theorem put_adv (a : Actor) (spec : PutSpec) (extra : List Node) (now : Nat) : Adv now a (a.put spec extra now).1 := by
  obtain ⟨c1, c2⟩ := checkConcurrency_time a.core spec
  have hb0 : Adv now a { a with core := (checkConcurrency a.core spec).1 } :=
    Adv.quiet rfl rfl (List.Sublist.refl _) (fun p' hp' tid ht => ⟨p', by rw [← c1]; exact hp', ht⟩)
      (fun p' hp' tid ht => ⟨p', c2 p' hp', ht⟩)
  unfold Actor.put
  split
  · exact hb0
  · exact hb0.trans (putAfterCheck_adv _ spec extra now)

theorem events_adv {now : Nat} {a a' : Actor} (ho : a'.out = a.out) (hs : a'.sock = a.sock) (hc : a'.core = a.core) :
    Adv now a a' := Adv.same ho hs (by rw [hc]) (by rw [hc])

theorem pickup_adv (a : Actor) (env : Env) (msg : Option ApiMsg) : Adv env.now a (a.pickup env msg) := by
  unfold pickup
  split
  · exact Adv.refl _ a
  · exact Adv.refl _ a
  · exact events_adv rfl rfl rfl
  · unfold pickupPut
    split
    · exact (put_adv a _ _ env.now).trans (events_adv rfl rfl rfl)
    · exact (put_adv a _ _ env.now).trans (events_adv rfl rfl rfl)
  · unfold pickupGet
    exact (get_adv a _ _ _ env.now).trans (events_adv rfl rfl rfl)

/-! ### the first half of the tick: receive, handle, forward -/

theorem decide_time (s : Inflight) (kind : Incoming) (tid : Nat) (src : Addr) (now : Nat) :
    (s.decide kind tid src now).1.nextTid = s.nextTid ∧ (s.decide kind tid src now).1.requests.Sublist s.requests := by
  unfold Inflight.decide
  split
  · exact ⟨rfl, List.Sublist.refl _⟩
  · split
    · exact ⟨rfl, List.Sublist.refl _⟩
    · unfold Inflight.isExpectedResponse
      split
      · split
        · exact ⟨rfl, List.Sublist.refl _⟩
        · exact ⟨(Inflight.remove_fields s tid).1, Inflight.remove_requests_sublist s tid⟩
      · exact ⟨rfl, List.Sublist.refl _⟩

theorem recvPhase_time (a : Actor) (now : Nat) (dgram : Option (Message × Addr)) :
    (a.recvPhase now dgram).1.out = a.out ∧ (a.recvPhase now dgram).1.core = a.core ∧
    (a.recvPhase now dgram).1.sock.nextTid = a.sock.nextTid ∧
    (a.recvPhase now dgram).1.sock.requests.Sublist a.sock.requests := by
  unfold recvPhase
  split
  · exact ⟨rfl, rfl, rfl, List.Sublist.refl _⟩
  · rename_i m src
    obtain ⟨d1, d2⟩ := decide_time a.sock
      (match m.mtype with | .request _ => Incoming.request | .response _ => Incoming.response | .error _ => Incoming.error)
      m.tid.toNat src now
    exact ⟨rfl, rfl, d1, d2⟩

theorem recvPhase_adv (a : Actor) (now : Nat) (dgram : Option (Message × Addr)) : Adv now a (a.recvPhase now dgram).1 := by
  obtain ⟨h1, h2, h3, h4⟩ := recvPhase_time a now dgram
  exact Adv.quiet h1 h3 h4 (fun p' hp' tid ht => ⟨p', by rw [← h2]; exact hp', ht⟩)
    (fun p' hp' tid ht => ⟨p', by rw [← h2]; exact hp', ht⟩)

theorem handleRequest_puts (c : Core) (env : Env) (src : Addr) (ro : Bool) (version : Option Bytes) (req : Request) :
    (handleRequest c env src ro version req).1.puts = c.puts := by
  have h1 : (maybeAddNodeFromRequest c src version ro req env.now).puts = c.puts := by
    unfold maybeAddNodeFromRequest
    split
    · split
      · unfold addRequester
        split
        · split <;> rfl
        · split <;> rfl
      · rfl
    · rfl
  have h2 : ∀ c' : Core, (verifySelfPing c' src req env.now).1.puts = c'.puts := by
    intro c'
    unfold verifySelfPing
    split
    · split
      · split <;> rfl
      · rfl
    · rfl
  unfold handleRequest
  split
  · rfl
  · unfold serveRequest
    split
    · exact (h2 _).trans h1
    · exact (h2 _).trans h1

theorem sendReply_adv (a : Actor) (src : Addr) (tid : UInt32) (r : Option Reply) (now : Nat) :
    Adv now a (a.sendReply src tid r) := by
  unfold sendReply
  split
  · exact reply_adv a src tid _ now
  · exact reply_adv a src tid _ now
  · exact Adv.refl now a

theorem handleIncomingRequest_adv (a : Actor) (env : Env) (m : Message) (src : Addr) (req : Request) :
    Adv env.now a (a.handleIncomingRequest env m src req) := by
  obtain ⟨c1, _⟩ := handleRequest_cache a.core env src m.readOnly m.version req
  have c2 := handleRequest_puts a.core env src m.readOnly m.version req
  have hb0 : Adv env.now a { a with core := (handleRequest a.core env src m.readOnly m.version req).1 } :=
    Adv.same rfl rfl c1 c2
  unfold handleIncomingRequest
  split
  · exact hb0.trans ((sendReply_adv _ src m.tid _ env.now).trans (populate_adv _ env.now))
  · exact hb0.trans (sendReply_adv _ src m.tid _ env.now)

theorem putError_inflight (q : PutQuery) (code : Int) : (q.error code).inflight = q.inflight := by
  unfold PutQuery.error
  split
  · split <;> rfl
  · rfl

theorem putStep_inflight' (q : PutQuery) (m : MessageType) : (putStep q m).inflight = q.inflight := by
  unfold putStep
  split
  · rfl
  · exact putError_inflight q _
  · rfl

theorem absorb_inflight (q : IterQuery) (now : Nat) (src : Addr) (m : Message) : (absorb q now src m).inflight = q.inflight := by
  have h1 : ∀ (ns : List Node) (q : IterQuery), (addCandidates q ns now).inflight = q.inflight := by
    intro ns
    unfold addCandidates
    induction ns with
    | nil => intro q; rfl
    | cons n ns ih => intro q; simp only [List.foldl_cons]; rw [ih]
  have h2 : (absorbNodes q now m).inflight = q.inflight := by
    unfold absorbNodes
    split
    · split
      · exact h1 _ _
      · rfl
    · rfl
  have h3 : ∀ q : IterQuery, (absorbToken q now src m).inflight = q.inflight := by
    intro q
    unfold absorbToken
    split
    · split <;> rfl
    · rfl
  have h4 : ∀ q : IterQuery, (absorbVote q m).inflight = q.inflight := by
    intro q
    unfold absorbVote
    split
    · unfold IterQuery.addVote; rfl
    · rfl
  unfold absorb
  rw [h4, h3, h2]

theorem lookupStep_inflight (q : IterQuery) (env : Env) (src : Addr) (m : Message) :
    (lookupStep q env src m).1.inflight = q.inflight := by
  unfold lookupStep
  split
  · exact absorb_inflight q env.now src m
  · exact absorb_inflight q env.now src m

theorem addResponder_time (c : Core) (now : Nat) (src : Addr) (m : Message) :
    (addResponder c now src m).iter = c.iter ∧ (addResponder c now src m).puts = c.puts := by
  unfold addResponder
  split
  · split <;> exact ⟨rfl, rfl⟩
  · exact ⟨rfl, rfl⟩

/-- a response draws no id: every id listed afterwards was listed before -/
theorem handleResponse_time (c : Core) (env : Env) (src : Addr) (m : Message) :
    (∀ p' ∈ (handleResponse c env src m).1.iter, ∀ tid ∈ p'.2.inflight, ∃ p ∈ c.iter, tid ∈ p.2.inflight) ∧
    (∀ p' ∈ (handleResponse c env src m).1.puts, ∀ tid ∈ p'.2.q.inflight, ∃ p ∈ c.puts, tid ∈ p.2.q.inflight) := by
  unfold handleResponse
  split
  · exact ⟨fun p' h tid ht => ⟨p', h, ht⟩, fun p' h tid ht => ⟨p', h, ht⟩⟩
  · split
    · rename_i target e hf
      have hmem : (target, e) ∈ c.puts := List.mem_of_find?_eq_some hf
      refine ⟨fun p' h tid ht => ⟨p', h, ht⟩, ?_⟩
      intro p' hp' tid ht
      rcases mem_alSet _ _ _ _ hp' with rfl | h
      · simp only [putStep_inflight'] at ht
        exact ⟨_, hmem, ht⟩
      · exact ⟨p', h, ht⟩
    · split
      · rename_i target q hf
        have hmem : (target, q) ∈ c.iter := List.mem_of_find?_eq_some hf
        have key : ∀ p' ∈ alSet c.iter target (lookupStep q env src m).1, ∀ tid ∈ p'.2.inflight,
            ∃ p ∈ c.iter, tid ∈ p.2.inflight := by
          intro p' hp' tid ht
          rcases mem_alSet _ _ _ _ hp' with rfl | h
          · simp only [lookupStep_inflight] at ht
            exact ⟨_, hmem, ht⟩
          · exact ⟨p', h, ht⟩
        split
        · obtain ⟨r1, r2⟩ := addResponder_time { c with iter := alSet c.iter target (lookupStep q env src m).1 } env.now src m
          rw [r1, r2]
          exact ⟨key, fun p' h tid ht => ⟨p', h, ht⟩⟩
        · exact ⟨key, fun p' h tid ht => ⟨p', h, ht⟩⟩
      · split
        · obtain ⟨r1, r2⟩ := addResponder_time c env.now src m
          rw [r1, r2]
          exact ⟨fun p' h tid ht => ⟨p', h, ht⟩, fun p' h tid ht => ⟨p', h, ht⟩⟩
        · exact ⟨fun p' h tid ht => ⟨p', h, ht⟩, fun p' h tid ht => ⟨p', h, ht⟩⟩

theorem handleIncoming_adv (a : Actor) (env : Env) (handed : Option (Message × Addr)) :
    Adv env.now a (a.handleIncoming env handed).1 := by
  unfold handleIncoming
  split
  · exact Adv.refl _ a
  · rename_i m src
    split
    · exact handleIncomingRequest_adv a env m src _
    · obtain ⟨h1, h2⟩ := handleResponse_time a.core env src m
      exact Adv.quiet rfl rfl (List.Sublist.refl _) h1 h2

theorem forwardValue_adv (a : Actor) (v : Option (Id × Value)) (now : Nat) : Adv now a (a.forwardValue v) := by
  unfold forwardValue
  split
  · split
    · exact events_adv rfl rfl rfl
    · exact Adv.refl now a
  · exact Adv.refl now a

theorem preDone_adv (a : Actor) (env : Env) (dgram : Option (Message × Addr)) : Adv env.now a (a.preDone env dgram) := by
  unfold preDone
  exact (recvPhase_adv a env.now dgram).trans ((handleIncoming_adv _ env _).trans (forwardValue_adv _ _ env.now))

/-! ### the second half of the tick -/

theorem visitClosest_adv (a : Actor) (t : Id) (now : Nat) : Adv now a (a.visitClosest t now) := by
  unfold visitClosest
  cases hg : alGet a.core.iter t with
  | none => exact Adv.refl now a
  | some q =>
    simp only
    obtain ⟨v1, v2⟩ := visitAll_adv a q q.closestCandidates now
    obtain ⟨vc, _⟩ := visitAll_core a q q.closestCandidates now
    have hlen := visitAll_out a q q.closestCandidates now
    refine ⟨v1.out, ?_⟩
    intro hb
    have hb' : a.sock.nextTid + q.closestCandidates.length < two32 := by
      simp only at hb; omega
    have f := v1.ok (by simp only at hb; exact hb)
    obtain ⟨ex, e1, e2⟩ := v2 hb'
    refine f.recore rfl rfl ?_ ?_
    · intro p' hp' tid ht
      simp only [vc] at hp'
      rcases mem_alSet _ _ _ _ hp' with rfl | h
      · rw [e1] at ht
        rcases List.mem_append.1 ht with h | h
        · exact Or.inl ⟨(t, q), mem_of_alGet _ _ _ hg, h⟩
        · exact Or.inr (e2 tid h)
      · exact Or.inl ⟨p', h, ht⟩
    · intro p' hp' tid ht
      simp only [vc] at hp'
      exact Or.inl ⟨p', hp', ht⟩

theorem visitClosest_fold_adv (now : Nat) (l : List (Id × IterQuery)) (b : Actor) :
    Adv now b (l.foldl (fun (a : Actor) (p : Id × IterQuery) => a.visitClosest p.1 now) b) := by
  induction l generalizing b with
  | nil => exact Adv.refl now b
  | cons p ps ih => simp only [List.foldl_cons]; exact (visitClosest_adv b p.1 now).trans (ih _)

theorem visitClosestAll_adv (a : Actor) (now : Nat) : Adv now a (a.visitClosestAll now) :=
  visitClosest_fold_adv now a.core.iter a

theorem decrementCached_time (c : Core) (e : Option CachedQuery) :
    (decrementCached c e).iter = c.iter ∧ (decrementCached c e).puts = c.puts := by
  unfold decrementCached
  split
  · split
    · exact ⟨rfl, rfl⟩
    · split <;> exact ⟨rfl, rfl⟩
  · exact ⟨rfl, rfl⟩

theorem countEntry_time (c : Core) (e : CachedQuery) :
    (countEntry c e).iter = c.iter ∧ (countEntry c e).puts = c.puts := by
  unfold countEntry
  split
  · exact ⟨rfl, rfl⟩
  · split <;> exact ⟨rfl, rfl⟩

theorem evictIfFull_time (c : Core) : (evictIfFull c).iter = c.iter ∧ (evictIfFull c).puts = c.puts := by
  unfold evictIfFull
  split
  · obtain ⟨d1, d2⟩ := decrementCached_time { c with cache := c.cache.popLru.1 } (c.cache.popLru.2.map (·.2))
    exact ⟨d1, d2⟩
  · exact ⟨rfl, rfl⟩

theorem cacheQuery_time (c : Core) (q : IterQuery) (nodes : List Node) :
    (cacheQuery c q nodes).iter = c.iter ∧ (cacheQuery c q nodes).puts = c.puts := by
  obtain ⟨e1, e2⟩ := evictIfFull_time c
  unfold cacheQuery
  split
  · exact ⟨e1, e2⟩
  · obtain ⟨c1, c2⟩ := countEntry_time
      (decrementCached { (evictIfFull c) with cache := (evictIfFull c).cache.put q.target (mkEntry q nodes) }
        ((evictIfFull c).cache.find? q.target)) (mkEntry q nodes)
    obtain ⟨d1, d2⟩ := decrementCached_time
      { (evictIfFull c) with cache := (evictIfFull c).cache.put q.target (mkEntry q nodes) }
      ((evictIfFull c).cache.find? q.target)
    exact ⟨c1.trans (d1.trans e1), c2.trans (d2.trans e2)⟩

theorem updateAddressVotes_time (c : Core) (q : IterQuery) :
    (updateAddressVotes c q).1.iter = c.iter ∧ (updateAddressVotes c q).1.puts = c.puts := by
  unfold updateAddressVotes
  split
  · split <;> exact ⟨rfl, rfl⟩
  · exact ⟨rfl, rfl⟩

theorem cleanupOneLookup_time (acc : Core × Option Addr) (d : Id × List Node) :
    (∀ p ∈ (cleanupOneLookup acc d).1.iter, p ∈ acc.1.iter) ∧ (cleanupOneLookup acc d).1.puts = acc.1.puts := by
  unfold cleanupOneLookup
  split
  · rename_i q _
    obtain ⟨c1, c2⟩ := cacheQuery_time { acc.1 with iter := alRemove acc.1.iter d.1 } q d.2
    obtain ⟨u1, u2⟩ := updateAddressVotes_time (cacheQuery { acc.1 with iter := alRemove acc.1.iter d.1 } q d.2) q
    split
    · exact ⟨fun p hp => by
        simp only at hp; rw [u1, c1] at hp; exact mem_alRemove _ _ _ hp, by simp only; rw [u2, c2]⟩
    · exact ⟨fun p hp => by
        simp only at hp; rw [u1, c1] at hp; exact mem_alRemove _ _ _ hp, by simp only; rw [u2, c2]⟩
  · exact ⟨fun p hp => hp, rfl⟩

theorem cleanupDone_time (c : Core) (di : List (Id × List Node)) (dp : List (Id × Option PutErr)) :
    (∀ p ∈ (cleanupDone c di dp).1.iter, p ∈ c.iter) ∧ (∀ p ∈ (cleanupDone c di dp).1.puts, p ∈ c.puts) := by
  unfold cleanupDone
  have h1 : ∀ (l : List (Id × List Node)) (acc : Core × Option Addr),
      (∀ p ∈ (l.foldl cleanupOneLookup acc).1.iter, p ∈ acc.1.iter) ∧ (l.foldl cleanupOneLookup acc).1.puts = acc.1.puts := by
    intro l
    induction l with
    | nil => intro acc; exact ⟨fun p hp => hp, rfl⟩
    | cons d ds ih =>
      intro acc
      simp only [List.foldl_cons]
      obtain ⟨i1, i2⟩ := ih (cleanupOneLookup acc d)
      obtain ⟨o1, o2⟩ := cleanupOneLookup_time acc d
      exact ⟨fun p hp => o1 p (i1 p hp), i2.trans o2⟩
  have h2 : ∀ (l : List (Id × Option PutErr)) (c' : Core),
      (l.foldl removePut c').iter = c'.iter ∧ ∀ p ∈ (l.foldl removePut c').puts, p ∈ c'.puts := by
    intro l
    induction l with
    | nil => intro c'; exact ⟨rfl, fun p hp => hp⟩
    | cons d ds ih =>
      intro c'
      simp only [List.foldl_cons]
      obtain ⟨i1, i2⟩ := ih (removePut c' d)
      exact ⟨i1, fun p hp => mem_alRemove _ _ _ (i2 p hp)⟩
  obtain ⟨a1, a2⟩ := h1 di (c, none)
  obtain ⟨b1, b2⟩ := h2 dp (di.foldl cleanupOneLookup (c, none)).1
  simp only
  exact ⟨fun p hp => a1 p (by rw [b1] at hp; exact hp), fun p hp => by rw [← a2]; exact b2 p hp⟩

theorem pingOpt_adv (a : Actor) (to : Option Addr) (now : Nat) : Adv now a (a.pingOpt to now) := by
  unfold pingOpt
  split
  · exact ping_adv a _ now
  · exact Adv.refl now a

theorem releaseGetCallers_time (a : Actor) (done : List (Id × List Node)) :
    (a.releaseGetCallers done).out = a.out ∧ (a.releaseGetCallers done).sock = a.sock ∧
    (a.releaseGetCallers done).core = a.core := by
  unfold releaseGetCallers
  induction done generalizing a with
  | nil => exact ⟨rfl, rfl, rfl⟩
  | cons d ds ih =>
    simp only [List.foldl_cons]
    obtain ⟨i1, i2, i3⟩ := ih (a.releaseGetOne d)
    have h : (a.releaseGetOne d).out = a.out ∧ (a.releaseGetOne d).sock = a.sock ∧ (a.releaseGetOne d).core = a.core := by
      unfold releaseGetOne; split <;> exact ⟨rfl, rfl, rfl⟩
    exact ⟨i1.trans h.1, i2.trans h.2.1, i3.trans h.2.2⟩

theorem releasePutCallers_time (a : Actor) (done : List (Id × Option PutErr)) :
    (a.releasePutCallers done).out = a.out ∧ (a.releasePutCallers done).sock = a.sock ∧
    (a.releasePutCallers done).core = a.core := by
  unfold releasePutCallers
  induction done generalizing a with
  | nil => exact ⟨rfl, rfl, rfl⟩
  | cons d ds ih =>
    simp only [List.foldl_cons]
    obtain ⟨i1, i2, i3⟩ := ih (a.releasePutOne d)
    have h : (a.releasePutOne d).out = a.out ∧ (a.releasePutOne d).sock = a.sock ∧ (a.releasePutOne d).core = a.core := by
      unfold releasePutOne; split <;> exact ⟨rfl, rfl, rfl⟩
    exact ⟨i1.trans h.1, i2.trans h.2.1, i3.trans h.2.2⟩

/-- the end of the tick after `start_put_queries` -/
theorem finishTick_rest_adv (a : Actor) (now : Nat) (dp0 : List (Id × Option PutErr)) :
    Adv now (startPuts a now (a.doneLookups now) dp0).1 (finishTick a now dp0) := by
  unfold finishTick
  generalize startPuts a now (a.doneLookups now) dp0 = sp
  obtain ⟨c1, c2⟩ := cleanupDone_time sp.1.core (a.doneLookups now) sp.2
  generalize cleanupDone sp.1.core (a.doneLookups now) sp.2 = cd at c1 c2 ⊢
  have h2 : Adv now sp.1 { sp.1 with core := cd.1 } :=
    Adv.quiet rfl rfl (List.Sublist.refl _) (fun p' hp' tid ht => ⟨p', c1 p' hp', ht⟩)
      (fun p' hp' tid ht => ⟨p', c2 p' hp', ht⟩)
  have h3 := pingOpt_adv { sp.1 with core := cd.1 } cd.2 now
  obtain ⟨g1, g2, g3⟩ := releaseGetCallers_time (pingOpt { sp.1 with core := cd.1 } cd.2 now) (a.doneLookups now)
  obtain ⟨p1, p2, p3⟩ := releasePutCallers_time
    (releaseGetCallers (pingOpt { sp.1 with core := cd.1 } cd.2 now) (a.doneLookups now)) sp.2
  exact h2.trans (h3.trans ((events_adv g1 g2 g3).trans (events_adv p1 p2 p3)))

theorem finishTick_adv (a : Actor) (now : Nat) (dp0 : List (Id × Option PutErr)) : Adv now a (finishTick a now dp0) :=
  (startPuts_adv a now (a.doneLookups now) dp0).trans (finishTick_rest_adv a now dp0)

theorem afterRecv_adv (a : Actor) (env : Env) (dgram : Option (Message × Addr)) : Adv env.now a (a.afterRecv env dgram) := by
  unfold afterRecv
  exact (preDone_adv a env dgram).trans ((visitClosestAll_adv _ env.now).trans (finishTick_adv _ env.now _))

/-! ### maintenance, and the whole iteration -/

theorem pingTable_adv (a : Actor) (now : Nat) : Adv now a (a.pingTable now) := by
  unfold pingTable
  split
  · have hfold : ∀ (l : List Addr) (b : Actor), Adv now b (l.foldl (fun a addr => a.ping addr now) b) := by
      intro l
      induction l with
      | nil => intro b; exact Adv.refl now b
      | cons x xs ih => intro b; simp only [List.foldl_cons]; exact (ping_adv b x now).trans (ih _)
    have h0 : Adv now a { a with core := (pingRound { a.core with lastPing := now } now).1 } :=
      Adv.same rfl rfl rfl rfl
    exact h0.trans (hfold _ _)
  · exact Adv.refl now a

theorem bootstrapIfEmpty_adv (a : Actor) (now : Nat) : Adv now a (a.bootstrapIfEmpty now) := by
  unfold bootstrapIfEmpty
  split
  · exact populate_adv a now
  · exact Adv.refl now a

theorem refreshTable_adv (a : Actor) (now : Nat) : Adv now a (a.refreshTable now) := by
  unfold refreshTable
  split
  · have h0 : Adv now a (adaptiveSwitch { a with core := { a.core with lastRefresh := now } }) := by
      unfold adaptiveSwitch
      split
      · exact Adv.same rfl rfl rfl rfl
      · exact Adv.same rfl rfl rfl rfl
    exact h0.trans (populate_adv _ now)
  · exact Adv.refl now a

theorem maintenance_adv (a : Actor) (now : Nat) : Adv now a (a.maintenance now) := by
  unfold maintenance
  exact (bootstrapIfEmpty_adv a now).trans ((refreshTable_adv _ now).trans (pingTable_adv _ now))

theorem cleanup_adv (a : Actor) (now : Nat) : Adv now a { a with sock := a.sock.cleanup now } := by
  have hn : (a.sock.cleanup now).nextTid = a.sock.nextTid := by
    unfold Inflight.cleanup; split <;> rfl
  exact Adv.quiet rfl hn (Inflight.cleanup_requests_sublist a.sock now) (fun p' hp' tid ht => ⟨p', hp', ht⟩)
    (fun p' hp' tid ht => ⟨p', hp', ht⟩)

/-- **One iteration of the actor loop**, as far as the request bookkeeping is concerned. -/
theorem step_adv (a : Actor) (env : Env) (dgram : Option (Message × Addr)) (msg : Option ApiMsg) :
    Adv env.now a (a.step env dgram msg) := by
  unfold Actor.step
  exact (afterRecv_adv a env dgram).trans ((pickup_adv _ env msg).trans ((maintenance_adv _ env.now).trans (cleanup_adv _ env.now)))

/-- the bookkeeping invariant survives an iteration during which the counter does not wrap and the
    clock does not run backwards -/
theorem step_sockOk (a : Actor) (now0 : Nat) (h : SockOk a now0) (env : Env) (hnow : now0 ≤ env.now)
    (dgram : Option (Message × Addr)) (msg : Option ApiMsg)
    (hb : a.sock.nextTid + ((a.step env dgram msg).out.length - a.out.length) < two32) :
    SockOk (a.step env dgram msg) env.now :=
  ((step_adv a env dgram msg).ok hb).sockOk (h.mono hnow)

/-! ### the request timeout only changes when a datagram is received -/

theorem visitAll_tmo (a : Actor) (q : IterQuery) (tos : List Addr) (now : Nat) :
    (a.visitAll q tos now).1.sock.timeout = a.sock.timeout := by
  unfold visitAll
  induction tos generalizing a q with
  | nil => rfl
  | cons t ts ih => simp only [List.foldl_cons]; rw [ih]; rfl

theorem startLookup_tmo (a : Actor) (k : GetKind) (t : Id) (extra : List Addr) (now : Nat) :
    (a.startLookup k t extra now).sock.timeout = a.sock.timeout := by
  unfold startLookup
  split
  · simp only; rw [visitAll_tmo]
  · rfl

theorem get_tmo (a : Actor) (k : GetKind) (t : Id) (extra : List Addr) (now : Nat) :
    (a.get k t extra now).1.sock.timeout = a.sock.timeout := by
  unfold Actor.get
  split
  · rfl
  · exact startLookup_tmo a k t extra now

theorem populate_tmo (a : Actor) (now : Nat) : (a.populate now).sock.timeout = a.sock.timeout := by
  unfold populate
  split
  · rfl
  · exact get_tmo a _ _ _ now

theorem sendReply_tmo (a : Actor) (src : Addr) (tid : UInt32) (r : Option Reply) :
    (a.sendReply src tid r).sock = a.sock := by
  unfold sendReply
  split <;> rfl

theorem handleIncoming_tmo (a : Actor) (env : Env) (handed : Option (Message × Addr)) :
    (a.handleIncoming env handed).1.sock.timeout = a.sock.timeout := by
  unfold handleIncoming
  split
  · rfl
  · split
    · unfold handleIncomingRequest
      split
      · rw [populate_tmo, sendReply_tmo]
      · rw [sendReply_tmo]
    · rfl

theorem forwardValue_sock (a : Actor) (v : Option (Id × Value)) : (a.forwardValue v).sock = a.sock := by
  unfold forwardValue
  split
  · split <;> rfl
  · rfl

theorem visitClosest_tmo (a : Actor) (t : Id) (now : Nat) : (a.visitClosest t now).sock.timeout = a.sock.timeout := by
  unfold visitClosest
  split
  · simp only; rw [visitAll_tmo]
  · rfl

theorem visitClosestAll_tmo (a : Actor) (now : Nat) : (a.visitClosestAll now).sock.timeout = a.sock.timeout := by
  unfold visitClosestAll
  have : ∀ (l : List (Id × IterQuery)) (b : Actor),
      (l.foldl (fun (a : Actor) (p : Id × IterQuery) => a.visitClosest p.1 now) b).sock.timeout = b.sock.timeout := by
    intro l
    induction l with
    | nil => intro b; rfl
    | cons p ps ih => intro b; simp only [List.foldl_cons]; rw [ih, visitClosest_tmo]
  exact this a.core.iter a

end Mainline
