/-
  Shape invariants of the actor model used by the no-hang argument (C06): every responder of a
  lookup carries a write token, and every cached node list either has at most `u8::MAX` nodes or
  consists of token-bearing nodes only — so a put started from a fresh cache entry always has
  somebody to write to.
-/
import MainlineModel.Lemmas.AssocLemmas
import MainlineModel.Lemmas.ActorLemmas
import MainlineModel.Lemmas.LruLemmas
import MainlineModel.Lemmas.PutQueryLemmas
namespace Mainline
open Actor

/-! ### `ClosestNodes.add` adds at most the node -/

theorem ClosestNodes.mem_insert (c : ClosestNodes) (n x : Node) (h : x ∈ (c.insert n).nodes) :
    x = n ∨ x ∈ c.nodes := by
  unfold ClosestNodes.insert at h
  split at h
  · rename_i pos _
    simp only at h
    by_cases hp : pos ≤ c.nodes.length
    · exact (List.mem_insertIdx hp).1 h
    · rw [List.insertIdx_of_length_lt (by omega)] at h
      exact Or.inr h
  · exact Or.inr h

theorem ClosestNodes.mem_add (c : ClosestNodes) (n x : Node) (h : x ∈ (c.add n).nodes) :
    x = n ∨ x ∈ c.nodes := by
  unfold ClosestNodes.add at h
  split at h
  · exact Or.inr h
  · exact ClosestNodes.mem_insert c n x h

/-! ### responders carry tokens -/

def RespInv (q : IterQuery) : Prop := ∀ n ∈ q.responders.nodes, n.token.isSome = true

theorem respInv_new (rid target : Id) (k : GetKind) : RespInv (IterQuery.new rid target k) := by
  intro n hn; cases hn

theorem addCandidates_responders (q : IterQuery) (ns : List Node) (now : Nat) :
    (addCandidates q ns now).responders = q.responders := by
  unfold addCandidates
  induction ns generalizing q with
  | nil => rfl
  | cons n ns ih => simp only [List.foldl_cons]; rw [ih]

theorem respInv_absorb (q : IterQuery) (h : RespInv q) (now : Nat) (src : Addr) (m : Message) :
    RespInv (absorb q now src m) := by
  have h1 : RespInv (absorbNodes q now m) := by
    unfold absorbNodes
    split
    · split
      · intro n hn; rw [addCandidates_responders] at hn; exact h n hn
      · exact h
    · exact h
  have h2 : RespInv (absorbToken (absorbNodes q now m) now src m) := by
    unfold absorbToken
    split
    · split
      · intro n hn
        simp only at hn
        rcases ClosestNodes.mem_add _ _ n hn with rfl | hm
        · rfl
        · exact h1 n hm
      · exact h1
    · exact h1
  unfold absorb absorbVote
  split
  · intro n hn; exact h2 n hn
  · exact h2

theorem respInv_lookupStep (q : IterQuery) (h : RespInv q) (env : Env) (src : Addr) (m : Message) :
    RespInv (lookupStep q env src m).1 := by
  have := respInv_absorb q h env.now src m
  unfold lookupStep
  split
  · intro n hn; exact this n hn
  · exact this

theorem respInv_visit (a : Actor) (q : IterQuery) (h : RespInv q) (to : Addr) (now : Nat) :
    RespInv (a.visit q to now).2 := by
  intro n hn; exact h n hn

theorem respInv_visitAll (a : Actor) (q : IterQuery) (h : RespInv q) (tos : List Addr) (now : Nat) :
    RespInv (a.visitAll q tos now).2 := by
  unfold visitAll
  induction tos generalizing a q with
  | nil => exact h
  | cons t ts ih =>
    simp only [List.foldl_cons]
    exact ih _ _ (respInv_visit a q h t now)

/-! ### node lists a put can be started from -/

/-- at most `u8::MAX` nodes, or token-bearing nodes only -/
def NodesOk (l : List Node) : Prop := l.length ≤ Constants.PUT_TAKE_CLOSEST ∨ ∀ n ∈ l, n.token.isSome = true

theorem nodesOk_closestOfDone (c : Core) (q : IterQuery) (h : RespInv q) : NodesOk (closestOfDone c q) := by
  unfold closestOfDone
  split
  · left
    have : (q.closest.nodes.take Constants.K).length ≤ Constants.K := List.length_take_le _ _
    exact Nat.le_trans this (by decide)
  · right
    intro n hn
    unfold ClosestNodes.takeSecure ClosestNodes.takeUntilSecure at hn
    exact h n (List.mem_of_mem_take hn)

/-- a put started on a usable node list sends at least one request -/
theorem start_succeeds (q : PutQuery) (hq : q.inflight = []) (sock : Inflight) (closest : List Node) (now : Nat)
    (hok : NodesOk closest) (hany : closest.any (fun n => n.token.isSome) = true) :
    (q.start sock closest now).2.2.1 = .ok () := by
  -- some node among the first `u8::MAX` carries a token
  have hcand : ∃ n ∈ q.candidates closest, n.token.isSome = true := by
    rw [List.any_eq_true] at hany
    obtain ⟨n, hn, ht⟩ := hany
    unfold PutQuery.candidates
    rcases hok with hlen | hall
    · exact ⟨n, List.mem_append_left _ (by rw [List.take_of_length_le hlen]; exact hn), ht⟩
    · cases hc : closest with
      | nil => rw [hc] at hn; cases hn
      | cons x xs =>
        refine ⟨x, List.mem_append_left _ (by simp [Constants.PUT_TAKE_CLOSEST]), hall x (by rw [hc]; exact List.mem_cons_self)⟩
  have hne : closest ≠ [] := by
    intro e; rw [e] at hany; simp at hany
  unfold PutQuery.start
  have hs : q.started = false := by simp [PutQuery.started, hq]
  have hc : closest.isEmpty = false := by cases closest <;> simp_all
  simp only [hs, Bool.false_eq_true, ite_false, hc]
  obtain ⟨_, h2⟩ := PutQuery.sendLoop_spec sock now (q.candidates closest) q.inflight []
  have hpos : 0 < ((q.candidates closest).filterMap (fun n => n.token)).length := by
    obtain ⟨n, hn, ht⟩ := hcand
    rw [List.length_pos_iff_exists_mem]
    cases htok : n.token with
    | none => rw [htok] at ht; cases ht
    | some tok => exact ⟨tok, List.mem_filterMap.2 ⟨n, hn, htok⟩⟩
  have hne' : (PutQuery.sendLoop sock now (q.candidates closest) q.inflight []).2.1.isEmpty = false := by
    rw [List.isEmpty_eq_false_iff_exists_mem]
    have : 0 < (PutQuery.sendLoop sock now (q.candidates closest) q.inflight []).2.1.length := by omega
    exact List.length_pos_iff_exists_mem.1 this
  simp [hne']

end Mainline

namespace Mainline
open Actor

theorem mem_alSet {β : Type} (l : List (Id × β)) (k : Id) (v : β) (p : Id × β) (h : p ∈ alSet l k v) :
    p = (k, v) ∨ p ∈ l := by
  unfold alSet at h
  split at h
  · rw [List.mem_map] at h
    obtain ⟨x, hx, rfl⟩ := h
    split
    · exact Or.inl rfl
    · exact Or.inr hx
  · rcases List.mem_append.1 h with h | h
    · exact Or.inr h
    · exact Or.inl (List.mem_singleton.1 h)

theorem mem_alRemove {β : Type} (l : List (Id × β)) (k : Id) (p : Id × β) (h : p ∈ alRemove l k) : p ∈ l :=
  (List.mem_filter.1 h).1

/-- the shape invariant -/
structure Shape (c : Core) : Prop where
  lookups : ∀ p ∈ c.iter, RespInv p.2
  cache : ∀ p ∈ c.cache.items, NodesOk p.2.nodes

theorem shape_of_eq (c c' : Core) (h : Shape c) (hi : c'.iter = c.iter) (hc : c'.cache = c.cache) : Shape c' :=
  ⟨by rw [hi]; exact h.lookups, by rw [hc]; exact h.cache⟩

theorem getCached_shape (c : Core) (h : Shape c) (target : Id) (now : Nat) :
    Shape (getCachedClosestNodes c target now).1 ∧
    (∀ ns, (getCachedClosestNodes c target now).2 = some ns →
      NodesOk ns ∧ ns.any (fun n => n.token.isSome) = true) := by
  unfold getCachedClosestNodes
  cases hg : c.cache.get target with
  | mk cache found =>
    cases found with
    | none =>
      simp only
      exact ⟨h, fun ns hns => by cases hns⟩
    | some e =>
      simp only
      have hmem : ∀ q ∈ cache.items, q ∈ c.cache.items := by
        have := Lru.get_mem c.cache target
        rw [hg] at this; exact this
      refine ⟨⟨h.lookups, fun p hp => h.cache p (hmem p hp)⟩, ?_⟩
      intro ns hns
      split at hns
      · rename_i hcond
        injection hns with hns
        subst hns
        have hfind : c.cache.find? target = some e := by
          have := Lru.get_snd c.cache target
          rw [hg] at this; exact this.symm
        have hin := Lru.find?_mem c.cache target e hfind
        refine ⟨h.cache _ hin, ?_⟩
        simp only [Bool.and_eq_true] at hcond
        rw [List.any_eq_true] at hcond ⊢
        obtain ⟨n, hn, hv⟩ := hcond.2
        refine ⟨n, hn, ?_⟩
        simp only [Node.validToken, Bool.and_eq_true] at hv
        exact hv.1
      · cases hns

theorem createIter_shape (c : Core) (h : Shape c) (k : GetKind) (target : Id) (extra : List Addr) (now : Nat) :
    Shape (createIterativeQuery c k target extra now).1 ∧
    (∀ q tv, (createIterativeQuery c k target extra now).2 = some (q, tv) → RespInv q) := by
  unfold createIterativeQuery
  split
  · exact ⟨h, fun q tv hq => by cases hq⟩
  · obtain ⟨hs, _⟩ := getCached_shape c h target now
    refine ⟨hs, ?_⟩
    intro q tv hq
    simp only at hq
    injection hq with hq
    injection hq with hq _
    -- only the candidate list was touched
    have hfold : ∀ (l : List Node) (q0 : IterQuery), RespInv q0 →
        RespInv (l.foldl (fun q n => { q with closest := q.closest.add n }) q0) := by
      intro l
      induction l with
      | nil => intro q0 h0; exact h0
      | cons x xs ih => intro q0 h0; simp only [List.foldl_cons]; exact ih _ (fun n hn => h0 n hn)
    rw [← hq]
    split
    · exact hfold _ _ (hfold _ _ (respInv_new _ _ _))
    · exact hfold _ _ (respInv_new _ _ _)

theorem startLookup_shape (a : Actor) (h : Shape a.core) (k : GetKind) (target : Id) (extra : List Addr) (now : Nat) :
    Shape (a.startLookup k target extra now).core := by
  obtain ⟨h1, h2⟩ := createIter_shape a.core h k target extra now
  unfold startLookup
  split
  · rename_i core q toVisit hm
    rw [hm] at h1 h2
    simp only at h1 h2
    have hq := h2 q toVisit rfl
    constructor
    · intro p hp
      simp only at hp
      rcases mem_alSet _ _ _ p hp with rfl | hm'
      · exact respInv_visitAll _ q hq toVisit now
      · exact h1.lookups p hm'
    · exact h1.cache
  · rename_i core hm
    rw [hm] at h1
    exact h1

theorem get_shape (a : Actor) (h : Shape a.core) (k : GetKind) (target : Id) (extra : List Addr) (now : Nat) :
    Shape (a.get k target extra now).1.core := by
  unfold Actor.get
  split
  · exact h
  · exact startLookup_shape a h k target extra now

theorem populate_shape (a : Actor) (h : Shape a.core) (now : Nat) : Shape (a.populate now).core := by
  unfold populate
  split
  · exact h
  · exact get_shape a h _ _ _ now

end Mainline

namespace Mainline
open Actor

theorem handleRequest_cache (c : Core) (env : Env) (src : Addr) (ro : Bool) (version : Option Bytes) (req : Request) :
    (handleRequest c env src ro version req).1.iter = c.iter ∧
    (handleRequest c env src ro version req).1.cache = c.cache := by
  have h1 : (maybeAddNodeFromRequest c src version ro req env.now).iter = c.iter ∧
      (maybeAddNodeFromRequest c src version ro req env.now).cache = c.cache := by
    unfold maybeAddNodeFromRequest
    split
    · split
      · unfold addRequester
        split
        · split <;> exact ⟨rfl, rfl⟩
        · split <;> exact ⟨rfl, rfl⟩
      · exact ⟨rfl, rfl⟩
    · exact ⟨rfl, rfl⟩
  have h2 : ∀ c' : Core, (verifySelfPing c' src req env.now).1.iter = c'.iter ∧
      (verifySelfPing c' src req env.now).1.cache = c'.cache := by
    intro c'
    unfold verifySelfPing
    split
    · split
      · split <;> exact ⟨rfl, rfl⟩
      · exact ⟨rfl, rfl⟩
    · exact ⟨rfl, rfl⟩
  unfold handleRequest
  split
  · exact ⟨rfl, rfl⟩
  · unfold serveRequest
    obtain ⟨a1, a2⟩ := h2 (maybeAddNodeFromRequest c src version ro req env.now)
    split
    · exact ⟨a1.trans h1.1, a2.trans h1.2⟩
    · exact ⟨a1.trans h1.1, a2.trans h1.2⟩

theorem addResponder_cache (c : Core) (now : Nat) (src : Addr) (m : Message) :
    (addResponder c now src m).iter = c.iter ∧ (addResponder c now src m).cache = c.cache := by
  unfold addResponder
  split
  · split <;> exact ⟨rfl, rfl⟩
  · exact ⟨rfl, rfl⟩

theorem handleResponse_shape (c : Core) (h : Shape c) (env : Env) (src : Addr) (m : Message) :
    Shape (handleResponse c env src m).1 := by
  unfold handleResponse
  split
  · exact h
  · split
    · exact ⟨h.lookups, h.cache⟩
    · split
      · rename_i target q hf
        have hmem : (target, q) ∈ c.iter := List.mem_of_find?_eq_some hf
        have hq := h.lookups _ hmem
        have hnew : Shape { c with iter := alSet c.iter target (lookupStep q env src m).1 } := by
          constructor
          · intro p hp
            simp only at hp
            rcases mem_alSet _ _ _ p hp with rfl | hm'
            · exact respInv_lookupStep q hq env src m
            · exact h.lookups p hm'
          · exact h.cache
        split
        · obtain ⟨r1, r2⟩ := addResponder_cache { c with iter := alSet c.iter target (lookupStep q env src m).1 } env.now src m
          exact shape_of_eq _ _ hnew r1 r2
        · exact hnew
      · split
        · obtain ⟨r1, r2⟩ := addResponder_cache c env.now src m
          exact shape_of_eq _ _ h r1 r2
        · exact h

theorem sendReply_core (a : Actor) (src : Addr) (tid : UInt32) (r : Option Reply) : (a.sendReply src tid r).core = a.core := by
  unfold sendReply
  split <;> rfl

theorem handleIncoming_shape (a : Actor) (h : Shape a.core) (env : Env) (handed : Option (Message × Addr)) :
    Shape (a.handleIncoming env handed).1.core := by
  unfold handleIncoming
  cases handed with
  | none => exact h
  | some p =>
    obtain ⟨m, src⟩ := p
    simp only
    cases hm : m.mtype with
    | request req =>
      simp only
      obtain ⟨r1, r2⟩ := handleRequest_cache a.core env src m.readOnly m.version req
      have hs : Shape (handleRequest a.core env src m.readOnly m.version req).1 := shape_of_eq _ _ h r1 r2
      unfold handleIncomingRequest
      split
      · apply populate_shape
        rw [sendReply_core]; exact hs
      · rw [sendReply_core]; exact hs
    | response r => exact handleResponse_shape a.core h env src m
    | error e => exact handleResponse_shape a.core h env src m

theorem preDone_shape (a : Actor) (h : Shape a.core) (env : Env) (dgram : Option (Message × Addr)) :
    Shape (a.preDone env dgram).core := by
  unfold preDone
  have h1 : (a.recvPhase env.now dgram).1.core = a.core := by
    unfold recvPhase
    cases dgram with
    | none => rfl
    | some p => rfl
  have h2 := handleIncoming_shape (a.recvPhase env.now dgram).1 (by rw [h1]; exact h) env (a.recvPhase env.now dgram).2
  have h3 : ∀ (b : Actor) (v : Option (Id × Value)), (b.forwardValue v).core = b.core := by
    intro b v
    unfold forwardValue
    split
    · split <;> rfl
    · rfl
  rw [h3]; exact h2

theorem visitClosest_shape (a : Actor) (h : Shape a.core) (target : Id) (now : Nat) :
    Shape (a.visitClosest target now).core := by
  unfold visitClosest
  cases hg : alGet a.core.iter target with
  | none => exact h
  | some q =>
    simp only
    obtain ⟨hc, _⟩ := visitAll_core a q q.closestCandidates now
    have hq := h.lookups _ (mem_of_alGet a.core.iter target q hg)
    constructor
    · intro p hp
      simp only at hp
      rw [hc] at hp
      rcases mem_alSet _ _ _ p hp with rfl | hm'
      · exact respInv_visitAll a q hq _ now
      · exact h.lookups p hm'
    · simp only; rw [hc]; exact h.cache

theorem visitClosestAll_shape (a : Actor) (h : Shape a.core) (now : Nat) :
    Shape (a.visitClosestAll now).core := by
  unfold visitClosestAll
  have : ∀ (l : List (Id × IterQuery)) (b : Actor), Shape b.core →
      Shape (l.foldl (fun (a : Actor) (p : Id × IterQuery) => a.visitClosest p.1 now) b).core := by
    intro l
    induction l with
    | nil => intro b hb; exact hb
    | cons p ps ih => intro b hb; simp only [List.foldl_cons]; exact ih _ (visitClosest_shape b hb p.1 now)
  exact this _ a h

/-- every node list a finished lookup hands over can start a put -/
theorem doneLookups_nodesOk (a : Actor) (h : Shape a.core) (now : Nat) :
    ∀ d ∈ a.doneLookups now, NodesOk d.2 := by
  intro d hd
  unfold doneLookups at hd
  rw [List.mem_filterMap] at hd
  obtain ⟨p, hp, hpd⟩ := hd
  split at hpd
  · injection hpd with hpd
    rw [← hpd]
    exact nodesOk_closestOfDone a.core p.2 (h.lookups p hp)
  · cases hpd

end Mainline

namespace Mainline
open Actor

theorem startPut_core (a : Actor) (e : PutEntry) (closest : List Node) (now : Nat) :
    (startPut a e closest now).1.core.iter = a.core.iter ∧ (startPut a e closest now).1.core.cache = a.core.cache := by
  unfold startPut
  have hs : ∀ (b : Actor) (spec : PutSpec) (l : List ((Addr × Bytes) × Nat)),
      (sendPuts b spec l).core.iter = b.core.iter ∧ (sendPuts b spec l).core.cache = b.core.cache := by
    intro b spec l
    unfold sendPuts
    induction l generalizing b with
    | nil => exact ⟨rfl, rfl⟩
    | cons x xs ih =>
      simp only [List.foldl_cons]
      obtain ⟨i1, i2⟩ := ih _
      exact ⟨i1, i2⟩
  exact hs _ _ _

theorem startPutOne_core (now : Nat) (acc : Actor × List (Id × Option PutErr)) (d : Id × List Node) :
    (startPutOne now acc d).1.core.iter = acc.1.core.iter ∧ (startPutOne now acc d).1.core.cache = acc.1.core.cache := by
  unfold startPutOne
  split
  · rename_i e _
    obtain ⟨h1, h2⟩ := startPut_core acc.1 e d.2 now
    split <;> exact ⟨h1, h2⟩
  · exact ⟨rfl, rfl⟩

theorem startPuts_core (a : Actor) (now : Nat) (di : List (Id × List Node)) (dp : List (Id × Option PutErr)) :
    (startPuts a now di dp).1.core.iter = a.core.iter ∧ (startPuts a now di dp).1.core.cache = a.core.cache := by
  unfold startPuts
  have : ∀ (l : List (Id × List Node)) (acc : Actor × List (Id × Option PutErr)),
      (l.foldl (startPutOne now) acc).1.core.iter = acc.1.core.iter ∧
      (l.foldl (startPutOne now) acc).1.core.cache = acc.1.core.cache := by
    intro l
    induction l with
    | nil => intro acc; exact ⟨rfl, rfl⟩
    | cons d ds ih =>
      intro acc
      simp only [List.foldl_cons]
      obtain ⟨i1, i2⟩ := ih (startPutOne now acc d)
      obtain ⟨h1, h2⟩ := startPutOne_core now acc d
      exact ⟨i1.trans h1, i2.trans h2⟩
  exact this di (a, dp)

theorem decrementCached_fields (c : Core) (e : Option CachedQuery) :
    (decrementCached c e).cache = c.cache ∧ (decrementCached c e).iter = c.iter := by
  unfold decrementCached
  split
  · split
    · exact ⟨rfl, rfl⟩
    · split <;> exact ⟨rfl, rfl⟩
  · exact ⟨rfl, rfl⟩

theorem countEntry_fields (c : Core) (e : CachedQuery) :
    (countEntry c e).cache = c.cache ∧ (countEntry c e).iter = c.iter := by
  unfold countEntry
  split
  · exact ⟨rfl, rfl⟩
  · split <;> exact ⟨rfl, rfl⟩

theorem evictIfFull_shape (c : Core) (h : Shape c) : Shape (evictIfFull c) := by
  unfold evictIfFull
  split
  · obtain ⟨d1, d2⟩ := decrementCached_fields { c with cache := c.cache.popLru.1 } (c.cache.popLru.2.map (·.2))
    constructor
    · rw [d2]; exact h.lookups
    · rw [d1]
      intro p hp
      apply h.cache
      simp only at hp
      unfold Lru.popLru at hp
      split at hp
      · exact (List.dropLast_sublist _).subset hp
      · exact hp
  · exact h

/-- caching a finished lookup keeps the shape, provided the node list handed over is usable -/
theorem cacheQuery_shape (c : Core) (h : Shape c) (q : IterQuery) (nodes : List Node) (hn : NodesOk nodes) :
    Shape (cacheQuery c q nodes) := by
  have he := evictIfFull_shape c h
  unfold cacheQuery
  split
  · exact he
  · obtain ⟨c1, c2⟩ := countEntry_fields
      (decrementCached { (evictIfFull c) with cache := (evictIfFull c).cache.put q.target (mkEntry q nodes) }
        ((evictIfFull c).cache.find? q.target)) (mkEntry q nodes)
    obtain ⟨d1, d2⟩ := decrementCached_fields
      { (evictIfFull c) with cache := (evictIfFull c).cache.put q.target (mkEntry q nodes) }
      ((evictIfFull c).cache.find? q.target)
    constructor
    · rw [c2, d2]; exact he.lookups
    · rw [c1, d1]
      intro p hp
      simp only at hp
      rcases Lru.put_mem (evictIfFull c).cache q.target (mkEntry q nodes) p hp with rfl | hm
      · exact hn
      · exact he.cache p hm

theorem updateAddressVotes_fields (c : Core) (q : IterQuery) :
    (updateAddressVotes c q).1.iter = c.iter ∧ (updateAddressVotes c q).1.cache = c.cache := by
  unfold updateAddressVotes
  split
  · split <;> exact ⟨rfl, rfl⟩
  · exact ⟨rfl, rfl⟩

theorem cleanupOneLookup_shape (acc : Core × Option Addr) (h : Shape acc.1) (d : Id × List Node) (hd : NodesOk d.2) :
    Shape (cleanupOneLookup acc d).1 := by
  unfold cleanupOneLookup
  split
  · rename_i q _
    have h0 : Shape { acc.1 with iter := alRemove acc.1.iter d.1 } :=
      ⟨fun p hp => h.lookups p (mem_alRemove _ _ p hp), h.cache⟩
    have h1 := cacheQuery_shape _ h0 q d.2 hd
    obtain ⟨u1, u2⟩ := updateAddressVotes_fields (cacheQuery { acc.1 with iter := alRemove acc.1.iter d.1 } q d.2) q
    have h2 := shape_of_eq _ _ h1 u1 u2
    split <;> exact h2
  · exact h

theorem cleanupDone_shape (c : Core) (h : Shape c) (di : List (Id × List Node)) (hdi : ∀ d ∈ di, NodesOk d.2)
    (dp : List (Id × Option PutErr)) : Shape (cleanupDone c di dp).1 := by
  unfold cleanupDone
  have h1 : ∀ (l : List (Id × List Node)) (acc : Core × Option Addr), Shape acc.1 → (∀ d ∈ l, NodesOk d.2) →
      Shape (l.foldl cleanupOneLookup acc).1 := by
    intro l
    induction l with
    | nil => intro acc ha _; exact ha
    | cons d ds ih =>
      intro acc ha hl
      simp only [List.foldl_cons]
      exact ih _ (cleanupOneLookup_shape acc ha d (hl d List.mem_cons_self)) (fun x hx => hl x (List.mem_cons_of_mem _ hx))
  have h2 : ∀ (l : List (Id × Option PutErr)) (c' : Core), Shape c' → Shape (l.foldl removePut c') := by
    intro l
    induction l with
    | nil => intro c' hc; exact hc
    | cons d ds ih => intro c' hc; simp only [List.foldl_cons]; exact ih _ ⟨hc.lookups, hc.cache⟩
  exact h2 dp _ (h1 di (c, none) h hdi)

/-- **the tick keeps the shape** -/
theorem afterRecv_shape (a : Actor) (h : Shape a.core) (env : Env) (dgram : Option (Message × Addr)) :
    Shape (a.afterRecv env dgram).core := by
  unfold afterRecv finishTick
  have h3 := preDone_shape a h env dgram
  generalize a.preDone env dgram = a3 at h3
  have h4 := visitClosestAll_shape a3 h3 env.now
  generalize a3.checkDonePuts env.now = dp0
  generalize a3.visitClosestAll env.now = a4 at h4
  have hdi := doneLookups_nodesOk a4 h4 env.now
  generalize a4.doneLookups env.now = di at hdi
  obtain ⟨s1, s2⟩ := startPuts_core a4 env.now di dp0
  generalize startPuts a4 env.now di dp0 = sp at s1 s2
  have h5 : Shape sp.1.core := shape_of_eq _ _ h4 s1 s2
  have h6 := cleanupDone_shape sp.1.core h5 di hdi sp.2
  generalize cleanupDone sp.1.core di sp.2 = cd at h6
  have hping : ∀ (b : Actor) (to : Option Addr), (b.pingOpt to env.now).core = b.core := by
    intro b to; unfold pingOpt; split <;> rfl
  have hrg : ∀ (b : Actor) (l : List (Id × List Node)), (b.releaseGetCallers l).core = b.core := by
    intro b l
    unfold releaseGetCallers
    induction l generalizing b with
    | nil => rfl
    | cons d ds ih =>
      simp only [List.foldl_cons]
      rw [ih]
      unfold releaseGetOne
      split <;> rfl
  have hrp : ∀ (b : Actor) (l : List (Id × Option PutErr)), (b.releasePutCallers l).core = b.core := by
    intro b l
    unfold releasePutCallers
    induction l generalizing b with
    | nil => rfl
    | cons d ds ih =>
      simp only [List.foldl_cons]
      rw [ih]
      unfold releasePutOne
      split <;> rfl
  rw [hrp, hrg, hping]
  exact h6

end Mainline
