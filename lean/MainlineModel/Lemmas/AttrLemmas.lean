/-
  AttrLemmas.lean — attribution of transaction ids to the datagrams that carried them.

  `a.out` is the log of everything the node has put on the wire.  Invariant `Attr`: every transaction
  id a lookup lists was sent in a request datagram with exactly that lookup's request; every id a put
  lists in a `put` request with that put's payload; every entry of the socket's request table in a
  request datagram to the address the entry names; and the request datagrams of the log carry strictly
  increasing transaction ids (between wrap-arounds of the `u32` counter).  Consequences
  (`Props/C09Own.lean`): a transaction id belongs to at most one lookup or put, and the datagram that
  carried it says which.

  The relation `AdvA` packages "one stretch of the loop keeps `Attr`" with `TimeLemmas.Adv`, so that the
  no-wrap budget splits over consecutive stretches exactly as it does there.
-/
import MainlineModel.Lemmas.TimeLemmas
namespace Mainline
open Actor

/-- the log contains the request `req`, sent to `to` under transaction id `tid` -/
def Sent (a : Actor) (tid : Nat) (to : Addr) (req : Request) : Prop :=
  ∃ m, (to, m) ∈ a.out ∧ m.tid.toNat = tid ∧ m.mtype = .request req

def isReq (x : Addr × Message) : Bool :=
  match x.2.mtype with
  | .request _ => true
  | _ => false

theorem Sent.mono {a a' : Actor} {tid : Nat} {to : Addr} {req : Request} (h : Sent a tid to req)
    (ho : ∃ l, a'.out = a.out ++ l) : Sent a' tid to req := by
  obtain ⟨m, hm, h1, h2⟩ := h
  obtain ⟨l, hl⟩ := ho
  exact ⟨m, by rw [hl]; exact List.mem_append_left _ hm, h1, h2⟩

/-- request datagrams in the log carry increasing transaction ids below the counter -/
structure LogOrd (a : Actor) : Prop where
  sorted : (a.out.filter isReq).Pairwise (fun x y => x.2.tid.toNat < y.2.tid.toNat)
  below : ∀ x ∈ a.out, isReq x = true → x.2.tid.toNat < a.sock.nextTid

structure Attr (a : Actor) : Prop where
  log : LogOrd a
  iter : ∀ p ∈ a.core.iter, ∀ tid ∈ p.2.inflight, ∃ to, Sent a tid to p.2.request
  puts : ∀ p ∈ a.core.puts, ∀ tid ∈ p.2.q.inflight, ∃ to rid tok, Sent a tid to ⟨rid, .put tok p.2.spec⟩
  sock : ∀ r ∈ a.sock.requests, ∃ req, Sent a r.tid r.to req

/-- two request datagrams of the log with the same transaction id are the same datagram -/
theorem LogOrd.unique {a : Actor} (h : LogOrd a) (x y : Addr × Message) (hx : x ∈ a.out) (hy : y ∈ a.out)
    (rx : isReq x = true) (ry : isReq y = true) (ht : x.2.tid.toNat = y.2.tid.toNat) : x = y := by
  have hx' : x ∈ a.out.filter isReq := List.mem_filter.2 ⟨hx, rx⟩
  have hy' : y ∈ a.out.filter isReq := List.mem_filter.2 ⟨hy, ry⟩
  have hs := h.sorted
  generalize a.out.filter isReq = l at hx' hy' hs
  induction l with
  | nil => cases hx'
  | cons z zs ih =>
    rw [List.pairwise_cons] at hs
    rcases List.mem_cons.1 hx' with rfl | hx1
    · rcases List.mem_cons.1 hy' with rfl | hy1
      · rfl
      · have := hs.1 y hy1; omega
    · rcases List.mem_cons.1 hy' with rfl | hy1
      · have := hs.1 x hx1; omega
      · exact ih hx1 hy1 hs.2

theorem Sent.unique {a : Actor} (h : LogOrd a) {tid : Nat} {to1 to2 : Addr} {r1 r2 : Request}
    (h1 : Sent a tid to1 r1) (h2 : Sent a tid to2 r2) : to1 = to2 ∧ r1 = r2 := by
  obtain ⟨m1, hm1, t1, e1⟩ := h1
  obtain ⟨m2, hm2, t2, e2⟩ := h2
  have := h.unique (to1, m1) (to2, m2) hm1 hm2 (by simp [isReq, e1]) (by simp [isReq, e2]) (by simp [t1, t2])
  injection this with ha hb
  subst hb
  rw [e1] at e2
  injection e2 with e2
  exact ⟨ha, e2⟩

/-! ### the relation -/

/-- one stretch of the loop keeps the attribution invariant, as long as the counter does not wrap -/
structure AdvA (now : Nat) (a a' : Actor) : Prop where
  adv : Adv now a a'
  keep : a.sock.nextTid + (a'.out.length - a.out.length) < two32 → Attr a → Attr a'

theorem AdvA.refl (now : Nat) (a : Actor) : AdvA now a a := ⟨Adv.refl now a, fun _ h => h⟩

theorem AdvA.trans {now : Nat} {a b c : Actor} (h1 : AdvA now a b) (h2 : AdvA now b c) : AdvA now a c := by
  refine ⟨h1.adv.trans h2.adv, ?_⟩
  intro hb hat
  obtain ⟨l1, e1⟩ := h1.adv.out
  obtain ⟨l2, e2⟩ := h2.adv.out
  have hlen1 : b.out.length = a.out.length + l1.length := by rw [e1, List.length_append]
  have hlen2 : c.out.length = b.out.length + l2.length := by rw [e2, List.length_append]
  obtain ⟨_, hb2, _⟩ := Adv.split h1.adv h2.adv hb
  exact h2.keep hb2 (h1.keep (by omega) hat)

/-- a stretch that sends no request and draws no id, and whose lookups, puts and table entries were
    there before (with the same request / payload) -/
theorem AdvA.carry {now : Nat} {a a' : Actor} (hadv : Adv now a a')
    (hl : ∃ l, a'.out = a.out ++ l ∧ ∀ x ∈ l, isReq x = false)
    (hn : a.sock.nextTid ≤ a'.sock.nextTid)
    (hi : ∀ p' ∈ a'.core.iter, ∀ tid ∈ p'.2.inflight, ∃ p ∈ a.core.iter, p.2.request = p'.2.request ∧ tid ∈ p.2.inflight)
    (hp : ∀ p' ∈ a'.core.puts, ∀ tid ∈ p'.2.q.inflight, ∃ p ∈ a.core.puts, p.2.spec = p'.2.spec ∧ tid ∈ p.2.q.inflight)
    (hs : ∀ r ∈ a'.sock.requests, r ∈ a.sock.requests) : AdvA now a a' := by
  refine ⟨hadv, ?_⟩
  intro _ hat
  obtain ⟨l, el, hnr⟩ := hl
  have hmono : ∃ l, a'.out = a.out ++ l := ⟨l, el⟩
  refine ⟨⟨?_, ?_⟩, ?_, ?_, ?_⟩
  · rw [el, List.filter_append]
    have : l.filter isReq = [] := List.filter_eq_nil_iff.2 (fun x hx => by rw [hnr x hx]; simp)
    rw [this, List.append_nil]
    exact hat.log.sorted
  · intro x hx rx
    rw [el] at hx
    rcases List.mem_append.1 hx with h | h
    · exact Nat.lt_of_lt_of_le (hat.log.below x h rx) hn
    · rw [hnr x h] at rx; cases rx
  · intro p' hp' tid ht
    obtain ⟨p, hpm, he, hin⟩ := hi p' hp' tid ht
    obtain ⟨to, hsent⟩ := hat.iter p hpm tid hin
    exact ⟨to, by rw [← he]; exact hsent.mono hmono⟩
  · intro p' hp' tid ht
    obtain ⟨p, hpm, he, hin⟩ := hp p' hp' tid ht
    obtain ⟨to, rid, tok, hsent⟩ := hat.puts p hpm tid hin
    exact ⟨to, rid, tok, by rw [← he]; exact hsent.mono hmono⟩
  · intro r hr
    obtain ⟨req, hsent⟩ := hat.sock r (hs r hr)
    exact ⟨req, hsent.mono hmono⟩

/-- … in particular one that touches neither the log, nor the socket, nor lookups and puts -/
theorem AdvA.same {now : Nat} {a a' : Actor} (ho : a'.out = a.out) (hs : a'.sock = a.sock)
    (hi : a'.core.iter = a.core.iter) (hp : a'.core.puts = a.core.puts) : AdvA now a a' :=
  AdvA.carry (Adv.same ho hs hi hp) ⟨[], by simp [ho], by intro x h; cases h⟩ (by rw [hs]; exact Nat.le_refl _)
    (fun p' h tid ht => ⟨p', by rw [← hi]; exact h, rfl, ht⟩) (fun p' h tid ht => ⟨p', by rw [← hp]; exact h, rfl, ht⟩)
    (fun r h => by rw [← hs]; exact h)

/-! ### sending a request -/

theorem toNat_ofNat_tid (n : Nat) (h : n < two32) : (UInt32.ofNat n).toNat = n := by
  simp only [UInt32.toNat_ofNat']
  unfold two32 at h
  omega

/-- `KrpcSocket::request`: one more request datagram, under the next id, and the table entry for it -/
theorem request_advA (a : Actor) (to : Addr) (req : Request) (now : Nat) :
    AdvA now a (a.request to req now).1 ∧
    (a.sock.nextTid + 1 < two32 → Sent (a.request to req now).1 (a.request to req now).2 to req) := by
  obtain ⟨h1, h2⟩ := request_adv a to req now
  obtain ⟨m, hout, hmt, hmm⟩ : ∃ m : Message, (a.request to req now).1.out = a.out ++ [(to, m)] ∧
      m.tid = UInt32.ofNat a.sock.nextTid ∧ m.mtype = .request req := ⟨_, rfl, rfl, rfl⟩
  have hsent : a.sock.nextTid + 1 < two32 → Sent (a.request to req now).1 (a.request to req now).2 to req := by
    intro hb
    refine ⟨m, by rw [hout]; exact List.mem_append_right _ (List.mem_singleton.2 rfl), ?_, hmm⟩
    rw [hmt]
    show (UInt32.ofNat a.sock.nextTid).toNat = a.sock.nextTid
    exact toNat_ofNat_tid _ (by omega)
  refine ⟨⟨h1, ?_⟩, hsent⟩
  intro hb hat
  have hb1 : a.sock.nextTid + 1 < two32 := by rw [hout] at hb; simp at hb; omega
  obtain ⟨e1, e2⟩ := h2 hb1
  have hmono : ∃ l, (a.request to req now).1.out = a.out ++ l := ⟨_, hout⟩
  have htid : (UInt32.ofNat a.sock.nextTid).toNat = a.sock.nextTid := toNat_ofNat_tid _ (by omega)
  refine ⟨⟨?_, ?_⟩, ?_, ?_, ?_⟩
  · rw [hout, List.filter_append, List.pairwise_append]
    refine ⟨hat.log.sorted, List.Pairwise.sublist List.filter_sublist (List.pairwise_singleton _ (to, m)), ?_⟩
    intro x hx y hy
    have hxm := List.mem_filter.1 hx
    have hym := List.mem_filter.1 hy
    simp only [List.mem_singleton] at hym
    rw [hym.1]
    show x.2.tid.toNat < m.tid.toNat
    rw [hmt, htid]
    exact hat.log.below x hxm.1 hxm.2
  · intro x hx rx
    rw [e2]
    rw [hout] at hx
    rcases List.mem_append.1 hx with h | h
    · have := hat.log.below x h rx; omega
    · simp only [List.mem_singleton] at h
      rw [h]
      show m.tid.toNat < a.sock.nextTid + 1
      rw [hmt, htid]; omega
  · intro p hp tid ht
    obtain ⟨to', hs⟩ := hat.iter p hp tid ht
    exact ⟨to', hs.mono hmono⟩
  · intro p hp tid ht
    obtain ⟨to', rid, tok, hs⟩ := hat.puts p hp tid ht
    exact ⟨to', rid, tok, hs.mono hmono⟩
  · intro r hr
    have hreq : (a.request to req now).1.sock.requests = a.sock.requests ++ [{ tid := a.sock.nextTid, to := to, sentAt := now }] := rfl
    rw [hreq] at hr
    rcases List.mem_append.1 hr with h | h
    · obtain ⟨rq, hs⟩ := hat.sock r h
      exact ⟨rq, hs.mono hmono⟩
    · simp only [List.mem_singleton] at h
      subst h
      have := hsent hb1
      rw [e1] at this
      exact ⟨req, this⟩

theorem ping_advA (a : Actor) (to : Addr) (now : Nat) : AdvA now a (a.ping to now) := (request_advA a to _ now).1

theorem reply_advA (a : Actor) (to : Addr) (tid : UInt32) (m : MessageType) (hm : ∀ r, m ≠ .request r) (now : Nat) :
    AdvA now a (a.reply to tid m) := by
  refine AdvA.carry (reply_adv a to tid m now) ⟨_, rfl, ?_⟩ (Nat.le_refl _)
    (fun p' h tid ht => ⟨p', h, rfl, ht⟩) (fun p' h tid ht => ⟨p', h, rfl, ht⟩) (fun r h => h)
  intro x hx
  simp only [List.mem_singleton] at hx
  subst hx
  unfold isReq
  split
  · rename_i r hr; exact absurd hr (hm r)
  · rfl


/-! ### visiting -/

/-- the ids of a lookup under construction are attributed -/
def AttrQ (a : Actor) (q : IterQuery) : Prop := ∀ tid ∈ q.inflight, ∃ to, Sent a tid to q.request

/-- registering attributed lookups and puts on top of a state that satisfies the invariant -/
theorem Attr.recore {b c : Actor} (h : Attr b) (hs : c.sock = b.sock) (ho : c.out = b.out)
    (hi : ∀ p ∈ c.core.iter, ∀ tid ∈ p.2.inflight, ∃ to, Sent b tid to p.2.request)
    (hp : ∀ p ∈ c.core.puts, ∀ tid ∈ p.2.q.inflight, ∃ to rid tok, Sent b tid to ⟨rid, .put tok p.2.spec⟩) : Attr c := by
  have hmono : ∃ l, c.out = b.out ++ l := ⟨[], by simp [ho]⟩
  refine ⟨⟨by rw [ho]; exact h.log.sorted, by rw [ho, hs]; exact h.log.below⟩, ?_, ?_, ?_⟩
  · intro p hp' tid ht
    obtain ⟨to, hsent⟩ := hi p hp' tid ht
    exact ⟨to, hsent.mono hmono⟩
  · intro p hp' tid ht
    obtain ⟨to, rid, tok, hsent⟩ := hp p hp' tid ht
    exact ⟨to, rid, tok, hsent.mono hmono⟩
  · intro r hr
    rw [hs] at hr
    obtain ⟨req, hsent⟩ := h.sock r hr
    exact ⟨req, hsent.mono hmono⟩

theorem visit_advA (a : Actor) (q : IterQuery) (to : Addr) (now : Nat) :
    AdvA now a (a.visit q to now).1 ∧ (a.visit q to now).2.request = q.request ∧
    (a.sock.nextTid + 1 < two32 → AttrQ a q → AttrQ (a.visit q to now).1 (a.visit q to now).2) := by
  obtain ⟨h1, h2⟩ := request_advA a to q.request now
  refine ⟨h1, rfl, ?_⟩
  intro hb hq tid ht
  have hin : (a.visit q to now).2.inflight = q.inflight ++ [(a.request to q.request now).2] := rfl
  rw [hin] at ht
  rcases List.mem_append.1 ht with h | h
  · obtain ⟨to', hs⟩ := hq tid h
    exact ⟨to', hs.mono h1.adv.out⟩
  · simp only [List.mem_singleton] at h
    subst h
    exact ⟨to, h2 hb⟩

theorem visitAll_advA (a : Actor) (q : IterQuery) (tos : List Addr) (now : Nat) :
    AdvA now a (a.visitAll q tos now).1 ∧ (a.visitAll q tos now).2.request = q.request ∧
    (a.sock.nextTid + tos.length < two32 → AttrQ a q → AttrQ (a.visitAll q tos now).1 (a.visitAll q tos now).2) := by
  unfold visitAll
  induction tos generalizing a q with
  | nil => exact ⟨AdvA.refl now a, rfl, fun _ h => h⟩
  | cons t ts ih =>
    simp only [List.foldl_cons, List.length_cons]
    obtain ⟨v1, v2, v3⟩ := visit_advA a q t now
    obtain ⟨i1, i2, i3⟩ := ih (a.visit q t now).1 (a.visit q t now).2
    refine ⟨v1.trans i1, i2.trans v2, ?_⟩
    intro hb hq
    have hb1 : a.sock.nextTid + 1 < two32 := by omega
    have hn1 : (a.visit q t now).1.sock.nextTid = a.sock.nextTid + 1 := ((request_adv a t q.request now).2 hb1).2
    exact i3 (by rw [hn1]; omega) (v3 hb1 hq)

/-! ### starting a lookup -/

theorem startLookup_advA (a : Actor) (k : GetKind) (t : Id) (extra : List Addr) (now : Nat) :
    AdvA now a (a.startLookup k t extra now) := by
  refine ⟨startLookup_adv a k t extra now, ?_⟩
  obtain ⟨_, _, _, c4, c5, _⟩ := createIter_fields a.core k t extra now
  have hin := createIter_inflight a.core k t extra now
  unfold startLookup
  split
  · rename_i core q toVisit hm
    rw [hm] at c4 c5 hin
    simp only at c4 c5 hin
    have hq := hin q toVisit rfl
    intro hb hat
    have h0 : AdvA now a { a with core := core } := AdvA.same rfl rfl c4 c5
    obtain ⟨v1, v2, v3⟩ := visitAll_advA { a with core := core } q toVisit now
    obtain ⟨vc, _⟩ := visitAll_core { a with core := core } q toVisit now
    have hlen := visitAll_out { a with core := core } q toVisit now
    have hb' : a.sock.nextTid + toVisit.length < two32 := by
      have : (visitAll { a with core := core } q toVisit now).1.out.length = a.out.length + toVisit.length := hlen
      simp only at hb
      omega
    have hat1 : Attr (visitAll { a with core := core } q toVisit now).1 :=
      (h0.trans v1).keep (by simp only at hb; exact hb) hat
    have hq1 : AttrQ (visitAll { a with core := core } q toVisit now).1 (visitAll { a with core := core } q toVisit now).2 :=
      v3 hb' (by intro tid ht; rw [hq] at ht; cases ht)
    refine hat1.recore rfl rfl ?_ ?_
    · intro p hp tid ht
      rcases mem_alSet _ _ _ _ hp with rfl | h
      · exact hq1 tid ht
      · exact hat1.iter p (by rw [vc]; exact h) tid ht
    · intro p hp tid ht
      exact hat1.puts p (by rw [vc]; exact hp) tid ht
  · rename_i core hm
    rw [hm] at c4 c5
    simp only at c4 c5
    exact (AdvA.same (now := now) (a := a) (a' := { a with core := core }) rfl rfl c4 c5).keep

theorem get_advA (a : Actor) (k : GetKind) (t : Id) (extra : List Addr) (now : Nat) :
    AdvA now a (a.get k t extra now).1 := by
  unfold Actor.get
  split
  · exact AdvA.refl now a
  · exact startLookup_advA a k t extra now

theorem populate_advA (a : Actor) (now : Nat) : AdvA now a (a.populate now) := by
  unfold populate
  split
  · exact AdvA.refl now a
  · exact get_advA a _ _ _ now

theorem visitClosest_advA (a : Actor) (t : Id) (now : Nat) : AdvA now a (a.visitClosest t now) := by
  refine ⟨visitClosest_adv a t now, ?_⟩
  unfold visitClosest
  cases hg : alGet a.core.iter t with
  | none => exact fun _ h => h
  | some q =>
    simp only
    intro hb hat
    obtain ⟨v1, v2, v3⟩ := visitAll_advA a q q.closestCandidates now
    obtain ⟨vc, _⟩ := visitAll_core a q q.closestCandidates now
    have hlen := visitAll_out a q q.closestCandidates now
    have hb' : a.sock.nextTid + q.closestCandidates.length < two32 := by
      have : (visitAll a q q.closestCandidates now).1.out.length = a.out.length + q.closestCandidates.length := hlen
      have hb2 : a.sock.nextTid + ((visitAll a q q.closestCandidates now).1.out.length - a.out.length) < two32 := hb
      omega
    have hat1 : Attr (visitAll a q q.closestCandidates now).1 := v1.keep hb hat
    have hq1 := v3 hb' (hat.iter (t, q) (mem_of_alGet _ _ _ hg))
    refine hat1.recore rfl rfl ?_ ?_
    · intro p hp tid ht
      simp only [vc] at hp
      rcases mem_alSet _ _ _ _ hp with rfl | h
      · exact hq1 tid ht
      · exact hat1.iter p (by rw [vc]; exact h) tid ht
    · intro p hp tid ht
      simp only [vc] at hp
      exact hat1.puts p (by rw [vc]; exact hp) tid ht

theorem visitClosest_fold_advA (now : Nat) (l : List (Id × IterQuery)) (b : Actor) :
    AdvA now b (l.foldl (fun (a : Actor) (p : Id × IterQuery) => a.visitClosest p.1 now) b) := by
  induction l generalizing b with
  | nil => exact AdvA.refl now b
  | cons p ps ih => simp only [List.foldl_cons]; exact (visitClosest_advA b p.1 now).trans (ih _)

theorem visitClosestAll_advA (a : Actor) (now : Nat) : AdvA now a (a.visitClosestAll now) :=
  visitClosest_fold_advA now a.core.iter a


/-! ### the store phase of a put -/

def mkReq (now : Nat) (p : (Addr × Bytes) × Nat) : InflightReq := { tid := p.2, to := p.1.1, sentAt := now }

/-- the send loop of `PutQuery::start`, as a list of ((address, token), transaction id) -/
theorem sendLoop_pairs (sock : Inflight) (now : Nat) (nodes : List Node) (tids : List Nat) (sent : List (Addr × Bytes)) :
    ∃ pairs : List ((Addr × Bytes) × Nat),
      (PutQuery.sendLoop sock now nodes tids sent).2.2 = sent ++ pairs.map (·.1) ∧
      (PutQuery.sendLoop sock now nodes tids sent).2.1 = tids ++ pairs.map (·.2) ∧
      (sock.nextTid + pairs.length < two32 →
        (PutQuery.sendLoop sock now nodes tids sent).1.requests = sock.requests ++ pairs.map (mkReq now) ∧
        (PutQuery.sendLoop sock now nodes tids sent).1.nextTid = sock.nextTid + pairs.length ∧
        pairs.map (·.2) = List.range' sock.nextTid pairs.length) := by
  induction nodes generalizing sock tids sent with
  | nil => exact ⟨[], by simp [PutQuery.sendLoop], by simp [PutQuery.sendLoop], fun _ => ⟨by simp [PutQuery.sendLoop], rfl, rfl⟩⟩
  | cons nd ns ih =>
    unfold PutQuery.sendLoop
    cases ht : nd.token with
    | none => simp only; exact ih sock tids sent
    | some tok =>
      simp only
      obtain ⟨ps, h1, h2, h3⟩ := ih (sock.add nd.addr now).1 (tids ++ [(sock.add nd.addr now).2]) (sent ++ [(nd.addr, tok)])
      refine ⟨((nd.addr, tok), sock.nextTid) :: ps, ?_, ?_, ?_⟩
      · rw [h1]; simp
      · rw [h2]; simp [Inflight.add]
      · intro hb
        simp only [List.length_cons] at hb
        have hn1 : (sock.add nd.addr now).1.nextTid = sock.nextTid + 1 := by
          show (sock.nextTid + 1) % two32 = sock.nextTid + 1
          exact Nat.mod_eq_of_lt (by omega)
        obtain ⟨r1, r2, r3⟩ := h3 (by rw [hn1]; omega)
        refine ⟨?_, ?_, ?_⟩
        · rw [r1]; simp [Inflight.add, mkReq]
        · rw [r2, hn1]; simp only [List.length_cons]; omega
        · simp only [List.map_cons, List.length_cons, List.range'_succ]
          rw [r3, hn1]

/-- `PutQuery::start`: what is zipped for `sendPuts`, the ids the put lists afterwards, the socket -/
theorem start_pairs (q : PutQuery) (sock : Inflight) (closest : List Node) (now : Nat) :
    ∃ pairs : List ((Addr × Bytes) × Nat),
      (q.start sock closest now).2.2.2.zip ((q.start sock closest now).1.inflight.drop q.inflight.length) = pairs ∧
      (q.start sock closest now).1.inflight = q.inflight ++ pairs.map (·.2) ∧
      (sock.nextTid + pairs.length < two32 →
        (q.start sock closest now).2.1.requests = sock.requests ++ pairs.map (mkReq now) ∧
        (q.start sock closest now).2.1.nextTid = sock.nextTid + pairs.length ∧
        pairs.map (·.2) = List.range' sock.nextTid pairs.length) := by
  unfold PutQuery.start
  split
  · exact ⟨[], by simp, by simp, fun _ => ⟨by simp, rfl, rfl⟩⟩
  · split
    · exact ⟨[], by simp, by simp, fun _ => ⟨by simp, rfl, rfl⟩⟩
    · obtain ⟨ps, h1, h2, h3⟩ := sendLoop_pairs sock now (q.candidates closest) q.inflight []
      have hz : (ps.map (·.1)).zip (ps.map (·.2)) = ps := (List.zip_of_prod (xs := ps) rfl rfl).symm
      refine ⟨ps, ?_, ?_, ?_⟩
      · simp only
        split <;> (simp only [h1, h2, List.nil_append, List.drop_left]; exact hz)
      · simp only
        split <;> exact h2
      · intro hb
        simp only
        split <;> exact h3 hb

/-- the datagrams of `sendPuts` -/
theorem sendPuts_log (spec : PutSpec) (pairs : List ((Addr × Bytes) × Nat)) : ∀ a : Actor,
    ∃ l, (sendPuts a spec pairs).out = a.out ++ l ∧
      l.map (fun x => (x.1, x.2.tid)) = pairs.map (fun p => (p.1.1, UInt32.ofNat p.2)) ∧
      ∀ x ∈ l, ∃ rid tok, x.2.mtype = .request ⟨rid, .put tok spec⟩ := by
  intro a
  rw [sendPuts_eq]
  induction pairs generalizing a with
  | nil => exact ⟨[], by simp, rfl, by intro x h; cases h⟩
  | cons p ps ih =>
    simp only [List.foldl_cons]
    obtain ⟨l, i1, i2, i3⟩ := ih (sendPut1 spec a p)
    obtain ⟨y, hy, hy1, hy2, hy3⟩ : ∃ y : Addr × Message, (sendPut1 spec a p).out = a.out ++ [y] ∧ y.1 = p.1.1 ∧
        y.2.tid = UInt32.ofNat p.2 ∧ ∃ rid tok, y.2.mtype = .request ⟨rid, .put tok spec⟩ :=
      ⟨_, rfl, rfl, rfl, _, _, rfl⟩
    refine ⟨y :: l, ?_, ?_, ?_⟩
    · rw [i1, hy]; simp
    · simp only [List.map_cons, i2, hy1, hy2]
    · intro x hx
      rcases List.mem_cons.1 hx with rfl | h
      · exact hy3
      · exact i3 x h

/-- `PutQuery::start` on the actor's socket keeps the invariant, and the ids the put gained are
    attributed to `put` requests with its payload -/
theorem startPut_attr (a : Actor) (e : PutEntry) (closest : List Node) (now : Nat)
    (hb : a.sock.nextTid + ((startPut a e closest now).1.out.length - a.out.length) < two32) (hat : Attr a) :
    Attr (startPut a e closest now).1 ∧
    ∀ tid ∈ (startPut a e closest now).2.1.q.inflight, tid ∈ e.q.inflight ∨
      ∃ to rid tok, Sent (startPut a e closest now).1 tid to ⟨rid, .put tok e.spec⟩ := by
  obtain ⟨e1, e2⟩ := startPut_eq a e closest now
  obtain ⟨ps, z1, z2, z3⟩ := start_pairs e.q a.sock closest now
  rw [z1] at e1
  obtain ⟨s1, s2, s3, _⟩ := sendPuts_fields e.spec ps { a with sock := (e.q.start a.sock closest now).2.1 }
  obtain ⟨l, l1, l2, l3⟩ := sendPuts_log e.spec ps { a with sock := (e.q.start a.sock closest now).2.1 }
  rw [← e1] at s1 s2 s3 l1
  simp only at s1 s2 s3 l1
  have hlen : l.length = ps.length := by
    have := congrArg List.length l2
    simpa using this
  have hb' : a.sock.nextTid + ps.length < two32 := by
    rw [l1, List.length_append, hlen] at hb; omega
  obtain ⟨r1, r2, r3⟩ := z3 hb'
  have hmono : ∃ l, (startPut a e closest now).1.out = a.out ++ l := ⟨l, l1⟩
  -- every pair has its datagram
  have hpair : ∀ p ∈ ps, ∃ rid tok, Sent (startPut a e closest now).1 p.2 p.1.1 ⟨rid, .put tok e.spec⟩ := by
    intro p hp
    have hmem : (p.1.1, UInt32.ofNat p.2) ∈ l.map (fun x => (x.1, x.2.tid)) := by
      rw [l2]; exact List.mem_map.2 ⟨p, hp, rfl⟩
    obtain ⟨x, hx, hxe⟩ := List.mem_map.1 hmem
    injection hxe with hx1 hx2
    obtain ⟨rid, tok, hm⟩ := l3 x hx
    have hlt : p.2 < two32 := by
      have : p.2 ∈ ps.map (·.2) := List.mem_map.2 ⟨p, hp, rfl⟩
      rw [r3, List.mem_range'_1] at this
      omega
    refine ⟨rid, tok, x.2, ?_, ?_, hm⟩
    · rw [l1, ← hx1]; exact List.mem_append_right _ hx
    · rw [hx2]; exact toNat_ofNat_tid _ hlt
  have htids : l.map (fun x => x.2.tid.toNat) = List.range' a.sock.nextTid ps.length := by
    have h := congrArg (List.map (fun y : Addr × UInt32 => y.2.toNat)) l2
    simp only [List.map_map] at h
    have h' : l.map (fun x => x.2.tid.toNat) = ps.map (fun p => (UInt32.ofNat p.2).toNat) := h
    rw [h', ← r3]
    apply List.map_congr_left
    intro p hp
    have : p.2 ∈ ps.map (·.2) := List.mem_map.2 ⟨p, hp, rfl⟩
    rw [r3, List.mem_range'_1] at this
    exact toNat_ofNat_tid _ (by omega)
  have hreq : ∀ x ∈ l, isReq x = true := by
    intro x hx
    obtain ⟨rid, tok, hm⟩ := l3 x hx
    simp [isReq, hm]
  have hrange : ∀ x ∈ l, a.sock.nextTid ≤ x.2.tid.toNat ∧ x.2.tid.toNat < a.sock.nextTid + ps.length := by
    intro x hx
    have : x.2.tid.toNat ∈ l.map (fun x => x.2.tid.toNat) := List.mem_map.2 ⟨x, hx, rfl⟩
    rw [htids, List.mem_range'_1] at this
    exact this
  refine ⟨⟨⟨?_, ?_⟩, ?_, ?_, ?_⟩, ?_⟩
  · rw [l1, List.filter_append, List.filter_eq_self.2 hreq, List.pairwise_append]
    refine ⟨hat.log.sorted, ?_, ?_⟩
    · have : (l.map (fun x => x.2.tid.toNat)).Pairwise (· < ·) := by
        rw [htids]; exact List.pairwise_lt_range'
      exact (List.pairwise_map.1 this)
    · intro x hx y hy
      have hxm := List.mem_filter.1 hx
      have := hat.log.below x hxm.1 hxm.2
      have := (hrange y hy).1
      omega
  · intro x hx rx
    rw [s1, r2]
    rw [l1] at hx
    rcases List.mem_append.1 hx with h | h
    · have := hat.log.below x h rx; omega
    · exact (hrange x h).2
  · intro p hp tid ht
    rw [s2] at hp
    obtain ⟨to, hs⟩ := hat.iter p hp tid ht
    exact ⟨to, hs.mono hmono⟩
  · intro p hp tid ht
    rw [s3] at hp
    obtain ⟨to, rid, tok, hs⟩ := hat.puts p hp tid ht
    exact ⟨to, rid, tok, hs.mono hmono⟩
  · intro r hr
    rw [s1, r1] at hr
    rcases List.mem_append.1 hr with h | h
    · obtain ⟨req, hs⟩ := hat.sock r h
      exact ⟨req, hs.mono hmono⟩
    · obtain ⟨p, hp, rfl⟩ := List.mem_map.1 h
      obtain ⟨rid, tok, hs⟩ := hpair p hp
      exact ⟨_, hs⟩
  · intro tid ht
    rw [e2] at ht
    simp only at ht
    rw [z2] at ht
    rcases List.mem_append.1 ht with h | h
    · exact Or.inl h
    · obtain ⟨p, hp, rfl⟩ := List.mem_map.1 h
      obtain ⟨rid, tok, hs⟩ := hpair p hp
      exact Or.inr ⟨_, rid, tok, hs⟩


theorem startPut_core' (a : Actor) (e : PutEntry) (closest : List Node) (now : Nat) :
    (startPut a e closest now).1.core.iter = a.core.iter ∧ (startPut a e closest now).1.core.puts = a.core.puts ∧
    (startPut a e closest now).2.1.spec = e.spec := by
  obtain ⟨e1, e2⟩ := startPut_eq a e closest now
  obtain ⟨_, s2, s3, _⟩ := sendPuts_fields e.spec
    ((e.q.start a.sock closest now).2.2.2.zip ((e.q.start a.sock closest now).1.inflight.drop e.q.inflight.length))
    { a with sock := (e.q.start a.sock closest now).2.1 }
  rw [← e1] at s2 s3
  exact ⟨s2, s3, by rw [e2]⟩

/-- registering the started put under its target -/
theorem startPut_register (a : Actor) (e : PutEntry) (closest : List Node) (now : Nat) (t : Id)
    (hold : ∀ tid ∈ e.q.inflight, ∃ to rid tok, Sent a tid to ⟨rid, .put tok e.spec⟩)
    (hb : a.sock.nextTid + ((startPut a e closest now).1.out.length - a.out.length) < two32) (hat : Attr a) :
    Attr { (startPut a e closest now).1 with
           core := { (startPut a e closest now).1.core with
                     puts := alSet (startPut a e closest now).1.core.puts t (startPut a e closest now).2.1 } } := by
  obtain ⟨h1, h2⟩ := startPut_attr a e closest now hb hat
  obtain ⟨c1, c2, c3⟩ := startPut_core' a e closest now
  have hmono := (startPut_adv a e closest now).1.out
  refine h1.recore rfl rfl (fun p hp tid ht => h1.iter p hp tid ht) ?_
  intro p hp tid ht
  rcases mem_alSet _ _ _ _ hp with rfl | h
  · rcases h2 tid ht with h | h
    · obtain ⟨to, rid, tok, hs⟩ := hold tid h
      exact ⟨to, rid, tok, by rw [c3]; exact hs.mono hmono⟩
    · obtain ⟨to, rid, tok, hs⟩ := h
      exact ⟨to, rid, tok, by rw [c3]; exact hs⟩
  · exact h1.puts p h tid ht

theorem startPutOne_advA (now : Nat) (acc : Actor × List (Id × Option PutErr)) (d : Id × List Node) :
    AdvA now acc.1 (startPutOne now acc d).1 := by
  refine ⟨startPutOne_adv now acc d, ?_⟩
  unfold startPutOne
  split
  · rename_i e he
    have key : acc.1.sock.nextTid + ((startPut acc.1 e d.2 now).1.out.length - acc.1.out.length) < two32 → Attr acc.1 →
        Attr { (startPut acc.1 e d.2 now).1 with
          core := { (startPut acc.1 e d.2 now).1.core with
                    puts := alSet (startPut acc.1 e d.2 now).1.core.puts d.1 (startPut acc.1 e d.2 now).2.1 } } := by
      intro hb hat
      exact startPut_register acc.1 e d.2 now d.1 (fun tid ht => hat.puts (d.1, e) (mem_of_alGet _ _ _ he) tid ht) hb hat
    split
    · exact key
    · exact key
  · exact fun _ h => h

theorem startPuts_advA (a : Actor) (now : Nat) (di : List (Id × List Node)) (dp : List (Id × Option PutErr)) :
    AdvA now a (startPuts a now di dp).1 := by
  unfold startPuts
  have : ∀ (l : List (Id × List Node)) (acc : Actor × List (Id × Option PutErr)),
      AdvA now acc.1 (l.foldl (startPutOne now) acc).1 := by
    intro l
    induction l with
    | nil => intro acc; exact AdvA.refl now _
    | cons d ds ih => intro acc; simp only [List.foldl_cons]; exact (startPutOne_advA now acc d).trans (ih _)
  exact this di (a, dp)

/-! ### the message pick-up -/

theorem putFromCache_advA (a : Actor) (spec : PutSpec) (extra : List Node) (closest : List Node) (now : Nat) :
    AdvA now a (putFromCache a spec extra closest now).1 := by
  refine ⟨putFromCache_adv a spec extra closest now, ?_⟩
  unfold putFromCache
  split
  · intro hb hat
    exact (startPut_attr a (newPutEntry spec extra) closest now hb hat).1
  · intro hb hat
    simp only [registerPut]
    exact startPut_register a (newPutEntry spec extra) closest now spec.target
      (fun tid ht => by rw [newPutEntry_inflight] at ht; cases ht) hb hat

theorem putAfterCheck_advA (a : Actor) (spec : PutSpec) (extra : List Node) (now : Nat) :
    AdvA now a (putAfterCheck a spec extra now).1 := by
  obtain ⟨_, _, _, g4, g5, _⟩ := getCached_fields a.core spec.target now
  have hb0 : AdvA now a { a with core := (getCachedClosestNodes a.core spec.target now).1 } := AdvA.same rfl rfl g4 g5
  unfold putAfterCheck
  split
  · exact hb0.trans (putFromCache_advA _ spec extra _ now)
  · simp only [registerPut]
    have hg := get_advA { a with core := (getCachedClosestNodes a.core spec.target now).1 } (GetKind.ofPut spec) spec.target [] now
    have hgA := get_adv { a with core := (getCachedClosestNodes a.core spec.target now).1 } (GetKind.ofPut spec) spec.target [] now
    have hadv : Adv now { a with core := (getCachedClosestNodes a.core spec.target now).1 }
        { (Actor.get { a with core := (getCachedClosestNodes a.core spec.target now).1 } (GetKind.ofPut spec) spec.target [] now).1 with
          core := { (Actor.get { a with core := (getCachedClosestNodes a.core spec.target now).1 } (GetKind.ofPut spec) spec.target [] now).1.core with
            puts := alSet (Actor.get { a with core := (getCachedClosestNodes a.core spec.target now).1 } (GetKind.ofPut spec) spec.target [] now).1.core.puts
              spec.target (newPutEntry spec extra) } } := by
      refine ⟨hgA.out, ?_⟩
      intro hb
      have f := hgA.ok hb
      refine f.recore rfl rfl (fun p' hp' tid ht => f.iter p' hp' tid ht) ?_
      intro p' hp' tid ht
      rcases mem_alSet _ _ _ _ hp' with rfl | h
      · rw [newPutEntry_inflight] at ht; cases ht
      · exact f.puts p' h tid ht
    refine hb0.trans ⟨hadv, ?_⟩
    intro hb hat
    have h1 := hg.keep hb hat
    refine h1.recore rfl rfl (fun p hp tid ht => h1.iter p hp tid ht) ?_
    intro p hp tid ht
    rcases mem_alSet _ _ _ _ hp with rfl | h
    · rw [newPutEntry_inflight] at ht; cases ht
    · exact h1.puts p h tid ht


theorem put_advA (a : Actor) (spec : PutSpec) (extra : List Node) (now : Nat) : AdvA now a (a.put spec extra now).1 := by
  obtain ⟨c1, c2⟩ := checkConcurrency_time a.core spec
  have hb0 : AdvA now a { a with core := (checkConcurrency a.core spec).1 } :=
    AdvA.carry
      (Adv.quiet rfl rfl (List.Sublist.refl _) (fun p' hp' tid ht => ⟨p', by rw [← c1]; exact hp', ht⟩)
        (fun p' hp' tid ht => ⟨p', c2 p' hp', ht⟩))
      ⟨[], by simp, by intro x h; cases h⟩ (Nat.le_refl _)
      (fun p' hp' tid ht => ⟨p', by rw [← c1]; exact hp', rfl, ht⟩)
      (fun p' hp' tid ht => ⟨p', c2 p' hp', rfl, ht⟩) (fun r h => h)
  unfold Actor.put
  split
  · exact hb0
  · exact hb0.trans (putAfterCheck_advA _ spec extra now)

theorem events_advA {now : Nat} {a a' : Actor} (ho : a'.out = a.out) (hs : a'.sock = a.sock) (hc : a'.core = a.core) :
    AdvA now a a' := AdvA.same ho hs (by rw [hc]) (by rw [hc])

theorem pickup_advA (a : Actor) (env : Env) (msg : Option ApiMsg) : AdvA env.now a (a.pickup env msg) := by
  unfold pickup
  split
  · exact AdvA.refl _ a
  · exact AdvA.refl _ a
  · exact events_advA rfl rfl rfl
  · unfold pickupPut
    split
    · exact (put_advA a _ _ env.now).trans (events_advA rfl rfl rfl)
    · exact (put_advA a _ _ env.now).trans (events_advA rfl rfl rfl)
  · unfold pickupGet
    exact (get_advA a _ _ _ env.now).trans (events_advA rfl rfl rfl)

/-! ### the first half of the tick -/

theorem recvPhase_advA (a : Actor) (now : Nat) (dgram : Option (Message × Addr)) : AdvA now a (a.recvPhase now dgram).1 := by
  obtain ⟨h1, h2, h3, h4⟩ := recvPhase_time a now dgram
  exact AdvA.carry (recvPhase_adv a now dgram) ⟨[], by simp [h1], by intro x h; cases h⟩ (by rw [h3]; exact Nat.le_refl _)
    (fun p' hp' tid ht => ⟨p', by rw [← h2]; exact hp', rfl, ht⟩)
    (fun p' hp' tid ht => ⟨p', by rw [← h2]; exact hp', rfl, ht⟩) (fun r h => h4.subset h)

theorem sendReply_advA (a : Actor) (src : Addr) (tid : UInt32) (r : Option Reply) (now : Nat) :
    AdvA now a (a.sendReply src tid r) := by
  unfold sendReply
  split
  · exact reply_advA a src tid _ (by intro r h; cases h) now
  · exact reply_advA a src tid _ (by intro r h; cases h) now
  · exact AdvA.refl now a

theorem handleIncomingRequest_advA (a : Actor) (env : Env) (m : Message) (src : Addr) (req : Request) :
    AdvA env.now a (a.handleIncomingRequest env m src req) := by
  obtain ⟨c1, _⟩ := handleRequest_cache a.core env src m.readOnly m.version req
  have c2 := handleRequest_puts a.core env src m.readOnly m.version req
  have hb0 : AdvA env.now a { a with core := (handleRequest a.core env src m.readOnly m.version req).1 } :=
    AdvA.same rfl rfl c1 c2
  unfold handleIncomingRequest
  split
  · exact hb0.trans ((sendReply_advA _ src m.tid _ env.now).trans (populate_advA _ env.now))
  · exact hb0.trans (sendReply_advA _ src m.tid _ env.now)

theorem absorb_request (q : IterQuery) (now : Nat) (src : Addr) (m : Message) : (absorb q now src m).request = q.request := by
  have h1 : ∀ (ns : List Node) (q : IterQuery), (addCandidates q ns now).request = q.request := by
    intro ns
    unfold addCandidates
    induction ns with
    | nil => intro q; rfl
    | cons n ns ih => intro q; simp only [List.foldl_cons]; rw [ih]; rfl
  have h2 : (absorbNodes q now m).request = q.request := by
    unfold absorbNodes
    split
    · split
      · exact h1 _ _
      · rfl
    · rfl
  have h3 : ∀ q : IterQuery, (absorbToken q now src m).request = q.request := by
    intro q
    unfold absorbToken
    split
    · split <;> rfl
    · rfl
  have h4 : ∀ q : IterQuery, (absorbVote q m).request = q.request := by
    intro q
    unfold absorbVote
    split
    · unfold IterQuery.addVote; rfl
    · rfl
  unfold absorb
  rw [h4, h3, h2]

theorem lookupStep_request (q : IterQuery) (env : Env) (src : Addr) (m : Message) :
    (lookupStep q env src m).1.request = q.request := by
  unfold lookupStep
  split
  · exact absorb_request q env.now src m
  · exact absorb_request q env.now src m

/-- a response keeps every lookup's request and every put's payload, and adds no id -/
theorem handleResponse_attr (c : Core) (env : Env) (src : Addr) (m : Message) :
    (∀ p' ∈ (handleResponse c env src m).1.iter, ∀ tid ∈ p'.2.inflight,
      ∃ p ∈ c.iter, p.2.request = p'.2.request ∧ tid ∈ p.2.inflight) ∧
    (∀ p' ∈ (handleResponse c env src m).1.puts, ∀ tid ∈ p'.2.q.inflight,
      ∃ p ∈ c.puts, p.2.spec = p'.2.spec ∧ tid ∈ p.2.q.inflight) := by
  unfold handleResponse
  split
  · exact ⟨fun p' h tid ht => ⟨p', h, rfl, ht⟩, fun p' h tid ht => ⟨p', h, rfl, ht⟩⟩
  · split
    · rename_i target e hf
      have hmem : (target, e) ∈ c.puts := List.mem_of_find?_eq_some hf
      refine ⟨fun p' h tid ht => ⟨p', h, rfl, ht⟩, ?_⟩
      intro p' hp' tid ht
      rcases mem_alSet _ _ _ _ hp' with rfl | h
      · simp only [putStep_inflight'] at ht
        exact ⟨_, hmem, rfl, ht⟩
      · exact ⟨p', h, rfl, ht⟩
    · split
      · rename_i target q hf
        have hmem : (target, q) ∈ c.iter := List.mem_of_find?_eq_some hf
        have key : ∀ p' ∈ alSet c.iter target (lookupStep q env src m).1, ∀ tid ∈ p'.2.inflight,
            ∃ p ∈ c.iter, p.2.request = p'.2.request ∧ tid ∈ p.2.inflight := by
          intro p' hp' tid ht
          rcases mem_alSet _ _ _ _ hp' with rfl | h
          · simp only [lookupStep_inflight] at ht
            exact ⟨_, hmem, (lookupStep_request q env src m).symm, ht⟩
          · exact ⟨p', h, rfl, ht⟩
        split
        · obtain ⟨r1, r2⟩ := addResponder_time { c with iter := alSet c.iter target (lookupStep q env src m).1 } env.now src m
          rw [r1, r2]
          exact ⟨key, fun p' h tid ht => ⟨p', h, rfl, ht⟩⟩
        · exact ⟨key, fun p' h tid ht => ⟨p', h, rfl, ht⟩⟩
      · split
        · obtain ⟨r1, r2⟩ := addResponder_time c env.now src m
          rw [r1, r2]
          exact ⟨fun p' h tid ht => ⟨p', h, rfl, ht⟩, fun p' h tid ht => ⟨p', h, rfl, ht⟩⟩
        · exact ⟨fun p' h tid ht => ⟨p', h, rfl, ht⟩, fun p' h tid ht => ⟨p', h, rfl, ht⟩⟩

theorem handleIncoming_advA (a : Actor) (env : Env) (handed : Option (Message × Addr)) :
    AdvA env.now a (a.handleIncoming env handed).1 := by
  refine ⟨handleIncoming_adv a env handed, ?_⟩
  unfold handleIncoming
  split
  · exact fun _ h => h
  · rename_i m src
    split
    · exact (handleIncomingRequest_advA a env m src _).keep
    · obtain ⟨h1, h2⟩ := handleResponse_attr a.core env src m
      obtain ⟨t1, t2⟩ := handleResponse_time a.core env src m
      exact (AdvA.carry (a := a) (a' := { a with core := (handleResponse a.core env src m).1 }) (now := env.now)
        (Adv.quiet rfl rfl (List.Sublist.refl _) t1 t2)
        ⟨[], by simp, by intro x h; cases h⟩ (Nat.le_refl _) h1 h2 (fun r h => h)).keep

theorem forwardValue_advA (a : Actor) (v : Option (Id × Value)) (now : Nat) : AdvA now a (a.forwardValue v) := by
  unfold forwardValue
  split
  · split
    · exact events_advA rfl rfl rfl
    · exact AdvA.refl now a
  · exact AdvA.refl now a

theorem preDone_advA (a : Actor) (env : Env) (dgram : Option (Message × Addr)) : AdvA env.now a (a.preDone env dgram) := by
  unfold preDone
  exact (recvPhase_advA a env.now dgram).trans ((handleIncoming_advA _ env _).trans (forwardValue_advA _ _ env.now))


/-! ### the second half of the tick -/

theorem pingOpt_advA (a : Actor) (to : Option Addr) (now : Nat) : AdvA now a (a.pingOpt to now) := by
  unfold pingOpt
  split
  · exact ping_advA a _ now
  · exact AdvA.refl now a

/-- the end of the tick after `start_put_queries` -/
theorem finishTick_rest_advA (a : Actor) (now : Nat) (dp0 : List (Id × Option PutErr)) :
    AdvA now (startPuts a now (a.doneLookups now) dp0).1 (finishTick a now dp0) := by
  unfold finishTick
  generalize startPuts a now (a.doneLookups now) dp0 = sp
  obtain ⟨c1, c2⟩ := cleanupDone_time sp.1.core (a.doneLookups now) sp.2
  generalize cleanupDone sp.1.core (a.doneLookups now) sp.2 = cd at c1 c2 ⊢
  have h2 : AdvA now sp.1 { sp.1 with core := cd.1 } :=
    AdvA.carry
      (Adv.quiet rfl rfl (List.Sublist.refl _) (fun p' hp' tid ht => ⟨p', c1 p' hp', ht⟩)
        (fun p' hp' tid ht => ⟨p', c2 p' hp', ht⟩))
      ⟨[], by simp, by intro x h; cases h⟩ (Nat.le_refl _)
      (fun p' hp' tid ht => ⟨p', c1 p' hp', rfl, ht⟩) (fun p' hp' tid ht => ⟨p', c2 p' hp', rfl, ht⟩) (fun r h => h)
  have h3 := pingOpt_advA { sp.1 with core := cd.1 } cd.2 now
  obtain ⟨g1, g2, g3⟩ := releaseGetCallers_time (pingOpt { sp.1 with core := cd.1 } cd.2 now) (a.doneLookups now)
  obtain ⟨p1, p2, p3⟩ := releasePutCallers_time
    (releaseGetCallers (pingOpt { sp.1 with core := cd.1 } cd.2 now) (a.doneLookups now)) sp.2
  exact h2.trans (h3.trans ((events_advA g1 g2 g3).trans (events_advA p1 p2 p3)))

theorem finishTick_advA (a : Actor) (now : Nat) (dp0 : List (Id × Option PutErr)) : AdvA now a (finishTick a now dp0) :=
  (startPuts_advA a now (a.doneLookups now) dp0).trans (finishTick_rest_advA a now dp0)

theorem afterRecv_advA (a : Actor) (env : Env) (dgram : Option (Message × Addr)) : AdvA env.now a (a.afterRecv env dgram) := by
  unfold afterRecv
  exact (preDone_advA a env dgram).trans ((visitClosestAll_advA _ env.now).trans (finishTick_advA _ env.now _))

/-! ### maintenance, and the whole iteration -/

theorem pingTable_advA (a : Actor) (now : Nat) : AdvA now a (a.pingTable now) := by
  unfold pingTable
  split
  · have hfold : ∀ (l : List Addr) (b : Actor), AdvA now b (l.foldl (fun a addr => a.ping addr now) b) := by
      intro l
      induction l with
      | nil => intro b; exact AdvA.refl now b
      | cons x xs ih => intro b; simp only [List.foldl_cons]; exact (ping_advA b x now).trans (ih _)
    have h0 : AdvA now a { a with core := (pingRound { a.core with lastPing := now } now).1 } :=
      AdvA.same rfl rfl rfl rfl
    exact h0.trans (hfold _ _)
  · exact AdvA.refl now a

theorem bootstrapIfEmpty_advA (a : Actor) (now : Nat) : AdvA now a (a.bootstrapIfEmpty now) := by
  unfold bootstrapIfEmpty
  split
  · exact populate_advA a now
  · exact AdvA.refl now a

theorem refreshTable_advA (a : Actor) (now : Nat) : AdvA now a (a.refreshTable now) := by
  unfold refreshTable
  split
  · have h0 : AdvA now a (adaptiveSwitch { a with core := { a.core with lastRefresh := now } }) := by
      unfold adaptiveSwitch
      split
      · exact AdvA.same rfl rfl rfl rfl
      · exact AdvA.same rfl rfl rfl rfl
    exact h0.trans (populate_advA _ now)
  · exact AdvA.refl now a

theorem maintenance_advA (a : Actor) (now : Nat) : AdvA now a (a.maintenance now) := by
  unfold maintenance
  exact (bootstrapIfEmpty_advA a now).trans ((refreshTable_advA _ now).trans (pingTable_advA _ now))

theorem cleanup_advA (a : Actor) (now : Nat) : AdvA now a { a with sock := a.sock.cleanup now } := by
  have hn : (a.sock.cleanup now).nextTid = a.sock.nextTid := by
    unfold Inflight.cleanup; split <;> rfl
  exact AdvA.carry (cleanup_adv a now) ⟨[], by simp, by intro x h; cases h⟩ (by rw [hn]; exact Nat.le_refl _)
    (fun p' hp' tid ht => ⟨p', hp', rfl, ht⟩) (fun p' hp' tid ht => ⟨p', hp', rfl, ht⟩)
    (fun r h => (Inflight.cleanup_requests_sublist a.sock now).subset h)

/-- **One iteration of the actor loop keeps the attribution invariant** (while the id counter does not wrap). -/
theorem step_advA (a : Actor) (env : Env) (dgram : Option (Message × Addr)) (msg : Option ApiMsg) :
    AdvA env.now a (a.step env dgram msg) := by
  unfold Actor.step
  exact (afterRecv_advA a env dgram).trans ((pickup_advA _ env msg).trans ((maintenance_advA _ env.now).trans (cleanup_advA _ env.now)))

theorem step_attr (a : Actor) (h : Attr a) (env : Env) (dgram : Option (Message × Addr)) (msg : Option ApiMsg)
    (hb : a.sock.nextTid + ((a.step env dgram msg).out.length - a.out.length) < two32) :
    Attr (a.step env dgram msg) := (step_advA a env dgram msg).keep hb h

end Mainline
