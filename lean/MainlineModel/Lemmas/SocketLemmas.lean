/-
  Lemmas about the in-flight request table (`Model/Socket.lean`): the wrapping-order invariant,
  correctness of the transaction-id lookup, and what `cleanup` may drop.
-/
import MainlineModel.Model.Socket
import MainlineModel.Lemmas.BinarySearch
namespace Mainline

/-! ### binary search on a list sorted by a numeric key -/

theorem probeAt_eq {α} (cmp : α → Ordering) (l : List α) (i : Nat) (h : i < l.length) :
    probeAt cmp l i = cmp l[i] := by
  simp [probeAt, List.getElem?_eq_getElem h]

theorem probeAt_key_mono {α} (key : α → Nat) (t : Nat) (l : List α)
    (hs : l.Pairwise (fun a b => key a < key b)) :
    BsMono (probeAt (fun r => compare (key r) t) l) l.length := by
  rw [List.pairwise_iff_getElem] at hs
  constructor
  · intro i j hij hj h
    by_cases e : i = j
    · subst e; exact h
    · have hi : i < l.length := by omega
      rw [probeAt_eq _ _ _ hj, Nat.compare_eq_lt] at h
      rw [probeAt_eq _ _ _ hi, Nat.compare_eq_lt]
      have := hs i j hi hj (by omega)
      omega
  · intro i j hij hj h
    by_cases e : i = j
    · subst e; exact h
    · have hi : i < l.length := by omega
      rw [probeAt_eq _ _ _ hi, Nat.compare_eq_gt] at h
      rw [probeAt_eq _ _ _ hj, Nat.compare_eq_gt]
      have := hs i j hi hj (by omega)
      omega

/-- on a list strictly sorted by `key`, the search finds exactly the element with key `t` -/
theorem binarySearchBy_key_ok {α} (key : α → Nat) (t : Nat) (l : List α)
    (hs : l.Pairwise (fun a b => key a < key b)) (i : Nat)
    (h : binarySearchBy (fun r => compare (key r) t) l = .inl i) :
    ∃ hi : i < l.length, key l[i] = t := by
  obtain ⟨hi, he⟩ := bsSearch_ok _ _ (probeAt_key_mono key t l hs) i h
  refine ⟨hi, ?_⟩
  rw [probeAt_eq _ _ _ hi, Nat.compare_eq_eq] at he
  exact he

theorem binarySearchBy_key_err {α} (key : α → Nat) (t : Nat) (l : List α)
    (hs : l.Pairwise (fun a b => key a < key b)) (p : Nat)
    (h : binarySearchBy (fun r => compare (key r) t) l = .inr p) :
    ∀ r ∈ l, key r ≠ t := by
  obtain ⟨_, hlt, hgt⟩ := bsSearch_err _ _ (probeAt_key_mono key t l hs) p h
  intro r hr
  obtain ⟨i, hi, rfl⟩ := List.getElem_of_mem hr
  by_cases hip : i < p
  · have := hlt i hip
    rw [probeAt_eq _ _ _ hi, Nat.compare_eq_lt] at this
    omega
  · have := hgt i (by omega) hi
    rw [probeAt_eq _ _ _ hi, Nat.compare_eq_gt] at this
    omega

/-! ### wrapping arithmetic on transaction ids -/

theorem wsub_lt (a b : Nat) : wsub a b < two32 := by
  unfold wsub two32; omega

theorem wsub_self (a : Nat) (h : a < two32) : wsub a a = 0 := by
  unfold wsub two32 at *; omega

/-- going back from `n`: if `b` is at least as old as `a`, the distance from `b` to `a` is the
    difference of their ages -/
theorem wsub_age (n a b : Nat) (hn : n < two32) (ha : a < two32) (hb : b < two32)
    (h : wsub n a ≤ wsub n b) : wsub a b = wsub n b - wsub n a := by
  unfold wsub two32 at *; omega

theorem wsub_inj (a b h : Nat) (ha : a < two32) (hb : b < two32) (hh : h < two32)
    (e : wsub a h = wsub b h) : a = b := by
  unfold wsub two32 at *; omega

/-! ### the invariant: requests are ordered by age (distance back from `nextTid`) -/

/-- how many transaction ids ago request `r` was issued -/
def Inflight.age (s : Inflight) (r : InflightReq) : Nat := wsub s.nextTid r.tid

structure Inflight.Inv (s : Inflight) : Prop where
  next_lt : s.nextTid < two32
  tid_lt : ∀ r ∈ s.requests, r.tid < two32
  /-- older requests come first, and no two requests share an id -/
  sorted : s.requests.Pairwise (fun a b => wsub s.nextTid b.tid < wsub s.nextTid a.tid)
  /-- every request is at least one id old -/
  pos : ∀ r ∈ s.requests, 0 < wsub s.nextTid r.tid
  /-- send times never decrease along the list -/
  times : s.requests.Pairwise (fun a b => a.sentAt ≤ b.sentAt)

namespace Inflight

theorem inv_empty (n : Nat) (h : n < two32) (to cap : Nat) :
    Inv { nextTid := n, requests := [], timeout := to, cap := cap } :=
  ⟨h, by simp, by simp, by simp, by simp⟩

/-- relative to the oldest request, ids grow along the list -/
theorem sorted_from_head (s : Inflight) (hi : s.Inv) (h : InflightReq) (t : List InflightReq)
    (hl : s.requests = h :: t) :
    s.requests.Pairwise (fun a b => wsub a.tid h.tid < wsub b.tid h.tid) := by
  have hs := hi.sorted
  have htid := hi.tid_lt
  have hhead : ∀ r ∈ s.requests, wsub s.nextTid r.tid ≤ wsub s.nextTid h.tid := by
    intro r hr
    rw [hl] at hr hs
    rcases List.mem_cons.1 hr with e | hm
    · subst e; exact Nat.le_refl _
    · exact Nat.le_of_lt ((List.pairwise_cons.1 hs).1 r hm)
  have hh : h.tid < two32 := htid h (by rw [hl]; exact List.mem_cons_self)
  refine List.Pairwise.imp_of_mem ?_ hs
  intro a b ha hb hab
  rw [wsub_age s.nextTid a.tid h.tid hi.next_lt (htid a ha) hh (hhead a ha),
    wsub_age s.nextTid b.tid h.tid hi.next_lt (htid b hb) hh (hhead b hb)]
  have := hhead a ha
  omega

theorem findByTid_ok (s : Inflight) (hi : s.Inv) (tid i : Nat) (htid : tid < two32)
    (h : s.findByTid tid = .inl i) : ∃ hlt : i < s.requests.length, s.requests[i].tid = tid := by
  unfold findByTid at h
  cases hl : s.requests with
  | nil => rw [hl] at h; simp [binarySearchBy, bsSearch] at h
  | cons hd t =>
    have hs := sorted_from_head s hi hd t hl
    rw [hl] at h hs
    simp only [List.head?_cons] at h
    have hh : hd.tid < two32 := hi.tid_lt hd (by rw [hl]; exact List.mem_cons_self)
    have h' : binarySearchBy (fun r : InflightReq => compare (wsub r.tid hd.tid) (wsub tid hd.tid)) (hd :: t) = .inl i := h
    obtain ⟨hlt, he⟩ := binarySearchBy_key_ok (fun r : InflightReq => wsub r.tid hd.tid) (wsub tid hd.tid) (hd :: t) hs i h'
    refine ⟨hlt, ?_⟩
    have hm : (hd :: t)[i] ∈ s.requests := by rw [hl]; exact List.getElem_mem _
    exact wsub_inj _ _ _ (hi.tid_lt _ hm) htid hh he

theorem findByTid_err (s : Inflight) (hi : s.Inv) (tid p : Nat) (htid : tid < two32)
    (h : s.findByTid tid = .inr p) : ∀ r ∈ s.requests, r.tid ≠ tid := by
  unfold findByTid at h
  cases hl : s.requests with
  | nil => simp
  | cons hd t =>
    have hs := sorted_from_head s hi hd t hl
    rw [hl] at h hs
    simp only [List.head?_cons] at h
    have h' : binarySearchBy (fun r : InflightReq => compare (wsub r.tid hd.tid) (wsub tid hd.tid)) (hd :: t) = .inr p := h
    have := binarySearchBy_key_err (fun r : InflightReq => wsub r.tid hd.tid) (wsub tid hd.tid) (hd :: t) hs p h'
    intro r hr e
    exact this r hr (by rw [e])

/-- ids are pairwise distinct -/
theorem tids_nodup (s : Inflight) (hi : s.Inv) : s.requests.Pairwise (fun a b => a.tid ≠ b.tid) := by
  refine List.Pairwise.imp ?_ hi.sorted
  intro a b h e
  rw [e] at h
  exact Nat.lt_irrefl _ h

/-- `find` returns the (unique) request with that id, or nothing when there is none -/
theorem find_some (s : Inflight) (hi : s.Inv) (tid : Nat) (htid : tid < two32) (r : InflightReq)
    (h : s.find tid = some r) : r ∈ s.requests ∧ r.tid = tid := by
  unfold find at h
  cases hf : s.findByTid tid with
  | inl i =>
    rw [hf] at h
    obtain ⟨hlt, he⟩ := findByTid_ok s hi tid i htid hf
    simp only [List.getElem?_eq_getElem hlt, Option.some.injEq] at h
    subst h
    exact ⟨List.getElem_mem _, he⟩
  | inr p => rw [hf] at h; cases h

theorem find_none (s : Inflight) (hi : s.Inv) (tid : Nat) (htid : tid < two32)
    (h : s.find tid = none) : ∀ r ∈ s.requests, r.tid ≠ tid := by
  unfold find at h
  cases hf : s.findByTid tid with
  | inl i =>
    rw [hf] at h
    obtain ⟨hlt, _⟩ := findByTid_ok s hi tid i htid hf
    simp [List.getElem?_eq_getElem hlt] at h
  | inr p => exact findByTid_err s hi tid p htid hf

theorem find_of_mem (s : Inflight) (hi : s.Inv) (r : InflightReq) (hr : r ∈ s.requests) :
    s.find r.tid = some r := by
  have htid := hi.tid_lt r hr
  cases hf : s.find r.tid with
  | none => exact absurd rfl (find_none s hi r.tid htid hf r hr)
  | some r' =>
    obtain ⟨hm, he⟩ := find_some s hi r.tid htid r' hf
    -- two requests with the same id are the same request
    have hnd := tids_nodup s hi
    by_cases e : r' = r
    · rw [e]
    · exfalso
      obtain ⟨i, hi', rfl⟩ := List.getElem_of_mem hr
      obtain ⟨j, hj', rfl⟩ := List.getElem_of_mem hm
      rw [List.pairwise_iff_getElem] at hnd
      rcases Nat.lt_trichotomy i j with hlt | heq | hgt
      · exact hnd i j hi' hj' hlt he.symm
      · subst heq; exact e rfl
      · exact hnd j i hj' hi' hgt he

end Inflight
end Mainline

namespace Mainline
namespace Inflight

/-! ### the invariant is kept by every operation -/

theorem inv_sublist (s : Inflight) (hi : s.Inv) (l : List InflightReq) (hl : l.Sublist s.requests) :
    Inv { s with requests := l } :=
  ⟨hi.next_lt, fun r hr => hi.tid_lt r (hl.subset hr), hi.sorted.sublist hl,
   fun r hr => hi.pos r (hl.subset hr), hi.times.sublist hl⟩

theorem inv_timeout (s : Inflight) (hi : s.Inv) (t : Nat) : Inv { s with timeout := t } :=
  ⟨hi.next_lt, hi.tid_lt, hi.sorted, hi.pos, hi.times⟩

theorem remove_requests_sublist (s : Inflight) (tid : Nat) :
    (s.remove tid).1.requests.Sublist s.requests := by
  unfold remove
  split
  · exact List.eraseIdx_sublist _ _
  · exact List.Sublist.refl _

theorem remove_fields (s : Inflight) (tid : Nat) :
    (s.remove tid).1.nextTid = s.nextTid ∧ (s.remove tid).1.timeout = s.timeout ∧
    (s.remove tid).1.cap = s.cap := by
  unfold remove; split <;> simp

theorem inv_remove (s : Inflight) (hi : s.Inv) (tid : Nat) : (s.remove tid).1.Inv := by
  have := inv_sublist s hi _ (remove_requests_sublist s tid)
  unfold remove at *
  split <;> simp_all

theorem cleanup_requests_sublist (s : Inflight) (now : Nat) :
    (s.cleanup now).requests.Sublist s.requests := by
  unfold cleanup
  split
  · exact List.Sublist.refl _
  · exact List.drop_sublist _ _

theorem inv_cleanup (s : Inflight) (hi : s.Inv) (now : Nat) : (s.cleanup now).Inv := by
  have := inv_sublist s hi _ (cleanup_requests_sublist s now)
  unfold cleanup at *
  split <;> simp_all

/-- a new request may be added as long as the oldest one kept is fewer than 2^32 - 1 ids old -/
def addOk (s : Inflight) : Prop := ∀ r ∈ s.requests, wsub s.nextTid r.tid < two32 - 1

theorem inv_add (s : Inflight) (hi : s.Inv) (hok : s.addOk) (to : Addr) (now : Nat)
    (hnow : ∀ r ∈ s.requests, r.sentAt ≤ now) : (s.add to now).1.Inv := by
  have hn := hi.next_lt
  have hstep : ∀ r ∈ s.requests, wsub ((s.nextTid + 1) % two32) r.tid = wsub s.nextTid r.tid + 1 := by
    intro r hr
    have h1 := hi.tid_lt r hr
    have h2 := hok r hr
    unfold wsub two32 at *; omega
  constructor
  · show (s.nextTid + 1) % two32 < two32
    unfold two32; omega
  · intro r hr
    simp only [add, List.mem_append, List.mem_singleton] at hr
    rcases hr with h | rfl
    · exact hi.tid_lt r h
    · exact hn
  · simp only [add]
    rw [List.pairwise_append]
    refine ⟨?_, by simp, ?_⟩
    · refine List.Pairwise.imp_of_mem ?_ hi.sorted
      intro a b ha hb hab
      rw [hstep a ha, hstep b hb]; omega
    · intro a ha b hb
      simp only [List.mem_singleton] at hb
      subst hb
      rw [hstep a ha]
      have := hi.pos a ha
      have : wsub ((s.nextTid + 1) % two32) s.nextTid = 1 := by unfold wsub two32 at *; omega
      simp only [this]; omega
  · intro r hr
    simp only [add, List.mem_append, List.mem_singleton] at hr
    rcases hr with h | rfl
    · simp only [add]; rw [hstep r h]; omega
    · simp only [add]; unfold wsub two32 at *; omega
  · simp only [add]
    rw [List.pairwise_append]
    refine ⟨hi.times, by simp, ?_⟩
    intro a ha b hb
    simp only [List.mem_singleton] at hb
    subst hb
    exact hnow a ha

/-! ### `cleanup` only drops expired requests -/

/-- every request was sent at or before `now` -/
def Timed (s : Inflight) (now : Nat) : Prop := ∀ r ∈ s.requests, r.sentAt ≤ now

theorem expiry_mono (s : Inflight) (hi : s.Inv) (now : Nat) (ht : s.Timed now) :
    BsMono (probeAt (expiryProbe s.timeout now) s.requests) s.requests.length := by
  have hs := hi.times
  rw [List.pairwise_iff_getElem] at hs
  have hle : ∀ i j (hi' : i < s.requests.length) (hj : j < s.requests.length), i ≤ j →
      s.requests[i].sentAt ≤ s.requests[j].sentAt := by
    intro i j hi' hj hij
    by_cases e : i = j
    · subst e; exact Nat.le_refl _
    · exact hs i j hi' hj (by omega)
  constructor
  · intro i j hij hj h
    have hi' : i < s.requests.length := by omega
    rw [probeAt_eq _ _ _ hj] at h
    rw [probeAt_eq _ _ _ hi']
    unfold expiryProbe at *
    rw [Nat.compare_eq_lt] at *
    have := hle i j hi' hj hij
    omega
  · intro i j hij hj h
    have hi' : i < s.requests.length := by omega
    rw [probeAt_eq _ _ _ hi'] at h
    rw [probeAt_eq _ _ _ hj]
    unfold expiryProbe at *
    rw [Nat.compare_eq_gt] at *
    have := hle i j hi' hj hij
    have h1 := ht _ (List.getElem_mem hi')
    have h2 := ht _ (List.getElem_mem hj)
    omega

/-- whatever `cleanup` drops had expired -/
theorem cleanup_keeps_live (s : Inflight) (hi : s.Inv) (now : Nat) (ht : s.Timed now)
    (r : InflightReq) (hr : r ∈ s.requests) (hl : s.live r now = true) :
    r ∈ (s.cleanup now).requests := by
  unfold cleanup
  split
  · exact hr
  · simp only
    have hm := expiry_mono s hi now ht
    obtain ⟨i, hilt, rfl⟩ := List.getElem_of_mem hr
    have hlive : now - s.requests[i].sentAt < s.timeout := by simpa [live] using hl
    -- index of the first kept element is at most `i`
    suffices hidx : s.cleanupIdx now ≤ i by
      rw [List.mem_drop_iff_getElem]
      exact ⟨i - s.cleanupIdx now, by omega, by simp [show s.cleanupIdx now + (i - s.cleanupIdx now) = i by omega]⟩
    unfold cleanupIdx
    cases hb : binarySearchBy (expiryProbe s.timeout now) s.requests with
    | inl k =>
      simp only
      obtain ⟨hk, he⟩ := bsSearch_ok _ _ hm k hb
      rw [probeAt_eq _ _ _ hk] at he
      unfold expiryProbe at he
      rw [Nat.compare_eq_eq] at he
      -- if `i < k` then request `i` is at least as old as request `k`, which is exactly expired
      by_cases hik : k ≤ i
      · exact hik
      · exfalso
        have hs := hi.times
        rw [List.pairwise_iff_getElem] at hs
        have := hs i k hilt hk (by omega)
        omega
    | inr p =>
      simp only
      obtain ⟨_, hlt, _⟩ := bsSearch_err _ _ hm p hb
      by_cases hip : p ≤ i
      · exact hip
      · exfalso
        have := hlt i (by omega)
        rw [probeAt_eq _ _ _ hilt] at this
        unfold expiryProbe at this
        rw [Nat.compare_eq_lt] at this
        omega

theorem cleanup_fields (s : Inflight) (now : Nat) :
    (s.cleanup now).nextTid = s.nextTid ∧ (s.cleanup now).timeout = s.timeout := by
  unfold cleanup; split <;> simp

theorem cleanup_timed (s : Inflight) (now : Nat) (ht : s.Timed now) : (s.cleanup now).Timed now :=
  fun r hr => ht r ((cleanup_requests_sublist s now).subset hr)

end Inflight
end Mainline
