/-
  Helper lemmas for C12: the bucket map (association list sorted by key) and `KBucket::add`.
-/
import MainlineModel.Model.RoutingTable
namespace Mainline
namespace RoutingTable

abbrev Buckets := List (Nat × List Node)

def keysSorted (bs : Buckets) : Prop := bs.Pairwise (fun a b => a.1 < b.1)

def findB (bs : Buckets) (d : Nat) : Option (List Node) :=
  (bs.find? (fun b => b.1 == d)).map (·.2)

theorem bucket_eq_findB (rt : RoutingTable) (d : Nat) : rt.bucket d = findB rt.buckets d := rfl

theorem findB_cons (k : Nat) (v : List Node) (rest : Buckets) (d : Nat) :
    findB ((k, v) :: rest) d = if k = d then some v else findB rest d := by
  unfold findB
  by_cases h : k = d
  · subst h; simp
  · have : (k == d) = false := by simpa using h
    simp [this, h]

theorem findB_none_of_lt (bs : Buckets) (d : Nat) (h : ∀ b ∈ bs, d < b.1) : findB bs d = none := by
  induction bs with
  | nil => rfl
  | cons b bs ih =>
    obtain ⟨k, v⟩ := b
    rw [findB_cons]
    have := h (k, v) List.mem_cons_self
    simp only at this
    split
    · omega
    · exact ih (fun b hb => h b (List.mem_cons_of_mem _ hb))

theorem findB_some_mem (bs : Buckets) (d : Nat) (v : List Node) (h : findB bs d = some v) :
    (d, v) ∈ bs := by
  induction bs with
  | nil => cases h
  | cons b bs ih =>
    obtain ⟨k, w⟩ := b
    rw [findB_cons] at h
    split at h
    · rename_i hk; subst hk; cases h; exact List.mem_cons_self
    · exact List.mem_cons_of_mem _ (ih h)

theorem findB_of_mem (bs : Buckets) (hs : keysSorted bs) (d : Nat) (v : List Node)
    (h : (d, v) ∈ bs) : findB bs d = some v := by
  induction bs with
  | nil => cases h
  | cons b bs ih =>
    obtain ⟨k, w⟩ := b
    rw [findB_cons]
    unfold keysSorted at hs
    rw [List.pairwise_cons] at hs
    rcases List.mem_cons.1 h with h | h
    · cases h; simp
    · have := hs.1 (d, v) h
      simp only at this
      have hne : ¬ k = d := by omega
      simp only [hne, ite_false]
      exact ih hs.2 h

/-! ### setBucketIn -/

theorem mem_setBucketIn (bs : Buckets) (hs : keysSorted bs) (d : Nat) (ns : List Node)
    (b : Nat × List Node) :
    b ∈ setBucketIn bs d ns ↔ b = (d, ns) ∨ (b ∈ bs ∧ b.1 ≠ d) := by
  induction bs with
  | nil => simp [setBucketIn]
  | cons hd rest ih =>
    obtain ⟨k, v⟩ := hd
    unfold keysSorted at hs
    rw [List.pairwise_cons] at hs
    have hrest : ∀ x ∈ rest, k < x.1 := fun x hx => hs.1 x hx
    unfold setBucketIn
    split
    · rename_i hlt
      constructor
      · intro h
        rcases List.mem_cons.1 h with h | h
        · exact Or.inl h
        · refine Or.inr ⟨h, ?_⟩
          rcases List.mem_cons.1 h with h' | h'
          · rw [h']; simp only; omega
          · have := hrest b h'; omega
      · rintro (h | ⟨h, _⟩)
        · rw [h]; exact List.mem_cons_self
        · exact List.mem_cons_of_mem _ h
    · split
      · rename_i hge heq
        have hkd : d = k := by simpa using heq
        subst hkd
        constructor
        · intro h
          rcases List.mem_cons.1 h with h | h
          · exact Or.inl h
          · have := hrest b h
            exact Or.inr ⟨List.mem_cons_of_mem _ h, by omega⟩
        · rintro (h | ⟨h, hne⟩)
          · rw [h]; exact List.mem_cons_self
          · rcases List.mem_cons.1 h with h | h
            · rw [h] at hne; exact absurd rfl hne
            · exact List.mem_cons_of_mem _ h
      · rename_i hge hne
        have hkd : k ≠ d := by
          intro h; subst h; simp at hne
        rw [List.mem_cons, ih hs.2]
        constructor
        · rintro (h | h | ⟨h, hb⟩)
          · rw [h]; exact Or.inr ⟨List.mem_cons_self, hkd⟩
          · exact Or.inl h
          · exact Or.inr ⟨List.mem_cons_of_mem _ h, hb⟩
        · rintro (h | ⟨h, hb⟩)
          · exact Or.inr (Or.inl h)
          · rcases List.mem_cons.1 h with h | h
            · exact Or.inl h
            · exact Or.inr (Or.inr ⟨h, hb⟩)

theorem setBucketIn_sorted (bs : Buckets) (hs : keysSorted bs) (d : Nat) (ns : List Node) :
    keysSorted (setBucketIn bs d ns) := by
  induction bs with
  | nil => simp [setBucketIn, keysSorted]
  | cons hd rest ih =>
    obtain ⟨k, v⟩ := hd
    have hs0 := hs
    unfold keysSorted at hs
    rw [List.pairwise_cons] at hs
    unfold setBucketIn
    split
    · rename_i hlt
      unfold keysSorted
      rw [List.pairwise_cons]
      refine ⟨?_, hs0⟩
      intro x hx
      rcases List.mem_cons.1 hx with h | h
      · rw [h]; exact hlt
      · have := hs.1 x h; simp only at this ⊢; omega
    · split
      · rename_i hge heq
        have hkd : d = k := by simpa using heq
        subst hkd
        unfold keysSorted
        rw [List.pairwise_cons]
        exact ⟨hs.1, hs.2⟩
      · rename_i hge hne
        have hkd : k ≠ d := by
          intro h; subst h; simp at hne
        unfold keysSorted
        rw [List.pairwise_cons]
        refine ⟨?_, ih hs.2⟩
        intro x hx
        rcases (mem_setBucketIn rest hs.2 d ns x).1 hx with h | ⟨h, _⟩
        · rw [h]; simp only; omega
        · exact hs.1 x h

/-- looking up after `setBucketIn` -/
theorem findB_setBucketIn (bs : Buckets) (hs : keysSorted bs) (d : Nat) (ns : List Node) (d' : Nat) :
    findB (setBucketIn bs d ns) d' = if d' = d then some ns else findB bs d' := by
  have hs' := setBucketIn_sorted bs hs d ns
  split
  · rename_i h; subst h
    exact findB_of_mem _ hs' _ _ ((mem_setBucketIn bs hs d' ns _).2 (Or.inl rfl))
  · rename_i hne
    cases hf : findB bs d' with
    | some v =>
      have := findB_some_mem bs d' v hf
      exact findB_of_mem _ hs' _ _ ((mem_setBucketIn bs hs d ns _).2 (Or.inr ⟨this, hne⟩))
    | none =>
      cases hf' : findB (setBucketIn bs d ns) d' with
      | none => rfl
      | some v =>
        have := findB_some_mem _ d' v hf'
        rcases (mem_setBucketIn bs hs d ns _).1 this with h | ⟨h, _⟩
        · cases h; exact absurd rfl hne
        · rw [findB_of_mem bs hs d' v h] at hf; cases hf

/-! ### `KBucket::add` -/

def idNe (x y : Node) : Prop := x.id ≠ y.id

/-- the five outcomes of `KBucket::add` -/
theorem kbucketAdd_cases (b : List Node) (n : Node) (now : Nat) :
    (∃ i, ∃ hi : i < b.length, b[i].id = n.id ∧ (∀ j, ∀ hj : j < b.length, j < i → b[j].id ≠ n.id) ∧
        kbucketAccepts b[i] n = true ∧ kbucketAdd b n now = (b.eraseIdx i ++ [n], true)) ∨
    (∃ i, ∃ hi : i < b.length, b[i].id = n.id ∧ kbucketAccepts b[i] n = false ∧
        kbucketAdd b n now = (b, false)) ∨
    ((∀ x ∈ b, x.id ≠ n.id) ∧ b.length < Constants.K ∧ kbucketAdd b n now = (b ++ [n], true)) ∨
    ((∀ x ∈ b, x.id ≠ n.id) ∧ ¬ b.length < Constants.K ∧ (b.getD 0 default).isStale now = true ∧
        kbucketAdd b n now = (b.drop 1 ++ [n], true)) ∨
    ((∀ x ∈ b, x.id ≠ n.id) ∧ ¬ b.length < Constants.K ∧ (b.getD 0 default).isStale now = false ∧
        kbucketAdd b n now = (b, false)) := by
  unfold kbucketAdd
  cases hfi : b.findIdx? (fun x => x.id == n.id) with
  | some index =>
    obtain ⟨hi, hp, hbefore⟩ := List.findIdx?_eq_some_iff_getElem.1 hfi
    have hid : b[index].id = n.id := by simpa using hp
    have hget : b.getD index default = b[index] := by simp [List.getD_eq_getElem?_getD, hi]
    simp only [hget]
    cases hacc : kbucketAccepts b[index] n with
    | true =>
      left
      refine ⟨index, hi, hid, ?_, hacc, by simp⟩
      intro j hj hji
      have := hbefore j hji
      simpa using this
    | false =>
      right; left
      exact ⟨index, hi, hid, hacc, by simp⟩
  | none =>
    have hnone : ∀ x ∈ b, x.id ≠ n.id := by
      intro x hx
      have := List.findIdx?_eq_none_iff.1 hfi x hx
      simpa using this
    simp only
    by_cases hlen : b.length < Constants.K
    · right; right; left
      exact ⟨hnone, hlen, by simp [hlen]⟩
    · cases hst : (b.getD 0 default).isStale now with
      | true =>
        right; right; right; left
        exact ⟨hnone, hlen, rfl, by simp [hlen]⟩
      | false =>
        right; right; right; right
        exact ⟨hnone, hlen, rfl, by simp [hlen]⟩

theorem kbucketAdd_mem (b : List Node) (n : Node) (now : Nat) :
    ∀ e ∈ (kbucketAdd b n now).1, e = n ∨ e ∈ b := by
  intro e he
  rcases kbucketAdd_cases b n now with ⟨i, hi, _, _, _, heq⟩ | ⟨i, hi, _, _, heq⟩ | ⟨_, _, heq⟩ |
    ⟨_, _, _, heq⟩ | ⟨_, _, _, heq⟩ <;> rw [heq] at he <;> simp only at he
  · rcases List.mem_append.1 he with h | h
    · exact Or.inr ((List.eraseIdx_sublist _ _).subset h)
    · exact Or.inl (by simpa using h)
  · exact Or.inr he
  · rcases List.mem_append.1 he with h | h
    · exact Or.inr h
    · exact Or.inl (by simpa using h)
  · rcases List.mem_append.1 he with h | h
    · exact Or.inr ((List.drop_sublist _ _).subset h)
    · exact Or.inl (by simpa using h)
  · exact Or.inr he

theorem kbucketAdd_false (b : List Node) (n : Node) (now : Nat)
    (h : (kbucketAdd b n now).2 = false) : (kbucketAdd b n now).1 = b := by
  rcases kbucketAdd_cases b n now with ⟨i, hi, _, _, _, heq⟩ | ⟨i, hi, _, _, heq⟩ | ⟨_, _, heq⟩ |
    ⟨_, _, _, heq⟩ | ⟨_, _, _, heq⟩ <;> rw [heq] at h ⊢ <;> simp_all

theorem kbucketAdd_true_mem (b : List Node) (n : Node) (now : Nat)
    (h : (kbucketAdd b n now).2 = true) : n ∈ (kbucketAdd b n now).1 := by
  rcases kbucketAdd_cases b n now with ⟨i, hi, _, _, _, heq⟩ | ⟨i, hi, _, _, heq⟩ | ⟨_, _, heq⟩ |
    ⟨_, _, _, heq⟩ | ⟨_, _, _, heq⟩ <;> rw [heq] at h ⊢ <;> simp_all

theorem kbucketAdd_length (b : List Node) (n : Node) (now : Nat) (h : b.length ≤ Constants.K) :
    (kbucketAdd b n now).1.length ≤ Constants.K := by
  rcases kbucketAdd_cases b n now with ⟨i, hi, _, _, _, heq⟩ | ⟨i, hi, _, _, heq⟩ | ⟨_, hlt, heq⟩ |
    ⟨_, _, _, heq⟩ | ⟨_, _, _, heq⟩ <;> rw [heq] <;> simp only
  · simp only [List.length_append, List.length_eraseIdx, hi, ite_true, List.length_cons, List.length_nil]
    omega
  · exact h
  · simp only [List.length_append, List.length_cons, List.length_nil]; omega
  · have hk : Constants.K = 20 := rfl
    simp only [List.length_append, List.length_drop, List.length_cons, List.length_nil]; omega
  · exact h

theorem kbucketAdd_idNe (b : List Node) (n : Node) (now : Nat) (h : b.Pairwise idNe) :
    (kbucketAdd b n now).1.Pairwise idNe := by
  rcases kbucketAdd_cases b n now with ⟨i, hi, hid, _, _, heq⟩ | ⟨i, hi, _, _, heq⟩ | ⟨hne, _, heq⟩ |
    ⟨hne, _, _, heq⟩ | ⟨_, _, _, heq⟩ <;> rw [heq] <;> simp only
  · rw [List.pairwise_append]
    refine ⟨h.sublist (List.eraseIdx_sublist _ _), by simp, ?_⟩
    intro x hx y hy
    have hy' : y = n := by simpa using hy
    subst hy'
    obtain ⟨j, hj, hjne, rfl⟩ := List.mem_eraseIdx_iff_getElem.1 hx
    unfold idNe
    rw [← hid]
    rw [List.pairwise_iff_getElem] at h
    rcases Nat.lt_or_gt_of_ne hjne with hlt | hgt
    · exact h j i hj hi hlt
    · exact fun e => h i j hi hj hgt e.symm
  · exact h
  · rw [List.pairwise_append]
    refine ⟨h, by simp, ?_⟩
    intro x hx y hy
    have : y = n := by simpa using hy
    subst this; exact hne x hx
  · rw [List.pairwise_append]
    refine ⟨h.sublist (List.drop_sublist _ _), by simp, ?_⟩
    intro x hx y hy
    have : y = n := by simpa using hy
    subst this; exact hne x ((List.drop_sublist _ _).subset hx)
  · exact h

/-- eviction rule: an entry that leaves the bucket either carried the incoming id (it is the
    updated entry) or was the head of a full bucket and stale -/
theorem kbucketAdd_lost (b : List Node) (n : Node) (now : Nat) (e : Node) (he : e ∈ b)
    (hlost : e ∉ (kbucketAdd b n now).1) :
    e.id = n.id ∨ (¬ b.length < Constants.K ∧ b.head? = some e ∧ e.isStale now = true) := by
  rcases kbucketAdd_cases b n now with ⟨i, hi, hid, _, _, heq⟩ | ⟨i, hi, _, _, heq⟩ | ⟨hne, _, heq⟩ |
    ⟨hne, hfull, hstale, heq⟩ | ⟨_, _, _, heq⟩ <;> rw [heq] at hlost <;> simp only at hlost
  · left
    obtain ⟨j, hj, rfl⟩ := List.getElem_of_mem he
    by_cases hji : j = i
    · subst hji; exact hid
    · exfalso; apply hlost
      exact List.mem_append_left _ (List.mem_eraseIdx_iff_getElem.2 ⟨j, hj, hji, rfl⟩)
  · exact absurd he hlost
  · exact absurd (List.mem_append_left _ he) hlost
  · right
    cases b with
    | nil => cases he
    | cons hd tl =>
      rcases List.mem_cons.1 he with h | h
      · subst h
        exact ⟨hfull, rfl, by simpa using hstale⟩
      · exfalso; apply hlost
        simp only [List.drop_succ_cons, List.drop_zero]
        exact List.mem_append_left _ h
  · exact absurd he hlost

end RoutingTable
end Mainline
