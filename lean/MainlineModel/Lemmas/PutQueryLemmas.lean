/-
  Lemmas about `Model/PutQuery.lean`: the error tally (`error`/`bubble`) and the send loop.
-/
import MainlineModel.Model.PutQuery
namespace Mainline
namespace PutQuery

/-! ### the error tally -/

/-- how often `code` has been counted -/
def tallyOf (errs : List (Nat × Int)) (code : Int) : Nat :=
  match errs with
  | [] => 0
  | e :: es => (if e.2 = code then e.1 else 0) + tallyOf es code

/-- total number of errors counted -/
def tallyAll (errs : List (Nat × Int)) : Nat :=
  match errs with
  | [] => 0
  | e :: es => e.1 + tallyAll es

theorem tallyOf_append (a b : List (Nat × Int)) (code : Int) :
    tallyOf (a ++ b) code = tallyOf a code + tallyOf b code := by
  induction a with
  | nil => simp [tallyOf]
  | cons e es ih => simp [tallyOf, ih]; omega

theorem tallyAll_append (a b : List (Nat × Int)) : tallyAll (a ++ b) = tallyAll a + tallyAll b := by
  induction a with
  | nil => simp [tallyAll]
  | cons e es ih => simp [tallyAll, ih]; omega

theorem tallyOf_reverse (a : List (Nat × Int)) (code : Int) : tallyOf a.reverse code = tallyOf a code := by
  induction a with
  | nil => rfl
  | cons e es ih => simp [tallyOf_append, tallyOf, ih]; omega

theorem tallyAll_reverse (a : List (Nat × Int)) : tallyAll a.reverse = tallyAll a := by
  induction a with
  | nil => rfl
  | cons e es ih => simp [tallyAll_append, tallyAll, ih]; omega

theorem bubble_tallyOf (revPre : List (Nat × Int)) (x : Nat × Int) (after : List (Nat × Int)) (code : Int) :
    tallyOf (bubble revPre x after) code = tallyOf revPre code + tallyOf [x] code + tallyOf after code := by
  induction revPre generalizing after with
  | nil => simp [bubble, tallyOf]
  | cons p ps ih =>
    unfold bubble
    split
    · rw [ih]; simp [tallyOf]; omega
    · rw [tallyOf_append, tallyOf_reverse]; simp [tallyOf]; omega

theorem bubble_tallyAll (revPre : List (Nat × Int)) (x : Nat × Int) (after : List (Nat × Int)) :
    tallyAll (bubble revPre x after) = tallyAll revPre + x.1 + tallyAll after := by
  induction revPre generalizing after with
  | nil => simp [bubble, tallyAll]
  | cons p ps ih =>
    unfold bubble
    split
    · rw [ih]; simp [tallyAll]; omega
    · rw [tallyAll_append, tallyAll_reverse]; simp [tallyAll]; omega

/-- membership: bubbling keeps exactly the same entries -/
theorem bubble_mem (revPre : List (Nat × Int)) (x : Nat × Int) (after : List (Nat × Int)) (y : Nat × Int) :
    y ∈ bubble revPre x after ↔ y ∈ revPre ∨ y = x ∨ y ∈ after := by
  induction revPre generalizing after with
  | nil => simp [bubble]
  | cons p ps ih =>
    unfold bubble
    split
    · rw [ih]; simp only [List.mem_cons]
      constructor
      · rintro (h | h | h | h)
        · exact Or.inl (Or.inr h)
        · exact Or.inr (Or.inl h)
        · exact Or.inl (Or.inl h)
        · exact Or.inr (Or.inr h)
      · rintro ((h | h) | h | h)
        · exact Or.inr (Or.inr (Or.inl h))
        · exact Or.inl h
        · exact Or.inr (Or.inl h)
        · exact Or.inr (Or.inr (Or.inr h))
    · simp only [List.mem_append, List.mem_reverse, List.mem_cons]

/-- splitting at the position `findIdx?` returns -/
theorem findIdx_split (errs : List (Nat × Int)) (code : Int) (pos : Nat)
    (h : errs.findIdx? (fun e => code == e.2) = some pos) :
    ∃ e, errs[pos]? = some e ∧ e.2 = code ∧ errs = errs.take pos ++ e :: errs.drop (pos + 1) ∧
      ∀ p ∈ errs.take pos, p.2 ≠ code := by
  rw [List.findIdx?_eq_some_iff_getElem] at h
  obtain ⟨hlt, hp, hbefore⟩ := h
  refine ⟨errs[pos], List.getElem?_eq_getElem hlt, ?_, ?_, ?_⟩
  · have : code = errs[pos].2 := by simpa using hp
    exact this.symm
  · have := List.take_append_drop pos errs
    rw [List.drop_eq_getElem_cons hlt] at this
    exact this.symm
  · intro p hpm e
    obtain ⟨j, hj, rfl⟩ := List.getElem_of_mem hpm
    simp only [List.length_take] at hj
    have hj' : j < pos := by omega
    have := hbefore j hj'
    rw [List.getElem_take] at e
    simp [e] at this

theorem error_tallyOf (q : PutQuery) (c code : Int) :
    tallyOf (q.error c).errors code = tallyOf q.errors code + (if c = code then 1 else 0) := by
  unfold error
  cases hf : q.errors.findIdx? (fun e => c == e.2) with
  | none => simp [tallyOf_append, tallyOf]
  | some pos =>
    obtain ⟨e, he, hec, hsplit, _⟩ := findIdx_split q.errors c pos hf
    simp only [he]
    rw [bubble_tallyOf, tallyOf_reverse]
    conv => rhs; rw [hsplit]
    rw [tallyOf_append]
    simp only [tallyOf, hec]
    split <;> omega

theorem error_tallyAll (q : PutQuery) (c : Int) :
    tallyAll (q.error c).errors = tallyAll q.errors + 1 := by
  unfold error
  cases hf : q.errors.findIdx? (fun e => c == e.2) with
  | none => simp [tallyAll_append, tallyAll]
  | some pos =>
    obtain ⟨e, he, _, hsplit, _⟩ := findIdx_split q.errors c pos hf
    simp only [he]
    rw [bubble_tallyAll, tallyAll_reverse]
    conv => rhs; rw [hsplit]
    rw [tallyAll_append]
    simp only [tallyAll]
    omega

/-- well-formed tally: every count positive, one entry per code, most frequent first -/
structure ErrInv (errs : List (Nat × Int)) : Prop where
  pos : ∀ e ∈ errs, 0 < e.1
  nodup : errs.Pairwise (fun a b => a.2 ≠ b.2)
  sorted : errs.Pairwise (fun a b => b.1 ≤ a.1)

theorem bubble_pairwise_codes (revPre : List (Nat × Int)) (x : Nat × Int) (after : List (Nat × Int))
    (h1 : revPre.Pairwise (fun a b => a.2 ≠ b.2)) (h2 : after.Pairwise (fun a b => a.2 ≠ b.2))
    (h3 : ∀ p ∈ revPre, ∀ a ∈ after, p.2 ≠ a.2) (hx1 : ∀ p ∈ revPre, p.2 ≠ x.2)
    (hx2 : ∀ a ∈ after, x.2 ≠ a.2) :
    (bubble revPre x after).Pairwise (fun a b => a.2 ≠ b.2) := by
  induction revPre generalizing after with
  | nil => simp only [bubble, List.pairwise_cons]; exact ⟨hx2, h2⟩
  | cons p ps ih =>
    have hp := List.pairwise_cons.1 h1
    unfold bubble
    split
    · apply ih _ hp.2
      · rw [List.pairwise_cons]
        exact ⟨fun a ha => h3 p List.mem_cons_self a ha, h2⟩
      · intro q hq a ha
        rcases List.mem_cons.1 ha with rfl | ha
        · exact fun e => hp.1 q hq e.symm
        · exact h3 q (List.mem_cons_of_mem _ hq) a ha
      · exact fun q hq => hx1 q (List.mem_cons_of_mem _ hq)
      · intro a ha
        rcases List.mem_cons.1 ha with rfl | ha
        · exact fun e => hx1 _ List.mem_cons_self e.symm
        · exact hx2 a ha
    · rw [List.pairwise_append]
      refine ⟨?_, ?_, ?_⟩
      · rw [List.pairwise_reverse]
        exact h1.imp (fun h e => h e.symm)
      · rw [List.pairwise_cons]; exact ⟨hx2, h2⟩
      · intro a ha b hb
        rw [List.mem_reverse] at ha
        rcases List.mem_cons.1 hb with rfl | hb
        · exact hx1 a ha
        · exact h3 a ha b hb

theorem bubble_sorted (revPre : List (Nat × Int)) (x : Nat × Int) (after : List (Nat × Int))
    (h1 : revPre.Pairwise (fun a b => a.1 ≤ b.1)) (h2 : after.Pairwise (fun a b => b.1 ≤ a.1))
    (h3 : ∀ p ∈ revPre, ∀ a ∈ after, a.1 ≤ p.1) (hx2 : ∀ a ∈ after, a.1 ≤ x.1) :
    (bubble revPre x after).Pairwise (fun a b => b.1 ≤ a.1) := by
  induction revPre generalizing after with
  | nil => simp only [bubble, List.pairwise_cons]; exact ⟨hx2, h2⟩
  | cons p ps ih =>
    have hp := List.pairwise_cons.1 h1
    unfold bubble
    split
    · rename_i hgt
      apply ih _ hp.2
      · rw [List.pairwise_cons]
        exact ⟨fun a ha => h3 p List.mem_cons_self a ha, h2⟩
      · intro q hq a ha
        rcases List.mem_cons.1 ha with rfl | ha
        · exact hp.1 q hq
        · exact h3 q (List.mem_cons_of_mem _ hq) a ha
      · intro a ha
        rcases List.mem_cons.1 ha with rfl | ha
        · exact Nat.le_of_lt hgt
        · exact hx2 a ha
    · rename_i hngt
      rw [List.pairwise_append]
      refine ⟨?_, ?_, ?_⟩
      · rw [List.pairwise_reverse]; exact h1
      · rw [List.pairwise_cons]; exact ⟨hx2, h2⟩
      · intro a ha b hb
        rw [List.mem_reverse] at ha
        have hpa : p.1 ≤ a.1 := by
          rcases List.mem_cons.1 ha with rfl | ha
          · exact Nat.le_refl _
          · exact hp.1 a ha
        rcases List.mem_cons.1 hb with rfl | hb
        · omega
        · exact h3 a ha b hb

theorem errInv_error (q : PutQuery) (hi : ErrInv q.errors) (c : Int) : ErrInv (q.error c).errors := by
  unfold error
  cases hf : q.errors.findIdx? (fun e => c == e.2) with
  | none =>
    simp only
    have hnone : ∀ e ∈ q.errors, e.2 ≠ c := by
      rw [List.findIdx?_eq_none_iff] at hf
      intro e he h
      have := hf e he
      simp [h] at this
    refine ⟨?_, ?_, ?_⟩
    · intro e he
      rcases List.mem_append.1 he with h | h
      · exact hi.pos e h
      · simp only [List.mem_singleton] at h; subst h; exact Nat.one_pos
    · rw [List.pairwise_append]
      refine ⟨hi.nodup, by simp, ?_⟩
      intro a ha b hb
      simp only [List.mem_singleton] at hb; subst hb
      exact hnone a ha
    · rw [List.pairwise_append]
      refine ⟨hi.sorted, by simp, ?_⟩
      intro a ha b hb
      simp only [List.mem_singleton] at hb; subst hb
      exact hi.pos a ha
  | some pos =>
    obtain ⟨e, he, hec, hsplit, hbefore⟩ := findIdx_split q.errors c pos hf
    simp only [he]
    have hnd := hi.nodup
    have hso := hi.sorted
    rw [hsplit, List.pairwise_append] at hnd hso
    obtain ⟨nd1, nd2, nd3⟩ := hnd
    obtain ⟨so1, so2, so3⟩ := hso
    rw [List.pairwise_cons] at nd2 so2
    refine ⟨?_, ?_, ?_⟩
    · intro y hy
      rw [bubble_mem] at hy
      rcases hy with h | h | h
      · exact hi.pos y (by rw [hsplit]; exact List.mem_append_left _ (List.mem_reverse.1 h))
      · subst h; exact Nat.succ_pos _
      · exact hi.pos y (by rw [hsplit]; exact List.mem_append_right _ (List.mem_cons_of_mem _ h))
    · apply bubble_pairwise_codes
      · rw [List.pairwise_reverse]; exact nd1.imp (fun h e => h e.symm)
      · exact nd2.2
      · intro p hp a ha
        exact nd3 p (List.mem_reverse.1 hp) a (List.mem_cons_of_mem _ ha)
      · intro p hp
        exact nd3 p (List.mem_reverse.1 hp) e List.mem_cons_self
      · exact nd2.1
    · apply bubble_sorted
      · rw [List.pairwise_reverse]; exact so1
      · exact so2.2
      · intro p hp a ha
        exact so3 p (List.mem_reverse.1 hp) a (List.mem_cons_of_mem _ ha)
      · intro a ha
        have := so2.1 a ha
        simp only; omega

/-- with one entry per code, the tally of a code is the count of its entry -/
theorem tallyOf_of_mem (errs : List (Nat × Int)) (hnd : errs.Pairwise (fun a b => a.2 ≠ b.2))
    (e : Nat × Int) (he : e ∈ errs) : tallyOf errs e.2 = e.1 := by
  induction errs with
  | nil => cases he
  | cons x xs ih =>
    rw [List.pairwise_cons] at hnd
    rcases List.mem_cons.1 he with rfl | h
    · have : tallyOf xs e.2 = 0 := by
        clear ih he
        induction xs with
        | nil => rfl
        | cons y ys ihy =>
          have h1 := hnd.1 y List.mem_cons_self
          simp only [tallyOf]
          rw [if_neg (fun h => h1 h.symm)]
          rw [ihy ⟨fun a ha => hnd.1 a (List.mem_cons_of_mem _ ha), (List.pairwise_cons.1 hnd.2).2⟩]
      simp [tallyOf, this]
    · have h1 := hnd.1 e h
      simp only [tallyOf]
      rw [if_neg h1, ih hnd.2 h]; omega

theorem tallyOf_zero_of_absent (errs : List (Nat × Int)) (code : Int) (h : ∀ e ∈ errs, e.2 ≠ code) :
    tallyOf errs code = 0 := by
  induction errs with
  | nil => rfl
  | cons x xs ih =>
    simp only [tallyOf]
    rw [if_neg (h x List.mem_cons_self), ih (fun e he => h e (List.mem_cons_of_mem _ he))]

theorem tallyOf_le_all (errs : List (Nat × Int)) (code : Int) : tallyOf errs code ≤ tallyAll errs := by
  induction errs with
  | nil => exact Nat.le_refl _
  | cons x xs ih => simp only [tallyOf, tallyAll]; split <;> omega

/-- two different codes share the total -/
theorem tallyOf_two_le_all (errs : List (Nat × Int)) (c1 c2 : Int) (hne : c1 ≠ c2) :
    tallyOf errs c1 + tallyOf errs c2 ≤ tallyAll errs := by
  induction errs with
  | nil => exact Nat.le_refl _
  | cons x xs ih =>
    simp only [tallyOf, tallyAll]
    by_cases h1 : x.2 = c1 <;> by_cases h2 : x.2 = c2
    · exact absurd (h1.symm.trans h2) hne
    · rw [if_pos h1, if_neg h2]; omega
    · rw [if_neg h1, if_pos h2]; omega
    · rw [if_neg h1, if_neg h2]; omega

/-! ### the send loop -/

theorem sendLoop_spec (sock : Inflight) (now : Nat) (nodes : List Node) (tids : List Nat)
    (sent : List (Addr × Bytes)) :
    (sendLoop sock now nodes tids sent).2.2 =
      sent ++ nodes.filterMap (fun n => n.token.map fun t => (n.addr, t)) ∧
    (sendLoop sock now nodes tids sent).2.1.length =
      tids.length + (nodes.filterMap (fun n => n.token)).length := by
  induction nodes generalizing sock tids sent with
  | nil => simp [sendLoop]
  | cons n ns ih =>
    unfold sendLoop
    cases ht : n.token with
    | none =>
      simp only
      obtain ⟨h1, h2⟩ := ih sock tids sent
      simp [h1, h2, ht]
    | some tok =>
      simp only
      obtain ⟨h1, h2⟩ := ih (sock.add n.addr now).1 (tids ++ [(sock.add n.addr now).2]) (sent ++ [(n.addr, tok)])
      simp [h1, h2, ht]
      omega

end PutQuery
end Mainline
