/-
  Contract of the Rust binary search (model: `Model/BinarySearch.lean`) on a comparator that is
  monotone over the slice (`Less* Equal* Greater*`).
-/
import MainlineModel.Model.BinarySearch
namespace Mainline

/-- the comparator is monotone on `[0, len)`: below a `Less` everything is `Less`, above a
    `Greater` everything is `Greater` -/
structure BsMono (f : Nat → Ordering) (len : Nat) : Prop where
  lt_closed : ∀ i j, i ≤ j → j < len → f j = .lt → f i = .lt
  gt_closed : ∀ i j, i ≤ j → j < len → f i = .gt → f j = .gt

theorem bsLoop_spec (f : Nat → Ordering) (len : Nat) (hm : BsMono f len) :
    ∀ size base, 0 < size → base + size ≤ len →
      (base = 0 ∨ f base ≠ .gt) →
      (∀ i, base + size ≤ i → i < len → f i = .gt) →
      let r := bsLoop f size base
      base ≤ r ∧ r < base + size ∧ (r = 0 ∨ f r ≠ .gt) ∧ (∀ i, r < i → i < len → f i = .gt) := by
  intro size
  induction size using Nat.strongRecOn with
  | _ size ih =>
    intro base hs hle hbase hhi
    unfold bsLoop
    split
    · rename_i h
      simp only
      split
      · rename_i hgt
        have hgt' : f (base + size / 2) = .gt := by simpa using hgt
        have := ih (size - size / 2) (by omega) base (by omega) (by omega) hbase (by
          intro i hi hil
          by_cases hc : base + size ≤ i
          · exact hhi i hc hil
          · exact hm.gt_closed (base + size / 2) i (by omega) hil hgt')
        obtain ⟨h1, h2, h3, h4⟩ := this
        exact ⟨h1, by omega, h3, h4⟩
      · rename_i hngt
        have hngt' : f (base + size / 2) ≠ .gt := by simpa using hngt
        have := ih (size - size / 2) (by omega) (base + size / 2) (by omega) (by omega)
          (Or.inr hngt') (by
          intro i hi hil
          exact hhi i (by omega) hil)
        obtain ⟨h1, h2, h3, h4⟩ := this
        exact ⟨by omega, by omega, h3, h4⟩
    · rename_i h
      have : size = 1 := by omega
      subst this
      refine ⟨Nat.le_refl _, by omega, hbase, ?_⟩
      intro i hi hil
      exact hhi i (by omega) hil

/-- `Err p`: `p` is the partition point — everything before is `Less`, everything from `p` on is
    `Greater`; in particular no element compares `Equal`. -/
theorem bsSearch_err (f : Nat → Ordering) (len : Nat) (hm : BsMono f len) (p : Nat)
    (h : bsSearch f len = .inr p) :
    p ≤ len ∧ (∀ i, i < p → f i = .lt) ∧ (∀ i, p ≤ i → i < len → f i = .gt) := by
  unfold bsSearch at h
  split at h
  · rename_i h0; subst h0
    cases h
    exact ⟨Nat.le_refl _, by intro i hi; omega, by intro i _ hi; omega⟩
  · rename_i h0
    have hs := bsLoop_spec f len hm len 0 (by omega) (by omega) (Or.inl rfl)
      (by intro i hi hil; omega)
    simp only at hs h
    obtain ⟨_, hr, hr0, hgt⟩ := hs
    obtain ⟨r, hrdef⟩ : ∃ r, r = bsLoop f len 0 := ⟨_, rfl⟩
    rw [← hrdef] at h hr hr0 hgt
    cases hfr : f r with
    | eq => rw [hfr] at h; cases h
    | lt =>
      rw [hfr] at h
      cases h
      refine ⟨by omega, ?_, ?_⟩
      · intro i hi
        exact hm.lt_closed i r (by omega) (by omega) hfr
      · intro i hi hil
        exact hgt i (by omega) hil
    | gt =>
      rw [hfr] at h
      have hp : r = p := by injection h
      subst hp
      have hr00 : r = 0 := by
        cases hr0 with
        | inl h0 => exact h0
        | inr h1 => exact absurd hfr h1
      subst hr00
      refine ⟨by omega, by intro i hi; omega, ?_⟩
      intro i _ hil
      exact hm.gt_closed 0 i (by omega) hil hfr

/-- `Ok i`: element `i` compares `Equal` -/
theorem bsSearch_ok (f : Nat → Ordering) (len : Nat) (hm : BsMono f len) (i : Nat)
    (h : bsSearch f len = .inl i) : i < len ∧ f i = .eq := by
  unfold bsSearch at h
  split at h
  · cases h
  · rename_i h0
    have hs := bsLoop_spec f len hm len 0 (by omega) (by omega) (Or.inl rfl)
      (by intro i hi hil; omega)
    simp only at hs h
    obtain ⟨_, hr, _, _⟩ := hs
    obtain ⟨r, hrdef⟩ : ∃ r, r = bsLoop f len 0 := ⟨_, rfl⟩
    rw [← hrdef] at h hr
    cases hfr : f r with
    | eq => rw [hfr] at h; injection h with h; subst h; exact ⟨by omega, hfr⟩
    | lt => rw [hfr] at h; cases h
    | gt => rw [hfr] at h; cases h

end Mainline
