/-
  CRC-32C facts used by C15: for a fixed secret, the token is an injective function of the IP.

  The 32-bit bit-vector identities below are discharged by `bv_decide` (SAT certificate checked by
  compiled code: each call adds one `…._native.bv_decide.ax_*` axiom, listed in the evidence and
  in DESIGN.md §7).  Everything built on top of them is ordinary kernel-checked induction.
-/
import MainlineModel.Model.Crc32c
import MainlineModel.Model.Tokens
import Std.Tactic.BVDecide
namespace Mainline

def crcStep8 (c : UInt32) : UInt32 :=
  crcBitStep (crcBitStep (crcBitStep (crcBitStep (crcBitStep (crcBitStep (crcBitStep (crcBitStep c)))))))

theorem crcByteStep_eq (c : UInt32) (b : UInt8) : crcByteStep c b = crcStep8 (c ^^^ b.toUInt32) := rfl

/-- inverse of one bit step: the top bit of the output tells whether the polynomial was applied -/
def crcBitUnstep (c : UInt32) : UInt32 :=
  if c &&& 0x80000000 == 0x80000000 then ((c ^^^ crcPolyR) <<< 1) ||| 1 else c <<< 1

theorem crcBitUnstep_step (c : UInt32) : crcBitUnstep (crcBitStep c) = c := by
  unfold crcBitUnstep crcBitStep crcPolyR
  bv_decide

theorem crcBitStep_inj {a b : UInt32} (h : crcBitStep a = crcBitStep b) : a = b := by
  have := congrArg crcBitUnstep h
  rwa [crcBitUnstep_step, crcBitUnstep_step] at this

theorem crcStep8_inj {a b : UInt32} (h : crcStep8 a = crcStep8 b) : a = b := by
  unfold crcStep8 at h
  exact crcBitStep_inj (crcBitStep_inj (crcBitStep_inj (crcBitStep_inj (crcBitStep_inj
    (crcBitStep_inj (crcBitStep_inj (crcBitStep_inj h)))))))

/-- a fixed byte is a bijection on CRC states -/
theorem crcByteStep_inj_state {a b : UInt32} (x : UInt8) (h : crcByteStep a x = crcByteStep b x) :
    a = b := by
  rw [crcByteStep_eq, crcByteStep_eq] at h
  have := crcStep8_inj h
  have h2 : (a ^^^ x.toUInt32) ^^^ x.toUInt32 = (b ^^^ x.toUInt32) ^^^ x.toUInt32 := by rw [this]
  simpa [UInt32.xor_assoc] using h2

/-- … hence a fixed suffix is injective in the running state -/
theorem crcUpdate_inj_state (bs : Bytes) {a b : UInt32} (h : crcUpdate a bs = crcUpdate b bs) :
    a = b := by
  induction bs generalizing a b with
  | nil => exact h
  | cons x bs ih =>
    unfold crcUpdate at h
    simp only [List.foldl_cons] at h
    exact crcByteStep_inj_state x (ih h)

/-- bits that are 8 positions up commute with 8 steps -/
theorem crcStep8_shift (c e : UInt32) (he : e &&& 0xff000000 = 0) :
    crcStep8 (c ^^^ (e <<< 8)) = crcStep8 c ^^^ e := by
  unfold crcStep8 crcBitStep crcPolyR
  bv_decide

/-- the four bytes of a big-endian word, as fed to the CRC, form the byte-swapped word -/
def bswapWord (x : UInt32) : UInt32 :=
  (x >>> 24).toUInt8.toUInt32 ^^^ ((x >>> 16).toUInt8.toUInt32 <<< 8) ^^^
    ((x >>> 8).toUInt8.toUInt32 <<< 16) ^^^ (x.toUInt8.toUInt32 <<< 24)

theorem bswapWord_inj {x y : UInt32} (h : bswapWord x = bswapWord y) : x = y := by
  unfold bswapWord at h
  bv_decide

theorem byte_facts (b : UInt8) :
    b.toUInt32 &&& 0xff000000 = 0 ∧ (b.toUInt32 <<< 8) &&& 0xff000000 = 0 ∧
    (b.toUInt32 <<< 16) &&& 0xff000000 = 0 ∧
    (b.toUInt32 <<< 8) <<< 8 = b.toUInt32 <<< 16 ∧ (b.toUInt32 <<< 16) <<< 8 = b.toUInt32 <<< 24 := by
  refine ⟨?_, ?_, ?_, ?_, ?_⟩ <;> bv_decide

/-- feeding the four big-endian bytes of `x` = xor-ing the byte-swapped word, then 32 steps -/
theorem crcUpdate_be32 (s x : UInt32) :
    crcUpdate s (be32 x) = crcStep8 (crcStep8 (crcStep8 (crcStep8 (s ^^^ bswapWord x)))) := by
  unfold crcUpdate be32 bswapWord
  simp only [List.foldl_cons, List.foldl_nil, crcByteStep_eq]
  obtain ⟨a1, _, _, _, _⟩ := byte_facts (x >>> 16).toUInt8
  obtain ⟨c1, c2, _, c4, _⟩ := byte_facts (x >>> 8).toUInt8
  obtain ⟨d1, d2, d3, d4, d5⟩ := byte_facts x.toUInt8
  rw [← crcStep8_shift _ _ a1]
  rw [← crcStep8_shift _ _ c1, ← crcStep8_shift _ _ c2, c4]
  rw [← crcStep8_shift _ _ d1, ← crcStep8_shift _ _ d2, d4, ← crcStep8_shift _ _ d3, d5]
  simp only [UInt32.xor_assoc]

theorem crcUpdate_be32_inj (s : UInt32) {x y : UInt32}
    (h : crcUpdate s (be32 x) = crcUpdate s (be32 y)) : x = y := by
  rw [crcUpdate_be32, crcUpdate_be32] at h
  have h1 := crcStep8_inj (crcStep8_inj (crcStep8_inj (crcStep8_inj h)))
  have h2 : s ^^^ (s ^^^ bswapWord x) = s ^^^ (s ^^^ bswapWord y) := by rw [h1]
  rw [← UInt32.xor_assoc, ← UInt32.xor_assoc, UInt32.xor_self, UInt32.zero_xor, UInt32.zero_xor] at h2
  exact bswapWord_inj h2

theorem crcUpdate_append (s : UInt32) (a b : Bytes) :
    crcUpdate s (a ++ b) = crcUpdate (crcUpdate s a) b := by
  unfold crcUpdate; rw [List.foldl_append]

theorem be32_inj {a b : UInt32} (h : be32 a = be32 b) : a = b := by
  unfold be32 at h
  simp only [List.cons.injEq, and_true] at h
  obtain ⟨h1, h2, h3, h4⟩ := h
  bv_decide

/-- **for every secret, the token is an injective function of the IP address** -/
theorem tokenFor_ip_injective (secret : Bytes) {ip ip' : UInt32}
    (h : Tokens.tokenFor ip secret = Tokens.tokenFor ip' secret) : ip = ip' := by
  unfold Tokens.tokenFor crc32c at h
  have h1 := be32_inj h
  have h2 : crcUpdate 0xFFFFFFFF (be32 ip ++ secret) = crcUpdate 0xFFFFFFFF (be32 ip' ++ secret) := by
    have : (crcUpdate 0xFFFFFFFF (be32 ip ++ secret) ^^^ 0xFFFFFFFF) ^^^ 0xFFFFFFFF =
        (crcUpdate 0xFFFFFFFF (be32 ip' ++ secret) ^^^ 0xFFFFFFFF) ^^^ 0xFFFFFFFF := by rw [h1]
    simpa [UInt32.xor_assoc] using this
  rw [crcUpdate_append, crcUpdate_append] at h2
  exact crcUpdate_be32_inj _ (crcUpdate_inj_state secret h2)

end Mainline
