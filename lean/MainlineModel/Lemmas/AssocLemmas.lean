/-
  Association lists (`alGet` / `alSet` / `alRemove`): the `HashMap` operations of the actor model.
-/
import MainlineModel.Model.Actor
namespace Mainline

variable {β : Type}

theorem alGet_nil (k : Id) : alGet ([] : List (Id × β)) k = none := rfl

theorem alGet_cons (p : Id × β) (l : List (Id × β)) (k : Id) :
    alGet (p :: l) k = if p.1 = k then some p.2 else alGet l k := by
  simp only [alGet, List.find?_cons]
  by_cases h : p.1 = k
  · simp [h]
  · have : (p.1 == k) = false := by simpa using h
    simp [this, h]

theorem alGet_alSet_self (l : List (Id × β)) (k : Id) (v : β) : alGet (alSet l k v) k = some v := by
  unfold alSet
  split
  · rename_i hany
    induction l with
    | nil => simp at hany
    | cons p ps ih =>
      simp only [List.map_cons, alGet_cons]
      by_cases hp : p.1 = k
      · simp [hp]
      · have hpb : (p.1 == k) = false := by simpa using hp
        simp only [hpb, Bool.false_eq_true, ite_false, hp]
        apply ih
        simpa [List.any_cons, hpb] using hany
  · rename_i hany
    induction l with
    | nil => simp [alGet_cons]
    | cons p ps ih =>
      have hp : p.1 ≠ k := by
        intro e; apply hany; simp [List.any_cons, e]
      simp only [List.cons_append, alGet_cons, hp, ite_false]
      apply ih
      intro h; apply hany
      simp only [List.any_cons, h, Bool.or_true]

theorem alGet_map_other (l : List (Id × β)) (k k' : Id) (v : β) (h : k' ≠ k) :
    alGet (l.map fun p => if p.1 == k then (k, v) else p) k' = alGet l k' := by
  induction l with
  | nil => rfl
  | cons p ps ih =>
    simp only [List.map_cons, alGet_cons, ih]
    by_cases hp : p.1 = k
    · have hpb : (p.1 == k) = true := by simpa using hp
      have h1 : k ≠ k' := fun e => h e.symm
      have h2 : p.1 ≠ k' := by rw [hp]; exact h1
      simp [hpb, h1, h2]
    · have hpb : (p.1 == k) = false := by simpa using hp
      simp [hpb]

theorem alGet_append_other (l : List (Id × β)) (k k' : Id) (v : β) (h : k' ≠ k) :
    alGet (l ++ [(k, v)]) k' = alGet l k' := by
  induction l with
  | nil =>
    have : k ≠ k' := fun e => h e.symm
    simp [alGet_cons, this, alGet_nil]
  | cons p ps ih => simp only [List.cons_append, alGet_cons, ih]

theorem alGet_alSet_other (l : List (Id × β)) (k k' : Id) (v : β) (h : k' ≠ k) :
    alGet (alSet l k v) k' = alGet l k' := by
  unfold alSet
  split
  · exact alGet_map_other l k k' v h
  · exact alGet_append_other l k k' v h

theorem alGet_alRemove_self (l : List (Id × β)) (k : Id) : alGet (alRemove l k) k = none := by
  induction l with
  | nil => rfl
  | cons p ps ih =>
    simp only [alRemove, List.filter_cons]
    by_cases hp : p.1 = k
    · have : (!(p.1 == k)) = false := by simp [hp]
      simp only [this, Bool.false_eq_true, ite_false]
      exact ih
    · have : (!(p.1 == k)) = true := by simp [hp]
      simp only [this, ite_true, alGet_cons, hp, ite_false]
      exact ih

theorem alGet_alRemove_other (l : List (Id × β)) (k k' : Id) (h : k' ≠ k) :
    alGet (alRemove l k) k' = alGet l k' := by
  induction l with
  | nil => rfl
  | cons p ps ih =>
    simp only [alRemove, List.filter_cons]
    by_cases hp : p.1 = k
    · have : (!(p.1 == k)) = false := by simp [hp]
      have hne : p.1 ≠ k' := by rw [hp]; exact fun e => h e.symm
      simp only [this, Bool.false_eq_true, ite_false, alGet_cons, hne]
      exact ih
    · have : (!(p.1 == k)) = true := by simp [hp]
      simp only [this, ite_true, alGet_cons]
      split
      · rfl
      · exact ih

/-- the key is present -/
def hasKey (l : List (Id × β)) (k : Id) : Prop := (alGet l k).isSome = true

theorem hasKey_alSet (l : List (Id × β)) (k k' : Id) (v : β) :
    hasKey (alSet l k v) k' ↔ (k' = k ∨ hasKey l k') := by
  unfold hasKey
  by_cases h : k' = k
  · subst h; simp [alGet_alSet_self]
  · rw [alGet_alSet_other l k k' v h]; simp [h]

theorem hasKey_alRemove (l : List (Id × β)) (k k' : Id) :
    hasKey (alRemove l k) k' ↔ (k' ≠ k ∧ hasKey l k') := by
  unfold hasKey
  by_cases h : k' = k
  · subst h; simp [alGet_alRemove_self]
  · rw [alGet_alRemove_other l k k' h]; simp [h]

theorem hasKey_of_mem (l : List (Id × β)) (p : Id × β) (h : p ∈ l) : hasKey l p.1 := by
  unfold hasKey
  induction l with
  | nil => cases h
  | cons x xs ih =>
    rw [alGet_cons]
    by_cases hx : x.1 = p.1
    · simp [hx]
    · simp only [hx, ite_false]
      rcases List.mem_cons.1 h with e | hm
      · exact absurd (by rw [e]) hx
      · exact ih hm

theorem mem_of_alGet (l : List (Id × β)) (k : Id) (v : β) (h : alGet l k = some v) : (k, v) ∈ l := by
  induction l with
  | nil => cases h
  | cons x xs ih =>
    rw [alGet_cons] at h
    by_cases hx : x.1 = k
    · simp only [hx, ite_true, Option.some.injEq] at h
      have : x = (k, v) := by rw [← hx, ← h]
      rw [this]; exact List.mem_cons_self
    · simp only [hx, ite_false] at h
      exact List.mem_cons_of_mem _ (ih h)

end Mainline
