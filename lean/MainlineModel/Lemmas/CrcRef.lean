/-
  CrcRef.lean — an independent, textbook definition of CRC-32C and the proof that the model's
  reflected, table-free implementation (`Model/Crc32c.lean`, the one tied to the `crc` crate by the
  `hash` stream) computes it, for byte strings of every length.

  Reference (Rocksoft model, parameters of CRC-32C / iSCSI / BEP42): width 32, polynomial 0x1EDC6F41,
  init 0xFFFFFFFF, refin = refout = true, xorout 0xFFFFFFFF — a most-significant-bit-first shift
  register over the bit-reversed input bytes, the result bit-reversed.

  The two one-step facts (bit step and byte injection commute with bit reversal) are 32-bit
  bit-vector identities discharged by `bv_decide` (each adds a `…_native.bv_decide.ax_*` axiom, listed
  in the evidence); the statement for every byte string is ordinary induction on top of them.
-/
import MainlineModel.Model.Crc32c
import Std.Tactic.BVDecide
namespace Mainline
namespace CrcRef

def poly : UInt32 := 0x1EDC6F41

def rev32 (x : UInt32) : UInt32 := UInt32.ofBitVec x.toBitVec.reverse
def rev8 (b : UInt8) : UInt8 := UInt8.ofBitVec b.toBitVec.reverse

/-- one shift of the MSB-first register -/
def bitStep (c : UInt32) : UInt32 :=
  if c &&& 0x80000000 == 0x80000000 then (c <<< 1) ^^^ poly else c <<< 1

/-- one input byte: reflected, injected at the top, eight shifts -/
def byteStep (c : UInt32) (b : UInt8) : UInt32 :=
  let c := c ^^^ ((rev8 b).toUInt32 <<< 24)
  bitStep (bitStep (bitStep (bitStep (bitStep (bitStep (bitStep (bitStep c)))))))

/-- CRC-32C by the book -/
def crc32c (bs : Bytes) : UInt32 := rev32 (bs.foldl byteStep 0xFFFFFFFF) ^^^ 0xFFFFFFFF

theorem rev_bitStep (c : UInt32) : rev32 (bitStep c) = crcBitStep (rev32 c) := by
  unfold rev32 bitStep crcBitStep crcPolyR poly
  bv_decide

theorem rev_inject (c : UInt32) (b : UInt8) :
    rev32 (c ^^^ ((rev8 b).toUInt32 <<< 24)) = rev32 c ^^^ b.toUInt32 := by
  unfold rev32 rev8
  bv_decide

theorem rev_byteStep (c : UInt32) (b : UInt8) : rev32 (byteStep c b) = crcByteStep (rev32 c) b := by
  unfold byteStep crcByteStep
  simp only [rev_bitStep, rev_inject]

theorem rev_fold (bs : Bytes) (s : UInt32) : rev32 (bs.foldl byteStep s) = crcUpdate (rev32 s) bs := by
  unfold crcUpdate
  induction bs generalizing s with
  | nil => rfl
  | cons b bs ih => simp only [List.foldl_cons]; rw [ih, rev_byteStep]

/-- reversing the all-ones word (an instance of: reversal fixes a word whose complement it fixes) -/
theorem rev_ones (x : UInt32) (h : x = 0xFFFFFFFF) : rev32 x = 0xFFFFFFFF := by
  unfold rev32
  bv_decide

theorem rev_init : rev32 0xFFFFFFFF = 0xFFFFFFFF := rev_ones _ rfl

/-- **The model's CRC-32C is CRC-32C**, for every byte string. -/
theorem crc32c_eq_reference (bs : Bytes) : Mainline.crc32c bs = crc32c bs := by
  unfold Mainline.crc32c crc32c
  rw [rev_fold, rev_init]

end CrcRef
end Mainline
