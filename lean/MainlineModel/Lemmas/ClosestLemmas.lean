/-
  Helper lemmas for C11/C07: the order `ClosestNodes` keeps, the binary-search insertion, and the
  first-come per-IP filter.
-/
import MainlineModel.Model.Node
import MainlineModel.Lemmas.BinarySearch
import MainlineModel.Lemmas.IdLemmas
namespace Mainline
namespace ClosestNodes
open Mainline.Id

/-! ### byte-string order facts -/

theorem bytesCmp_refl (x : Bytes) : bytesCmp x x = .eq := (bytesCmp_eq_iff x x).2 rfl

theorem bytesCmp_lt_trans (x y z : Bytes) (h1 : bytesCmp x y = .lt) (h2 : bytesCmp y z = .lt) :
    bytesCmp x z = .lt := by
  induction x generalizing y z with
  | nil =>
    cases y with
    | nil => simp [bytesCmp] at h1
    | cons b y =>
      cases z with
      | nil => simp [bytesCmp] at h2
      | cons c z => simp [bytesCmp]
  | cons a x ih =>
    cases y with
    | nil => simp [bytesCmp] at h1
    | cons b y =>
      cases z with
      | nil => simp [bytesCmp] at h2
      | cons c z =>
        simp only [bytesCmp] at *
        have hab : a.toNat < b.toNat ∨ (a = b ∧ bytesCmp x y = .lt) := by
          by_cases h : a < b
          · exact Or.inl (UInt8.lt_iff_toNat_lt.1 h)
          · simp only [h, ite_false] at h1
            by_cases h' : b < a
            · simp [h'] at h1
            · simp only [h', ite_false] at h1
              have e1 : ¬ a.toNat < b.toNat := fun hh => h (UInt8.lt_iff_toNat_lt.2 hh)
              have e2 : ¬ b.toNat < a.toNat := fun hh => h' (UInt8.lt_iff_toNat_lt.2 hh)
              exact Or.inr ⟨UInt8.toNat_inj.1 (by omega), h1⟩
        have hbc : b.toNat < c.toNat ∨ (b = c ∧ bytesCmp y z = .lt) := by
          by_cases h : b < c
          · exact Or.inl (UInt8.lt_iff_toNat_lt.1 h)
          · simp only [h, ite_false] at h2
            by_cases h' : c < b
            · simp [h'] at h2
            · simp only [h', ite_false] at h2
              have e1 : ¬ b.toNat < c.toNat := fun hh => h (UInt8.lt_iff_toNat_lt.2 hh)
              have e2 : ¬ c.toNat < b.toNat := fun hh => h' (UInt8.lt_iff_toNat_lt.2 hh)
              exact Or.inr ⟨UInt8.toNat_inj.1 (by omega), h2⟩
        rcases hab with hab | ⟨hab, hxy⟩ <;> rcases hbc with hbc | ⟨hbc, hyz⟩
        · have : a < c := UInt8.lt_iff_toNat_lt.2 (by omega)
          simp [this]
        · subst hbc
          have : a < b := UInt8.lt_iff_toNat_lt.2 hab
          simp [this]
        · subst hab
          have : a < c := UInt8.lt_iff_toNat_lt.2 hbc
          simp [this]
        · subst hab; subst hbc
          have : ¬ a < a := by intro h; have := UInt8.lt_iff_toNat_lt.1 h; omega
          simp only [this, ite_false]
          exact ih y z hxy hyz

theorem bytesCmp_lt_irrefl (x : Bytes) : bytesCmp x x ≠ .lt := by
  rw [bytesCmp_refl]; intro h; cases h

/-! ### the order -/

/-- the strict order `ClosestNodes` keeps: BEP42-secure nodes first, then byte-wise XOR distance -/
def keyLt (t : Id) (a b : Node) : Prop :=
  (a.isSecure = true ∧ b.isSecure = false) ∨
  (a.isSecure = b.isSecure ∧ bytesCmp (a.id.xor t).bytes (b.id.xor t).bytes = .lt)

theorem keyLt_trans (t : Id) {a b c : Node} (h1 : keyLt t a b) (h2 : keyLt t b c) : keyLt t a c := by
  rcases h1 with ⟨ha, hb⟩ | ⟨hab, hlt1⟩ <;> rcases h2 with ⟨hb', hc⟩ | ⟨hbc, hlt2⟩
  · rw [hb] at hb'; cases hb'
  · exact Or.inl ⟨ha, by rw [← hbc]; exact hb⟩
  · exact Or.inl ⟨by rw [hab]; exact hb', hc⟩
  · exact Or.inr ⟨hab.trans hbc, bytesCmp_lt_trans _ _ _ hlt1 hlt2⟩

theorem keyLt_irrefl (t : Id) (a : Node) : ¬ keyLt t a a := by
  rintro (⟨h1, h2⟩ | ⟨_, h⟩)
  · rw [h1] at h2; cases h2
  · exact bytesCmp_lt_irrefl _ h

theorem cmpProbe_lt_iff (t : Id) (node probe : Node) :
    cmpProbe t node probe = .lt ↔ keyLt t probe node := by
  unfold cmpProbe keyLt
  by_cases heq : probe.id = node.id
  · cases hp : probe.isSecure <;> cases hn : node.isSecure <;> simp [heq, bytesCmp_refl]
  · cases hp : probe.isSecure <;> cases hn : node.isSecure <;> simp [heq]

theorem cmpProbe_gt_iff (t : Id) (node probe : Node) :
    cmpProbe t node probe = .gt ↔ keyLt t node probe := by
  unfold cmpProbe keyLt
  by_cases heq : probe.id = node.id
  · cases hp : probe.isSecure <;> cases hn : node.isSecure <;> simp [heq, bytesCmp_refl]
  · cases hp : probe.isSecure <;> cases hn : node.isSecure <;> simp [heq, bytesCmp_gt_iff_lt]

/-- `Equal` means same security class and same id or same XOR string -/
theorem cmpProbe_eq_imp (t : Id) (node probe : Node) (h : cmpProbe t node probe = .eq) :
    probe.isSecure = node.isSecure ∧
      (probe.id = node.id ∨ (probe.id.xor t).bytes = (node.id.xor t).bytes) := by
  unfold cmpProbe at h
  by_cases heq : probe.id = node.id
  · cases hp : probe.isSecure <;> cases hn : node.isSecure <;> simp [heq, hp, hn] at h ⊢
  · cases hp : probe.isSecure <;> cases hn : node.isSecure <;> simp [heq, hp, hn] at h ⊢
    all_goals exact (bytesCmp_eq_iff _ _).1 h

/-- comparator of the probe against a fixed list -/
def probeFn (t : Id) (node : Node) (l : List Node) : Nat → Ordering :=
  probeAt (cmpProbe t node) l

theorem probeFn_eq (t : Id) (node : Node) (l : List Node) (i : Nat) (h : i < l.length) :
    probeFn t node l i = cmpProbe t node l[i] := by
  simp [probeFn, probeAt, List.getElem?_eq_getElem h]

theorem probeFn_mono (t : Id) (node : Node) (l : List Node) (hs : l.Pairwise (keyLt t)) :
    BsMono (probeFn t node l) l.length := by
  rw [List.pairwise_iff_getElem] at hs
  constructor
  · intro i j hij hj h
    by_cases e : i = j
    · subst e; exact h
    · have hi : i < l.length := by omega
      rw [probeFn_eq _ _ _ _ hj, cmpProbe_lt_iff] at h
      rw [probeFn_eq _ _ _ _ hi, cmpProbe_lt_iff]
      exact keyLt_trans t (hs i j hi hj (by omega)) h
  · intro i j hij hj h
    by_cases e : i = j
    · subst e; exact h
    · have hi : i < l.length := by omega
      rw [probeFn_eq _ _ _ _ hi, cmpProbe_gt_iff] at h
      rw [probeFn_eq _ _ _ _ hj, cmpProbe_gt_iff]
      exact keyLt_trans t h (hs i j hi hj (by omega))

theorem insertIdx_eq_take_drop {α} (l : List α) (p : Nat) (x : α) (h : p ≤ l.length) :
    l.insertIdx p x = l.take p ++ x :: l.drop p := by
  induction l generalizing p with
  | nil =>
    have : p = 0 := by simpa using h
    subst this; simp
  | cons a l ih =>
    cases p with
    | zero => simp
    | succ p =>
      simp only [List.insertIdx_succ_cons, List.take_succ_cons, List.drop_succ_cons, List.cons_append]
      rw [ih p (by simpa using h)]

/-- what `insert` does, as a case split on the binary search's answer -/
theorem insert_cases (c : ClosestNodes) (node : Node) (hs : c.nodes.Pairwise (keyLt c.target)) :
    (∃ p, p ≤ c.nodes.length ∧ (c.insert node) = { c with nodes := c.nodes.take p ++ node :: c.nodes.drop p } ∧
        (∀ e ∈ c.nodes.take p, keyLt c.target e node) ∧ (∀ e ∈ c.nodes.drop p, keyLt c.target node e)) ∨
    (c.insert node = c ∧ ∃ e ∈ c.nodes, cmpProbe c.target node e = .eq) := by
  have hm := probeFn_mono c.target node c.nodes hs
  unfold insert binarySearchBy
  have hb' : bsSearch (probeAt (cmpProbe c.target node) c.nodes) c.nodes.length
      = bsSearch (probeFn c.target node c.nodes) c.nodes.length := rfl
  rw [hb']
  cases hb : bsSearch (probeFn c.target node c.nodes) c.nodes.length with
  | inr p =>
    left
    obtain ⟨hp, hlt, hgt⟩ := bsSearch_err _ _ hm p hb
    refine ⟨p, hp, ?_, ?_, ?_⟩
    · simp only; rw [insertIdx_eq_take_drop _ _ _ hp]
    · intro e he
      obtain ⟨j, hj, rfl⟩ := List.mem_take_iff_getElem.1 he
      have hj' : j < c.nodes.length := by omega
      have := hlt j (by omega)
      rw [probeFn_eq _ _ _ _ hj', cmpProbe_lt_iff] at this
      exact this
    · intro e he
      obtain ⟨j, hj, rfl⟩ := List.mem_drop_iff_getElem.1 he
      have hj' : p + j < c.nodes.length := by omega
      have := hgt (p + j) (by omega) hj'
      rw [probeFn_eq _ _ _ _ hj', cmpProbe_gt_iff] at this
      exact this
  | inl i =>
    right
    obtain ⟨hi, he⟩ := bsSearch_ok _ _ hm i hb
    refine ⟨rfl, c.nodes[i], List.getElem_mem hi, ?_⟩
    have := he
    rw [probeFn_eq _ _ _ _ hi] at this
    exact this

theorem insert_target (c : ClosestNodes) (node : Node) : (c.insert node).target = c.target := by
  unfold insert; split <;> rfl

theorem add_target (c : ClosestNodes) (node : Node) : (c.add node).target = c.target := by
  unfold add; split
  · rfl
  · exact insert_target c node

/-- `insert` keeps the list strictly sorted -/
theorem insert_pairwise (c : ClosestNodes) (node : Node) (hs : c.nodes.Pairwise (keyLt c.target)) :
    (c.insert node).nodes.Pairwise (keyLt c.target) := by
  rcases insert_cases c node hs with ⟨p, hp, heq, hbefore, hafter⟩ | ⟨heq, _⟩
  · rw [heq]
    simp only
    rw [List.pairwise_append]
    refine ⟨hs.sublist (List.take_sublist _ _), ?_, ?_⟩
    · rw [List.pairwise_cons]
      exact ⟨hafter, hs.sublist (List.drop_sublist _ _)⟩
    · intro a ha b hb
      rcases List.mem_cons.1 hb with rfl | hb
      · exact hbefore a ha
      · exact keyLt_trans _ (hbefore a ha) (hafter b hb)
  · rw [heq]; exact hs

/-- the inserted list is a permutation of `node :: old`, unless an equal-comparing element exists -/
theorem insert_perm (c : ClosestNodes) (node : Node) (hs : c.nodes.Pairwise (keyLt c.target)) :
    ((c.insert node).nodes.Perm (node :: c.nodes) ∧ ∀ e ∈ c.nodes, cmpProbe c.target node e ≠ .eq) ∨
    (c.insert node = c ∧ ∃ e ∈ c.nodes, cmpProbe c.target node e = .eq) := by
  rcases insert_cases c node hs with ⟨p, hp, heq, hbefore, hafter⟩ | h
  · left
    constructor
    · rw [heq]
      simp only
      have : (c.nodes.take p ++ node :: c.nodes.drop p).Perm (node :: (c.nodes.take p ++ c.nodes.drop p)) :=
        List.perm_middle
      rw [List.take_append_drop] at this
      exact this
    · intro e he hc
      have hmem : e ∈ c.nodes.take p ++ c.nodes.drop p := by rw [List.take_append_drop]; exact he
      rcases List.mem_append.1 hmem with h1 | h1
      · have := (cmpProbe_lt_iff c.target node e).2 (hbefore e h1)
        rw [hc] at this; cases this
      · have := (cmpProbe_gt_iff c.target node e).2 (hafter e h1)
        rw [hc] at this; cases this
  · exact Or.inr h

/-! ### the per-IP filter is order-independent on its argument -/

theorem alreadyExists_perm (n : Node) {l₁ l₂ : List Node} (h : l₁.Perm l₂) :
    n.alreadyExists l₁ = n.alreadyExists l₂ := by
  unfold Node.alreadyExists
  exact h.any_eq

/-! ### take_until_secure -/

theorem takeUntilSecure_prefix (c : ClosestNodes) (dk s : Nat) :
    ∃ n, min Constants.K c.nodes.length ≤ n ∧ n ≤ c.nodes.length ∧
      c.takeUntilSecure dk s = c.nodes.take n := by
  unfold takeUntilSecure
  refine ⟨min (max (untilSecureLoop c.target dk s c.nodes [] 0) Constants.K) c.nodes.length, ?_, ?_, rfl⟩
  · omega
  · omega

end ClosestNodes
end Mainline
