/-
  The parser inverts the encoder on the value shapes the KRPC encoder produces:
  leaves (integers, byte strings, lists of byte strings, the error pair), dictionaries of leaves,
  and the top-level dictionary.
-/
import MainlineModel.Lemmas.BencodeLemmas
import MainlineModel.Model.Krpc
namespace Mainline
namespace Bencode

def okLen (b : Bytes) : Prop := b.length < 18446744073709551616

/-- values the KRPC encoder emits inside `a` / `r` / `e` -/
inductive Leaf : BVal → Prop where
  | int (i : Int) (h : inI64 i) : Leaf (.int i)
  | bytes (b : Bytes) (h : okLen b) : Leaf (.bytes b)
  | bytesList (l : List Bytes) (h : ∀ b ∈ l, okLen b) : Leaf (.list (l.map .bytes))
  | pair (c : Int) (d : Bytes) (hc : inI64 c) (hd : okLen d) : Leaf (.list [.int c, .bytes d])

theorem encode_bytes_head_ne (b : Bytes) (h : okLen b) (c : UInt8) (hc : isDigit c = false) (rest : Bytes) :
    ∃ x r, encode (.bytes b) ++ rest = x :: r ∧ x ≠ c ∧ isDigit x = true := by
  obtain ⟨x, r, hx, hd⟩ := encBytes_head b h
  refine ⟨x, r ++ rest, by simp [encode, hx], ?_, hd⟩
  intro e; rw [e, hc] at hd; cases hd

/-- list elements that are byte strings -/
theorem parseList_bytes (l : List Bytes) (hl : ∀ b ∈ l, okLen b) :
    ∀ (fuel : Nat) (acc : List BVal) (rest : Bytes),
      fuel ≥ (encodeList (l.map .bytes)).length + 2 →
      parseList fuel (encodeList (l.map .bytes) ++ 101 :: rest) acc =
        some (.list (acc.reverse ++ l.map .bytes), rest) := by
  induction l with
  | nil =>
    intro fuel acc rest hf
    cases fuel with
    | zero => simp [encodeList] at hf
    | succ f => simp [encodeList, parseList]
  | cons b l ih =>
    intro fuel acc rest hf
    have hb := hl b List.mem_cons_self
    cases fuel with
    | zero => simp at hf
    | succ f =>
      simp only [List.map_cons, encodeList, List.append_assoc] at hf ⊢
      obtain ⟨x, r, hx, hne, _⟩ := encode_bytes_head_ne b hb 101 (by decide)
        (encodeList (l.map .bytes) ++ 101 :: rest)
      rw [hx]
      simp only [parseList]
      have hxe : (x == 101) = false := by simpa using hne
      simp only [hxe, Bool.false_eq_true, ite_false]
      rw [← hx]
      have hlen : (encode (.bytes b)).length ≥ 2 := by
        obtain ⟨c, rr, hc, _⟩ := encBytes_head b hb
        simp only [encode, encBytes, List.length_append, List.length_cons, List.length_nil]
        have : (natToAscii b.length).length ≥ 1 := by
          have := (natToAscii_spec b.length (by
            calc b.length < 18446744073709551616 := hb
              _ < 10 ^ 40 := by decide)).1
          cases hna : natToAscii b.length with
          | nil => exact absurd hna this
          | cons _ _ => simp
        omega
      cases f with
      | zero => simp only [List.length_append] at hf; omega
      | succ f' =>
        rw [parseVal_bytes f' b hb]
        simp only
        have := ih (fun b' hb' => hl b' (List.mem_cons_of_mem _ hb')) (f' + 1) (.bytes b :: acc) rest
          (by simp only [List.length_append] at hf; omega)
        rw [this]
        simp

theorem leaf_head (v : BVal) (h : Leaf v) (rest : Bytes) :
    ∃ x r, encode v ++ rest = x :: r ∧ x ≠ 101 := by
  cases h with
  | int i _ => exact ⟨105, intToAscii i ++ 101 :: rest, by simp [encode, encInt], by decide⟩
  | bytes b hb =>
    obtain ⟨x, r, hx, hne, _⟩ := encode_bytes_head_ne b hb 101 (by decide) rest
    exact ⟨x, r, hx, hne⟩
  | bytesList l _ => exact ⟨108, encodeList (l.map .bytes) ++ 101 :: rest, by simp [encode], by decide⟩
  | pair c d _ _ => exact ⟨108, encodeList [.int c, .bytes d] ++ 101 :: rest, by simp [encode], by decide⟩

/-- a leaf parses back, with any fuel above its encoded length -/
theorem parseVal_leaf (v : BVal) (h : Leaf v) (fuel : Nat) (rest : Bytes)
    (hf : fuel ≥ (encode v).length + 1) : parseVal fuel (encode v ++ rest) = some (v, rest) := by
  cases h with
  | int i hi =>
    cases fuel with
    | zero => omega
    | succ f => exact parseVal_int f i hi rest
  | bytes b hb =>
    cases fuel with
    | zero => omega
    | succ f => exact parseVal_bytes f b hb rest
  | bytesList l hl =>
    cases fuel with
    | zero => omega
    | succ f =>
      simp only [encode, List.cons_append, List.nil_append, List.append_assoc, parseVal,
        show ((108 : UInt8) == 105) = false by decide, show isDigit 108 = false by decide,
        show ((108 : UInt8) == 108) = true by decide, Bool.false_eq_true, ite_false, ite_true]
      have := parseList_bytes l hl f [] rest (by
        simp only [encode, List.length_append, List.length_cons, List.length_nil] at hf; omega)
      simpa using this
  | pair c d hc hd =>
    cases fuel with
    | zero => omega
    | succ f =>
      simp only [encode, encodeList, List.cons_append, List.nil_append, List.append_assoc, parseVal,
        show ((108 : UInt8) == 105) = false by decide, show isDigit 108 = false by decide,
        show ((108 : UInt8) == 108) = true by decide, Bool.false_eq_true, ite_false, ite_true]
      have hlen : f ≥ 3 := by
        simp only [encode, encodeList, encInt, List.length_append, List.length_cons, List.length_nil] at hf
        obtain ⟨x, r, hx, _⟩ := encBytes_head d hd
        have : (encBytes d).length ≥ 1 := by rw [hx]; simp
        omega
      obtain ⟨f1, rfl⟩ : ∃ f1, f = f1 + 3 := ⟨f - 3, by omega⟩
      -- first element: the integer
      have h1 : encInt c ++ (encBytes d ++ 101 :: rest) = 105 :: (intToAscii c ++ 101 :: (encBytes d ++ 101 :: rest)) := by
        simp [encInt]
      rw [h1]
      simp only [parseList]
      have : ((105 : UInt8) == 101) = false := by decide
      simp only [this, Bool.false_eq_true, ite_false]
      have hv : parseVal (f1 + 2) (105 :: (intToAscii c ++ 101 :: (encBytes d ++ 101 :: rest))) =
          some (.int c, encBytes d ++ 101 :: rest) := by
        have := parseVal_int (f1 + 1) c hc (encBytes d ++ 101 :: rest)
        simpa [encode, encInt] using this
      rw [hv]
      simp only
      -- second element: the byte string
      obtain ⟨x, r, hx, hne, _⟩ := encode_bytes_head_ne d hd 101 (by decide) (101 :: rest)
      simp only [encode] at hx
      rw [hx]
      simp only [parseList]
      have hxe : (x == 101) = false := by simpa using hne
      simp only [hxe, Bool.false_eq_true, ite_false]
      rw [← hx]
      have hb := parseVal_bytes f1 d hd (101 :: rest)
      simp only [encode] at hb
      rw [hb]
      simp only
      cases f1 with
      | zero => simp [parseList]
      | succ f2 => simp [parseList]

/-! ### dictionaries of leaves -/

/-- entries with byte-string keys and leaf values -/
def LeafEntries (d : List (BVal × BVal)) : Prop :=
  ∀ p ∈ d, (∃ k, p.1 = .bytes k ∧ okLen k) ∧ Leaf p.2

theorem encode_len_ge2_bytes (k : Bytes) (hk : okLen k) : (encode (.bytes k)).length ≥ 2 := by
  obtain ⟨c, rr, hc, _⟩ := encBytes_head k hk
  have h1 : (natToAscii k.length).length ≥ 1 := by
    have := (natToAscii_spec k.length (by
      calc k.length < 18446744073709551616 := hk
        _ < 10 ^ 40 := by decide)).1
    cases hna : natToAscii k.length with
    | nil => exact absurd hna this
    | cons _ _ => simp
  simp only [encode, encBytes, List.length_append, List.length_cons, List.length_nil]
  omega

theorem parseDict_leaves (d : List (BVal × BVal)) (hd : LeafEntries d) :
    ∀ (fuel : Nat) (acc : List (BVal × BVal)) (rest : Bytes),
      fuel ≥ (encodeDict d).length + 2 →
      parseDict fuel (encodeDict d ++ 101 :: rest) acc = some (.dict (acc.reverse ++ d), rest) := by
  induction d with
  | nil =>
    intro fuel acc rest hf
    cases fuel with
    | zero => omega
    | succ f => simp [encodeDict, parseDict]
  | cons p d ih =>
    intro fuel acc rest hf
    obtain ⟨kv, v⟩ := p
    obtain ⟨⟨k, hk, hkl⟩, hv⟩ := hd (kv, v) List.mem_cons_self
    simp only at hk hv
    subst hk
    cases fuel with
    | zero => omega
    | succ f =>
      simp only [encodeDict, List.append_assoc] at hf ⊢
      obtain ⟨x, r, hx, hne, _⟩ := encode_bytes_head_ne k hkl 101 (by decide)
        (encode v ++ (encodeDict d ++ 101 :: rest))
      rw [hx]
      simp only [parseDict]
      have hxe : (x == 101) = false := by simpa using hne
      simp only [hxe, Bool.false_eq_true, ite_false]
      rw [← hx]
      have hk2 := encode_len_ge2_bytes k hkl
      simp only [List.length_append] at hf
      cases f with
      | zero => omega
      | succ f' =>
        rw [parseVal_bytes f' k hkl]
        simp only
        rw [parseVal_leaf v hv (f' + 1) _ (by omega)]
        simp only
        have := ih (fun q hq => hd q (List.mem_cons_of_mem _ hq)) (f' + 1) ((.bytes k, v) :: acc) rest (by
          have : (encode v).length ≥ 0 := Nat.zero_le _
          omega)
        rw [this]
        simp

/-- values of the top-level dictionary: a leaf or a dictionary of leaves -/
inductive Top : BVal → Prop where
  | leaf (v : BVal) (h : Leaf v) : Top v
  | dict (d : List (BVal × BVal)) (h : LeafEntries d) : Top (.dict d)

theorem parseVal_top (v : BVal) (h : Top v) (fuel : Nat) (rest : Bytes)
    (hf : fuel ≥ (encode v).length + 2) : parseVal fuel (encode v ++ rest) = some (v, rest) := by
  cases h with
  | leaf v hl => exact parseVal_leaf v hl fuel rest (by omega)
  | dict d hd =>
    cases fuel with
    | zero => omega
    | succ f =>
      simp only [encode, List.cons_append, List.nil_append, List.append_assoc, parseVal,
        show ((100 : UInt8) == 105) = false by decide, show isDigit 100 = false by decide,
        show ((100 : UInt8) == 108) = false by decide, show ((100 : UInt8) == 100) = true by decide,
        Bool.false_eq_true, ite_false, ite_true]
      have := parseDict_leaves d hd f [] rest (by
        simp only [encode, List.length_append, List.length_cons, List.length_nil] at hf; omega)
      simpa using this

end Bencode
end Mainline
