/-
  Frame lemmas for the actor model: which operations leave which parts of the state alone.
-/
import MainlineModel.Model.Actor
namespace Mainline
namespace Actor

/-- the mode-related part of the state -/
structure Modes where
  sock : Bool
  core : Bool
  firewalled : Bool
  publicAddress : Option Addr
  deriving DecidableEq

def modes (a : Actor) : Modes :=
  { sock := a.sockServerMode, core := a.core.serverMode, firewalled := a.core.firewalled,
    publicAddress := a.core.publicAddress }

@[simp] theorem request_modes (a : Actor) (to : Addr) (req : Request) (now : Nat) :
    (a.request to req now).1.modes = a.modes := rfl

@[simp] theorem request_core (a : Actor) (to : Addr) (req : Request) (now : Nat) :
    (a.request to req now).1.core = a.core := rfl

@[simp] theorem reply_modes (a : Actor) (to : Addr) (tid : UInt32) (m : MessageType) :
    (a.reply to tid m).modes = a.modes := rfl

@[simp] theorem ping_modes (a : Actor) (to : Addr) (now : Nat) : (a.ping to now).modes = a.modes := rfl
@[simp] theorem ping_core (a : Actor) (to : Addr) (now : Nat) : (a.ping to now).core = a.core := rfl

@[simp] theorem visit_core (a : Actor) (q : IterQuery) (to : Addr) (now : Nat) :
    (a.visit q to now).1.core = a.core := rfl
@[simp] theorem visit_mode (a : Actor) (q : IterQuery) (to : Addr) (now : Nat) :
    (a.visit q to now).1.sockServerMode = a.sockServerMode := rfl

theorem visitAll_core (a : Actor) (q : IterQuery) (tos : List Addr) (now : Nat) :
    (a.visitAll q tos now).1.core = a.core ∧ (a.visitAll q tos now).1.sockServerMode = a.sockServerMode := by
  unfold visitAll
  induction tos generalizing a q with
  | nil => exact ⟨rfl, rfl⟩
  | cons t ts ih =>
    simp only [List.foldl_cons]
    obtain ⟨h1, h2⟩ := ih (a.visit q t now).1 (a.visit q t now).2
    exact ⟨h1, h2⟩

theorem getCached_fields (c : Core) (target : Id) (now : Nat) :
    (getCachedClosestNodes c target now).1.serverMode = c.serverMode ∧
    (getCachedClosestNodes c target now).1.firewalled = c.firewalled ∧
    (getCachedClosestNodes c target now).1.publicAddress = c.publicAddress ∧
    (getCachedClosestNodes c target now).1.iter = c.iter ∧
    (getCachedClosestNodes c target now).1.puts = c.puts ∧
    (getCachedClosestNodes c target now).1.rt = c.rt ∧
    (getCachedClosestNodes c target now).1.srt = c.srt ∧
    (getCachedClosestNodes c target now).1.server = c.server ∧
    (getCachedClosestNodes c target now).1.bootstrap = c.bootstrap := by
  unfold getCachedClosestNodes
  split <;> simp

theorem createIter_fields (c : Core) (k : GetKind) (target : Id) (extra : List Addr) (now : Nat) :
    (createIterativeQuery c k target extra now).1.serverMode = c.serverMode ∧
    (createIterativeQuery c k target extra now).1.firewalled = c.firewalled ∧
    (createIterativeQuery c k target extra now).1.publicAddress = c.publicAddress ∧
    (createIterativeQuery c k target extra now).1.iter = c.iter ∧
    (createIterativeQuery c k target extra now).1.puts = c.puts ∧
    (createIterativeQuery c k target extra now).1.server = c.server := by
  unfold createIterativeQuery
  split
  · simp
  · obtain ⟨h1, h2, h3, h4, h5, _, _, h8, _⟩ := getCached_fields c target now
    simp only
    exact ⟨h1, h2, h3, h4, h5, h8⟩

theorem startLookup_modes (a : Actor) (k : GetKind) (target : Id) (extra : List Addr) (now : Nat) :
    (a.startLookup k target extra now).modes = a.modes := by
  obtain ⟨h1, h2, h3, _⟩ := createIter_fields a.core k target extra now
  unfold startLookup
  split
  · rename_i core q toVisit hm
    rw [hm] at h1 h2 h3
    simp only at h1 h2 h3
    obtain ⟨_, v2⟩ := visitAll_core { a with core := core } q toVisit now
    simp only [modes, v2, h1, h2, h3]
  · rename_i core hm
    rw [hm] at h1 h2 h3
    simp only at h1 h2 h3
    simp only [modes, h1, h2, h3]

theorem get_modes (a : Actor) (k : GetKind) (target : Id) (extra : List Addr) (now : Nat) :
    (a.get k target extra now).1.modes = a.modes := by
  unfold get
  split
  · rfl
  · exact startLookup_modes a k target extra now

theorem populate_modes (a : Actor) (now : Nat) : (a.populate now).modes = a.modes := by
  unfold populate
  split
  · rfl
  · exact get_modes a _ _ _ now

theorem maybeAdd_allow (c : Core) (src : Addr) (version : Option Bytes) (ro : Bool) (req : Request) (now : Nat) :
    (maybeAddNodeFromRequest c src version ro req now).allow = c.allow := by
  unfold maybeAddNodeFromRequest
  split
  · split
    · unfold addRequester
      split
      · split <;> rfl
      · split <;> rfl
    · rfl
  · rfl

theorem verifySelfPing_allow (c : Core) (src : Addr) (req : Request) (now : Nat) :
    (verifySelfPing c src req now).1.allow = c.allow := by
  unfold verifySelfPing
  split
  · split
    · split <;> rfl
    · rfl
  · rfl

/-- the inputs of one iteration of the actor loop -/
structure StepIn where
  env : Env
  dgram : Option (Message × Addr)
  msg : Option ApiMsg

/-- any run of the actor loop -/
def runSteps (a : Actor) (ins : List StepIn) : Actor := ins.foldl (fun a i => a.step i.env i.dgram i.msg) a

end Actor
end Mainline
