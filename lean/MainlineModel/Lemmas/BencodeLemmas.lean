/-
  Round-trip lemmas for the bencode layer: decimal rendering, integers, byte strings, and fuel
  monotonicity of the parser.
-/
import MainlineModel.Model.Bencode
namespace Mainline
namespace Bencode

/-! ### decimal digits -/

def digitsFold (bs : Bytes) : Nat := bs.foldl (fun acc b => acc * 10 + (b.toNat - 48)) 0

theorem digitsVal_eq (bs : Bytes) (hne : bs ≠ []) (hall : bs.all isDigit = true) :
    digitsVal bs = some (digitsFold bs) := by
  cases bs with
  | nil => exact absurd rfl hne
  | cons b bs => simp [digitsVal, hall, digitsFold]

theorem digit_byte : ∀ d < 10,
    isDigit (UInt8.ofNat (48 + d)) = true ∧ (UInt8.ofNat (48 + d)).toNat - 48 = d ∧
    (UInt8.ofNat (48 + d)) ≠ 101 ∧ (UInt8.ofNat (48 + d)) ≠ 58 ∧
    (UInt8.ofNat (48 + d)) ≠ 43 ∧ (UInt8.ofNat (48 + d)) ≠ 45 := by
  decide

theorem foldl_digits_append (xs : Bytes) (d : UInt8) (acc : Nat) :
    (xs ++ [d]).foldl (fun acc b => acc * 10 + (b.toNat - 48)) acc =
      (xs.foldl (fun acc b => acc * 10 + (b.toNat - 48)) acc) * 10 + (d.toNat - 48) := by
  rw [List.foldl_append]; rfl

theorem natDigits_spec (f n : Nat) (hf : n < 10 ^ (f + 1)) :
    natDigits (f + 1) n ≠ [] ∧ (natDigits (f + 1) n).all isDigit = true ∧
      digitsFold (natDigits (f + 1) n) = n := by
  induction f generalizing n with
  | zero =>
    have hlt : n < 10 := by simpa using hf
    obtain ⟨h1, h2, _⟩ := digit_byte n hlt
    simp only [natDigits, hlt, ite_true]
    refine ⟨List.cons_ne_nil _ _, ?_, ?_⟩
    · simp only [List.all_cons, List.all_nil, h1, Bool.and_true]
    · simp only [digitsFold, List.foldl_cons, List.foldl_nil, h2]; omega
  | succ f ih =>
    rw [natDigits]
    split
    · rename_i hlt
      obtain ⟨h1, h2, _⟩ := digit_byte n hlt
      refine ⟨List.cons_ne_nil _ _, ?_, ?_⟩
      · simp only [List.all_cons, List.all_nil, h1, Bool.and_true]
      · simp only [digitsFold, List.foldl_cons, List.foldl_nil, h2]; omega
    · rename_i hge
      have hdiv : n / 10 < 10 ^ (f + 1) := by
        rw [Nat.pow_succ] at hf
        exact Nat.div_lt_of_lt_mul (by omega)
      obtain ⟨i1, i2, i3⟩ := ih (n / 10) hdiv
      obtain ⟨h1, h2, _⟩ := digit_byte (n % 10) (Nat.mod_lt _ (by omega))
      refine ⟨?_, ?_, ?_⟩
      · intro h; have := congrArg List.length h; simp at this
      · rw [List.all_append, i2]
        simp only [List.all_cons, List.all_nil, h1, Bool.and_true]
      · unfold digitsFold at *
        rw [foldl_digits_append, i3, h2]
        omega

theorem natDigits_no (c : UInt8) (hc : isDigit c = false) (f n : Nat) : c ∉ natDigits f n := by
  induction f generalizing n with
  | zero => simp [natDigits]
  | succ f ih =>
    unfold natDigits
    have hd : ∀ d, d < 10 → c ≠ UInt8.ofNat (48 + d) := by
      intro d hd e
      have := (digit_byte d hd).1
      rw [← e, hc] at this; cases this
    split
    · rename_i hlt
      intro hm
      have : c = UInt8.ofNat (48 + n) := by simpa only [List.mem_singleton] using hm
      exact hd n hlt this
    · simp only [List.mem_append, List.mem_singleton, not_or]
      exact ⟨ih _, hd _ (Nat.mod_lt _ (by omega))⟩

theorem natToAscii_spec (n : Nat) (h : n < 10 ^ 40) :
    natToAscii n ≠ [] ∧ (natToAscii n).all isDigit = true ∧ digitsVal (natToAscii n) = some n := by
  obtain ⟨h1, h2, h3⟩ := natDigits_spec 39 n h
  exact ⟨h1, h2, by rw [natToAscii, digitsVal_eq _ h1 h2, h3]⟩

theorem natToAscii_head (n : Nat) (h : n < 10 ^ 40) :
    ∃ c rest, natToAscii n = c :: rest ∧ isDigit c = true := by
  obtain ⟨h1, h2, _⟩ := natToAscii_spec n h
  cases hn : natToAscii n with
  | nil => exact absurd hn h1
  | cons c rest =>
    rw [hn] at h2
    simp only [List.all_cons, Bool.and_eq_true] at h2
    exact ⟨c, rest, rfl, h2.1⟩

/-! ### splitting at a delimiter -/

theorem splitAt?_append (c : UInt8) (s rest : Bytes) (h : c ∉ s) :
    splitAt? c (s ++ c :: rest) = some (s, rest) := by
  induction s with
  | nil => simp [splitAt?]
  | cons b s ih =>
    have hb : (b == c) = false := by
      have : b ≠ c := fun e => h (by rw [e]; exact List.mem_cons_self)
      simpa using this
    simp only [List.cons_append, splitAt?, hb, Bool.false_eq_true, ite_false]
    rw [ih (fun hm => h (List.mem_cons_of_mem _ hm))]
    rfl

/-! ### integers -/

def inI64 (i : Int) : Prop := -9223372036854775808 ≤ i ∧ i ≤ 9223372036854775807

theorem parseI64_intToAscii (i : Int) (h : inI64 i) : parseI64 (intToAscii i) = some i := by
  unfold inI64 at h
  cases i with
  | ofNat n =>
    have hn : n < 10 ^ 40 := by
      have h2 := h.2
      simp only [Int.ofNat_eq_natCast] at h2
      have : n ≤ 9223372036854775807 := by omega
      calc n ≤ 9223372036854775807 := this
        _ < 10 ^ 40 := by decide
    obtain ⟨c, rest, hc, hd⟩ := natToAscii_head n hn
    obtain ⟨_, _, h3⟩ := natToAscii_spec n hn
    simp only [intToAscii]
    have h43 : c ≠ 43 := by intro e; rw [e] at hd; simp [isDigit] at hd
    have h45 : c ≠ 45 := by intro e; rw [e] at hd; simp [isDigit] at hd
    unfold parseI64
    rw [hc]
    split
    · rename_i heq; injection heq with h1 _; exact absurd h1 h43
    · rename_i heq; injection heq with h1 _; exact absurd h1 h45
    · rw [← hc, h3]
      have : n ≤ 9223372036854775807 := by
        have := h.2; simp only [Int.ofNat_eq_natCast] at this; omega
      simp [this]
  | negSucc n =>
    have hn1 : n + 1 ≤ 9223372036854775808 := by
      have := h.1
      omega
    have hn : n + 1 < 10 ^ 40 := by
      calc n + 1 ≤ 9223372036854775808 := hn1
        _ < 10 ^ 40 := by decide
    obtain ⟨_, _, h3⟩ := natToAscii_spec (n + 1) hn
    simp only [intToAscii, parseI64, h3, Option.bind_some, hn1, ite_true]
    rfl

theorem intToAscii_no_e (i : Int) : (101 : UInt8) ∉ intToAscii i := by
  cases i with
  | ofNat n => exact natDigits_no 101 (by decide) 40 n
  | negSucc n =>
    simp only [intToAscii, List.mem_cons, not_or]
    exact ⟨by decide, natDigits_no 101 (by decide) 40 _⟩

theorem parseIntBody_enc (i : Int) (h : inI64 i) (rest : Bytes) :
    parseIntBody (intToAscii i ++ 101 :: rest) = some (i, rest) := by
  unfold parseIntBody
  rw [splitAt?_append 101 _ _ (intToAscii_no_e i)]
  simp [parseI64_intToAscii i h]

/-! ### byte strings -/

theorem parseBytes_enc (b rest : Bytes) (h : b.length < 18446744073709551616) :
    parseBytes (encBytes b ++ rest) = some (b, rest) := by
  unfold parseBytes encBytes
  have hn : b.length < 10 ^ 40 := by
    calc b.length < 18446744073709551616 := h
      _ < 10 ^ 40 := by decide
  obtain ⟨_, _, h3⟩ := natToAscii_spec b.length hn
  have hno : (58 : UInt8) ∉ natToAscii b.length := natDigits_no 58 (by decide) 40 _
  have : natToAscii b.length ++ [58] ++ b ++ rest = natToAscii b.length ++ 58 :: (b ++ rest) := by simp
  rw [this, splitAt?_append 58 _ _ hno]
  simp only [Option.bind_some, h3]
  have h1 : b.length ≤ 18446744073709551615 := by omega
  simp [h1]

theorem encBytes_head (b : Bytes) (h : b.length < 18446744073709551616) :
    ∃ c rest, encBytes b = c :: rest ∧ isDigit c = true := by
  have hn : b.length < 10 ^ 40 := by
    calc b.length < 18446744073709551616 := h
      _ < 10 ^ 40 := by decide
  obtain ⟨c, r, hc, hd⟩ := natToAscii_head b.length hn
  exact ⟨c, r ++ [58] ++ b, by simp [encBytes, hc], hd⟩

/-! ### one value: integers and byte strings -/

theorem parseVal_int (fuel : Nat) (i : Int) (h : inI64 i) (rest : Bytes) :
    parseVal (fuel + 1) (encode (.int i) ++ rest) = some (.int i, rest) := by
  simp only [encode, encInt, List.cons_append, List.nil_append, List.append_assoc, parseVal]
  simp [parseIntBody_enc i h rest]

theorem parseVal_bytes (fuel : Nat) (b : Bytes) (h : b.length < 18446744073709551616) (rest : Bytes) :
    parseVal (fuel + 1) (encode (.bytes b) ++ rest) = some (.bytes b, rest) := by
  obtain ⟨c, r, hc, hd⟩ := encBytes_head b h
  simp only [encode]
  have hp := parseBytes_enc b rest h
  rw [hc] at hp ⊢
  simp only [List.cons_append, parseVal]
  have hi : (c == 105) = false := by
    cases hcc : c == 105 with
    | false => rfl
    | true => have : c = 105 := by simpa using hcc
              rw [this] at hd; simp [isDigit] at hd
  simp only [hi, Bool.false_eq_true, ite_false, hd, ite_true]
  rw [List.cons_append] at hp
  rw [hp]; rfl

end Bencode
end Mainline
