/-
  Lemmas about the `Lru` model: lookups are unaffected by promotion, `put` stores the value and
  only ever loses entries, capacities are respected, element-wise predicates are preserved.
-/
import MainlineModel.Model.Lru
namespace Mainline
namespace Lru
variable {κ ν : Type} [DecidableEq κ]

theorem find?_cons (p : κ × ν) (rest : List (κ × ν)) (cap : Nat) (k : κ) :
    (⟨cap, p :: rest⟩ : Lru κ ν).find? k = if p.1 = k then some p.2 else (⟨cap, rest⟩ : Lru κ ν).find? k := by
  unfold find?
  by_cases h : p.1 = k
  · simp [h]
  · have : (p.1 == k) = false := by simpa using h
    simp [this, h]

theorem find?_filter_ne (items : List (κ × ν)) (cap : Nat) (k k' : κ) (h : k' ≠ k) :
    (⟨cap, items.filter (fun q => q.1 != k)⟩ : Lru κ ν).find? k' = (⟨cap, items⟩ : Lru κ ν).find? k' := by
  induction items with
  | nil => rfl
  | cons p rest ih =>
    by_cases hp : p.1 = k
    · have : (p.1 != k) = false := by simp [hp]
      rw [List.filter_cons, this]
      simp only [Bool.false_eq_true, ite_false]
      rw [ih, find?_cons]
      have : ¬ p.1 = k' := by rw [hp]; exact fun e => h e.symm
      simp [this]
    · have : (p.1 != k) = true := by simp [hp]
      rw [List.filter_cons, this]
      simp only [ite_true]
      rw [find?_cons, find?_cons, ih]

theorem find?_filter_self (items : List (κ × ν)) (cap : Nat) (k : κ) :
    (⟨cap, items.filter (fun q => q.1 != k)⟩ : Lru κ ν).find? k = none := by
  induction items with
  | nil => rfl
  | cons p rest ih =>
    by_cases hp : p.1 = k
    · have : (p.1 != k) = false := by simp [hp]
      rw [List.filter_cons, this]; simpa using ih
    · have : (p.1 != k) = true := by simp [hp]
      rw [List.filter_cons, this]
      simp only [ite_true]
      rw [find?_cons]; simp [hp, ih]

/-- `get` returns what `find?` sees -/
theorem get_snd (c : Lru κ ν) (k : κ) : (c.get k).2 = c.find? k := by
  unfold get find?
  cases h : c.items.find? (fun p => p.1 == k) <;> simp

/-- promotion does not change any lookup -/
theorem find?_get_fst (c : Lru κ ν) (k k' : κ) : (c.get k).1.find? k' = c.find? k' := by
  unfold get
  cases h : c.items.find? (fun p => p.1 == k) with
  | none => rfl
  | some p =>
    simp only
    have hpk : p.1 = k := by
      have := List.find?_some h; simpa using this
    rw [find?_cons]
    by_cases hk : k' = k
    · subst hk
      simp only [hpk, ite_true]
      unfold find?; rw [h]; rfl
    · have : ¬ p.1 = k' := by rw [hpk]; exact fun e => hk e.symm
      simp only [this, ite_false]
      exact find?_filter_ne c.items c.cap k k' hk

theorem get_cap (c : Lru κ ν) (k : κ) : (c.get k).1.cap = c.cap := by
  unfold get; split <;> rfl

theorem get_len_le (c : Lru κ ν) (k : κ) : (c.get k).1.len ≤ c.len := by
  unfold get len
  cases h : c.items.find? (fun p => p.1 == k) with
  | none => exact Nat.le_refl _
  | some p =>
    simp only [List.length_cons]
    have hpk : p.1 = k := by
      have := List.find?_some h; simpa using this
    have hmem : p ∈ c.items := List.mem_of_find?_eq_some h
    have : (c.items.filter (fun q => q.1 != k)).length < c.items.length := by
      apply List.length_filter_lt_length_iff_exists.2
      exact ⟨p, hmem, by simp [hpk]⟩
    omega

theorem get_mem (c : Lru κ ν) (k : κ) : ∀ q ∈ (c.get k).1.items, q ∈ c.items := by
  intro q hq
  unfold get at hq
  cases h : c.items.find? (fun p => p.1 == k) with
  | none => rw [h] at hq; exact hq
  | some p =>
    rw [h] at hq
    simp only at hq
    rcases List.mem_cons.1 hq with e | e
    · rw [e]; exact List.mem_of_find?_eq_some h
    · exact (List.mem_filter.1 e).1

/-- what `put` stores under its own key -/
theorem find?_put_self (c : Lru κ ν) (k : κ) (v : ν) : (c.put k v).find? k = some v := by
  unfold put
  split
  · rw [find?_cons]; simp
  · split <;> (rw [find?_cons]; simp)

theorem find?_dropLast (items : List (κ × ν)) (cap : Nat) (k : κ) (x : ν)
    (h : (⟨cap, items.dropLast⟩ : Lru κ ν).find? k = some x) : (⟨cap, items⟩ : Lru κ ν).find? k = some x := by
  induction items with
  | nil => simp [find?] at h
  | cons p rest ih =>
    cases rest with
    | nil => simp [find?] at h
    | cons q rest' =>
      rw [List.dropLast_cons_cons] at h
      rw [find?_cons] at h ⊢
      split
      · rename_i hp; simpa [hp] using h
      · rename_i hp; simp only [hp, ite_false] at h; exact ih h

/-- `put` never invents a value for another key: what is found afterwards was there before -/
theorem find?_put_other (c : Lru κ ν) (k k' : κ) (v x : ν) (hne : k' ≠ k)
    (h : (c.put k v).find? k' = some x) : c.find? k' = some x := by
  unfold put at h
  have hk : ¬ k = k' := fun e => hne e.symm
  split at h
  · rw [find?_cons] at h
    simp only [hk, ite_false] at h
    rw [find?_filter_ne _ _ _ _ hne] at h
    exact h
  · split at h
    · rw [find?_cons] at h
      simp only [hk, ite_false] at h
      exact find?_dropLast _ _ _ _ h
    · rw [find?_cons] at h
      simp only [hk, ite_false] at h
      exact h

theorem put_cap (c : Lru κ ν) (k : κ) (v : ν) : (c.put k v).cap = c.cap := by
  unfold put; split
  · rfl
  · split <;> rfl

/-- capacity is respected by `put` -/
theorem put_len_le (c : Lru κ ν) (k : κ) (v : ν) (hc : 1 ≤ c.cap) (h : c.len ≤ c.cap) :
    (c.put k v).len ≤ c.cap := by
  unfold put len at *
  split
  · rename_i hex
    obtain ⟨p, hp, hpk⟩ := List.any_eq_true.1 hex
    simp only [List.length_cons]
    have : (c.items.filter (fun q => q.1 != k)).length < c.items.length := by
      apply List.length_filter_lt_length_iff_exists.2
      exact ⟨p, hp, by simpa using hpk⟩
    omega
  · split
    · simp only [List.length_cons, List.length_dropLast]; omega
    · simp only [List.length_cons]; omega

theorem put_mem (c : Lru κ ν) (k : κ) (v : ν) :
    ∀ q ∈ (c.put k v).items, q = (k, v) ∨ q ∈ c.items := by
  intro q hq
  unfold put at hq
  split at hq
  · rcases List.mem_cons.1 hq with e | e
    · exact Or.inl e
    · exact Or.inr (List.mem_filter.1 e).1
  · split at hq
    · rcases List.mem_cons.1 hq with e | e
      · exact Or.inl e
      · exact Or.inr (List.dropLast_subset _ e)
    · rcases List.mem_cons.1 hq with e | e
      · exact Or.inl e
      · exact Or.inr e

/-- `find?` only returns stored values -/
theorem find?_mem (c : Lru κ ν) (k : κ) (x : ν) (h : c.find? k = some x) : (k, x) ∈ c.items := by
  unfold find? at h
  cases hf : c.items.find? (fun p => p.1 == k) with
  | none => rw [hf] at h; cases h
  | some p =>
    rw [hf] at h
    have hpk : p.1 = k := by have := List.find?_some hf; simpa using this
    have : p.2 = x := by simpa using h
    have hm := List.mem_of_find?_eq_some hf
    rw [← hpk, ← this]; exact hm

end Lru
end Mainline
