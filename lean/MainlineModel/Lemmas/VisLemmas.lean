/-
  VisLemmas.lean — every address a registered lookup has marked visited was sent that lookup's request.

  `VisLog a`: for every registered lookup and every address in its `visited` list the log `a.out` holds a
  request datagram to that address carrying the lookup's request.  One iteration of the loop keeps it
  (`step_visLog`), by the same phase-by-phase push as `AttrLemmas` (relation `AdvV`).  With C07's
  `AllClosed` (every registered lookup has visited the 20 closest candidates it knows) this gives the
  closure property at the level of the wire: the closest candidates WERE ASKED (`Props/C07Asked.lean`).
-/
import MainlineModel.Lemmas.AttrLemmas
namespace Mainline
open Actor

def VisQ (a : Actor) (q : IterQuery) : Prop := ∀ to ∈ q.visited, ∃ tid, Sent a tid to q.request

def VisLog (a : Actor) : Prop := ∀ p ∈ a.core.iter, VisQ a p.2

theorem VisQ.mono {a a' : Actor} {q : IterQuery} (h : VisQ a q) (ho : ∃ l, a'.out = a.out ++ l) : VisQ a' q := by
  intro to hto
  obtain ⟨tid, hs⟩ := h to hto
  exact ⟨tid, hs.mono ho⟩

structure AdvV (now : Nat) (a a' : Actor) : Prop where
  adv : Adv now a a'
  keep : a.sock.nextTid + (a'.out.length - a.out.length) < two32 → VisLog a → VisLog a'

theorem AdvV.refl (now : Nat) (a : Actor) : AdvV now a a := ⟨Adv.refl now a, fun _ h => h⟩

theorem AdvV.trans {now : Nat} {a b c : Actor} (h1 : AdvV now a b) (h2 : AdvV now b c) : AdvV now a c := by
  refine ⟨h1.adv.trans h2.adv, ?_⟩
  intro hb hv
  obtain ⟨l1, e1⟩ := h1.adv.out
  obtain ⟨l2, e2⟩ := h2.adv.out
  have hlen1 : b.out.length = a.out.length + l1.length := by rw [e1, List.length_append]
  have hlen2 : c.out.length = b.out.length + l2.length := by rw [e2, List.length_append]
  obtain ⟨_, hb2, _⟩ := Adv.split h1.adv h2.adv hb
  exact h2.keep hb2 (h1.keep (by omega) hv)

/-- a stretch whose lookups were there before, with the same request and nothing new visited -/
theorem AdvV.carry {now : Nat} {a a' : Actor} (hadv : Adv now a a')
    (hi : ∀ p' ∈ a'.core.iter, ∃ p ∈ a.core.iter, p.2.request = p'.2.request ∧ ∀ to ∈ p'.2.visited, to ∈ p.2.visited) :
    AdvV now a a' := by
  refine ⟨hadv, ?_⟩
  intro _ hv p' hp' to hto
  obtain ⟨p, hp, he, hsub⟩ := hi p' hp'
  obtain ⟨tid, hs⟩ := hv p hp to (hsub to hto)
  exact ⟨tid, by rw [← he]; exact hs.mono hadv.out⟩

/-- … in particular one that leaves the registered lookups alone -/
theorem AdvV.of_iter {now : Nat} {a a' : Actor} (hadv : Adv now a a') (hi : a'.core.iter = a.core.iter) : AdvV now a a' :=
  AdvV.carry hadv (fun p' h => ⟨p', by rw [← hi]; exact h, rfl, fun _ h => h⟩)

theorem request_advV (a : Actor) (to : Addr) (req : Request) (now : Nat) : AdvV now a (a.request to req now).1 :=
  AdvV.of_iter (request_adv a to req now).1 rfl

theorem ping_advV (a : Actor) (to : Addr) (now : Nat) : AdvV now a (a.ping to now) := request_advV a to _ now

theorem visit_advV (a : Actor) (q : IterQuery) (to : Addr) (now : Nat) :
    AdvV now a (a.visit q to now).1 ∧
    (a.sock.nextTid + 1 < two32 → VisQ a q → VisQ (a.visit q to now).1 (a.visit q to now).2) := by
  obtain ⟨h1, h2⟩ := request_advA a to q.request now
  refine ⟨request_advV a to q.request now, ?_⟩
  intro hb hq x hx
  have hreq : (a.visit q to now).2.request = q.request := rfl
  rw [hreq]
  have hvis : x ∈ q.visited ∨ x = to := by
    have : (a.visit q to now).2.visited = if q.visited.contains to then q.visited else q.visited ++ [to] := rfl
    rw [this] at hx
    split at hx
    · exact Or.inl hx
    · rcases List.mem_append.1 hx with h | h
      · exact Or.inl h
      · exact Or.inr (List.mem_singleton.1 h)
  rcases hvis with h | rfl
  · obtain ⟨tid, hs⟩ := hq x h
    exact ⟨tid, hs.mono h1.adv.out⟩
  · exact ⟨_, h2 hb⟩

theorem visitAll_advV (a : Actor) (q : IterQuery) (tos : List Addr) (now : Nat) :
    AdvV now a (a.visitAll q tos now).1 ∧
    (a.sock.nextTid + tos.length < two32 → VisQ a q → VisQ (a.visitAll q tos now).1 (a.visitAll q tos now).2) := by
  unfold visitAll
  induction tos generalizing a q with
  | nil => exact ⟨AdvV.refl now a, fun _ h => h⟩
  | cons t ts ih =>
    simp only [List.foldl_cons, List.length_cons]
    obtain ⟨v1, v3⟩ := visit_advV a q t now
    obtain ⟨i1, i3⟩ := ih (a.visit q t now).1 (a.visit q t now).2
    refine ⟨v1.trans i1, ?_⟩
    intro hb hq
    have hb1 : a.sock.nextTid + 1 < two32 := by omega
    have hn1 : (a.visit q t now).1.sock.nextTid = a.sock.nextTid + 1 := ((request_adv a t q.request now).2 hb1).2
    exact i3 (by rw [hn1]; omega) (v3 hb1 hq)

theorem seed_fold_visited (ns : List Node) (q : IterQuery) :
    (ns.foldl (fun q n => { q with closest := q.closest.add n }) q).visited = q.visited := by
  induction ns generalizing q with
  | nil => rfl
  | cons n ns ih => simp only [List.foldl_cons]; rw [ih]

/-- a lookup just created has visited nobody yet -/
theorem createIter_visited (c : Core) (k : GetKind) (t : Id) (extra : List Addr) (now : Nat)
    (q : IterQuery) (tv : List Addr) (h : (createIterativeQuery c k t extra now).2 = some (q, tv)) :
    q.visited = [] := by
  unfold createIterativeQuery at h
  split at h
  · cases h
  · simp only at h
    injection h with h
    injection h with h _
    rw [← h]
    split
    · rw [seed_fold_visited, seed_fold_visited]; rfl
    · rw [seed_fold_visited]; rfl

theorem startLookup_advV (a : Actor) (k : GetKind) (t : Id) (extra : List Addr) (now : Nat) :
    AdvV now a (a.startLookup k t extra now) := by
  refine ⟨startLookup_adv a k t extra now, ?_⟩
  obtain ⟨_, _, _, c4, c5, _⟩ := createIter_fields a.core k t extra now
  have hin := createIter_visited a.core k t extra now
  unfold startLookup
  split
  · rename_i core q toVisit hm
    rw [hm] at c4 c5 hin
    simp only at c4 c5 hin
    have hq := hin q toVisit rfl
    intro hb hv
    obtain ⟨v1, v3⟩ := visitAll_advV { a with core := core } q toVisit now
    obtain ⟨vc, _⟩ := visitAll_core { a with core := core } q toVisit now
    have hlen := visitAll_out { a with core := core } q toVisit now
    have hb' : a.sock.nextTid + toVisit.length < two32 := by
      have : (visitAll { a with core := core } q toVisit now).1.out.length = a.out.length + toVisit.length := hlen
      simp only at hb
      omega
    have hv0 : VisLog ({ a with core := core } : Actor) := by
      intro p hp
      exact hv p (by rw [← c4]; exact hp)
    have hv1 : VisLog (visitAll { a with core := core } q toVisit now).1 := v1.keep (by simp only at hb; exact hb) hv0
    have hq1 := v3 hb' (by intro x hx; rw [hq] at hx; cases hx)
    intro p hp
    rcases mem_alSet _ _ _ _ hp with rfl | h
    · exact hq1
    · exact hv1 p (by rw [vc]; exact h)
  · rename_i core hm
    rw [hm] at c4 c5
    simp only at c4 c5
    exact (AdvV.of_iter (a := a) (a' := { a with core := core }) (now := now) (Adv.same rfl rfl c4 c5) c4).keep

theorem get_advV (a : Actor) (k : GetKind) (t : Id) (extra : List Addr) (now : Nat) :
    AdvV now a (a.get k t extra now).1 := by
  unfold Actor.get
  split
  · exact AdvV.refl now a
  · exact startLookup_advV a k t extra now

theorem populate_advV (a : Actor) (now : Nat) : AdvV now a (a.populate now) := by
  unfold populate
  split
  · exact AdvV.refl now a
  · exact get_advV a _ _ _ now

theorem visitClosest_advV (a : Actor) (t : Id) (now : Nat) : AdvV now a (a.visitClosest t now) := by
  refine ⟨visitClosest_adv a t now, ?_⟩
  unfold visitClosest
  cases hg : alGet a.core.iter t with
  | none => exact fun _ h => h
  | some q =>
    simp only
    intro hb hv
    obtain ⟨v1, v3⟩ := visitAll_advV a q q.closestCandidates now
    obtain ⟨vc, _⟩ := visitAll_core a q q.closestCandidates now
    have hlen := visitAll_out a q q.closestCandidates now
    have hb' : a.sock.nextTid + q.closestCandidates.length < two32 := by
      have : (visitAll a q q.closestCandidates now).1.out.length = a.out.length + q.closestCandidates.length := hlen
      have hb2 : a.sock.nextTid + ((visitAll a q q.closestCandidates now).1.out.length - a.out.length) < two32 := hb
      omega
    have hv1 : VisLog (visitAll a q q.closestCandidates now).1 := v1.keep hb hv
    have hq1 := v3 hb' (hv (t, q) (mem_of_alGet _ _ _ hg))
    intro p hp
    simp only [vc] at hp
    rcases mem_alSet _ _ _ _ hp with rfl | h
    · exact hq1
    · exact hv1 p (by rw [vc]; exact h)

theorem visitClosest_fold_advV (now : Nat) (l : List (Id × IterQuery)) (b : Actor) :
    AdvV now b (l.foldl (fun (a : Actor) (p : Id × IterQuery) => a.visitClosest p.1 now) b) := by
  induction l generalizing b with
  | nil => exact AdvV.refl now b
  | cons p ps ih => simp only [List.foldl_cons]; exact (visitClosest_advV b p.1 now).trans (ih _)

theorem visitClosestAll_advV (a : Actor) (now : Nat) : AdvV now a (a.visitClosestAll now) :=
  visitClosest_fold_advV now a.core.iter a

/-! ### puts leave the lookups alone -/

theorem startPutOne_advV (now : Nat) (acc : Actor × List (Id × Option PutErr)) (d : Id × List Node) :
    AdvV now acc.1 (startPutOne now acc d).1 := by
  refine AdvV.of_iter (startPutOne_adv now acc d) ?_
  unfold startPutOne
  split
  · rename_i e _
    obtain ⟨c1, _, _⟩ := startPut_core' acc.1 e d.2 now
    split <;> exact c1
  · rfl

theorem startPuts_advV (a : Actor) (now : Nat) (di : List (Id × List Node)) (dp : List (Id × Option PutErr)) :
    AdvV now a (startPuts a now di dp).1 := by
  unfold startPuts
  have : ∀ (l : List (Id × List Node)) (acc : Actor × List (Id × Option PutErr)),
      AdvV now acc.1 (l.foldl (startPutOne now) acc).1 := by
    intro l
    induction l with
    | nil => intro acc; exact AdvV.refl now _
    | cons d ds ih => intro acc; simp only [List.foldl_cons]; exact (startPutOne_advV now acc d).trans (ih _)
  exact this di (a, dp)

theorem putFromCache_advV (a : Actor) (spec : PutSpec) (extra : List Node) (closest : List Node) (now : Nat) :
    AdvV now a (putFromCache a spec extra closest now).1 := by
  refine AdvV.of_iter (putFromCache_adv a spec extra closest now) ?_
  obtain ⟨c1, _, _⟩ := startPut_core' a (newPutEntry spec extra) closest now
  unfold putFromCache
  split
  · exact c1
  · exact c1

theorem putAfterCheck_advV (a : Actor) (spec : PutSpec) (extra : List Node) (now : Nat) :
    AdvV now a (putAfterCheck a spec extra now).1 := by
  obtain ⟨_, _, _, g4, g5, _⟩ := getCached_fields a.core spec.target now
  have hb0 : AdvV now a { a with core := (getCachedClosestNodes a.core spec.target now).1 } :=
    AdvV.of_iter (Adv.same rfl rfl g4 g5) g4
  unfold putAfterCheck
  split
  · exact hb0.trans (putFromCache_advV _ spec extra _ now)
  · simp only [registerPut]
    have hg := get_advV { a with core := (getCachedClosestNodes a.core spec.target now).1 } (GetKind.ofPut spec) spec.target [] now
    have hgA := get_adv { a with core := (getCachedClosestNodes a.core spec.target now).1 } (GetKind.ofPut spec) spec.target [] now
    have hadv : Adv now { a with core := (getCachedClosestNodes a.core spec.target now).1 }
        { (Actor.get { a with core := (getCachedClosestNodes a.core spec.target now).1 } (GetKind.ofPut spec) spec.target [] now).1 with
          core := { (Actor.get { a with core := (getCachedClosestNodes a.core spec.target now).1 } (GetKind.ofPut spec) spec.target [] now).1.core with
            puts := alSet (Actor.get { a with core := (getCachedClosestNodes a.core spec.target now).1 } (GetKind.ofPut spec) spec.target [] now).1.core.puts
              spec.target (newPutEntry spec extra) } } := by
      refine ⟨hgA.out, ?_⟩
      intro hb
      have f := hgA.ok hb
      refine f.recore rfl rfl (fun p' hp' tid ht => f.iter p' hp' tid ht) ?_
      intro p' hp' tid ht
      rcases mem_alSet _ _ _ _ hp' with rfl | h
      · rw [newPutEntry_inflight] at ht; cases ht
      · exact f.puts p' h tid ht
    refine hb0.trans ⟨hadv, ?_⟩
    intro hb hv
    exact hg.keep hb hv

theorem put_advV (a : Actor) (spec : PutSpec) (extra : List Node) (now : Nat) : AdvV now a (a.put spec extra now).1 := by
  obtain ⟨c1, c2⟩ := checkConcurrency_time a.core spec
  have hb0 : AdvV now a { a with core := (checkConcurrency a.core spec).1 } :=
    AdvV.of_iter
      (Adv.quiet rfl rfl (List.Sublist.refl _) (fun p' hp' tid ht => ⟨p', by rw [← c1]; exact hp', ht⟩)
        (fun p' hp' tid ht => ⟨p', c2 p' hp', ht⟩)) c1
  unfold Actor.put
  split
  · exact hb0
  · exact hb0.trans (putAfterCheck_advV _ spec extra now)

theorem events_advV {now : Nat} {a a' : Actor} (ho : a'.out = a.out) (hs : a'.sock = a.sock) (hc : a'.core = a.core) :
    AdvV now a a' := AdvV.of_iter (events_adv ho hs hc) (by rw [hc])

theorem pickup_advV (a : Actor) (env : Env) (msg : Option ApiMsg) : AdvV env.now a (a.pickup env msg) := by
  unfold pickup
  split
  · exact AdvV.refl _ a
  · exact AdvV.refl _ a
  · exact events_advV rfl rfl rfl
  · unfold pickupPut
    split
    · exact (put_advV a _ _ env.now).trans (events_advV rfl rfl rfl)
    · exact (put_advV a _ _ env.now).trans (events_advV rfl rfl rfl)
  · unfold pickupGet
    exact (get_advV a _ _ _ env.now).trans (events_advV rfl rfl rfl)

/-! ### the first half of the tick -/

theorem recvPhase_advV (a : Actor) (now : Nat) (dgram : Option (Message × Addr)) : AdvV now a (a.recvPhase now dgram).1 := by
  obtain ⟨_, h2, _, _⟩ := recvPhase_time a now dgram
  exact AdvV.of_iter (recvPhase_adv a now dgram) (by rw [h2])

theorem sendReply_advV (a : Actor) (src : Addr) (tid : UInt32) (r : Option Reply) (now : Nat) :
    AdvV now a (a.sendReply src tid r) := by
  refine AdvV.of_iter (sendReply_adv a src tid r now) ?_
  unfold sendReply
  split <;> rfl

theorem handleIncomingRequest_advV (a : Actor) (env : Env) (m : Message) (src : Addr) (req : Request) :
    AdvV env.now a (a.handleIncomingRequest env m src req) := by
  obtain ⟨c1, _⟩ := handleRequest_cache a.core env src m.readOnly m.version req
  have c2 := handleRequest_puts a.core env src m.readOnly m.version req
  have hb0 : AdvV env.now a { a with core := (handleRequest a.core env src m.readOnly m.version req).1 } :=
    AdvV.of_iter (Adv.same rfl rfl c1 c2) c1
  unfold handleIncomingRequest
  split
  · exact hb0.trans ((sendReply_advV _ src m.tid _ env.now).trans (populate_advV _ env.now))
  · exact hb0.trans (sendReply_advV _ src m.tid _ env.now)

theorem absorb_visited (q : IterQuery) (now : Nat) (src : Addr) (m : Message) : (absorb q now src m).visited = q.visited := by
  have h1 : ∀ (ns : List Node) (q : IterQuery), (addCandidates q ns now).visited = q.visited := by
    intro ns
    unfold addCandidates
    induction ns with
    | nil => intro q; rfl
    | cons n ns ih => intro q; simp only [List.foldl_cons]; rw [ih]
  have h2 : (absorbNodes q now m).visited = q.visited := by
    unfold absorbNodes
    split
    · split
      · exact h1 _ _
      · rfl
    · rfl
  have h3 : ∀ q : IterQuery, (absorbToken q now src m).visited = q.visited := by
    intro q
    unfold absorbToken
    split
    · split <;> rfl
    · rfl
  have h4 : ∀ q : IterQuery, (absorbVote q m).visited = q.visited := by
    intro q
    unfold absorbVote
    split
    · unfold IterQuery.addVote; rfl
    · rfl
  unfold absorb
  rw [h4, h3, h2]

theorem lookupStep_visited (q : IterQuery) (env : Env) (src : Addr) (m : Message) :
    (lookupStep q env src m).1.visited = q.visited := by
  unfold lookupStep
  split
  · exact absorb_visited q env.now src m
  · exact absorb_visited q env.now src m

theorem handleResponse_vis (c : Core) (env : Env) (src : Addr) (m : Message) :
    ∀ p' ∈ (handleResponse c env src m).1.iter, ∃ p ∈ c.iter, p.2.request = p'.2.request ∧ ∀ to ∈ p'.2.visited, to ∈ p.2.visited := by
  unfold handleResponse
  split
  · exact fun p' h => ⟨p', h, rfl, fun _ h => h⟩
  · split
    · exact fun p' h => ⟨p', h, rfl, fun _ h => h⟩
    · split
      · rename_i target q hf
        have hmem : (target, q) ∈ c.iter := List.mem_of_find?_eq_some hf
        have key : ∀ p' ∈ alSet c.iter target (lookupStep q env src m).1,
            ∃ p ∈ c.iter, p.2.request = p'.2.request ∧ ∀ to ∈ p'.2.visited, to ∈ p.2.visited := by
          intro p' hp'
          rcases mem_alSet _ _ _ _ hp' with rfl | h
          · exact ⟨_, hmem, (lookupStep_request q env src m).symm, fun to hto => by rw [lookupStep_visited] at hto; exact hto⟩
          · exact ⟨p', h, rfl, fun _ h => h⟩
        split
        · obtain ⟨r1, _⟩ := addResponder_time { c with iter := alSet c.iter target (lookupStep q env src m).1 } env.now src m
          rw [r1]
          exact key
        · exact key
      · split
        · obtain ⟨r1, _⟩ := addResponder_time c env.now src m
          rw [r1]
          exact fun p' h => ⟨p', h, rfl, fun _ h => h⟩
        · exact fun p' h => ⟨p', h, rfl, fun _ h => h⟩

theorem handleIncoming_advV (a : Actor) (env : Env) (handed : Option (Message × Addr)) :
    AdvV env.now a (a.handleIncoming env handed).1 := by
  refine ⟨handleIncoming_adv a env handed, ?_⟩
  unfold handleIncoming
  split
  · exact fun _ h => h
  · rename_i m src
    split
    · exact (handleIncomingRequest_advV a env m src _).keep
    · obtain ⟨t1, t2⟩ := handleResponse_time a.core env src m
      exact (AdvV.carry (a := a) (a' := { a with core := (handleResponse a.core env src m).1 }) (now := env.now)
        (Adv.quiet rfl rfl (List.Sublist.refl _) t1 t2) (handleResponse_vis a.core env src m)).keep

theorem forwardValue_advV (a : Actor) (v : Option (Id × Value)) (now : Nat) : AdvV now a (a.forwardValue v) := by
  unfold forwardValue
  split
  · split
    · exact events_advV rfl rfl rfl
    · exact AdvV.refl now a
  · exact AdvV.refl now a

theorem preDone_advV (a : Actor) (env : Env) (dgram : Option (Message × Addr)) : AdvV env.now a (a.preDone env dgram) := by
  unfold preDone
  exact (recvPhase_advV a env.now dgram).trans ((handleIncoming_advV _ env _).trans (forwardValue_advV _ _ env.now))

/-! ### the second half, maintenance, the whole iteration -/

theorem pingOpt_advV (a : Actor) (to : Option Addr) (now : Nat) : AdvV now a (a.pingOpt to now) := by
  unfold pingOpt
  split
  · exact ping_advV a _ now
  · exact AdvV.refl now a

theorem finishTick_rest_advV (a : Actor) (now : Nat) (dp0 : List (Id × Option PutErr)) :
    AdvV now (startPuts a now (a.doneLookups now) dp0).1 (finishTick a now dp0) := by
  unfold finishTick
  generalize startPuts a now (a.doneLookups now) dp0 = sp
  obtain ⟨c1, c2⟩ := cleanupDone_time sp.1.core (a.doneLookups now) sp.2
  generalize cleanupDone sp.1.core (a.doneLookups now) sp.2 = cd at c1 c2 ⊢
  have h2 : AdvV now sp.1 { sp.1 with core := cd.1 } :=
    AdvV.carry
      (Adv.quiet rfl rfl (List.Sublist.refl _) (fun p' hp' tid ht => ⟨p', c1 p' hp', ht⟩)
        (fun p' hp' tid ht => ⟨p', c2 p' hp', ht⟩))
      (fun p' hp' => ⟨p', c1 p' hp', rfl, fun _ h => h⟩)
  have h3 := pingOpt_advV { sp.1 with core := cd.1 } cd.2 now
  obtain ⟨g1, g2, g3⟩ := releaseGetCallers_time (pingOpt { sp.1 with core := cd.1 } cd.2 now) (a.doneLookups now)
  obtain ⟨p1, p2, p3⟩ := releasePutCallers_time
    (releaseGetCallers (pingOpt { sp.1 with core := cd.1 } cd.2 now) (a.doneLookups now)) sp.2
  exact h2.trans (h3.trans ((events_advV g1 g2 g3).trans (events_advV p1 p2 p3)))

theorem finishTick_advV (a : Actor) (now : Nat) (dp0 : List (Id × Option PutErr)) : AdvV now a (finishTick a now dp0) :=
  (startPuts_advV a now (a.doneLookups now) dp0).trans (finishTick_rest_advV a now dp0)

theorem afterRecv_advV (a : Actor) (env : Env) (dgram : Option (Message × Addr)) : AdvV env.now a (a.afterRecv env dgram) := by
  unfold afterRecv
  exact (preDone_advV a env dgram).trans ((visitClosestAll_advV _ env.now).trans (finishTick_advV _ env.now _))

theorem pingTable_advV (a : Actor) (now : Nat) : AdvV now a (a.pingTable now) := by
  unfold pingTable
  split
  · have hfold : ∀ (l : List Addr) (b : Actor), AdvV now b (l.foldl (fun a addr => a.ping addr now) b) := by
      intro l
      induction l with
      | nil => intro b; exact AdvV.refl now b
      | cons x xs ih => intro b; simp only [List.foldl_cons]; exact (ping_advV b x now).trans (ih _)
    have h0 : AdvV now a { a with core := (pingRound { a.core with lastPing := now } now).1 } :=
      AdvV.of_iter (Adv.same rfl rfl rfl rfl) rfl
    exact h0.trans (hfold _ _)
  · exact AdvV.refl now a

theorem bootstrapIfEmpty_advV (a : Actor) (now : Nat) : AdvV now a (a.bootstrapIfEmpty now) := by
  unfold bootstrapIfEmpty
  split
  · exact populate_advV a now
  · exact AdvV.refl now a

theorem refreshTable_advV (a : Actor) (now : Nat) : AdvV now a (a.refreshTable now) := by
  unfold refreshTable
  split
  · have h0 : AdvV now a (adaptiveSwitch { a with core := { a.core with lastRefresh := now } }) := by
      unfold adaptiveSwitch
      split
      · exact AdvV.of_iter (Adv.same rfl rfl rfl rfl) rfl
      · exact AdvV.of_iter (Adv.same rfl rfl rfl rfl) rfl
    exact h0.trans (populate_advV _ now)
  · exact AdvV.refl now a

theorem maintenance_advV (a : Actor) (now : Nat) : AdvV now a (a.maintenance now) := by
  unfold maintenance
  exact (bootstrapIfEmpty_advV a now).trans ((refreshTable_advV _ now).trans (pingTable_advV _ now))

theorem cleanup_advV (a : Actor) (now : Nat) : AdvV now a { a with sock := a.sock.cleanup now } :=
  AdvV.of_iter (cleanup_adv a now) rfl

/-- **One iteration of the actor loop keeps the invariant** (while the id counter does not wrap). -/
theorem step_advV (a : Actor) (env : Env) (dgram : Option (Message × Addr)) (msg : Option ApiMsg) :
    AdvV env.now a (a.step env dgram msg) := by
  unfold Actor.step
  exact (afterRecv_advV a env dgram).trans ((pickup_advV _ env msg).trans ((maintenance_advV _ env.now).trans (cleanup_advV _ env.now)))

theorem step_visLog (a : Actor) (h : VisLog a) (env : Env) (dgram : Option (Message × Addr)) (msg : Option ApiMsg)
    (hb : a.sock.nextTid + ((a.step env dgram msg).out.length - a.out.length) < two32) :
    VisLog (a.step env dgram msg) := (step_advV a env dgram msg).keep hb h

end Mainline
