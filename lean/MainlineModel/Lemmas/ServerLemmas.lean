/-
  Frame lemmas for the server model: which fields each store operation touches.
-/
import MainlineModel.Model.Server
import MainlineModel.Lemmas.LruLemmas
namespace Mainline
namespace Server

@[simp] theorem addPeer_tokens (s : Server) (ih pid : Id) (a : Addr) : (s.addPeer ih pid a).tokens = s.tokens := by
  unfold addPeer; split <;> rfl
@[simp] theorem addPeer_mutable (s : Server) (ih pid : Id) (a : Addr) : (s.addPeer ih pid a).mutable = s.mutable := by
  unfold addPeer; split <;> rfl
@[simp] theorem addPeer_immutable (s : Server) (ih pid : Id) (a : Addr) : (s.addPeer ih pid a).immutable = s.immutable := by
  unfold addPeer; split <;> rfl
@[simp] theorem addPeer_signedPeers (s : Server) (ih pid : Id) (a : Addr) : (s.addPeer ih pid a).signedPeers = s.signedPeers := by
  unfold addPeer; split <;> rfl
@[simp] theorem addPeer_rng (s : Server) (ih pid : Id) (a : Addr) : (s.addPeer ih pid a).rng = s.rng := by
  unfold addPeer; split <;> rfl
@[simp] theorem addPeer_maxPeers (s : Server) (ih pid : Id) (a : Addr) : (s.addPeer ih pid a).maxPeers = s.maxPeers := by
  unfold addPeer; split <;> rfl

@[simp] theorem addSignedPeer_tokens (s : Server) (ih : Id) (p : SignedPeer) : (s.addSignedPeer ih p).tokens = s.tokens := by
  unfold addSignedPeer; split <;> rfl
@[simp] theorem addSignedPeer_mutable (s : Server) (ih : Id) (p : SignedPeer) : (s.addSignedPeer ih p).mutable = s.mutable := by
  unfold addSignedPeer; split <;> rfl
@[simp] theorem addSignedPeer_immutable (s : Server) (ih : Id) (p : SignedPeer) : (s.addSignedPeer ih p).immutable = s.immutable := by
  unfold addSignedPeer; split <;> rfl
@[simp] theorem addSignedPeer_peers (s : Server) (ih : Id) (p : SignedPeer) : (s.addSignedPeer ih p).peers = s.peers := by
  unfold addSignedPeer; split <;> rfl
@[simp] theorem addSignedPeer_rng (s : Server) (ih : Id) (p : SignedPeer) : (s.addSignedPeer ih p).rng = s.rng := by
  unfold addSignedPeer; split <;> rfl
@[simp] theorem addSignedPeer_maxPeers (s : Server) (ih : Id) (p : SignedPeer) : (s.addSignedPeer ih p).maxPeers = s.maxPeers := by
  unfold addSignedPeer; split <;> rfl

theorem putMutableStore_tokens (s : Server) (verify : Verify) (rt : RoutingTable) (target : Id)
    (v k : Bytes) (seq : Int) (sig : Bytes) (salt : Option Bytes) (cas : Option Int) :
    (s.putMutableStore verify rt target v k seq sig salt cas).1.tokens = s.tokens := by
  unfold putMutableStore
  split
  · rfl
  · split
    · rfl
    · split <;> rfl

/-- no put kind touches the token generator -/
theorem handlePut_tokens (s : Server) (verify : Verify) (rt : RoutingTable) (src : Addr) (wall : Nat)
    (rid : Id) (token : Bytes) (spec : PutSpec) :
    (s.handlePut verify rt src wall rid token spec).1.tokens = s.tokens := by
  cases spec with
  | announcePeer ih port implied => simp only [handlePut]; split <;> simp
  | announceSignedPeer ih t k sig =>
    simp only [handlePut]
    split
    · rfl
    · split
      · rfl
      · split
        · rfl
        · simp
  | putImmutable target v =>
    simp only [handlePut]
    split
    · rfl
    · split
      · rfl
      · split <;> rfl
  | putMutable target v k seq sig salt cas =>
    simp only [handlePut]
    split
    · rfl
    · split
      · rfl
      · split
        · rfl
        · split
          · rfl
          · exact putMutableStore_tokens _ _ _ _ _ _ _ _ _ _

theorem handleGetMutable_tokens (s : Server) (rt : RoutingTable) (src : Addr) (t : Id) (seq : Option Int) :
    (s.handleGetMutable rt src t seq).1.tokens = s.tokens := rfl

end Server
end Mainline
