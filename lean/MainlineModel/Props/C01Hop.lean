/-
  C01, one hop end to end: a request of a running lookup that reaches a holder brings the value back to
  the callers.

  `C01Served` (the holder answers, for every node state) and `C01Yield` (the reader hands an authentic
  answer to its callers, for every node state) are composed here over the datagrams themselves: the
  request `x` as the reader sent it is delivered to the holder; whatever the holder's iteration puts on
  the wire for the reader is delivered back; the reader's iteration then emits the value event.  What
  the reader must satisfy when the answer arrives is bookkeeping only (`Outstanding`): the transaction
  id is still in its request table for the holder's address, and it belongs to the lookup of the target
  under which the caller is parked.
-/
import MainlineModel.Props.C01Served
import MainlineModel.Props.C01Yield
import MainlineModel.Props.C09
namespace Mainline.Props.C01Hop
open Mainline Mainline.Actor

/-- the reader has an outstanding request `tid`, sent to `holder`, that belongs to its lookup of
    `target`, and caller `c` waits for immutable values under that target -/
structure Outstanding (b : Actor) (now : Nat) (tid : UInt32) (holder : Addr) (target : Id) (c : Nat) : Prop where
  inv : b.sock.Inv
  req : ∃ r ∈ b.sock.requests, C09.Answers r tid.toNat holder ∧ b.sock.live r now = true
  noPut : b.core.puts.find? (fun p => p.2.q.isInflight tid.toNat) = none
  owner : ∃ q, b.core.iter.find? (fun p => p.2.isInflight tid.toNat) = some (target, q) ∧ q.target = target
  parked : ∃ senders, alGet b.getSenders target = some senders ∧ Sender.immutable c ∈ senders

/-- **One hop, immutable values.**  A holder in server mode holds `v` under `target`.  The reader's
    `get` request `x` for `target` reaches it from the reader's address; the holder's iteration sends an
    answer `y` to that address; when `y` reaches the reader while the request is outstanding, the
    reader's iteration hands `v` to the caller.  Whatever else the two iterations do. -/
theorem round_trip_immutable (a b : Actor) (holder reader : Addr) (x : Message) (rid target : Id)
    (salt : Option Bytes) (v : Bytes) (c : Nat)
    (hsA : a.core.serverMode = true) (hsA' : a.sockServerMode = true)
    (hheld : a.core.server.immutable.find? target = some v)
    (hallow : a.core.allow ⟨rid, .getValue target none salt⟩ reader = true)
    (hreader : reader.port ≠ 0) (hholder : holder.port ≠ 0)
    (hx : x.mtype = .request ⟨rid, .getValue target none salt⟩)
    (hhash : hashImmutable v = target.bytes)
    (envA envB : Env) (msgA msgB : Option ApiMsg)
    (hout : Outstanding b envB.now x.tid holder target c) :
    ∃ l, (a.step envA (some (x, reader)) msgA).out = a.out ++ l ∧ ∃ y ∈ l, y.1 = reader ∧
      Event.value c (.immutable v) ∈ (b.step envB (some (y.2, holder)) msgB).events := by
  obtain ⟨i, tok, ns, l, hl, y, hy, hy1, hy2, hy3, hy4⟩ :=
    C01Served.node_serves_held_immutable a hsA envA x reader rid target salt v hx hreader hallow hheld msgA
  refine ⟨l, hl, y, hy, hy1, ?_⟩
  obtain ⟨q, hq, htq⟩ := hout.owner
  obtain ⟨senders, hs, hc⟩ := hout.parked
  have hk : ∀ r, y.2.mtype ≠ .request r := by intro r h; rw [hy3] at h; cases h
  have hacc : (b.recvPhase envB.now (some (y.2, holder))).2 = some (y.2, holder) := by
    rw [C09.handed_up_iff b hout.inv envB.now y.2 holder hk, hy2]
    exact ⟨hholder, hout.req⟩
  have hro : y.2.readOnly = false := by rw [hy4, hsA']; rfl
  exact C01Yield.node_yields_served_immutable b envB y.2 holder target q senders c i tok ns v msgB hacc hro hy3
    (by rw [hy2]; exact hout.noPut) (by rw [hy2]; exact hq) htq hhash hs hc

end Mainline.Props.C01Hop
