/-
  C01, one hop end to end: a request of a running lookup that reaches a holder brings the value back to
  the callers.

  `C01Served` (the holder answers, for every node state) and `C01Yield` (the reader hands an authentic
  answer to its callers, for every node state) are composed here over the datagrams themselves: the
  request `x` as the reader sent it is delivered to the holder; whatever the holder's iteration puts on
  the wire for the reader is delivered back; the reader's iteration then emits the value event.  What
  the reader must satisfy when the answer arrives is bookkeeping only (`Outstanding`): the transaction
  id is still in its request table for the holder's address, and it belongs to the lookup of the target
  under which the caller is parked.
-/
import MainlineModel.Props.C01Served
import MainlineModel.Props.C01Yield
import MainlineModel.Props.C09
import MainlineModel.Props.C09Own
namespace Mainline.Props.C01Hop
open Mainline Mainline.Actor

/-- the reader has an outstanding request `tid`, sent to `holder`, that belongs to its lookup of
    `target`, and caller `c` waits for immutable values under that target -/
structure Outstanding (b : Actor) (now : Nat) (tid : UInt32) (holder : Addr) (target : Id) (c : Nat) : Prop where
  inv : b.sock.Inv
  req : ∃ r ∈ b.sock.requests, C09.Answers r tid.toNat holder ∧ b.sock.live r now = true
  noPut : b.core.puts.find? (fun p => p.2.q.isInflight tid.toNat) = none
  owner : ∃ q, b.core.iter.find? (fun p => p.2.isInflight tid.toNat) = some (target, q) ∧ q.target = target
  parked : ∃ senders, alGet b.getSenders target = some senders ∧ Sender.immutable c ∈ senders

/-- **One hop, immutable values.**  A holder in server mode holds `v` under `target`.  The reader's
    `get` request `x` for `target` reaches it from the reader's address; the holder's iteration sends an
    answer `y` to that address; when `y` reaches the reader while the request is outstanding, the
    reader's iteration hands `v` to the caller.  Whatever else the two iterations do. -/
theorem round_trip_immutable (a b : Actor) (holder reader : Addr) (x : Message) (rid target : Id)
    (salt : Option Bytes) (v : Bytes) (c : Nat)
    (hsA : a.core.serverMode = true) (hsA' : a.sockServerMode = true)
    (hheld : a.core.server.immutable.find? target = some v)
    (hallow : a.core.allow ⟨rid, .getValue target none salt⟩ reader = true)
    (hreader : reader.port ≠ 0) (hholder : holder.port ≠ 0)
    (hx : x.mtype = .request ⟨rid, .getValue target none salt⟩)
    (hhash : hashImmutable v = target.bytes)
    (envA envB : Env) (msgA msgB : Option ApiMsg)
    (hout : Outstanding b envB.now x.tid holder target c) :
    ∃ l, (a.step envA (some (x, reader)) msgA).out = a.out ++ l ∧ ∃ y ∈ l, y.1 = reader ∧
      Event.value c (.immutable v) ∈ (b.step envB (some (y.2, holder)) msgB).events := by
  obtain ⟨i, tok, ns, l, hl, y, hy, hy1, hy2, hy3, hy4⟩ :=
    C01Served.node_serves_held_immutable a hsA envA x reader rid target salt v hx hreader hallow hheld msgA
  refine ⟨l, hl, y, hy, hy1, ?_⟩
  obtain ⟨q, hq, htq⟩ := hout.owner
  obtain ⟨senders, hs, hc⟩ := hout.parked
  have hk : ∀ r, y.2.mtype ≠ .request r := by intro r h; rw [hy3] at h; cases h
  have hacc : (b.recvPhase envB.now (some (y.2, holder))).2 = some (y.2, holder) := by
    rw [C09.handed_up_iff b hout.inv envB.now y.2 holder hk, hy2]
    exact ⟨hholder, hout.req⟩
  have hro : y.2.readOnly = false := by rw [hy4, hsA']; rfl
  exact C01Yield.node_yields_served_immutable b envB y.2 holder target q senders c i tok ns v msgB hacc hro hy3
    (by rw [hy2]; exact hout.noPut) (by rw [hy2]; exact hq) htq hhash hs hc


theorem compareAddr_self (x : Addr) : compareAddr x x = true := by
  unfold compareAddr
  simp

/-- **Bookkeeping is an invariant.**  In a reader state that satisfies the attribution invariant
    (every reachable state does, `C09Own.reachable_attr`), a live entry `r` of the request table whose
    id the lookup registered under `target` lists is `Outstanding`, and the log holds the request
    datagram `x` that went to `r.to`: exactly the lookup's request. -/
theorem outstanding_of_state (b : Actor) (now0 : Nat) (hord : SockOrd b.sock now0) (hat : Attr b)
    (htg : C09Own.Targeted b.core.iter) (hk : C06Time.IterKeys b.core.iter)
    (target : Id) (q : IterQuery) (hq : alGet b.core.iter target = some q)
    (r : InflightReq) (hr : r ∈ b.sock.requests) (hin : r.tid ∈ q.inflight) (now : Nat) (hlive : b.sock.live r now = true)
    (senders : List Sender) (c : Nat) (hs : alGet b.getSenders target = some senders) (hc : Sender.immutable c ∈ senders) :
    ∃ x : Message, (r.to, x) ∈ b.out ∧ x.mtype = .request ⟨q.requesterId, q.kind.request target⟩ ∧
      Outstanding b now x.tid r.to target c := by
  have hmem : (target, q) ∈ b.core.iter := mem_of_alGet _ _ _ hq
  obtain ⟨x, hx, hxt, hxm⟩ := C09Own.sock_entry hat (target, q) hmem r hr hin
  have htq : q.target = target := htg (target, q) hmem
  obtain ⟨o1, o2⟩ := C09Own.owner_found hat htg hk target q hq r.tid hin
  refine ⟨x, hx, by rw [hxm]; simp only [IterQuery.request, htq], ?_⟩
  exact ⟨hord.inv, ⟨r, hr, ⟨hxt.symm, compareAddr_self r.to⟩, hlive⟩, by rw [hxt]; exact o1,
    ⟨q, by rw [hxt]; exact o2, htq⟩, ⟨senders, hs, hc⟩⟩

/-- **One hop, from the states alone.**  Reader `b`: any state satisfying the invariants of reachable
    states, with a `get` lookup of `target` registered, a caller parked on it, and a request of that
    lookup still live in the request table, addressed to `r.to`.  Holder `a`: any state in server mode
    holding `v` under `target`.  Then the log of the reader holds the request datagram `x` for
    `r.to`; when `x` is delivered to the holder (from `reader`, the reader's address), the holder's
    iteration sends an answer `y` to `reader`; and when `y` is delivered to the reader from `r.to`
    while the request is live, the reader's iteration hands `v` to the caller. -/
theorem lookup_request_brings_value (a b : Actor) (reader : Addr) (now0 : Nat)
    (hord : SockOrd b.sock now0) (hat : Attr b) (htg : C09Own.Targeted b.core.iter) (hk : C06Time.IterKeys b.core.iter)
    (target : Id) (q : IterQuery) (salt : Option Bytes) (hq : alGet b.core.iter target = some q)
    (hkind : q.kind = .getValue none salt)
    (r : InflightReq) (hr : r ∈ b.sock.requests) (hin : r.tid ∈ q.inflight)
    (senders : List Sender) (c : Nat) (hs : alGet b.getSenders target = some senders) (hc : Sender.immutable c ∈ senders)
    (v : Bytes) (hhash : hashImmutable v = target.bytes)
    (hsA : a.core.serverMode = true) (hsA' : a.sockServerMode = true)
    (hheld : a.core.server.immutable.find? target = some v)
    (hallow : a.core.allow ⟨q.requesterId, .getValue target none salt⟩ reader = true)
    (hreader : reader.port ≠ 0) (hholder : r.to.port ≠ 0)
    (envA envB : Env) (msgA msgB : Option ApiMsg) (hlive : b.sock.live r envB.now = true) :
    ∃ x : Message, (r.to, x) ∈ b.out ∧ x.mtype = .request ⟨q.requesterId, .getValue target none salt⟩ ∧
      ∃ l, (a.step envA (some (x, reader)) msgA).out = a.out ++ l ∧ ∃ y ∈ l, y.1 = reader ∧
        Event.value c (.immutable v) ∈ (b.step envB (some (y.2, r.to)) msgB).events := by
  obtain ⟨x, hx, hxm, hout⟩ := outstanding_of_state b now0 hord hat htg hk target q hq r hr hin envB.now hlive senders c hs hc
  have hxm' : x.mtype = .request ⟨q.requesterId, .getValue target none salt⟩ := by
    rw [hxm, hkind]; rfl
  exact ⟨x, hx, hxm', round_trip_immutable a b r.to reader x q.requesterId target salt v c hsA hsA' hheld hallow hreader
    hholder hxm' hhash envA envB msgA msgB hout⟩


/-- **One hop, every reachable reader.**  The reader is any node after any run from its creation (any
    datagrams, any API calls; clock monotone, id counter not wrapped — `RunOk`); the holder any state in
    server mode that holds `v`.  If at the end of the run the reader's lookup of `hash v` still lists a
    live request, the request datagram is in the reader's log, and delivering it to the holder and the
    holder's answer back to the reader hands `v` to every caller parked for immutable values under
    that target. -/
theorem reachable_request_brings_value (T : Nat) (cfg : NodeConfig) (seed : UInt64) (t0 : Nat)
    (hb0 : cfg.firstTid % two32 + (Actor.create cfg seed t0).out.length < two32)
    (ins : List Actor.StepIn) (hok : C06Time.RunOk T (Actor.create cfg seed t0) t0 ins)
    (a : Actor) (reader : Addr)
    (target : Id) (q : IterQuery) (salt : Option Bytes)
    (hq : alGet (Actor.runSteps (Actor.create cfg seed t0) ins).core.iter target = some q)
    (hkind : q.kind = .getValue none salt)
    (r : InflightReq) (hr : r ∈ (Actor.runSteps (Actor.create cfg seed t0) ins).sock.requests) (hin : r.tid ∈ q.inflight)
    (senders : List Sender) (c : Nat)
    (hs : alGet (Actor.runSteps (Actor.create cfg seed t0) ins).getSenders target = some senders)
    (hc : Sender.immutable c ∈ senders)
    (v : Bytes) (hhash : hashImmutable v = target.bytes)
    (hsA : a.core.serverMode = true) (hsA' : a.sockServerMode = true)
    (hheld : a.core.server.immutable.find? target = some v)
    (hallow : a.core.allow ⟨q.requesterId, .getValue target none salt⟩ reader = true)
    (hreader : reader.port ≠ 0) (hholder : r.to.port ≠ 0)
    (envA envB : Env) (msgA msgB : Option ApiMsg)
    (hlive : (Actor.runSteps (Actor.create cfg seed t0) ins).sock.live r envB.now = true) :
    ∃ x : Message, (r.to, x) ∈ (Actor.runSteps (Actor.create cfg seed t0) ins).out ∧
      x.mtype = .request ⟨q.requesterId, .getValue target none salt⟩ ∧
      ∃ l, (a.step envA (some (x, reader)) msgA).out = a.out ++ l ∧ ∃ y ∈ l, y.1 = reader ∧
        Event.value c (.immutable v) ∈
          ((Actor.runSteps (Actor.create cfg seed t0) ins).step envB (some (y.2, r.to)) msgB).events := by
  have hready := C06Time.reachable_ready T cfg seed t0 hb0 ins hok
  exact lookup_request_brings_value a _ reader _ hready.sock.ord (C09Own.reachable_attr T cfg seed t0 hb0 ins hok)
    (C09Own.reachable_targeted cfg seed t0 ins) hready.keys target q salt hq hkind r hr hin senders c hs hc v hhash
    hsA hsA' hheld hallow hreader hholder envA envB msgA msgB hlive

end Mainline.Props.C01Hop
