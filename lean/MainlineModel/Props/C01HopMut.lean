/-
  C01, one hop end to end, mutable items.

  The mutable counterpart of `C01Hop.round_trip_immutable`, and one step further: the reader ACCEPTS the
  holder's answer because of what the holder's own invariants guarantee about everything it stores — the
  item verifies under its key over (seq, value, salt) and sits under the hash of key and salt
  (`C03.MutInv`, every reachable state: `StoreLift.reachable_stores_valid`), key and signature have their
  array lengths (`C01.SrvOk`, every reachable state: `C01Node.reachable_srvOk`).  So: what any
  reachable holder serves for a target, any reader whose lookup asked for that target under the item's salt
  hands to its callers.  Both nodes use the same signature check.
-/
import MainlineModel.Props.C01Hop
import MainlineModel.Props.C01Node
import MainlineModel.Props.C03
namespace Mainline.Props.C01HopMut
open Mainline Mainline.Actor Mainline.Props.C01Hop

/-- **An authentic mutable answer to a running lookup is handed to its callers.** -/
theorem node_yields_served_mutable (a : Actor) (env : Env) (m : Message) (src : Addr) (target : Id) (q : IterQuery)
    (senders : List Sender) (c : Nat) (i : Id) (tok : Bytes) (ns : Option (List Node)) (v k : Bytes) (seq : Int) (sig : Bytes)
    (item : MItem) (msg : Option ApiMsg)
    (hacc : (a.recvPhase env.now (some (m, src))).2 = some (m, src))
    (hro : m.readOnly = false)
    (hm : m.mtype = .response (.getMutable i tok ns v k seq sig))
    (hput : a.core.puts.find? (fun p => p.2.q.isInflight m.tid.toNat) = none)
    (hq : a.core.iter.find? (fun p => p.2.isInflight m.tid.toNat) = some (target, q))
    (htq : q.target = target)
    (hitem : mutableFromMessage env.verify target k v seq sig q.salt = some item)
    (hs : alGet a.getSenders target = some senders) (hc : Sender.mutable c ∈ senders) :
    Event.value c (.mutable item) ∈ (a.step env (some (m, src)) msg).events := by
  obtain ⟨l, hl⟩ := C01Yield.rest_prefix a env (some (m, src)) msg
  rw [hl]
  apply List.mem_append_left
  unfold preDone
  obtain ⟨rs, _, rc⟩ := C01Yield.recvPhase_senders a env.now (some (m, src))
  rw [hacc]
  generalize (a.recvPhase env.now (some (m, src))).1 = a1 at rs rc
  have hval : (lookupStep q env src m).2.1 = some (.mutable item) := by
    unfold lookupStep
    have hqv : queryValue env.verify (absorb q env.now src m) m.mtype = (some (.mutable item), true) := by
      rw [hm]
      obtain ⟨ht, hk, _⟩ := C02.absorb_fields q env.now src m
      have hsalt : (absorb q env.now src m).salt = q.salt := by unfold IterQuery.salt; rw [hk]
      simp [queryValue, ht, htq, hsalt, hitem]
    rw [hqv]
  have hresp : (handleResponse a1.core env src m).2 = some (target, .mutable item) := by
    unfold handleResponse
    rw [rc]
    simp only [hro, Bool.false_eq_true, ite_false, hput, hq]
    split <;> simp [hval]
  unfold handleIncoming
  simp only [hm]
  unfold forwardValue
  simp only [hresp]
  have hsend : alGet a1.getSenders target = some senders := by rw [rs]; exact hs
  simp only [hsend]
  apply List.mem_append_right
  rw [List.mem_filterMap]
  exact ⟨.mutable c, hc, rfl⟩

/-- the reader has an outstanding request of its lookup of `target`, and caller `c` waits for mutable items -/
structure OutstandingMut (b : Actor) (now : Nat) (tid : UInt32) (holder : Addr) (target : Id) (salt : Option Bytes) (c : Nat) : Prop where
  inv : b.sock.Inv
  req : ∃ r ∈ b.sock.requests, C09.Answers r tid.toNat holder ∧ b.sock.live r now = true
  noPut : b.core.puts.find? (fun p => p.2.q.isInflight tid.toNat) = none
  owner : ∃ q, b.core.iter.find? (fun p => p.2.isInflight tid.toNat) = some (target, q) ∧ q.target = target ∧ q.salt = salt
  parked : ∃ senders, alGet b.getSenders target = some senders ∧ Sender.mutable c ∈ senders

/-- **One hop, mutable items.**  The holder is in server mode, holds `item` under `target` (and no immutable
    value there) and satisfies the store invariants every reachable node satisfies; the reader's `get`
    request `x` for `target` (no seq filter, the item's salt) reaches it; the holder's answer `y` reaches the
    reader while the request is outstanding: the reader hands the item — key, seq, value, signature as stored —
    to the caller. -/
theorem round_trip_mutable (a b : Actor) (holder reader : Addr) (x : Message) (rid target : Id) (item : StoredItem) (c : Nat)
    (verify : Verify)
    (hsA : a.core.serverMode = true) (hsA' : a.sockServerMode = true)
    (hheld : a.core.server.mutable.find? target = some item)
    (hno : a.core.server.immutable.find? target = none)
    (hvalid : C03.MutInv verify a.core.server) (hok : C01.SrvOk a.core.server)
    (hallow : a.core.allow ⟨rid, .getValue target none item.salt⟩ reader = true)
    (hreader : reader.port ≠ 0) (hholder : holder.port ≠ 0)
    (hx : x.mtype = .request ⟨rid, .getValue target none item.salt⟩)
    (envA envB : Env) (hverify : envB.verify = verify) (msgA msgB : Option ApiMsg)
    (hout : OutstandingMut b envB.now x.tid holder target item.salt c) :
    ∃ l, (a.step envA (some (x, reader)) msgA).out = a.out ++ l ∧ ∃ y ∈ l, y.1 = reader ∧
      Event.value c (.mutable { target := target, key := item.key, value := item.value, seq := item.seq,
                                sig := item.sig, salt := item.salt }) ∈
        (b.step envB (some (y.2, holder)) msgB).events := by
  obtain ⟨rt, tok, l, hl, y, hy, hy1, hy2, hy3, hy4⟩ :=
    C01Served.node_serves_held_mutable a hsA envA x reader rid target none item.salt item hx hreader hallow (fun _ => hno) hheld msgA
  refine ⟨l, hl, y, hy, hy1, ?_⟩
  obtain ⟨q, hq, htq, hsalt⟩ := hout.owner
  obtain ⟨senders, hs, hc⟩ := hout.parked
  have hresp : y.2.mtype = .response (.getMutable rt.id tok (some (rt.closest target)) item.value item.key item.seq item.sig) := by
    rw [hy3]; rfl
  have hk : ∀ r, y.2.mtype ≠ .request r := by intro r h; rw [hresp] at h; cases h
  have hacc : (b.recvPhase envB.now (some (y.2, holder))).2 = some (y.2, holder) := by
    rw [C09.handed_up_iff b hout.inv envB.now y.2 holder hk, hy2]
    exact ⟨hholder, hout.req⟩
  have hro : y.2.readOnly = false := by rw [hy4, hsA']; rfl
  -- the holder's invariants make the answer acceptable
  have hmem := Lru.find?_mem a.core.server.mutable target item hheld
  obtain ⟨v1, v2, _, _⟩ := hvalid (target, item) hmem
  obtain ⟨o1, o2, _⟩ := hok.items (target, item) hmem
  have hitem : mutableFromMessage envB.verify target item.key item.value item.seq item.sig q.salt =
      some { target := target, key := item.key, value := item.value, seq := item.seq, sig := item.sig, salt := item.salt } := by
    unfold mutableFromMessage
    rw [hsalt, hverify]
    simp only at v1 v2
    simp [o1, o2, v1, v2]
  exact node_yields_served_mutable b envB y.2 holder target q senders c _ tok _ item.value item.key item.seq item.sig _ msgB
    hacc hro hresp (by rw [hy2]; exact hout.noPut) (by rw [hy2]; exact hq) htq hitem hs hc

end Mainline.Props.C01HopMut
