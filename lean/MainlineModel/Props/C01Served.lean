/-
  C01, reader's side of the chain, for the whole node — what a server holds it serves.

  * `reply_is_sent`: whatever `handle_request` answers to a request from an address with a non-zero port
    is put on the wire in that very iteration, to the sender, under the request's transaction id.
  * `node_serves_held_immutable` / `node_serves_held_mutable`: a node in server mode whose server holds a
    value under a target answers a `get` for that target — from any requester the request filter allows —
    with exactly that value (for mutable items: key, seq, value, signature; or only the seq when the
    request's seq filter is at or above it).
  With `C08Held.node_ack_means_held` (an acknowledged put is held) and `C02` (the reader yields every
  authentic value it receives) these are the node-level links of "put Ok ⇒ get finds it"; what is left
  between them is the network: delivery of the datagrams and the lookup reaching the holder (`C07`).
-/
import MainlineModel.Props.C05Node
import MainlineModel.Props.C08Held
namespace Mainline.Props.C01Served
open Mainline Mainline.Actor

/-- **What `handle_request` answers is sent**, in the iteration in which the request arrives -/
theorem reply_is_sent (a : Actor) (env : Env) (m : Message) (src : Addr) (req : Request) (hm : m.mtype = .request req)
    (hport : src.port ≠ 0) (msg : Option ApiMsg) (r : Response)
    (hr : (handleRequest a.core env src m.readOnly m.version req).2.1 = some (.response r)) :
    ∃ l, (a.step env (some (m, src)) msg).out = a.out ++ l ∧
      ∃ x ∈ l, x.1 = src ∧ x.2.tid = m.tid ∧ x.2.mtype = .response r ∧ x.2.readOnly = !a.sockServerMode := by
  have hrecv : (a.recvPhase env.now (some (m, src))).2 = some (m, src) := by
    unfold recvPhase
    simp only [hm]
    unfold Inflight.decide
    have : (src.port == 0) = false := by simpa using hport
    simp [this]
  obtain ⟨ro, rc, _, _⟩ := recvPhase_time a env.now (some (m, src))
  have hsm : (a.recvPhase env.now (some (m, src))).1.sockServerMode = a.sockServerMode := by
    unfold recvPhase; rfl
  generalize ha1 : (a.recvPhase env.now (some (m, src))).1 = a1 at ro rc hrecv hsm
  rw [← rc] at hr
  have hinc : ∃ l1, (a1.handleIncoming env (some (m, src))).1.out = a1.out ++ l1 ∧
      ∃ x ∈ l1, x.1 = src ∧ x.2.tid = m.tid ∧ x.2.mtype = .response r ∧ x.2.readOnly = !a.sockServerMode := by
    unfold handleIncoming
    simp only [hm]
    unfold handleIncomingRequest
    have hreply : ∃ y, (sendReply { a1 with core := (handleRequest a1.core env src m.readOnly m.version req).1 } src m.tid
        (handleRequest a1.core env src m.readOnly m.version req).2.1).out = a1.out ++ [y] ∧
        y.1 = src ∧ y.2.tid = m.tid ∧ y.2.mtype = .response r ∧ y.2.readOnly = !a.sockServerMode := by
      rw [hr, ← hsm]
      exact ⟨_, rfl, rfl, rfl, rfl, rfl⟩
    obtain ⟨y, hy, hy1, hy2, hy3⟩ := hreply
    split
    · obtain ⟨l2, e2⟩ := (populate_adv (sendReply { a1 with core := (handleRequest a1.core env src m.readOnly m.version req).1 } src m.tid
        (handleRequest a1.core env src m.readOnly m.version req).2.1) env.now).out
      refine ⟨[y] ++ l2, by rw [e2, hy, List.append_assoc], y, by simp, hy1, hy2, hy3⟩
    · exact ⟨[y], hy, y, by simp, hy1, hy2, hy3⟩
  obtain ⟨l1, e1, x, hx, hx1, hx2, hx3⟩ := hinc
  have hrest : ∃ l3, (a.step env (some (m, src)) msg).out = (a1.handleIncoming env (some (m, src))).1.out ++ l3 := by
    have A1 := forwardValue_adv (a1.handleIncoming env (some (m, src))).1 (a1.handleIncoming env (some (m, src))).2 env.now
    have hpre : a.preDone env (some (m, src)) =
        forwardValue (a1.handleIncoming env (some (m, src))).1 (a1.handleIncoming env (some (m, src))).2 := by
      unfold preDone; rw [ha1, hrecv]
    have A2 := (visitClosestAll_adv (a.preDone env (some (m, src))) env.now).trans
      ((finishTick_adv _ env.now ((a.preDone env (some (m, src))).checkDonePuts env.now)).trans
        ((pickup_adv _ env msg).trans ((maintenance_adv _ env.now).trans (cleanup_adv _ env.now))))
    obtain ⟨la, ea⟩ := A1.out
    obtain ⟨lb, eb⟩ := A2.out
    refine ⟨la ++ lb, ?_⟩
    have : (a.step env (some (m, src)) msg).out = (a.preDone env (some (m, src))).out ++ lb := eb
    rw [this, hpre, ea, List.append_assoc]
  obtain ⟨l3, e3⟩ := hrest
  refine ⟨l1 ++ l3, ?_, x, List.mem_append_left _ hx, hx1, hx2, hx3⟩
  rw [e3, e1, ro, List.append_assoc]

/-- the server that `Core::handle_request` consults holds what the core's server holds -/
theorem served_stores (c : Core) (src : Addr) (ro : Bool) (version : Option Bytes) (req : Request) (now : Nat) :
    let s' := (verifySelfPing (maybeAddNodeFromRequest c src version ro req now) src req now).1.server
    s'.immutable = c.server.immutable ∧ s'.mutable = c.server.mutable := by
  obtain ⟨_, _, e3, e4⟩ := C18.verifySelfPing_stores (maybeAddNodeFromRequest c src version ro req now) src req now
  have hm : (maybeAddNodeFromRequest c src version ro req now).server = c.server := by
    unfold maybeAddNodeFromRequest
    split
    · split
      · unfold addRequester
        split
        · split <;> rfl
        · split <;> rfl
      · rfl
    · rfl
  rw [hm] at e3 e4
  exact ⟨e3, e4⟩

theorem rotate_stores (s : Server) (now : Nat) :
    let s' : Server := if s.tokens.shouldUpdate now = true then
      { s with tokens := (s.tokens.rotate s.rng now).1, rng := (s.tokens.rotate s.rng now).2 } else s
    s'.immutable = s.immutable ∧ s'.mutable = s.mutable := by
  simp only
  split <;> exact ⟨rfl, rfl⟩

/-- a server in server mode answers an allowed `get` for a target under which it holds an immutable
    value with that value -/
theorem core_serves_immutable (c : Core) (hs : c.serverMode = true) (env : Env) (src : Addr) (ro : Bool)
    (version : Option Bytes) (rid target : Id) (salt : Option Bytes) (v : Bytes)
    (ha : c.allow ⟨rid, .getValue target none salt⟩ src = true)
    (hheld : c.server.immutable.find? target = some v) :
    ∃ i tok ns, (handleRequest c env src ro version ⟨rid, .getValue target none salt⟩).2.1
      = some (.response (.getImmutable i tok ns v)) := by
  have h1 := C05Node.maybeAdd_serverMode c src version ro ⟨rid, .getValue target none salt⟩ env.now
  have h2 := C18.verifySelfPing_serverMode (maybeAddNodeFromRequest c src version ro ⟨rid, .getValue target none salt⟩ env.now) src
    ⟨rid, .getValue target none salt⟩ env.now
  have h3 : (verifySelfPing (maybeAddNodeFromRequest c src version ro ⟨rid, .getValue target none salt⟩ env.now) src
      ⟨rid, .getValue target none salt⟩ env.now).1.allow = c.allow :=
    (verifySelfPing_allow _ src _ env.now).trans (maybeAdd_allow c src version ro _ env.now)
  obtain ⟨e3, _⟩ := served_stores c src ro version ⟨rid, .getValue target none salt⟩ env.now
  unfold handleRequest
  simp only [ha, Bool.not_true, Bool.false_eq_true, ite_false]
  unfold serveRequest
  rw [h2, h1, hs]
  simp only [ite_true]
  generalize (verifySelfPing (maybeAddNodeFromRequest c src version ro ⟨rid, .getValue target none salt⟩ env.now) src
      ⟨rid, .getValue target none salt⟩ env.now).1 = c2 at h3 e3
  unfold Server.handleRequest
  simp only [h3, ha, Bool.not_true, Bool.false_eq_true, ite_false]
  generalize hs0 : (if c2.server.tokens.shouldUpdate env.now = true then
      ({ c2.server with tokens := (c2.server.tokens.rotate c2.server.rng env.now).1,
                         rng := (c2.server.tokens.rotate c2.server.rng env.now).2 } : Server)
    else c2.server) = s0
  have him : s0.immutable = c.server.immutable := by rw [← hs0, ← e3]; split <;> rfl
  have hget : (s0.immutable.get target).2 = some v := by rw [Lru.get_snd, him]; exact hheld
  cases hg : s0.immutable.get target with
  | mk im found =>
    rw [hg] at hget
    simp only at hget
    subst hget
    exact ⟨_, _, _, rfl⟩

/-- **What a server holds it serves (immutable values).**  In every state of a node in server mode that
    holds `v` under `target`, a `get` for `target` from any address with a non-zero port that the request
    filter allows is answered in the iteration in which it arrives: a `getImmutable` response carrying
    exactly `v`, to the sender, under the request's transaction id. -/
theorem node_serves_held_immutable (a : Actor) (hs : a.core.serverMode = true) (env : Env) (m : Message) (src : Addr)
    (rid target : Id) (salt : Option Bytes) (v : Bytes)
    (hm : m.mtype = .request ⟨rid, .getValue target none salt⟩) (hport : src.port ≠ 0)
    (hallow : a.core.allow ⟨rid, .getValue target none salt⟩ src = true)
    (hheld : a.core.server.immutable.find? target = some v) (msg : Option ApiMsg) :
    ∃ i tok ns l, (a.step env (some (m, src)) msg).out = a.out ++ l ∧
      ∃ x ∈ l, x.1 = src ∧ x.2.tid = m.tid ∧ x.2.mtype = .response (.getImmutable i tok ns v) ∧
        x.2.readOnly = !a.sockServerMode := by
  obtain ⟨i, tok, ns, hr⟩ := core_serves_immutable a.core hs env src m.readOnly m.version rid target salt v hallow hheld
  obtain ⟨l, hl, hx⟩ := reply_is_sent a env m src _ hm hport msg _ hr
  exact ⟨i, tok, ns, l, hl, hx⟩

/-- a server in server mode answers an allowed `get` for a target under which it holds a mutable item
    (and no immutable value) as `handle_get_mutable` prescribes: the item, or only its seq when the
    request's seq filter is at or above it -/
theorem core_serves_mutable (c : Core) (hs : c.serverMode = true) (env : Env) (src : Addr) (ro : Bool)
    (version : Option Bytes) (rid target : Id) (seq : Option Int) (salt : Option Bytes) (item : StoredItem)
    (ha : c.allow ⟨rid, .getValue target seq salt⟩ src = true)
    (hno : seq = none → c.server.immutable.find? target = none)
    (hheld : c.server.mutable.find? target = some item) :
    ∃ rt tok, (handleRequest c env src ro version ⟨rid, .getValue target seq salt⟩).2.1
      = some (.response (Server.getMutableResponse rt tok target seq (some item))) := by
  have h1 := C05Node.maybeAdd_serverMode c src version ro ⟨rid, .getValue target seq salt⟩ env.now
  have h2 := C18.verifySelfPing_serverMode (maybeAddNodeFromRequest c src version ro ⟨rid, .getValue target seq salt⟩ env.now) src
    ⟨rid, .getValue target seq salt⟩ env.now
  have h3 : (verifySelfPing (maybeAddNodeFromRequest c src version ro ⟨rid, .getValue target seq salt⟩ env.now) src
      ⟨rid, .getValue target seq salt⟩ env.now).1.allow = c.allow :=
    (verifySelfPing_allow _ src _ env.now).trans (maybeAdd_allow c src version ro _ env.now)
  obtain ⟨e3, e4⟩ := served_stores c src ro version ⟨rid, .getValue target seq salt⟩ env.now
  unfold handleRequest
  simp only [ha, Bool.not_true, Bool.false_eq_true, ite_false]
  unfold serveRequest
  rw [h2, h1, hs]
  simp only [ite_true]
  generalize (verifySelfPing (maybeAddNodeFromRequest c src version ro ⟨rid, .getValue target seq salt⟩ env.now) src
      ⟨rid, .getValue target seq salt⟩ env.now).1 = c2 at h3 e3 e4
  unfold Server.handleRequest
  simp only [h3, ha, Bool.not_true, Bool.false_eq_true, ite_false]
  generalize hs0 : (if c2.server.tokens.shouldUpdate env.now = true then
      ({ c2.server with tokens := (c2.server.tokens.rotate c2.server.rng env.now).1,
                         rng := (c2.server.tokens.rotate c2.server.rng env.now).2 } : Server)
    else c2.server) = s0
  have him : s0.immutable = c.server.immutable := by rw [← hs0, ← e3]; split <;> rfl
  have hmu : s0.mutable = c.server.mutable := by rw [← hs0, ← e4]; split <;> rfl
  have hget : (s0.mutable.get target).2 = some item := by rw [Lru.get_snd, hmu]; exact hheld
  cases seq with
  | some sq =>
    simp only [Server.handleGetMutable, hget]
    exact ⟨_, _, rfl⟩
  | none =>
    have hnone : (s0.immutable.get target).2 = none := by rw [Lru.get_snd, him]; exact hno rfl
    cases hg : s0.immutable.get target with
    | mk im found =>
      rw [hg] at hnone
      simp only at hnone
      subst hnone
      simp only [Server.handleGetMutable, hget]
      exact ⟨_, _, rfl⟩

/-- **What a server holds it serves (mutable items).** -/
theorem node_serves_held_mutable (a : Actor) (hs : a.core.serverMode = true) (env : Env) (m : Message) (src : Addr)
    (rid target : Id) (seq : Option Int) (salt : Option Bytes) (item : StoredItem)
    (hm : m.mtype = .request ⟨rid, .getValue target seq salt⟩) (hport : src.port ≠ 0)
    (hallow : a.core.allow ⟨rid, .getValue target seq salt⟩ src = true)
    (hno : seq = none → a.core.server.immutable.find? target = none)
    (hheld : a.core.server.mutable.find? target = some item) (msg : Option ApiMsg) :
    ∃ rt tok l, (a.step env (some (m, src)) msg).out = a.out ++ l ∧
      ∃ x ∈ l, x.1 = src ∧ x.2.tid = m.tid ∧
        x.2.mtype = .response (Server.getMutableResponse rt tok target seq (some item)) ∧
        x.2.readOnly = !a.sockServerMode := by
  obtain ⟨rt, tok, hr⟩ := core_serves_mutable a.core hs env src m.readOnly m.version rid target seq salt item hallow hno hheld
  obtain ⟨l, hl, hx⟩ := reply_is_sent a env m src _ hm hport msg _ hr
  exact ⟨rt, tok, l, hl, hx⟩

end Mainline.Props.C01Served
