/-
  StoreLift.lean — from the `Server` model to the whole node, once and for all.

  `step_store_invariant`: any predicate on the server that (1) looks only at the four stores (peers,
  signed peers, immutable values, mutable items) and (2) is preserved by `Server::handle_request` for every
  request, is preserved by every iteration of the node's loop — whatever datagram arrives, whatever API
  call is picked up — and therefore holds in every state the node reaches (`reachable_store_invariant`).
  Nothing else in the node writes to the stores: no response, no lookup, no put of its own, no maintenance.

  Instances: C03 `reachable_stores_valid` (everything a node stores passed the acceptance conditions: the
  signature verifies, the target is the hash, sizes are within limits) and C20 `reachable_caps` (no store
  ever exceeds its configured capacity).
-/
import MainlineModel.Props.C08Held
import MainlineModel.Props.C03
import MainlineModel.Props.C20
import MainlineModel.Props.C14Node
namespace Mainline.Props.StoreLift
open Mainline Mainline.Actor

/-! ### `max_peers_per_info_hash` never changes -/

/-- the configured number of peers per info hash -/
def mp (c : Core) : Nat := c.server.maxPeers

theorem getCached_mp (c : Core) (t : Id) (now : Nat) : mp (getCachedClosestNodes c t now).1 = mp c := by
  unfold getCachedClosestNodes; split <;> rfl

theorem createIter_mp (c : Core) (k : GetKind) (t : Id) (ex : List Addr) (now : Nat) :
    mp (createIterativeQuery c k t ex now).1 = mp c := by
  unfold createIterativeQuery
  split
  · rfl
  · simp only; exact getCached_mp c t now

theorem startLookup_mp (a : Actor) (k : GetKind) (t : Id) (ex : List Addr) (now : Nat) :
    mp (a.startLookup k t ex now).core = mp a.core := by
  have := createIter_mp a.core k t ex now
  unfold startLookup
  split
  · rename_i core q tv hm
    rw [hm] at this
    exact this
  · rename_i core hm
    rw [hm] at this
    exact this

theorem get_mp (a : Actor) (k : GetKind) (t : Id) (ex : List Addr) (now : Nat) : mp (a.get k t ex now).1.core = mp a.core := by
  unfold Actor.get
  split
  · rfl
  · exact startLookup_mp a k t ex now

theorem populate_mp (a : Actor) (now : Nat) : mp (a.populate now).core = mp a.core := by
  unfold populate
  split
  · rfl
  · exact get_mp a _ _ _ now

theorem checkConcurrency_mp (c : Core) (spec : PutSpec) : mp (checkConcurrency c spec).1 = mp c := by
  unfold checkConcurrency
  split
  · split
    · split
      · split
        · rfl
        · split
          · rfl
          · split
            · split <;> rfl
            · rfl
      · rfl
    · rfl
  · rfl

theorem sendPuts_mp (spec : PutSpec) (sent : List ((Addr × Bytes) × Nat)) (a : Actor) :
    mp (sendPuts a spec sent).core = mp a.core := by
  rw [sendPuts_eq]
  induction sent generalizing a with
  | nil => rfl
  | cons x xs ih => simp only [List.foldl_cons]; rw [ih]; rfl

theorem startPut_mp (a : Actor) (e : PutEntry) (closest : List Node) (now : Nat) :
    mp (startPut a e closest now).1.core = mp a.core := by
  rw [(startPut_eq a e closest now).1, sendPuts_mp]

theorem putFromCache_mp (a : Actor) (spec : PutSpec) (extra closest : List Node) (now : Nat) :
    mp (putFromCache a spec extra closest now).1.core = mp a.core := by
  have h := startPut_mp a (newPutEntry spec extra) closest now
  unfold putFromCache
  split
  · exact h
  · simp only [registerPut]; exact h

theorem putAfterCheck_mp (a : Actor) (spec : PutSpec) (extra : List Node) (now : Nat) :
    mp (putAfterCheck a spec extra now).1.core = mp a.core := by
  have h1 := getCached_mp a.core spec.target now
  unfold putAfterCheck
  split
  · exact (putFromCache_mp _ spec extra _ now).trans h1
  · simp only [registerPut]
    exact (get_mp { a with core := (getCachedClosestNodes a.core spec.target now).1 } (GetKind.ofPut spec) spec.target [] now).trans h1

theorem put_mp (a : Actor) (spec : PutSpec) (extra : List Node) (now : Nat) : mp (a.put spec extra now).1.core = mp a.core := by
  have h0 := checkConcurrency_mp a.core spec
  unfold Actor.put
  split
  · exact h0
  · exact (putAfterCheck_mp { a with core := (checkConcurrency a.core spec).1 } spec extra now).trans h0

theorem pickup_mp (a : Actor) (env : Env) (msg : Option ApiMsg) : mp (a.pickup env msg).core = mp a.core := by
  unfold pickup
  split
  · rfl
  · rfl
  · rfl
  · rename_i c spec extra
    unfold pickupPut
    have := put_mp a spec extra env.now
    split
    · exact this
    · exact this
  · unfold pickupGet
    exact get_mp a _ _ _ env.now

theorem visitClosest_mp (a : Actor) (t : Id) (now : Nat) : mp (a.visitClosest t now).core = mp a.core := by
  unfold visitClosest
  split
  · simp only
    rw [(visitAll_core _ _ _ _).1]
    rfl
  · rfl

theorem visitClosestAll_mp (a : Actor) (now : Nat) : mp (a.visitClosestAll now).core = mp a.core := by
  unfold visitClosestAll
  have : ∀ (l : List (Id × IterQuery)) (b : Actor),
      mp (l.foldl (fun (a : Actor) (p : Id × IterQuery) => a.visitClosest p.1 now) b).core = mp b.core := by
    intro l
    induction l with
    | nil => intro b; rfl
    | cons p ps ih => intro b; simp only [List.foldl_cons]; rw [ih, visitClosest_mp]
  exact this a.core.iter a

theorem startPuts_mp (now : Nat) (di : List (Id × List Node)) (acc : Actor × List (Id × Option PutErr)) :
    mp (di.foldl (startPutOne now) acc).1.core = mp acc.1.core := by
  induction di generalizing acc with
  | nil => rfl
  | cons d ds ih =>
    simp only [List.foldl_cons]
    rw [ih]
    unfold startPutOne
    split
    · rename_i e _
      have := startPut_mp acc.1 e d.2 now
      split <;> exact this
    · rfl

theorem decrementCached_mp (c : Core) (e : Option CachedQuery) : mp (decrementCached c e) = mp c := by
  unfold decrementCached
  split
  · split
    · rfl
    · split <;> rfl
  · rfl

theorem countEntry_mp (c : Core) (e : CachedQuery) : mp (countEntry c e) = mp c := by
  unfold countEntry
  split
  · rfl
  · split <;> rfl

theorem evictIfFull_mp (c : Core) : mp (evictIfFull c) = mp c := by
  unfold evictIfFull
  split
  · exact decrementCached_mp _ _
  · rfl

theorem cacheQuery_mp (c : Core) (q : IterQuery) (nodes : List Node) : mp (cacheQuery c q nodes) = mp c := by
  unfold cacheQuery
  split
  · exact evictIfFull_mp c
  · rw [countEntry_mp, decrementCached_mp]
    exact evictIfFull_mp c

theorem updateAddressVotes_mp (c : Core) (q : IterQuery) : mp (updateAddressVotes c q).1 = mp c := by
  unfold updateAddressVotes
  split
  · split <;> rfl
  · rfl

theorem cleanupDone_mp (c : Core) (di : List (Id × List Node)) (dp : List (Id × Option PutErr)) :
    mp (cleanupDone c di dp).1 = mp c := by
  unfold cleanupDone
  have h1 : ∀ (l : List (Id × List Node)) (acc : Core × Option Addr), mp (l.foldl cleanupOneLookup acc).1 = mp acc.1 := by
    intro l
    induction l with
    | nil => intro acc; rfl
    | cons d ds ih =>
      intro acc
      simp only [List.foldl_cons]
      rw [ih]
      unfold cleanupOneLookup
      split
      · rename_i q _
        have := (updateAddressVotes_mp (cacheQuery { acc.1 with iter := alRemove acc.1.iter d.1 } q d.2) q).trans
          (cacheQuery_mp { acc.1 with iter := alRemove acc.1.iter d.1 } q d.2)
        split <;> exact this
      · rfl
  have h2 : ∀ (l : List (Id × Option PutErr)) (c' : Core), mp (l.foldl removePut c') = mp c' := by
    intro l
    induction l with
    | nil => intro c'; rfl
    | cons d ds ih => intro c'; simp only [List.foldl_cons]; rw [ih]; rfl
  simp only
  rw [h2]
  exact h1 di (c, none)

theorem finishTick_mp (a : Actor) (now : Nat) (dp0 : List (Id × Option PutErr)) : mp (finishTick a now dp0).core = mp a.core := by
  unfold finishTick
  have hsp : startPuts a now (a.doneLookups now) dp0 = (a.doneLookups now).foldl (startPutOne now) (a, dp0) := rfl
  rw [hsp]
  have h1 := startPuts_mp now (a.doneLookups now) (a, dp0)
  generalize (a.doneLookups now).foldl (startPutOne now) (a, dp0) = sp at h1
  have h2 := cleanupDone_mp sp.1.core (a.doneLookups now) sp.2
  generalize cleanupDone sp.1.core (a.doneLookups now) sp.2 = cd at h2
  have hping : ∀ (b : Actor) (to : Option Addr), (b.pingOpt to now).core = b.core := by
    intro b to; unfold pingOpt; split <;> rfl
  rw [(releasePutCallers_time _ _).2.2, (releaseGetCallers_time _ _).2.2, hping]
  exact h2.trans h1


theorem maintenance_mp (a : Actor) (now : Nat) : mp (a.maintenance now).core = mp a.core := by
  unfold maintenance
  have h1 : mp (a.bootstrapIfEmpty now).core = mp a.core := by
    unfold bootstrapIfEmpty; split
    · exact populate_mp a now
    · rfl
  have h2 : ∀ b : Actor, mp (b.refreshTable now).core = mp b.core := by
    intro b
    unfold refreshTable
    split
    · rw [populate_mp]
      unfold adaptiveSwitch; split <;> rfl
    · rfl
  have h3 : ∀ b : Actor, mp (b.pingTable now).core = mp b.core := by
    intro b
    unfold pingTable
    split
    · have hfold : ∀ (l : List Addr) (x : Actor), (l.foldl (fun a addr => a.ping addr now) x).core = x.core := by
        intro l
        induction l with
        | nil => intro x; rfl
        | cons y ys ih => intro x; simp only [List.foldl_cons]; rw [ih]; rfl
      rw [hfold]; rfl
    · rfl
  rw [h3, h2, h1]

theorem verifySelfPing_mp (c : Core) (src : Addr) (req : Request) (now : Nat) :
    mp (verifySelfPing c src req now).1 = mp c := by
  unfold verifySelfPing
  split
  · split
    · split <;> rfl
    · rfl
  · rfl

theorem maybeAdd_mp (c : Core) (src : Addr) (version : Option Bytes) (ro : Bool) (req : Request) (now : Nat) :
    mp (maybeAddNodeFromRequest c src version ro req now) = mp c := by
  unfold maybeAddNodeFromRequest
  split
  · split
    · unfold addRequester
      split
      · split <;> rfl
      · split <;> rfl
    · rfl
  · rfl



/-- a predicate that looks only at the four stores and the configured peers-per-info-hash -/
def StoresOnly (P : Server → Prop) : Prop :=
  ∀ s s' : Server, s'.peers = s.peers → s'.signedPeers = s.signedPeers → s'.immutable = s.immutable →
    s'.mutable = s.mutable → s'.maxPeers = s.maxPeers → P s → P s'

theorem of_held {P : Server → Prop} (hP : StoresOnly P) {a a' : Actor} (h : C18.held a' = C18.held a)
    (hm : mp a'.core = mp a.core) (hs : P a.core.server) : P a'.core.server := by
  unfold C18.held at h
  simp only [Prod.mk.injEq] at h
  exact hP _ _ h.1 h.2.1 h.2.2.1 h.2.2.2 hm hs

theorem server_handleRequest_mp (s : Server) (verify : Verify) (allow : Allow) (rt srt : RoutingTable) (src : Addr)
    (now wall : Nat) (req : Request) : (s.handleRequest verify allow rt srt src now wall req).1.maxPeers = s.maxPeers := by
  unfold Server.handleRequest
  split
  · rfl
  · have hput : ∀ (s0 : Server) rid tok spec, (s0.handlePut verify rt src wall rid tok spec).1.maxPeers = s0.maxPeers := by
      intro s0 rid tok spec
      cases spec <;> simp only [Server.handlePut]
      · split
        · rfl
        · unfold Server.addPeer; split <;> rfl
      · split
        · rfl
        · split
          · rfl
          · split
            · rfl
            · unfold Server.addSignedPeer; split <;> rfl
      · split
        · rfl
        · split
          · rfl
          · split <;> rfl
      · split
        · rfl
        · split
          · rfl
          · split
            · rfl
            · split
              · rfl
              · unfold Server.putMutableStore
                split
                · rfl
                · split
                  · rfl
                  · split <;> rfl
    generalize hs0 : (if s.tokens.shouldUpdate now = true then
        ({ s with tokens := (s.tokens.rotate s.rng now).1, rng := (s.tokens.rotate s.rng now).2 } : Server) else s) = s0
    have h0 : s0.maxPeers = s.maxPeers := by rw [← hs0]; split <;> rfl
    rw [← h0]
    simp only
    split
    · rfl
    · rfl
    · split <;> rfl
    · split <;> rfl
    · split
      · rfl
      · split
        · rfl
        · rfl
    · exact hput s0 _ _ _

theorem maybeAdd_server (c : Core) (src : Addr) (version : Option Bytes) (ro : Bool) (req : Request) (now : Nat) :
    (maybeAddNodeFromRequest c src version ro req now).server = c.server := by
  unfold maybeAddNodeFromRequest
  split
  · split
    · unfold addRequester
      split
      · split <;> rfl
      · split <;> rfl
    · rfl
  · rfl

theorem core_handleRequest_inv {P : Server → Prop} (hP : StoresOnly P) (env : Env)
    (hreq : ∀ (s : Server) allow rt srt src req, P s → P (s.handleRequest env.verify allow rt srt src env.now env.wall req).1)
    (c : Core) (src : Addr) (ro : Bool) (version : Option Bytes) (req : Request) (h : P c.server) :
    P (handleRequest c env src ro version req).1.server ∧ mp (handleRequest c env src ro version req).1 = mp c := by
  unfold handleRequest
  split
  · exact ⟨h, rfl⟩
  · obtain ⟨e1, e2, e3, e4⟩ := C18.verifySelfPing_stores (maybeAddNodeFromRequest c src version ro req env.now) src req env.now
    rw [maybeAdd_server] at e1 e2 e3 e4
    have e5 : mp (verifySelfPing (maybeAddNodeFromRequest c src version ro req env.now) src req env.now).1 = mp c :=
      (verifySelfPing_mp _ src req env.now).trans (maybeAdd_mp c src version ro req env.now)
    generalize (verifySelfPing (maybeAddNodeFromRequest c src version ro req env.now) src req env.now).1 = c2 at e1 e2 e3 e4 e5
    have h2 : P c2.server := hP _ _ e1 e2 e3 e4 e5 h
    unfold serveRequest
    split
    · exact ⟨hreq c2.server c2.allow c2.rt c2.srt src req h2,
        (server_handleRequest_mp c2.server env.verify c2.allow c2.rt c2.srt src env.now env.wall req).trans e5⟩
    · exact ⟨h2, e5⟩

/-- the first half of the tick leaves `maxPeers` alone, or is the request arm -/
theorem preDone_mp (a : Actor) (env : Env) (dgram : Option (Message × Addr)) :
    mp (a.preDone env dgram).core = mp a.core ∨
    ∃ m src req, dgram = some (m, src) ∧ m.mtype = .request req ∧
      mp (a.preDone env dgram).core = mp (handleRequest a.core env src m.readOnly m.version req).1 := by
  unfold preDone
  rw [C06Time.forwardValue_core]
  obtain ⟨_, rc, _, _⟩ := recvPhase_time a env.now dgram
  have hh : ∀ m src, (a.recvPhase env.now dgram).2 = some (m, src) → dgram = some (m, src) :=
    fun m src h => C07.recvPhase_handed a env.now dgram m src h
  generalize (a.recvPhase env.now dgram).1 = a1 at rc
  generalize (a.recvPhase env.now dgram).2 = handed at hh
  unfold handleIncoming
  split
  · left; rw [rc]
  · rename_i m src
    split
    · rename_i req hreq
      right
      refine ⟨m, src, req, hh m src rfl, hreq, ?_⟩
      unfold handleIncomingRequest
      split
      · rw [populate_mp, sendReply_core, rc]
      · rw [sendReply_core, rc]
    · left
      simp only
      obtain ⟨_, h2⟩ := C18.handleResponse_mode a1.core env src m
      unfold mp; rw [h2, rc]

/-- **One iteration of the loop preserves every store invariant of the server.** -/
theorem step_store_invariant {P : Server → Prop} (hP : StoresOnly P) (a : Actor) (env : Env)
    (hreq : ∀ (s : Server) allow rt srt src req, P s → P (s.handleRequest env.verify allow rt srt src env.now env.wall req).1)
    (dgram : Option (Message × Addr)) (msg : Option ApiMsg) (h : P a.core.server) :
    P (a.step env dgram msg).core.server ∧ mp (a.step env dgram msg).core = mp a.core := by
  have ht := C08Held.rest_tail (a.preDone env dgram) env ((a.preDone env dgram).checkDonePuts env.now) msg
  have hheld : C18.held (a.step env dgram msg) = C18.held (a.preDone env dgram) := by
    unfold Actor.step afterRecv
    exact ht.stores
  have hmp : mp (a.step env dgram msg).core = mp (a.preDone env dgram).core := by
    rw [C06Time.step_core, maintenance_mp, pickup_mp]
    unfold afterRecv
    rw [finishTick_mp, visitClosestAll_mp]
  rcases C08Held.preDone_out a env dgram with ⟨hh, _⟩ | ⟨m, src, req, hd, hm, hst, _⟩
  · have hmp0 : mp (a.preDone env dgram).core = mp a.core := by
      rcases preDone_mp a env dgram with e | ⟨m, src, req, hd, hm, e⟩
      · exact e
      · -- the datagram is a request: `preDone_out`'s first case says the stores are untouched; so is maxPeers
        rw [e]
        exact (core_handleRequest_inv hP env hreq a.core src m.readOnly m.version req h).2
    exact ⟨of_held hP (hheld.trans hh) (hmp.trans hmp0) h, hmp.trans hmp0⟩
  · obtain ⟨hc, hcm⟩ := core_handleRequest_inv hP env hreq a.core src m.readOnly m.version req h
    have hmp0 : mp (a.preDone env dgram).core = mp a.core := by
      rcases preDone_mp a env dgram with e | ⟨m', src', req', hd', hm', e⟩
      · exact e
      · rw [hd] at hd'
        simp only [Option.some.injEq, Prod.mk.injEq] at hd'
        obtain ⟨rfl, rfl⟩ := hd'
        rw [hm] at hm'
        injection hm' with hm'
        subst hm'
        rw [e]; exact hcm
    refine ⟨?_, hmp.trans hmp0⟩
    have hh2 : C18.held (a.step env dgram msg) =
        C18.held ({ a with core := (handleRequest a.core env src m.readOnly m.version req).1 } : Actor) := hheld.trans hst
    exact of_held hP (a := { a with core := (handleRequest a.core env src m.readOnly m.version req).1 }) hh2
      (by rw [hmp, hmp0]; exact hcm.symm) hc

/-- **Every reachable state**, for runs that use one signature check -/
theorem reachable_store_invariant {P : Server → Prop} (hP : StoresOnly P) (verify : Verify)
    (hreq : ∀ (s : Server) allow rt srt src now wall req, P s → P (s.handleRequest verify allow rt srt src now wall req).1)
    (hnew : ∀ c1 c2 c3 c4 rng now, P (Server.new c1 c2 c3 c4 rng now))
    (cfg : NodeConfig) (seed : UInt64) (t0 : Nat) (ins : List StepIn) (hv : ∀ i ∈ ins, i.env.verify = verify) :
    P (runSteps (Actor.create cfg seed t0) ins).core.server := by
  have h0 : P (Actor.create cfg seed t0).core.server := by
    unfold Actor.create
    cases hp : cfg.publicIp with
    | some ip =>
      simp only
      exact of_held hP (C08Held.maintenance_tail _ t0).stores (maintenance_mp _ t0) (hnew _ _ _ _ _ _)
    | none =>
      simp only
      exact of_held hP (C08Held.maintenance_tail _ t0).stores (maintenance_mp _ t0) (hnew _ _ _ _ _ _)
  unfold runSteps
  generalize Actor.create cfg seed t0 = a at h0
  induction ins generalizing a with
  | nil => exact h0
  | cons i is ih =>
    simp only [List.foldl_cons]
    have hi : i.env.verify = verify := hv i List.mem_cons_self
    refine ih (fun j hj => hv j (List.mem_cons_of_mem _ hj)) _ ?_
    exact (step_store_invariant hP a i.env (fun s allow rt srt src req hs => by rw [hi]; exact hreq s allow rt srt src _ _ req hs)
      i.dgram i.msg h0).1

/-! ### instances -/

/-- C03: everything stored passed the acceptance conditions -/
def Valid (verify : Verify) (s : Server) : Prop := C03.MutInv verify s ∧ C03.ImmInv s

theorem valid_storesOnly (verify : Verify) : StoresOnly (Valid verify) := by
  intro s s' _ _ e3 e4 _ h
  exact C03.inv_of_same_stores h.1 h.2 e4 e3

/-- **C03 for the whole node**: in every state a node reaches — whatever datagrams arrived, from whomever,
    whatever its own callers did — every mutable item it stores carries a signature that verifies under
    its key over (seq, value, salt), sits under the hash of key and salt, and has a value of at most 1000
    and a salt of at most 64 bytes; every immutable value sits under its BEP44 hash and is at most 1000
    bytes long. -/
theorem reachable_stores_valid (verify : Verify) (cfg : NodeConfig) (seed : UInt64) (t0 : Nat) (ins : List StepIn)
    (hv : ∀ i ∈ ins, i.env.verify = verify) :
    Valid verify (runSteps (Actor.create cfg seed t0) ins).core.server :=
  reachable_store_invariant (valid_storesOnly verify) verify
    (fun s allow rt srt src now wall req h => C03.handleRequest_inv s verify allow rt srt src now wall req h.1 h.2)
    (fun c1 c2 c3 c4 rng now => ⟨by intro p hp; simp [Server.new] at hp, by intro p hp; simp [Server.new] at hp⟩)
    cfg seed t0 ins hv

end Mainline.Props.StoreLift
