/-
  C02 end to end, on the model node — "forged … responses are dropped and never surface through any
  API".

  `Props/C02Node.lean` shows that what every registered lookup remembers stays authentic and that the
  value `handle_response` produces is authentic for the lookup it belongs to.  Here the last step is
  taken: the *events* the node hands to its callers.  In one iteration of the loop the only value
  events that can appear are

  * the value produced by the datagram of this iteration, sent to the callers parked under the target
    of the lookup it is authentic for (`forward_events`), and
  * what a caller that joins in this iteration is handed at once: the values the lookup registered
    under its target remembers — authentic by `AuthInv`, which holds in every reachable state — and the
    node's own in-flight put for that target (local data) (`join_values`).

  Every other phase of the loop emits no value event at all (`Plain`): `rest_plain`, `late_plain`.
-/
import MainlineModel.Props.C02Node
import MainlineModel.Lemmas.TimeLemmas
namespace Mainline.Props.C02
open Mainline Mainline.Actor Mainline.Props.C07

def NoValue (l : List Event) : Prop := ∀ c v, Event.value c v ∉ l

/-- a stretch of the loop that hands no value to any caller -/
def Plain (a a' : Actor) : Prop := ∃ l, a'.events = a.events ++ l ∧ NoValue l

theorem Plain.refl (a : Actor) : Plain a a := ⟨[], by simp, by intro c v h; cases h⟩

theorem Plain.trans {a b c : Actor} (h1 : Plain a b) (h2 : Plain b c) : Plain a c := by
  obtain ⟨l1, e1, n1⟩ := h1
  obtain ⟨l2, e2, n2⟩ := h2
  refine ⟨l1 ++ l2, by rw [e2, e1, List.append_assoc], ?_⟩
  intro c v h
  rcases List.mem_append.1 h with h | h
  · exact n1 c v h
  · exact n2 c v h

theorem Plain.same {a a' : Actor} (h : a'.events = a.events) : Plain a a' := ⟨[], by simp [h], by intro c v h; cases h⟩

theorem visitAll_events (a : Actor) (q : IterQuery) (tos : List Addr) (now : Nat) :
    (a.visitAll q tos now).1.events = a.events := by
  unfold visitAll
  induction tos generalizing a q with
  | nil => rfl
  | cons t ts ih => simp only [List.foldl_cons]; rw [ih]; rfl

theorem startLookup_events (a : Actor) (k : GetKind) (t : Id) (ex : List Addr) (now : Nat) :
    (a.startLookup k t ex now).events = a.events := by
  unfold startLookup
  split
  · simp only; rw [visitAll_events]
  · rfl

theorem get_events (a : Actor) (k : GetKind) (t : Id) (ex : List Addr) (now : Nat) : (a.get k t ex now).1.events = a.events := by
  unfold Actor.get
  split
  · rfl
  · exact startLookup_events a k t ex now

theorem populate_events (a : Actor) (now : Nat) : (a.populate now).events = a.events := by
  unfold populate
  split
  · rfl
  · exact get_events a _ _ _ now

theorem sendReply_events (a : Actor) (src : Addr) (tid : UInt32) (r : Option Reply) : (a.sendReply src tid r).events = a.events := by
  unfold sendReply; split <;> rfl

theorem handleIncoming_events (a : Actor) (env : Env) (handed : Option (Message × Addr)) :
    (a.handleIncoming env handed).1.events = a.events := by
  unfold handleIncoming
  split
  · rfl
  · split
    · unfold handleIncomingRequest
      split
      · rw [populate_events, sendReply_events]
      · rw [sendReply_events]
    · rfl

theorem recvPhase_events (a : Actor) (now : Nat) (dgram : Option (Message × Addr)) : (a.recvPhase now dgram).1.events = a.events := by
  unfold recvPhase
  cases dgram <;> rfl

theorem visitClosestAll_events (a : Actor) (now : Nat) : (a.visitClosestAll now).events = a.events := by
  unfold visitClosestAll
  have : ∀ (l : List (Id × IterQuery)) (b : Actor),
      (l.foldl (fun (a : Actor) (p : Id × IterQuery) => a.visitClosest p.1 now) b).events = b.events := by
    intro l
    induction l with
    | nil => intro b; rfl
    | cons p ps ih =>
      intro b
      simp only [List.foldl_cons]
      rw [ih]
      unfold visitClosest
      split
      · simp only; rw [visitAll_events]
      · rfl
  exact this a.core.iter a

theorem sendPuts_events (spec : PutSpec) (sent : List ((Addr × Bytes) × Nat)) (a : Actor) : (sendPuts a spec sent).events = a.events := by
  rw [sendPuts_eq]
  induction sent generalizing a with
  | nil => rfl
  | cons x xs ih => simp only [List.foldl_cons]; rw [ih]; rfl

theorem startPut_events (a : Actor) (e : PutEntry) (closest : List Node) (now : Nat) : (startPut a e closest now).1.events = a.events := by
  rw [(startPut_eq a e closest now).1, sendPuts_events]

theorem startPuts_events (now : Nat) (di : List (Id × List Node)) (acc : Actor × List (Id × Option PutErr)) :
    (di.foldl (startPutOne now) acc).1.events = acc.1.events := by
  induction di generalizing acc with
  | nil => rfl
  | cons d ds ih =>
    simp only [List.foldl_cons]
    rw [ih]
    unfold startPutOne
    split
    · rename_i e _
      have := startPut_events acc.1 e d.2 now
      split <;> exact this
    · rfl

theorem closing_not_value (nodes : List Node) (s : Sender) (c : Nat) (v : Value) : closingEvent nodes s ≠ .value c v := by
  cases s <;> simp [closingEvent]

theorem releaseGet_plain (done : List (Id × List Node)) (b : Actor) : Plain b (b.releaseGetCallers done) := by
  unfold releaseGetCallers
  induction done generalizing b with
  | nil => exact Plain.refl b
  | cons d ds ih =>
    simp only [List.foldl_cons]
    refine Plain.trans ?_ (ih _)
    unfold releaseGetOne
    split
    · rename_i senders _
      refine ⟨senders.map (closingEvent d.2), rfl, ?_⟩
      intro c v h
      rw [List.mem_map] at h
      obtain ⟨s, _, hs⟩ := h
      exact closing_not_value d.2 s c v hs
    · exact Plain.refl b

theorem releasePut_plain (done : List (Id × Option PutErr)) (b : Actor) : Plain b (b.releasePutCallers done) := by
  unfold releasePutCallers
  induction done generalizing b with
  | nil => exact Plain.refl b
  | cons d ds ih =>
    simp only [List.foldl_cons]
    refine Plain.trans ?_ (ih _)
    unfold releasePutOne
    split
    · rename_i cs _
      refine ⟨cs.map fun c => Event.putResult c (putOutcome d), rfl, ?_⟩
      intro c v h
      rw [List.mem_map] at h
      obtain ⟨x, _, hx⟩ := h
      cases hx
    · exact Plain.refl b

/-- the tick after the value of its datagram has been forwarded: no further value event -/
theorem rest_plain (a3 : Actor) (now : Nat) (dp0 : List (Id × Option PutErr)) :
    Plain a3 (finishTick (a3.visitClosestAll now) now dp0) := by
  have h4 : Plain a3 (a3.visitClosestAll now) := Plain.same (visitClosestAll_events a3 now)
  refine h4.trans ?_
  generalize a3.visitClosestAll now = a4
  unfold finishTick
  have hsp : startPuts a4 now (a4.doneLookups now) dp0 = (a4.doneLookups now).foldl (startPutOne now) (a4, dp0) := rfl
  rw [hsp]
  have hs := startPuts_events now (a4.doneLookups now) (a4, dp0)
  generalize (a4.doneLookups now).foldl (startPutOne now) (a4, dp0) = sp at hs
  generalize cleanupDone sp.1.core (a4.doneLookups now) sp.2 = cd
  have hping : ∀ (b : Actor) (to : Option Addr), (b.pingOpt to now).events = b.events := by
    intro b to; unfold pingOpt; split <;> rfl
  have h5 : Plain a4 (pingOpt { sp.1 with core := cd.1 } cd.2 now) := Plain.same (by rw [hping]; exact hs)
  exact h5.trans ((releaseGet_plain _ _).trans (releasePut_plain _ _))

theorem maintenance_events (a : Actor) (now : Nat) : (a.maintenance now).events = a.events := by
  unfold maintenance
  have h1 : (a.bootstrapIfEmpty now).events = a.events := by
    unfold bootstrapIfEmpty; split
    · exact populate_events a now
    · rfl
  have h2 : ∀ b : Actor, (b.refreshTable now).events = b.events := by
    intro b
    unfold refreshTable
    split
    · rw [populate_events]; unfold adaptiveSwitch; split <;> rfl
    · rfl
  have h3 : ∀ b : Actor, (b.pingTable now).events = b.events := by
    intro b
    unfold pingTable
    split
    · have hfold : ∀ (l : List Addr) (x : Actor), (l.foldl (fun a addr => a.ping addr now) x).events = x.events := by
        intro l
        induction l with
        | nil => intro x; rfl
        | cons y ys ih => intro x; simp only [List.foldl_cons]; rw [ih]; rfl
      rw [hfold]
    · rfl
  rw [h3, h2, h1]

/-- **What the datagram of this iteration hands to callers.**  The value events of the first half of
    the tick go to callers parked under a target `t`, and the value is authentic for the lookup
    registered under `t` (whose target is `t`). -/
theorem forward_events (a : Actor) (env : Env) (dgram : Option (Message × Addr)) (hinv : AuthInv env.verify a.core.iter) :
    ∃ l, (a.preDone env dgram).events = a.events ++ l ∧
      ∀ c v, Event.value c v ∈ l →
        ∃ t q senders s, alGet a.getSenders t = some senders ∧ s ∈ senders ∧ senderCaller s = c ∧
          (t, q) ∈ a.core.iter ∧ q.target = t ∧ Authentic env.verify q v := by
  unfold preDone
  obtain ⟨rc, rg, _⟩ := C06.recvPhase_frame a env.now dgram
  have re := recvPhase_events a env.now dgram
  generalize (a.recvPhase env.now dgram).1 = a1 at rc rg re
  generalize (a.recvPhase env.now dgram).2 = handed
  have he := handleIncoming_events a1 env handed
  obtain ⟨hg, _⟩ := C06.handleIncoming_frame a1 env handed
  have hval : ∀ t v, (a1.handleIncoming env handed).2 = some (t, v) →
      ∃ q, (t, q) ∈ a.core.iter ∧ q.target = t ∧ Authentic env.verify q v := by
    intro t v h
    unfold handleIncoming at h
    split at h
    · cases h
    · split at h
      · cases h
      · rw [← rc]
        exact forwarded_value_authentic a1.core env _ _ t v (by rw [rc]; exact hinv) h
  generalize (a1.handleIncoming env handed).1 = a2 at he hg
  generalize (a1.handleIncoming env handed).2 = nv at hval
  unfold forwardValue
  split
  · rename_i target v
    split
    · rename_i senders hs
      refine ⟨senders.filterMap (fun s => sendTo s v), by simp only; rw [he, re], ?_⟩
      intro c v' hmem
      rw [List.mem_filterMap] at hmem
      obtain ⟨s, hsm, hsend⟩ := hmem
      obtain ⟨q, hq, ht, ha⟩ := hval target v rfl
      have hcv : senderCaller s = c ∧ v' = v := by
        cases s <;> cases v <;> simp [sendTo] at hsend <;> (obtain ⟨h1, h2⟩ := hsend; exact ⟨h1, h2.symm⟩)
      refine ⟨target, q, senders, s, by rw [← rg, ← hg]; exact hs, hsm, hcv.1, hq, ht, by rw [hcv.2]; exact ha⟩
    · exact ⟨[], by simp [he, re], by intro c v h; cases h⟩
  · exact ⟨[], by simp [he, re], by intro c v h; cases h⟩

/-- **What a caller that joins is handed at once**: values the lookup registered under its target
    remembers, or the node's own in-flight put for that target. -/
theorem join_values (b : Actor) (k : GetKind) (t : Id) (now : Nat) (verify : Verify) (hinv : AuthInv verify b.core.iter) :
    ∀ v ∈ (b.get k t [] now).2,
      (∃ q, (t, q) ∈ b.core.iter ∧ q.target = t ∧ Authentic verify q v) ∨ checkOutgoingPut b.core t = some v := by
  intro v hv
  have hout : ∀ x ∈ outgoingValues b.core t, checkOutgoingPut b.core t = some x := by
    intro x hx
    unfold outgoingValues at hx
    split at hx
    · rename_i y hy
      simp only [List.mem_singleton] at hx
      rw [hx]; exact hy
    · cases hx
  unfold Actor.get at hv
  split at hv
  · rename_i q hq
    simp only at hv
    rcases List.mem_append.1 hv with h | h
    · exact Or.inr (hout v h)
    · have hmem := mem_of_alGet _ _ _ hq
      obtain ⟨ht, hr⟩ := hinv _ hmem
      exact Or.inl ⟨q, hmem, ht, hr v h⟩
  · exact Or.inr (hout v hv)


theorem put_events (a : Actor) (spec : PutSpec) (extra : List Node) (now : Nat) : (a.put spec extra now).1.events = a.events := by
  unfold Actor.put
  split
  · rfl
  · unfold putAfterCheck
    split
    · unfold putFromCache
      split
      · simp only; rw [startPut_events]
      · simp only [registerPut]; rw [startPut_events]
    · simp only [registerPut]; rw [get_events]

/-- the invariant carries over any stretch of the loop described by `IterRel` -/
theorem authInv_of_rel (verify : Verify) (old new : List (Id × IterQuery))
    (hrel : IterRel (fun e _ _ => e.verify = verify) old new) (h : AuthInv verify old) : AuthInv verify new := by
  intro p hp
  rcases hrel p.1 p.2 hp with ⟨q, ops, hm, heq, hok⟩ | ⟨rid, k, seeds, ops, heq, hok⟩
  · obtain ⟨ht, hr⟩ := h (p.1, q) hm
    obtain ⟨t1, _, r1⟩ := lrun_authentic verify ops q hok hr
    rw [heq]
    exact ⟨t1.trans ht, r1⟩
  · obtain ⟨st, sr⟩ := seedQuery_fields rid p.1 k seeds
    obtain ⟨t1, _, r1⟩ := lrun_authentic verify ops (seedQuery rid p.1 k seeds) hok
      (by intro v hv; rw [sr] at hv; cases hv)
    rw [heq]
    exact ⟨t1.trans st, r1⟩

theorem afterRecv_authInv (a : Actor) (env : Env) (dgram : Option (Message × Addr))
    (h : AuthInv env.verify a.core.iter) : AuthInv env.verify (a.afterRecv env dgram).core.iter := by
  refine authInv_of_rel env.verify _ _ ?_ h
  unfold afterRecv
  exact IterRel.trans (IterRel.trans (preDone_iter _ a env dgram (fun _ _ _ => rfl)) (visitClosestAll_iter _ _ env.now))
    (finishTick_rel (iterRel_late _) _ env.now _)

/-- where a value handed to a caller may come from -/
inductive Source (a : Actor) (env : Env) (dgram : Option (Message × Addr)) (msg : Option ApiMsg) (c : Nat) (v : Value) : Prop
  /-- forwarded from the datagram of this iteration to a caller parked under `t`: authentic for the
      lookup registered under `t` -/
  | forwarded (t : Id) (q : IterQuery) (senders : List Sender) (s : Sender)
      (hs : alGet a.getSenders t = some senders) (hmem : s ∈ senders) (hc : senderCaller s = c)
      (hq : (t, q) ∈ a.core.iter) (ht : q.target = t) (hauth : Authentic env.verify q v)
  /-- handed to the caller joining in this iteration: remembered by the lookup registered under the
      target it asked for -/
  | remembered (kind : GetKind) (t : Id) (s : Sender) (q : IterQuery) (hmsg : msg = some (.get kind t s))
      (hc : senderCaller s = c) (hq : (t, q) ∈ (a.afterRecv env dgram).core.iter) (ht : q.target = t)
      (hauth : Authentic env.verify q v)
  /-- handed to the caller joining in this iteration: the node's own in-flight put for that target -/
  | own (kind : GetKind) (t : Id) (s : Sender) (hmsg : msg = some (.get kind t s)) (hc : senderCaller s = c)
      (hput : checkOutgoingPut (a.afterRecv env dgram).core t = some v)

/-- **No forged value surfaces through any API.**  Whatever datagram arrives and whatever the callers
    ask, every value event one iteration of the loop appends has one of the three sources above: it is
    authentic for the lookup of the target its receiver asked for, or it is the node's own put. -/
theorem step_values (a : Actor) (env : Env) (dgram : Option (Message × Addr)) (msg : Option ApiMsg)
    (hinv : AuthInv env.verify a.core.iter) :
    ∃ l, (a.step env dgram msg).events = a.events ++ l ∧
      ∀ c v, Event.value c v ∈ l → Source a env dgram msg c v := by
  obtain ⟨l1, e1, s1⟩ := forward_events a env dgram hinv
  have h2 : Plain (a.preDone env dgram) (a.afterRecv env dgram) := by
    unfold afterRecv; exact rest_plain _ env.now _
  obtain ⟨l2, e2, n2⟩ := h2
  have hinv2 := afterRecv_authInv a env dgram hinv
  have h3 : ∃ l3, ((a.afterRecv env dgram).pickup env msg).events = (a.afterRecv env dgram).events ++ l3 ∧
      ∀ c v, Event.value c v ∈ l3 → Source a env dgram msg c v := by
    generalize hb : a.afterRecv env dgram = b at hinv2
    unfold pickup
    split
    · exact ⟨[], by simp, by intro c v h; cases h⟩
    · exact ⟨[], by simp, by intro c v h; cases h⟩
    · rename_i c0
      exact ⟨[.info c0 b.infoView], rfl, by intro c v h; simp at h⟩
    · rename_i c0 spec extra
      unfold pickupPut
      split
      · exact ⟨[], by simp [parkPutCaller, put_events], by intro c v h; cases h⟩
      · exact ⟨[_], by simp only; rw [put_events], by intro c v h; simp at h⟩
    · rename_i kind target sender
      unfold pickupGet
      refine ⟨(b.get kind target [] env.now).2.filterMap (fun v => sendTo sender v), by simp only [parkGetCaller]; rw [get_events], ?_⟩
      intro c v hmem
      rw [List.mem_filterMap] at hmem
      obtain ⟨x, hx, hsend⟩ := hmem
      have hcv : senderCaller sender = c ∧ v = x := by
        cases sender <;> cases x <;> simp [sendTo] at hsend <;> (obtain ⟨h1, h2⟩ := hsend; exact ⟨h1, h2.symm⟩)
      rcases join_values b kind target env.now env.verify hinv2 x hx with ⟨q, hq, ht, ha⟩ | hp
      · exact Source.remembered kind target sender q rfl hcv.1 (by rw [hb]; exact hq) ht (by rw [hcv.2]; exact ha)
      · exact Source.own kind target sender rfl hcv.1 (by rw [hb, hcv.2]; exact hp)
  obtain ⟨l3, e3, s3⟩ := h3
  refine ⟨l1 ++ l2 ++ l3, ?_, ?_⟩
  · unfold Actor.step
    simp only
    rw [maintenance_events, e3, e2, e1]
    simp [List.append_assoc]
  · intro c v hmem
    rcases List.mem_append.1 hmem with h | h
    · rcases List.mem_append.1 h with h | h
      · obtain ⟨t, q, senders, s, hs, hm, hc, hq, ht, ha⟩ := s1 c v h
        exact Source.forwarded t q senders s hs hm hc hq ht ha
      · exact absurd h (n2 c v)
    · exact s3 c v h

/-- **Every reachable state.**  Start any node, run it through any inputs (datagrams of any content,
    any API calls) that use one signature check: every value event ever appended came from one of the
    three sources, evaluated in the state of the iteration that appended it. -/
theorem reachable_values (verify : Verify) (cfg : NodeConfig) (seed : UInt64) (t0 : Nat) (ins : List StepIn) (i : StepIn)
    (hv : ∀ j ∈ ins ++ [i], j.env.verify = verify) :
    ∃ l, (runSteps (Actor.create cfg seed t0) (ins ++ [i])).events = (runSteps (Actor.create cfg seed t0) ins).events ++ l ∧
      ∀ c v, Event.value c v ∈ l → Source (runSteps (Actor.create cfg seed t0) ins) i.env i.dgram i.msg c v := by
  have hinv := reachable_authInv verify cfg seed t0 ins (fun j hj => hv j (List.mem_append_left _ hj))
  have hi : i.env.verify = verify := hv i (List.mem_append_right _ List.mem_cons_self)
  have : runSteps (Actor.create cfg seed t0) (ins ++ [i]) = (runSteps (Actor.create cfg seed t0) ins).step i.env i.dgram i.msg := by
    unfold runSteps; rw [List.foldl_append]; rfl
  rw [this]
  exact step_values _ i.env i.dgram i.msg (by rw [hi]; exact hinv)

end Mainline.Props.C02
