/-
  C18 — Client, server and adaptive modes behave as documented (BEP43).

  Model: `Actor.request` / `Actor.reply` (the `ro` flag the socket sets), `Actor.handleRequest`
  (`Core::handle_request`, `maybe_add_node_from_request`,
  `does_verify_our_new_public_address_with_self_ping`), `Actor.handleResponse` (its read-only
  guard), `Actor.updateAddressVotes`, `Actor.cleanupDone`, `Actor.maintenance`, after the `fix:`
  commit that restores the confirming self-ping.
-/
import MainlineModel.Lemmas.ActorLemmas
namespace Mainline.Props.C18
open Mainline Mainline.Actor

/-! ### the read-only flag on what the node sends -/

/-- every request carries `ro = 1` exactly when the socket is in client mode -/
theorem request_ro_flag (a : Actor) (to : Addr) (req : Request) (now : Nat) :
    (a.request to req now).1.out = a.out ++
      [(to, { tid := UInt32.ofNat a.sock.nextTid, version := some Constants.VERSION, requesterIp := none,
              mtype := .request req, readOnly := !a.sockServerMode })] := by
  simp [request, Inflight.add]

/-! ### a client never replies and never stores -/

theorem verifySelfPing_serverMode (c : Core) (src : Addr) (req : Request) (now : Nat) :
    (verifySelfPing c src req now).1.serverMode = c.serverMode := by
  unfold verifySelfPing
  split
  · split
    · split <;> rfl
    · rfl
  · rfl

theorem verifySelfPing_stores (c : Core) (src : Addr) (req : Request) (now : Nat) :
    let s' := (verifySelfPing c src req now).1.server
    s'.peers = c.server.peers ∧ s'.signedPeers = c.server.signedPeers ∧
    s'.immutable = c.server.immutable ∧ s'.mutable = c.server.mutable := by
  unfold verifySelfPing
  split
  · split
    · split <;> exact ⟨rfl, rfl, rfl, rfl⟩
    · exact ⟨rfl, rfl, rfl, rfl⟩
  · exact ⟨rfl, rfl, rfl, rfl⟩

/-- in client mode `handle_request` produces no reply and stays in client mode -/
theorem client_never_replies (c : Core) (hc : c.serverMode = false) (env : Env) (src : Addr) (ro : Bool)
    (version : Option Bytes) (req : Request) :
    (handleRequest c env src ro version req).2.1 = none ∧
    (handleRequest c env src ro version req).1.serverMode = false := by
  have h1 : (maybeAddNodeFromRequest c src version ro req env.now) = c := by
    simp [maybeAddNodeFromRequest, hc]
  have h2 := verifySelfPing_serverMode c src req env.now
  unfold handleRequest serveRequest
  rw [h1]
  refine ⟨?_, ?_⟩ <;> simp [h2, hc]

/-- the stored data of a client never changes on a request -/
theorem client_never_stores (c : Core) (hc : c.serverMode = false) (env : Env) (src : Addr) (ro : Bool)
    (version : Option Bytes) (req : Request) :
    let s' := (handleRequest c env src ro version req).1.server
    s'.peers = c.server.peers ∧ s'.signedPeers = c.server.signedPeers ∧
    s'.immutable = c.server.immutable ∧ s'.mutable = c.server.mutable := by
  have h1 : (maybeAddNodeFromRequest c src version ro req env.now) = c := by
    simp [maybeAddNodeFromRequest, hc]
  have h2 := verifySelfPing_serverMode c src req env.now
  have h3 := verifySelfPing_stores c src req env.now
  unfold handleRequest serveRequest
  rw [h1]
  simp only [h2, hc, Bool.false_eq_true, ite_false]
  exact h3

/-! ### read-only requesters and read-only repliers -/

/-- a request flagged read-only never adds its sender to a routing table -/
theorem ro_requester_not_added (c : Core) (src : Addr) (version : Option Bytes) (req : Request) (now : Nat) :
    maybeAddNodeFromRequest c src version true req now = c := by
  simp [maybeAddNodeFromRequest]

/-- …and neither does any request received in client mode -/
theorem client_adds_no_requester (c : Core) (hc : c.serverMode = false) (src : Addr) (version : Option Bytes)
    (ro : Bool) (req : Request) (now : Nat) : maybeAddNodeFromRequest c src version ro req now = c := by
  simp [maybeAddNodeFromRequest, hc]

/-- a reply flagged read-only is ignored: no state change, no value for any caller -/
theorem ro_reply_ignored (c : Core) (env : Env) (src : Addr) (m : Message) (h : m.readOnly = true) :
    handleResponse c env src m = (c, none) := by
  simp [handleResponse, h]

/-! ### adaptive mode -/

/-- when the lookups' votes name an address other than the recorded one, it is recorded, the node
    considers itself firewalled, and that address is returned to be pinged -/
theorem new_voted_address_is_pinged (c : Core) (q : IterQuery) (addr : Addr)
    (hb : q.bestAddress = some addr) (hne : c.publicAddress ≠ some addr) :
    updateAddressVotes c q = ({ c with publicAddress := some addr, firewalled := true }, some addr) := by
  simp [updateAddressVotes, hb, hne]

/-- an unchanged vote changes nothing -/
theorem same_voted_address_noop (c : Core) (q : IterQuery) (addr : Addr)
    (hb : q.bestAddress = some addr) (he : c.publicAddress = some addr) :
    updateAddressVotes c q = (c, none) := by
  simp [updateAddressVotes, hb, he]

/-- a ping arriving from the recorded public address (the node's own confirming ping come back)
    clears the firewalled flag -/
theorem self_ping_clears_firewalled (c : Core) (our : Addr) (hp : c.publicAddress = some our)
    (req : Request) (hreq : req.rtype = .ping) (now : Nat) :
    (verifySelfPing c our req now).1.firewalled = false := by
  unfold verifySelfPing
  simp only [hp, isPingReq, hreq, BEq.rfl, Bool.and_self, ite_true]
  split <;> rfl

/-- any other request leaves the node as it was -/
theorem other_requests_keep_firewalled (c : Core) (src : Addr) (req : Request) (now : Nat)
    (h : c.publicAddress ≠ some src ∨ req.rtype ≠ .ping) :
    verifySelfPing c src req now = (c, false) := by
  unfold verifySelfPing
  cases hp : c.publicAddress with
  | none => rfl
  | some our =>
    simp only
    have : (src == our && isPingReq req) = false := by
      rcases h with h | h
      · have : src ≠ our := fun e => h (by rw [hp, e])
        simp [this]
      · unfold isPingReq
        cases hr : req.rtype <;> simp_all
    simp [this]

/-- pinging and looking up do not change the mode -/
theorem pingTable_modes (a : Actor) (now : Nat) : (a.pingTable now).modes = a.modes := by
  unfold pingTable
  split
  · have hfold : ∀ (l : List Addr) (b : Actor), (l.foldl (fun a addr => a.ping addr now) b).modes = b.modes := by
      intro l
      induction l with
      | nil => intro b; rfl
      | cons x xs ih => intro b; simp only [List.foldl_cons]; rw [ih]; rfl
    rw [hfold]
    simp [modes, pingRound]
  · rfl

theorem bootstrapIfEmpty_modes (a : Actor) (now : Nat) : (a.bootstrapIfEmpty now).modes = a.modes := by
  unfold bootstrapIfEmpty
  split
  · exact populate_modes a now
  · rfl

/-- **the adaptive switch**: at a refresh (more than 15 minutes after the last one) a client that is
    not firewalled becomes a server, in the core and in the socket alike -/
theorem refresh_switches_reachable_client (a : Actor) (now : Nat)
    (hdue : a.refreshDue now = true)
    (hc : a.core.serverMode = false) (hf : a.core.firewalled = false) :
    (a.refreshTable now).core.serverMode = true ∧ (a.refreshTable now).sockServerMode = true := by
  unfold refreshTable
  simp only [hdue, ite_true]
  have hm := populate_modes (adaptiveSwitch { a with core := { a.core with lastRefresh := now } }) now
  have hs : (adaptiveSwitch { a with core := { a.core with lastRefresh := now } }).modes =
      { sock := true, core := true, firewalled := false, publicAddress := a.core.publicAddress } := by
    simp [adaptiveSwitch, hc, hf, modes]
  rw [hs] at hm
  simp only [modes, Modes.mk.injEq] at hm
  exact ⟨hm.2.1, hm.1⟩

/-- a firewalled client stays a client through the whole maintenance -/
theorem firewalled_client_stays_client (a : Actor) (now : Nat)
    (hc : a.core.serverMode = false) (hs : a.sockServerMode = false) (hf : a.core.firewalled = true) :
    (a.maintenance now).core.serverMode = false ∧ (a.maintenance now).sockServerMode = false := by
  have h1 := bootstrapIfEmpty_modes a now
  have h2 : ((a.bootstrapIfEmpty now).refreshTable now).modes = a.modes := by
    unfold refreshTable
    split
    · rw [populate_modes]
      have : (a.bootstrapIfEmpty now).core.firewalled = true := by
        have := congrArg Modes.firewalled h1; simpa [modes, hf] using this
      simp only [adaptiveSwitch, this, Bool.not_true, Bool.and_false, Bool.false_eq_true, ite_false]
      rw [← h1]; simp [modes, this]
    · exact h1
  have h3 : (a.maintenance now).modes = a.modes := by
    unfold maintenance; rw [pingTable_modes, h2]
  simp only [modes, Modes.mk.injEq] at h3
  exact ⟨by rw [h3.2.1, hc], by rw [h3.1, hs]⟩

/-- servers stay servers (nothing ever switches a node back to client mode) -/
theorem server_stays_server (a : Actor) (now : Nat)
    (hc : a.core.serverMode = true) (hs : a.sockServerMode = true) :
    (a.maintenance now).core.serverMode = true ∧ (a.maintenance now).sockServerMode = true := by
  have h1 := bootstrapIfEmpty_modes a now
  have h2 : ((a.bootstrapIfEmpty now).refreshTable now).modes = a.modes := by
    unfold refreshTable
    split
    · rw [populate_modes]
      have : (a.bootstrapIfEmpty now).core.serverMode = true := by
        have := congrArg Modes.core h1; simpa [modes, hc] using this
      simp only [adaptiveSwitch, this, Bool.not_true, Bool.false_and, Bool.false_eq_true, ite_false]
      rw [← h1]; simp [modes, this]
    · exact h1
  have h3 : (a.maintenance now).modes = a.modes := by
    unfold maintenance; rw [pingTable_modes, h2]
  simp only [modes, Modes.mk.injEq] at h3
  exact ⟨by rw [h3.2.1, hc], by rw [h3.1, hs]⟩

theorem refresh_interval : Constants.REFRESH_TABLE_SECS = 15 * 60 := by decide

end Mainline.Props.C18
