/-
  C18 — Client, server and adaptive modes behave as documented (BEP43).

  Model: `Actor.request` / `Actor.reply` (the `ro` flag the socket sets), `Actor.handleRequest`
  (`Core::handle_request`, `maybe_add_node_from_request`,
  `does_verify_our_new_public_address_with_self_ping`), `Actor.handleResponse` (its read-only
  guard), `Actor.updateAddressVotes`, `Actor.cleanupDone`, `Actor.maintenance`, after the `fix:`
  commit that restores the confirming self-ping.

  Two layers: the single operations (first part), and the whole node (second part): `client_step` —
  one iteration of the loop of a node in client mode, in any state, with any datagram and API call:
  nothing stored, nothing but requests sent, read-only if still a client afterwards, core and socket
  agree on the mode; `server_step` — a server never goes back; `client_run` — every run.
-/
import MainlineModel.Lemmas.ActorLemmas
namespace Mainline.Props.C18
open Mainline Mainline.Actor

/-! ### the read-only flag on what the node sends -/

/-- every request carries `ro = 1` exactly when the socket is in client mode -/
theorem request_ro_flag (a : Actor) (to : Addr) (req : Request) (now : Nat) :
    (a.request to req now).1.out = a.out ++
      [(to, { tid := UInt32.ofNat a.sock.nextTid, version := some Constants.VERSION, requesterIp := none,
              mtype := .request req, readOnly := !a.sockServerMode })] := by
  simp [request, Inflight.add]

/-! ### a client never replies and never stores -/

theorem verifySelfPing_serverMode (c : Core) (src : Addr) (req : Request) (now : Nat) :
    (verifySelfPing c src req now).1.serverMode = c.serverMode := by
  unfold verifySelfPing
  split
  · split
    · split <;> rfl
    · rfl
  · rfl

theorem verifySelfPing_stores (c : Core) (src : Addr) (req : Request) (now : Nat) :
    let s' := (verifySelfPing c src req now).1.server
    s'.peers = c.server.peers ∧ s'.signedPeers = c.server.signedPeers ∧
    s'.immutable = c.server.immutable ∧ s'.mutable = c.server.mutable := by
  unfold verifySelfPing
  split
  · split
    · split <;> exact ⟨rfl, rfl, rfl, rfl⟩
    · exact ⟨rfl, rfl, rfl, rfl⟩
  · exact ⟨rfl, rfl, rfl, rfl⟩

/-- in client mode `handle_request` produces no reply and stays in client mode -/
theorem client_never_replies (c : Core) (hc : c.serverMode = false) (env : Env) (src : Addr) (ro : Bool)
    (version : Option Bytes) (req : Request) :
    (handleRequest c env src ro version req).2.1 = none ∧
    (handleRequest c env src ro version req).1.serverMode = false := by
  have h1 : (maybeAddNodeFromRequest c src version ro req env.now) = c := by
    simp [maybeAddNodeFromRequest, hc]
  have h2 := verifySelfPing_serverMode c src req env.now
  unfold handleRequest
  split
  · exact ⟨rfl, hc⟩
  · unfold serveRequest
    rw [h1]
    refine ⟨?_, ?_⟩ <;> simp [h2, hc]

/-- the stored data of a client never changes on a request -/
theorem client_never_stores (c : Core) (hc : c.serverMode = false) (env : Env) (src : Addr) (ro : Bool)
    (version : Option Bytes) (req : Request) :
    let s' := (handleRequest c env src ro version req).1.server
    s'.peers = c.server.peers ∧ s'.signedPeers = c.server.signedPeers ∧
    s'.immutable = c.server.immutable ∧ s'.mutable = c.server.mutable := by
  have h1 : (maybeAddNodeFromRequest c src version ro req env.now) = c := by
    simp [maybeAddNodeFromRequest, hc]
  have h2 := verifySelfPing_serverMode c src req env.now
  have h3 := verifySelfPing_stores c src req env.now
  unfold handleRequest
  split
  · exact ⟨rfl, rfl, rfl, rfl⟩
  · unfold serveRequest
    rw [h1]
    simp only [h2, hc, Bool.false_eq_true, ite_false]
    exact h3

/-! ### read-only requesters and read-only repliers -/

/-- a request flagged read-only never adds its sender to a routing table -/
theorem ro_requester_not_added (c : Core) (src : Addr) (version : Option Bytes) (req : Request) (now : Nat) :
    maybeAddNodeFromRequest c src version true req now = c := by
  simp [maybeAddNodeFromRequest]

/-- …and neither does any request received in client mode -/
theorem client_adds_no_requester (c : Core) (hc : c.serverMode = false) (src : Addr) (version : Option Bytes)
    (ro : Bool) (req : Request) (now : Nat) : maybeAddNodeFromRequest c src version ro req now = c := by
  simp [maybeAddNodeFromRequest, hc]

/-- a reply flagged read-only is ignored: no state change, no value for any caller -/
theorem ro_reply_ignored (c : Core) (env : Env) (src : Addr) (m : Message) (h : m.readOnly = true) :
    handleResponse c env src m = (c, none) := by
  simp [handleResponse, h]

/-! ### adaptive mode -/

/-- when the lookups' votes name an address other than the recorded one, it is recorded, the node
    considers itself firewalled, and that address is returned to be pinged -/
theorem new_voted_address_is_pinged (c : Core) (q : IterQuery) (addr : Addr)
    (hb : q.bestAddress = some addr) (hne : c.publicAddress ≠ some addr) :
    updateAddressVotes c q = ({ c with publicAddress := some addr, firewalled := true }, some addr) := by
  simp [updateAddressVotes, hb, hne]

/-- an unchanged vote changes nothing -/
theorem same_voted_address_noop (c : Core) (q : IterQuery) (addr : Addr)
    (hb : q.bestAddress = some addr) (he : c.publicAddress = some addr) :
    updateAddressVotes c q = (c, none) := by
  simp [updateAddressVotes, hb, he]

/-- a ping arriving from the recorded public address (the node's own confirming ping come back)
    clears the firewalled flag -/
theorem self_ping_clears_firewalled (c : Core) (our : Addr) (hp : c.publicAddress = some our)
    (req : Request) (hreq : req.rtype = .ping) (now : Nat) :
    (verifySelfPing c our req now).1.firewalled = false := by
  unfold verifySelfPing
  simp only [hp, isPingReq, hreq, BEq.rfl, Bool.and_self, ite_true]
  split <;> rfl

/-- any other request leaves the node as it was -/
theorem other_requests_keep_firewalled (c : Core) (src : Addr) (req : Request) (now : Nat)
    (h : c.publicAddress ≠ some src ∨ req.rtype ≠ .ping) :
    verifySelfPing c src req now = (c, false) := by
  unfold verifySelfPing
  cases hp : c.publicAddress with
  | none => rfl
  | some our =>
    simp only
    have : (src == our && isPingReq req) = false := by
      rcases h with h | h
      · have : src ≠ our := fun e => h (by rw [hp, e])
        simp [this]
      · unfold isPingReq
        cases hr : req.rtype <;> simp_all
    simp [this]

/-- pinging and looking up do not change the mode -/
theorem pingTable_modes (a : Actor) (now : Nat) : (a.pingTable now).modes = a.modes := by
  unfold pingTable
  split
  · have hfold : ∀ (l : List Addr) (b : Actor), (l.foldl (fun a addr => a.ping addr now) b).modes = b.modes := by
      intro l
      induction l with
      | nil => intro b; rfl
      | cons x xs ih => intro b; simp only [List.foldl_cons]; rw [ih]; rfl
    rw [hfold]
    simp [modes, pingRound]
  · rfl

theorem bootstrapIfEmpty_modes (a : Actor) (now : Nat) : (a.bootstrapIfEmpty now).modes = a.modes := by
  unfold bootstrapIfEmpty
  split
  · exact populate_modes a now
  · rfl

/-- **the adaptive switch**: at a refresh (more than 15 minutes after the last one) a client that is
    not firewalled becomes a server, in the core and in the socket alike -/
theorem refresh_switches_reachable_client (a : Actor) (now : Nat)
    (hdue : a.refreshDue now = true)
    (hc : a.core.serverMode = false) (hf : a.core.firewalled = false) :
    (a.refreshTable now).core.serverMode = true ∧ (a.refreshTable now).sockServerMode = true := by
  unfold refreshTable
  simp only [hdue, ite_true]
  have hm := populate_modes (adaptiveSwitch { a with core := { a.core with lastRefresh := now } }) now
  have hs : (adaptiveSwitch { a with core := { a.core with lastRefresh := now } }).modes =
      { sock := true, core := true, firewalled := false, publicAddress := a.core.publicAddress } := by
    simp [adaptiveSwitch, hc, hf, modes]
  rw [hs] at hm
  simp only [modes, Modes.mk.injEq] at hm
  exact ⟨hm.2.1, hm.1⟩

/-- a firewalled client stays a client through the whole maintenance -/
theorem firewalled_client_stays_client (a : Actor) (now : Nat)
    (hc : a.core.serverMode = false) (hs : a.sockServerMode = false) (hf : a.core.firewalled = true) :
    (a.maintenance now).core.serverMode = false ∧ (a.maintenance now).sockServerMode = false := by
  have h1 := bootstrapIfEmpty_modes a now
  have h2 : ((a.bootstrapIfEmpty now).refreshTable now).modes = a.modes := by
    unfold refreshTable
    split
    · rw [populate_modes]
      have : (a.bootstrapIfEmpty now).core.firewalled = true := by
        have := congrArg Modes.firewalled h1; simpa [modes, hf] using this
      simp only [adaptiveSwitch, this, Bool.not_true, Bool.and_false, Bool.false_eq_true, ite_false]
      rw [← h1]; simp [modes, this]
    · exact h1
  have h3 : (a.maintenance now).modes = a.modes := by
    unfold maintenance; rw [pingTable_modes, h2]
  simp only [modes, Modes.mk.injEq] at h3
  exact ⟨by rw [h3.2.1, hc], by rw [h3.1, hs]⟩

/-- servers stay servers (nothing ever switches a node back to client mode) -/
theorem server_stays_server (a : Actor) (now : Nat)
    (hc : a.core.serverMode = true) (hs : a.sockServerMode = true) :
    (a.maintenance now).core.serverMode = true ∧ (a.maintenance now).sockServerMode = true := by
  have h1 := bootstrapIfEmpty_modes a now
  have h2 : ((a.bootstrapIfEmpty now).refreshTable now).modes = a.modes := by
    unfold refreshTable
    split
    · rw [populate_modes]
      have : (a.bootstrapIfEmpty now).core.serverMode = true := by
        have := congrArg Modes.core h1; simpa [modes, hc] using this
      simp only [adaptiveSwitch, this, Bool.not_true, Bool.false_and, Bool.false_eq_true, ite_false]
      rw [← h1]; simp [modes, this]
    · exact h1
  have h3 : (a.maintenance now).modes = a.modes := by
    unfold maintenance; rw [pingTable_modes, h2]
  simp only [modes, Modes.mk.injEq] at h3
  exact ⟨by rw [h3.2.1, hc], by rw [h3.1, hs]⟩

theorem refresh_interval : Constants.REFRESH_TABLE_SECS = 15 * 60 := by decide


/-! ## The whole node in client mode -/

/-- the data the node's server stores for others -/
def held (a : Actor) :=
  (a.core.server.peers, a.core.server.signedPeers, a.core.server.immutable, a.core.server.mutable)

/-- a request, flagged read-only exactly when `clientSock` -/
def RoRequest (sockServer : Bool) (m : Message) : Prop := (∃ r, m.mtype = .request r) ∧ m.readOnly = !sockServer

/-- a stretch of the loop during which the node stays in the mode it is in, changes nothing it
    stores for others, and sends only requests, flagged read-only exactly when its socket is in
    client mode -/
structure Quiet (a a' : Actor) : Prop where
  sock : a'.sockServerMode = a.sockServerMode
  core : a'.core.serverMode = a.core.serverMode
  stores : held a' = held a
  sent : ∃ l, a'.out = a.out ++ l ∧ ∀ x ∈ l, RoRequest a.sockServerMode x.2

theorem Quiet.refl (a : Actor) : Quiet a a := ⟨rfl, rfl, rfl, [], by simp, by intro x h; cases h⟩

theorem Quiet.trans {a b c : Actor} (h1 : Quiet a b) (h2 : Quiet b c) : Quiet a c := by
  obtain ⟨l1, e1, p1⟩ := h1.sent
  obtain ⟨l2, e2, p2⟩ := h2.sent
  refine ⟨h2.sock.trans h1.sock, h2.core.trans h1.core, h2.stores.trans h1.stores, l1 ++ l2, ?_, ?_⟩
  · rw [e2, e1, List.append_assoc]
  · intro x hx
    rcases List.mem_append.1 hx with h | h
    · exact p1 x h
    · have := p2 x h; rw [h1.sock] at this; exact this

/-- nothing sent, same modes, same stores -/
theorem Quiet.silent {a a' : Actor} (ho : a'.out = a.out) (hs : a'.sockServerMode = a.sockServerMode)
    (hc : a'.core.serverMode = a.core.serverMode) (hst : held a' = held a) : Quiet a a' :=
  ⟨hs, hc, hst, [], by simp [ho], by intro x h; cases h⟩

theorem request_quiet (a : Actor) (to : Addr) (req : Request) (now : Nat) : Quiet a (a.request to req now).1 :=
  ⟨rfl, rfl, rfl, _, rfl, by
    intro x hx
    simp only [List.mem_singleton] at hx
    subst hx
    exact ⟨⟨req, rfl⟩, rfl⟩⟩

theorem ping_quiet (a : Actor) (to : Addr) (now : Nat) : Quiet a (a.ping to now) := request_quiet a to _ now

theorem visit_quiet (a : Actor) (q : IterQuery) (to : Addr) (now : Nat) : Quiet a (a.visit q to now).1 :=
  request_quiet a to q.request now

theorem visitAll_quiet (a : Actor) (q : IterQuery) (tos : List Addr) (now : Nat) : Quiet a (a.visitAll q tos now).1 := by
  unfold visitAll
  induction tos generalizing a q with
  | nil => exact Quiet.refl a
  | cons t ts ih =>
    simp only [List.foldl_cons]
    exact Quiet.trans (visit_quiet a q t now) (ih _ _)

theorem startLookup_quiet (a : Actor) (k : GetKind) (t : Id) (extra : List Addr) (now : Nat) :
    Quiet a (a.startLookup k t extra now) := by
  obtain ⟨c1, _, _, _, _, c6⟩ := createIter_fields a.core k t extra now
  unfold startLookup
  split
  · rename_i core q toVisit hm
    rw [hm] at c1 c6
    simp only at c1 c6
    have hb : Quiet a { a with core := core } := Quiet.silent rfl rfl c1 (by simp [held, c6])
    have hv := visitAll_quiet { a with core := core } q toVisit now
    obtain ⟨vc, _⟩ := visitAll_core { a with core := core } q toVisit now
    have hfin : Quiet (visitAll { a with core := core } q toVisit now).1
        { (visitAll { a with core := core } q toVisit now).1 with
          core := { core with iter := alSet core.iter t (visitAll { a with core := core } q toVisit now).2 } } :=
      Quiet.silent rfl rfl (by simp [vc]) (by simp [held, vc])
    exact Quiet.trans hb (Quiet.trans hv hfin)
  · rename_i core hm
    rw [hm] at c1 c6
    simp only at c1 c6
    exact Quiet.silent rfl rfl c1 (by simp [held, c6])

theorem get_quiet (a : Actor) (k : GetKind) (t : Id) (extra : List Addr) (now : Nat) :
    Quiet a (a.get k t extra now).1 := by
  unfold Actor.get
  split
  · exact Quiet.refl a
  · exact startLookup_quiet a k t extra now

theorem populate_quiet (a : Actor) (now : Nat) : Quiet a (a.populate now) := by
  unfold populate
  split
  · exact Quiet.refl a
  · exact get_quiet a _ _ _ now


theorem sendPuts_quiet (spec : PutSpec) (sent : List ((Addr × Bytes) × Nat)) : ∀ a : Actor, Quiet a (sendPuts a spec sent) := by
  unfold sendPuts
  induction sent with
  | nil => intro a; exact Quiet.refl a
  | cons x xs ih =>
    intro a
    simp only [List.foldl_cons]
    refine Quiet.trans ?_ (ih _)
    exact ⟨rfl, rfl, rfl, _, rfl, by
      intro y hy
      simp only [List.mem_singleton] at hy
      subst hy
      exact ⟨⟨_, rfl⟩, rfl⟩⟩

theorem startPut_quiet (a : Actor) (e : PutEntry) (closest : List Node) (now : Nat) :
    Quiet a (startPut a e closest now).1 := by
  unfold startPut
  exact Quiet.trans (Quiet.silent rfl rfl rfl rfl : Quiet a { a with sock := (e.q.start a.sock closest now).2.1 })
    (sendPuts_quiet _ _ _)

theorem startPutOne_quiet (now : Nat) (acc : Actor × List (Id × Option PutErr)) (d : Id × List Node) :
    Quiet acc.1 (startPutOne now acc d).1 := by
  unfold startPutOne
  split
  · rename_i e _
    have h := startPut_quiet acc.1 e d.2 now
    split
    · exact Quiet.trans h (Quiet.silent rfl rfl rfl rfl)
    · exact Quiet.trans h (Quiet.silent rfl rfl rfl rfl)
  · exact Quiet.refl _

theorem startPuts_quiet (a : Actor) (now : Nat) (di : List (Id × List Node)) (dp : List (Id × Option PutErr)) :
    Quiet a (startPuts a now di dp).1 := by
  unfold startPuts
  have : ∀ (l : List (Id × List Node)) (acc : Actor × List (Id × Option PutErr)),
      Quiet acc.1 (l.foldl (startPutOne now) acc).1 := by
    intro l
    induction l with
    | nil => intro acc; exact Quiet.refl _
    | cons d ds ih => intro acc; simp only [List.foldl_cons]; exact Quiet.trans (startPutOne_quiet now acc d) (ih _)
  exact this di (a, dp)

theorem checkConcurrency_mode (c : Core) (spec : PutSpec) :
    (checkConcurrency c spec).1.serverMode = c.serverMode ∧ (checkConcurrency c spec).1.server = c.server := by
  cases spec with
  | putMutable target v k seq sig salt cas =>
    simp only [checkConcurrency]
    split
    · split
      · split
        · exact ⟨rfl, rfl⟩
        · split
          · exact ⟨rfl, rfl⟩
          · split
            · split <;> exact ⟨rfl, rfl⟩
            · exact ⟨rfl, rfl⟩
      · exact ⟨rfl, rfl⟩
    · exact ⟨rfl, rfl⟩
  | putImmutable _ _ => exact ⟨rfl, rfl⟩
  | announcePeer _ _ _ => exact ⟨rfl, rfl⟩
  | announceSignedPeer _ _ _ _ => exact ⟨rfl, rfl⟩

theorem put_quiet (a : Actor) (spec : PutSpec) (extra : List Node) (now : Nat) :
    Quiet a (a.put spec extra now).1 := by
  obtain ⟨k1, k2⟩ := checkConcurrency_mode a.core spec
  have h0 : Quiet a { a with core := (checkConcurrency a.core spec).1 } :=
    Quiet.silent rfl rfl k1 (by simp [held, k2])
  unfold Actor.put
  split
  · exact h0
  · refine Quiet.trans h0 ?_
    generalize ({ a with core := (checkConcurrency a.core spec).1 } : Actor) = b
    unfold putAfterCheck
    obtain ⟨g1, _, _, _, _, _, _, g8, _⟩ := getCached_fields b.core spec.target now
    have h1 : Quiet b { b with core := (getCachedClosestNodes b.core spec.target now).1 } :=
      Quiet.silent rfl rfl g1 (by simp [held, g8])
    split
    · rename_i closest _
      refine Quiet.trans h1 ?_
      generalize ({ b with core := (getCachedClosestNodes b.core spec.target now).1 } : Actor) = c
      unfold putFromCache
      have h2 := startPut_quiet c (newPutEntry spec extra) closest now
      split
      · exact h2
      · exact Quiet.trans h2 (Quiet.silent rfl rfl rfl rfl)
    · refine Quiet.trans h1 ?_
      generalize ({ b with core := (getCachedClosestNodes b.core spec.target now).1 } : Actor) = c
      exact Quiet.trans (get_quiet c _ _ _ now) (Quiet.silent rfl rfl rfl rfl)

theorem pickup_quiet (a : Actor) (env : Env) (msg : Option ApiMsg) : Quiet a (a.pickup env msg) := by
  unfold pickup
  split
  · exact Quiet.refl a
  · exact Quiet.refl a
  · exact Quiet.silent rfl rfl rfl rfl
  · rename_i c spec extra
    unfold pickupPut
    have := put_quiet a spec extra env.now
    split
    · exact Quiet.trans this (Quiet.silent rfl rfl rfl rfl)
    · exact Quiet.trans this (Quiet.silent rfl rfl rfl rfl)
  · rename_i kind target sender
    unfold pickupGet
    exact Quiet.trans (get_quiet a kind target [] env.now) (Quiet.silent rfl rfl rfl rfl)


theorem addResponder_mode (c : Core) (now : Nat) (src : Addr) (m : Message) :
    (addResponder c now src m).serverMode = c.serverMode ∧ (addResponder c now src m).server = c.server := by
  unfold addResponder
  split
  · split <;> exact ⟨rfl, rfl⟩
  · exact ⟨rfl, rfl⟩

theorem handleResponse_mode (c : Core) (env : Env) (src : Addr) (m : Message) :
    (handleResponse c env src m).1.serverMode = c.serverMode ∧ (handleResponse c env src m).1.server = c.server := by
  unfold handleResponse
  split
  · exact ⟨rfl, rfl⟩
  · split
    · exact ⟨rfl, rfl⟩
    · split
      · split
        · exact addResponder_mode _ _ _ _
        · exact ⟨rfl, rfl⟩
      · split
        · exact addResponder_mode _ _ _ _
        · exact ⟨rfl, rfl⟩

/-- a node in client mode handles any incoming message without replying, storing or leaving
    client mode -/
theorem handleIncoming_quiet (a : Actor) (hc : a.core.serverMode = false) (env : Env)
    (handed : Option (Message × Addr)) : Quiet a (a.handleIncoming env handed).1 := by
  unfold handleIncoming
  cases handed with
  | none => exact Quiet.refl a
  | some p =>
    obtain ⟨m, src⟩ := p
    simp only
    cases hm : m.mtype with
    | request req =>
      simp only
      obtain ⟨r1, r2⟩ := client_never_replies a.core hc env src m.readOnly m.version req
      have r3 := client_never_stores a.core hc env src m.readOnly m.version req
      simp only at r3
      have hb : Quiet a (sendReply { a with core := (handleRequest a.core env src m.readOnly m.version req).1 } src m.tid
          (handleRequest a.core env src m.readOnly m.version req).2.1) := by
        rw [r1]
        exact Quiet.silent rfl rfl (by simp [sendReply, r2, hc]) (by simp [held, sendReply, r3.1, r3.2.1, r3.2.2.1, r3.2.2.2])
      unfold handleIncomingRequest
      split
      · exact Quiet.trans hb (populate_quiet _ env.now)
      · exact hb
    | response r =>
      obtain ⟨h1, h2⟩ := handleResponse_mode a.core env src m
      exact Quiet.silent rfl rfl h1 (by simp [held, h2])
    | error e =>
      obtain ⟨h1, h2⟩ := handleResponse_mode a.core env src m
      exact Quiet.silent rfl rfl h1 (by simp [held, h2])

theorem preDone_quiet (a : Actor) (hc : a.core.serverMode = false) (env : Env) (dgram : Option (Message × Addr)) :
    Quiet a (a.preDone env dgram) := by
  unfold preDone
  have h1 : Quiet a (a.recvPhase env.now dgram).1 := by
    unfold recvPhase
    cases dgram with
    | none => exact Quiet.refl a
    | some p => exact Quiet.silent rfl rfl rfl rfl
  have h2 := handleIncoming_quiet (a.recvPhase env.now dgram).1 (by rw [h1.core]; exact hc) env (a.recvPhase env.now dgram).2
  have h3 : ∀ (b : Actor) (v : Option (Id × Value)), Quiet b (b.forwardValue v) := by
    intro b v
    unfold forwardValue
    split
    · split
      · exact Quiet.silent rfl rfl rfl rfl
      · exact Quiet.refl b
    · exact Quiet.refl b
  exact Quiet.trans h1 (Quiet.trans h2 (h3 _ _))

theorem visitClosest_quiet (a : Actor) (t : Id) (now : Nat) : Quiet a (a.visitClosest t now) := by
  unfold visitClosest
  cases hg : alGet a.core.iter t with
  | none => exact Quiet.refl a
  | some q =>
    simp only
    obtain ⟨hc, _⟩ := visitAll_core a q q.closestCandidates now
    exact Quiet.trans (visitAll_quiet a q q.closestCandidates now) (Quiet.silent rfl rfl (by simp [hc]) (by simp [held, hc]))

theorem visitClosestAll_quiet (a : Actor) (now : Nat) : Quiet a (a.visitClosestAll now) := by
  unfold visitClosestAll
  have : ∀ (l : List (Id × IterQuery)) (b : Actor),
      Quiet b (l.foldl (fun (a : Actor) (p : Id × IterQuery) => a.visitClosest p.1 now) b) := by
    intro l
    induction l with
    | nil => intro b; exact Quiet.refl b
    | cons p ps ih => intro b; simp only [List.foldl_cons]; exact Quiet.trans (visitClosest_quiet b p.1 now) (ih _)
  exact this _ a

theorem cleanupDone_mode (c : Core) (di : List (Id × List Node)) (dp : List (Id × Option PutErr)) :
    (cleanupDone c di dp).1.serverMode = c.serverMode ∧ (cleanupDone c di dp).1.server = c.server := by
  have hdec : ∀ (c : Core) (e : Option CachedQuery), (decrementCached c e).serverMode = c.serverMode ∧
      (decrementCached c e).server = c.server := by
    intro c e; unfold decrementCached
    split
    · split
      · exact ⟨rfl, rfl⟩
      · split <;> exact ⟨rfl, rfl⟩
    · exact ⟨rfl, rfl⟩
  have hcount : ∀ (c : Core) (e : CachedQuery), (countEntry c e).serverMode = c.serverMode ∧ (countEntry c e).server = c.server := by
    intro c e; unfold countEntry
    split
    · exact ⟨rfl, rfl⟩
    · split <;> exact ⟨rfl, rfl⟩
  have hevict : ∀ c : Core, (evictIfFull c).serverMode = c.serverMode ∧ (evictIfFull c).server = c.server := by
    intro c; unfold evictIfFull
    split
    · exact hdec _ _
    · exact ⟨rfl, rfl⟩
  have hcache : ∀ (c : Core) (q : IterQuery) (ns : List Node), (cacheQuery c q ns).serverMode = c.serverMode ∧
      (cacheQuery c q ns).server = c.server := by
    intro c q ns; unfold cacheQuery
    split
    · exact hevict c
    · obtain ⟨a1, a2⟩ := hcount (decrementCached { (evictIfFull c) with cache := (evictIfFull c).cache.put q.target (mkEntry q ns) }
        ((evictIfFull c).cache.find? q.target)) (mkEntry q ns)
      obtain ⟨b1, b2⟩ := hdec { (evictIfFull c) with cache := (evictIfFull c).cache.put q.target (mkEntry q ns) }
        ((evictIfFull c).cache.find? q.target)
      obtain ⟨e1, e2⟩ := hevict c
      exact ⟨a1.trans (b1.trans e1), a2.trans (b2.trans e2)⟩
  have hvotes : ∀ (c : Core) (q : IterQuery), (updateAddressVotes c q).1.serverMode = c.serverMode ∧
      (updateAddressVotes c q).1.server = c.server := by
    intro c q; unfold updateAddressVotes
    split
    · split <;> exact ⟨rfl, rfl⟩
    · exact ⟨rfl, rfl⟩
  have hone : ∀ (acc : Core × Option Addr) (d : Id × List Node), (cleanupOneLookup acc d).1.serverMode = acc.1.serverMode ∧
      (cleanupOneLookup acc d).1.server = acc.1.server := by
    intro acc d; unfold cleanupOneLookup
    split
    · rename_i q _
      obtain ⟨v1, v2⟩ := hvotes (cacheQuery { acc.1 with iter := alRemove acc.1.iter d.1 } q d.2) q
      obtain ⟨c1, c2⟩ := hcache { acc.1 with iter := alRemove acc.1.iter d.1 } q d.2
      split <;> exact ⟨v1.trans c1, v2.trans c2⟩
    · exact ⟨rfl, rfl⟩
  unfold cleanupDone
  have h1 : ∀ (l : List (Id × List Node)) (acc : Core × Option Addr),
      (l.foldl cleanupOneLookup acc).1.serverMode = acc.1.serverMode ∧ (l.foldl cleanupOneLookup acc).1.server = acc.1.server := by
    intro l
    induction l with
    | nil => intro acc; exact ⟨rfl, rfl⟩
    | cons d ds ih =>
      intro acc; simp only [List.foldl_cons]
      obtain ⟨i1, i2⟩ := ih (cleanupOneLookup acc d)
      obtain ⟨o1, o2⟩ := hone acc d
      exact ⟨i1.trans o1, i2.trans o2⟩
  have h2 : ∀ (l : List (Id × Option PutErr)) (c' : Core), (l.foldl removePut c').serverMode = c'.serverMode ∧
      (l.foldl removePut c').server = c'.server := by
    intro l
    induction l with
    | nil => intro c'; exact ⟨rfl, rfl⟩
    | cons d ds ih => intro c'; simp only [List.foldl_cons]; obtain ⟨i1, i2⟩ := ih (removePut c' d); exact ⟨i1, i2⟩
  simp only
  obtain ⟨a1, a2⟩ := h2 dp (di.foldl cleanupOneLookup (c, none)).1
  obtain ⟨b1, b2⟩ := h1 di (c, none)
  exact ⟨a1.trans b1, a2.trans b2⟩

theorem finishTick_quiet (a : Actor) (now : Nat) (dp0 : List (Id × Option PutErr)) : Quiet a (finishTick a now dp0) := by
  unfold finishTick
  generalize a.doneLookups now = di
  have h1 := startPuts_quiet a now di dp0
  generalize startPuts a now di dp0 = sp at h1
  obtain ⟨m1, m2⟩ := cleanupDone_mode sp.1.core di sp.2
  have h2 : Quiet sp.1 { sp.1 with core := (cleanupDone sp.1.core di sp.2).1 } :=
    Quiet.silent rfl rfl m1 (by simp [held, m2])
  generalize cleanupDone sp.1.core di sp.2 = cd at h2
  have hping : ∀ (b : Actor) (to : Option Addr), Quiet b (b.pingOpt to now) := by
    intro b to; unfold pingOpt; split
    · exact ping_quiet b _ now
    · exact Quiet.refl b
  have hrg : ∀ (l : List (Id × List Node)) (b : Actor), Quiet b (b.releaseGetCallers l) := by
    intro l
    unfold releaseGetCallers
    induction l with
    | nil => intro b; exact Quiet.refl b
    | cons d ds ih =>
      intro b
      simp only [List.foldl_cons]
      refine Quiet.trans ?_ (ih _)
      unfold releaseGetOne
      split
      · exact Quiet.silent rfl rfl rfl rfl
      · exact Quiet.refl b
  have hrp : ∀ (l : List (Id × Option PutErr)) (b : Actor), Quiet b (b.releasePutCallers l) := by
    intro l
    unfold releasePutCallers
    induction l with
    | nil => intro b; exact Quiet.refl b
    | cons d ds ih =>
      intro b
      simp only [List.foldl_cons]
      refine Quiet.trans ?_ (ih _)
      unfold releasePutOne
      split
      · exact Quiet.silent rfl rfl rfl rfl
      · exact Quiet.refl b
  exact Quiet.trans h1 (Quiet.trans h2 (Quiet.trans (hping _ _) (Quiet.trans (hrg _ _) (hrp _ _))))

theorem afterRecv_quiet (a : Actor) (hc : a.core.serverMode = false) (env : Env) (dgram : Option (Message × Addr)) :
    Quiet a (a.afterRecv env dgram) := by
  unfold afterRecv
  exact Quiet.trans (preDone_quiet a hc env dgram)
    (Quiet.trans (visitClosestAll_quiet _ env.now) (finishTick_quiet _ env.now _))


theorem pingTable_quiet (a : Actor) (now : Nat) : Quiet a (a.pingTable now) := by
  unfold pingTable
  split
  · have hfold : ∀ (l : List Addr) (b : Actor), Quiet b (l.foldl (fun a addr => a.ping addr now) b) := by
      intro l
      induction l with
      | nil => intro b; exact Quiet.refl b
      | cons x xs ih => intro b; simp only [List.foldl_cons]; exact Quiet.trans (ping_quiet b x now) (ih _)
    refine Quiet.trans ?_ (hfold _ _)
    exact Quiet.silent rfl rfl (by simp [pingRound]) (by simp [held, pingRound])
  · exact Quiet.refl a

theorem bootstrapIfEmpty_quiet (a : Actor) (now : Nat) : Quiet a (a.bootstrapIfEmpty now) := by
  unfold bootstrapIfEmpty
  split
  · exact populate_quiet a now
  · exact Quiet.refl a

/-- the only place where a node changes mode: the adaptive switch at a refresh.  Either nothing
    switches and the refresh is quiet, or the node — a client that is not firewalled — becomes a
    server in the core and in the socket alike, sends nothing flagged read-only afterwards, and still
    stores nothing in this step -/
theorem refreshTable_cases (a : Actor) (now : Nat) :
    Quiet a (a.refreshTable now) ∨
    (a.core.serverMode = false ∧ a.core.firewalled = false ∧
      (a.refreshTable now).sockServerMode = true ∧ (a.refreshTable now).core.serverMode = true ∧
      held (a.refreshTable now) = held a ∧
      ∃ l, (a.refreshTable now).out = a.out ++ l ∧ ∀ x ∈ l, RoRequest true x.2) := by
  unfold refreshTable
  split
  · by_cases hsw : (!a.core.serverMode && !a.core.firewalled) = true
    · right
      simp only [Bool.and_eq_true, Bool.not_eq_true'] at hsw
      generalize hb : adaptiveSwitch { a with core := { a.core with lastRefresh := now } } = b
      have hbs : b.sockServerMode = true ∧ b.core.serverMode = true ∧ b.out = a.out ∧ held b = held a := by
        rw [← hb]; simp [adaptiveSwitch, hsw.1, hsw.2, held]
      have hq := populate_quiet b now
      obtain ⟨l, hl, hp⟩ := hq.sent
      refine ⟨hsw.1, hsw.2, by rw [hq.sock]; exact hbs.1, by rw [hq.core]; exact hbs.2.1, by rw [hq.stores]; exact hbs.2.2.2,
        l, by rw [hl, hbs.2.2.1], ?_⟩
      intro x hx
      have := hp x hx
      rw [hbs.1] at this
      exact this
    · left
      have : adaptiveSwitch { a with core := { a.core with lastRefresh := now } } = { a with core := { a.core with lastRefresh := now } } := by
        unfold adaptiveSwitch
        simp only at hsw ⊢
        simp [hsw]
      rw [this]
      have h0 : Quiet a { a with core := { a.core with lastRefresh := now } } := Quiet.silent rfl rfl rfl rfl
      exact Quiet.trans h0 (populate_quiet _ now)
  · exact Or.inl (Quiet.refl a)

/-- **C18, the whole node.**  Take a node in client mode (core and socket) in any state, and run one
    iteration of its loop with any datagram — a request of any kind, a reply, garbage — and any API
    call.  Then: what it stores for others is unchanged; everything it put on the wire is a request —
    it never replied; if it is still a client afterwards, every one of those requests is flagged
    read-only; and core and socket agree on the mode afterwards. -/
theorem client_step (a : Actor) (hc : a.core.serverMode = false) (hs : a.sockServerMode = false)
    (env : Env) (dgram : Option (Message × Addr)) (msg : Option ApiMsg) :
    held (a.step env dgram msg) = held a ∧
    (∃ l, (a.step env dgram msg).out = a.out ++ l ∧
      ∀ x ∈ l, (∃ r, x.2.mtype = .request r) ∧ ((a.step env dgram msg).sockServerMode = false → x.2.readOnly = true)) ∧
    (a.step env dgram msg).sockServerMode = (a.step env dgram msg).core.serverMode := by
  have hstep : a.step env dgram msg =
      { (((((a.afterRecv env dgram).pickup env msg).bootstrapIfEmpty env.now).refreshTable env.now).pingTable env.now) with
        sock := (((((a.afterRecv env dgram).pickup env msg).bootstrapIfEmpty env.now).refreshTable env.now).pingTable env.now).sock.cleanup env.now } := rfl
  rw [hstep]
  have h1 : Quiet a ((a.afterRecv env dgram).pickup env msg) :=
    Quiet.trans (afterRecv_quiet a hc env dgram) (pickup_quiet _ env msg)
  have h2 := Quiet.trans h1 (bootstrapIfEmpty_quiet _ env.now)
  generalize ((a.afterRecv env dgram).pickup env msg).bootstrapIfEmpty env.now = b1 at h2 ⊢
  -- the rest of the step: refresh (the only possible switch), ping round, socket cleanup
  have hfin : ∀ (c : Actor), Quiet c ({ (c.pingTable env.now) with sock := (c.pingTable env.now).sock.cleanup env.now } : Actor) :=
    fun c => Quiet.trans (pingTable_quiet c env.now) (Quiet.silent rfl rfl rfl rfl)
  have hb1s : b1.sockServerMode = false := by rw [h2.sock]; exact hs
  have hb1c : b1.core.serverMode = false := by rw [h2.core]; exact hc
  obtain ⟨l1, e1, p1⟩ := h2.sent
  rcases refreshTable_cases b1 env.now with hq | ⟨_, _, hsock, hcore, hheld, l2, e2, p2⟩
  · -- no switch: the whole step is quiet
    have hall := Quiet.trans h2 (Quiet.trans hq (hfin _))
    obtain ⟨l, e, p⟩ := hall.sent
    refine ⟨hall.stores, ⟨l, e, ?_⟩, by rw [hall.sock, hall.core, hs, hc]⟩
    intro x hx
    obtain ⟨hr, hro⟩ := p x hx
    refine ⟨hr, fun _ => ?_⟩
    rw [hro, hs]; rfl
  · -- the adaptive switch happened in this step
    have h3 := hfin (b1.refreshTable env.now)
    obtain ⟨l3, e3, p3⟩ := h3.sent
    refine ⟨by rw [h3.stores, hheld, h2.stores], ⟨l1 ++ l2 ++ l3, by rw [e3, e2, e1]; simp [List.append_assoc], ?_⟩,
      by rw [h3.sock, h3.core, hsock, hcore]⟩
    intro x hx
    have hfinal : ({ ((b1.refreshTable env.now).pingTable env.now) with
        sock := ((b1.refreshTable env.now).pingTable env.now).sock.cleanup env.now } : Actor).sockServerMode = true := by
      rw [h3.sock, hsock]
    refine ⟨?_, fun hf => by rw [hfinal] at hf; cases hf⟩
    rcases List.mem_append.1 hx with hx | hx
    · rcases List.mem_append.1 hx with hx | hx
      · exact (p1 x hx).1
      · exact (p2 x hx).1
    · exact (p3 x hx).1


/-! ### modes never go back: a server stays a server through a whole step -/

/-- both mode bits -/
def mode2 (a : Actor) : Bool × Bool := (a.sockServerMode, a.core.serverMode)

theorem Quiet.modes_eq {a a' : Actor} (h : Quiet a a') : mode2 a' = mode2 a := by
  unfold mode2; rw [h.sock, h.core]

theorem handleRequest_serverMode (c : Core) (env : Env) (src : Addr) (ro : Bool) (version : Option Bytes) (req : Request) :
    (handleRequest c env src ro version req).1.serverMode = c.serverMode := by
  have h1 : (maybeAddNodeFromRequest c src version ro req env.now).serverMode = c.serverMode := by
    unfold maybeAddNodeFromRequest
    split
    · split
      · unfold addRequester
        split
        · split <;> rfl
        · split <;> rfl
      · rfl
    · rfl
  have h2 := verifySelfPing_serverMode (maybeAddNodeFromRequest c src version ro req env.now) src req env.now
  unfold handleRequest
  split
  · rfl
  · unfold serveRequest
    split
    · exact h2.trans h1
    · exact h2.trans h1

theorem handleIncoming_mode2 (a : Actor) (env : Env) (handed : Option (Message × Addr)) :
    mode2 (a.handleIncoming env handed).1 = mode2 a := by
  unfold handleIncoming
  cases handed with
  | none => rfl
  | some p =>
    obtain ⟨m, src⟩ := p
    simp only
    cases hm : m.mtype with
    | request req =>
      simp only
      have hb : mode2 (sendReply { a with core := (handleRequest a.core env src m.readOnly m.version req).1 } src m.tid
          (handleRequest a.core env src m.readOnly m.version req).2.1) = mode2 a := by
        have := handleRequest_serverMode a.core env src m.readOnly m.version req
        unfold sendReply
        split <;> simp [mode2, reply, this]
      unfold handleIncomingRequest
      split
      · rw [(populate_quiet _ env.now).modes_eq]; exact hb
      · exact hb
    | response r => simp [mode2, (handleResponse_mode a.core env src m).1]
    | error e => simp [mode2, (handleResponse_mode a.core env src m).1]

theorem afterRecv_pickup_mode2 (a : Actor) (env : Env) (dgram : Option (Message × Addr)) (msg : Option ApiMsg) :
    mode2 ((a.afterRecv env dgram).pickup env msg) = mode2 a := by
  rw [(pickup_quiet _ env msg).modes_eq]
  unfold afterRecv
  rw [(finishTick_quiet _ env.now _).modes_eq, (visitClosestAll_quiet _ env.now).modes_eq]
  unfold preDone
  have h3 : ∀ (b : Actor) (v : Option (Id × Value)), mode2 (b.forwardValue v) = mode2 b := by
    intro b v
    unfold forwardValue
    split
    · split <;> rfl
    · rfl
  rw [h3, handleIncoming_mode2]
  unfold recvPhase
  cases dgram with
  | none => rfl
  | some p => rfl

/-- nothing ever switches a server back -/
theorem server_step (a : Actor) (hc : a.core.serverMode = true) (hs : a.sockServerMode = true)
    (env : Env) (dgram : Option (Message × Addr)) (msg : Option ApiMsg) :
    (a.step env dgram msg).core.serverMode = true ∧ (a.step env dgram msg).sockServerMode = true := by
  have h1 := afterRecv_pickup_mode2 a env dgram msg
  simp only [mode2, Prod.mk.injEq] at h1
  have h2 := server_stays_server ((a.afterRecv env dgram).pickup env msg) env.now (by rw [h1.2]; exact hc) (by rw [h1.1]; exact hs)
  exact h2

/-- **C18, every run.**  Start from a node in client mode and run its loop through any inputs.  If
    it is still a client at the end, it has put nothing but read-only requests on the wire during
    the whole run — not one reply — and what it stores for others never changed. -/
theorem client_run (ins : List StepIn) : ∀ (a : Actor), a.core.serverMode = false → a.sockServerMode = false →
    (runSteps a ins).sockServerMode = false →
    held (runSteps a ins) = held a ∧
    ∃ l, (runSteps a ins).out = a.out ++ l ∧ ∀ x ∈ l, (∃ r, x.2.mtype = .request r) ∧ x.2.readOnly = true := by
  unfold runSteps
  induction ins with
  | nil => intro a _ _ _; exact ⟨rfl, [], by simp, by intro x h; cases h⟩
  | cons i is ih =>
    intro a hc hs hend
    simp only [List.foldl_cons] at hend ⊢
    obtain ⟨k1, ⟨l1, e1, p1⟩, k3⟩ := client_step a hc hs i.env i.dgram i.msg
    -- the node is still a client after the first step: otherwise it would be a server at the end
    have hmid : (a.step i.env i.dgram i.msg).sockServerMode = false := by
      cases hmode : (a.step i.env i.dgram i.msg).sockServerMode with
      | false => rfl
      | true =>
        exfalso
        have hcore : (a.step i.env i.dgram i.msg).core.serverMode = true := by rw [← k3]; exact hmode
        have hmono : ∀ (l : List StepIn) (b : Actor), b.core.serverMode = true → b.sockServerMode = true →
            (l.foldl (fun a i => a.step i.env i.dgram i.msg) b).sockServerMode = true := by
          intro l
          induction l with
          | nil => intro b _ hb; exact hb
          | cons j js ihj =>
            intro b hbc hbs
            simp only [List.foldl_cons]
            obtain ⟨s1, s2⟩ := server_step b hbc hbs j.env j.dgram j.msg
            exact ihj _ s1 s2
        have := hmono is _ hcore hmode
        rw [this] at hend
        cases hend
    obtain ⟨i1, l2, e2, p2⟩ := ih _ (by rw [← k3]; exact hmid) hmid hend
    refine ⟨i1.trans k1, l1 ++ l2, by rw [e2, e1, List.append_assoc], ?_⟩
    intro x hx
    rcases List.mem_append.1 hx with h | h
    · exact ⟨(p1 x h).1, (p1 x h).2 hmid⟩
    · exact p2 x h

/-- a freshly created client is in client mode in the core and in the socket (it starts firewalled,
    so the first maintenance cannot switch it) -/
theorem create_client (cfg : NodeConfig) (hcfg : cfg.serverMode = false) (seed : UInt64) (now : Nat) :
    (Actor.create cfg seed now).core.serverMode = false ∧ (Actor.create cfg seed now).sockServerMode = false := by
  unfold Actor.create
  split <;>
  · simp only
    exact firewalled_client_stays_client _ now hcfg hcfg rfl

/-- non-vacuity: a freshly created client-mode node meets the hypotheses of `client_step` and
    `client_run`, whatever its configuration otherwise -/
example (boot : List Addr) (ip : Option UInt32) (seed : UInt64) (now : Nat) (ins : List StepIn)
    (hend : (runSteps (Actor.create { serverMode := false, bootstrap := boot, publicIp := ip } seed now) ins).sockServerMode = false) :
    ∃ l, (runSteps (Actor.create { serverMode := false, bootstrap := boot, publicIp := ip } seed now) ins).out
        = (Actor.create { serverMode := false, bootstrap := boot, publicIp := ip } seed now).out ++ l ∧
      ∀ x ∈ l, (∃ r, x.2.mtype = .request r) ∧ x.2.readOnly = true :=
  (client_run ins _ (create_client _ rfl seed now).1 (create_client _ rfl seed now).2 hend).2

end Mainline.Props.C18
