/-
  C03 for the whole node, the write path — "every other write is answered with the BEP error and leaves all
  stored state unchanged".

  `node_put_dichotomy`: in any state of a node, whatever put request arrives (any of the four kinds, any
  token, any payload, from anyone), at the end of that iteration of the loop EITHER the node has put a
  response — the acknowledgement — on the wire to the sender under the request's transaction id and its
  server holds exactly what was put (`C08Held.Held`), OR everything its server stores reads exactly as
  before (`C03.sameContents`: the three other stores are identical, every lookup in the mutable store
  returns what it returned).  There is no third outcome: no write that is both refused and remembered, no
  acknowledged write that is not held.
-/
import MainlineModel.Props.C08Held
import MainlineModel.Props.C03
import MainlineModel.Props.StoreLift
namespace Mainline.Props.C03Put
open Mainline Mainline.Actor Mainline.Props.C08Held

theorem same_of_held {a a' : Actor} (h : C18.held a' = C18.held a) : C03.sameContents a'.core.server a.core.server := by
  unfold C18.held at h
  simp only [Prod.mk.injEq] at h
  exact ⟨h.2.2.1, h.1, h.2.1, fun t => by rw [h.2.2.2]⟩

theorem same_trans {a b c : Server} (h1 : C03.sameContents a b) (h2 : C03.sameContents b c) : C03.sameContents a c :=
  ⟨h1.1.trans h2.1, h1.2.1.trans h2.2.1, h1.2.2.1.trans h2.2.2.1, fun t => (h1.2.2.2 t).trans (h2.2.2.2 t)⟩

/-- the server's side: a put that is not acknowledged leaves the contents as they were -/
theorem server_put_refused (s : Server) (verify : Verify) (allow : Allow) (rt srt : RoutingTable) (src : Addr)
    (now wall : Nat) (rid : Id) (token : Bytes) (spec : PutSpec)
    (h : ∀ r, (s.handleRequest verify allow rt srt src now wall ⟨rid, .put token spec⟩).2 ≠ some (.response r)) :
    C03.sameContents (s.handleRequest verify allow rt srt src now wall ⟨rid, .put token spec⟩).1 s := by
  unfold Server.handleRequest at h ⊢
  split
  · exact C03.sameContents_refl s
  · rename_i hal
    simp only [hal, Bool.false_eq_true, ite_false] at h
    generalize hs0 : (if s.tokens.shouldUpdate now = true then
        ({ s with tokens := (s.tokens.rotate s.rng now).1, rng := (s.tokens.rotate s.rng now).2 } : Server) else s) = s0 at h ⊢
    have h0 : C03.sameContents s0 s := by
      rw [← hs0]; split
      · exact ⟨rfl, rfl, rfl, fun _ => rfl⟩
      · exact C03.sameContents_refl s
    simp only
    refine same_trans (C03.reject_changes_nothing s0 verify rt src wall rid token spec ?_) h0
    intro hok
    exact h (.ping rt.id) (by rw [hok])

/-- `Core::handle_request` on a put: acknowledged and held, or nothing changed -/
theorem core_put_dichotomy (c : Core) (env : Env) (src : Addr) (ro : Bool) (version : Option Bytes) (rid : Id)
    (token : Bytes) (spec : PutSpec) :
    (∃ r, (handleRequest c env src ro version ⟨rid, .put token spec⟩).2.1 = some (.response r)) ∨
    C03.sameContents (handleRequest c env src ro version ⟨rid, .put token spec⟩).1.server c.server := by
  by_cases hr : ∃ r, (handleRequest c env src ro version ⟨rid, .put token spec⟩).2.1 = some (.response r)
  · exact Or.inl hr
  · right
    unfold handleRequest at hr ⊢
    split
    · exact C03.sameContents_refl _
    · rename_i hal
      simp only [hal, Bool.false_eq_true, ite_false] at hr
      obtain ⟨e1, e2, e3, e4⟩ := C18.verifySelfPing_stores (maybeAddNodeFromRequest c src version ro ⟨rid, .put token spec⟩ env.now) src
        ⟨rid, .put token spec⟩ env.now
      rw [StoreLift.maybeAdd_server] at e1 e2 e3 e4
      generalize (verifySelfPing (maybeAddNodeFromRequest c src version ro ⟨rid, .put token spec⟩ env.now) src
        ⟨rid, .put token spec⟩ env.now).1 = c2 at hr e1 e2 e3 e4
      generalize (verifySelfPing (maybeAddNodeFromRequest c src version ro ⟨rid, .put token spec⟩ env.now) src
        ⟨rid, .put token spec⟩ env.now).2 = b at hr
      have h2 : C03.sameContents c2.server c.server := ⟨e3, e1, e2, fun t => by rw [e4]⟩
      unfold serveRequest at hr ⊢
      split
      · rename_i hs
        simp only [hs, ite_true] at hr
        refine same_trans (server_put_refused c2.server env.verify c2.allow c2.rt c2.srt src env.now env.wall rid token spec ?_) h2
        intro r hx
        exact hr ⟨r, hx⟩
      · exact h2

/-- **Acknowledged and held, or nothing changed.** -/
theorem node_put_dichotomy (a : Actor) (env : Env) (m : Message) (src : Addr) (msg : Option ApiMsg)
    (rid : Id) (token : Bytes) (spec : PutSpec) (hm : m.mtype = .request ⟨rid, .put token spec⟩) :
    (∃ l, (a.step env (some (m, src)) msg).out = a.out ++ l ∧
        (∃ x ∈ l, x.1 = src ∧ x.2.tid = m.tid ∧ ∃ r, x.2.mtype = .response r) ∧
        Held (a.step env (some (m, src)) msg).core.server rid src spec) ∨
    C03.sameContents (a.step env (some (m, src)) msg).core.server a.core.server := by
  have ht := rest_tail (a.preDone env (some (m, src))) env ((a.preDone env (some (m, src))).checkDonePuts env.now) msg
  obtain ⟨lt, et, pt⟩ := ht.sent
  have hstep : (a.step env (some (m, src)) msg).out = (a.preDone env (some (m, src))).out ++ lt := by
    unfold Actor.step afterRecv
    exact et
  have hheld : C18.held (a.step env (some (m, src)) msg) = C18.held (a.preDone env (some (m, src))) := by
    unfold Actor.step afterRecv
    exact ht.stores
  rcases preDone_out a env (some (m, src)) with ⟨hh, _⟩ | ⟨m', src', req, hd, hm', hst, l0, l', e, _, h0⟩
  · exact Or.inr (same_of_held (hheld.trans hh))
  · simp only [Option.some.injEq, Prod.mk.injEq] at hd
    obtain ⟨rfl, rfl⟩ := hd
    rw [hm] at hm'
    injection hm' with hm'
    subst hm'
    have hfin : C18.held (a.step env (some (m, src)) msg)
        = heldC (handleRequest a.core env src m.readOnly m.version ⟨rid, .put token spec⟩).1 := hheld.trans hst
    rcases core_put_dichotomy a.core env src m.readOnly m.version rid token spec with ⟨r, hr⟩ | hsame
    · -- acknowledged: the reply is on the wire and the value is held
      left
      have hcore := core_ack_held a.core env src m.readOnly m.version rid token spec r hr
      refine ⟨l0 ++ l' ++ lt, by rw [hstep, e]; simp [List.append_assoc], ?_, ?_⟩
      · -- `l0` holds the reply: `handle_request` answered, so `sendReply` appended it
        rcases h0 with ⟨hn, _⟩ | ⟨x, e0, hx1, hx2, hx3⟩
        · rw [hr] at hn; cases hn
        · refine ⟨x, ?_, hx1, hx2, ?_⟩
          · rw [e0]; simp
          · rcases hx3 with ⟨r', _, h2⟩ | ⟨code, e', h1, _⟩
            · exact ⟨r', h2⟩
            · rw [hr] at h1; cases h1
      · unfold C18.held heldC at hfin
        simp only [Prod.mk.injEq] at hfin
        exact held_of_stores hfin.1 hfin.2.1 hfin.2.2.1 hfin.2.2.2 rid src spec hcore
    · right
      have : C03.sameContents (a.step env (some (m, src)) msg).core.server
          (handleRequest a.core env src m.readOnly m.version ⟨rid, .put token spec⟩).1.server := by
        unfold C18.held heldC at hfin
        simp only [Prod.mk.injEq] at hfin
        exact ⟨hfin.2.2.1, hfin.1, hfin.2.1, fun t => by rw [hfin.2.2.2]⟩
      exact same_trans this hsame

end Mainline.Props.C03Put
