/-
  C09 for every reachable state of the whole node.

  The socket theorems of `Props/C09.lean` are stated for tables satisfying the wrap-aware invariant
  `Inflight.Inv`.  `Lemmas/TimeLemmas.lean` proves the invariant for the socket of the actor after
  every iteration of its loop (`step_sockOk`), `Props/C06Time.lean` for every run from the node's
  creation (`reachable_ready`).  Here the two are put together: in every reachable state — any
  datagrams, any API calls before — a response or error is handed to the core exactly when an
  outstanding, unexpired request carries its transaction id and went to the address it comes from;
  anything else leaves core, callers and log untouched.  Hypotheses (as everywhere for the socket):
  the clock does not run backwards and the `u32` id counter has not wrapped.
-/
import MainlineModel.Props.C09
import MainlineModel.Props.C06Time
namespace Mainline.Props.C09Node
open Mainline Mainline.Actor Mainline.Props.C06Time

/-- **Attribution in every reachable state.** -/
theorem reachable_attribution (T : Nat) (cfg : NodeConfig) (seed : UInt64) (t0 : Nat)
    (hb0 : cfg.firstTid % two32 + (Actor.create cfg seed t0).out.length < two32)
    (ins : List StepIn) (hok : RunOk T (Actor.create cfg seed t0) t0 ins)
    (now : Nat) (m : Message) (src : Addr) (hk : ∀ r, m.mtype ≠ .request r) :
    ((runSteps (Actor.create cfg seed t0) ins).recvPhase now (some (m, src))).2 = some (m, src) ↔
      src.port ≠ 0 ∧ ∃ r ∈ (runSteps (Actor.create cfg seed t0) ins).sock.requests,
        C09.Answers r m.tid.toNat src ∧ (runSteps (Actor.create cfg seed t0) ins).sock.live r now = true :=
  C09.handed_up_iff _ (reachable_ready T cfg seed t0 hb0 ins hok).sock.ord.inv now m src hk

/-- **No effect in every reachable state**: a response or error that answers no outstanding,
    unexpired request from its source address changes neither the core (query results, candidate
    lists, routing tables, address votes, stores) nor the parked callers nor the log of the node. -/
theorem reachable_spoof_no_effect (T : Nat) (cfg : NodeConfig) (seed : UInt64) (t0 : Nat)
    (hb0 : cfg.firstTid % two32 + (Actor.create cfg seed t0).out.length < two32)
    (ins : List StepIn) (hok : RunOk T (Actor.create cfg seed t0) t0 ins)
    (env : Env) (m : Message) (src : Addr) (hk : ∀ r, m.mtype ≠ .request r)
    (hno : ¬ ∃ r ∈ (runSteps (Actor.create cfg seed t0) ins).sock.requests,
        C09.Answers r m.tid.toNat src ∧ (runSteps (Actor.create cfg seed t0) ins).sock.live r env.now = true) :
    ((runSteps (Actor.create cfg seed t0) ins).preDone env (some (m, src))).core = (runSteps (Actor.create cfg seed t0) ins).core ∧
    ((runSteps (Actor.create cfg seed t0) ins).preDone env (some (m, src))).events = (runSteps (Actor.create cfg seed t0) ins).events ∧
    ((runSteps (Actor.create cfg seed t0) ins).preDone env (some (m, src))).getSenders = (runSteps (Actor.create cfg seed t0) ins).getSenders ∧
    ((runSteps (Actor.create cfg seed t0) ins).preDone env (some (m, src))).putSenders = (runSteps (Actor.create cfg seed t0) ins).putSenders ∧
    ((runSteps (Actor.create cfg seed t0) ins).preDone env (some (m, src))).out = (runSteps (Actor.create cfg seed t0) ins).out := by
  apply C09.dropped_datagram_no_effect
  have hiff := reachable_attribution T cfg seed t0 hb0 ins hok env.now m src hk
  cases hh : ((runSteps (Actor.create cfg seed t0) ins).recvPhase env.now (some (m, src))).2 with
  | none => rfl
  | some p =>
    obtain ⟨pm, ps⟩ := p
    have hd := C07.recvPhase_handed _ env.now (some (m, src)) pm ps hh
    injection hd with hd
    injection hd with h1 h2
    subst h1; subst h2
    exact absurd (hiff.1 hh).2 hno

end Mainline.Props.C09Node
