/-
  C16 — get_mutable_most_recent returns the newest item seen.

  `mostRecent` is the literal fold of both facades (after the `fix:` commit).  For every list of
  delivered items, of any length and in any arrival order: the result is `none` only for the empty
  list, is one of the delivered items, has the maximum seq, among the items of that seq has the
  greatest value (byte-lexicographic), and is the same for every permutation of the deliveries.
-/
import MainlineModel.Model.Api
import MainlineModel.Gen.FacadeTwins
import MainlineModel.Lemmas.IdLemmas
namespace Mainline.Props.C16
open Mainline Mainline.Api

/-- (seq, value) order, value compared byte-lexicographically -/
def le (a b : Item) : Prop :=
  a.seq < b.seq ∨ (a.seq = b.seq ∧ bytesCmp a.value b.value ≠ .gt)

theorem newer_iff (item mr : Item) : newer item mr = true ↔ ¬ le item mr := by
  unfold newer le
  simp only [Bool.or_eq_true, decide_eq_true_eq, Bool.and_eq_true, beq_iff_eq, not_or, not_and]
  constructor
  · rintro (h | ⟨h1, h2⟩)
    · exact ⟨by omega, fun e => by omega⟩
    · exact ⟨by omega, fun _ hc => hc h2⟩
  · rintro ⟨h1, h2⟩
    by_cases e : item.seq = mr.seq
    · exact Or.inr ⟨e, Classical.byContradiction (fun hc => h2 e hc)⟩
    · exact Or.inl (by omega)

theorem le_refl (a : Item) : le a a := by
  right; refine ⟨rfl, ?_⟩
  rw [(Id.bytesCmp_eq_iff _ _).2 rfl]; intro h; cases h

theorem le_total (a b : Item) : le a b ∨ le b a := by
  unfold le
  rcases Int.lt_trichotomy a.seq b.seq with h | h | h
  · exact Or.inl (Or.inl h)
  · cases hc : bytesCmp a.value b.value with
    | lt => exact Or.inl (Or.inr ⟨h, by simp⟩)
    | eq => exact Or.inl (Or.inr ⟨h, by simp⟩)
    | gt =>
      right; right
      refine ⟨h.symm, ?_⟩
      have := (Id.bytesCmp_gt_iff_lt _ _).1 hc
      rw [this]; intro h'; cases h'
  · exact Or.inr (Or.inl h)

theorem bytesCmp_lt_trans' (x y z : Bytes) (h1 : bytesCmp x y = .lt) (h2 : bytesCmp y z = .lt) :
    bytesCmp x z = .lt := by
  induction x generalizing y z with
  | nil =>
    cases y with
    | nil => simp [bytesCmp] at h1
    | cons b y => cases z with
      | nil => simp [bytesCmp] at h2
      | cons c z => simp [bytesCmp]
  | cons a x ih =>
    cases y with
    | nil => simp [bytesCmp] at h1
    | cons b y =>
      cases z with
      | nil => simp [bytesCmp] at h2
      | cons c z =>
        simp only [bytesCmp] at *
        by_cases hab : a < b
        · by_cases hbc : b < c
          · have : a < c := UInt8.lt_iff_toNat_lt.2 (by
              have := UInt8.lt_iff_toNat_lt.1 hab; have := UInt8.lt_iff_toNat_lt.1 hbc; omega)
            simp [this]
          · simp only [hbc, ite_false] at h2
            by_cases hcb : c < b
            · simp [hcb] at h2
            · simp only [hcb, ite_false] at h2
              have hbc' : b = c := UInt8.toNat_inj.1 (by
                have h1 : ¬ b.toNat < c.toNat := fun h => hbc (UInt8.lt_iff_toNat_lt.2 h)
                have h2 : ¬ c.toNat < b.toNat := fun h => hcb (UInt8.lt_iff_toNat_lt.2 h)
                omega)
              subst hbc'; simp [hab]
        · simp only [hab, ite_false] at h1
          by_cases hba : b < a
          · simp [hba] at h1
          · simp only [hba, ite_false] at h1
            have heq : a = b := UInt8.toNat_inj.1 (by
              have h1 : ¬ a.toNat < b.toNat := fun h => hab (UInt8.lt_iff_toNat_lt.2 h)
              have h2 : ¬ b.toNat < a.toNat := fun h => hba (UInt8.lt_iff_toNat_lt.2 h)
              omega)
            subst heq
            by_cases hac : a < c
            · simp [hac]
            · simp only [hac, ite_false] at h2 ⊢
              by_cases hca : c < a
              · simp [hca] at h2
              · simp only [hca, ite_false] at h2 ⊢
                exact ih y z h1 h2

theorem bytesCmp_le_trans (x y z : Bytes) (h1 : bytesCmp x y ≠ .gt) (h2 : bytesCmp y z ≠ .gt) :
    bytesCmp x z ≠ .gt := by
  cases c1 : bytesCmp x y with
  | gt => exact absurd c1 h1
  | eq =>
    rw [(Id.bytesCmp_eq_iff _ _).1 c1]; exact h2
  | lt =>
    cases c2 : bytesCmp y z with
    | gt => exact absurd c2 h2
    | eq => rw [← (Id.bytesCmp_eq_iff _ _).1 c2, c1]; intro h; cases h
    | lt => rw [bytesCmp_lt_trans' x y z c1 c2]; intro h; cases h

theorem le_trans {a b c : Item} (h1 : le a b) (h2 : le b c) : le a c := by
  unfold le at *
  rcases h1 with h1 | ⟨e1, c1⟩ <;> rcases h2 with h2 | ⟨e2, c2⟩
  · left; omega
  · left; omega
  · left; omega
  · right; exact ⟨by omega, bytesCmp_le_trans _ _ _ c1 c2⟩

theorem le_antisymm {a b : Item} (h1 : le a b) (h2 : le b a) : a = b := by
  unfold le at *
  rcases h1 with h1 | ⟨e1, c1⟩ <;> rcases h2 with h2 | ⟨e2, c2⟩
  · omega
  · omega
  · omega
  · have hv : a.value = b.value := by
      cases hc : bytesCmp a.value b.value with
      | eq => exact (Id.bytesCmp_eq_iff _ _).1 hc
      | gt => exact absurd hc c1
      | lt =>
        have := (Id.bytesCmp_gt_iff_lt b.value a.value).2 hc
        exact absurd this c2
    cases a; cases b; simp_all

/-- invariant of the fold: the accumulator is a delivered item that dominates all delivered ones -/
theorem fold_spec (xs : List Item) :
    ∀ (acc : Option Item) (seen : List Item),
      (match acc with
       | none => seen = []
       | some m => m ∈ seen ∧ ∀ x ∈ seen, le x m) →
      match xs.foldl mostRecentStep acc with
      | none => seen ++ xs = []
      | some m => m ∈ seen ++ xs ∧ ∀ x ∈ seen ++ xs, le x m := by
  induction xs with
  | nil => intro acc seen h; simpa using h
  | cons y ys ih =>
    intro acc seen h
    simp only [List.foldl_cons]
    have := ih (mostRecentStep acc y) (seen ++ [y]) (by
      cases acc with
      | none =>
        simp only at h; subst h
        simp only [mostRecentStep, List.nil_append, List.mem_singleton, true_and]
        intro x hx; rw [hx]; exact le_refl y
      | some m =>
        simp only at h
        unfold mostRecentStep
        by_cases hn : newer y m = true
        · simp only [hn, ite_true]
          have hlt : le m y := by
            rcases le_total y m with h' | h'
            · exact absurd h' ((newer_iff y m).1 hn)
            · exact h'
          refine ⟨by simp, ?_⟩
          intro x hx
          rcases List.mem_append.1 hx with hx | hx
          · exact le_trans (h.2 x hx) hlt
          · have : x = y := by simpa using hx
            rw [this]; exact le_refl y
        · simp only [hn, Bool.false_eq_true, ite_false]
          have hle : le y m := by
            by_cases hl : le y m
            · exact hl
            · exact absurd ((newer_iff y m).2 hl) hn
          refine ⟨List.mem_append_left _ h.1, ?_⟩
          intro x hx
          rcases List.mem_append.1 hx with hx | hx
          · exact h.2 x hx
          · have : x = y := by simpa using hx
            rw [this]; exact hle)
    simpa [List.append_assoc] using this

theorem mostRecent_spec (xs : List Item) :
    match mostRecent xs with
    | none => xs = []
    | some m => m ∈ xs ∧ ∀ x ∈ xs, le x m := by
  have := fold_spec xs none [] rfl
  simpa [mostRecent] using this

/-- `None` only if no item was delivered -/
theorem mostRecent_none_iff (xs : List Item) : mostRecent xs = none ↔ xs = [] := by
  constructor
  · intro h; have := mostRecent_spec xs; rw [h] at this; exact this
  · intro h; subst h; rfl

/-- the result is one of the delivered items -/
theorem mostRecent_mem (xs : List Item) (m : Item) (h : mostRecent xs = some m) : m ∈ xs := by
  have := mostRecent_spec xs; rw [h] at this; exact this.1

/-- its seq is the maximum over all delivered items -/
theorem mostRecent_max_seq (xs : List Item) (m : Item) (h : mostRecent xs = some m) :
    ∀ x ∈ xs, x.seq ≤ m.seq := by
  have := mostRecent_spec xs; rw [h] at this
  intro x hx
  rcases this.2 x hx with h' | ⟨h', _⟩ <;> omega

/-- ties between different values of the maximal seq are broken towards the greatest value -/
theorem mostRecent_tie (xs : List Item) (m : Item) (h : mostRecent xs = some m) :
    ∀ x ∈ xs, x.seq = m.seq → bytesCmp x.value m.value ≠ .gt := by
  have := mostRecent_spec xs; rw [h] at this
  intro x hx he
  rcases this.2 x hx with h' | ⟨_, h'⟩
  · omega
  · exact h'

/-- **every arrival order gives the same answer** -/
theorem mostRecent_perm (xs ys : List Item) (hp : xs.Perm ys) : mostRecent xs = mostRecent ys := by
  have h1 := mostRecent_spec xs
  have h2 := mostRecent_spec ys
  cases e1 : mostRecent xs with
  | none =>
    rw [e1] at h1; subst h1
    have : ys = [] := List.Perm.nil_eq hp |>.symm ▸ rfl
    subst this; rfl
  | some m1 =>
    cases e2 : mostRecent ys with
    | none =>
      rw [e2] at h2; subst h2
      have : xs = [] := by simpa using hp.length_eq
      subst this; simp [mostRecent] at e1
    | some m2 =>
      rw [e1] at h1; rw [e2] at h2
      have a := h2.2 m1 (hp.subset h1.1)
      have b := h1.2 m2 (hp.symm.subset h2.1)
      rw [le_antisymm a b]

/-! ### Non-vacuity (tests, labelled as tests) -/

/-- the witness of the defect repaired by the `fix:` commit: [seq 1, seq 2] now yields seq 2 -/
example : (mostRecent [⟨1, [1]⟩, ⟨2, [2]⟩]).map (·.seq) = some 2 := by decide +kernel
example : (mostRecent [⟨3, [1]⟩, ⟨3, [2]⟩, ⟨1, [9]⟩]).map (·.value) = some [2] := by decide +kernel


/-- **T1 obligation — the two facades are twins.**  The correspondence streams drive the async facade
    (`AsyncDht`); the sync facade (`Dht`) is covered through this obligation: method by method its body
    equals the async one after normalisation (`.await`, `recv_async`, stream/iterator wrappers), as read
    from the working tree by `tools/facade_twins.py` on every run. -/
theorem facade_twins_agree : Mainline.Gen.facadeTwins.all (·.2) = true := by decide

end Mainline.Props.C16
