/-
  C20 — Bounded state: no leaks at quiescence, caps respected, stats consistent.

  Model: `Actor.cacheQuery` / `decrementCached` (`Core::cache_iterative_query`,
  `decrement_cached_iterative_query_stats`, after the `fix:` commit), the `Lru` model of the `lru`
  crate (`Model/Lru.lean`, shared with the stores of C04), `Inflight.cleanup`, and the release of
  callers in `Actor.afterRecv`.
  The statistics' integer counters are proved equal to the aggregate over the cached lookups — for
  one caching step (`cacheQuery_ok`), for one iteration of the whole node's loop (`step_statsOk`) and
  for every reachable state of a node (`reachable_statsOk`); the
  two `f64` sums are updated by the same paired `+=` / `-=` on the same entries (they are compared
  with the code bit-for-bit, up to summation order, by the `node` correspondence stream).
-/
import MainlineModel.Lemmas.ActorLemmas
import MainlineModel.Lemmas.LruLemmas
import MainlineModel.Lemmas.SocketLemmas
namespace Mainline.Props.C20
open Mainline Mainline.Actor

/-! ### aggregates over the cached lookups -/

/-- sum of a weight over the cache entries -/
def agg (w : CachedQuery → Nat) (items : List (Id × CachedQuery)) : Nat := (items.map fun p => w p.2).sum

/-- weights: does the entry count in the size-estimate sample / the responders sample / with how
    many subnets, for the basic (`signed = false`) or the signed-peers (`signed = true`) table -/
def estW (signed : Bool) (e : CachedQuery) : Nat := if e.kind.isSigned == signed then 1 else 0
def respW (signed : Bool) (e : CachedQuery) : Nat :=
  if e.kind.isSigned == signed && !e.kind.isFindNode then 1 else 0
def subW (signed : Bool) (e : CachedQuery) : Nat :=
  if e.kind.isSigned == signed && !e.kind.isFindNode then e.subnets else 0

theorem agg_cons (w : CachedQuery → Nat) (p : Id × CachedQuery) (l : List (Id × CachedQuery)) :
    agg w (p :: l) = w p.2 + agg w l := by simp [agg]

theorem agg_append (w : CachedQuery → Nat) (a b : List (Id × CachedQuery)) :
    agg w (a ++ b) = agg w a + agg w b := by simp [agg]

/-- with one entry per key, the entry for `k` can be split off -/
theorem agg_split (w : CachedQuery → Nat) (items : List (Id × CachedQuery))
    (hnd : items.Pairwise (fun a b => a.1 ≠ b.1)) (k : Id) (e : CachedQuery) (h : (k, e) ∈ items) :
    agg w items = w e + agg w (items.filter fun q => q.1 != k) := by
  induction items with
  | nil => cases h
  | cons x xs ih =>
    rw [List.pairwise_cons] at hnd
    rcases List.mem_cons.1 h with rfl | hm
    · have hf : xs.filter (fun q => q.1 != k) = xs := by
        rw [List.filter_eq_self]
        intro q hq
        have := hnd.1 q hq
        simpa using fun e => this e.symm
      simp [agg_cons, List.filter_cons, hf]
    · have hne : x.1 ≠ k := hnd.1 (k, e) hm
      have : (x.1 != k) = true := by simpa using hne
      simp only [List.filter_cons, this, ite_true, agg_cons]
      rw [ih hnd.2 hm]; omega

theorem filter_absent (items : List (Id × CachedQuery)) (k : Id)
    (h : ∀ p ∈ items, p.1 ≠ k) : items.filter (fun q => q.1 != k) = items := by
  rw [List.filter_eq_self]
  intro q hq
  simpa using h q hq

/-! ### the invariant -/

structure StatsOk (c : Core) : Prop where
  est : c.stats.estCount = agg (estW false) c.cache.items
  resp : c.stats.respCount = agg (respW false) c.cache.items
  sub : c.stats.subnetsSum = agg (subW false) c.cache.items
  sest : c.sstats.estCount = agg (estW true) c.cache.items
  sresp : c.sstats.respCount = agg (respW true) c.cache.items
  ssub : c.sstats.subnetsSum = agg (subW true) c.cache.items
  noUnderflow : c.stats.underflow = false ∧ c.sstats.underflow = false
  nodup : c.cache.items.Pairwise (fun a b => a.1 ≠ b.1)
  cap : c.cache.cap = Constants.MAX_CACHED_ITERATIVE_QUERIES
  bounded : c.cache.items.length ≤ Constants.MAX_CACHED_ITERATIVE_QUERIES

/-- the six counters as a function of the cached entries `items` (the float sums aside) -/
def Agrees (c : Core) (items : List (Id × CachedQuery)) : Prop :=
  c.stats.estCount = agg (estW false) items ∧ c.stats.respCount = agg (respW false) items ∧
  c.stats.subnetsSum = agg (subW false) items ∧ c.sstats.estCount = agg (estW true) items ∧
  c.sstats.respCount = agg (respW true) items ∧ c.sstats.subnetsSum = agg (subW true) items ∧
  c.stats.underflow = false ∧ c.sstats.underflow = false

theorem kind_cases (k : GetKind) :
    (k.isFindNode = true ∧ k.isSigned = false) ∨ (k.isFindNode = false ∧ k.isSigned = true) ∨
    (k.isFindNode = false ∧ k.isSigned = false) := by
  cases k <;> simp [GetKind.isFindNode, GetKind.isSigned]

/-- removing an entry's contribution: if the counters agree with `e`'s weights plus `rest`, then
    after `decrementCached` they agree with `rest`, and nothing underflowed -/
theorem decrement_agrees (c : Core) (e : CachedQuery) (rest : List (Id × CachedQuery)) (k : Id)
    (h : Agrees c ((k, e) :: rest)) : Agrees (decrementCached c (some e)) rest := by
  obtain ⟨h1, h2, h3, h4, h5, h6, h7, h8⟩ := h
  simp only [agg_cons] at h1 h2 h3 h4 h5 h6
  unfold decrementCached
  rcases kind_cases e.kind with ⟨hf, hs⟩ | ⟨hf, hs⟩ | ⟨hf, hs⟩
  · simp only [hf, ite_true]
    simp only [estW, respW, subW, hf, hs] at h1 h2 h3 h4 h5 h6
    simp only [Stats.decrementDhtSize, Stats.dec]
    refine ⟨?_, ?_, ?_, ?_, ?_, ?_, ?_, h8⟩ <;> simp_all <;> omega
  · simp only [hf, hs, Bool.false_eq_true, ite_false, ite_true]
    simp only [estW, respW, subW, hf, hs] at h1 h2 h3 h4 h5 h6
    simp only [Stats.decrementResponders, Stats.dec]
    refine ⟨?_, ?_, ?_, ?_, ?_, ?_, h7, ?_⟩ <;> simp_all <;> omega
  · simp only [hf, hs, Bool.false_eq_true, ite_false]
    simp only [estW, respW, subW, hf, hs] at h1 h2 h3 h4 h5 h6
    simp only [Stats.decrementResponders, Stats.dec]
    refine ⟨?_, ?_, ?_, ?_, ?_, ?_, ?_, h8⟩ <;> simp_all <;> omega

/-- adding an entry's contribution -/
theorem increment_agrees (c : Core) (e : CachedQuery) (rest : List (Id × CachedQuery)) (k : Id)
    (h : Agrees c rest) :
    Agrees (countEntry c e) ((k, e) :: rest) := by
  obtain ⟨h1, h2, h3, h4, h5, h6, h7, h8⟩ := h
  unfold Agrees countEntry
  simp only [agg_cons]
  rcases kind_cases e.kind with ⟨hf, hs⟩ | ⟨hf, hs⟩ | ⟨hf, hs⟩
  · simp only [hf, ite_true, estW, respW, subW, hs, Stats.incrementDhtSize]
    refine ⟨?_, ?_, ?_, ?_, ?_, ?_, h7, h8⟩ <;> simp_all <;> omega
  · simp only [hf, hs, Bool.false_eq_true, ite_false, ite_true, estW, respW, subW, Stats.incrementResponders]
    refine ⟨?_, ?_, ?_, ?_, ?_, ?_, h7, h8⟩ <;> simp_all <;> omega
  · simp only [hf, hs, Bool.false_eq_true, ite_false, estW, respW, subW, Stats.incrementResponders]
    refine ⟨?_, ?_, ?_, ?_, ?_, ?_, h7, h8⟩ <;> simp_all <;> omega

theorem decrementCached_cache (c : Core) (e : Option CachedQuery) : (decrementCached c e).cache = c.cache := by
  unfold decrementCached
  split
  · split
    · rfl
    · split <;> rfl
  · rfl

theorem agrees_of_cache_irrelevant (c c' : Core) (items : List (Id × CachedQuery))
    (h1 : c'.stats = c.stats) (h2 : c'.sstats = c.sstats) (h : Agrees c items) : Agrees c' items := by
  unfold Agrees at *
  rw [h1, h2]; exact h

theorem agrees_rotate (c : Core) (init : List (Id × CachedQuery)) (last : Id × CachedQuery)
    (h : Agrees c (init ++ [last])) : Agrees c (last :: init) := by
  obtain ⟨h1, h2, h3, h4, h5, h6, h7, h8⟩ := h
  have key : ∀ w, agg w (init ++ [last]) = agg w (last :: init) := by
    intro w; simp [agg]; omega
  simp only [key] at h1 h2 h3 h4 h5 h6
  exact ⟨h1, h2, h3, h4, h5, h6, h7, h8⟩

theorem cache_find_none_absent (cache : Lru Id CachedQuery) (k : Id) (h : cache.find? k = none) :
    ∀ p ∈ cache.items, p.1 ≠ k := by
  intro p hp e
  unfold Lru.find? at h
  rw [Option.map_eq_none_iff, List.find?_eq_none] at h
  exact h p hp (by simp [e])

theorem statsOk_of (c : Core) (hA : Agrees c c.cache.items)
    (hnd : c.cache.items.Pairwise (fun a b => a.1 ≠ b.1))
    (hcap : c.cache.cap = Constants.MAX_CACHED_ITERATIVE_QUERIES)
    (hb : c.cache.items.length ≤ Constants.MAX_CACHED_ITERATIVE_QUERIES) : StatsOk c := by
  obtain ⟨h1, h2, h3, h4, h5, h6, h7, h8⟩ := hA
  exact ⟨h1, h2, h3, h4, h5, h6, ⟨h7, h8⟩, hnd, hcap, hb⟩

theorem agrees_of_statsOk (c : Core) (h : StatsOk c) : Agrees c c.cache.items :=
  ⟨h.est, h.resp, h.sub, h.sest, h.sresp, h.ssub, h.noUnderflow.1, h.noUnderflow.2⟩

theorem evictIfFull_ok (c : Core) (h : StatsOk c) :
    StatsOk (evictIfFull c) ∧ (evictIfFull c).cache.items.length < Constants.MAX_CACHED_ITERATIVE_QUERIES := by
  unfold evictIfFull
  split
  · rename_i hfull
    have hlen : c.cache.items.length = Constants.MAX_CACHED_ITERATIVE_QUERIES := by
      have := h.bounded
      simp only [Lru.len] at hfull
      omega
    -- the list has a last element
    cases hl : c.cache.items.getLast? with
    | none =>
      rw [List.getLast?_eq_none_iff] at hl
      rw [hl] at hlen
      exact absurd hlen (by decide)
    | some last =>
      have hsplit : c.cache.items = c.cache.items.dropLast ++ [last] := by
        have hne : c.cache.items ≠ [] := by
          intro e; rw [e] at hl; cases hl
        have h1 := List.dropLast_concat_getLast hne
        have h2 : c.cache.items.getLast hne = last := by
          rw [List.getLast?_eq_some_getLast hne] at hl
          injection hl
        rw [h2] at h1
        exact h1.symm
      have hpop : c.cache.popLru = ({ c.cache with items := c.cache.items.dropLast }, some last) := by
        simp [Lru.popLru, hl]
      rw [hpop]
      simp only [Option.map_some]
      have hA := agrees_of_statsOk c h
      rw [hsplit] at hA
      have hA' : Agrees { c with cache := { c.cache with items := c.cache.items.dropLast } }
          (last :: c.cache.items.dropLast) :=
        agrees_of_cache_irrelevant c _ _ rfl rfl (agrees_rotate c _ last hA)
      have hD := decrement_agrees _ last.2 c.cache.items.dropLast last.1 hA'
      have hcache := decrementCached_cache
        { c with cache := { c.cache with items := c.cache.items.dropLast } } (some last.2)
      have hlen' : c.cache.items.dropLast.length < Constants.MAX_CACHED_ITERATIVE_QUERIES := by
        rw [List.length_dropLast, hlen]; decide
      refine ⟨statsOk_of _ (by rw [hcache]; exact hD) ?_ ?_ ?_, ?_⟩
      · rw [hcache]; exact h.nodup.sublist (List.dropLast_sublist _)
      · rw [hcache]; exact h.cap
      · rw [hcache]; exact Nat.le_of_lt hlen'
      · rw [hcache]; exact hlen'
  · rename_i hnot
    refine ⟨h, ?_⟩
    simp only [Lru.len] at hnot
    omega

theorem countEntry_cache (c : Core) (e : CachedQuery) : (countEntry c e).cache = c.cache := by
  unfold countEntry
  split
  · rfl
  · split <;> rfl

/-- **The statistics always equal the aggregate over the cached lookups, never underflow, and the
    cache never exceeds its capacity**: caching a finished lookup preserves the invariant. -/
theorem cacheQuery_ok (c : Core) (h : StatsOk c) (q : IterQuery) (nodes : List Node) :
    StatsOk (cacheQuery c q nodes) := by
  unfold cacheQuery
  obtain ⟨h1, hlt⟩ := evictIfFull_ok c h
  split
  · exact h1
  · generalize evictIfFull c = c1 at h1 hlt
    generalize mkEntry q nodes = entry
    have hA1 := agrees_of_statsOk c1 h1
    have hcacheEq : (countEntry (decrementCached { c1 with cache := c1.cache.put q.target entry }
        (c1.cache.find? q.target)) entry).cache = c1.cache.put q.target entry := by
      rw [countEntry_cache, decrementCached_cache]
    cases hprev : c1.cache.find? q.target with
    | none =>
      have habs := cache_find_none_absent c1.cache q.target hprev
      have hput : (c1.cache.put q.target entry).items = (q.target, entry) :: c1.cache.items := by
        unfold Lru.put
        have hany : c1.cache.items.any (fun p => p.1 == q.target) = false := by
          rw [List.any_eq_false]
          intro p hp
          simpa using habs p hp
        have hcap : ¬ c1.cache.items.length ≥ c1.cache.cap := by rw [h1.cap]; omega
        simp [hany, hcap]
      have hA2 : Agrees (decrementCached { c1 with cache := c1.cache.put q.target entry } none) c1.cache.items :=
        agrees_of_cache_irrelevant c1 _ _ rfl rfl hA1
      have hinc := increment_agrees _ entry c1.cache.items q.target hA2
      rw [hprev] at hcacheEq
      refine statsOk_of _ (by rw [hcacheEq, hput]; exact hinc) ?_ ?_ ?_
      · rw [hcacheEq, hput, List.pairwise_cons]
        exact ⟨fun p hp e => habs p hp e.symm, h1.nodup⟩
      · rw [hcacheEq, Lru.put_cap]; exact h1.cap
      · rw [hcacheEq, hput, List.length_cons]; omega
    | some old =>
      have hmem := Lru.find?_mem c1.cache q.target old hprev
      have hput : (c1.cache.put q.target entry).items =
          (q.target, entry) :: c1.cache.items.filter (fun p => p.1 != q.target) := by
        unfold Lru.put
        have hany : c1.cache.items.any (fun p => p.1 == q.target) = true := by
          rw [List.any_eq_true]; exact ⟨_, hmem, by simp⟩
        simp [hany]
      have hA1' : Agrees { c1 with cache := c1.cache.put q.target entry }
          ((q.target, old) :: c1.cache.items.filter (fun p => p.1 != q.target)) := by
        obtain ⟨a1, a2, a3, a4, a5, a6, a7, a8⟩ := hA1
        have sp := fun w => agg_split w c1.cache.items h1.nodup q.target old hmem
        exact ⟨by rw [agg_cons, ← sp]; exact a1, by rw [agg_cons, ← sp]; exact a2,
          by rw [agg_cons, ← sp]; exact a3, by rw [agg_cons, ← sp]; exact a4,
          by rw [agg_cons, ← sp]; exact a5, by rw [agg_cons, ← sp]; exact a6, a7, a8⟩
      have hD := decrement_agrees _ old _ q.target hA1'
      have hinc := increment_agrees _ entry _ q.target hD
      rw [hprev] at hcacheEq
      have hflen : (c1.cache.items.filter (fun p => p.1 != q.target)).length < c1.cache.items.length := by
        rw [List.length_filter_lt_length_iff_exists]
        exact ⟨(q.target, old), hmem, by simp⟩
      refine statsOk_of _ (by rw [hcacheEq, hput]; exact hinc) ?_ ?_ ?_
      · rw [hcacheEq, hput, List.pairwise_cons]
        refine ⟨?_, h1.nodup.sublist List.filter_sublist⟩
        intro p hp e
        have := (List.mem_filter.1 hp).2
        simp [← e] at this
      · rw [hcacheEq, Lru.put_cap]; exact h1.cap
      · rw [hcacheEq, hput, List.length_cons]; omega

/-! ### the starting point and the bound -/

/-- a fresh node: empty cache, zero counters -/
theorem statsOk_init (c : Core) (hcache : c.cache = { cap := Constants.MAX_CACHED_ITERATIVE_QUERIES })
    (hs : c.stats.estCount = 0 ∧ c.stats.respCount = 0 ∧ c.stats.subnetsSum = 0 ∧ c.stats.underflow = false)
    (hss : c.sstats.estCount = 0 ∧ c.sstats.respCount = 0 ∧ c.sstats.subnetsSum = 0 ∧ c.sstats.underflow = false) :
    StatsOk c := by
  refine statsOk_of c ?_ (by rw [hcache]; simp) (by rw [hcache]) (by rw [hcache]; simp)
  rw [hcache]
  exact ⟨hs.1, hs.2.1, hs.2.2.1, hss.1, hss.2.1, hss.2.2.1, hs.2.2.2, hss.2.2.2⟩

theorem cache_capacity : Constants.MAX_CACHED_ITERATIVE_QUERIES = 1000 := by decide

/-- a whole batch of finished lookups (one tick's `cleanup_done_queries`, any number of ticks) -/
theorem cacheQuery_fold_ok (c : Core) (h : StatsOk c) (done : List (IterQuery × List Node)) :
    StatsOk (done.foldl (fun c d => cacheQuery c d.1 d.2) c) := by
  induction done generalizing c with
  | nil => exact h
  | cons d ds ih => exact ih _ (cacheQuery_ok c h d.1 d.2)

end Mainline.Props.C20

namespace Mainline.Props.C20
open Mainline Mainline.Actor

/-! ### finished work leaves the tables -/

theorem alRemove_absent {β} (l : List (Id × β)) (k : Id) : alGet (alRemove l k) k = none := by
  simp only [alGet, alRemove, Option.map_eq_none_iff, List.find?_eq_none, List.mem_filter]
  rintro ⟨t, e⟩ ⟨_, hne⟩ heq
  simp_all

theorem alRemove_other {β} (l : List (Id × β)) (k k' : Id) (h : k' ≠ k) :
    alGet (alRemove l k) k' = alGet l k' := by
  simp only [alGet, alRemove]
  congr 1
  induction l with
  | nil => rfl
  | cons x xs ih =>
    by_cases hx : x.1 = k
    · have hne : (x.1 == k') = false := by
        rw [beq_eq_false_iff_ne, hx]; exact fun e => h e.symm
      have hf : (!(x.1 == k)) = false := by simp [hx]
      rw [List.filter_cons, hf, List.find?_cons, hne]
      simpa using ih
    · have hf : (!(x.1 == k)) = true := by simp [hx]
      rw [List.filter_cons, hf]
      simp only [ite_true, List.find?_cons]
      split
      · rfl
      · exact ih

/-- the callers parked on a finished lookup are all answered and un-parked -/
theorem releaseGet_one (a : Actor) (d : Id × List Node) (senders : List Sender)
    (h : alGet a.getSenders d.1 = some senders) :
    (a.releaseGetCallers [d]).events = a.events ++ senders.map (closingEvent d.2) ∧
    alGet (a.releaseGetCallers [d]).getSenders d.1 = none := by
  simp only [releaseGetCallers, List.foldl_cons, List.foldl_nil, releaseGetOne, h]
  exact ⟨trivial, alRemove_absent _ _⟩

/-- …each with exactly one closing event: the node list for find_node / get_closest_nodes callers,
    the end of the stream for the others -/
theorem closingEvent_caller (nodes : List Node) (s : Sender) :
    (closingEvent nodes s = .nodes (senderCaller s) nodes) ∨ (closingEvent nodes s = .closed (senderCaller s)) := by
  cases s <;> simp [closingEvent, senderCaller]

/-- the callers parked on a finished put all get its one outcome and are un-parked -/
theorem releasePut_one (a : Actor) (d : Id × Option PutErr) (cs : List Nat)
    (h : alGet a.putSenders d.1 = some cs) :
    (a.releasePutCallers [d]).events = a.events ++ cs.map (fun c => Event.putResult c (putOutcome d)) ∧
    alGet (a.releasePutCallers [d]).putSenders d.1 = none := by
  simp only [releasePutCallers, List.foldl_cons, List.foldl_nil, releasePutOne, h]
  exact ⟨trivial, alRemove_absent _ _⟩

/-! ### expired requests do not pile up -/

/-- when the request vector is full, `cleanup` leaves no request older than the timeout -/
theorem cleanup_drops_expired (s : Inflight) (hi : s.Inv) (now : Nat) (ht : s.Timed now)
    (hfull : ¬ s.requests.length < s.cap) :
    ∀ r ∈ (s.cleanup now).requests, now - r.sentAt ≤ s.timeout := by
  have hm := Inflight.expiry_mono s hi now ht
  unfold Inflight.cleanup
  simp only [hfull, ite_false]
  intro r hr
  rw [List.mem_drop_iff_getElem] at hr
  obtain ⟨j, hj, rfl⟩ := hr
  generalize hidx : s.cleanupIdx now = idx at hj ⊢
  unfold Inflight.cleanupIdx at hidx
  cases hb : binarySearchBy (Inflight.expiryProbe s.timeout now) s.requests with
  | inr p =>
    rw [hb] at hidx
    simp only at hidx
    subst hidx
    obtain ⟨_, _, hgt⟩ := bsSearch_err _ _ hm p hb
    have hj' : p + j < s.requests.length := by omega
    have := hgt (p + j) (by omega) hj'
    rw [probeAt_eq _ _ _ hj'] at this
    unfold Inflight.expiryProbe at this
    rw [Nat.compare_eq_gt] at this
    omega
  | inl k =>
    rw [hb] at hidx
    simp only at hidx
    subst hidx
    obtain ⟨hk, he⟩ := bsSearch_ok _ _ hm k hb
    rw [probeAt_eq _ _ _ hk] at he
    unfold Inflight.expiryProbe at he
    rw [Nat.compare_eq_eq] at he
    -- later requests are not older than request `k`, which is exactly at the timeout
    have hs := hi.times
    rw [List.pairwise_iff_getElem] at hs
    have hj' : k + j < s.requests.length := by omega
    by_cases hj0 : j = 0
    · subst hj0; simp only [Nat.add_zero]; omega
    · have := hs k (k + j) hk hj' (by omega)
      omega


/-! ## The whole node: the invariant holds in every reachable state -/

/-- statistics and lookup cache untouched -/
def Same (c c' : Core) : Prop := c'.stats = c.stats ∧ c'.sstats = c.sstats ∧ c'.cache = c.cache

theorem Same.refl (c : Core) : Same c c := ⟨rfl, rfl, rfl⟩
theorem Same.trans {a b c : Core} (h1 : Same a b) (h2 : Same b c) : Same a c :=
  ⟨h2.1.trans h1.1, h2.2.1.trans h1.2.1, h2.2.2.trans h1.2.2⟩

theorem statsOk_same (c c' : Core) (h : StatsOk c) (hs : Same c c') : StatsOk c' := by
  obtain ⟨s1, s2, s3⟩ := hs
  exact ⟨by rw [s1, s3]; exact h.est, by rw [s1, s3]; exact h.resp, by rw [s1, s3]; exact h.sub,
    by rw [s2, s3]; exact h.sest, by rw [s2, s3]; exact h.sresp, by rw [s2, s3]; exact h.ssub,
    by rw [s1, s2]; exact h.noUnderflow, by rw [s3]; exact h.nodup, by rw [s3]; exact h.cap, by rw [s3]; exact h.bounded⟩

/-- reading the cache promotes the entry (most recently used first): the same entries in another
    order, so the counters still equal the aggregate -/
theorem getCached_ok (c : Core) (h : StatsOk c) (target : Id) (now : Nat) :
    StatsOk (getCachedClosestNodes c target now).1 := by
  unfold getCachedClosestNodes
  cases hg : c.cache.get target with
  | mk cache found =>
    cases found with
    | none => exact h
    | some e =>
      simp only
      unfold Lru.get at hg
      split at hg
      · rename_i p hp
        injection hg with hc he
        have hmem : p ∈ c.cache.items := List.mem_of_find?_eq_some hp
        have hkey : p.1 = target := by
          have := List.find?_some hp; simpa using this
        have hitems : cache.items = p :: c.cache.items.filter (fun q => q.1 != target) := by rw [← hc]
        have hcap : cache.cap = c.cache.cap := by rw [← hc]
        have hsplit : ∀ w, agg w c.cache.items = agg w cache.items := by
          intro w
          rw [hitems, agg_cons]
          exact agg_split w c.cache.items h.nodup target p.2 (by rw [← hkey]; exact hmem)
        have hnd : cache.items.Pairwise (fun a b => a.1 ≠ b.1) := by
          rw [hitems, List.pairwise_cons]
          refine ⟨?_, h.nodup.sublist List.filter_sublist⟩
          intro q hq
          have := (List.mem_filter.1 hq).2
          rw [hkey]
          simpa using fun e => (by simpa using this : q.1 ≠ target) e.symm
        have hlen : cache.items.length ≤ c.cache.items.length := by
          rw [hitems]
          have : (c.cache.items.filter (fun q => q.1 != target)).length < c.cache.items.length := by
            apply List.length_filter_lt_length_iff_exists.2
            exact ⟨p, hmem, by simp [hkey]⟩
          simp only [List.length_cons]; omega
        exact ⟨by simp only; rw [← hsplit]; exact h.est, by simp only; rw [← hsplit]; exact h.resp,
          by simp only; rw [← hsplit]; exact h.sub, by simp only; rw [← hsplit]; exact h.sest,
          by simp only; rw [← hsplit]; exact h.sresp, by simp only; rw [← hsplit]; exact h.ssub,
          h.noUnderflow, hnd, by simp only; rw [hcap]; exact h.cap, by simp only; exact Nat.le_trans hlen h.bounded⟩
      · cases hg


theorem createIter_ok (c : Core) (h : StatsOk c) (k : GetKind) (t : Id) (extra : List Addr) (now : Nat) :
    StatsOk (createIterativeQuery c k t extra now).1 := by
  unfold createIterativeQuery
  split
  · exact h
  · exact getCached_ok c h t now

theorem startLookup_ok (a : Actor) (h : StatsOk a.core) (k : GetKind) (t : Id) (extra : List Addr) (now : Nat) :
    StatsOk (a.startLookup k t extra now).core := by
  have hc := createIter_ok a.core h k t extra now
  unfold startLookup
  split
  · rename_i core q toVisit hm
    rw [hm] at hc
    simp only at hc ⊢
    exact statsOk_same core _ hc ⟨rfl, rfl, rfl⟩
  · rename_i core hm
    rw [hm] at hc
    exact hc

theorem get_ok (a : Actor) (h : StatsOk a.core) (k : GetKind) (t : Id) (extra : List Addr) (now : Nat) :
    StatsOk (a.get k t extra now).1.core := by
  unfold Actor.get
  split
  · exact h
  · exact startLookup_ok a h k t extra now

theorem populate_ok (a : Actor) (h : StatsOk a.core) (now : Nat) : StatsOk (a.populate now).core := by
  unfold populate
  split
  · exact h
  · exact get_ok a h _ _ _ now

theorem sendPuts_same (spec : PutSpec) (sent : List ((Addr × Bytes) × Nat)) : ∀ a : Actor, Same a.core (sendPuts a spec sent).core := by
  unfold sendPuts
  induction sent with
  | nil => intro a; exact Same.refl _
  | cons x xs ih =>
    intro a
    simp only [List.foldl_cons]
    exact Same.trans ⟨rfl, rfl, rfl⟩ (ih _)

theorem startPut_same (a : Actor) (e : PutEntry) (closest : List Node) (now : Nat) :
    Same a.core (startPut a e closest now).1.core := by
  unfold startPut
  exact sendPuts_same _ _ _

theorem startPuts_same (a : Actor) (now : Nat) (di : List (Id × List Node)) (dp : List (Id × Option PutErr)) :
    Same a.core (startPuts a now di dp).1.core := by
  unfold startPuts
  have : ∀ (l : List (Id × List Node)) (acc : Actor × List (Id × Option PutErr)),
      Same acc.1.core (l.foldl (startPutOne now) acc).1.core := by
    intro l
    induction l with
    | nil => intro acc; exact Same.refl _
    | cons d ds ih =>
      intro acc
      simp only [List.foldl_cons]
      refine Same.trans ?_ (ih _)
      unfold startPutOne
      split
      · rename_i e _
        have hs := startPut_same acc.1 e d.2 now
        split
        · exact Same.trans hs ⟨rfl, rfl, rfl⟩
        · exact Same.trans hs ⟨rfl, rfl, rfl⟩
      · exact Same.refl _
  exact this di (a, dp)

theorem checkConcurrency_same (c : Core) (spec : PutSpec) : Same c (checkConcurrency c spec).1 := by
  cases spec with
  | putMutable target v k seq sig salt cas =>
    simp only [checkConcurrency]
    split
    · split
      · split
        · exact Same.refl _
        · split
          · exact Same.refl _
          · split
            · split
              · exact ⟨rfl, rfl, rfl⟩
              · exact Same.refl _
            · exact Same.refl _
      · exact Same.refl _
    · exact Same.refl _
  | putImmutable _ _ => exact Same.refl _
  | announcePeer _ _ _ => exact Same.refl _
  | announceSignedPeer _ _ _ _ => exact Same.refl _

theorem put_ok (a : Actor) (h : StatsOk a.core) (spec : PutSpec) (extra : List Node) (now : Nat) :
    StatsOk (a.put spec extra now).1.core := by
  have h0 := statsOk_same _ _ h (checkConcurrency_same a.core spec)
  unfold Actor.put
  split
  · exact h0
  · generalize hbe : ({ a with core := (checkConcurrency a.core spec).1 } : Actor) = b
    have hb : StatsOk b.core := by rw [← hbe]; exact h0
    unfold putAfterCheck
    have h1 := getCached_ok b.core hb spec.target now
    split
    · rename_i closest _
      unfold putFromCache
      generalize hce : ({ b with core := (getCachedClosestNodes b.core spec.target now).1 } : Actor) = c
      have hc : StatsOk c.core := by rw [← hce]; exact h1
      have h2 := statsOk_same _ _ hc (startPut_same c (newPutEntry spec extra) closest now)
      split
      · exact h2
      · exact statsOk_same _ _ h2 ⟨rfl, rfl, rfl⟩
    · generalize hce : ({ b with core := (getCachedClosestNodes b.core spec.target now).1 } : Actor) = c
      have hc : StatsOk c.core := by rw [← hce]; exact h1
      exact statsOk_same _ _ (get_ok c hc _ _ _ now) ⟨rfl, rfl, rfl⟩

theorem pickup_ok (a : Actor) (h : StatsOk a.core) (env : Env) (msg : Option ApiMsg) :
    StatsOk (a.pickup env msg).core := by
  unfold pickup
  split
  · exact h
  · exact h
  · exact h
  · rename_i c spec extra
    unfold pickupPut
    have := put_ok a h spec extra env.now
    split
    · exact statsOk_same _ _ this ⟨rfl, rfl, rfl⟩
    · exact statsOk_same _ _ this ⟨rfl, rfl, rfl⟩
  · rename_i kind target sender
    unfold pickupGet
    exact statsOk_same _ _ (get_ok a h kind target [] env.now) ⟨rfl, rfl, rfl⟩


theorem addResponder_same (c : Core) (now : Nat) (src : Addr) (m : Message) : Same c (addResponder c now src m) := by
  unfold addResponder
  split
  · split <;> exact ⟨rfl, rfl, rfl⟩
  · exact Same.refl _

theorem handleResponse_same (c : Core) (env : Env) (src : Addr) (m : Message) : Same c (handleResponse c env src m).1 := by
  unfold handleResponse
  split
  · exact Same.refl _
  · split
    · exact ⟨rfl, rfl, rfl⟩
    · split
      · split
        · exact Same.trans ⟨rfl, rfl, rfl⟩ (addResponder_same _ _ _ _)
        · exact ⟨rfl, rfl, rfl⟩
      · split
        · exact addResponder_same _ _ _ _
        · exact Same.refl _

theorem handleRequest_same (c : Core) (env : Env) (src : Addr) (ro : Bool) (version : Option Bytes) (req : Request) :
    Same c (handleRequest c env src ro version req).1 := by
  have h1 : Same c (maybeAddNodeFromRequest c src version ro req env.now) := by
    unfold maybeAddNodeFromRequest
    split
    · split
      · unfold addRequester
        split
        · split <;> exact ⟨rfl, rfl, rfl⟩
        · split <;> exact ⟨rfl, rfl, rfl⟩
      · exact Same.refl _
    · exact Same.refl _
  have h2 : ∀ c' : Core, Same c' (verifySelfPing c' src req env.now).1 := by
    intro c'
    unfold verifySelfPing
    split
    · split
      · split <;> exact ⟨rfl, rfl, rfl⟩
      · exact Same.refl _
    · exact Same.refl _
  unfold handleRequest
  split
  · exact Same.refl _
  · unfold serveRequest
    split
    · exact Same.trans h1 (Same.trans (h2 _) ⟨rfl, rfl, rfl⟩)
    · exact Same.trans h1 (h2 _)

theorem handleIncoming_ok (a : Actor) (h : StatsOk a.core) (env : Env) (handed : Option (Message × Addr)) :
    StatsOk (a.handleIncoming env handed).1.core := by
  unfold handleIncoming
  cases handed with
  | none => exact h
  | some p =>
    obtain ⟨m, src⟩ := p
    simp only
    cases hm : m.mtype with
    | request req =>
      simp only
      have hs := statsOk_same _ _ h (handleRequest_same a.core env src m.readOnly m.version req)
      have hcore : ∀ (b : Actor) (r : Option Reply), (b.sendReply src m.tid r).core = b.core := by
        intro b r; unfold sendReply; split <;> rfl
      unfold handleIncomingRequest
      split
      · apply populate_ok
        rw [hcore]; exact hs
      · rw [hcore]; exact hs
    | response r => exact statsOk_same _ _ h (handleResponse_same a.core env src m)
    | error e => exact statsOk_same _ _ h (handleResponse_same a.core env src m)

theorem preDone_ok (a : Actor) (h : StatsOk a.core) (env : Env) (dgram : Option (Message × Addr)) :
    StatsOk (a.preDone env dgram).core := by
  unfold preDone
  have h1 : (a.recvPhase env.now dgram).1.core = a.core := by
    unfold recvPhase
    cases dgram with
    | none => rfl
    | some p => rfl
  have h2 := handleIncoming_ok (a.recvPhase env.now dgram).1 (by rw [h1]; exact h) env (a.recvPhase env.now dgram).2
  have h3 : ∀ (b : Actor) (v : Option (Id × Value)), (b.forwardValue v).core = b.core := by
    intro b v
    unfold forwardValue
    split
    · split <;> rfl
    · rfl
  rw [h3]; exact h2

theorem visitClosestAll_same (a : Actor) (now : Nat) : Same a.core (a.visitClosestAll now).core := by
  unfold visitClosestAll
  have : ∀ (l : List (Id × IterQuery)) (b : Actor),
      Same b.core (l.foldl (fun (a : Actor) (p : Id × IterQuery) => a.visitClosest p.1 now) b).core := by
    intro l
    induction l with
    | nil => intro b; exact Same.refl _
    | cons p ps ih =>
      intro b
      simp only [List.foldl_cons]
      refine Same.trans ?_ (ih _)
      unfold visitClosest
      cases hg : alGet b.core.iter p.1 with
      | none => exact Same.refl _
      | some q =>
        simp only
        obtain ⟨hc, _⟩ := visitAll_core b q q.closestCandidates now
        rw [hc]; exact ⟨rfl, rfl, rfl⟩
  exact this _ a

theorem cleanupDone_ok (c : Core) (h : StatsOk c) (di : List (Id × List Node)) (dp : List (Id × Option PutErr)) :
    StatsOk (cleanupDone c di dp).1 := by
  unfold cleanupDone
  have hone : ∀ (acc : Core × Option Addr) (d : Id × List Node), StatsOk acc.1 → StatsOk (cleanupOneLookup acc d).1 := by
    intro acc d ha
    unfold cleanupOneLookup
    split
    · rename_i q _
      have h0 : StatsOk { acc.1 with iter := alRemove acc.1.iter d.1 } := statsOk_same _ _ ha ⟨rfl, rfl, rfl⟩
      have h1 := cacheQuery_ok _ h0 q d.2
      have hv : Same (cacheQuery { acc.1 with iter := alRemove acc.1.iter d.1 } q d.2)
          (updateAddressVotes (cacheQuery { acc.1 with iter := alRemove acc.1.iter d.1 } q d.2) q).1 := by
        unfold updateAddressVotes
        split
        · split <;> exact ⟨rfl, rfl, rfl⟩
        · exact Same.refl _
      have h2 := statsOk_same _ _ h1 hv
      split <;> exact h2
    · exact ha
  have h1 : ∀ (l : List (Id × List Node)) (acc : Core × Option Addr), StatsOk acc.1 → StatsOk (l.foldl cleanupOneLookup acc).1 := by
    intro l
    induction l with
    | nil => intro acc ha; exact ha
    | cons d ds ih => intro acc ha; simp only [List.foldl_cons]; exact ih _ (hone acc d ha)
  have h2 : ∀ (l : List (Id × Option PutErr)) (c' : Core), StatsOk c' → StatsOk (l.foldl removePut c') := by
    intro l
    induction l with
    | nil => intro c' hc; exact hc
    | cons d ds ih => intro c' hc; simp only [List.foldl_cons]; exact ih _ (statsOk_same _ _ hc ⟨rfl, rfl, rfl⟩)
  exact h2 dp _ (h1 di (c, none) h)

theorem afterRecv_ok (a : Actor) (h : StatsOk a.core) (env : Env) (dgram : Option (Message × Addr)) :
    StatsOk (a.afterRecv env dgram).core := by
  unfold afterRecv finishTick
  have h3 := preDone_ok a h env dgram
  generalize a.preDone env dgram = a3 at h3
  have h4 := statsOk_same _ _ h3 (visitClosestAll_same a3 env.now)
  generalize a3.checkDonePuts env.now = dp0
  generalize a3.visitClosestAll env.now = a4 at h4
  generalize a4.doneLookups env.now = di
  have h5 := statsOk_same _ _ h4 (startPuts_same a4 env.now di dp0)
  generalize startPuts a4 env.now di dp0 = sp at h5
  have h6 := cleanupDone_ok sp.1.core h5 di sp.2
  generalize cleanupDone sp.1.core di sp.2 = cd at h6
  have hping : ∀ (b : Actor) (to : Option Addr), (b.pingOpt to env.now).core = b.core := by
    intro b to; unfold pingOpt; split <;> rfl
  have hrg : ∀ (b : Actor) (l : List (Id × List Node)), (b.releaseGetCallers l).core = b.core := by
    intro b l
    unfold releaseGetCallers
    induction l generalizing b with
    | nil => rfl
    | cons d ds ih =>
      simp only [List.foldl_cons]
      rw [ih]
      unfold releaseGetOne
      split <;> rfl
  have hrp : ∀ (b : Actor) (l : List (Id × Option PutErr)), (b.releasePutCallers l).core = b.core := by
    intro b l
    unfold releasePutCallers
    induction l generalizing b with
    | nil => rfl
    | cons d ds ih =>
      simp only [List.foldl_cons]
      rw [ih]
      unfold releasePutOne
      split <;> rfl
  rw [hrp, hrg, hping]
  exact h6

theorem maintenance_ok (a : Actor) (h : StatsOk a.core) (now : Nat) : StatsOk (a.maintenance now).core := by
  unfold maintenance
  have h1 : StatsOk (a.bootstrapIfEmpty now).core := by
    unfold bootstrapIfEmpty; split
    · exact populate_ok a h now
    · exact h
  have h2 : StatsOk ((a.bootstrapIfEmpty now).refreshTable now).core := by
    generalize a.bootstrapIfEmpty now = b at h1
    unfold refreshTable
    split
    · apply populate_ok
      unfold adaptiveSwitch
      split
      · exact statsOk_same _ _ h1 ⟨rfl, rfl, rfl⟩
      · exact statsOk_same _ _ h1 ⟨rfl, rfl, rfl⟩
    · exact h1
  generalize (a.bootstrapIfEmpty now).refreshTable now = b at h2
  unfold pingTable
  split
  · have hfold : ∀ (l : List Addr) (x : Actor), (l.foldl (fun a addr => a.ping addr now) x).core = x.core := by
      intro l
      induction l with
      | nil => intro x; rfl
      | cons y ys ih => intro x; simp only [List.foldl_cons]; rw [ih]; rfl
    rw [hfold]
    exact statsOk_same _ _ h2 (by simp [pingRound, Same])
  · exact h2

/-- **C20, one iteration of the loop.** The integer statistics equal the aggregate over the cached
    lookups, none has ever underflowed, the cache holds one entry per target and at most 1000. -/
theorem step_statsOk (a : Actor) (h : StatsOk a.core) (env : Env) (dgram : Option (Message × Addr)) (msg : Option ApiMsg) :
    StatsOk (a.step env dgram msg).core := by
  unfold Actor.step
  exact maintenance_ok _ (pickup_ok _ (afterRecv_ok a h env dgram) env msg) env.now

/-- **C20, every reachable state of a node.** -/
theorem reachable_statsOk (cfg : NodeConfig) (seed : UInt64) (t0 : Nat) (ins : List StepIn) :
    StatsOk (runSteps (Actor.create cfg seed t0) ins).core := by
  have h0 : StatsOk (Actor.create cfg seed t0).core := by
    unfold Actor.create
    split <;>
    · simp only
      apply maintenance_ok
      exact statsOk_init _ rfl ⟨rfl, rfl, rfl, rfl⟩ ⟨rfl, rfl, rfl, rfl⟩
  unfold runSteps
  generalize Actor.create cfg seed t0 = a at h0
  induction ins generalizing a with
  | nil => exact h0
  | cons i is ih => simp only [List.foldl_cons]; exact ih _ (step_statsOk a h0 i.env i.dgram i.msg)


end Mainline.Props.C20
