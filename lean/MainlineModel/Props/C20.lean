/-
  C20 — Bounded state: no leaks at quiescence, caps respected, stats consistent.

  Model: `Actor.cacheQuery` / `decrementCached` (`Core::cache_iterative_query`,
  `decrement_cached_iterative_query_stats`, after the `fix:` commit), the `Lru` model of the `lru`
  crate (`Model/Lru.lean`, shared with the stores of C04), `Inflight.cleanup`, and the release of
  callers in `Actor.afterRecv`.
  The statistics' integer counters are proved equal to the aggregate over the cached lookups; the
  two `f64` sums are updated by the same paired `+=` / `-=` on the same entries (they are compared
  with the code bit-for-bit, up to summation order, by the `node` correspondence stream).
-/
import MainlineModel.Lemmas.ActorLemmas
import MainlineModel.Lemmas.LruLemmas
import MainlineModel.Lemmas.SocketLemmas
namespace Mainline.Props.C20
open Mainline Mainline.Actor

/-! ### aggregates over the cached lookups -/

/-- sum of a weight over the cache entries -/
def agg (w : CachedQuery → Nat) (items : List (Id × CachedQuery)) : Nat := (items.map fun p => w p.2).sum

/-- weights: does the entry count in the size-estimate sample / the responders sample / with how
    many subnets, for the basic (`signed = false`) or the signed-peers (`signed = true`) table -/
def estW (signed : Bool) (e : CachedQuery) : Nat := if e.kind.isSigned == signed then 1 else 0
def respW (signed : Bool) (e : CachedQuery) : Nat :=
  if e.kind.isSigned == signed && !e.kind.isFindNode then 1 else 0
def subW (signed : Bool) (e : CachedQuery) : Nat :=
  if e.kind.isSigned == signed && !e.kind.isFindNode then e.subnets else 0

theorem agg_cons (w : CachedQuery → Nat) (p : Id × CachedQuery) (l : List (Id × CachedQuery)) :
    agg w (p :: l) = w p.2 + agg w l := by simp [agg]

theorem agg_append (w : CachedQuery → Nat) (a b : List (Id × CachedQuery)) :
    agg w (a ++ b) = agg w a + agg w b := by simp [agg]

/-- with one entry per key, the entry for `k` can be split off -/
theorem agg_split (w : CachedQuery → Nat) (items : List (Id × CachedQuery))
    (hnd : items.Pairwise (fun a b => a.1 ≠ b.1)) (k : Id) (e : CachedQuery) (h : (k, e) ∈ items) :
    agg w items = w e + agg w (items.filter fun q => q.1 != k) := by
  induction items with
  | nil => cases h
  | cons x xs ih =>
    rw [List.pairwise_cons] at hnd
    rcases List.mem_cons.1 h with rfl | hm
    · have hf : xs.filter (fun q => q.1 != k) = xs := by
        rw [List.filter_eq_self]
        intro q hq
        have := hnd.1 q hq
        simpa using fun e => this e.symm
      simp [agg_cons, List.filter_cons, hf]
    · have hne : x.1 ≠ k := hnd.1 (k, e) hm
      have : (x.1 != k) = true := by simpa using hne
      simp only [List.filter_cons, this, ite_true, agg_cons]
      rw [ih hnd.2 hm]; omega

theorem filter_absent (items : List (Id × CachedQuery)) (k : Id)
    (h : ∀ p ∈ items, p.1 ≠ k) : items.filter (fun q => q.1 != k) = items := by
  rw [List.filter_eq_self]
  intro q hq
  simpa using h q hq

/-! ### the invariant -/

structure StatsOk (c : Core) : Prop where
  est : c.stats.estCount = agg (estW false) c.cache.items
  resp : c.stats.respCount = agg (respW false) c.cache.items
  sub : c.stats.subnetsSum = agg (subW false) c.cache.items
  sest : c.sstats.estCount = agg (estW true) c.cache.items
  sresp : c.sstats.respCount = agg (respW true) c.cache.items
  ssub : c.sstats.subnetsSum = agg (subW true) c.cache.items
  noUnderflow : c.stats.underflow = false ∧ c.sstats.underflow = false
  nodup : c.cache.items.Pairwise (fun a b => a.1 ≠ b.1)
  cap : c.cache.cap = Constants.MAX_CACHED_ITERATIVE_QUERIES
  bounded : c.cache.items.length ≤ Constants.MAX_CACHED_ITERATIVE_QUERIES

/-- the six counters as a function of the cached entries `items` (the float sums aside) -/
def Agrees (c : Core) (items : List (Id × CachedQuery)) : Prop :=
  c.stats.estCount = agg (estW false) items ∧ c.stats.respCount = agg (respW false) items ∧
  c.stats.subnetsSum = agg (subW false) items ∧ c.sstats.estCount = agg (estW true) items ∧
  c.sstats.respCount = agg (respW true) items ∧ c.sstats.subnetsSum = agg (subW true) items ∧
  c.stats.underflow = false ∧ c.sstats.underflow = false

theorem kind_cases (k : GetKind) :
    (k.isFindNode = true ∧ k.isSigned = false) ∨ (k.isFindNode = false ∧ k.isSigned = true) ∨
    (k.isFindNode = false ∧ k.isSigned = false) := by
  cases k <;> simp [GetKind.isFindNode, GetKind.isSigned]

/-- removing an entry's contribution: if the counters agree with `e`'s weights plus `rest`, then
    after `decrementCached` they agree with `rest`, and nothing underflowed -/
theorem decrement_agrees (c : Core) (e : CachedQuery) (rest : List (Id × CachedQuery)) (k : Id)
    (h : Agrees c ((k, e) :: rest)) : Agrees (decrementCached c (some e)) rest := by
  obtain ⟨h1, h2, h3, h4, h5, h6, h7, h8⟩ := h
  simp only [agg_cons] at h1 h2 h3 h4 h5 h6
  unfold decrementCached
  rcases kind_cases e.kind with ⟨hf, hs⟩ | ⟨hf, hs⟩ | ⟨hf, hs⟩
  · simp only [hf, ite_true]
    simp only [estW, respW, subW, hf, hs] at h1 h2 h3 h4 h5 h6
    simp only [Stats.decrementDhtSize, Stats.dec]
    refine ⟨?_, ?_, ?_, ?_, ?_, ?_, ?_, h8⟩ <;> simp_all <;> omega
  · simp only [hf, hs, Bool.false_eq_true, ite_false, ite_true]
    simp only [estW, respW, subW, hf, hs] at h1 h2 h3 h4 h5 h6
    simp only [Stats.decrementResponders, Stats.dec]
    refine ⟨?_, ?_, ?_, ?_, ?_, ?_, h7, ?_⟩ <;> simp_all <;> omega
  · simp only [hf, hs, Bool.false_eq_true, ite_false]
    simp only [estW, respW, subW, hf, hs] at h1 h2 h3 h4 h5 h6
    simp only [Stats.decrementResponders, Stats.dec]
    refine ⟨?_, ?_, ?_, ?_, ?_, ?_, ?_, h8⟩ <;> simp_all <;> omega

/-- adding an entry's contribution -/
theorem increment_agrees (c : Core) (e : CachedQuery) (rest : List (Id × CachedQuery)) (k : Id)
    (h : Agrees c rest) :
    Agrees (countEntry c e) ((k, e) :: rest) := by
  obtain ⟨h1, h2, h3, h4, h5, h6, h7, h8⟩ := h
  unfold Agrees countEntry
  simp only [agg_cons]
  rcases kind_cases e.kind with ⟨hf, hs⟩ | ⟨hf, hs⟩ | ⟨hf, hs⟩
  · simp only [hf, ite_true, estW, respW, subW, hs, Stats.incrementDhtSize]
    refine ⟨?_, ?_, ?_, ?_, ?_, ?_, h7, h8⟩ <;> simp_all <;> omega
  · simp only [hf, hs, Bool.false_eq_true, ite_false, ite_true, estW, respW, subW, Stats.incrementResponders]
    refine ⟨?_, ?_, ?_, ?_, ?_, ?_, h7, h8⟩ <;> simp_all <;> omega
  · simp only [hf, hs, Bool.false_eq_true, ite_false, estW, respW, subW, Stats.incrementResponders]
    refine ⟨?_, ?_, ?_, ?_, ?_, ?_, h7, h8⟩ <;> simp_all <;> omega

theorem decrementCached_cache (c : Core) (e : Option CachedQuery) : (decrementCached c e).cache = c.cache := by
  unfold decrementCached
  split
  · split
    · rfl
    · split <;> rfl
  · rfl

theorem agrees_of_cache_irrelevant (c c' : Core) (items : List (Id × CachedQuery))
    (h1 : c'.stats = c.stats) (h2 : c'.sstats = c.sstats) (h : Agrees c items) : Agrees c' items := by
  unfold Agrees at *
  rw [h1, h2]; exact h

theorem agrees_rotate (c : Core) (init : List (Id × CachedQuery)) (last : Id × CachedQuery)
    (h : Agrees c (init ++ [last])) : Agrees c (last :: init) := by
  obtain ⟨h1, h2, h3, h4, h5, h6, h7, h8⟩ := h
  have key : ∀ w, agg w (init ++ [last]) = agg w (last :: init) := by
    intro w; simp [agg]; omega
  simp only [key] at h1 h2 h3 h4 h5 h6
  exact ⟨h1, h2, h3, h4, h5, h6, h7, h8⟩

theorem cache_find_none_absent (cache : Lru Id CachedQuery) (k : Id) (h : cache.find? k = none) :
    ∀ p ∈ cache.items, p.1 ≠ k := by
  intro p hp e
  unfold Lru.find? at h
  rw [Option.map_eq_none_iff, List.find?_eq_none] at h
  exact h p hp (by simp [e])

theorem statsOk_of (c : Core) (hA : Agrees c c.cache.items)
    (hnd : c.cache.items.Pairwise (fun a b => a.1 ≠ b.1))
    (hcap : c.cache.cap = Constants.MAX_CACHED_ITERATIVE_QUERIES)
    (hb : c.cache.items.length ≤ Constants.MAX_CACHED_ITERATIVE_QUERIES) : StatsOk c := by
  obtain ⟨h1, h2, h3, h4, h5, h6, h7, h8⟩ := hA
  exact ⟨h1, h2, h3, h4, h5, h6, ⟨h7, h8⟩, hnd, hcap, hb⟩

theorem agrees_of_statsOk (c : Core) (h : StatsOk c) : Agrees c c.cache.items :=
  ⟨h.est, h.resp, h.sub, h.sest, h.sresp, h.ssub, h.noUnderflow.1, h.noUnderflow.2⟩

theorem evictIfFull_ok (c : Core) (h : StatsOk c) :
    StatsOk (evictIfFull c) ∧ (evictIfFull c).cache.items.length < Constants.MAX_CACHED_ITERATIVE_QUERIES := by
  unfold evictIfFull
  split
  · rename_i hfull
    have hlen : c.cache.items.length = Constants.MAX_CACHED_ITERATIVE_QUERIES := by
      have := h.bounded
      simp only [Lru.len] at hfull
      omega
    -- the list has a last element
    cases hl : c.cache.items.getLast? with
    | none =>
      rw [List.getLast?_eq_none_iff] at hl
      rw [hl] at hlen
      exact absurd hlen (by decide)
    | some last =>
      have hsplit : c.cache.items = c.cache.items.dropLast ++ [last] := by
        have hne : c.cache.items ≠ [] := by
          intro e; rw [e] at hl; cases hl
        have h1 := List.dropLast_concat_getLast hne
        have h2 : c.cache.items.getLast hne = last := by
          rw [List.getLast?_eq_some_getLast hne] at hl
          injection hl
        rw [h2] at h1
        exact h1.symm
      have hpop : c.cache.popLru = ({ c.cache with items := c.cache.items.dropLast }, some last) := by
        simp [Lru.popLru, hl]
      rw [hpop]
      simp only [Option.map_some]
      have hA := agrees_of_statsOk c h
      rw [hsplit] at hA
      have hA' : Agrees { c with cache := { c.cache with items := c.cache.items.dropLast } }
          (last :: c.cache.items.dropLast) :=
        agrees_of_cache_irrelevant c _ _ rfl rfl (agrees_rotate c _ last hA)
      have hD := decrement_agrees _ last.2 c.cache.items.dropLast last.1 hA'
      have hcache := decrementCached_cache
        { c with cache := { c.cache with items := c.cache.items.dropLast } } (some last.2)
      have hlen' : c.cache.items.dropLast.length < Constants.MAX_CACHED_ITERATIVE_QUERIES := by
        rw [List.length_dropLast, hlen]; decide
      refine ⟨statsOk_of _ (by rw [hcache]; exact hD) ?_ ?_ ?_, ?_⟩
      · rw [hcache]; exact h.nodup.sublist (List.dropLast_sublist _)
      · rw [hcache]; exact h.cap
      · rw [hcache]; exact Nat.le_of_lt hlen'
      · rw [hcache]; exact hlen'
  · rename_i hnot
    refine ⟨h, ?_⟩
    simp only [Lru.len] at hnot
    omega

theorem countEntry_cache (c : Core) (e : CachedQuery) : (countEntry c e).cache = c.cache := by
  unfold countEntry
  split
  · rfl
  · split <;> rfl

/-- **The statistics always equal the aggregate over the cached lookups, never underflow, and the
    cache never exceeds its capacity**: caching a finished lookup preserves the invariant. -/
theorem cacheQuery_ok (c : Core) (h : StatsOk c) (q : IterQuery) (nodes : List Node) :
    StatsOk (cacheQuery c q nodes) := by
  unfold cacheQuery
  obtain ⟨h1, hlt⟩ := evictIfFull_ok c h
  split
  · exact h1
  · generalize evictIfFull c = c1 at h1 hlt
    generalize mkEntry q nodes = entry
    have hA1 := agrees_of_statsOk c1 h1
    have hcacheEq : (countEntry (decrementCached { c1 with cache := c1.cache.put q.target entry }
        (c1.cache.find? q.target)) entry).cache = c1.cache.put q.target entry := by
      rw [countEntry_cache, decrementCached_cache]
    cases hprev : c1.cache.find? q.target with
    | none =>
      have habs := cache_find_none_absent c1.cache q.target hprev
      have hput : (c1.cache.put q.target entry).items = (q.target, entry) :: c1.cache.items := by
        unfold Lru.put
        have hany : c1.cache.items.any (fun p => p.1 == q.target) = false := by
          rw [List.any_eq_false]
          intro p hp
          simpa using habs p hp
        have hcap : ¬ c1.cache.items.length ≥ c1.cache.cap := by rw [h1.cap]; omega
        simp [hany, hcap]
      have hA2 : Agrees (decrementCached { c1 with cache := c1.cache.put q.target entry } none) c1.cache.items :=
        agrees_of_cache_irrelevant c1 _ _ rfl rfl hA1
      have hinc := increment_agrees _ entry c1.cache.items q.target hA2
      rw [hprev] at hcacheEq
      refine statsOk_of _ (by rw [hcacheEq, hput]; exact hinc) ?_ ?_ ?_
      · rw [hcacheEq, hput, List.pairwise_cons]
        exact ⟨fun p hp e => habs p hp e.symm, h1.nodup⟩
      · rw [hcacheEq, Lru.put_cap]; exact h1.cap
      · rw [hcacheEq, hput, List.length_cons]; omega
    | some old =>
      have hmem := Lru.find?_mem c1.cache q.target old hprev
      have hput : (c1.cache.put q.target entry).items =
          (q.target, entry) :: c1.cache.items.filter (fun p => p.1 != q.target) := by
        unfold Lru.put
        have hany : c1.cache.items.any (fun p => p.1 == q.target) = true := by
          rw [List.any_eq_true]; exact ⟨_, hmem, by simp⟩
        simp [hany]
      have hA1' : Agrees { c1 with cache := c1.cache.put q.target entry }
          ((q.target, old) :: c1.cache.items.filter (fun p => p.1 != q.target)) := by
        obtain ⟨a1, a2, a3, a4, a5, a6, a7, a8⟩ := hA1
        have sp := fun w => agg_split w c1.cache.items h1.nodup q.target old hmem
        exact ⟨by rw [agg_cons, ← sp]; exact a1, by rw [agg_cons, ← sp]; exact a2,
          by rw [agg_cons, ← sp]; exact a3, by rw [agg_cons, ← sp]; exact a4,
          by rw [agg_cons, ← sp]; exact a5, by rw [agg_cons, ← sp]; exact a6, a7, a8⟩
      have hD := decrement_agrees _ old _ q.target hA1'
      have hinc := increment_agrees _ entry _ q.target hD
      rw [hprev] at hcacheEq
      have hflen : (c1.cache.items.filter (fun p => p.1 != q.target)).length < c1.cache.items.length := by
        rw [List.length_filter_lt_length_iff_exists]
        exact ⟨(q.target, old), hmem, by simp⟩
      refine statsOk_of _ (by rw [hcacheEq, hput]; exact hinc) ?_ ?_ ?_
      · rw [hcacheEq, hput, List.pairwise_cons]
        refine ⟨?_, h1.nodup.sublist List.filter_sublist⟩
        intro p hp e
        have := (List.mem_filter.1 hp).2
        simp [← e] at this
      · rw [hcacheEq, Lru.put_cap]; exact h1.cap
      · rw [hcacheEq, hput, List.length_cons]; omega

/-! ### the starting point and the bound -/

/-- a fresh node: empty cache, zero counters -/
theorem statsOk_init (c : Core) (hcache : c.cache = { cap := Constants.MAX_CACHED_ITERATIVE_QUERIES })
    (hs : c.stats.estCount = 0 ∧ c.stats.respCount = 0 ∧ c.stats.subnetsSum = 0 ∧ c.stats.underflow = false)
    (hss : c.sstats.estCount = 0 ∧ c.sstats.respCount = 0 ∧ c.sstats.subnetsSum = 0 ∧ c.sstats.underflow = false) :
    StatsOk c := by
  refine statsOk_of c ?_ (by rw [hcache]; simp) (by rw [hcache]) (by rw [hcache]; simp)
  rw [hcache]
  exact ⟨hs.1, hs.2.1, hs.2.2.1, hss.1, hss.2.1, hss.2.2.1, hs.2.2.2, hss.2.2.2⟩

theorem cache_capacity : Constants.MAX_CACHED_ITERATIVE_QUERIES = 1000 := by decide

/-- a whole batch of finished lookups (one tick's `cleanup_done_queries`, any number of ticks) -/
theorem cacheQuery_fold_ok (c : Core) (h : StatsOk c) (done : List (IterQuery × List Node)) :
    StatsOk (done.foldl (fun c d => cacheQuery c d.1 d.2) c) := by
  induction done generalizing c with
  | nil => exact h
  | cons d ds ih => exact ih _ (cacheQuery_ok c h d.1 d.2)

end Mainline.Props.C20

namespace Mainline.Props.C20
open Mainline Mainline.Actor

/-! ### finished work leaves the tables -/

theorem alRemove_absent {β} (l : List (Id × β)) (k : Id) : alGet (alRemove l k) k = none := by
  simp only [alGet, alRemove, Option.map_eq_none_iff, List.find?_eq_none, List.mem_filter]
  rintro ⟨t, e⟩ ⟨_, hne⟩ heq
  simp_all

theorem alRemove_other {β} (l : List (Id × β)) (k k' : Id) (h : k' ≠ k) :
    alGet (alRemove l k) k' = alGet l k' := by
  simp only [alGet, alRemove]
  congr 1
  induction l with
  | nil => rfl
  | cons x xs ih =>
    by_cases hx : x.1 = k
    · have hne : (x.1 == k') = false := by
        rw [beq_eq_false_iff_ne, hx]; exact fun e => h e.symm
      have hf : (!(x.1 == k)) = false := by simp [hx]
      rw [List.filter_cons, hf, List.find?_cons, hne]
      simpa using ih
    · have hf : (!(x.1 == k)) = true := by simp [hx]
      rw [List.filter_cons, hf]
      simp only [ite_true, List.find?_cons]
      split
      · rfl
      · exact ih

/-- the callers parked on a finished lookup are all answered and un-parked -/
theorem releaseGet_one (a : Actor) (d : Id × List Node) (senders : List Sender)
    (h : alGet a.getSenders d.1 = some senders) :
    (a.releaseGetCallers [d]).events = a.events ++ senders.map (closingEvent d.2) ∧
    alGet (a.releaseGetCallers [d]).getSenders d.1 = none := by
  simp only [releaseGetCallers, List.foldl_cons, List.foldl_nil, releaseGetOne, h]
  exact ⟨trivial, alRemove_absent _ _⟩

/-- …each with exactly one closing event: the node list for find_node / get_closest_nodes callers,
    the end of the stream for the others -/
theorem closingEvent_caller (nodes : List Node) (s : Sender) :
    (closingEvent nodes s = .nodes (senderCaller s) nodes) ∨ (closingEvent nodes s = .closed (senderCaller s)) := by
  cases s <;> simp [closingEvent, senderCaller]

/-- the callers parked on a finished put all get its one outcome and are un-parked -/
theorem releasePut_one (a : Actor) (d : Id × Option PutErr) (cs : List Nat)
    (h : alGet a.putSenders d.1 = some cs) :
    (a.releasePutCallers [d]).events = a.events ++ cs.map (fun c => Event.putResult c (putOutcome d)) ∧
    alGet (a.releasePutCallers [d]).putSenders d.1 = none := by
  simp only [releasePutCallers, List.foldl_cons, List.foldl_nil, releasePutOne, h]
  exact ⟨trivial, alRemove_absent _ _⟩

/-! ### expired requests do not pile up -/

/-- when the request vector is full, `cleanup` leaves no request older than the timeout -/
theorem cleanup_drops_expired (s : Inflight) (hi : s.Inv) (now : Nat) (ht : s.Timed now)
    (hfull : ¬ s.requests.length < s.cap) :
    ∀ r ∈ (s.cleanup now).requests, now - r.sentAt ≤ s.timeout := by
  have hm := Inflight.expiry_mono s hi now ht
  unfold Inflight.cleanup
  simp only [hfull, ite_false]
  intro r hr
  rw [List.mem_drop_iff_getElem] at hr
  obtain ⟨j, hj, rfl⟩ := hr
  generalize hidx : s.cleanupIdx now = idx at hj ⊢
  unfold Inflight.cleanupIdx at hidx
  cases hb : binarySearchBy (Inflight.expiryProbe s.timeout now) s.requests with
  | inr p =>
    rw [hb] at hidx
    simp only at hidx
    subst hidx
    obtain ⟨_, _, hgt⟩ := bsSearch_err _ _ hm p hb
    have hj' : p + j < s.requests.length := by omega
    have := hgt (p + j) (by omega) hj'
    rw [probeAt_eq _ _ _ hj'] at this
    unfold Inflight.expiryProbe at this
    rw [Nat.compare_eq_gt] at this
    omega
  | inl k =>
    rw [hb] at hidx
    simp only at hidx
    subst hidx
    obtain ⟨hk, he⟩ := bsSearch_ok _ _ hm k hb
    rw [probeAt_eq _ _ _ hk] at he
    unfold Inflight.expiryProbe at he
    rw [Nat.compare_eq_eq] at he
    -- later requests are not older than request `k`, which is exactly at the timeout
    have hs := hi.times
    rw [List.pairwise_iff_getElem] at hs
    have hj' : k + j < s.requests.length := by omega
    by_cases hj0 : j = 0
    · subst hj0; simp only [Nat.add_zero]; omega
    · have := hs k (k + j) hk hj' (by omega)
      omega

end Mainline.Props.C20
