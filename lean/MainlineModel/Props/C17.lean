/-
  C17 — Local write-conflict detection for concurrent mutable puts.

  Model: `Actor.checkConcurrency` (`Core::check_concurrency_errors`), `Actor.put` / `Actor.pickup`
  (`Actor::put` and the `ActorMessage::Put` arm of `run`), and the 301/302 majority clause of
  `PutQuery::check` (`Model/PutQuery.lean`).  "In flight" is exactly "registered in
  `Core::put_queries` under the item's target", from `Actor::put` until the put is answered.
-/
import MainlineModel.Model.Actor
import MainlineModel.Props.C08
namespace Mainline.Props.C17
open Mainline Mainline.Actor

/-- the in-flight put registered for `target` is the mutable item (`iseq`, `isig`) -/
def InFlight (c : Core) (target : Id) (iseq : Int) (isig : Bytes) : Prop :=
  ∃ e iv ik isalt icas, alGet c.puts target = some e ∧
    e.spec = .putMutable target iv ik iseq isig isalt icas

/-! ### the rule table, for every state of the node and every pair of items -/

/-- an identical item (same signature) is accepted, and nothing is touched -/
theorem same_item_accepted (c : Core) (target : Id) (v k : Bytes) (seq : Int) (sig : Bytes)
    (salt : Option Bytes) (cas : Option Int) (iseq : Int)
    (h : InFlight c target iseq sig) :
    (checkConcurrency c (.putMutable target v k seq sig salt cas)).2 = none ∧
    (checkConcurrency c (.putMutable target v k seq sig salt cas)).1.puts = c.puts := by
  obtain ⟨e, iv, ik, isalt, icas, hg, hs⟩ := h
  simp [checkConcurrency, hg, hs]

/-- a different item with a lower seq fails with NotMostRecent — with or without cas -/
theorem lower_seq_not_most_recent (c : Core) (target : Id) (v k : Bytes) (seq : Int) (sig : Bytes)
    (salt : Option Bytes) (cas : Option Int) (iseq : Int) (isig : Bytes)
    (h : InFlight c target iseq isig) (hsig : sig ≠ isig) (hlt : seq < iseq) :
    checkConcurrency c (.putMutable target v k seq sig salt cas) = (c, some .notMostRecent) := by
  obtain ⟨e, iv, ik, isalt, icas, hg, hs⟩ := h
  simp [checkConcurrency, hg, hs, hsig, hlt]

/-- a different item without cas fails with ConflictRisk -/
theorem no_cas_conflict_risk (c : Core) (target : Id) (v k : Bytes) (seq : Int) (sig : Bytes)
    (salt : Option Bytes) (iseq : Int) (isig : Bytes)
    (h : InFlight c target iseq isig) (hsig : sig ≠ isig) (hge : ¬ seq < iseq) :
    checkConcurrency c (.putMutable target v k seq sig salt none) = (c, some .conflictRisk) := by
  obtain ⟨e, iv, ik, isalt, icas, hg, hs⟩ := h
  simp [checkConcurrency, hg, hs, hsig, hge]

/-- with cas equal to the in-flight seq it supersedes the in-flight write: no error, and the
    in-flight put is withdrawn (the new one is registered by `Actor.put`) -/
theorem cas_match_supersedes (c : Core) (target : Id) (v k : Bytes) (seq : Int) (sig : Bytes)
    (salt : Option Bytes) (iseq : Int) (isig : Bytes)
    (h : InFlight c target iseq isig) (hsig : sig ≠ isig) (hge : ¬ seq < iseq) :
    (checkConcurrency c (.putMutable target v k seq sig salt (some iseq))).2 = none ∧
    alGet (checkConcurrency c (.putMutable target v k seq sig salt (some iseq))).1.puts target = none := by
  obtain ⟨e, iv, ik, isalt, icas, hg, hs⟩ := h
  simp only [checkConcurrency, hg, hs, hsig, hge, beq_iff_eq, ite_false, ite_true, BEq.rfl, true_and]
  simp only [alGet, alRemove, Option.map_eq_none_iff, List.find?_eq_none, List.mem_filter]
  rintro ⟨t, e'⟩ ⟨_, hne⟩ heq
  simp_all

/-- with any other cas it fails with CasFailed -/
theorem cas_mismatch_fails (c : Core) (target : Id) (v k : Bytes) (seq : Int) (sig : Bytes)
    (salt : Option Bytes) (cas iseq : Int) (isig : Bytes)
    (h : InFlight c target iseq isig) (hsig : sig ≠ isig) (hge : ¬ seq < iseq) (hcas : cas ≠ iseq) :
    checkConcurrency c (.putMutable target v k seq sig salt (some cas)) = (c, some .casFailed) := by
  obtain ⟨e, iv, ik, isalt, icas, hg, hs⟩ := h
  simp [checkConcurrency, hg, hs, hsig, hge, hcas]

/-- nothing in flight for the target: no error -/
theorem nothing_in_flight_ok (c : Core) (spec : PutSpec) (h : alGet c.puts spec.target = none) :
    checkConcurrency c spec = (c, none) := by
  cases spec with
  | putMutable target v k seq sig salt cas =>
    have h' : alGet c.puts target = none := h
    simp [checkConcurrency, h']
  | _ => rfl

/-- these errors are never produced for immutable or announce puts -/
theorem non_mutable_never_conflicts (c : Core) (spec : PutSpec)
    (h : ∀ t v k seq sig salt cas, spec ≠ .putMutable t v k seq sig salt cas) :
    checkConcurrency c spec = (c, none) := by
  cases spec with
  | putMutable target v k seq sig salt cas => exact absurd rfl (h target v k seq sig salt cas)
  | _ => rfl

/-- the only errors the check produces -/
theorem check_errors (c : Core) (spec : PutSpec) (e : PutErr)
    (h : (checkConcurrency c spec).2 = some e) :
    e = .notMostRecent ∨ e = .casFailed ∨ e = .conflictRisk := by
  cases spec with
  | putMutable target v k seq sig salt cas =>
    simp only [checkConcurrency] at h
    split at h
    · split at h
      · split at h
        · cases h
        · split at h
          · injection h with h; exact Or.inl h.symm
          · split at h
            · split at h
              · cases h
              · injection h with h; exact Or.inr (Or.inl h.symm)
            · injection h with h; exact Or.inr (Or.inr h.symm)
      · cases h
    · cases h
  | _ => cases h

/-! ### what the actor does with the verdict -/

/-- a rejected put is answered at once with that error and is not registered: the caller is not
    parked, the in-flight put keeps running -/
theorem rejected_put_answered_at_once (a : Actor) (env : Env) (c : Nat) (spec : PutSpec) (extra : List Node)
    (e : PutErr) (h : (checkConcurrency a.core spec).2 = some e) :
    (a.pickup env (some (.put c spec extra))).events = a.events ++ [.putResult c (.error e)] ∧
    (a.pickup env (some (.put c spec extra))).putSenders = a.putSenders := by
  have hp : a.put spec extra env.now = ({ a with core := (checkConcurrency a.core spec).1 }, .error e) := by
    unfold Actor.put; rw [h]
  simp only [pickup, pickupPut, hp]
  trivial

/-! ### 301 / 302 from a majority of the contacted nodes -/

open Mainline.PutQuery in
/-- if more than half of the contacted nodes answered 301, a mutable put is no longer pending: it
    fails with CasFailed — unless that very reply completed the put and some node had stored the
    item, in which case it is Ok (C08) -/
theorem majority_301_surfaces (q : PutQuery) (hm : q.isMutable = true) (hi : ErrInv q.errors)
    (htot : tallyAll q.errors ≤ q.inflight.length)
    (hmaj : q.inflight.length / 2 + 1 ≤ tallyOf q.errors 301) (sock : Inflight) (now : Nat) :
    q.check sock now = .error .casFailed ∨
      (q.isDone sock now = true ∧ 0 < q.storedAt ∧ q.check sock now = .ok true) := by
  -- the 301 entry is the head of the tally
  have hhead : ∃ c rest, q.errors = (c, 301) :: rest ∧ q.inflight.length / 2 + 1 ≤ c := by
    cases he : q.errors with
    | nil => rw [he] at hmaj; simp [tallyOf] at hmaj
    | cons x xs =>
      by_cases hx : x.2 = 301
      · refine ⟨x.1, xs, by rw [← hx], ?_⟩
        have := tallyOf_of_mem q.errors hi.nodup x (by rw [he]; exact List.mem_cons_self)
        rw [hx] at this; rw [← this]; exact hmaj
      · exfalso
        -- some other entry carries 301 with a count ≥ half, and the head has at least that count
        have h2 := tallyOf_two_le_all q.errors 301 x.2 (fun e => hx e.symm)
        have hxm : tallyOf q.errors x.2 = x.1 :=
          tallyOf_of_mem q.errors hi.nodup x (by rw [he]; exact List.mem_cons_self)
        have hge : tallyOf q.errors 301 ≤ x.1 := by
          rw [he] at hmaj ⊢
          simp only [tallyOf, hx, ite_false, Nat.zero_add] at hmaj ⊢
          have hs := hi.sorted
          rw [he, List.pairwise_cons] at hs
          -- every entry of the tail has count ≤ x.1; the tally of 301 in the tail is one of them
          clear hmaj h2 hxm
          have hnd := hi.nodup
          rw [he, List.pairwise_cons] at hnd
          by_cases hex : ∃ y ∈ xs, y.2 = 301
          · obtain ⟨y, hy, hy2⟩ := hex
            have := tallyOf_of_mem xs hnd.2 y hy
            rw [hy2] at this; rw [this]; exact hs.1 y hy
          · have : tallyOf xs 301 = 0 := tallyOf_zero_of_absent xs 301 (fun y hy h => hex ⟨y, hy, h⟩)
            rw [this]; exact Nat.zero_le _
        omega
  obtain ⟨c, rest, he, hc⟩ := hhead
  have hmce : q.mostCommonError = some (c, .casFailed) := by
    simp [mostCommonError, hm, he]
  unfold check
  by_cases hd : q.isDone sock now = true
  · simp only [hd, ite_true]
    by_cases h0 : q.storedAt = 0
    · left; simp [h0, hmce]
    · right
      have : (q.storedAt == 0) = false := by simpa using h0
      simp only [this]
      exact ⟨trivial, by omega, by simp⟩
  · left
    have hd' : q.isDone sock now = false := by simpa using hd
    simp only [hd', Bool.false_eq_true, ite_false]
    have : q.majorityRejected = some .casFailed := by
      simp [majorityRejected, hm, hmce, hc, PutErr.isConcurrency]
    simp [this]

/-! ### non-vacuity: a node with a put of (seq 5, signature [1]) in flight -/

def exCore : Core :=
  { bootstrap := [], rt := { id := ⟨[0]⟩ }, srt := { id := ⟨[0]⟩ }, lastRefresh := 0, lastPing := 0,
    server := Server.new 0 0 0 0 1 0, serverMode := false,
    puts := [(⟨[7]⟩, { q := { isMutable := true }, spec := .putMutable ⟨[7]⟩ [1] [2] 5 [1] none none })] }

example : InFlight exCore ⟨[7]⟩ 5 [1] := ⟨_, _, _, _, _, rfl, rfl⟩
example : (checkConcurrency exCore (.putMutable ⟨[7]⟩ [9] [2] 6 [8] none (some 5))).2 = none ∧
    (checkConcurrency exCore (.putMutable ⟨[7]⟩ [9] [2] 6 [8] none (some 4))).2 = some .casFailed ∧
    (checkConcurrency exCore (.putMutable ⟨[7]⟩ [9] [2] 4 [8] none (some 5))).2 = some .notMostRecent ∧
    (checkConcurrency exCore (.putMutable ⟨[7]⟩ [9] [2] 5 [8] none none)).2 = some .conflictRisk ∧
    (checkConcurrency exCore (.putMutable ⟨[7]⟩ [1] [2] 5 [1] none none)).2 = none := by decide

end Mainline.Props.C17
