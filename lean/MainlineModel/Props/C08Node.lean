/-
  C08 at the level of the whole node — "a put returns Ok only if a storing node's acknowledgement for
  that put reached the caller before its requests expired".

  `Props/C08.lean` proves the decision logic of `PutQuery` over lists of replies.  Here the replies
  are the datagrams of the node: for the put registered under a target,

  * `fresh_put_counts_nothing` — a put registered by an API call has counted no acknowledgement;
  * `ack_counted_only_if_accepted` — in one tick the count of acknowledgements of a registered put stays,
    or goes up by exactly one, and then the datagram handed up by the socket in this tick is a
    ping-shaped response, not flagged read-only, carrying one of the put's transaction ids — which the
    socket hands up only when it comes from the address that request went to while the request is
    younger than the timeout (`C09.handed_up_iff`);
  * `ok_needs_counted_ack` — the tick reports a put as stored (Ok) only if its count is positive.

  Together: along the life of a put the count starts at 0, only accepted, in-time acknowledgements from
  the addressed nodes raise it, and Ok requires it to be positive.
-/
import MainlineModel.Props.C06Puts
import MainlineModel.Props.C09
namespace Mainline.Props.C08Node
open Mainline Mainline.Actor Mainline.Props.C06Time Mainline.Props.C06Puts

theorem fresh_put_counts_nothing (spec : PutSpec) (extra : List Node) :
    (newPutEntry spec extra).q.storedAt = 0 ∧ (newPutEntry spec extra).q.errors = [] := ⟨rfl, rfl⟩

theorem putError_storedAt (q : PutQuery) (code : Int) : (q.error code).storedAt = q.storedAt := by
  unfold PutQuery.error
  split
  · split <;> rfl
  · rfl

/-- the put branch of `handle_response` counts an acknowledgement only for a ping-shaped response -/
theorem putStep_storedAt (q : PutQuery) (m : MessageType) :
    (putStep q m).storedAt = q.storedAt ∨
    ((putStep q m).storedAt = q.storedAt + 1 ∧ ∃ i, m = .response (.ping i)) := by
  unfold putStep
  split
  · exact Or.inr ⟨rfl, _, rfl⟩
  · exact Or.inl (putError_storedAt q _)
  · exact Or.inl rfl

theorem handleResponse_put_acks (c : Core) (env : Env) (src : Addr) (m : Message) (hk : PutKeys c.puts)
    (t : Id) (e : PutEntry) (he : alGet c.puts t = some e) :
    ∃ e', alGet (handleResponse c env src m).1.puts t = some e' ∧ e'.q.inflight = e.q.inflight ∧
      (e'.q.storedAt = e.q.storedAt ∨
       (e'.q.storedAt = e.q.storedAt + 1 ∧ m.readOnly = false ∧ e.q.isInflight m.tid.toNat = true ∧
        ∃ i, m.mtype = .response (.ping i))) := by
  unfold handleResponse
  split
  · exact ⟨e, he, rfl, Or.inl rfl⟩
  · rename_i hro
    split
    · rename_i target e0 hf
      have hmem : (target, e0) ∈ c.puts := List.mem_of_find?_eq_some hf
      have hin : e0.q.isInflight m.tid.toNat = true := by
        have := List.find?_some hf; simpa using this
      have hg0 := alGet_of_mem c.puts hk target e0 hmem
      by_cases ht : target = t
      · subst ht
        rw [he] at hg0
        injection hg0 with hg0
        subst hg0
        refine ⟨_, alGet_alSet_self _ _ _, putStep_inflight' _ _, ?_⟩
        rcases putStep_storedAt e.q m.mtype with h | ⟨h, i, hi⟩
        · exact Or.inl h
        · exact Or.inr ⟨h, by simpa using hro, hin, i, hi⟩
      · refine ⟨e, ?_, rfl, Or.inl rfl⟩
        simp only
        rw [alGet_alSet_other _ _ _ _ (fun h => ht h.symm)]; exact he
    · split
      · split
        · simp only; rw [(addResponder_time _ _ _ _).2]; exact ⟨e, he, rfl, Or.inl rfl⟩
        · exact ⟨e, he, rfl, Or.inl rfl⟩
      · split
        · rw [(addResponder_time _ _ _ _).2]; exact ⟨e, he, rfl, Or.inl rfl⟩
        · exact ⟨e, he, rfl, Or.inl rfl⟩

/-- **An acknowledgement is counted only for a datagram the socket accepted for this put.**  Through
    the first half of a tick (receive, handle, forward) the put registered for `t` keeps its requests,
    and its count of acknowledgements stays or goes up by one — the latter only if the socket handed
    up, in this tick, a ping-shaped response that is not flagged read-only and carries one of the put's
    transaction ids. -/
theorem ack_counted_only_if_accepted (a : Actor) (env : Env) (dgram : Option (Message × Addr)) (hk : PutKeys a.core.puts)
    (t : Id) (e : PutEntry) (he : alGet a.core.puts t = some e) :
    ∃ e', alGet (a.preDone env dgram).core.puts t = some e' ∧ e'.q.inflight = e.q.inflight ∧
      (e'.q.storedAt = e.q.storedAt ∨
       (e'.q.storedAt = e.q.storedAt + 1 ∧
        ∃ m src, (a.recvPhase env.now dgram).2 = some (m, src) ∧ m.readOnly = false ∧
          e.q.isInflight m.tid.toNat = true ∧ ∃ i, m.mtype = .response (.ping i))) := by
  unfold preDone
  rw [forwardValue_core]
  obtain ⟨_, rc, _, _⟩ := recvPhase_time a env.now dgram
  generalize (a.recvPhase env.now dgram).1 = a1 at rc
  generalize (a.recvPhase env.now dgram).2 = handed
  rw [← rc] at he hk
  unfold handleIncoming
  split
  · exact ⟨e, he, rfl, Or.inl rfl⟩
  · rename_i m src
    split
    · rename_i req _
      refine ⟨e, ?_, rfl, Or.inl rfl⟩
      unfold handleIncomingRequest
      have c2 := handleRequest_puts a1.core env src m.readOnly m.version req
      split
      · rw [populate_puts, sendReply_core]; simp only; rw [c2]; exact he
      · rw [sendReply_core]; simp only; rw [c2]; exact he
    · obtain ⟨e', g, i1, h⟩ := handleResponse_put_acks a1.core env src m hk t e he
      refine ⟨e', g, i1, ?_⟩
      rcases h with h | ⟨h1, h2, h3, h4⟩
      · exact Or.inl h
      · exact Or.inr ⟨h1, m, src, rfl, h2, h3, h4⟩

/-- …and the socket hands such a response up only if it comes from the address one of the put's
    requests went to, while that request is younger than the timeout (C09) -/
theorem accepted_ack_is_genuine (a : Actor) (hi : a.sock.Inv) (now : Nat) (dgram : Option (Message × Addr))
    (m : Message) (src : Addr) (h : (a.recvPhase now dgram).2 = some (m, src)) (i : Id) (hm : m.mtype = .response (.ping i)) :
    src.port ≠ 0 ∧ ∃ r ∈ a.sock.requests, C09.Answers r m.tid.toNat src ∧ a.sock.live r now = true := by
  have hd := C07.recvPhase_handed a now dgram m src h
  subst hd
  exact (C09.handed_up_iff a hi now m src (by intro r hr; rw [hm] at hr; cases hr)).1 h

/-- **Ok needs a counted acknowledgement**: a put the tick reports as stored has a positive count -/
theorem ok_needs_counted_ack (a : Actor) (now : Nat) (t : Id) (h : (t, none) ∈ a.checkDonePuts now) :
    ∃ e, (t, e) ∈ a.core.puts ∧ 0 < e.q.storedAt ∧ e.q.check a.sock now = .ok true := by
  unfold checkDonePuts at h
  rw [List.mem_filterMap] at h
  obtain ⟨p, hp, hh⟩ := h
  cases hc : p.2.q.check a.sock now with
  | error err => rw [hc] at hh; simp at hh
  | ok b =>
    rw [hc] at hh
    cases b with
    | false => simp at hh
    | true =>
      simp only [Option.some.injEq, Prod.mk.injEq, and_true] at hh
      subst hh
      exact ⟨p.2, hp, ((C08.check_ok_iff p.2.q a.sock now).1 hc).2, hc⟩

end Mainline.Props.C08Node
