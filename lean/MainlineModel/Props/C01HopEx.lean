/-
  The hypotheses of `C01Hop.lookup_request_brings_value` are satisfiable: a concrete reader with one
  registered `get` lookup, one live request in its table and the request datagram in its log, and a
  concrete holder that stores the value.
-/
import MainlineModel.Props.C01Hop
namespace Mainline.Props.C01HopEx
open Mainline Mainline.Actor Mainline.Props.C01Hop

def v : Bytes := [1, 2, 3]
def target : Id := ⟨hashImmutable v⟩
def holderAddr : Addr := { ip := 0x0A000001, port := 6881 }
def readerAddr : Addr := { ip := 0x0A000002, port := 6882 }
def base : Actor := Actor.create C06Time.demoCfg1 7 0

def q : IterQuery := { IterQuery.new base.id target (.getValue none none) with inflight := [0] }
def r : InflightReq := { tid := 0, to := holderAddr, sentAt := 0 }
def x : Message := { tid := 0, version := none, requesterIp := none, mtype := .request q.request, readOnly := true }

def reader : Actor :=
  { base with
    sock := { nextTid := 1, requests := [r] }
    out := [(holderAddr, x)]
    core := { base.core with iter := [(target, q)], puts := [] }
    getSenders := [(target, [Sender.immutable 7])] }

def holder : Actor :=
  { base with
    sockServerMode := true
    core := { base.core with
              serverMode := true
              allow := fun _ _ => true
              server := { base.core.server with immutable := base.core.server.immutable.put target v } } }

theorem reader_sockOrd : SockOrd reader.sock 0 := by
  refine ⟨by decide, ?_, List.pairwise_singleton _ _, List.pairwise_singleton _ _, ?_⟩
  · intro r' h; simp only [reader, List.mem_singleton] at h; subst h; decide
  · intro r' h; simp only [reader, List.mem_singleton] at h; subst h; decide

theorem reader_sent : Sent reader 0 holderAddr q.request := ⟨x, List.mem_singleton.2 rfl, rfl, rfl⟩

theorem reader_attr : Attr reader := by
  refine ⟨⟨?_, ?_⟩, ?_, ?_, ?_⟩
  · have : reader.out.filter isReq = [(holderAddr, x)] := by simp [reader, isReq, x]
    rw [this]; exact List.pairwise_singleton _ _
  · intro y hy _
    simp only [reader, List.mem_singleton] at hy
    subst hy
    decide
  · intro p hp tid ht
    simp only [reader, List.mem_singleton] at hp
    subst hp
    simp only [q, List.mem_singleton] at ht
    subst ht
    exact ⟨holderAddr, reader_sent⟩
  · intro p hp; simp [reader] at hp
  · intro r' hr'
    simp only [reader, List.mem_singleton] at hr'
    subst hr'
    exact ⟨_, reader_sent⟩

theorem reader_iter : alGet reader.core.iter target = some q := by
  simp [reader, alGet]

/-- the premises of `lookup_request_brings_value` hold for this reader and this holder, at any clock
    below the request timeout -/
example (envA envB : Env) (h : envB.now < reader.sock.timeout) (msgA msgB : Option ApiMsg) :
    ∃ x' : Message, (r.to, x') ∈ reader.out ∧ x'.mtype = .request ⟨q.requesterId, .getValue target none none⟩ ∧
      ∃ l, (holder.step envA (some (x', readerAddr)) msgA).out = holder.out ++ l ∧ ∃ y ∈ l, y.1 = readerAddr ∧
        Event.value 7 (.immutable v) ∈ (reader.step envB (some (y.2, r.to)) msgB).events := by
  refine lookup_request_brings_value holder reader readerAddr 0 reader_sockOrd reader_attr ?_ ?_ target q none reader_iter rfl
    r (List.mem_singleton.2 rfl) (List.mem_singleton.2 rfl) [Sender.immutable 7] 7 ?_ (List.mem_singleton.2 rfl) v rfl rfl rfl ?_ rfl
    (by decide) (by decide) envA envB msgA msgB ?_
  · intro p hp; simp only [reader, List.mem_singleton] at hp; subst hp; rfl
  · simp [C06Time.IterKeys, reader]
  · simp [reader, alGet]
  · exact Lru.find?_put_self _ _ _
  · simp only [Inflight.live, r]; exact decide_eq_true h

end Mainline.Props.C01HopEx
