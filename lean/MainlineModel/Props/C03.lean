/-
  C03 — A storing node accepts only authorised, valid writes.

  For every server state, every request and every value of the parameters (`verify` = Ed25519,
  `allow` = request filter, clocks):
  * `*_accept_iff`: the reply is the success (Ping) response **iff** the token validates for the
    sender's IP and the payload is valid, per put kind; `*_error_code` gives the BEP error code in
    the code's check order;
  * `reject_changes_nothing`: a rejected put leaves every store's contents unchanged (the LRU
    *recency* of a mutable target is promoted by a 301/302/206 rejection — that is what
    `LruCache::get` does — so the statement is about lookups, not about list order);
  * `filtered_silent`: a vetoed request gets no reply and changes nothing at all;
  * `stored_was_authorised` / `mutInv_reachable`: after any history every stored mutable item has a
    verifying signature, target = SHA1(k‖salt) and legal sizes; every stored immutable value hashes
    to its target; `announce_peer_records_sender`: the recorded endpoint is the sender's own IP with
    the explicit or implied port;
  * `served_*`: get replies carry exactly what the stores hold.
  The model is the code after the `fix:` commit that added the target check for mutable puts.
-/
import MainlineModel.Lemmas.ServerLemmas
namespace Mainline.Props.C03
open Mainline Mainline.Server

/-! ### T1 obligations -/
theorem const_value_len : Constants.MAX_VALUE_LEN = 1000 := by decide
theorem const_salt_len : Constants.MAX_SALT_LEN = 64 := by decide
theorem const_tolerance : Constants.MAX_TIMESTAMP_TOLERANCE_US = 45 * 1000 * 1000 := by decide
theorem const_error_codes : ∀ c ∈ Constants.SERVER_ERROR_CODES, c ∈ [203, 205, 206, 207, 301, 302] := by
  decide

abbrev ok (rt : RoutingTable) : Reply := .response (.ping rt.id)

/-! ### immutable puts -/

theorem put_immutable_accept_iff (s : Server) (verify : Verify) (rt : RoutingTable) (src : Addr)
    (wall : Nat) (rid : Id) (token : Bytes) (target : Id) (v : Bytes) :
    (s.handlePut verify rt src wall rid token (.putImmutable target v)).2 = ok rt ↔
      s.tokens.validate src.ip token = true ∧ v.length ≤ 1000 ∧ hashImmutable v = target.bytes := by
  simp only [handlePut, tokenOk, const_value_len]
  cases s.tokens.validate src.ip token <;> simp
  by_cases hl : v.length > 1000 <;> simp [hl]
  · omega
  · by_cases hh : hashImmutable v = target.bytes <;> simp [hh]
    omega

theorem put_immutable_error_code (s : Server) (verify : Verify) (rt : RoutingTable) (src : Addr)
    (wall : Nat) (rid : Id) (token : Bytes) (target : Id) (v : Bytes) :
    (s.handlePut verify rt src wall rid token (.putImmutable target v)).2 =
      if s.tokens.validate src.ip token = false then .error 203
      else if v.length > 1000 then .error 205
      else if hashImmutable v ≠ target.bytes then .error 203
      else ok rt := by
  simp only [handlePut, tokenOk, const_value_len]
  cases s.tokens.validate src.ip token <;> simp
  by_cases hl : 1000 < v.length <;> simp [hl]
  by_cases hh : hashImmutable v = target.bytes <;> simp [hh]

theorem put_immutable_stores (s : Server) (verify : Verify) (rt : RoutingTable) (src : Addr)
    (wall : Nat) (rid : Id) (token : Bytes) (target : Id) (v : Bytes)
    (h : (s.handlePut verify rt src wall rid token (.putImmutable target v)).2 = ok rt) :
    (s.handlePut verify rt src wall rid token (.putImmutable target v)).1.immutable.find? target = some v := by
  have := (put_immutable_accept_iff s verify rt src wall rid token target v).1 h
  simp only [handlePut, tokenOk, const_value_len, this.1]
  have h1 : ¬ v.length > 1000 := by omega
  simp [h1, this.2.2, Lru.find?_put_self]

/-! ### mutable puts -/

def casOk (prev : Option StoredItem) (cas : Option Int) : Prop :=
  match prev, cas with
  | some p, some c => p.seq = c
  | _, _ => True

def seqOk (prev : Option StoredItem) (seq : Int) : Prop :=
  match prev with
  | some p => p.seq ≤ seq
  | none => True

theorem casBad_iff (prev : Option StoredItem) (cas : Option Int) : casBad prev cas = false ↔ casOk prev cas := by
  cases prev <;> cases cas <;> simp [casBad, casOk]

theorem seqTooOld_iff (prev : Option StoredItem) (seq : Int) : seqTooOld prev seq = false ↔ seqOk prev seq := by
  cases prev <;> simp [seqTooOld, seqOk]

theorem saltTooBig_iff (salt : Option Bytes) :
    saltTooBig salt = false ↔ ∀ sl, salt = some sl → sl.length ≤ 64 := by
  cases salt <;> simp [saltTooBig, const_salt_len]

theorem putMutableStore_ok_iff (s : Server) (verify : Verify) (rt : RoutingTable) (target : Id)
    (v k : Bytes) (seq : Int) (sig : Bytes) (salt : Option Bytes) (cas : Option Int) :
    (s.putMutableStore verify rt target v k seq sig salt cas).2 = ok rt ↔
      casOk (s.mutable.find? target) cas ∧ seqOk (s.mutable.find? target) seq ∧
      verify k (encodeSignable seq v salt) sig = true := by
  unfold putMutableStore
  rw [Lru.get_snd, ← casBad_iff, ← seqTooOld_iff]
  cases casBad (s.mutable.find? target) cas <;> cases seqTooOld (s.mutable.find? target) seq <;>
    cases verify k (encodeSignable seq v salt) sig <;> simp

theorem put_mutable_accept_iff (s : Server) (verify : Verify) (rt : RoutingTable) (src : Addr)
    (wall : Nat) (rid : Id) (token : Bytes) (target : Id) (v k : Bytes) (seq : Int) (sig : Bytes)
    (salt : Option Bytes) (cas : Option Int) :
    (s.handlePut verify rt src wall rid token (.putMutable target v k seq sig salt cas)).2 = ok rt ↔
      s.tokens.validate src.ip token = true ∧ v.length ≤ 1000 ∧
      (∀ sl, salt = some sl → sl.length ≤ 64) ∧
      target.bytes = targetFromKey k salt ∧
      casOk (s.mutable.find? target) cas ∧ seqOk (s.mutable.find? target) seq ∧
      verify k (encodeSignable seq v salt) sig = true := by
  simp only [handlePut, tokenOk, const_value_len]
  rw [← saltTooBig_iff]
  cases s.tokens.validate src.ip token
  · simp
  · by_cases hl : v.length > 1000
    · simp [hl]; omega
    · have hl' : v.length ≤ 1000 := by omega
      cases saltTooBig salt
      · by_cases ht : target.bytes = targetFromKey k salt
        · simp [hl, hl', ht, putMutableStore_ok_iff]
        · have : (target.bytes != targetFromKey k salt) = true := by simpa using ht
          simp [hl, this, ht]
      · simp [hl]

/-- the error code of a rejected mutable put, in the code's check order -/
theorem put_mutable_error_code (s : Server) (verify : Verify) (rt : RoutingTable) (src : Addr)
    (wall : Nat) (rid : Id) (token : Bytes) (target : Id) (v k : Bytes) (seq : Int) (sig : Bytes)
    (salt : Option Bytes) (cas : Option Int) :
    (s.handlePut verify rt src wall rid token (.putMutable target v k seq sig salt cas)).2 =
      if s.tokens.validate src.ip token = false then .error 203
      else if v.length > 1000 then .error 205
      else if saltTooBig salt = true then .error 207
      else if target.bytes ≠ targetFromKey k salt then .error 203
      else if casBad (s.mutable.find? target) cas = true then .error 301
      else if seqTooOld (s.mutable.find? target) seq = true then .error 302
      else if verify k (encodeSignable seq v salt) sig = false then .error 206
      else ok rt := by
  simp only [handlePut, tokenOk, const_value_len, putMutableStore, Lru.get_snd]
  cases s.tokens.validate src.ip token <;> simp
  by_cases hl : 1000 < v.length <;> simp [hl]
  cases saltTooBig salt <;> simp
  by_cases ht : target.bytes = targetFromKey k salt <;> simp [ht]
  cases casBad (s.mutable.find? target) cas <;> simp
  cases seqTooOld (s.mutable.find? target) seq <;> simp
  cases verify k (encodeSignable seq v salt) sig <;> simp

/-! ### announce_peer / announce_signed_peer -/

theorem announce_peer_accept_iff (s : Server) (verify : Verify) (rt : RoutingTable) (src : Addr)
    (wall : Nat) (rid : Id) (token : Bytes) (ih : Id) (port : UInt16) (implied : Option Bool) :
    (s.handlePut verify rt src wall rid token (.announcePeer ih port implied)).2 = ok rt ↔
      s.tokens.validate src.ip token = true := by
  simp only [handlePut, tokenOk]
  by_cases hv : s.tokens.validate src.ip token = true
  · simp [hv]
  · have : s.tokens.validate src.ip token = false := by simpa using hv
    simp [this]

/-- the endpoint recorded for an accepted announce is the sender's own IP, with the sender's source
    port when `implied_port` is set and the announced port otherwise -/
theorem announce_peer_records_sender (s : Server) (verify : Verify) (rt : RoutingTable) (src : Addr)
    (wall : Nat) (rid : Id) (token : Bytes) (ih : Id) (port : UInt16) (implied : Option Bool)
    (h : s.tokens.validate src.ip token = true) :
    ∃ inner, (s.handlePut verify rt src wall rid token (.announcePeer ih port implied)).1.peers.find? ih = some inner ∧
      inner.find? rid = some (if implied = some true then src else ⟨src.ip, port⟩) := by
  simp only [handlePut, tokenOk, h, Bool.not_true, Bool.false_eq_true, ite_false]
  have hpeer : announcedPeer src port implied = (if implied = some true then src else ⟨src.ip, port⟩) := by
    unfold announcedPeer
    by_cases hi : implied = some true <;> simp [hi]
  rw [hpeer]
  unfold addPeer
  cases hg : s.peers.get ih with
  | mk outer found =>
    cases found with
    | some inner =>
      simp only
      refine ⟨inner.put rid _, ?_, Lru.find?_put_self _ _ _⟩
      rw [Lru.find?_cons]; simp
    | none =>
      simp only
      exact ⟨_, Lru.find?_put_self _ _ _, Lru.find?_put_self _ _ _⟩

theorem announce_signed_accept_iff (s : Server) (verify : Verify) (rt : RoutingTable) (src : Addr)
    (wall : Nat) (rid : Id) (token : Bytes) (ih : Id) (t : Nat) (k sig : Bytes) :
    (s.handlePut verify rt src wall rid token (.announceSignedPeer ih t k sig)).2 = ok rt ↔
      s.tokens.validate src.ip token = true ∧ verify k (ih.bytes ++ be64 (UInt64.ofNat t)) sig = true ∧
      absDiff wall t ≤ 45000000 := by
  simp only [handlePut, tokenOk, encodeSignableAnnounce, const_tolerance]
  cases s.tokens.validate src.ip token <;> simp
  cases verify k (ih.bytes ++ be64 (UInt64.ofNat t)) sig <;> simp
  by_cases h : 45000000 < absDiff wall t <;> simp [h]
  omega

/-- every rejection of a put is one of the BEP error codes -/
theorem put_reply_is_ok_or_bep_error (s : Server) (verify : Verify) (rt : RoutingTable) (src : Addr)
    (wall : Nat) (rid : Id) (token : Bytes) (spec : PutSpec) :
    (s.handlePut verify rt src wall rid token spec).2 = ok rt ∨
      ∃ c ∈ [203, 205, 206, 207, 301, 302], (s.handlePut verify rt src wall rid token spec).2 = .error c := by
  cases spec <;> simp only [handlePut, putMutableStore] <;> (repeat' split) <;> simp

/-! ### rejected and vetoed requests change nothing -/

/-- what is observable of the stores: every lookup -/
def sameContents (a b : Server) : Prop :=
  a.immutable = b.immutable ∧ a.peers = b.peers ∧ a.signedPeers = b.signedPeers ∧
  ∀ t, a.mutable.find? t = b.mutable.find? t

theorem sameContents_refl (s : Server) : sameContents s s := ⟨rfl, rfl, rfl, fun _ => rfl⟩

theorem sameContents_promote (s : Server) (target : Id) :
    sameContents { s with mutable := (s.mutable.get target).1 } s :=
  ⟨rfl, rfl, rfl, fun _ => Lru.find?_get_fst _ _ _⟩

theorem reject_changes_nothing (s : Server) (verify : Verify) (rt : RoutingTable) (src : Addr)
    (wall : Nat) (rid : Id) (token : Bytes) (spec : PutSpec)
    (h : (s.handlePut verify rt src wall rid token spec).2 ≠ ok rt) :
    sameContents (s.handlePut verify rt src wall rid token spec).1 s := by
  cases spec with
  | announcePeer ih port implied =>
    simp only [handlePut] at h ⊢
    split
    · exact sameContents_refl s
    · rename_i hc; simp [hc] at h
  | announceSignedPeer ih t k sig =>
    simp only [handlePut] at h ⊢
    split
    · exact sameContents_refl s
    · split
      · exact sameContents_refl s
      · split
        · exact sameContents_refl s
        · rename_i h1 h2 h3; simp [h1, h2, h3] at h
  | putImmutable target v =>
    simp only [handlePut] at h ⊢
    split
    · exact sameContents_refl s
    · split
      · exact sameContents_refl s
      · split
        · exact sameContents_refl s
        · rename_i h1 h2 h3; simp [h1, h2, h3] at h
  | putMutable target v k seq sig salt cas =>
    simp only [handlePut] at h ⊢
    split
    · exact sameContents_refl s
    · split
      · exact sameContents_refl s
      · split
        · exact sameContents_refl s
        · split
          · exact sameContents_refl s
          · rename_i h1 h2 h3 h4
            simp only [h1, h2, h3, h4, ite_false, Bool.false_eq_true] at h
            unfold putMutableStore at h ⊢
            split
            · exact sameContents_promote s target
            · split
              · exact sameContents_promote s target
              · split
                · exact sameContents_promote s target
                · rename_i g1 g2 g3; simp [g1, g2, g3] at h

theorem filtered_silent (s : Server) (verify : Verify) (allow : Allow) (rt srt : RoutingTable)
    (src : Addr) (now wall : Nat) (req : Request) (h : allow req src = false) :
    s.handleRequest verify allow rt srt src now wall req = (s, none) := by
  unfold handleRequest; simp [h]

/-! ### what is stored was authorised -/

/-- every stored mutable item is authentic for its target and within the size limits -/
def MutInv (verify : Verify) (s : Server) : Prop :=
  ∀ p ∈ s.mutable.items,
    verify p.2.key (encodeSignable p.2.seq p.2.value p.2.salt) p.2.sig = true ∧
    p.1.bytes = targetFromKey p.2.key p.2.salt ∧ p.2.value.length ≤ 1000 ∧
    (∀ sl, p.2.salt = some sl → sl.length ≤ 64)

/-- every stored immutable value hashes to its target and is at most 1000 bytes -/
def ImmInv (s : Server) : Prop :=
  ∀ p ∈ s.immutable.items, hashImmutable p.2 = p.1.bytes ∧ p.2.length ≤ 1000

theorem inv_of_same_stores {verify : Verify} {s s' : Server} (hm : MutInv verify s) (hi : ImmInv s)
    (e1 : s'.mutable = s.mutable) (e2 : s'.immutable = s.immutable) : MutInv verify s' ∧ ImmInv s' :=
  ⟨by unfold MutInv; rw [e1]; exact hm, by unfold ImmInv; rw [e2]; exact hi⟩

theorem inv_promote {verify : Verify} {s : Server} (hm : MutInv verify s) (hi : ImmInv s) (t : Id) :
    MutInv verify { s with mutable := (s.mutable.get t).1 } ∧ ImmInv { s with mutable := (s.mutable.get t).1 } :=
  ⟨fun p hp => hm p (Lru.get_mem _ _ p hp), hi⟩

theorem handlePut_inv (s : Server) (verify : Verify) (rt : RoutingTable) (src : Addr) (wall : Nat)
    (rid : Id) (token : Bytes) (spec : PutSpec) (hm : MutInv verify s) (hi : ImmInv s) :
    MutInv verify (s.handlePut verify rt src wall rid token spec).1 ∧
    ImmInv (s.handlePut verify rt src wall rid token spec).1 := by
  cases spec with
  | announcePeer ih port implied =>
    simp only [handlePut]; split
    · exact ⟨hm, hi⟩
    · exact inv_of_same_stores hm hi (by simp) (by simp)
  | announceSignedPeer ih t k sig =>
    simp only [handlePut]
    split
    · exact ⟨hm, hi⟩
    · split
      · exact ⟨hm, hi⟩
      · split
        · exact ⟨hm, hi⟩
        · exact inv_of_same_stores hm hi (by simp) (by simp)
  | putImmutable target v =>
    simp only [handlePut]
    split
    · exact ⟨hm, hi⟩
    · split
      · exact ⟨hm, hi⟩
      · split
        · exact ⟨hm, hi⟩
        · rename_i h1 h2 h3
          refine ⟨hm, ?_⟩
          intro p hp
          rcases Lru.put_mem _ _ _ p hp with e | e
          · rw [e]
            simp only [const_value_len] at h2
            exact ⟨by simpa using h3, by simp only; omega⟩
          · exact hi p e
  | putMutable target v k seq sig salt cas =>
    simp only [handlePut]
    split
    · exact ⟨hm, hi⟩
    · split
      · exact ⟨hm, hi⟩
      · split
        · exact ⟨hm, hi⟩
        · split
          · exact ⟨hm, hi⟩
          · rename_i h1 h2 h3 h4
            unfold putMutableStore
            split
            · exact inv_promote hm hi target
            · split
              · exact inv_promote hm hi target
              · split
                · exact inv_promote hm hi target
                · rename_i g1 g2 g3
                  refine ⟨?_, hi⟩
                  intro p hp
                  rcases Lru.put_mem _ _ _ p hp with e | e
                  · rw [e]
                    simp only [const_value_len] at h2
                    refine ⟨by simpa using g3, by simpa using h4, by simp only; omega, ?_⟩
                    exact (saltTooBig_iff salt).1 (by simpa using h3)
                  · exact hm p (Lru.get_mem _ _ p e)

/-- every request keeps both invariants (get-type requests and pings only promote recency) -/
theorem handleRequest_inv (s : Server) (verify : Verify) (allow : Allow) (rt srt : RoutingTable)
    (src : Addr) (now wall : Nat) (req : Request) (hm : MutInv verify s) (hi : ImmInv s) :
    MutInv verify (s.handleRequest verify allow rt srt src now wall req).1 ∧
    ImmInv (s.handleRequest verify allow rt srt src now wall req).1 := by
  unfold handleRequest
  split
  · exact ⟨hm, hi⟩
  · generalize hs0 : (if s.tokens.shouldUpdate now = true then
        ({ s with tokens := (s.tokens.rotate s.rng now).1, rng := (s.tokens.rotate s.rng now).2 } : Server)
      else s) = s0
    have h0 : MutInv verify s0 ∧ ImmInv s0 := by
      rw [← hs0]; split
      · exact inv_of_same_stores hm hi rfl rfl
      · exact ⟨hm, hi⟩
    simp only
    have hgm : ∀ (t : Id) (sq : Option Int), MutInv verify (s0.handleGetMutable rt src t sq).1 ∧
        ImmInv (s0.handleGetMutable rt src t sq).1 := by
      intro t sq; unfold handleGetMutable; exact inv_promote h0.1 h0.2 t
    cases req.rtype with
    | ping => exact h0
    | findNode _ => exact h0
    | getPeers ih =>
      simp only; split
      · exact inv_of_same_stores h0.1 h0.2 rfl rfl
      · exact h0
    | getSignedPeers ih =>
      simp only; split
      · exact inv_of_same_stores h0.1 h0.2 rfl rfl
      · exact h0
    | getValue target seq salt =>
      simp only
      cases seq with
      | some sq => exact hgm target (some sq)
      | none =>
        simp only
        split
        · rename_i im v heq
          refine ⟨h0.1, ?_⟩
          intro p hp
          have : im = (s0.immutable.get target).1 := by rw [heq]
          subst this
          exact h0.2 p (Lru.get_mem _ _ p hp)
        · exact hgm target none
    | put token spec =>
      simp only
      exact handlePut_inv s0 verify rt src wall req.requesterId token spec h0.1 h0.2

structure Ev where
  src : Addr
  now : Nat
  wall : Nat
  req : Request

def run (verify : Verify) (allow : Allow) (rt srt : RoutingTable) (s : Server) (h : List Ev) : Server :=
  h.foldl (fun s e => (s.handleRequest verify allow rt srt e.src e.now e.wall e.req).1) s

/-- **after any finite history of requests** (any kinds, sources, tokens, payloads, clocks) every
    stored mutable item and immutable value is one that passed the acceptance conditions -/
theorem stored_was_authorised (verify : Verify) (allow : Allow) (rt srt : RoutingTable)
    (c1 c2 c3 c4 : Nat) (rng : UInt64) (now0 : Nat) (h : List Ev) :
    MutInv verify (run verify allow rt srt (Server.new c1 c2 c3 c4 rng now0) h) ∧
    ImmInv (run verify allow rt srt (Server.new c1 c2 c3 c4 rng now0) h) := by
  suffices hh : ∀ s, MutInv verify s ∧ ImmInv s →
      MutInv verify (run verify allow rt srt s h) ∧ ImmInv (run verify allow rt srt s h) from
    hh _ ⟨by intro p hp; simp [Server.new] at hp, by intro p hp; simp [Server.new] at hp⟩
  induction h with
  | nil => intro s hs; exact hs
  | cons e h ih =>
    intro s hs
    exact ih _ (handleRequest_inv s verify allow rt srt e.src e.now e.wall e.req hs.1 hs.2)

/-! ### what is served is what is stored -/

theorem served_immutable_is_stored (s : Server) (verify : Verify) (allow : Allow) (rt srt : RoutingTable)
    (src : Addr) (now wall : Nat) (rid target : Id) (salt : Option Bytes) (i : Id) (tok : Bytes)
    (ns : Option (List Node)) (v : Bytes)
    (h : (s.handleRequest verify allow rt srt src now wall ⟨rid, .getValue target none salt⟩).2
        = some (.response (.getImmutable i tok ns v))) :
    s.immutable.find? target = some v := by
  unfold handleRequest at h
  split at h
  · cases h
  · generalize hs0 : (if s.tokens.shouldUpdate now = true then
        ({ s with tokens := (s.tokens.rotate s.rng now).1, rng := (s.tokens.rotate s.rng now).2 } : Server)
      else s) = s0 at h
    have him : s0.immutable = s.immutable := by rw [← hs0]; split <;> rfl
    simp only at h
    split at h
    · rename_i im v' heq
      have hv : v' = v := by
        have := h; simp at this; exact this.2.2.2
      have := Lru.get_snd s0.immutable target
      rw [heq] at this
      simp only at this
      rw [← him, ← hv, this]
    · exfalso
      simp only [handleGetMutable, getMutableResponse] at h
      (repeat' split at h) <;> simp at h

/-- a mutable get reply is computed from the stored item alone -/
theorem served_mutable_is_stored (s : Server) (rt : RoutingTable) (src : Addr) (target : Id)
    (seq : Option Int) :
    (s.handleGetMutable rt src target seq).2 =
      getMutableResponse rt (s.tokens.generate src.ip) target seq (s.mutable.find? target) := by
  unfold handleGetMutable; rw [Lru.get_snd]

/-! ### Non-vacuity (tests, labelled as tests) -/

/-- with a valid token and a matching hash the put is accepted (the premises are satisfiable) -/
example :
    let s := Server.new 1 1 1 1 7 0
    let src : Addr := ⟨0x2d000001, 6881⟩
    let v : Bytes := [1, 2, 3]
    let rt : RoutingTable := { id := ⟨List.replicate 20 0⟩ }
    (s.handlePut (fun _ _ _ => false) rt src 0 ⟨[]⟩ (s.tokens.generate src.ip)
        (.putImmutable ⟨hashImmutable v⟩ v)).2 = ok rt := by
  decide +kernel

end Mainline.Props.C03
