/-
  C10, the decoder side of the array types — whatever `Message::from_bytes` accepts carries the array
  types of the Rust code: ids of 20 bytes, keys of 32, signatures of 64, `i64` sequence numbers, `u64`
  timestamps.  The model's messages are built from plain lists; these theorems show that the lengths the
  Rust types promise statically hold of every decoded message, so the hypotheses `DgramWf` / `DgramTyped`
  of the whole-node theorems (C14Node, C01Node) hold of every datagram that came off the wire.
-/
import MainlineModel.Props.C01Node
namespace Mainline.Props.C10
open Mainline Mainline.Krpc Mainline.Bencode Mainline.WireNames

theorem reqBytesN_length (d : List (BVal × BVal)) (name : Bytes) (n : Nat) (b : Bytes)
    (h : reqBytesN d name n = some b) : b.length = n := by
  unfold reqBytesN at h
  cases hr : reqBytes d name with
  | none => rw [hr] at h; cases h
  | some x =>
    rw [hr] at h
    simp only [Option.bind_some] at h
    split at h
    · rename_i hl
      injection h with h; subst h
      simpa using hl
    · cases h

theorem optBytesN_length (d : List (BVal × BVal)) (name : Bytes) (n : Nat) (b : Bytes)
    (h : optBytesN d name n = some (some b)) : b.length = n := by
  unfold optBytesN at h
  cases hr : optBytes d name with
  | none => rw [hr] at h; cases h
  | some o =>
    rw [hr] at h
    simp only [Option.bind_some] at h
    cases o with
    | none => cases h
    | some x =>
      simp only at h
      split at h
      · rename_i hl
        injection h with h; injection h with h; subst h
        simpa using hl
      · cases h

theorem asIntIn_range (lo hi : Int) (v : BVal) (i : Int) (h : asIntIn lo hi v = some i) : lo ≤ i ∧ i ≤ hi := by
  unfold asIntIn at h
  split at h
  · split at h
    · rename_i hr; injection h with h; subst h; exact hr
    · cases h
  · cases h

theorem reqInt_range (d : List (BVal × BVal)) (name : Bytes) (lo hi i : Int) (h : reqInt d name lo hi = some i) :
    lo ≤ i ∧ i ≤ hi := by
  unfold reqInt at h
  split at h
  · exact asIntIn_range lo hi _ i h
  · cases h

theorem optInt_range (d : List (BVal × BVal)) (name : Bytes) (lo hi i : Int) (h : optInt d name lo hi = some (some i)) :
    lo ≤ i ∧ i ≤ hi := by
  unfold optInt at h
  split at h
  · cases h
  · rename_i v _
    cases ha : asIntIn lo hi v with
    | none => rw [ha] at h; cases h
    | some j =>
      rw [ha] at h
      simp only [Option.map_some] at h
      injection h with h; injection h with h; subst h
      exact asIntIn_range lo hi v j ha
  · cases h

/-- the request as `from_serde_message` receives it carries the array types -/
def RawReqTyped : RawRequest → Prop
  | .ping id => id.length = 20
  | .findNode id t => id.length = 20 ∧ t.length = 20
  | .getPeers id t => id.length = 20 ∧ t.length = 20
  | .getSignedPeers id t => id.length = 20 ∧ t.length = 20
  | .getValue id t _ => id.length = 20 ∧ t.length = 20
  | .announcePeer id ih _ _ _ => id.length = 20 ∧ ih.length = 20
  | .announceSignedPeer id ih _ k sig _ => id.length = 20 ∧ ih.length = 20 ∧ k.length = 32 ∧ sig.length = 64
  | .putValue id t _ _ k sig seq _ _ =>
    id.length = 20 ∧ t.length = 20 ∧ (∀ x, k = some x → x.length = 32) ∧ (∀ x, sig = some x → x.length = 64) ∧
    (∀ x, seq = some x → inI64 x)

theorem rawRequest_typed (q : Bytes) (a : List (BVal × BVal)) (raw : RawRequest) (h : rawRequest q a = some raw) :
    RawReqTyped raw := by
  unfold rawRequest at h
  split at h
  · cases h
  · split at h
    · simp only [Option.map_eq_some_iff] at h
      obtain ⟨id, h1, rfl⟩ := h
      exact reqBytesN_length _ _ _ _ h1
    · split at h
      · simp only [bind, Option.bind_eq_some_iff, pure, Option.some.injEq] at h
        obtain ⟨id, h1, t, h2, rfl⟩ := h
        exact ⟨reqBytesN_length _ _ _ _ h1, reqBytesN_length _ _ _ _ h2⟩
      · split at h
        · simp only [bind, Option.bind_eq_some_iff, pure, Option.some.injEq] at h
          obtain ⟨id, h1, t, h2, rfl⟩ := h
          exact ⟨reqBytesN_length _ _ _ _ h1, reqBytesN_length _ _ _ _ h2⟩
        · split at h
          · simp only [bind, Option.bind_eq_some_iff, pure, Option.some.injEq] at h
            obtain ⟨id, h1, t, h2, rfl⟩ := h
            exact ⟨reqBytesN_length _ _ _ _ h1, reqBytesN_length _ _ _ _ h2⟩
          · split at h
            · simp only [bind, Option.bind_eq_some_iff, pure, Option.some.injEq] at h
              obtain ⟨id, h1, t, h2, seq, _, rfl⟩ := h
              exact ⟨reqBytesN_length _ _ _ _ h1, reqBytesN_length _ _ _ _ h2⟩
            · split at h
              · simp only [bind, Option.bind_eq_some_iff, pure, Option.some.injEq] at h
                obtain ⟨id, h1, ih, h2, port, _, token, _, implied, _, rfl⟩ := h
                exact ⟨reqBytesN_length _ _ _ _ h1, reqBytesN_length _ _ _ _ h2⟩
              · split at h
                · simp only [bind, Option.bind_eq_some_iff, pure, Option.some.injEq] at h
                  obtain ⟨id, h1, ih, h2, token, _, k, h3, sig, h4, t, _, rfl⟩ := h
                  exact ⟨reqBytesN_length _ _ _ _ h1, reqBytesN_length _ _ _ _ h2, reqBytesN_length _ _ _ _ h3,
                    reqBytesN_length _ _ _ _ h4⟩
                · split at h
                  · simp only [bind, Option.bind_eq_some_iff, pure, Option.some.injEq] at h
                    obtain ⟨id, h1, t, h2, token, _, v, _, k, h3, sig, h4, seq, h5, cas, _, salt, _, rfl⟩ := h
                    refine ⟨reqBytesN_length _ _ _ _ h1, reqBytesN_length _ _ _ _ h2, ?_, ?_, ?_⟩
                    · intro x hx; subst hx; exact optBytesN_length _ _ _ _ h3
                    · intro x hx; subst hx; exact optBytesN_length _ _ _ _ h4
                    · intro x hx; subst hx; exact optInt_range _ _ _ _ _ h5
                  · cases h


/-! ### requests -/

theorem i64AsU64_lt (i : Int) : i64AsU64 i < 18446744073709551616 := by
  unfold i64AsU64
  have h1 : 0 ≤ i % 18446744073709551616 := Int.emod_nonneg i (by decide)
  have h2 : i % 18446744073709551616 < 18446744073709551616 := Int.emod_lt_of_pos i (by decide)
  omega

/-- a decoded request carries the array types -/
def ReqWf (r : Request) : Prop :=
  r.requesterId.bytes.length = 20 ∧ (∀ t, r.rtype = .findNode t → t.bytes.length = 20) ∧ C01.ReqTyped r

theorem requestOfRaw_typed (raw : RawRequest) (req : Request) (ht : RawReqTyped raw) (h : requestOfRaw raw = some req) :
    ReqWf req := by
  cases raw with
  | ping id =>
    simp only [requestOfRaw, Option.some.injEq] at h; subst h
    refine ⟨ht, ?_, trivial⟩
    intro t h; simp at h
  | findNode id t =>
    simp only [requestOfRaw, Option.some.injEq] at h; subst h
    refine ⟨ht.1, ?_, trivial⟩
    intro t' h; simp only [RequestType.findNode.injEq] at h; subst h; exact ht.2
  | getPeers id t =>
    simp only [requestOfRaw, Option.some.injEq] at h; subst h
    refine ⟨ht.1, ?_, trivial⟩
    intro t h; simp at h
  | getSignedPeers id t =>
    simp only [requestOfRaw, Option.some.injEq] at h; subst h
    refine ⟨ht.1, ?_, trivial⟩
    intro t h; simp at h
  | getValue id t seq =>
    simp only [requestOfRaw, Option.some.injEq] at h; subst h
    refine ⟨ht.1, ?_, trivial⟩
    intro t h; simp at h
  | announcePeer id ih port token implied =>
    simp only [requestOfRaw, Option.some.injEq] at h; subst h
    refine ⟨ht.1, ?_, trivial⟩
    intro t h; simp at h
  | announceSignedPeer id ih token k sig t =>
    simp only [requestOfRaw, Option.some.injEq] at h; subst h
    refine ⟨ht.1, ?_, ht.2.2.1, ht.2.2.2, i64AsU64_lt t⟩
    intro t h; simp at h
  | putValue id target token v k sig seq cas salt =>
    obtain ⟨h1, _, h3, h4, h5⟩ := ht
    simp only [requestOfRaw] at h
    split at h
    · rename_i k'
      split at h
      · rename_i seq' sig'
        injection h with h; subst h
        refine ⟨h1, ?_, h3 k' rfl, h4 sig' rfl, h5 seq' rfl⟩
        intro t h; simp at h
      · cases h
    · injection h with h; subst h
      refine ⟨h1, ?_, trivial⟩
      intro t h; simp at h

/-! ### responses -/

def RawRespTyped : RawResponse → Prop
  | .getMutable id _ _ _ k sig seq => id.length = 20 ∧ k.length = 32 ∧ sig.length = 64 ∧ inI64 seq
  | .noMoreRecentValue id _ _ seq => id.length = 20 ∧ inI64 seq
  | .getImmutable id _ _ _ => id.length = 20
  | .getPeers id _ _ _ => id.length = 20
  | .getSignedPeers id _ _ _ => id.length = 20
  | .noValues id _ _ => id.length = 20
  | .findNode id _ => id.length = 20
  | .ping id => id.length = 20

theorem tryVariant_typed (name : String) (r : List (BVal × BVal)) (raw : RawResponse) (h : tryVariant name r = some raw) :
    RawRespTyped raw := by
  unfold tryVariant at h
  split at h
  · simp only [bind, Option.bind_eq_some_iff, pure, Option.some.injEq] at h
    obtain ⟨id, h1, tok, _, ns, _, v, _, k, h2, sig, h3, seq, h4, rfl⟩ := h
    exact ⟨reqBytesN_length _ _ _ _ h1, reqBytesN_length _ _ _ _ h2, reqBytesN_length _ _ _ _ h3, reqInt_range _ _ _ _ _ h4⟩
  · split at h
    · simp only [bind, Option.bind_eq_some_iff, pure, Option.some.injEq] at h
      obtain ⟨id, h1, tok, _, ns, _, seq, h4, rfl⟩ := h
      exact ⟨reqBytesN_length _ _ _ _ h1, reqInt_range _ _ _ _ _ h4⟩
    · split at h
      · simp only [bind, Option.bind_eq_some_iff, pure, Option.some.injEq] at h
        obtain ⟨id, h1, tok, _, ns, _, v, _, rfl⟩ := h
        exact reqBytesN_length _ _ _ _ h1
      · split at h
        · simp only [bind, Option.bind_eq_some_iff, pure, Option.some.injEq] at h
          obtain ⟨id, h1, tok, _, ns, _, v, _, rfl⟩ := h
          exact reqBytesN_length _ _ _ _ h1
        · split at h
          · simp only [bind, Option.bind_eq_some_iff, pure, Option.some.injEq] at h
            obtain ⟨id, h1, tok, _, ns, _, v, _, rfl⟩ := h
            exact reqBytesN_length _ _ _ _ h1
          · split at h
            · simp only [bind, Option.bind_eq_some_iff, pure, Option.some.injEq] at h
              obtain ⟨id, h1, tok, _, ns, _, rfl⟩ := h
              exact reqBytesN_length _ _ _ _ h1
            · split at h
              · simp only [bind, Option.bind_eq_some_iff, pure, Option.some.injEq] at h
                obtain ⟨id, h1, ns, _, rfl⟩ := h
                exact reqBytesN_length _ _ _ _ h1
              · split at h
                · simp only [Option.map_eq_some_iff] at h
                  obtain ⟨id, h1, rfl⟩ := h
                  exact reqBytesN_length _ _ _ _ h1
                · cases h

theorem rawResponse_typed (r : List (BVal × BVal)) (raw : RawResponse) (h : rawResponse r = some raw) : RawRespTyped raw := by
  unfold rawResponse at h
  split at h
  · cases h
  · obtain ⟨name, _, hn⟩ := List.exists_of_findSome?_eq_some h
    exact tryVariant_typed name r raw hn

theorem slice_length (bs : Bytes) (a b : Nat) (x : Bytes) (h : slice bs a b = .ok x) : x.length = b - a := by
  unfold slice at h
  split at h
  · rename_i hr
    injection h with h; subst h
    simp only [List.length_take, List.length_drop]
    omega
  · cases h

theorem bytesToNodesLoop_ids (bs : Bytes) : ∀ (n i : Nat) (l : List Node),
    bytesToNodesLoop bs n i = .ok (some l) → ∀ x ∈ l, x.id.bytes.length = 20 := by
  intro n
  induction n with
  | zero =>
    intro i l h x hx
    simp only [bytesToNodesLoop, Outcome.ok.injEq, Option.some.injEq] at h
    subst h; cases hx
  | succ n ih =>
    intro i l h x hx
    unfold bytesToNodesLoop at h
    cases h1 : slice bs i (i + 20) with
    | panic s => rw [h1] at h; simp [Outcome.bind] at h
    | ok idb =>
      rw [h1] at h
      simp only [Outcome.bind] at h
      cases h2 : slice bs (i + 20) (i + 26) with
      | panic s => rw [h2] at h; simp at h
      | ok ab =>
        rw [h2] at h
        simp only at h
        cases h3 : bytesToSockaddr ab with
        | panic s => rw [h3] at h; simp at h
        | ok oa =>
          rw [h3] at h
          simp only at h
          cases oa with
          | none => simp at h
          | some a =>
            simp only at h
            cases h4 : bytesToNodesLoop bs n (i + 26) with
            | panic s => rw [h4] at h; simp at h
            | ok rest =>
              rw [h4] at h
              simp only [Outcome.ok.injEq] at h
              cases rest with
              | none => simp at h
              | some l' =>
                simp only [Option.map_some, Option.some.injEq] at h
                subst h
                rcases List.mem_cons.1 hx with e | e
                · rw [e]
                  have := slice_length bs i (i + 20) idb h1
                  simp only; omega
                · exact ih (i + 26) l' h4 x e

theorem bytesToNodes_ids (bs : Bytes) (l : List Node) (h : bytesToNodes bs = .ok (some l)) :
    ∀ x ∈ l, x.id.bytes.length = 20 := by
  unfold bytesToNodes at h
  split at h
  · cases h
  · exact bytesToNodesLoop_ids bs _ 0 l h

theorem optNodesOf_ids (o : Option Bytes) (ns : Option (List Node)) (h : optNodesOf o = .ok (some ns)) :
    ∀ l, ns = some l → ∀ x ∈ l, x.id.bytes.length = 20 := by
  cases o with
  | none =>
    simp only [optNodesOf, Outcome.ok.injEq, Option.some.injEq] at h
    subst h; intro l hl; cases hl
  | some bs =>
    simp only [optNodesOf] at h
    cases hb : bytesToNodes bs with
    | panic s => rw [hb] at h; simp [Outcome.bind] at h
    | ok o' =>
      rw [hb] at h
      simp only [Outcome.bind, Outcome.ok.injEq] at h
      cases o' with
      | none => simp at h
      | some l' =>
        simp only [Option.map_some, Option.some.injEq] at h
        subst h
        intro l hl; injection hl with hl; subst hl
        exact bytesToNodes_ids bs l' hb


theorem beToNat_fold_lt (bs : Bytes) : ∀ acc : Nat,
    bs.foldl (fun acc b => acc * 256 + b.toNat) acc < (acc + 1) * 256 ^ bs.length := by
  induction bs with
  | nil => intro acc; simp
  | cons b r ih =>
    intro acc
    simp only [List.foldl_cons, List.length_cons]
    have h1 := ih (acc * 256 + b.toNat)
    have hb : b.toNat < 256 := by have := b.toBitVec.isLt; simpa using this
    have h2 : (acc * 256 + b.toNat + 1) * 256 ^ r.length ≤ (acc + 1) * 256 ^ (r.length + 1) := by
      rw [Nat.pow_succ]
      have : acc * 256 + b.toNat + 1 ≤ (acc + 1) * 256 := by omega
      calc (acc * 256 + b.toNat + 1) * 256 ^ r.length ≤ ((acc + 1) * 256) * 256 ^ r.length := Nat.mul_le_mul_right _ this
        _ = (acc + 1) * (256 ^ r.length * 256) := by rw [Nat.mul_assoc, Nat.mul_comm 256]
    omega

theorem beToNat_lt (bs : Bytes) : beToNat bs < 256 ^ bs.length := by
  have := beToNat_fold_lt bs 0
  simpa [beToNat] using this

theorem bytesToSignedPeer_typed (bs : Bytes) (p : SignedPeer) (h : bytesToSignedPeer bs = .ok (some p)) : okPeer p := by
  unfold bytesToSignedPeer at h
  split at h
  · cases h
  · cases h1 : slice bs 0 32 with
    | panic s => rw [h1] at h; simp [Outcome.bind] at h
    | ok k =>
      rw [h1] at h
      simp only [Outcome.bind] at h
      cases h2 : slice bs 32 40 with
      | panic s => rw [h2] at h; simp at h
      | ok t =>
        rw [h2] at h
        simp only at h
        cases h3 : slice bs 40 104 with
        | panic s => rw [h3] at h; simp at h
        | ok sig =>
          rw [h3] at h
          simp only [Outcome.ok.injEq, Option.some.injEq] at h
          subst h
          have l1 := slice_length _ _ _ _ h1
          have l2 := slice_length _ _ _ _ h2
          have l3 := slice_length _ _ _ _ h3
          refine ⟨by simpa using l1, by simpa using l3, ?_⟩
          have := beToNat_lt t
          have e : t.length = 8 := by simpa using l2
          rw [e] at this
          simpa using this

theorem mapAll_typed {α β : Type} (f : α → Outcome (Option β)) (P : β → Prop)
    (hf : ∀ a b, f a = .ok (some b) → P b) : ∀ (l : List α) (r : List β), mapAll f l = .ok (some r) → ∀ x ∈ r, P x := by
  intro l
  induction l with
  | nil =>
    intro r h x hx
    simp only [mapAll, Outcome.ok.injEq, Option.some.injEq] at h
    subst h; cases hx
  | cons a as ih =>
    intro r h x hx
    unfold mapAll at h
    cases h1 : f a with
    | panic s => rw [h1] at h; simp [Outcome.bind] at h
    | ok o =>
      rw [h1] at h
      simp only [Outcome.bind] at h
      cases o with
      | none => simp at h
      | some y =>
        simp only at h
        cases h2 : mapAll f as with
        | panic s => rw [h2] at h; simp at h
        | ok o2 =>
          rw [h2] at h
          simp only [Outcome.ok.injEq] at h
          cases o2 with
          | none => simp at h
          | some r' =>
            simp only [Option.map_some, Option.some.injEq] at h
            subst h
            rcases List.mem_cons.1 hx with e | e
            · rw [e]; exact hf a y h1
            · exact ih r' h2 x e

/-- what `from_serde_message` makes of a typed raw response carries the array types (`WFresp` is the
    well-formedness predicate of the round-trip theorem `decode_encode`) -/
theorem responseOfRaw_typed (raw : RawResponse) (resp : Response) (ht : RawRespTyped raw)
    (h : responseOfRaw raw = .ok (some resp)) : WFresp resp := by
  have hnodes : ∀ (o : Option Bytes) (f : Option (List Node) → Response) (resp : Response),
      ((optNodesOf o).bind (fun on => Outcome.ok (on.map f))) = .ok (some resp) →
      ∃ ns, resp = f ns ∧ WFnodes ns := by
    intro o f resp h
    cases h1 : optNodesOf o with
    | panic s => rw [h1] at h; simp [Outcome.bind] at h
    | ok on =>
      rw [h1] at h
      simp only [Outcome.bind, Outcome.ok.injEq] at h
      cases on with
      | none => simp at h
      | some ns =>
        simp only [Option.map_some, Option.some.injEq] at h
        exact ⟨ns, h.symm, optNodesOf_ids o ns h1⟩
  cases raw with
  | ping id =>
    simp only [responseOfRaw, Outcome.ok.injEq, Option.some.injEq] at h
    subst h; exact ht
  | findNode id ns =>
    simp only [responseOfRaw] at h
    cases h1 : bytesToNodes ns with
    | panic s => rw [h1] at h; simp [Outcome.bind] at h
    | ok o =>
      rw [h1] at h
      simp only [Outcome.bind, Outcome.ok.injEq] at h
      cases o with
      | none => simp at h
      | some l =>
        simp only [Option.map_some, Option.some.injEq] at h
        subst h
        exact ⟨ht, bytesToNodes_ids ns l h1⟩
  | noValues id tok ns =>
    obtain ⟨n, rfl, hn⟩ := hnodes ns (fun n => .noValues ⟨id⟩ tok n) resp h
    exact ⟨ht, hn⟩
  | getImmutable id tok ns v =>
    obtain ⟨n, rfl, hn⟩ := hnodes ns (fun n => .getImmutable ⟨id⟩ tok n v) resp h
    exact ⟨ht, hn⟩
  | getMutable id tok ns v k sig seq =>
    obtain ⟨n, rfl, hn⟩ := hnodes ns (fun n => .getMutable ⟨id⟩ tok n v k seq sig) resp h
    exact ⟨ht.1, hn, ht.2.1, ht.2.2.1, ht.2.2.2⟩
  | noMoreRecentValue id tok ns seq =>
    obtain ⟨n, rfl, hn⟩ := hnodes ns (fun n => .noMoreRecentValue ⟨id⟩ tok n seq) resp h
    exact ⟨ht.1, hn, ht.2⟩
  | getPeers id tok ns vals =>
    simp only [responseOfRaw] at h
    cases h1 : optNodesOf ns with
    | panic s => rw [h1] at h; simp [Outcome.bind] at h
    | ok on =>
      rw [h1] at h
      simp only [Outcome.bind] at h
      cases on with
      | none => simp at h
      | some n =>
        simp only at h
        cases h2 : mapAll bytesToSockaddr vals with
        | panic s => rw [h2] at h; simp at h
        | ok ov =>
          rw [h2] at h
          simp only [Outcome.ok.injEq] at h
          cases ov with
          | none => simp at h
          | some v =>
            simp only [Option.map_some, Option.some.injEq] at h
            subst h
            exact ⟨ht, optNodesOf_ids ns n h1⟩
  | getSignedPeers id tok ns ps =>
    simp only [responseOfRaw] at h
    cases h1 : optNodesOf ns with
    | panic s => rw [h1] at h; simp [Outcome.bind] at h
    | ok on =>
      rw [h1] at h
      simp only [Outcome.bind] at h
      cases on with
      | none => simp at h
      | some n =>
        simp only at h
        cases h2 : mapAll bytesToSignedPeer ps with
        | panic s => rw [h2] at h; simp at h
        | ok op =>
          rw [h2] at h
          simp only [Outcome.ok.injEq] at h
          cases op with
          | none => simp at h
          | some p =>
            simp only [Option.map_some, Option.some.injEq] at h
            subst h
            exact ⟨ht, optNodesOf_ids ns n h1, mapAll_typed bytesToSignedPeer okPeer bytesToSignedPeer_typed ps p h2⟩


/-! ### whole messages -/

/-- a decoded message carries the array types -/
def MtTyped : MessageType → Prop
  | .request r => ReqWf r
  | .response r => WFresp r
  | .error _ => True

theorem variantOf_typed (d : List (BVal × BVal)) (mt : MessageType) (h : variantOf d = .ok (some mt)) : MtTyped mt := by
  unfold variantOf at h
  split at h
  · split at h
    · split at h
      · rename_i q a _ _
        simp only [Outcome.ok.injEq, Option.map_eq_some_iff, Option.bind_eq_some_iff] at h
        obtain ⟨req, ⟨raw, h1, h2⟩, rfl⟩ := h
        exact requestOfRaw_typed raw req (rawRequest_typed q a raw h1) h2
      · cases h
    · split at h
      · split at h
        · split at h
          · rename_i r _ _ raw hraw
            cases h1 : responseOfRaw raw with
            | panic s => rw [h1] at h; simp [Outcome.bind] at h
            | ok o =>
              rw [h1] at h
              simp only [Outcome.bind, Outcome.ok.injEq] at h
              cases o with
              | none => simp at h
              | some resp =>
                simp only [Option.map_some, Option.some.injEq] at h
                subst h
                exact responseOfRaw_typed raw resp (rawResponse_typed r raw hraw) h1
          · cases h
        · cases h
      · split at h
        · split at h
          · split at h
            · simp only [Outcome.ok.injEq, Option.some.injEq] at h
              subst h; trivial
            · cases h
          · cases h
        · cases h
  · cases h

theorem ofBVal_typed (v : BVal) (m : Message) (h : ofBVal v = .ok (some m)) : MtTyped m.mtype := by
  unfold ofBVal at h
  split at h
  · rename_i d
    split at h
    · cases h
    · split at h
      · split at h
        · cases h
        · cases hv : variantOf d with
          | panic s => rw [hv] at h; simp [Outcome.bind] at h
          | ok ov =>
            rw [hv] at h
            simp only [Outcome.bind] at h
            cases ov with
            | none => simp at h
            | some mt =>
              have hmt := variantOf_typed d mt hv
              simp only at h
              split at h
              · simp only [Outcome.ok.injEq, Option.some.injEq] at h
                subst h; exact hmt
              · rename_i ipb _
                cases ha : bytesToSockaddr ipb with
                | panic s => rw [ha] at h; simp at h
                | ok oa =>
                  rw [ha] at h
                  simp only at h
                  cases oa with
                  | none => simp at h
                  | some a =>
                    simp only [Outcome.ok.injEq, Option.some.injEq] at h
                    subst h; exact hmt
      · cases h
  · cases h

/-- **Everything `Message::from_bytes` accepts carries the array types.** -/
theorem fromBytes_typed (bs : Bytes) (m : Message) (h : fromBytes bs = .ok (some m)) : MtTyped m.mtype := by
  unfold fromBytes at h
  split at h
  · cases h
  · split at h
    · split at h
      · exact ofBVal_typed _ m h
      · cases h
    · cases h

/-- … so the hypotheses of the whole-node theorems hold of every datagram that came off the wire -/
theorem received_wf (bs : Bytes) (m : Message) (src : Addr) (h : recvDatagram bs = .ok (some m)) :
    C14Node.DgramWf (some (m, src)) ∧ C01.DgramTyped (some (m, src)) := by
  have ht := fromBytes_typed _ m h
  refine ⟨?_, ?_⟩
  · intro m' src' he
    simp only [Option.some.injEq, Prod.mk.injEq] at he
    obtain ⟨rfl, rfl⟩ := he
    refine ⟨?_, ?_⟩
    · intro i hi
      unfold Actor.authorId at hi
      cases hm : m.mtype with
      | request r =>
        rw [hm] at hi ht
        simp only [Option.some.injEq] at hi
        subst hi; exact ht.1
      | response r =>
        rw [hm] at hi ht
        simp only [Option.some.injEq] at hi
        subst hi
        cases r <;> first | exact ht | exact ht.1
      | error e => rw [hm] at hi; cases hi
    · intro req t hreq hfn
      rw [hreq] at ht
      exact ht.2.1 t hfn
  · intro m' src' he req hreq
    simp only [Option.some.injEq, Prod.mk.injEq] at he
    obtain ⟨rfl, rfl⟩ := he
    rw [hreq] at ht
    exact ht.2.2


/-! ### runs given as bytes: no hypothesis on the datagrams is left -/

/-- the inputs of one iteration as the socket sees them: the clock, the bytes `recv_from` read (if any)
    with their source address, the API message picked up -/
structure WireIn where
  env : Env
  bytes : Option (Bytes × Addr)
  msg : Option ApiMsg

/-- `KrpcSocket::recv_from`: bytes that do not decode are dropped there -/
def WireIn.dgram (w : WireIn) : Option (Message × Addr) :=
  match w.bytes with
  | none => none
  | some (bs, src) =>
    match recvDatagram bs with
    | .ok (some m) => some (m, src)
    | _ => none

abbrev WireIn.toStep (w : WireIn) : Actor.StepIn := ⟨w.env, w.dgram, w.msg⟩

theorem none_wf : C14Node.DgramWf none ∧ C01.DgramTyped none := by
  constructor
  · intro m src h; cases h
  · intro m src h; cases h

theorem wireIn_wf (w : WireIn) : C14Node.DgramWf w.dgram ∧ C01.DgramTyped w.dgram := by
  unfold WireIn.dgram
  split
  · exact none_wf
  · rename_i bs src _
    split
    · rename_i m hm
      exact received_wf bs m src hm
    · exact none_wf

/-- the clock does not run backwards -/
def ClockOk : Nat → List WireIn → Prop
  | _, [] => True
  | now0, w :: ws => now0 ≤ w.env.now ∧ ClockOk w.env.now ws

theorem clockOk_runWf : ∀ (ws : List WireIn) (now0 : Nat), ClockOk now0 ws → C14Node.RunWf now0 (ws.map WireIn.toStep) := by
  intro ws
  induction ws with
  | nil => intro _ _; trivial
  | cons w r ih =>
    intro now0 h
    exact ⟨h.1, (wireIn_wf w).1, ih w.env.now h.2⟩

/-- **Every state a node reaches from byte strings.**  Start any node and feed it ANY byte strings from
    any addresses, any API calls, under a clock that does not run backwards: both routing tables satisfy
    the structural invariant of C12 and hold only entries heard from within 15 minutes of the last ping
    round (C14), and what the server holds respects the size limits and the array types (C01) — with no
    hypothesis on the datagrams at all. -/
theorem wire_reachable (cfg : NodeConfig) (seed : UInt64) (t0 : Nat) (ws : List WireIn) (hc : ClockOk t0 ws) :
    C01.SrvOk (Actor.runSteps (Actor.create cfg seed t0) (ws.map WireIn.toStep)).core.server ∧
    C14Node.TOk (Actor.runSteps (Actor.create cfg seed t0) (ws.map WireIn.toStep)).core
      (C06Time.endNow t0 (ws.map WireIn.toStep)) :=
  C01.reachable_srvOk cfg seed t0 (ws.map WireIn.toStep) (clockOk_runWf ws t0 hc) (by
    intro i hi
    rw [List.mem_map] at hi
    obtain ⟨w, _, rfl⟩ := hi
    exact (wireIn_wf w).2)

/-- … and in every such state, whatever bytes arrive next, every response the node puts on the wire fits
    the receive buffer of its addressee and decodes there to the message that was sent -/
theorem wire_replies_intact (cfg : NodeConfig) (seed : UInt64) (t0 : Nat) (ws : List WireIn) (w : WireIn)
    (hc : ClockOk t0 (ws ++ [w])) :
    let a := Actor.runSteps (Actor.create cfg seed t0) (ws.map WireIn.toStep)
    ∃ l, (a.step w.env w.dgram w.msg).out = a.out ++ l ∧ ∀ x ∈ l, ∀ r, x.2.mtype = .response r →
      (toBytes x.2).length ≤ Constants.MTU ∧ recvDatagram (toBytes x.2) = .ok (some (norm x.2)) := by
  intro a
  have hsplit : ∀ (l : List WireIn) (n0 : Nat), ClockOk n0 (l ++ [w]) →
      ClockOk n0 l ∧ C06Time.endNow n0 (l.map WireIn.toStep) ≤ w.env.now := by
    intro l
    induction l with
    | nil => intro n0 h; exact ⟨trivial, h.1⟩
    | cons x r ih =>
      intro n0 h
      obtain ⟨h1, h2⟩ := ih x.env.now h.2
      exact ⟨⟨h.1, h1⟩, by simpa [C06Time.endNow] using h2⟩
  obtain ⟨hc1, hnow⟩ := hsplit ws t0 hc
  obtain ⟨hs, hk⟩ := wire_reachable cfg seed t0 ws hc1
  exact C01.step_replies_intact a _ hk hs w.env hnow w.dgram (wireIn_wf w).1 (wireIn_wf w).2 w.msg

end Mainline.Props.C10
