/-
  C04 for the whole node — "the sequence number stored under a target never decreases".

  `StoreLift.step_store_relation`'s instance: one iteration of the node's loop relates the mutable store
  before and after exactly as one `Server::handle_request` does (or leaves it alone): under every target
  the stored seq does not decrease (`step_seq_never_decreases`), whatever datagram arrives — a put with a
  lower seq, a cas mismatch, garbage, a response — and whatever the node's own callers do.  Over a run: as
  long as the target stays stored (no LRU eviction in between) the seq at the end is at least the seq at
  the start (`run_seq_monotone`).
-/
import MainlineModel.Props.StoreLift
import MainlineModel.Props.C04
namespace Mainline.Props.C04Node
open Mainline Mainline.Actor Mainline.Props.StoreLift

/-- a relation between the server before and after that looks only at the mutable stores -/
def MutOnly (R : Server → Server → Prop) : Prop :=
  ∀ s1 s1' s2 s2' : Server, s1'.mutable = s1.mutable → s2'.mutable = s2.mutable → R s1 s2 → R s1' s2'

/-- **One iteration of the loop relates the mutable store before and after like one request, or not at
    all** -/
theorem step_store_relation {R : Server → Server → Prop} (hR : MutOnly R) (hrefl : ∀ s, R s s) (a : Actor) (env : Env)
    (hreq : ∀ (s : Server) allow rt srt src req, R s (s.handleRequest env.verify allow rt srt src env.now env.wall req).1)
    (dgram : Option (Message × Addr)) (msg : Option ApiMsg) :
    R a.core.server (a.step env dgram msg).core.server := by
  have ht := C08Held.rest_tail (a.preDone env dgram) env ((a.preDone env dgram).checkDonePuts env.now) msg
  have hheld : C18.held (a.step env dgram msg) = C18.held (a.preDone env dgram) := by
    unfold Actor.step afterRecv
    exact ht.stores
  have hm : ∀ {x y : Actor}, C18.held x = C18.held y → x.core.server.mutable = y.core.server.mutable := by
    intro x y h
    unfold C18.held at h
    simp only [Prod.mk.injEq] at h
    exact h.2.2.2
  rcases C08Held.preDone_out a env dgram with ⟨hh, _⟩ | ⟨m, src, req, _, _, hst, _⟩
  · exact hR _ _ _ _ rfl (hm (hheld.trans hh)) (hrefl a.core.server)
  · -- the datagram is a request: `Core::handle_request`
    have hcore : R a.core.server (handleRequest a.core env src m.readOnly m.version req).1.server := by
      unfold handleRequest
      split
      · exact hrefl _
      · obtain ⟨_, _, _, e4⟩ := C18.verifySelfPing_stores (maybeAddNodeFromRequest a.core src m.version m.readOnly req env.now) src req env.now
        rw [maybeAdd_server] at e4
        generalize (verifySelfPing (maybeAddNodeFromRequest a.core src m.version m.readOnly req env.now) src req env.now).1 = c2 at e4
        unfold serveRequest
        split
        · exact hR _ _ _ _ e4.symm rfl (hreq c2.server c2.allow c2.rt c2.srt src req)
        · exact hR _ _ _ _ rfl e4 (hrefl a.core.server)
    have hfin : (a.step env dgram msg).core.server.mutable
        = (handleRequest a.core env src m.readOnly m.version req).1.server.mutable := by
      have := hheld.trans hst
      unfold C18.held C08Held.heldC at this
      simp only [Prod.mk.injEq] at this
      exact this.2.2.2
    exact hR _ _ _ _ rfl hfin hcore

/-- under every target the stored seq does not decrease -/
def SeqMono (s s' : Server) : Prop :=
  ∀ t p p', s.mutable.find? t = some p → s'.mutable.find? t = some p' → p.seq ≤ p'.seq

theorem seqMono_mutOnly : MutOnly SeqMono := by
  intro s1 s1' s2 s2' e1 e2 h t p p' hp hp'
  rw [e1] at hp; rw [e2] at hp'
  exact h t p p' hp hp'

/-- **C04 for one iteration of the whole node** -/
theorem step_seq_never_decreases (a : Actor) (env : Env) (dgram : Option (Message × Addr)) (msg : Option ApiMsg) :
    SeqMono a.core.server (a.step env dgram msg).core.server :=
  step_store_relation seqMono_mutOnly
    (fun s t p p' hp hp' => by rw [hp] at hp'; cases hp'; exact Int.le_refl _) a env
    (fun s allow rt srt src req t p p' hp hp' => C04.seq_never_decreases s env.verify allow rt srt src env.now env.wall req t p p' hp hp')
    dgram msg

/-- **Every run**: as long as the target stays stored in every state passed through, its seq at the end is
    at least its seq at the start -/
theorem run_seq_monotone (t : Id) : ∀ (ins : List StepIn) (a : Actor) (p p' : StoredItem),
    a.core.server.mutable.find? t = some p →
    (∀ k, k ≤ ins.length → (runSteps a (ins.take k)).core.server.mutable.find? t ≠ none) →
    (runSteps a ins).core.server.mutable.find? t = some p' → p.seq ≤ p'.seq := by
  intro ins
  induction ins with
  | nil =>
    intro a p p' hp _ hp'
    simp only [runSteps, List.foldl_nil] at hp'
    rw [hp] at hp'; cases hp'; exact Int.le_refl _
  | cons x xs ih =>
    intro a p p' hp hall hp'
    have h1 := hall 1 (by simp)
    simp only [List.take_succ_cons, List.take_zero, runSteps, List.foldl_cons, List.foldl_nil] at h1
    cases hq : (a.step x.env x.dgram x.msg).core.server.mutable.find? t with
    | none => exact absurd hq h1
    | some q =>
      have hstep := step_seq_never_decreases a x.env x.dgram x.msg t p q hp hq
      have hrest := ih (a.step x.env x.dgram x.msg) q p' hq
        (by intro k hk
            have := hall (k + 1) (by simp; omega)
            simpa [runSteps, List.take_succ_cons] using this)
        (by simpa [runSteps] using hp')
      exact Int.le_trans hstep hrest

end Mainline.Props.C04Node
