/-
  C09 — Only the addressed peer can answer a request, once.

  Model: `Model/Socket.lean` (`InflightRequests`, `compare_socket_addr`, `is_expected_response`,
  the accept/drop decision of `KrpcSocket::recv_from`), after the two `fix:` commits.
  Everything is stated for every reachable table: any history of requests, received messages,
  clock advances and timeout changes (the adaptive timeout is an arbitrary environment input),
  with the one explicit side condition that fewer than 2^32 - 1 transaction ids are issued while
  a request is kept (`Inflight.addOk`).
-/
import MainlineModel.Lemmas.SocketLemmas
import MainlineModel.Model.Actor
namespace Mainline.Props.C09
open Mainline Mainline.Inflight

/-- the genuine answer to request `r`: same transaction id, from the address `r` went to -/
def Answers (r : InflightReq) (tid : Nat) (src : Addr) : Prop :=
  r.tid = tid ∧ compareAddr r.to src = true

/-! ### attribution -/

/-- `get` is the unexpired request with that id -/
theorem get_iff (s : Inflight) (hi : s.Inv) (tid now : Nat) (htid : tid < two32) (r : InflightReq) :
    s.get tid now = some r ↔ r ∈ s.requests ∧ r.tid = tid ∧ s.live r now = true := by
  have hget : s.get tid now = (match s.find tid with
      | some r => if s.live r now then some r else none
      | none => none) := by
    unfold Inflight.get Inflight.find
    cases s.findByTid tid with
    | inl i => simp only; cases s.requests[i]? <;> rfl
    | inr p => rfl
  rw [hget]
  constructor
  · intro h
    cases hf : s.find tid with
    | none => rw [hf] at h; cases h
    | some r' =>
      rw [hf] at h
      simp only at h
      split at h
      · rename_i hl
        injection h with h; subst h
        obtain ⟨hm, he⟩ := find_some s hi tid htid r' hf
        exact ⟨hm, he, hl⟩
      · cases h
  · rintro ⟨hm, he, hl⟩
    subst he
    rw [find_of_mem s hi r hm]
    simp [hl]

/-- **Attribution.** A response or error is accepted exactly when an outstanding, unexpired request
    carries its transaction id and was sent to the address it comes from. -/
theorem accepted_iff (s : Inflight) (hi : s.Inv) (tid : Nat) (src : Addr) (now : Nat)
    (htid : tid < two32) :
    (s.isExpectedResponse tid src now).2 = true ↔
      ∃ r ∈ s.requests, Answers r tid src ∧ s.live r now = true := by
  unfold isExpectedResponse
  cases hf : s.find tid with
  | none =>
    simp only
    constructor
    · intro h; cases h
    · rintro ⟨r, hr, ⟨he, _⟩, _⟩
      exact absurd he (find_none s hi tid htid hf r hr)
  | some r =>
    obtain ⟨hm, he⟩ := find_some s hi tid htid r hf
    simp only
    cases hc : compareAddr r.to src with
    | false =>
      simp only [Bool.not_false, ite_true]
      constructor
      · intro h; cases h
      · rintro ⟨r', hr', ⟨he', hc'⟩, _⟩
        have : s.find r'.tid = some r' := find_of_mem s hi r' hr'
        rw [he', hf] at this
        injection this with this
        subst this
        rw [hc] at hc'; cases hc'
    | true =>
      simp only [Bool.not_true, Bool.false_eq_true, ite_false]
      rw [Option.isSome_iff_exists]
      constructor
      · rintro ⟨r', hg⟩
        obtain ⟨hm', he', hl'⟩ := (get_iff s hi tid now htid r').1 hg
        have : s.find r'.tid = some r' := find_of_mem s hi r' hm'
        rw [he', hf] at this
        injection this with this
        subst this
        exact ⟨r, hm, ⟨he, hc⟩, hl'⟩
      · rintro ⟨r', hr', ⟨he', _⟩, hl'⟩
        exact ⟨r', (get_iff s hi tid now htid r').2 ⟨hr', he', hl'⟩⟩

/-! ### messages that are not the genuine answer have no effect -/

/-- **No effect.** A message whose transaction id is unknown, or that comes from another address
    than the request with that id was sent to, leaves the table exactly as it was. -/
theorem not_answer_no_effect (s : Inflight) (hi : s.Inv) (tid : Nat) (src : Addr) (now : Nat)
    (htid : tid < two32) (h : ∀ r ∈ s.requests, ¬ Answers r tid src) :
    s.isExpectedResponse tid src now = (s, false) := by
  unfold isExpectedResponse
  cases hf : s.find tid with
  | none => rfl
  | some r =>
    obtain ⟨hm, he⟩ := find_some s hi tid htid r hf
    simp only
    cases hc : compareAddr r.to src with
    | false => rfl
    | true => exact absurd ⟨he, hc⟩ (h r hm)

/-- any number of such messages — spoofs with guessed ids, from wrong IPs or ports — leave the table
    as it was, so whatever would have been accepted before them is accepted after them -/
theorem spoofs_no_effect (s : Inflight) (hi : s.Inv) (now : Nat) (msgs : List (Nat × Addr))
    (h : ∀ m ∈ msgs, m.1 < two32 ∧ ∀ r ∈ s.requests, ¬ Answers r m.1 m.2) :
    msgs.foldl (fun st m => (st.isExpectedResponse m.1 m.2 now).1) s = s := by
  induction msgs with
  | nil => rfl
  | cons m ms ih =>
    have hm := h m List.mem_cons_self
    simp only [List.foldl_cons, not_answer_no_effect s hi m.1 m.2 now hm.1 hm.2]
    exact ih (fun m' hm' => h m' (List.mem_cons_of_mem _ hm'))

/-- **The genuine reply is still accepted afterwards.** -/
theorem genuine_accepted_after_spoofs (s : Inflight) (hi : s.Inv) (now : Nat)
    (msgs : List (Nat × Addr)) (h : ∀ m ∈ msgs, m.1 < two32 ∧ ∀ r ∈ s.requests, ¬ Answers r m.1 m.2)
    (r : InflightReq) (hr : r ∈ s.requests) (src : Addr) (hsrc : compareAddr r.to src = true)
    (hl : s.live r now = true) :
    ((msgs.foldl (fun st m => (st.isExpectedResponse m.1 m.2 now).1) s).isExpectedResponse
      r.tid src now).2 = true := by
  rw [spoofs_no_effect s hi now msgs h]
  exact (accepted_iff s hi r.tid src now (hi.tid_lt r hr)).2 ⟨r, hr, ⟨rfl, hsrc⟩, hl⟩

/-! ### consumed at most once -/

theorem remove_spec (s : Inflight) (hi : s.Inv) (r : InflightReq) (hr : r ∈ s.requests) :
    (∀ x, x ∈ (s.remove r.tid).1.requests ↔ x ∈ s.requests ∧ x ≠ r) := by
  intro x
  unfold remove
  cases hf : s.findByTid r.tid with
  | inr p => exact absurd rfl (findByTid_err s hi r.tid p (hi.tid_lt r hr) hf r hr)
  | inl i =>
    obtain ⟨hlt, he⟩ := findByTid_ok s hi r.tid i (hi.tid_lt r hr) hf
    -- the element found is `r` itself (ids are distinct)
    have hri : s.requests[i] = r := by
      have h1 := find_of_mem s hi r hr
      unfold find at h1
      rw [hf] at h1
      simpa [List.getElem?_eq_getElem hlt] using h1
    simp only
    have hnd := tids_nodup s hi
    rw [List.pairwise_iff_getElem] at hnd
    rw [List.mem_eraseIdx_iff_getElem]
    constructor
    · rintro ⟨j, hj, hne, rfl⟩
      refine ⟨List.getElem_mem _, ?_⟩
      intro e
      rw [← hri] at e
      rcases Nat.lt_or_gt_of_ne hne with h | h
      · exact hnd j i hj hlt h (by rw [e])
      · exact hnd i j hlt hj h (by rw [e])
    · rintro ⟨hx, hne⟩
      obtain ⟨j, hj, rfl⟩ := List.getElem_of_mem hx
      refine ⟨j, hj, ?_, rfl⟩
      intro e; subst e
      exact hne hri

/-- **Consumed, and only it.** Accepting the answer to `r` removes `r` and nothing else. -/
theorem accept_consumes_exactly (s : Inflight) (hi : s.Inv) (r : InflightReq) (hr : r ∈ s.requests)
    (src : Addr) (now : Nat) (hsrc : compareAddr r.to src = true) :
    ∀ x, x ∈ (s.isExpectedResponse r.tid src now).1.requests ↔ x ∈ s.requests ∧ x ≠ r := by
  unfold isExpectedResponse
  rw [find_of_mem s hi r hr]
  simp only [hsrc, Bool.not_true, Bool.false_eq_true, ite_false]
  exact remove_spec s hi r hr

/-- **At most once.** After the answer to `r` was received, no message with that transaction id
    is accepted again — a duplicate of the genuine reply included. -/
theorem not_accepted_twice (s : Inflight) (hi : s.Inv) (r : InflightReq) (hr : r ∈ s.requests)
    (src : Addr) (now : Nat) (hsrc : compareAddr r.to src = true) (src' : Addr) (now' : Nat) :
    ((s.isExpectedResponse r.tid src now).1.isExpectedResponse r.tid src' now').2 = false := by
  have hi' : (s.isExpectedResponse r.tid src now).1.Inv := by
    unfold isExpectedResponse
    rw [find_of_mem s hi r hr]
    simp only [hsrc, Bool.not_true, Bool.false_eq_true, ite_false]
    exact inv_remove s hi r.tid
  cases hacc : ((s.isExpectedResponse r.tid src now).1.isExpectedResponse r.tid src' now').2 with
  | false => rfl
  | true =>
    obtain ⟨x, hx, ⟨he, _⟩, _⟩ := (accepted_iff _ hi' r.tid src' now' (hi.tid_lt r hr)).1 hacc
    obtain ⟨hxs, hne⟩ := (accept_consumes_exactly s hi r hr src now hsrc x).1 hx
    -- x has the id of r, so it is r
    have := find_of_mem s hi x hxs
    rw [he, find_of_mem s hi r hr] at this
    injection this with this
    exact absurd this.symm hne

/-- other requests stay answerable: accepting the answer to `r` does not change whether the answer
    to another request `q` is accepted -/
theorem others_unaffected (s : Inflight) (hi : s.Inv) (r q : InflightReq) (hr : r ∈ s.requests)
    (hq : q ∈ s.requests) (hne : q ≠ r) (src srcq : Addr) (now : Nat)
    (hsrc : compareAddr r.to src = true) (hsq : compareAddr q.to srcq = true)
    (hl : s.live q now = true) :
    ((s.isExpectedResponse r.tid src now).1.isExpectedResponse q.tid srcq now).2 = true := by
  have hi' : (s.isExpectedResponse r.tid src now).1.Inv := by
    unfold isExpectedResponse
    rw [find_of_mem s hi r hr]
    simp only [hsrc, Bool.not_true, Bool.false_eq_true, ite_false]
    exact inv_remove s hi r.tid
  have hto : (s.isExpectedResponse r.tid src now).1.timeout = s.timeout := by
    unfold isExpectedResponse
    rw [find_of_mem s hi r hr]
    simp only [hsrc, Bool.not_true, Bool.false_eq_true, ite_false]
    exact (remove_fields s r.tid).2.1
  refine (accepted_iff _ hi' q.tid srcq now (hi.tid_lt q hq)).2 ⟨q, ?_, ⟨rfl, hsq⟩, ?_⟩
  · exact (accept_consumes_exactly s hi r hr src now hsrc q).2 ⟨hq, hne⟩
  · simpa [live, hto] using hl

/-! ### the datagram-level decision (`recv_from`) -/

/-- **recv_from.** A response or error datagram is handed up iff it does not come from port 0 and is
    the in-time answer to an outstanding request (the expired-prefix `cleanup` that runs first never
    drops an unexpired request). Requests are handed up unless they come from port 0. -/
theorem recv_accepts_iff (s : Inflight) (hi : s.Inv) (now : Nat) (ht : s.Timed now)
    (kind : Incoming) (tid : Nat) (src : Addr) (htid : tid < two32) :
    (s.recv kind tid src now).2 = true ↔
      src.port ≠ 0 ∧ (kind = .request ∨
        ∃ r ∈ s.requests, Answers r tid src ∧ s.live r now = true) := by
  unfold recv Inflight.decide
  by_cases hp : src.port = 0
  · simp [hp]
  · have hp' : (src.port == 0) = false := by simpa using hp
    simp only [hp', Bool.false_eq_true, ite_false, ne_eq, hp, not_false_eq_true, true_and]
    have hi' := inv_cleanup s hi now
    have hcl : (∃ r ∈ (s.cleanup now).requests, Answers r tid src ∧ (s.cleanup now).live r now = true) ↔
        ∃ r ∈ s.requests, Answers r tid src ∧ s.live r now = true := by
      have hto := (cleanup_fields s now).2
      constructor
      · rintro ⟨r, hr, ha, hl⟩
        exact ⟨r, (cleanup_requests_sublist s now).subset hr, ha, by simpa [live, hto] using hl⟩
      · rintro ⟨r, hr, ha, hl⟩
        exact ⟨r, cleanup_keeps_live s hi now ht r hr hl, ha, by simpa [live, hto] using hl⟩
    cases kind with
    | request => simp
    | response =>
      simp only [reduceCtorEq, false_or]
      rw [accepted_iff _ hi' tid src now htid, hcl]
    | error =>
      simp only [reduceCtorEq, false_or]
      rw [accepted_iff _ hi' tid src now htid, hcl]

/-- a datagram from port 0 is never handed up and never consumes a request -/
theorem port_zero_dropped (s : Inflight) (kind : Incoming) (tid : Nat) (src : Addr) (now : Nat)
    (h : src.port = 0) : s.recv kind tid src now = (s.cleanup now, false) := by
  simp [recv, Inflight.decide, h]

/-! ### transaction ids -/

/-- requests get consecutive ids (mod 2^32), so they are guessable — which is why the address
    check above is what protects a request -/
theorem add_tid (s : Inflight) (to : Addr) (now : Nat) :
    (s.add to now).2 = s.nextTid ∧ (s.add to now).1.nextTid = (s.nextTid + 1) % two32 := ⟨rfl, rfl⟩

/-- no two outstanding requests share a transaction id -/
theorem tids_distinct (s : Inflight) (hi : s.Inv) :
    s.requests.Pairwise (fun a b => a.tid ≠ b.tid) := tids_nodup s hi

/-- `compare_socket_addr`: ports must be equal; IPs too unless the request went to 0.0.0.0 -/
theorem compareAddr_iff (a b : Addr) :
    compareAddr a b = true ↔ a.port = b.port ∧ (a.ip = 0 ∨ a.ip = b.ip) := by
  unfold compareAddr
  by_cases hp : a.port = b.port <;> by_cases h0 : a.ip = 0 <;> simp [hp, h0]

/-! ### every reachable table satisfies the invariant -/

inductive Op where
  | request (to : Addr)
  | recv (kind : Incoming) (tid : Nat) (src : Addr)
  | advance (dt : Nat)
  | setTimeout (t : Nat)

/-- one step of a socket's life; the state carries the clock -/
def stepOp (st : Inflight × Nat) : Op → Inflight × Nat
  | .request to => ((st.1.add to st.2).1, st.2)
  | .recv kind tid src => ((st.1.recv kind tid src st.2).1, st.2)
  | .advance dt => (st.1, st.2 + dt)
  | .setTimeout t => ({ st.1 with timeout := t }, st.2)

def requestsIn (ops : List Op) : Nat := (ops.filter fun | .request _ => true | _ => false).length

theorem recv_inv (s : Inflight) (hi : s.Inv) (kind : Incoming) (tid : Nat) (src : Addr) (now : Nat) :
    (s.recv kind tid src now).1.Inv ∧ (s.recv kind tid src now).1.nextTid = s.nextTid ∧
    (s.recv kind tid src now).1.requests.Sublist s.requests := by
  have hc := inv_cleanup s hi now
  have hsub := cleanup_requests_sublist s now
  have hn := (cleanup_fields s now).1
  unfold recv Inflight.decide
  split
  · exact ⟨hc, hn, hsub⟩
  · cases kind with
    | request => exact ⟨hc, hn, hsub⟩
    | response | error =>
      simp only
      unfold isExpectedResponse
      split
      · split
        · exact ⟨hc, hn, hsub⟩
        · exact ⟨inv_remove _ hc tid, by rw [(remove_fields _ tid).1, hn],
            (remove_requests_sublist _ tid).trans hsub⟩
      · exact ⟨hc, hn, hsub⟩

/-- **Reachability.** From an empty table with any starting id, after any history that issues fewer
    than 2^32 - 1 requests, the invariant holds (and every request was sent in the past). -/
theorem reachable_inv (n0 t0 : Nat) (hn0 : n0 < two32) (ops : List Op)
    (hfew : requestsIn ops < two32 - 1) :
    let st := ops.foldl stepOp ({ nextTid := n0 }, t0)
    st.1.Inv ∧ st.1.Timed st.2 := by
  -- strengthen: every kept request is at most `requestsIn (prefix)` ids old
  suffices h : ∀ (ops : List Op) (st : Inflight × Nat) (k : Nat),
      st.1.Inv → st.1.Timed st.2 → (∀ r ∈ st.1.requests, wsub st.1.nextTid r.tid ≤ k) →
      k + requestsIn ops < two32 - 1 →
      (ops.foldl stepOp st).1.Inv ∧ (ops.foldl stepOp st).1.Timed (ops.foldl stepOp st).2 by
    exact h ops _ 0 (inv_empty n0 hn0 _ _) (by intro r hr; cases hr) (by intro r hr; cases hr) (by omega)
  intro ops
  induction ops with
  | nil => intro st k hi ht _ _; exact ⟨hi, ht⟩
  | cons op ops ih =>
    intro st k hi ht hage hk
    simp only [List.foldl_cons]
    cases op with
    | request to =>
      have hk' : k + 1 + requestsIn ops < two32 - 1 := by
        simp only [requestsIn, List.filter_cons] at hk ⊢; simp at hk; omega
      have hok : st.1.addOk := fun r hr => by have := hage r hr; omega
      refine ih _ (k + 1) (inv_add st.1 hi hok to st.2 ht) ?_ ?_ hk'
      · intro r hr
        simp only [stepOp, add, List.mem_append, List.mem_singleton] at hr
        rcases hr with h | rfl
        · exact ht r h
        · exact Nat.le_refl _
      · intro r hr
        simp only [stepOp, add, List.mem_append, List.mem_singleton] at hr ⊢
        have hn := hi.next_lt
        rcases hr with h | rfl
        · have h1 := hage r h
          have h2 := hi.tid_lt r h
          unfold wsub two32 at *; omega
        · simp only; unfold wsub two32 at *; omega
    | recv kind tid src =>
      obtain ⟨h1, h2, h3⟩ := recv_inv st.1 hi kind tid src st.2
      have hk' : k + requestsIn ops < two32 - 1 := by
        simp only [requestsIn, List.filter_cons] at hk ⊢; simpa using hk
      refine ih _ k h1 (fun r hr => ht r (h3.subset hr)) ?_ hk'
      intro r hr
      simp only [stepOp] at hr ⊢
      rw [h2]
      exact hage r (h3.subset hr)
    | advance dt =>
      have hk' : k + requestsIn ops < two32 - 1 := by
        simp only [requestsIn, List.filter_cons] at hk ⊢; simpa using hk
      refine ih _ k hi (fun r hr => Nat.le_trans (ht r hr) (Nat.le_add_right _ _)) hage hk'
    | setTimeout t =>
      have hk' : k + requestsIn ops < two32 - 1 := by
        simp only [requestsIn, List.filter_cons] at hk ⊢; simpa using hk
      exact ih _ k (inv_timeout st.1 hi t) ht hage hk'

/-! ### non-vacuity: a concrete table around the u32 wrap meets every hypothesis used above -/

def exTable : Inflight :=
  (([Op.request ⟨838926593, 6881⟩, .request ⟨838926594, 6881⟩, .advance 1000, .request ⟨0, 6881⟩].foldl
    stepOp ({ nextTid := 4294967295 }, 5)).1)

example : exTable.requests.map (·.tid) = [4294967295, 0, 1] := by decide
example : exTable.Inv ∧ exTable.Timed 1005 :=
  reachable_inv 4294967295 5 (by decide) _ (by decide)
/-- the spoof is dropped and changes nothing; the genuine reply is accepted afterwards; its duplicate
    is not; the reply to the request sent to 0.0.0.0 is accepted from any IP on that port -/
example :
    (exTable.recv .response 0 ⟨1107691014, 6881⟩ 1005) = (exTable, false) ∧
    ((exTable.recv .response 0 ⟨1107691014, 6881⟩ 1005).1.recv .response 0 ⟨838926594, 6881⟩ 1005).2 = true ∧
    (((exTable.recv .response 0 ⟨838926594, 6881⟩ 1005).1).recv .response 0 ⟨838926594, 6881⟩ 1005).2 = false ∧
    (exTable.recv .error 1 ⟨2130706433, 6881⟩ 1005).2 = true ∧
    (exTable.recv .response 4294967295 ⟨838926593, 6881⟩ (1005 + 500000000)).2 = false := by
  decide +kernel

end Mainline.Props.C09

/-! ### above the socket: what a message that is not handed up can do — nothing -/

namespace Mainline.Props.C09
open Mainline Mainline.Actor

/-- a datagram the socket does not hand up (unknown / expired / mismatching transaction id or
    address, port 0) leaves the node's core — query results, candidate lists, routing tables,
    address votes, stores — and its callers exactly as they were; only the socket's own bookkeeping
    (round-trip estimate, a consumed late reply) may change -/
theorem dropped_datagram_no_effect (a : Actor) (env : Env) (dgram : Option (Message × Addr))
    (h : (a.recvPhase env.now dgram).2 = none) :
    (a.preDone env dgram).core = a.core ∧ (a.preDone env dgram).events = a.events ∧
    (a.preDone env dgram).getSenders = a.getSenders ∧ (a.preDone env dgram).putSenders = a.putSenders ∧
    (a.preDone env dgram).out = a.out := by
  have hr : (a.recvPhase env.now dgram).1.core = a.core ∧ (a.recvPhase env.now dgram).1.events = a.events ∧
      (a.recvPhase env.now dgram).1.getSenders = a.getSenders ∧ (a.recvPhase env.now dgram).1.putSenders = a.putSenders ∧
      (a.recvPhase env.now dgram).1.out = a.out := by
    unfold recvPhase
    cases dgram with
    | none => exact ⟨rfl, rfl, rfl, rfl, rfl⟩
    | some p => exact ⟨rfl, rfl, rfl, rfl, rfl⟩
  unfold preDone
  rw [h]
  simp only [handleIncoming, forwardValue]
  exact hr

/-- the socket hands a response or error up only on `accepted_iff`'s conditions -/
theorem handed_up_iff (a : Actor) (hi : a.sock.Inv) (now : Nat) (m : Message) (src : Addr)
    (hk : ∀ r, m.mtype ≠ .request r) :
    (a.recvPhase now (some (m, src))).2 = some (m, src) ↔
      src.port ≠ 0 ∧ ∃ r ∈ a.sock.requests, Answers r m.tid.toNat src ∧ a.sock.live r now = true := by
  have htid : m.tid.toNat < two32 := by
    have := m.tid.toNat_lt; simpa [two32] using this
  have hd : ∀ kind : Incoming, kind ≠ Incoming.request →
      ((a.sock.decide kind m.tid.toNat src now).2 = true ↔
        src.port ≠ 0 ∧ ∃ r ∈ a.sock.requests, Answers r m.tid.toNat src ∧ a.sock.live r now = true) := by
    intro kind hkind
    unfold Inflight.decide
    by_cases hp : src.port = 0
    · simp [hp]
    · have hp' : (src.port == 0) = false := by simpa using hp
      simp only [hp', Bool.false_eq_true, ite_false, ne_eq, hp, not_false_eq_true, true_and]
      cases kind with
      | request => exact absurd rfl hkind
      | response => exact accepted_iff a.sock hi _ src now htid
      | error => exact accepted_iff a.sock hi _ src now htid
  unfold recvPhase
  cases hm : m.mtype with
  | request r => exact absurd hm (hk r)
  | response r =>
    simp only [hm]
    rw [← hd Incoming.response (by simp)]
    cases (a.sock.decide Incoming.response m.tid.toNat src now).2 <;> simp
  | error e =>
    simp only [hm]
    rw [← hd Incoming.error (by simp)]
    cases (a.sock.decide Incoming.error m.tid.toNat src now).2 <;> simp

end Mainline.Props.C09
