/-
  C13, first clause, for the whole node — "a node given the address of at least one live server ends its
  bootstrap with a non-empty routing table".

  `answer_joins`: in any state of a node whose tables are in order, when the socket accepts a response
  that is not flagged read-only for one of the requests of a registered lookup (the bootstrap lookup is
  one) and `RoutingTable::add` takes its author, then at the END of that iteration of the loop — after
  the rest of the tick, the API message and the maintenance that may purge stale entries — the author is
  in the routing table at the address it answered from, seen now.
  `add_into_empty`: a table without entries takes any node whose id is not the table's own.
  `first_answer_fills_table`: hence the first such answer leaves the table non-empty, whatever else
  happens in that iteration.
-/
import MainlineModel.Props.C14Node
import MainlineModel.Props.C13
namespace Mainline.Props.C13Join
open Mainline Mainline.Actor Mainline.Props.C12 Mainline.Props.C14Node

/-- the maintenance at the head of the next tick purges only stale entries -/
theorem maintenance_keeps_fresh (a : Actor) (now : Nat) (hk : TOk a.core now) (e : Node)
    (he : e ∈ a.core.rt.entries) (hf : e.isStale now = false) : e ∈ (a.maintenance now).core.rt.entries := by
  unfold maintenance
  have h1 : tbl (a.bootstrapIfEmpty now).core = tbl a.core := by
    unfold bootstrapIfEmpty; split
    · exact populate_tbl a now
    · rfl
  have h2 : ∀ b : Actor, tbl (b.refreshTable now).core = tbl b.core := by
    intro b
    unfold refreshTable
    split
    · rw [populate_tbl]
      unfold adaptiveSwitch; split <;> rfl
    · rfl
  generalize hb : (a.bootstrapIfEmpty now).refreshTable now = b
  have hbt : tbl b.core = tbl a.core := by rw [← hb]; exact (h2 _).trans h1
  have hkb : TOk b.core now := TOk.of_tbl hbt hk
  have heb : e ∈ b.core.rt.entries := by
    have : b.core.rt = a.core.rt := by
      unfold tbl at hbt; simp only [Prod.mk.injEq] at hbt; exact hbt.1
    rw [this]; exact he
  unfold pingTable
  split
  · have hfold : ∀ (l : List Addr) (x : Actor), (l.foldl (fun a addr => a.ping addr now) x).core = x.core := by
      intro l
      induction l with
      | nil => intro x; rfl
      | cons y ys ih => intro x; simp only [List.foldl_cons]; rw [ih]; rfl
    rw [hfold]
    simp only [pingRound]
    exact (C14.prune_spec b.core.rt hkb.inv now e).2 ⟨heb, hf⟩
  · exact heb

/-- **An accepted answer joins its author to the routing table for good** (until it goes stale) -/
theorem answer_joins (a : Actor) (now0 : Nat) (hk : TOk a.core now0) (env : Env) (hnow : now0 ≤ env.now)
    (m : Message) (src : Addr) (msg : Option ApiMsg) (target : Id) (q : IterQuery) (i : Id)
    (hacc : (a.recvPhase env.now (some (m, src))).2 = some (m, src))
    (hro : m.readOnly = false)
    (hput : a.core.puts.find? (fun p => p.2.q.isInflight m.tid.toNat) = none)
    (hfind : a.core.iter.find? (fun p => p.2.isInflight m.tid.toNat) = some (target, q))
    (hflag : (lookupStep q env src m).2.2 = true) (hauth : authorId m = some i) (hid : i.bytes.length = 20)
    (hresp : ∃ r, m.mtype = .response r)
    (hadd : (a.core.rt.add { id := i, addr := src, lastSeen := env.now } env.now).2 = true) :
    ({ id := i, addr := src, lastSeen := env.now } : Node) ∈ (a.step env (some (m, src)) msg).core.rt.entries := by
  have hk' := hk.mono hnow
  have hwf : DgramWf (some (m, src)) := by
    intro m' src' he
    simp only [Option.some.injEq, Prod.mk.injEq] at he
    obtain ⟨rfl, rfl⟩ := he
    refine ⟨fun j hj => by rw [hauth] at hj; injection hj with hj; subst hj; exact hid, ?_⟩
    intro req t hreq
    obtain ⟨r, hr⟩ := hresp
    rw [hr] at hreq; cases hreq
  -- after the datagram has been handled the author is in the table
  have hpre : ({ id := i, addr := src, lastSeen := env.now } : Node) ∈ (a.preDone env (some (m, src))).core.rt.entries := by
    unfold preDone
    rw [C06Time.forwardValue_core, hacc]
    obtain ⟨_, rc, _, _⟩ := recvPhase_time a env.now (some (m, src))
    generalize (a.recvPhase env.now (some (m, src))).1 = a1 at rc
    unfold handleIncoming
    obtain ⟨r, hr⟩ := hresp
    simp only [hr]
    rw [rc]
    exact C14.answering_peer_in_table a.core hk'.inv env src m target q i hro hput hfind hflag hauth hadd
  have hkpre := preDone_tok a env hk' (some (m, src)) hwf
  -- the rest of the tick and the API message leave the tables alone
  have hrest : tbl ((a.afterRecv env (some (m, src))).pickup env msg).core = tbl (a.preDone env (some (m, src))).core := by
    unfold afterRecv
    rw [pickup_tbl, finishTick_tbl, visitClosestAll_tbl]
  rw [C06Time.step_core]
  apply maintenance_keeps_fresh _ env.now (TOk.of_tbl hrest hkpre)
  · have : ((a.afterRecv env (some (m, src))).pickup env msg).core.rt = (a.preDone env (some (m, src))).core.rt := by
      unfold tbl at hrest; simp only [Prod.mk.injEq] at hrest; exact hrest.1
    rw [this]; exact hpre
  · simp [Node.isStale, Node.age]

/-- a table without entries takes any node that is not the table's own id -/
theorem add_into_empty (rt : RoutingTable) (hempty : rt.entries = []) (node : Node) (now : Nat)
    (hd : rt.id.distance node.id ≠ 0) : (rt.add node now).2 = true := by
  have hall : ∀ b ∈ rt.buckets, b.2 = [] := by
    intro b hb
    cases hb2 : b.2 with
    | nil => rfl
    | cons x xs =>
      exfalso
      have : x ∈ rt.entries := by
        unfold RoutingTable.entries
        rw [List.mem_flatMap]
        exact ⟨b, hb, by rw [hb2]; exact List.mem_cons_self⟩
      rw [hempty] at this; cases this
  have hbucket : (rt.bucket (rt.id.distance node.id)).getD [] = [] := by
    cases hbk : rt.bucket (rt.id.distance node.id) with
    | none => rfl
    | some v =>
      have := RoutingTable.findB_some_mem rt.buckets _ v (by rw [← RoutingTable.bucket_eq_findB]; exact hbk)
      simp only [Option.getD_some]
      exact hall _ this
  unfold RoutingTable.add
  have h0 : (rt.id.distance node.id == 0) = false := by simpa using hd
  have hany : rt.buckets.any (fun b => node.alreadyExists b.2) = false := by
    rw [List.any_eq_false]
    intro b hb
    rw [hall b hb]
    simp [Node.alreadyExists]
  simp only [h0, Bool.false_eq_true, ite_false, hany, Bool.and_false, hbucket]
  simp [RoutingTable.kbucketAdd]

/-- **The first answer fills the table.** -/
theorem first_answer_fills_table (a : Actor) (now0 : Nat) (hk : TOk a.core now0) (env : Env) (hnow : now0 ≤ env.now)
    (m : Message) (src : Addr) (msg : Option ApiMsg) (target : Id) (q : IterQuery) (i : Id)
    (hacc : (a.recvPhase env.now (some (m, src))).2 = some (m, src))
    (hro : m.readOnly = false)
    (hput : a.core.puts.find? (fun p => p.2.q.isInflight m.tid.toNat) = none)
    (hfind : a.core.iter.find? (fun p => p.2.isInflight m.tid.toNat) = some (target, q))
    (hflag : (lookupStep q env src m).2.2 = true) (hauth : authorId m = some i) (hid : i.bytes.length = 20)
    (hresp : ∃ r, m.mtype = .response r)
    (hempty : a.core.rt.entries = []) (hother : a.core.rt.id.distance i ≠ 0) :
    (a.step env (some (m, src)) msg).core.rt.entries ≠ [] := by
  have hadd := add_into_empty a.core.rt hempty { id := i, addr := src, lastSeen := env.now } env.now hother
  have := answer_joins a now0 hk env hnow m src msg target q i hacc hro hput hfind hflag hauth hid hresp hadd
  intro h
  rw [h] at this
  cases this


/-! ### the other direction: the first node of a network learns whoever bootstraps from it -/

theorem verifySelfPing_findNode (c : Core) (src : Addr) (rid target : Id) (now : Nat) :
    (verifySelfPing c src { requesterId := rid, rtype := .findNode target } now).1 = c ∨
    (verifySelfPing c src { requesterId := rid, rtype := .findNode target } now).1.rt = c.rt := by
  unfold verifySelfPing
  split
  · split
    · rename_i h
      simp [isPingReq] at h
    · exact Or.inl rfl
  · exact Or.inl rfl

/-- **A first node learns its joiners.**  A node in server mode without a bootstrap list that receives a
    `find_node` request which is not flagged read-only, is allowed by the request filter and comes from an
    address with a non-zero port, has the requester — under the id it is looking for, its own — in its
    routing table at the end of that iteration, if `RoutingTable::add` takes it (it always does when the
    table is empty and the id is not this node's). -/
theorem first_node_learns_joiner (a : Actor) (now0 : Nat) (hk : TOk a.core now0) (env : Env) (hnow : now0 ≤ env.now)
    (m : Message) (src : Addr) (msg : Option ApiMsg) (rid target : Id)
    (hs : a.core.serverMode = true) (hb : a.core.bootstrap.isEmpty = true)
    (hm : m.mtype = .request { requesterId := rid, rtype := .findNode target }) (hro : m.readOnly = false)
    (hport : src.port ≠ 0) (hallow : a.core.allow { requesterId := rid, rtype := .findNode target } src = true)
    (hrid : rid.bytes.length = 20) (htid : target.bytes.length = 20)
    (hadd : (a.core.rt.add { id := target, addr := src, lastSeen := env.now } env.now).2 = true) :
    ({ id := target, addr := src, lastSeen := env.now } : Node) ∈ (a.step env (some (m, src)) msg).core.rt.entries := by
  have hk' := hk.mono hnow
  have hwf : DgramWf (some (m, src)) := by
    intro m' src' he
    simp only [Option.some.injEq, Prod.mk.injEq] at he
    obtain ⟨rfl, rfl⟩ := he
    refine ⟨?_, ?_⟩
    · intro j hj
      unfold authorId at hj
      rw [hm] at hj
      simp only [Option.some.injEq] at hj
      subst hj; exact hrid
    · intro req t hreq ht
      rw [hm] at hreq
      injection hreq with hreq
      subst hreq
      simp only [RequestType.findNode.injEq] at ht
      subst ht; exact htid
  have hrecv : (a.recvPhase env.now (some (m, src))).2 = some (m, src) := by
    unfold recvPhase
    simp only [hm]
    unfold Inflight.decide
    have : (src.port == 0) = false := by simpa using hport
    simp [this]
  have hpre : ({ id := target, addr := src, lastSeen := env.now } : Node) ∈ (a.preDone env (some (m, src))).core.rt.entries := by
    unfold preDone
    rw [C06Time.forwardValue_core, hrecv]
    obtain ⟨_, rc, _, _⟩ := recvPhase_time a env.now (some (m, src))
    generalize (a.recvPhase env.now (some (m, src))).1 = a1 at rc
    unfold handleIncoming
    simp only [hm]
    have hcore : (a1.handleIncomingRequest env m src { requesterId := rid, rtype := .findNode target }).core.rt
        = (handleRequest a1.core env src m.readOnly m.version { requesterId := rid, rtype := .findNode target }).1.rt := by
      unfold handleIncomingRequest
      split
      · have := populate_tbl (sendReply { a1 with core := (handleRequest a1.core env src m.readOnly m.version
            { requesterId := rid, rtype := .findNode target }).1 } src m.tid
          (handleRequest a1.core env src m.readOnly m.version { requesterId := rid, rtype := .findNode target }).2.1) env.now
        unfold tbl at this
        simp only [Prod.mk.injEq] at this
        rw [this.1, sendReply_core]
      · rw [sendReply_core]
    rw [hcore, rc]
    unfold handleRequest
    simp only [hallow, Bool.not_true, Bool.false_eq_true, ite_false]
    have hrt : (serveRequest (verifySelfPing (maybeAddNodeFromRequest a.core src m.version m.readOnly
          { requesterId := rid, rtype := .findNode target } env.now) src { requesterId := rid, rtype := .findNode target } env.now).1
        env src { requesterId := rid, rtype := .findNode target }
        (verifySelfPing (maybeAddNodeFromRequest a.core src m.version m.readOnly
          { requesterId := rid, rtype := .findNode target } env.now) src { requesterId := rid, rtype := .findNode target } env.now).2).1.rt
        = (maybeAddNodeFromRequest a.core src m.version m.readOnly { requesterId := rid, rtype := .findNode target } env.now).rt := by
      have h1 : ∀ (c : Core) (b : Bool), (serveRequest c env src { requesterId := rid, rtype := .findNode target } b).1.rt = c.rt := by
        intro c b; unfold serveRequest; split <;> rfl
      rw [h1]
      rcases verifySelfPing_findNode (maybeAddNodeFromRequest a.core src m.version m.readOnly
        { requesterId := rid, rtype := .findNode target } env.now) src rid target env.now with h | h
      · rw [h]
      · exact h
    rw [hrt, hro, C13.first_node_learns_requester_partial a.core hs hb src m.version rid target env.now]
    exact C14.add_true_mem a.core.rt hk'.inv _ env.now hadd
  have hkpre := preDone_tok a env hk' (some (m, src)) hwf
  have hrest : tbl ((a.afterRecv env (some (m, src))).pickup env msg).core = tbl (a.preDone env (some (m, src))).core := by
    unfold afterRecv
    rw [pickup_tbl, finishTick_tbl, visitClosestAll_tbl]
  rw [C06Time.step_core]
  apply maintenance_keeps_fresh _ env.now (TOk.of_tbl hrest hkpre)
  · have : ((a.afterRecv env (some (m, src))).pickup env msg).core.rt = (a.preDone env (some (m, src))).core.rt := by
      unfold tbl at hrest; simp only [Prod.mk.injEq] at hrest; exact hrest.1
    rw [this]; exact hpre
  · simp [Node.isStale, Node.age]

end Mainline.Props.C13Join
