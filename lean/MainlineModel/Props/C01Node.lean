/-
  C01 at the level of the whole node — everything a node in server mode answers reaches its requester
  intact.

  `Props/C01Size.lean` bounds the answers of the `Server` model under two hypotheses: the store invariant
  `StoreSized` and the array types `Typed`.  Here both are shown to hold in EVERY reachable state of the
  whole node (`reachable_srvOk`, with `C14Node.reachable_tables` for the routing tables), for runs whose
  datagrams carry the array types of the Rust code (`DgramWf`, `DgramTyped`: ids `[u8; 20]`, keys
  `[u8; 32]`, signatures `[u8; 64]`, `i64` / `u64` integers — what the decoder produces).  And every
  datagram the node puts on the wire in one iteration of its loop is a request, an error, or a response
  that fits the receive buffer of its addressee and decodes there to the message that was sent
  (`step_replies_intact`).
-/
import MainlineModel.Props.C01Size
import MainlineModel.Props.C14Node
import MainlineModel.Props.C18
namespace Mainline.Props.C01
open Mainline Mainline.Actor Mainline.Bencode Mainline.Krpc Mainline.Props.C12 Mainline.Props.C14Node

/-- what the node's server holds respects the protocol's size limits and the array types -/
structure SrvOk (s : Server) : Prop where
  sized : StoreSized s
  items : ∀ p ∈ s.mutable.items, p.2.key.length = 32 ∧ p.2.sig.length = 64 ∧ inI64 p.2.seq
  signed : ∀ p ∈ s.signedPeers.items, ∀ q ∈ p.2.items, SpOk q.2

theorem SrvOk.of_stores {s s' : Server} (h1 : s'.signedPeers = s.signedPeers) (h2 : s'.immutable = s.immutable)
    (h3 : s'.mutable = s.mutable) (h : SrvOk s) : SrvOk s' :=
  ⟨⟨by rw [h2]; exact h.sized.1, by rw [h3]; exact h.sized.2⟩, by rw [h3]; exact h.items, by rw [h1]; exact h.signed⟩

theorem SrvOk.of_held {a a' : Actor} (h : C18.held a' = C18.held a) (hs : SrvOk a.core.server) : SrvOk a'.core.server := by
  unfold C18.held at h
  simp only [Prod.mk.injEq] at h
  exact SrvOk.of_stores h.2.1 h.2.2.1 h.2.2.2 hs

theorem entries_wf (rt : RoutingTable) (h : TableInv rt) : ∀ e ∈ rt.entries, idOk e.id := by
  intro e he
  unfold RoutingTable.entries at he
  rw [List.mem_flatMap] at he
  obtain ⟨b, hb, heb⟩ := he
  exact h.wf b hb e heb

theorem typed_of (c : Core) (now : Nat) (hk : TOk c now) (hs : SrvOk c.server) : Typed c.server c.rt c.srt :=
  ⟨hk.inv.idWf, hk.sinv.idWf, entries_wf c.rt hk.inv, entries_wf c.srt hk.sinv, hs.items, hs.signed⟩

theorem maybeAdd_server (c : Core) (src : Addr) (version : Option Bytes) (ro : Bool) (req : Request) (now : Nat) :
    (maybeAddNodeFromRequest c src version ro req now).server = c.server := by
  unfold maybeAddNodeFromRequest
  split
  · split
    · unfold addRequester
      split
      · split <;> rfl
      · split <;> rfl
    · rfl
  · rfl

/-- the request arm of `Core::handle_request`: the invariant is kept, and a response is sized -/
theorem core_handleRequest_srv (c : Core) (env : Env) (hk : TOk c env.now) (hs : SrvOk c.server) (src : Addr) (ro : Bool)
    (version : Option Bytes) (req : Request) (hwf : ∀ t, req.rtype = .findNode t → t.bytes.length = 20)
    (hreq : ReqTyped req) :
    SrvOk (handleRequest c env src ro version req).1.server ∧
    ∀ r, (handleRequest c env src ro version req).2.1 = some (.response r) → RespSized r := by
  unfold handleRequest
  split
  · exact ⟨hs, fun r h => by cases h⟩
  · generalize hc2 : (verifySelfPing (maybeAddNodeFromRequest c src version ro req env.now) src req env.now).1 = c2
    have hk2 : TOk c2 env.now := by
      rw [← hc2]; exact verifySelfPing_tok _ env.now (maybeAdd_tok c env.now hk src version ro req hwf) src req
    have hs2 : SrvOk c2.server := by
      obtain ⟨_, e2, e3, e4⟩ := C18.verifySelfPing_stores (maybeAddNodeFromRequest c src version ro req env.now) src req env.now
      rw [maybeAdd_server] at e2 e3 e4
      rw [← hc2]
      exact SrvOk.of_stores e2 e3 e4 hs
    have ht2 := typed_of c2 env.now hk2 hs2
    unfold serveRequest
    split
    · refine ⟨?_, ?_⟩
      · have h1 := handleRequest_sized c2.server env.verify c2.allow c2.rt c2.srt src env.now env.wall req hs2.sized
        have h2 := handleRequest_typed c2.server env.verify c2.allow c2.rt c2.srt src env.now env.wall req ht2 hreq
        exact ⟨h1, h2.items, h2.signed⟩
      · intro r hr
        exact server_reply_sized c2.server env.verify c2.allow c2.rt c2.srt src env.now env.wall req r hs2.sized ht2 hr
    · exact ⟨hs2, fun r h => by cases h⟩

/-- the array types of what a datagram carries into the server's stores -/
def DgramTyped (dgram : Option (Message × Addr)) : Prop :=
  ∀ m src, dgram = some (m, src) → ∀ req, m.mtype = .request req → ReqTyped req

/-- what a node may put on the wire: a request, an error, or a sized response carrying this library's
    version and the requester's address -/
def GoodOut (x : Addr × Message) : Prop :=
  (∃ r, x.2.mtype = .request r) ∨ (∃ e, x.2.mtype = .error e) ∨
  (∃ r, x.2.mtype = .response r ∧ RespSized r ∧ x.2.version = some Constants.VERSION ∧ x.2.requesterIp = some x.1)

/-- a stretch of the loop that keeps what the server holds in order and puts only such datagrams on the wire -/
def Fine (a a' : Actor) : Prop :=
  SrvOk a.core.server → SrvOk a'.core.server ∧ ∃ l, a'.out = a.out ++ l ∧ ∀ x ∈ l, GoodOut x

theorem Fine.refl (a : Actor) : Fine a a := fun h => ⟨h, [], by simp, by intro x h; cases h⟩

theorem Fine.trans {a b c : Actor} (h1 : Fine a b) (h2 : Fine b c) : Fine a c := by
  intro hs
  obtain ⟨s1, l1, e1, p1⟩ := h1 hs
  obtain ⟨s2, l2, e2, p2⟩ := h2 s1
  refine ⟨s2, l1 ++ l2, by rw [e2, e1, List.append_assoc], ?_⟩
  intro x hx
  rcases List.mem_append.1 hx with h | h
  · exact p1 x h
  · exact p2 x h

theorem Fine.silent {a a' : Actor} (ho : a'.out = a.out) (hs : SrvOk a.core.server → SrvOk a'.core.server) : Fine a a' :=
  fun h => ⟨hs h, [], by simp [ho], by intro x h; cases h⟩

theorem Fine.of_quiet {a a' : Actor} (h : C18.Quiet a a') : Fine a a' := by
  obtain ⟨l, e, p⟩ := h.sent
  exact fun hs => ⟨SrvOk.of_held h.stores hs, l, e, fun x hx => Or.inl (p x hx).1⟩

theorem refreshTable_fine (a : Actor) (now : Nat) : Fine a (a.refreshTable now) := by
  rcases C18.refreshTable_cases a now with h | ⟨_, _, _, _, hh, l, e, p⟩
  · exact Fine.of_quiet h
  · exact fun hs => ⟨SrvOk.of_held hh hs, l, e, fun x hx => Or.inl (p x hx).1⟩

theorem maintenance_fine (a : Actor) (now : Nat) : Fine a (a.maintenance now) := by
  unfold maintenance
  exact ((Fine.of_quiet (C18.bootstrapIfEmpty_quiet a now)).trans (refreshTable_fine _ now)).trans
    (Fine.of_quiet (C18.pingTable_quiet _ now))

theorem forwardValue_out (a : Actor) (v : Option (Id × Value)) : (a.forwardValue v).out = a.out := by
  unfold forwardValue
  split
  · split <;> rfl
  · rfl

theorem sendReply_fine (a : Actor) (src : Addr) (tid : UInt32) (r : Option Reply)
    (hr : ∀ x, r = some (.response x) → RespSized x) : Fine a (a.sendReply src tid r) := by
  intro hs
  unfold sendReply
  split
  · rename_i x
    exact ⟨hs, [(src, _)], rfl, by
      intro y hy
      simp only [List.mem_singleton] at hy
      subst hy
      exact Or.inr (Or.inr ⟨x, rfl, hr x rfl, rfl, rfl⟩)⟩
  · exact ⟨hs, [(src, _)], rfl, by
      intro y hy
      simp only [List.mem_singleton] at hy
      subst hy
      exact Or.inr (Or.inl ⟨_, rfl⟩)⟩
  · exact Fine.refl a hs

/-- the first half of the tick, where the datagram is handled -/
theorem preDone_fine (a : Actor) (env : Env) (hk : TOk a.core env.now) (dgram : Option (Message × Addr))
    (hwf : DgramWf dgram) (ht : DgramTyped dgram) : Fine a (a.preDone env dgram) := by
  unfold preDone
  obtain ⟨ro, rc, _, _⟩ := recvPhase_time a env.now dgram
  have hh : ∀ m src, (a.recvPhase env.now dgram).2 = some (m, src) → dgram = some (m, src) :=
    fun m src h => C07.recvPhase_handed a env.now dgram m src h
  generalize (a.recvPhase env.now dgram).1 = a1 at ro rc
  generalize (a.recvPhase env.now dgram).2 = handed at hh
  rw [← rc] at hk
  have h1 : Fine a a1 := Fine.silent ro (fun h => by rw [rc]; exact h)
  refine h1.trans ?_
  have h3 : ∀ b v, Fine b (b.forwardValue v) := fun b v =>
    Fine.silent (forwardValue_out b v) (fun h => by rw [C06Time.forwardValue_core]; exact h)
  refine Fine.trans ?_ (h3 _ _)
  unfold handleIncoming
  split
  · exact Fine.refl a1
  · rename_i m src
    obtain ⟨_, w2⟩ := hwf m src (hh m src rfl)
    split
    · rename_i req hreq
      simp only
      unfold handleIncomingRequest
      have hb : Fine a1 (sendReply { a1 with core := (handleRequest a1.core env src m.readOnly m.version req).1 } src m.tid
          (handleRequest a1.core env src m.readOnly m.version req).2.1) := by
        intro hs
        obtain ⟨k1, k2⟩ := core_handleRequest_srv a1.core env hk hs src m.readOnly m.version req
          (fun t ht' => w2 req t hreq ht') (ht m src (hh m src rfl) req hreq)
        exact sendReply_fine { a1 with core := (handleRequest a1.core env src m.readOnly m.version req).1 } src m.tid _
          (fun x hx => k2 x hx) k1
      split
      · exact hb.trans (Fine.of_quiet (C18.populate_quiet _ env.now))
      · exact hb
    · simp only
      obtain ⟨_, h2⟩ := C18.handleResponse_mode a1.core env src m
      exact Fine.silent rfl (SrvOk.of_stores (by rw [h2]) (by rw [h2]) (by rw [h2]))

/-- **One iteration of the loop**, any state whose tables are in order, any datagram with the array
    types, any API call: what the server holds stays in order, and everything put on the wire is a
    request, an error, or a sized response -/
theorem step_fine (a : Actor) (now0 : Nat) (hk : TOk a.core now0) (env : Env) (hnow : now0 ≤ env.now)
    (dgram : Option (Message × Addr)) (hwf : DgramWf dgram) (ht : DgramTyped dgram) (msg : Option ApiMsg) :
    Fine a (a.step env dgram msg) := by
  have hk' := hk.mono hnow
  unfold Actor.step afterRecv
  have h1 := preDone_fine a env hk' dgram hwf ht
  have h2 := Fine.of_quiet (C18.visitClosestAll_quiet (a.preDone env dgram) env.now)
  have h3 := Fine.of_quiet (C18.finishTick_quiet ((a.preDone env dgram).visitClosestAll env.now) env.now
    ((a.preDone env dgram).checkDonePuts env.now))
  have h4 := Fine.of_quiet (C18.pickup_quiet (finishTick ((a.preDone env dgram).visitClosestAll env.now) env.now
    ((a.preDone env dgram).checkDonePuts env.now)) env msg)
  have h5 := maintenance_fine ((finishTick ((a.preDone env dgram).visitClosestAll env.now) env.now
    ((a.preDone env dgram).checkDonePuts env.now)).pickup env msg) env.now
  have h := (((h1.trans h2).trans h3).trans h4).trans h5
  intro hs
  exact h hs

/-! ### every run -/

theorem fresh_srvOk (a b c d : Nat) (rng : UInt64) (now : Nat) : SrvOk (Server.new a b c d rng now) :=
  ⟨fresh_sized a b c d rng now, by intro p hp; simp [Server.new] at hp, by intro p hp; simp [Server.new] at hp⟩

theorem create_srvOk (cfg : NodeConfig) (seed : UInt64) (now : Nat) : SrvOk (Actor.create cfg seed now).core.server := by
  unfold Actor.create
  cases hp : cfg.publicIp with
  | some ip =>
    simp only
    exact (maintenance_fine _ now (fresh_srvOk _ _ _ _ _ _)).1
  | none =>
    simp only
    exact (maintenance_fine _ now (fresh_srvOk _ _ _ _ _ _)).1

/-- **Every reachable state of the whole node**: what its server holds respects the size limits and the
    array types, whatever requests arrived (valid or not, authorised or not) in datagrams that carry the
    array types -/
theorem reachable_srvOk (cfg : NodeConfig) (seed : UInt64) (t0 : Nat) (ins : List StepIn) (hr : RunWf t0 ins)
    (ht : ∀ i ∈ ins, DgramTyped i.dgram) :
    SrvOk (runSteps (Actor.create cfg seed t0) ins).core.server ∧
    TOk (runSteps (Actor.create cfg seed t0) ins).core (C06Time.endNow t0 ins) := by
  have : ∀ (l : List StepIn) (a : Actor) (now0 : Nat), TOk a.core now0 → SrvOk a.core.server → RunWf now0 l →
      (∀ i ∈ l, DgramTyped i.dgram) →
      SrvOk (runSteps a l).core.server ∧ TOk (runSteps a l).core (C06Time.endNow now0 l) := by
    intro l
    induction l with
    | nil => intro a now0 h hs _ _; exact ⟨hs, h⟩
    | cons i is ih =>
      intro a now0 h hs hr ht
      obtain ⟨h1, h2, h3⟩ := hr
      exact ih _ _ (step_tables a now0 h i.env h1 i.dgram h2 i.msg)
        (step_fine a now0 h i.env h1 i.dgram h2 (ht i List.mem_cons_self) i.msg hs).1 h3
        (fun j hj => ht j (List.mem_cons_of_mem _ hj))
  exact this ins _ t0 (create_tables cfg seed t0) (create_srvOk cfg seed t0) hr ht

/-- a sized response with this library's version decodes at its addressee to what was sent -/
theorem goodOut_intact (x : Addr × Message) (h : GoodOut x) (r : Response) (hr : x.2.mtype = .response r) :
    (Krpc.toBytes x.2).length ≤ Constants.MTU ∧ Krpc.recvDatagram (Krpc.toBytes x.2) = .ok (some (C10.norm x.2)) := by
  obtain ⟨to, m⟩ := x
  obtain ⟨tid, version, ip, mt, ro⟩ := m
  simp only at hr
  subst hr
  rcases h with ⟨q, hq⟩ | ⟨e, he⟩ | ⟨r', hr', hsz, hv, _⟩
  · cases hq
  · cases he
  · simp only at hr' hv
    injection hr' with hr'
    subst hr'
    subst hv
    have hver : ∀ v, some Constants.VERSION = some v → v.length = 4 := by
      intro v hv; injection hv with hv; subst hv; decide
    obtain ⟨h1, h2⟩ := response_fits_mtu tid (some Constants.VERSION) ip r ro hver hsz
    have hfit := Nat.le_trans h1 h2
    refine ⟨hfit, ?_⟩
    obtain ⟨hwf, hsized⟩ := respSized_wf r hsz
    unfold Krpc.recvDatagram
    rw [List.take_of_length_le hfit]
    exact C10.decode_encode _ ⟨hver, hwf⟩ hsized

/-- **Everything a node answers reaches its requester intact.**  In one iteration of the loop of a node
    whose tables and stores are in order (every reachable state: `reachable_srvOk`), whatever datagram
    arrives and whatever the callers ask, every response among the datagrams it puts on the wire is at
    most MTU bytes long and is decoded by the receive path of its addressee (`Krpc.recvDatagram`, which
    cuts at MTU) to the message that was sent. -/
theorem step_replies_intact (a : Actor) (now0 : Nat) (hk : TOk a.core now0) (hs : SrvOk a.core.server) (env : Env)
    (hnow : now0 ≤ env.now) (dgram : Option (Message × Addr)) (hwf : DgramWf dgram) (ht : DgramTyped dgram)
    (msg : Option ApiMsg) :
    ∃ l, (a.step env dgram msg).out = a.out ++ l ∧ ∀ x ∈ l, ∀ r, x.2.mtype = .response r →
      (Krpc.toBytes x.2).length ≤ Constants.MTU ∧
      Krpc.recvDatagram (Krpc.toBytes x.2) = .ok (some (C10.norm x.2)) := by
  obtain ⟨_, l, e, p⟩ := step_fine a now0 hk env hnow dgram hwf ht msg hs
  exact ⟨l, e, fun x hx r hr => goodOut_intact x (p x hx) r hr⟩

end Mainline.Props.C01
