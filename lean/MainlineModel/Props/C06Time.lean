/-
  C06 — every API call terminates … **within a bounded time determined by the request timeout and
  the number of nodes contacted**.

  `Props/C06.lean` proves the safety half on the whole actor model (nobody waits on nothing, every
  unit of work that is done is unregistered and its callers answered in the same tick).  This file
  adds the clock: for every history of loop iterations with a clock that does not run backwards,

  * `due_lookup_released`   — a tick at which every request of a registered lookup is older than the
    timeout bound `T` unregisters the lookup and answers and un-parks every caller parked on it,
    whatever datagram arrives in that tick;
  * `lookup_step`           — otherwise the lookup is still registered after the iteration, it has
    requests younger than `T`, and its deadline (the send time of its youngest request plus `T`) has
    moved by at most `T` per request it has sent meanwhile — it only sends requests in a tick in which
    one of its outstanding requests was answered in time;
  * `lookup_run`            — hence along any run: as long as the lookup is registered at time
    `now`, `now < D₀ + T · (requests it has sent since)`, where `D₀` is its deadline at the start.

  The hypotheses are explicit: the request timeout (adaptive in the code) stays at or below `T`
  during the run, the clock is monotone, and the `u32` transaction id counter does not wrap during
  the run (fewer than 2^32 datagrams; after a wrap an old id can alias a new one and the statement
  is false of the code as well).
-/
import MainlineModel.Props.C06
import MainlineModel.Props.C07
import MainlineModel.Props.C20
import MainlineModel.Lemmas.TimeLemmas
namespace Mainline.Props.C06Time
open Mainline Mainline.Actor

/-! ### one lookup per target -/

def IterKeys (l : List (Id × IterQuery)) : Prop := (l.map (·.1)).Nodup

theorem not_mem_keys_of_alGet_none {β : Type} (l : List (Id × β)) (t : Id) (h : alGet l t = none) : t ∉ l.map (·.1) := by
  intro hm
  rw [List.mem_map] at hm
  obtain ⟨p, hp, rfl⟩ := hm
  have := hasKey_of_mem l p hp
  unfold hasKey at this
  rw [h] at this
  cases this

theorem alSet_keys {β : Type} (l : List (Id × β)) (k : Id) (v : β) :
    (alSet l k v).map (·.1) = l.map (·.1) ∨ ((alSet l k v).map (·.1) = l.map (·.1) ++ [k] ∧ k ∉ l.map (·.1)) := by
  unfold alSet
  split
  · left
    rw [List.map_map]
    apply List.map_congr_left
    intro p _
    simp only [Function.comp]
    split
    · rename_i h; exact (by simpa using h : p.1 = k).symm
    · rfl
  · right
    rename_i h
    refine ⟨by simp, ?_⟩
    intro hm
    rw [List.mem_map] at hm
    obtain ⟨p, hp, rfl⟩ := hm
    apply h
    rw [List.any_eq_true]
    exact ⟨p, hp, by simp⟩

theorem iterKeys_alSet (l : List (Id × IterQuery)) (k : Id) (v : IterQuery) (h : IterKeys l) : IterKeys (alSet l k v) := by
  unfold IterKeys at *
  rcases alSet_keys l k v with e | ⟨e, hn⟩
  · rw [e]; exact h
  · rw [e]
    rw [List.nodup_append]
    refine ⟨h, by simp, ?_⟩
    intro a ha b hb
    simp only [List.mem_singleton] at hb
    subst hb
    intro e; subst e; exact hn ha

theorem iterKeys_alRemove (l : List (Id × IterQuery)) (k : Id) (h : IterKeys l) : IterKeys (alRemove l k) := by
  unfold IterKeys alRemove at *
  exact h.sublist (List.Sublist.map _ (List.filter_sublist))

def KeepsKeys (l l' : List (Id × IterQuery)) : Prop := IterKeys l → IterKeys l'

theorem keepsKeys_late : C07.LateRel KeepsKeys :=
  ⟨⟨fun _ h => h, fun _ _ _ h1 h2 h => h2 (h1 h), fun l t _ _ _ b tos now _ _ h => iterKeys_alSet l t _ h⟩,
   fun l t h => iterKeys_alRemove l t h⟩

theorem alGet_of_mem {β : Type} (l : List (Id × β)) (hk : (l.map (·.1)).Nodup) (k : Id) (v : β) (h : (k, v) ∈ l) :
    alGet l k = some v := by
  induction l with
  | nil => cases h
  | cons p ps ih =>
    rw [alGet_cons]
    simp only [List.map_cons, List.nodup_cons] at hk
    rcases List.mem_cons.1 h with rfl | h
    · simp
    · have hne : p.1 ≠ k := by
        intro e
        apply hk.1
        rw [List.mem_map]
        exact ⟨(k, v), h, e.symm⟩
      rw [if_neg hne]
      exact ih hk.2 h

theorem forwardValue_core (a : Actor) (v : Option (Id × Value)) : (a.forwardValue v).core = a.core := by
  unfold forwardValue
  split
  · split <;> rfl
  · rfl

theorem handleResponse_keys (c : Core) (env : Env) (src : Addr) (m : Message) (h : IterKeys c.iter) :
    IterKeys (handleResponse c env src m).1.iter := by
  unfold handleResponse
  split
  · exact h
  · split
    · exact h
    · split
      · rename_i target q _
        split
        · rw [(addResponder_time _ _ _ _).1]; exact iterKeys_alSet _ _ _ h
        · exact iterKeys_alSet _ _ _ h
      · split
        · rw [(addResponder_time _ _ _ _).1]; exact h
        · exact h

theorem preDone_keys (a : Actor) (env : Env) (dgram : Option (Message × Addr)) (h : IterKeys a.core.iter) :
    IterKeys (a.preDone env dgram).core.iter := by
  unfold preDone
  rw [forwardValue_core]
  obtain ⟨_, rc, _, _⟩ := recvPhase_time a env.now dgram
  generalize (a.recvPhase env.now dgram).1 = a1 at rc
  generalize (a.recvPhase env.now dgram).2 = handed
  rw [← rc] at h
  unfold handleIncoming
  split
  · exact h
  · rename_i m src
    split
    · rename_i req _
      unfold handleIncomingRequest
      obtain ⟨c1, _⟩ := handleRequest_cache a1.core env src m.readOnly m.version req
      split
      · have := C07.populate_rel keepsKeys_late.toCreateRel
          (sendReply { a1 with core := (handleRequest a1.core env src m.readOnly m.version req).1 } src m.tid
            (handleRequest a1.core env src m.readOnly m.version req).2.1) env.now
        apply this
        rw [sendReply_core]
        simp only
        rw [c1]; exact h
      · rw [sendReply_core]
        simp only
        rw [c1]; exact h
    · exact handleResponse_keys a1.core env src m h

theorem visitClosest_keys (a : Actor) (t : Id) (now : Nat) (h : IterKeys a.core.iter) :
    IterKeys (a.visitClosest t now).core.iter := by
  unfold visitClosest
  split
  · simp only
    rw [(visitAll_core _ _ _ _).1]
    exact iterKeys_alSet _ _ _ h
  · exact h

theorem visitClosestAll_keys (a : Actor) (now : Nat) (h : IterKeys a.core.iter) :
    IterKeys (a.visitClosestAll now).core.iter := by
  unfold visitClosestAll
  have : ∀ (l : List (Id × IterQuery)) (b : Actor), IterKeys b.core.iter →
      IterKeys (l.foldl (fun (a : Actor) (p : Id × IterQuery) => a.visitClosest p.1 now) b).core.iter := by
    intro l
    induction l with
    | nil => intro b hb; exact hb
    | cons p ps ih => intro b hb; simp only [List.foldl_cons]; exact ih _ (visitClosest_keys b p.1 now hb)
  exact this a.core.iter a h

/-- **one lookup per target**, after every iteration of the loop -/
theorem step_keys (a : Actor) (h : IterKeys a.core.iter) (env : Env) (dgram : Option (Message × Addr)) (msg : Option ApiMsg) :
    IterKeys (a.step env dgram msg).core.iter := by
  unfold Actor.step afterRecv
  exact C07.late_rel keepsKeys_late ((a.preDone env dgram).visitClosestAll env.now) env
    ((a.preDone env dgram).checkDonePuts env.now) msg (visitClosestAll_keys _ env.now (preDone_keys a env dgram h))

/-! ### what is handed up was in flight -/

def kindOf (m : Message) : Incoming :=
  match m.mtype with
  | .request _ => .request
  | .response _ => .response
  | .error _ => .error

theorem recvPhase_snd (a : Actor) (now : Nat) (m : Message) (src : Addr) :
    (a.recvPhase now (some (m, src))).2 =
      if (a.sock.decide (kindOf m) m.tid.toNat src now).2 then some (m, src) else none := rfl

theorem recvPhase_sock (a : Actor) (now : Nat) (m : Message) (src : Addr) :
    (a.recvPhase now (some (m, src))).1.sock.requests = (a.sock.decide (kindOf m) m.tid.toNat src now).1.requests := rfl

/-- a response or error is handed to the core only if a request with its transaction id is in the
    table and younger than the request timeout (C09) -/
theorem handed_live (a : Actor) (now : Nat) (dgram : Option (Message × Addr)) (m : Message) (src : Addr)
    (hi : a.sock.Inv) (h : (a.recvPhase now dgram).2 = some (m, src)) (hnr : ∀ r, m.mtype ≠ .request r) :
    ∃ r ∈ a.sock.requests, r.tid = m.tid.toNat ∧ a.sock.live r now = true := by
  have hd := C07.recvPhase_handed a now dgram m src h
  subst hd
  rw [recvPhase_snd] at h
  have hup : (a.sock.decide (kindOf m) m.tid.toNat src now).2 = true := by
    cases hc : (a.sock.decide (kindOf m) m.tid.toNat src now).2 with
    | true => rfl
    | false => rw [hc] at h; simp at h
  have hk : kindOf m ≠ .request := by
    unfold kindOf
    split
    · rename_i r hr; exact absurd hr (hnr r)
    · intro hh; cases hh
    · intro hh; cases hh
  unfold Inflight.decide at hup
  split at hup
  · cases hup
  · split at hup
    · rename_i hreq; exact absurd hreq hk
    · unfold Inflight.isExpectedResponse at hup
      split at hup
      · split at hup
        · cases hup
        · simp only at hup
          cases hg : a.sock.get m.tid.toNat now with
          | none => rw [hg] at hup; cases hup
          | some r =>
            obtain ⟨h1, h2, h3⟩ := (C09.get_iff a.sock hi m.tid.toNat now (by
              have := m.tid.toNat_lt; unfold two32; omega) r).1 hg
            exact ⟨r, h1, h2, h3⟩
      · cases hup

/-! ### following one lookup through an iteration -/

/-- picking up an API message and the maintenance leave a registered lookup as it is -/
theorem keeps_create (t : Id) (q : IterQuery) :
    C07.CreateRel (fun l l' => alGet l t = some q → alGet l' t = some q) :=
  ⟨fun _ h => h, fun _ _ _ h1 h2 h => h2 (h1 h), fun l t' _ _ _ b tos now hnone _ h => by
    have hne : t ≠ t' := by intro e; subst e; rw [hnone] at h; cases h
    rw [alGet_alSet_other l t' t _ hne]; exact h⟩

/-- the first half of a tick leaves the lookup registered for `t` alone, unless the datagram handed
    up by the socket is a response (or error) carrying one of its transaction ids: then the lookup
    handles it -/
theorem preDone_tracked (a : Actor) (env : Env) (dgram : Option (Message × Addr)) (hk : IterKeys a.core.iter)
    (t : Id) (q : IterQuery) (hq : alGet a.core.iter t = some q) :
    alGet (a.preDone env dgram).core.iter t = some q ∨
    ∃ m src, (a.recvPhase env.now dgram).2 = some (m, src) ∧ (∀ r, m.mtype ≠ .request r) ∧
      q.isInflight m.tid.toNat = true ∧
      alGet (a.preDone env dgram).core.iter t = some (lookupStep q env src m).1 := by
  unfold preDone
  rw [forwardValue_core]
  obtain ⟨_, rc, _, _⟩ := recvPhase_time a env.now dgram
  generalize (a.recvPhase env.now dgram).1 = a1 at rc
  generalize (a.recvPhase env.now dgram).2 = handed
  rw [← rc] at hq hk
  unfold handleIncoming
  split
  · exact Or.inl hq
  · rename_i m src
    split
    · rename_i req _
      left
      unfold handleIncomingRequest
      obtain ⟨c1, _⟩ := handleRequest_cache a1.core env src m.readOnly m.version req
      split
      · have := C07.populate_rel (keeps_create t q)
          (sendReply { a1 with core := (handleRequest a1.core env src m.readOnly m.version req).1 } src m.tid
            (handleRequest a1.core env src m.readOnly m.version req).2.1) env.now
        apply this
        rw [sendReply_core]
        simp only
        rw [c1]; exact hq
      · rw [sendReply_core]
        simp only
        rw [c1]; exact hq
    · rename_i hnr
      have hnr' : ∀ r, m.mtype ≠ .request r := fun r hr => hnr r hr
      unfold handleResponse
      split
      · exact Or.inl hq
      · split
        · exact Or.inl hq
        · split
          · rename_i target q0 hf
            have hmem : (target, q0) ∈ a1.core.iter := List.mem_of_find?_eq_some hf
            have hin : q0.isInflight m.tid.toNat = true := by
              have := List.find?_some hf; simpa using this
            have hg0 := alGet_of_mem a1.core.iter hk target q0 hmem
            by_cases ht : target = t
            · subst ht
              rw [hq] at hg0
              injection hg0 with hg0
              subst hg0
              right
              refine ⟨m, src, rfl, hnr', hin, ?_⟩
              split
              · simp only; rw [(addResponder_time _ _ _ _).1]; exact alGet_alSet_self _ _ _
              · exact alGet_alSet_self _ _ _
            · left
              have hne : t ≠ target := fun e => ht e.symm
              split
              · simp only; rw [(addResponder_time _ _ _ _).1]
                simp only
                rw [alGet_alSet_other _ _ _ _ hne]; exact hq
              · simp only
                rw [alGet_alSet_other _ _ _ _ hne]; exact hq
          · left
            split
            · simp only; rw [(addResponder_time _ _ _ _).1]; exact hq
            · exact hq

/-! ### deadlines -/

/-- every request of lookup `q` that is still in the table was sent at or before `D - T`: once the
    clock reaches `D`, all of them are at least `T` old -/
def DueBy (T : Nat) (a : Actor) (q : IterQuery) (D : Nat) : Prop :=
  ∀ r ∈ a.sock.requests, r.tid ∈ q.inflight → r.sentAt + T ≤ D

theorem DueBy.mono {T : Nat} {a : Actor} {q : IterQuery} {D D' : Nat} (h : DueBy T a q D) (hle : D ≤ D') :
    DueBy T a q D' := fun r hr ht => Nat.le_trans (h r hr ht) hle

/-- a lookup all of whose requests are at least as old as the timeout is done -/
theorem due_done (T : Nat) (s : Inflight) (now0 now : Nat) (ho : SockOrd s now0) (q : IterQuery)
    (hq : ∀ tid ∈ q.inflight, tid < s.nextTid) (hT : s.timeout ≤ T)
    (hd : ∀ r ∈ s.requests, r.tid ∈ q.inflight → r.sentAt + T ≤ now) : q.isDone s now = true := by
  rw [C06.lookup_done_iff]
  intro tid ht
  have htid : tid < two32 := Nat.lt_trans (hq tid ht) ho.next_lt
  by_cases hex : ∃ r ∈ s.requests, r.tid = tid
  · obtain ⟨r, hr, rfl⟩ := hex
    have := hd r hr ht
    exact C06.expired_not_inflight s ho.inv r hr now (by omega)
  · exact C06.absent_not_inflight s ho.inv tid now htid (fun r hr e => hex ⟨r, hr, e⟩)

/-- a lookup that is not done has a request younger than the timeout in the table -/
theorem not_done_young (s : Inflight) (now0 : Nat) (ho : SockOrd s now0) (q : IterQuery) (now : Nat)
    (hq : ∀ tid ∈ q.inflight, tid < s.nextTid) (h : q.isDone s now = false) :
    ∃ r ∈ s.requests, r.tid ∈ q.inflight ∧ now < r.sentAt + s.timeout := by
  unfold IterQuery.isDone at h
  simp only [Bool.not_eq_false', List.any_eq_true] at h
  obtain ⟨tid, ht, hin⟩ := h
  unfold Inflight.isInflight at hin
  cases hg : s.get tid now with
  | none => rw [hg] at hin; cases hin
  | some r =>
    obtain ⟨h1, h2, h3⟩ := (C09.get_iff s ho.inv tid now (Nat.lt_trans (hq tid ht) ho.next_lt) r).1 hg
    refine ⟨r, h1, by rw [h2]; exact ht, ?_⟩
    simp only [Inflight.live, decide_eq_true_eq] at h3
    omega

/-- the deadline of a lookup that sent nothing is not moved by a wrap-free stretch of the loop -/
theorem dueBy_same {T now : Nat} {a a' : Actor} (f : Facts now a a') (q : IterQuery)
    (hq : ∀ tid ∈ q.inflight, tid < a.sock.nextTid) (D : Nat) (hD : DueBy T a q D) : DueBy T a' q D := by
  intro r hr ht
  rcases f.reqs r hr with h | ⟨h, _⟩
  · exact hD r h ht
  · have := hq r.tid ht; omega

/-- … and the requests it did send are due `T` after the clock of the stretch -/
theorem dueBy_gained {T now now0 : Nat} {a a' : Actor} (f : Facts now a a') (ho : SockOrd a.sock now0) (q q' : IterQuery)
    (extra : List Nat) (he : q'.inflight = q.inflight ++ extra) (hx : ∀ tid ∈ extra, a.sock.nextTid ≤ tid)
    (D : Nat) (hD : DueBy T a q D) : DueBy T a' q' (max D (now + T)) := by
  intro r hr ht
  rcases f.reqs r hr with h | ⟨_, h⟩
  · have hlt := ho.tid_lt r h
    rw [he] at ht
    rcases List.mem_append.1 ht with ht | ht
    · have := hD r h ht; omega
    · have := hx r.tid ht; omega
  · omega

/-! ### the lookup through `visit_closest` -/

theorem visitClosest_tracked (b : Actor) (t' : Id) (now : Nat) (t : Id) (q : IterQuery)
    (hq : alGet b.core.iter t = some q) :
    ∃ q', alGet (b.visitClosest t' now).core.iter t = some q' ∧ (C07.Closed q → q' = q) ∧
      (b.sock.nextTid + ((b.visitClosest t' now).out.length - b.out.length) < two32 →
        ∃ extra, q'.inflight = q.inflight ++ extra ∧ ∀ tid ∈ extra, b.sock.nextTid ≤ tid) := by
  by_cases ht : t' = t
  · subst ht
    unfold visitClosest
    rw [hq]
    simp only
    refine ⟨(b.visitAll q q.closestCandidates now).2, ?_, ?_, ?_⟩
    · rw [(visitAll_core _ _ _ _).1]; exact alGet_alSet_self _ _ _
    · intro hc
      rw [(C07.closed_iff q).1 hc]
      rfl
    · intro hb
      have hlen := visitAll_out b q q.closestCandidates now
      obtain ⟨ex, e1, e2⟩ := (visitAll_adv b q q.closestCandidates now).2 (by omega)
      exact ⟨ex, e1, fun tid h => (e2 tid h).1⟩
  · refine ⟨q, ?_, fun _ => rfl, fun _ => ⟨[], by simp, by intro tid h; cases h⟩⟩
    unfold visitClosest
    split
    · simp only
      rw [(visitAll_core _ _ _ _).1]
      rw [alGet_alSet_other _ _ _ _ (fun e => ht e.symm)]
      exact hq
    · exact hq

theorem visitClosest_fold_tracked (now : Nat) (t : Id) (l : List (Id × IterQuery)) (b : Actor) (q : IterQuery)
    (hq : alGet b.core.iter t = some q) :
    ∃ q', alGet (l.foldl (fun (a : Actor) (p : Id × IterQuery) => a.visitClosest p.1 now) b).core.iter t = some q' ∧
      (C07.Closed q → q' = q) ∧
      (b.sock.nextTid + ((l.foldl (fun (a : Actor) (p : Id × IterQuery) => a.visitClosest p.1 now) b).out.length - b.out.length) < two32 →
        ∃ extra, q'.inflight = q.inflight ++ extra ∧ ∀ tid ∈ extra, b.sock.nextTid ≤ tid) := by
  induction l generalizing b q with
  | nil => exact ⟨q, hq, fun _ => rfl, fun _ => ⟨[], by simp, by intro tid h; cases h⟩⟩
  | cons p ps ih =>
    simp only [List.foldl_cons]
    obtain ⟨q1, g1, c1, x1⟩ := visitClosest_tracked b p.1 now t q hq
    obtain ⟨q2, g2, c2, x2⟩ := ih (b.visitClosest p.1 now) q1 g1
    refine ⟨q2, g2, ?_, ?_⟩
    · intro hc
      have e1 := c1 hc
      subst e1
      exact c2 hc
    · intro hb
      obtain ⟨f1, hb2, _⟩ := Adv.split (visitClosest_adv b p.1 now) (visitClosest_fold_adv now ps _) hb
      have hb1 : b.sock.nextTid + ((b.visitClosest p.1 now).out.length - b.out.length) < two32 := by
        obtain ⟨l2, e2⟩ := (visitClosest_fold_adv now ps (b.visitClosest p.1 now)).out
        have : (ps.foldl (fun (a : Actor) (p : Id × IterQuery) => a.visitClosest p.1 now) (b.visitClosest p.1 now)).out.length
            = (b.visitClosest p.1 now).out.length + l2.length := by rw [e2, List.length_append]
        omega
      obtain ⟨ex1, e1, p1⟩ := x1 hb1
      obtain ⟨ex2, e2, p2⟩ := x2 hb2
      refine ⟨ex1 ++ ex2, by rw [e2, e1, List.append_assoc], ?_⟩
      intro tid h
      rcases List.mem_append.1 h with h | h
      · exact p1 tid h
      · exact Nat.le_trans f1.next (p2 tid h)

theorem visitClosestAll_tracked (a : Actor) (now : Nat) (t : Id) (q : IterQuery) (hq : alGet a.core.iter t = some q) :
    ∃ q', alGet (a.visitClosestAll now).core.iter t = some q' ∧ (C07.Closed q → q' = q) ∧
      (a.sock.nextTid + ((a.visitClosestAll now).out.length - a.out.length) < two32 →
        ∃ extra, q'.inflight = q.inflight ++ extra ∧ ∀ tid ∈ extra, a.sock.nextTid ≤ tid) :=
  visitClosest_fold_tracked now t a.core.iter a q hq

/-! ### the lookup through the end of the tick -/

theorem doneLookups_keys (a : Actor) (now : Nat) (t : Id) (q : IterQuery) (hk : IterKeys a.core.iter)
    (hq : alGet a.core.iter t = some q) :
    t ∈ (a.doneLookups now).map (·.1) ↔ q.isDone a.sock now = true := by
  unfold doneLookups
  simp only [List.mem_map, List.mem_filterMap]
  constructor
  · rintro ⟨d, ⟨p, hp, hd⟩, rfl⟩
    split at hd
    · rename_i hdone
      injection hd with hd
      subst hd
      simp only at hq
      have := alGet_of_mem a.core.iter hk p.1 p.2 hp
      rw [hq] at this
      injection this with this
      rw [this]; exact hdone
    · cases hd
  · intro hdone
    exact ⟨(t, closestOfDone a.core q), ⟨(t, q), mem_of_alGet _ _ _ hq, by simp [hdone]⟩, rfl⟩

theorem cleanupOneLookup_other (acc : Core × Option Addr) (d : Id × List Node) (t : Id) (h : t ≠ d.1) :
    alGet (cleanupOneLookup acc d).1.iter t = alGet acc.1.iter t := by
  unfold cleanupOneLookup
  split
  · rename_i q _
    obtain ⟨c1, _⟩ := cacheQuery_time { acc.1 with iter := alRemove acc.1.iter d.1 } q d.2
    obtain ⟨u1, _⟩ := updateAddressVotes_time (cacheQuery { acc.1 with iter := alRemove acc.1.iter d.1 } q d.2) q
    split <;> (simp only; rw [u1, c1]; exact alGet_alRemove_other _ _ _ h)
  · rfl

theorem cleanupDone_other (c : Core) (di : List (Id × List Node)) (dp : List (Id × Option PutErr)) (t : Id)
    (h : t ∉ di.map (·.1)) : alGet (cleanupDone c di dp).1.iter t = alGet c.iter t := by
  unfold cleanupDone
  have h1 : ∀ (l : List (Id × List Node)) (acc : Core × Option Addr), t ∉ l.map (·.1) →
      alGet (l.foldl cleanupOneLookup acc).1.iter t = alGet acc.1.iter t := by
    intro l
    induction l with
    | nil => intro acc _; rfl
    | cons d ds ih =>
      intro acc hl
      simp only [List.map_cons, List.mem_cons, not_or] at hl
      simp only [List.foldl_cons]
      rw [ih _ hl.2, cleanupOneLookup_other acc d t hl.1]
  have h2 := (C06.removePuts_spec dp (di.foldl cleanupOneLookup (c, none)).1).1
  simp only
  rw [h2]
  exact h1 di (c, none) h

theorem releaseGet_events_mono (done : List (Id × List Node)) (b : Actor) :
    ∀ e ∈ b.events, e ∈ (b.releaseGetCallers done).events := by
  unfold releaseGetCallers
  induction done generalizing b with
  | nil => intro e h; exact h
  | cons d ds ih =>
    intro e h
    simp only [List.foldl_cons]
    apply ih
    unfold releaseGetOne
    split
    · exact List.mem_append_left _ h
    · exact h

theorem releasePut_events_mono (done : List (Id × Option PutErr)) (b : Actor) :
    ∀ e ∈ b.events, e ∈ (b.releasePutCallers done).events := by
  unfold releasePutCallers
  induction done generalizing b with
  | nil => intro e h; exact h
  | cons d ds ih =>
    intro e h
    simp only [List.foldl_cons]
    apply ih
    unfold releasePutOne
    split
    · exact List.mem_append_left _ h
    · exact h

/-- every caller parked on a finished lookup gets its closing event -/
theorem releaseGet_events (done : List (Id × List Node)) (b : Actor) (t : Id) (ht : t ∈ done.map (·.1))
    (senders : List Sender) (hs : alGet b.getSenders t = some senders) :
    ∃ nodes, ∀ s ∈ senders, closingEvent nodes s ∈ (b.releaseGetCallers done).events := by
  induction done generalizing b with
  | nil => simp at ht
  | cons d ds ih =>
    by_cases hd : d.1 = t
    · refine ⟨d.2, ?_⟩
      intro s hsm
      have : (b.releaseGetCallers (d :: ds)) = (b.releaseGetOne d).releaseGetCallers ds := rfl
      rw [this]
      apply releaseGet_events_mono
      unfold releaseGetOne
      rw [hd, hs]
      simp only
      exact List.mem_append_right _ (List.mem_map_of_mem hsm)
    · have hin : t ∈ ds.map (·.1) := by
        simp only [List.map_cons, List.mem_cons] at ht
        rcases ht with h | h
        · exact absurd h.symm hd
        · exact h
      have hs' : alGet (b.releaseGetOne d).getSenders t = some senders := by
        unfold releaseGetOne
        split
        · simp only; rw [alGet_alRemove_other _ _ _ (fun e => hd e.symm)]; exact hs
        · exact hs
      exact ih (b.releaseGetOne d) hin hs'

/-- what the end of the tick makes of the callers parked on `t`: all answered, nobody left parked,
    no lookup left registered -/
structure Released (a a' : Actor) (t : Id) : Prop where
  unregistered : alGet a'.core.iter t = none
  unparked : alGet a'.getSenders t = none
  answered : ∀ senders, alGet a.getSenders t = some senders →
    ∃ nodes, ∀ s ∈ senders, closingEvent nodes s ∈ a'.events

theorem not_hasKey_none {β : Type} (l : List (Id × β)) (t : Id) (h : ¬ hasKey l t) : alGet l t = none := by
  unfold hasKey at h
  cases hg : alGet l t with
  | none => rfl
  | some v => rw [hg] at h; simp at h

/-- the second half of the tick: a lookup found done is unregistered and its callers are released;
    any other lookup stays as it is -/
theorem finishTick_tracked (a4 : Actor) (now : Nat) (dp0 : List (Id × Option PutErr)) (t : Id) :
    (t ∈ (a4.doneLookups now).map (·.1) → Released a4 (finishTick a4 now dp0) t) ∧
    (t ∉ (a4.doneLookups now).map (·.1) → alGet (finishTick a4 now dp0).core.iter t = alGet a4.core.iter t) := by
  unfold finishTick
  generalize a4.doneLookups now = di
  obtain ⟨s1, s2, _⟩ := C06.startPuts_spec now di (a4, dp0)
  have hsp : startPuts a4 now di dp0 = di.foldl (startPutOne now) (a4, dp0) := rfl
  rw [hsp]
  generalize di.foldl (startPutOne now) (a4, dp0) = sp at s1 s2
  simp only at s1 s2
  obtain ⟨c1, _, _⟩ := C06.cleanupDone_spec sp.1.core di sp.2
  have c4 := cleanupDone_other sp.1.core di sp.2 t
  generalize cleanupDone sp.1.core di sp.2 = cd at c1 c4
  have hping : ∀ (b : Actor) (to : Option Addr), (b.pingOpt to now).core = b.core ∧
      (b.pingOpt to now).getSenders = b.getSenders ∧ (b.pingOpt to now).events = b.events := by
    intro b to; unfold pingOpt; split <;> exact ⟨rfl, rfl, rfl⟩
  obtain ⟨g1, g2, _⟩ := hping { sp.1 with core := cd.1 } cd.2
  obtain ⟨rg1, _, rg3⟩ := C06.releaseGet_spec (pingOpt { sp.1 with core := cd.1 } cd.2 now) di
  obtain ⟨rp1, rp2, _⟩ := C06.releasePut_spec
    (releaseGetCallers (pingOpt { sp.1 with core := cd.1 } cd.2 now) di) sp.2
  have hcore : (releasePutCallers (releaseGetCallers (pingOpt { sp.1 with core := cd.1 } cd.2 now) di) sp.2).core = cd.1 := by
    rw [rp1, rg1, g1]
  constructor
  · intro hin
    refine ⟨?_, ?_, ?_⟩
    · rw [hcore]
      apply not_hasKey_none
      intro hh
      exact ((c1 t).1 hh).2 hin
    · rw [rp2]
      apply not_hasKey_none
      intro hh
      exact ((rg3 t).1 hh).2 hin
    · intro senders hs
      have hs' : alGet (pingOpt { sp.1 with core := cd.1 } cd.2 now).getSenders t = some senders := by
        rw [g2]; simp only; rw [s2]; exact hs
      obtain ⟨nodes, hn⟩ := releaseGet_events di (pingOpt { sp.1 with core := cd.1 } cd.2 now) t hin senders hs'
      exact ⟨nodes, fun s hsm => releasePut_events_mono _ _ _ (hn s hsm)⟩
  · intro hnin
    rw [hcore, c4 hnin, s1]

theorem dueBy_congr {T : Nat} {a : Actor} {q q' : IterQuery} {D : Nat} (h : q'.inflight = q.inflight)
    (hD : DueBy T a q D) : DueBy T a q' D := by
  intro r hr ht; rw [h] at ht; exact hD r hr ht

theorem isDone_false_of_ne_true {q : IterQuery} {s : Inflight} {now : Nat} (h : ¬ q.isDone s now = true) :
    q.isDone s now = false := by
  cases hh : q.isDone s now with
  | true => exact absurd hh h
  | false => rfl

/-! ## One tick -/

/-- **One tick, one lookup.**  Let `q` be the lookup registered for `t`, all of whose requests in
    the table are due by `D`.  After the tick — whatever datagram arrived — either the lookup is
    unregistered and every caller parked on it has its closing event and is un-parked, or the clock
    has not reached `D` yet, the lookup is still registered, and its requests are due by
    `D + T · (requests it sent in this tick)`. -/
theorem lookup_tick (T : Nat) (a : Actor) (now0 : Nat) (hs : SockOk a now0) (hk : IterKeys a.core.iter)
    (env : Env) (hnow : now0 ≤ env.now) (dgram : Option (Message × Addr))
    (hb : a.sock.nextTid + ((a.afterRecv env dgram).out.length - a.out.length) < two32)
    (hT0 : a.sock.timeout ≤ T) (hT1 : (a.recvPhase env.now dgram).1.sock.timeout ≤ T)
    (t : Id) (q : IterQuery) (hq : alGet a.core.iter t = some q) (hc : C07.Closed q) (D : Nat) (hD : DueBy T a q D) :
    Released a (a.afterRecv env dgram) t ∨
    (env.now < D ∧ ∃ q' extra, alGet (a.afterRecv env dgram).core.iter t = some q' ∧
        q'.inflight = q.inflight ++ extra ∧ DueBy T (a.afterRecv env dgram) q' (D + T * extra.length)) := by
  have hs0 := hs.mono hnow
  -- the three stretches of the tick
  have A03 := preDone_adv a env dgram
  have A34 := visitClosestAll_adv (a.preDone env dgram) env.now
  have A45 := finishTick_adv ((a.preDone env dgram).visitClosestAll env.now) env.now ((a.preDone env dgram).checkDonePuts env.now)
  have hb' : a.sock.nextTid + ((finishTick ((a.preDone env dgram).visitClosestAll env.now) env.now
      ((a.preDone env dgram).checkDonePuts env.now)).out.length - a.out.length) < two32 := hb
  obtain ⟨F03, hb35, F35⟩ := Adv.split A03 (A34.trans A45) hb'
  obtain ⟨F34, _, F45⟩ := Adv.split A34 A45 hb35
  have hb34 : (a.preDone env dgram).sock.nextTid +
      (((a.preDone env dgram).visitClosestAll env.now).out.length - (a.preDone env dgram).out.length) < two32 := by
    obtain ⟨l2, e2⟩ := A45.out
    have : (finishTick ((a.preDone env dgram).visitClosestAll env.now) env.now ((a.preDone env dgram).checkDonePuts env.now)).out.length
        = ((a.preDone env dgram).visitClosestAll env.now).out.length + l2.length := by rw [e2, List.length_append]
    omega
  have hs3 := F03.sockOk hs0
  have hs4 := F34.sockOk hs3
  have hk3 := preDone_keys a env dgram hk
  have hk4 := visitClosestAll_keys _ env.now hk3
  -- the timeout in force when the tick looks for finished lookups
  have ht3 : (a.preDone env dgram).sock.timeout ≤ T := by
    unfold preDone; rw [forwardValue_sock, handleIncoming_tmo]; exact hT1
  have ht4 : ((a.preDone env dgram).visitClosestAll env.now).sock.timeout ≤ T := by
    rw [visitClosestAll_tmo]; exact ht3
  -- parked callers are not touched before the end of the tick
  obtain ⟨p1, _⟩ := C06.preDone_frame a env dgram
  obtain ⟨_, v2, _⟩ := C06.visitClosestAll_frame (a.preDone env dgram) env.now
  have hsend : ((a.preDone env dgram).visitClosestAll env.now).getSenders = a.getSenders := v2.trans p1
  have hqlt : ∀ tid ∈ q.inflight, tid < a.sock.nextTid := hs.iter (t, q) (mem_of_alGet _ _ _ hq)
  unfold afterRecv
  generalize ha3 : a.preDone env dgram = a3 at *
  generalize ha4 : a3.visitClosestAll env.now = a4 at *
  obtain ⟨fd, fc⟩ := finishTick_tracked a4 env.now (a3.checkDonePuts env.now) t
  -- what remains once the lookup as it stands before `is_done` is known
  have finish : ∀ (q4 : IterQuery) (extra : List Nat), alGet a4.core.iter t = some q4 →
      q4.inflight = q.inflight ++ extra → DueBy T a4 q4 (D + T * extra.length) → (q4.isDone a4.sock env.now = false → env.now < D) →
      Released a (finishTick a4 env.now (a3.checkDonePuts env.now)) t ∨
      (env.now < D ∧ ∃ q' extra, alGet (finishTick a4 env.now (a3.checkDonePuts env.now)).core.iter t = some q' ∧
        q'.inflight = q.inflight ++ extra ∧ DueBy T (finishTick a4 env.now (a3.checkDonePuts env.now)) q' (D + T * extra.length)) := by
    intro q4 extra h4 he hd4 hyoung
    by_cases hdone : q4.isDone a4.sock env.now = true
    · left
      have hin := (doneLookups_keys a4 env.now t q4 hk4 h4).2 hdone
      obtain ⟨r1, r2, r3⟩ := fd hin
      exact ⟨r1, r2, fun senders hsn => r3 senders (by rw [hsend]; exact hsn)⟩
    · right
      have hnd := isDone_false_of_ne_true hdone
      have hnin : t ∉ (a4.doneLookups env.now).map (·.1) := fun h => hdone ((doneLookups_keys a4 env.now t q4 hk4 h4).1 h)
      refine ⟨hyoung hnd, q4, extra, by rw [fc hnin]; exact h4, he, ?_⟩
      exact dueBy_same F45 q4 (hs4.iter (t, q4) (mem_of_alGet _ _ _ h4)) _ hd4
  rcases preDone_tracked a env dgram hk t q hq with h3 | ⟨m, src, hh, hnr, hin, h3⟩
  · -- nothing for this lookup in this tick
    rw [ha3] at h3
    obtain ⟨q4, g4, c4, _⟩ := visitClosestAll_tracked a3 env.now t q h3
    rw [ha4] at g4
    have e4 := c4 hc
    subst e4
    have hd4 : DueBy T a4 q4 D := dueBy_same (F03.trans F34) q4 hqlt D hD
    apply finish q4 [] g4 (by simp) (by simpa using hd4)
    intro hnd
    obtain ⟨r, hr, hrt, hry⟩ := not_done_young a4.sock env.now hs4.ord q4 env.now (hs4.iter (t, q4) (mem_of_alGet _ _ _ g4)) hnd
    have := hd4 r hr hrt
    omega
  · -- a response to one of its requests arrived in time
    rw [ha3] at h3
    obtain ⟨r, hr, hrt, hlive⟩ := handed_live a env.now dgram m src hs.ord.inv hh hnr
    have hrin : r.tid ∈ q.inflight := by
      rw [hrt]; unfold IterQuery.isInflight at hin; simpa using hin
    have hdue := hD r hr hrin
    have hnowD : env.now < D := by
      simp only [Inflight.live, decide_eq_true_eq] at hlive
      omega
    have hl3 : (lookupStep q env src m).1.inflight = q.inflight := lookupStep_inflight q env src m
    obtain ⟨q4, g4, _, x4⟩ := visitClosestAll_tracked a3 env.now t _ h3
    rw [ha4] at g4 x4
    obtain ⟨extra, e4, p4⟩ := x4 hb34
    rw [hl3] at e4
    have hd3 : DueBy T a3 (lookupStep q env src m).1 D := dueBy_congr hl3 (dueBy_same F03 q hqlt D hD)
    have hd4 : DueBy T a4 q4 (D + T * extra.length) := by
      cases extra with
      | nil =>
        simp only [List.append_nil] at e4
        have : DueBy T a4 (lookupStep q env src m).1 D :=
          dueBy_same F34 _ (by rw [hl3]; intro tid h; exact Nat.lt_of_lt_of_le (hqlt tid h) F03.next) D hd3
        simpa using dueBy_congr (e4.trans hl3.symm) this
      | cons x xs =>
        have := dueBy_gained F34 hs3.ord (lookupStep q env src m).1 q4 (x :: xs) (by rw [hl3]; exact e4) p4 D hd3
        refine this.mono ?_
        simp only [List.length_cons]
        have : T * (xs.length + 1) = T * xs.length + T := by rw [Nat.mul_succ]
        omega
    exact finish q4 extra g4 e4 hd4 (fun _ => hnowD)

/-! ## One iteration of the loop -/

theorem step_core (a : Actor) (env : Env) (dgram : Option (Message × Addr)) (msg : Option ApiMsg) :
    (a.step env dgram msg).core = (((a.afterRecv env dgram).pickup env msg).maintenance env.now).core := rfl

theorem late_adv (b : Actor) (env : Env) (msg : Option ApiMsg) :
    Adv env.now b { ((b.pickup env msg).maintenance env.now) with sock := ((b.pickup env msg).maintenance env.now).sock.cleanup env.now } :=
  (pickup_adv b env msg).trans ((maintenance_adv _ env.now).trans (cleanup_adv _ env.now))

/-- **One iteration, one lookup**: as `lookup_tick`, for the whole iteration (the message pick-up
    and the maintenance leave a registered lookup alone). -/
theorem lookup_step (T : Nat) (a : Actor) (now0 : Nat) (hs : SockOk a now0) (hk : IterKeys a.core.iter)
    (env : Env) (hnow : now0 ≤ env.now) (dgram : Option (Message × Addr)) (msg : Option ApiMsg)
    (hb : a.sock.nextTid + ((a.step env dgram msg).out.length - a.out.length) < two32)
    (hT0 : a.sock.timeout ≤ T) (hT1 : (a.recvPhase env.now dgram).1.sock.timeout ≤ T)
    (t : Id) (q : IterQuery) (hq : alGet a.core.iter t = some q) (hc : C07.Closed q) (D : Nat) (hD : DueBy T a q D) :
    Released a (a.afterRecv env dgram) t ∨
    (env.now < D ∧ ∃ q' extra, alGet (a.step env dgram msg).core.iter t = some q' ∧
        q'.inflight = q.inflight ++ extra ∧ DueBy T (a.step env dgram msg) q' (D + T * extra.length)) := by
  have A05 := afterRecv_adv a env dgram
  have A58 := late_adv (a.afterRecv env dgram) env msg
  have hb' : a.sock.nextTid + (({ (((a.afterRecv env dgram).pickup env msg).maintenance env.now) with
      sock := (((a.afterRecv env dgram).pickup env msg).maintenance env.now).sock.cleanup env.now } : Actor).out.length
      - a.out.length) < two32 := hb
  obtain ⟨F05, _, F58⟩ := Adv.split A05 A58 hb'
  have hb05 : a.sock.nextTid + ((a.afterRecv env dgram).out.length - a.out.length) < two32 := by
    obtain ⟨l2, e2⟩ := A58.out
    have : ({ (((a.afterRecv env dgram).pickup env msg).maintenance env.now) with
      sock := (((a.afterRecv env dgram).pickup env msg).maintenance env.now).sock.cleanup env.now } : Actor).out.length
        = (a.afterRecv env dgram).out.length + l2.length := by rw [e2, List.length_append]
    omega
  rcases lookup_tick T a now0 hs hk env hnow dgram hb05 hT0 hT1 t q hq hc D hD with h | ⟨hlt, q', extra, g5, e5, d5⟩
  · exact Or.inl h
  · right
    have hs5 := F05.sockOk (hs.mono hnow)
    refine ⟨hlt, q', extra, ?_, e5, ?_⟩
    · rw [step_core]
      exact C07.maintenance_rel (keeps_create t q') _ env.now (C07.pickup_rel (keeps_create t q') _ env msg g5)
    · exact dueBy_same F58 q' (hs5.iter (t, q') (mem_of_alGet _ _ _ g5)) _ d5

/-! ## Every run -/

/-- the hypotheses on a run: the clock does not run backwards, the request timeout in force when a
    datagram is accepted and when finished work is looked for stays at or below `T`, and the
    transaction id counter does not wrap -/
def RunOk (T : Nat) : Actor → Nat → List StepIn → Prop
  | _, _, [] => True
  | a, now0, i :: is =>
    now0 ≤ i.env.now ∧ a.sock.timeout ≤ T ∧ (a.recvPhase i.env.now i.dgram).1.sock.timeout ≤ T ∧
    a.sock.nextTid + ((a.step i.env i.dgram i.msg).out.length - a.out.length) < two32 ∧
    RunOk T (a.step i.env i.dgram i.msg) i.env.now is

/-- the clock at the end of a run -/
def endNow (now0 : Nat) (ins : List StepIn) : Nat := ins.foldl (fun _ i => i.env.now) now0

/-- the invariants the time bound rests on: request bookkeeping, one lookup per target, every
    registered lookup has queried its closest candidates -/
structure Ready (a : Actor) (now : Nat) : Prop where
  sock : SockOk a now
  keys : IterKeys a.core.iter
  closed : C07.AllClosed a.core.iter

theorem step_ready (a : Actor) (now0 : Nat) (h : Ready a now0) (env : Env) (hnow : now0 ≤ env.now)
    (dgram : Option (Message × Addr)) (msg : Option ApiMsg)
    (hb : a.sock.nextTid + ((a.step env dgram msg).out.length - a.out.length) < two32) :
    Ready (a.step env dgram msg) env.now :=
  ⟨step_sockOk a now0 h.sock env hnow dgram msg hb, step_keys a h.keys env dgram msg, C07.step_closed a env dgram msg⟩

theorem run_ready (T : Nat) (ins : List StepIn) : ∀ (a : Actor) (now0 : Nat), Ready a now0 → RunOk T a now0 ins →
    Ready (runSteps a ins) (endNow now0 ins) := by
  induction ins with
  | nil => intro a now0 h _; exact h
  | cons i is ih =>
    intro a now0 h hr
    obtain ⟨h1, _, _, h4, h5⟩ := hr
    exact ih _ _ (step_ready a now0 h i.env h1 i.dgram i.msg h4) h5

/-- **The time bound, every run.**  Let `q` be the lookup registered for `t` in a state `a`, with
    all its requests due by `D` (so `D ≤ now + T`).  Along any run from `a` (any datagrams, any API
    calls) either some tick of the run released the lookup — unregistered it, answered and un-parked
    every caller parked on it — or the lookup is still registered at the end, has sent
    `extra.length` further requests, and the clock has not reached `D + T · extra.length`:
    a lookup never outlives its last deadline, and every request it sends buys it at most `T`. -/
theorem lookup_run (T : Nat) (ins : List StepIn) : ∀ (a : Actor) (now0 : Nat), Ready a now0 → RunOk T a now0 ins →
    ∀ (t : Id) (q : IterQuery), alGet a.core.iter t = some q → ∀ D, DueBy T a q D → now0 < D →
    (∃ pre i post, ins = pre ++ i :: post ∧ Released (runSteps a pre) ((runSteps a pre).afterRecv i.env i.dgram) t) ∨
    (∃ q' extra, alGet (runSteps a ins).core.iter t = some q' ∧ q'.inflight = q.inflight ++ extra ∧
      DueBy T (runSteps a ins) q' (D + T * extra.length) ∧ endNow now0 ins < D + T * extra.length) := by
  induction ins with
  | nil =>
    intro a now0 _ _ t q hq D hD hlt
    exact Or.inr ⟨q, [], hq, by simp, by simpa [runSteps] using hD, by simpa [endNow] using hlt⟩
  | cons i is ih =>
    intro a now0 hr hok t q hq D hD _
    obtain ⟨h1, h2, h3, h4, h5⟩ := hok
    rcases lookup_step T a now0 hr.sock hr.keys i.env h1 i.dgram i.msg h4 h2 h3 t q hq (hr.closed t q hq) D hD with
      h | ⟨hlt, q1, ex1, g1, e1, d1⟩
    · exact Or.inl ⟨[], i, is, rfl, h⟩
    · have hr1 := step_ready a now0 hr i.env h1 i.dgram i.msg h4
      have hlt1 : i.env.now < D + T * ex1.length := Nat.lt_of_lt_of_le hlt (Nat.le_add_right _ _)
      rcases ih _ _ hr1 h5 t q1 g1 _ d1 hlt1 with ⟨pre, j, post, e, hrel⟩ | ⟨q', ex2, g2, e2, d2, hl2⟩
      · exact Or.inl ⟨i :: pre, j, post, by rw [e]; rfl, hrel⟩
      · right
        refine ⟨q', ex1 ++ ex2, g2, by rw [e2, e1, List.append_assoc], ?_, ?_⟩
        · have : D + T * (ex1 ++ ex2).length = D + T * ex1.length + T * ex2.length := by
            rw [List.length_append, Nat.mul_add, Nat.add_assoc]
          rw [this]; exact d2
        · have : D + T * (ex1 ++ ex2).length = D + T * ex1.length + T * ex2.length := by
            rw [List.length_append, Nat.mul_add, Nat.add_assoc]
          rw [this]; exact hl2

/-! ### the starting point -/

/-- in a state whose clock reads `now`, every lookup is due by `now + T` at the latest -/
theorem dueBy_now (T : Nat) (a : Actor) (now : Nat) (h : SockOrd a.sock now) (q : IterQuery) : DueBy T a q (now + T) := by
  intro r hr _
  have := h.timed r hr
  omega

theorem fresh_sockOk (core : Core) (m : Bool) (n now : Nat) (hn : n < two32) (h1 : core.iter = []) (h2 : core.puts = []) :
    SockOk { sockServerMode := m, core := core, sock := { nextTid := n } } now := by
  refine ⟨⟨hn, ?_, List.Pairwise.nil, List.Pairwise.nil, ?_⟩, ?_, ?_⟩
  · intro r h; cases h
  · intro r h; cases h
  · intro p h; rw [h1] at h; cases h
  · intro p h; rw [h2] at h; cases h

theorem boot_sockOk (a0 : Actor) (now : Nat) (h0 : SockOk a0 now)
    (hb : a0.sock.nextTid + (({ (a0.maintenance now) with sock := (a0.maintenance now).sock.cleanup now } : Actor).out.length
      - a0.out.length) < two32) :
    SockOk { (a0.maintenance now) with sock := (a0.maintenance now).sock.cleanup now } now :=
  (((maintenance_adv a0 now).trans (cleanup_adv (a0.maintenance now) now)).ok hb).sockOk h0

/-- a freshly created node (as long as its first maintenance does not wrap the id counter) -/
theorem create_ready (cfg : NodeConfig) (seed : UInt64) (now : Nat)
    (hb : cfg.firstTid % two32 + (Actor.create cfg seed now).out.length < two32) :
    Ready (Actor.create cfg seed now) now := by
  obtain ⟨_, hclosed⟩ := C07.create_iter (fun _ _ _ => True) cfg seed now
  refine ⟨?_, ?_, hclosed⟩
  · unfold Actor.create at hb ⊢
    split at hb <;>
    · simp only at hb ⊢
      apply boot_sockOk
      · exact fresh_sockOk _ _ _ _ (Nat.mod_lt _ (by unfold two32; omega)) rfl rfl
      · simpa using hb
  · unfold Actor.create
    split <;>
    · simp only
      exact C07.maintenance_rel keepsKeys_late.toCreateRel _ now (by simp [IterKeys])

/-- **From creation.**  For every node, every run from its creation during which the request timeout
    stays at or below `T`, the clock does not run backwards and the id counter does not wrap: a
    lookup registered at the end of the run is either released by some later tick, or … — combine
    with `lookup_run`, starting from `Ready (runSteps (Actor.create …) ins)`. -/
theorem reachable_ready (T : Nat) (cfg : NodeConfig) (seed : UInt64) (t0 : Nat)
    (hb : cfg.firstTid % two32 + (Actor.create cfg seed t0).out.length < two32)
    (ins : List StepIn) (hok : RunOk T (Actor.create cfg seed t0) t0 ins) :
    Ready (runSteps (Actor.create cfg seed t0) ins) (endNow t0 ins) :=
  run_ready T ins _ _ (create_ready cfg seed t0 hb) hok

/-- **The closed form.**  A lookup registered in a ready state whose clock reads `now0` is released
    by a tick of any run that follows, unless at the end of the run the clock is still below
    `now0 + T · (1 + requests the lookup has sent since)`. -/
theorem lookup_bound (T : Nat) (a : Actor) (now0 : Nat) (hr : Ready a now0) (ins : List StepIn) (hok : RunOk T a now0 ins)
    (hT : 0 < T) (t : Id) (q : IterQuery) (hq : alGet a.core.iter t = some q) :
    (∃ pre i post, ins = pre ++ i :: post ∧ Released (runSteps a pre) ((runSteps a pre).afterRecv i.env i.dgram) t) ∨
    (∃ q' extra, alGet (runSteps a ins).core.iter t = some q' ∧ q'.inflight = q.inflight ++ extra ∧
      endNow now0 ins < now0 + T * (1 + extra.length)) := by
  rcases lookup_run T ins a now0 hr hok t q hq (now0 + T) (dueBy_now T a now0 hr.sock.ord q) (by omega) with h | ⟨q', ex, g, e, _, hl⟩
  · exact Or.inl h
  · refine Or.inr ⟨q', ex, g, e, ?_⟩
    have : now0 + T * (1 + ex.length) = now0 + T + T * ex.length := by rw [Nat.mul_add, Nat.mul_one, Nat.add_assoc]
    rw [this]; exact hl

/-! ### when nothing arrives -/

theorem preDone_none' (a : Actor) (env : Env) : a.preDone env none = a := rfl

/-- **A tick without a datagram**: the lookup sends nothing — it is released if its requests are all
    `T` old, and otherwise stays exactly as it is. -/
theorem lookup_tick_silent (T : Nat) (a : Actor) (now0 : Nat) (hs : SockOk a now0) (hk : IterKeys a.core.iter)
    (env : Env) (hnow : now0 ≤ env.now)
    (hb : a.sock.nextTid + ((a.afterRecv env none).out.length - a.out.length) < two32)
    (hT : a.sock.timeout ≤ T)
    (t : Id) (q : IterQuery) (hq : alGet a.core.iter t = some q) (hc : C07.Closed q) (D : Nat) (hD : DueBy T a q D) :
    Released a (a.afterRecv env none) t ∨
    (env.now < D ∧ alGet (a.afterRecv env none).core.iter t = some q ∧ DueBy T (a.afterRecv env none) q D) := by
  have hs0 := hs.mono hnow
  have A34 := visitClosestAll_adv a env.now
  have A45 := finishTick_adv (a.visitClosestAll env.now) env.now (a.checkDonePuts env.now)
  have hb' : a.sock.nextTid + ((finishTick (a.visitClosestAll env.now) env.now (a.checkDonePuts env.now)).out.length
      - a.out.length) < two32 := hb
  obtain ⟨F34, _, F45⟩ := Adv.split A34 A45 hb'
  have hs4 := F34.sockOk hs0
  have hk4 := visitClosestAll_keys a env.now hk
  have ht4 : (a.visitClosestAll env.now).sock.timeout ≤ T := by rw [visitClosestAll_tmo]; exact hT
  obtain ⟨_, v2, _⟩ := C06.visitClosestAll_frame a env.now
  have hqlt : ∀ tid ∈ q.inflight, tid < a.sock.nextTid := hs.iter (t, q) (mem_of_alGet _ _ _ hq)
  obtain ⟨q4, g4, c4, _⟩ := visitClosestAll_tracked a env.now t q hq
  have e4 := c4 hc
  subst e4
  have hd4 : DueBy T (a.visitClosestAll env.now) q4 D := dueBy_same F34 q4 hqlt D hD
  show Released a (finishTick (a.visitClosestAll env.now) env.now (a.checkDonePuts env.now)) t ∨ _
  obtain ⟨fd, fc⟩ := finishTick_tracked (a.visitClosestAll env.now) env.now (a.checkDonePuts env.now) t
  by_cases hdone : q4.isDone (a.visitClosestAll env.now).sock env.now = true
  · left
    have hin := (doneLookups_keys _ env.now t q4 hk4 g4).2 hdone
    obtain ⟨r1, r2, r3⟩ := fd hin
    exact ⟨r1, r2, fun senders hsn => r3 senders (by rw [v2]; exact hsn)⟩
  · right
    have hnd := isDone_false_of_ne_true hdone
    have hnin : t ∉ ((a.visitClosestAll env.now).doneLookups env.now).map (·.1) :=
      fun h => hdone ((doneLookups_keys _ env.now t q4 hk4 g4).1 h)
    obtain ⟨r, hr, hrt, hry⟩ := not_done_young _ env.now hs4.ord q4 env.now (hs4.iter (t, q4) (mem_of_alGet _ _ _ g4)) hnd
    have := hd4 r hr hrt
    refine ⟨by omega, ?_, ?_⟩
    · show alGet (finishTick (a.visitClosestAll env.now) env.now (a.checkDonePuts env.now)).core.iter t = some q4
      rw [fc hnin]; exact g4
    · exact dueBy_same F45 q4 (hs4.iter (t, q4) (mem_of_alGet _ _ _ g4)) _ hd4

/-- every iteration of the run is one in which no datagram arrives -/
def Silent (ins : List StepIn) : Prop := ∀ i ∈ ins, i.dgram = none

/-- **Nobody answers.**  Along a run in which no datagram arrives, a lookup whose requests are all
    due by `D` is released by a tick of the run, or is still registered unchanged and the clock has
    not reached `D`: with no answers a lookup lives at most one timeout — an unreachable bootstrap
    list ends in "not bootstrapped", never in a hang (C13). -/
theorem silent_run (T : Nat) (ins : List StepIn) : ∀ (a : Actor) (now0 : Nat), Ready a now0 → RunOk T a now0 ins →
    Silent ins → ∀ (t : Id) (q : IterQuery), alGet a.core.iter t = some q → ∀ D, DueBy T a q D → now0 < D →
    (∃ pre i post, ins = pre ++ i :: post ∧ Released (runSteps a pre) ((runSteps a pre).afterRecv i.env none) t) ∨
    (alGet (runSteps a ins).core.iter t = some q ∧ endNow now0 ins < D) := by
  induction ins with
  | nil => intro a now0 _ _ _ t q hq D _ hlt; exact Or.inr ⟨hq, by simpa [endNow] using hlt⟩
  | cons i is ih =>
    intro a now0 hr hok hsil t q hq D hD _
    obtain ⟨h1, h2, _, h4, h5⟩ := hok
    have hi : i.dgram = none := hsil i List.mem_cons_self
    -- the tick
    have A05 := afterRecv_adv a i.env i.dgram
    have A58 := late_adv (a.afterRecv i.env i.dgram) i.env i.msg
    have hb' : a.sock.nextTid + (({ (((a.afterRecv i.env i.dgram).pickup i.env i.msg).maintenance i.env.now) with
        sock := (((a.afterRecv i.env i.dgram).pickup i.env i.msg).maintenance i.env.now).sock.cleanup i.env.now } : Actor).out.length
        - a.out.length) < two32 := h4
    obtain ⟨F05, _, F58⟩ := Adv.split A05 A58 hb'
    have hb05 : a.sock.nextTid + ((a.afterRecv i.env i.dgram).out.length - a.out.length) < two32 := by
      obtain ⟨l2, e2⟩ := A58.out
      have : ({ (((a.afterRecv i.env i.dgram).pickup i.env i.msg).maintenance i.env.now) with
        sock := (((a.afterRecv i.env i.dgram).pickup i.env i.msg).maintenance i.env.now).sock.cleanup i.env.now } : Actor).out.length
          = (a.afterRecv i.env i.dgram).out.length + l2.length := by rw [e2, List.length_append]
      omega
    rw [hi] at hb05 F05 F58
    rcases lookup_tick_silent T a now0 hr.sock hr.keys i.env h1 hb05 h2 t q hq (hr.closed t q hq) D hD with
      h | ⟨hlt, g5, d5⟩
    · exact Or.inl ⟨[], i, is, rfl, h⟩
    · have hs5 := F05.sockOk (hr.sock.mono h1)
      have g8 : alGet (a.step i.env i.dgram i.msg).core.iter t = some q := by
        rw [step_core, hi]
        exact C07.maintenance_rel (keeps_create t q) _ i.env.now (C07.pickup_rel (keeps_create t q) _ i.env i.msg g5)
      have d8 : DueBy T (a.step i.env i.dgram i.msg) q D := by
        rw [hi]
        exact dueBy_same F58 q (hs5.iter (t, q) (mem_of_alGet _ _ _ g5)) _ d5
      have hr1 := step_ready a now0 hr i.env h1 i.dgram i.msg h4
      rcases ih _ _ hr1 h5 (fun j hj => hsil j (List.mem_cons_of_mem _ hj)) t q g8 D d8 hlt with
        ⟨pre, j, post, e, hrel⟩ | h
      · exact Or.inl ⟨i :: pre, j, post, by rw [e]; rfl, by
          have : runSteps a (i :: pre) = runSteps (a.step i.env i.dgram i.msg) pre := rfl
          rw [this]; exact hrel⟩
      · exact Or.inr h

/-! ### the hypotheses are satisfiable (tests, labelled as tests) -/

/-- a client with one bootstrap address: after creation it is `Ready` and the lookup of its own id
    is registered — the state-level hypotheses of `lookup_run` / `lookup_bound` -/
def demoCfg : NodeConfig := { serverMode := false, bootstrap := [{ ip := 0x0A000001, port := 6881 }], publicIp := none }
example : Ready (Actor.create demoCfg 7 0) 0 := create_ready demoCfg 7 0 (by decide)
example : (alGet (Actor.create demoCfg 7 0).core.iter (Actor.create demoCfg 7 0).id).isSome = true := by decide

/-- a run satisfying `RunOk` (a bootstrap-less server idling for a millisecond; the kernel cannot
    evaluate the datagram count of a step that touches the `f64` statistics, so the example keeps
    clear of them) -/
def demoCfg1 : NodeConfig := { serverMode := true, bootstrap := [], publicIp := none }
example : RunOk 500000000 (Actor.create demoCfg1 7 0) 0
    [{ env := { now := 1000000, wall := 0, verify := fun _ _ _ => true }, dgram := none, msg := none }] := by
  refine ⟨by decide, by decide, by decide, by decide, trivial⟩

end Mainline.Props.C06Time
