/-
  C01, the "exact bytes" clause — every answer an honest server sends fits the receive buffer.

  `KrpcSocket::recv_from` reads each datagram into a buffer of `MTU` bytes (`Gen/Constants.MTU`,
  regenerated from `src/actor/socket.rs` on every run); a longer datagram is cut and no longer decodes,
  so whatever it carried is lost to the reader.  The theorems below bound the canonical encoding of
  every response whose fields respect the protocol's limits — ids of 20 bytes, at most K = 20 closer
  nodes, a token of at most 9 bytes (this library's are 4), a value of at most MAX_VALUE_LEN bytes, a
  32-byte key and a 64-byte signature, at most PEERS_SAMPLE compact peers or SIGNED_PEERS_SAMPLE signed
  ones — by 1771 bytes, and show that the model server's answers respect those limits:

  * `response_fits_mtu`     : `RespSized r → … → (Krpc.toBytes ⟨tid, version, ip, .response r, ro⟩).length ≤ MTU`
  * `StoreSized`            : every stored value is at most MAX_VALUE_LEN bytes long — an invariant of
                              `Server.handleRequest` for every request whatsoever (`handleRequest_sized`)
  * `server_reply_sized`    : what `handleRequest` answers is `RespSized`, given the store invariant and
                              the array types of the Rust code (`Typed`: ids are `[u8; 20]`, keys
                              `[u8; 32]`, signatures `[u8; 64]`; the model uses plain lists)
  * `server_reply_fits_mtu` : the composition.

  The slack is 277 bytes: a receive buffer of one Ethernet frame (1500 bytes) would lose every
  1000-byte item served together with 20 closer nodes — `mtu_needed` exhibits such an answer.
-/
import MainlineModel.Lemmas.SizeLemmas
import MainlineModel.Lemmas.BencodeLemmas
import MainlineModel.Model.Server
import MainlineModel.Lemmas.LruLemmas
import MainlineModel.Props.C10
namespace Mainline.Props.C01
open Mainline Bencode Krpc WireNames

/-! ### sizes of the parts -/

def dsize (d : List (BVal × BVal)) : Nat := (encodeDict d).length

@[simp] theorem dsize_nil : dsize [] = 0 := by simp [dsize, encodeDict]
@[simp] theorem dsize_cons (k v : BVal) (r : List (BVal × BVal)) :
    dsize ((k, v) :: r) = (encode k).length + (encode v).length + dsize r := by
  simp [dsize, encodeDict, List.length_append]; omega
@[simp] theorem dsize_append (a b : List (BVal × BVal)) : dsize (a ++ b) = dsize a + dsize b := by
  simp [dsize, encodeDict_append]

theorem encode_dict_length (d : List (BVal × BVal)) : (encode (.dict d)).length = 2 + dsize d := by
  simp [encode, dsize]; omega
theorem encode_list_length (l : List BVal) : (encode (.list l)).length = 2 + (encodeList l).length := by
  simp [encode]; omega
theorem encode_bytes_length (b : Bytes) : (encode (.bytes b)).length = (encBytes b).length := by simp [encode]
theorem encode_int_length (i : Int) : (encode (.int i)).length = (encInt i).length := by simp [encode]

/-- the encoded key names (regenerated from the serde attributes of `messages/internal.rs`) -/
theorem key_sizes :
    (encode (key n_id)).length = 4 ∧ (encode (key n_nodes)).length = 7 ∧ (encode (key n_token)).length = 7 ∧
    (encode (key n_values)).length = 8 ∧ (encode (key n_peers)).length = 7 ∧ (encode (key n_v)).length = 3 ∧
    (encode (key n_k)).length = 3 ∧ (encode (key n_seq)).length = 5 ∧ (encode (key n_sig)).length = 5 ∧
    (encode (key n_ip)).length = 4 ∧ (encode (key n_r)).length = 3 ∧ (encode (key n_ro)).length = 4 ∧
    (encode (key n_t)).length = 3 ∧ (encode (key n_y)).length = 3 := by decide

theorem fixed_bytes (b : Bytes) (n : Nat) (h : b.length = n) (hn : n < 10) : (encode (.bytes b)).length ≤ 2 + n := by
  rw [encode_bytes_length]
  have := encBytes_length_le b n 1 (by omega) (by omega) (by omega)
  omega

def idOk (i : Id) : Prop := i.bytes.length = 20
def NodesOk (ns : List Node) : Prop := ns.length ≤ Constants.K ∧ ∀ n ∈ ns, idOk n.id
def OptNodesOk : Option (List Node) → Prop
  | none => True
  | some ns => NodesOk ns
def TokOk (t : Bytes) : Prop := t.length ≤ 9
def SpOk (p : SignedPeer) : Prop := okPeer p

theorem addrBytes_length (a : Addr) : (addrBytes a).length = 6 := by simp [addrBytes, be32, be16]

theorem nodesBytes_length (ns : List Node) (h : ∀ n ∈ ns, idOk n.id) : (nodesBytes ns).length = 26 * ns.length := by
  unfold nodesBytes
  induction ns with
  | nil => simp
  | cons n r ih =>
    have h1 : n.id.bytes.length = 20 := h n List.mem_cons_self
    have h2 := ih (fun x hx => h x (List.mem_cons_of_mem _ hx))
    simp only [List.flatMap_cons, List.length_append, addrBytes_length, h1, h2, List.length_cons]
    omega

theorem id_entry (i : Id) (h : idOk i) : (encode (.bytes i.bytes)).length ≤ 23 := by
  rw [encode_bytes_length]
  have := encBytes_length_le i.bytes 20 2 (by unfold idOk at h; omega) (by omega) (by omega)
  omega

theorem nodes_entry (ns : List Node) (h : NodesOk ns) : (encode (.bytes (nodesBytes ns))).length ≤ 524 := by
  rw [encode_bytes_length]
  have hl := nodesBytes_length ns h.2
  have hk : ns.length ≤ 20 := h.1
  have := encBytes_length_le (nodesBytes ns) 520 3 (by omega) (by omega) (by omega)
  omega

theorem optNodes_size (ns : Option (List Node)) (h : OptNodesOk ns) : dsize (optNodes ns) ≤ 531 := by
  cases ns with
  | none => simp [optNodes, optEntry]
  | some l =>
    have := nodes_entry l h
    simp only [optNodes, optEntry, Option.map_some, dsize_cons, dsize_nil, key_sizes.2.1]
    omega

theorem token_entry (t : Bytes) (h : TokOk t) : (encode (.bytes t)).length ≤ 11 := by
  rw [encode_bytes_length]
  have := encBytes_length_le t 9 1 h (by omega) (by omega)
  omega

theorem value_entry (v : Bytes) (h : v.length ≤ Constants.MAX_VALUE_LEN) : (encode (.bytes v)).length ≤ 1005 := by
  rw [encode_bytes_length]
  have := encBytes_length_le v 1000 4 h (by omega) (by omega)
  omega

theorem key32_entry (k : Bytes) (h : k.length = 32) : (encode (.bytes k)).length ≤ 35 := by
  rw [encode_bytes_length]
  have := encBytes_length_le k 32 2 (by omega) (by omega) (by omega)
  omega

theorem sig_entry (s : Bytes) (h : s.length = 64) : (encode (.bytes s)).length ≤ 67 := by
  rw [encode_bytes_length]
  have := encBytes_length_le s 64 2 (by omega) (by omega) (by omega)
  omega

theorem seq_entry (i : Int) (h : inI64 i) : (encode (.int i)).length ≤ 22 := by
  rw [encode_int_length]; exact encInt_length_le i h.1 h.2

theorem values_entry (vals : List Addr) (h : vals.length ≤ Constants.PEERS_SAMPLE) :
    (encode (.list (vals.map (fun a => BVal.bytes (addrBytes a))))).length ≤ 162 := by
  rw [encode_list_length]
  have := encodeList_length_le (vals.map (fun a => BVal.bytes (addrBytes a))) 8 (by
    intro x hx
    rw [List.mem_map] at hx
    obtain ⟨a, _, rfl⟩ := hx
    have := fixed_bytes (addrBytes a) 6 (addrBytes_length a) (by omega)
    omega)
  rw [List.length_map] at this
  have hk : vals.length ≤ 20 := h
  omega

theorem signedPeerBytes_length (p : SignedPeer) (h : SpOk p) : (signedPeerBytes p).length = 104 := by
  simp [signedPeerBytes, be64, h.1, h.2.1]

theorem peers_entry (ps : List SignedPeer) (h : ps.length ≤ Constants.SIGNED_PEERS_SAMPLE) (hp : ∀ p ∈ ps, SpOk p) :
    (encode (.list (ps.map (fun p => BVal.bytes (signedPeerBytes p))))).length ≤ 1082 := by
  rw [encode_list_length]
  have := encodeList_length_le (ps.map (fun p => BVal.bytes (signedPeerBytes p))) 108 (by
    intro x hx
    rw [List.mem_map] at hx
    obtain ⟨p, hpm, rfl⟩ := hx
    rw [encode_bytes_length]
    have hl := signedPeerBytes_length p (hp p hpm)
    have := encBytes_length_le (signedPeerBytes p) 104 3 (by omega) (by omega) (by omega)
    omega)
  rw [List.length_map] at this
  have hk : ps.length ≤ 10 := h
  omega

/-! ### the limits a response respects -/

def RespSized : Response → Prop
  | .ping i => idOk i
  | .findNode i ns => idOk i ∧ NodesOk ns
  | .getPeers i tok vals ns => idOk i ∧ TokOk tok ∧ vals.length ≤ Constants.PEERS_SAMPLE ∧ OptNodesOk ns
  | .getSignedPeers i tok ps ns =>
    idOk i ∧ TokOk tok ∧ ps.length ≤ Constants.SIGNED_PEERS_SAMPLE ∧ (∀ p ∈ ps, SpOk p) ∧ OptNodesOk ns
  | .getImmutable i tok ns v => idOk i ∧ TokOk tok ∧ OptNodesOk ns ∧ v.length ≤ Constants.MAX_VALUE_LEN
  | .getMutable i tok ns v k seq sig =>
    idOk i ∧ TokOk tok ∧ OptNodesOk ns ∧ v.length ≤ Constants.MAX_VALUE_LEN ∧ k.length = 32 ∧ inI64 seq ∧ sig.length = 64
  | .noValues i tok ns => idOk i ∧ TokOk tok ∧ OptNodesOk ns
  | .noMoreRecentValue i tok ns seq => idOk i ∧ TokOk tok ∧ OptNodesOk ns ∧ inI64 seq

/-- the `r` dictionary of a sized response takes at most 1721 bytes -/
theorem responseArgs_size (r : Response) (h : RespSized r) : dsize (responseArgs r) ≤ 1721 := by
  obtain ⟨k1, k2, k3, k4, k5, k6, k7, k8, k9, _, _, _, _, _⟩ := key_sizes
  cases r with
  | ping i =>
    have := id_entry i h
    simp only [responseArgs, dsize_cons, dsize_nil, k1]; omega
  | findNode i ns =>
    have := id_entry i h.1
    have := nodes_entry ns h.2
    simp only [responseArgs, dsize_cons, dsize_nil, k1, k2]; omega
  | getPeers i tok vals ns =>
    obtain ⟨h1, h2, h3, h4⟩ := h
    have := id_entry i h1
    have := token_entry tok h2
    have := values_entry vals h3
    have := optNodes_size ns h4
    simp only [responseArgs, dsize_append, dsize_cons, dsize_nil, k1, k3, k4]; omega
  | getSignedPeers i tok ps ns =>
    obtain ⟨h1, h2, h3, h4, h5⟩ := h
    have := id_entry i h1
    have := token_entry tok h2
    have := peers_entry ps h3 h4
    have := optNodes_size ns h5
    simp only [responseArgs, dsize_append, dsize_cons, dsize_nil, k1, k3, k5]; omega
  | getImmutable i tok ns v =>
    obtain ⟨h1, h2, h3, h4⟩ := h
    have := id_entry i h1
    have := token_entry tok h2
    have := optNodes_size ns h3
    have := value_entry v h4
    simp only [responseArgs, dsize_append, dsize_cons, dsize_nil, k1, k3, k6]; omega
  | getMutable i tok ns v k seq sig =>
    obtain ⟨h1, h2, h3, h4, h5, h6, h7⟩ := h
    have := id_entry i h1
    have := token_entry tok h2
    have := optNodes_size ns h3
    have := value_entry v h4
    have := key32_entry k h5
    have := seq_entry seq h6
    have := sig_entry sig h7
    simp only [responseArgs, dsize_append, dsize_cons, dsize_nil, k1, k3, k6, k7, k8, k9]; omega
  | noValues i tok ns =>
    obtain ⟨h1, h2, h3⟩ := h
    have := id_entry i h1
    have := token_entry tok h2
    have := optNodes_size ns h3
    simp only [responseArgs, dsize_append, dsize_cons, dsize_nil, k1, k3]; omega
  | noMoreRecentValue i tok ns seq =>
    obtain ⟨h1, h2, h3, h4⟩ := h
    have := id_entry i h1
    have := token_entry tok h2
    have := optNodes_size ns h3
    have := seq_entry seq h4
    simp only [responseArgs, dsize_append, dsize_cons, dsize_nil, k1, k3, k8]; omega

/-- **Every sized response fits the receive buffer**, whatever its transaction id, requester address and
    read-only flag; the version field is the 4-byte array of the Rust code (or absent) -/
theorem response_fits_mtu (tid : UInt32) (version : Option Bytes) (ip : Option Addr) (r : Response) (ro : Bool)
    (hv : ∀ v, version = some v → v.length = 4) (h : RespSized r) :
    (Krpc.toBytes ⟨tid, version, ip, .response r, ro⟩).length ≤ 1771 ∧ 1771 ≤ Constants.MTU := by
  refine ⟨?_, by decide⟩
  obtain ⟨_, _, _, _, _, k6, _, _, _, k10, k11, k12, k13, k14⟩ := key_sizes
  have hargs := responseArgs_size r h
  have hip : dsize (optEntry n_ip (ip.map (fun a => BVal.bytes (addrBytes a)))) ≤ 12 := by
    cases ip with
    | none => simp [optEntry]
    | some a =>
      have := fixed_bytes (addrBytes a) 6 (addrBytes_length a) (by omega)
      simp only [optEntry, Option.map_some, dsize_cons, dsize_nil, k10]; omega
  have hver : dsize (optEntry n_v (version.map BVal.bytes)) ≤ 9 := by
    cases version with
    | none => simp [optEntry]
    | some v =>
      have := fixed_bytes v 4 (hv v rfl) (by omega)
      simp only [optEntry, Option.map_some, dsize_cons, dsize_nil, k6]; omega
  have hro : (encode (BVal.int (if ro then 1 else 0))).length = 3 := by cases ro <;> decide
  have htid : (encode (BVal.bytes (be32 tid))).length ≤ 6 := fixed_bytes (be32 tid) 4 (by simp [be32]) (by omega)
  have hy : (encode (key n_r)).length = 3 := k11
  unfold Krpc.toBytes toBVal
  simp only [encode_dict_length, dsize_append, dsize_cons, dsize_nil, k11, k12, k13, k14, hro]
  omega


/-! ### what the model server answers respects the limits -/

/-- every stored value is at most MAX_VALUE_LEN bytes long -/
def StoreSized (s : Server) : Prop :=
  (∀ p ∈ s.immutable.items, p.2.length ≤ Constants.MAX_VALUE_LEN) ∧
  (∀ p ∈ s.mutable.items, p.2.value.length ≤ Constants.MAX_VALUE_LEN)

/-- the array types of the Rust code, which the model's lists do not carry: ids are `[u8; 20]`, keys
    `[u8; 32]`, signatures `[u8; 64]`, sequence numbers `i64`, timestamps `u64` -/
structure Typed (s : Server) (rt srt : RoutingTable) : Prop where
  rtId : idOk rt.id
  srtId : idOk srt.id
  rtNodes : ∀ e ∈ rt.entries, idOk e.id
  srtNodes : ∀ e ∈ srt.entries, idOk e.id
  items : ∀ p ∈ s.mutable.items, p.2.key.length = 32 ∧ p.2.sig.length = 64 ∧ inI64 p.2.seq
  signed : ∀ p ∈ s.signedPeers.items, ∀ q ∈ p.2.items, SpOk q.2

theorem mem_insertIdx_sub {α} (l : List α) (i : Nat) (a x : α) (h : x ∈ l.insertIdx i a) : x = a ∨ x ∈ l := by
  rcases Nat.lt_or_ge l.length i with hlt | hle
  · rw [List.insertIdx_of_length_lt hlt] at h; exact Or.inr h
  · exact (List.mem_insertIdx hle).1 h

theorem insert_mem_sub (c : ClosestNodes) (node x : Node) (h : x ∈ (c.insert node).nodes) : x = node ∨ x ∈ c.nodes := by
  unfold ClosestNodes.insert at h
  split at h
  · exact mem_insertIdx_sub _ _ _ _ h
  · exact Or.inr h

theorem foldl_insert_mem (es : List Node) (c : ClosestNodes) (x : Node)
    (h : x ∈ (es.foldl ClosestNodes.insert c).nodes) : x ∈ es ∨ x ∈ c.nodes := by
  induction es generalizing c with
  | nil => exact Or.inr h
  | cons e r ih =>
    simp only [List.foldl_cons] at h
    rcases ih _ h with h1 | h1
    · exact Or.inl (List.mem_cons_of_mem _ h1)
    · rcases insert_mem_sub c e x h1 with h2 | h2
      · exact Or.inl (by rw [h2]; exact List.mem_cons_self)
      · exact Or.inr h2

theorem closest_mem (rt : RoutingTable) (t : Id) (x : Node) (h : x ∈ rt.closest t) : x ∈ rt.entries := by
  unfold RoutingTable.closest at h
  rcases foldl_insert_mem rt.entries _ x ((List.take_subset _ _) h) with h1 | h1
  · exact h1
  · cases h1

theorem closest_length (rt : RoutingTable) (t : Id) : (rt.closest t).length ≤ Constants.K := by
  unfold RoutingTable.closest
  simp only [List.length_take]
  omega

theorem closest_nodesOk (rt : RoutingTable) (t : Id) (h : ∀ e ∈ rt.entries, idOk e.id) : NodesOk (rt.closest t) :=
  ⟨closest_length rt t, fun n hn => h n (closest_mem rt t n hn)⟩

theorem sampleLoop_spec {ν : Type} (target total : Nat) (chunk : Bytes) (l : List ν) :
    ∀ (idx : Nat) (acc : List ν), acc.length < target →
      (Server.sampleLoop target total chunk l idx acc).length ≤ target ∧
      ∀ x ∈ Server.sampleLoop target total chunk l idx acc, x ∈ l ∨ x ∈ acc := by
  induction l with
  | nil =>
    intro idx acc h
    simp only [Server.sampleLoop, List.length_reverse, List.mem_reverse]
    exact ⟨by omega, fun x hx => Or.inr hx⟩
  | cons y r ih =>
    intro idx acc h
    unfold Server.sampleLoop
    simp only
    split
    · split
      · rename_i he
        have he' : acc.length + 1 = target := by simpa using he
        refine ⟨by simp; omega, ?_⟩
        intro x hx
        rw [List.mem_reverse] at hx
        rcases List.mem_cons.1 hx with e | e
        · exact Or.inl (by rw [e]; exact List.mem_cons_self)
        · exact Or.inr e
      · rename_i he
        have he' : acc.length + 1 ≠ target := by simpa using he
        obtain ⟨h1, h2⟩ := ih (idx + 1) (y :: acc) (by simp; omega)
        refine ⟨h1, ?_⟩
        intro x hx
        rcases h2 x hx with e | e
        · exact Or.inl (List.mem_cons_of_mem _ e)
        · rcases List.mem_cons.1 e with e | e
          · exact Or.inl (by rw [e]; exact List.mem_cons_self)
          · exact Or.inr e
    · obtain ⟨h1, h2⟩ := ih (idx + 1) acc h
      refine ⟨h1, ?_⟩
      intro x hx
      rcases h2 x hx with e | e
      · exact Or.inl (List.mem_cons_of_mem _ e)
      · exact Or.inr e

theorem randomSubset_spec {ν : Type} (target : Nat) (ht : 0 < target) (vals : List ν) (rng : UInt64) :
    (Server.randomSubset target vals rng).1.length ≤ target ∧ ∀ x ∈ (Server.randomSubset target vals rng).1, x ∈ vals := by
  unfold Server.randomSubset
  split
  · exact ⟨by simp only; omega, fun x hx => hx⟩
  · obtain ⟨h1, h2⟩ := sampleLoop_spec target vals.length (rngFill (vals.length * 4) rng).1 vals 0 [] (by simpa using ht)
    refine ⟨h1, ?_⟩
    intro x hx
    rcases h2 x hx with e | e
    · exact e
    · cases e

theorem generate_tokOk (t : Tokens) (ip : UInt32) : TokOk (t.generate ip) := by
  simp [TokOk, Tokens.generate, Tokens.tokenFor, be32]

theorem getMutableResponse_sized (rt : RoutingTable) (tok : Bytes) (target : Id) (seq : Option Int) (item : Option StoredItem)
    (hid : idOk rt.id) (hn : ∀ e ∈ rt.entries, idOk e.id) (htok : TokOk tok)
    (hitem : ∀ i, item = some i → i.value.length ≤ Constants.MAX_VALUE_LEN ∧ i.key.length = 32 ∧ i.sig.length = 64 ∧ inI64 i.seq) :
    RespSized (Server.getMutableResponse rt tok target seq item) := by
  have hc := closest_nodesOk rt target hn
  unfold Server.getMutableResponse
  split
  · rename_i i
    obtain ⟨h1, h2, h3, h4⟩ := hitem i rfl
    split
    · split
      · exact ⟨hid, htok, hc, h4⟩
      · exact ⟨hid, htok, hc, h1, h2, h4, h3⟩
    · exact ⟨hid, htok, hc, h1, h2, h4, h3⟩
  · exact ⟨hid, htok, hc⟩

theorem putMutableStore_reply (s : Server) (verify : Verify) (rt : RoutingTable) (target : Id) (v k : Bytes)
    (seq : Int) (sig : Bytes) (salt : Option Bytes) (cas : Option Int) (r : Response)
    (h : (s.putMutableStore verify rt target v k seq sig salt cas).2 = .response r) : r = .ping rt.id := by
  unfold Server.putMutableStore at h
  split at h
  · cases h
  · split at h
    · cases h
    · split at h
      · cases h
      · simp only [Reply.response.injEq] at h; exact h.symm

/-- the only response to a put is the acknowledgement -/
theorem handlePut_reply (s : Server) (verify : Verify) (rt : RoutingTable) (src : Addr) (wall : Nat) (rid : Id)
    (token : Bytes) (spec : PutSpec) (r : Response)
    (h : (s.handlePut verify rt src wall rid token spec).2 = .response r) : r = .ping rt.id := by
  unfold Server.handlePut at h
  split at h
  · split at h
    · cases h
    · simp only [Reply.response.injEq] at h; exact h.symm
  · split at h
    · cases h
    · split at h
      · cases h
      · split at h
        · cases h
        · simp only [Reply.response.injEq] at h; exact h.symm
  · split at h
    · cases h
    · split at h
      · cases h
      · split at h
        · cases h
        · simp only [Reply.response.injEq] at h; exact h.symm
  · split at h
    · cases h
    · split at h
      · cases h
      · split at h
        · cases h
        · split at h
          · cases h
          · exact putMutableStore_reply _ _ _ _ _ _ _ _ _ _ _ h

/-- **Whatever the model server answers respects the limits** -/
theorem server_reply_sized (s : Server) (verify : Verify) (allow : Allow) (rt srt : RoutingTable) (src : Addr)
    (now wall : Nat) (req : Request) (r : Response) (hs : StoreSized s) (ht : Typed s rt srt)
    (h : (s.handleRequest verify allow rt srt src now wall req).2 = some (.response r)) : RespSized r := by
  unfold Server.handleRequest at h
  split at h
  · cases h
  · -- the rotation of the token secrets touches no store
    generalize hs' : (if s.tokens.shouldUpdate now = true then
        ({ s with tokens := (s.tokens.rotate s.rng now).1, rng := (s.tokens.rotate s.rng now).2 } : Server) else s) = s' at h
    have e1 : s'.immutable = s.immutable := by rw [← hs']; split <;> rfl
    have e2 : s'.mutable = s.mutable := by rw [← hs']; split <;> rfl
    have e3 : s'.signedPeers = s.signedPeers := by rw [← hs']; split <;> rfl
    have hitem : ∀ (t : Id) (i : StoredItem), (s'.mutable.get t).2 = some i →
        i.value.length ≤ Constants.MAX_VALUE_LEN ∧ i.key.length = 32 ∧ i.sig.length = 64 ∧ inI64 i.seq := by
      intro t i hi
      rw [e2, Lru.get_snd] at hi
      have hm := Lru.find?_mem _ _ _ hi
      obtain ⟨a, b, c⟩ := ht.items _ hm
      exact ⟨hs.2 _ hm, a, b, c⟩
    simp only at h
    split at h
    · -- ping
      simp only [Option.some.injEq, Reply.response.injEq] at h
      subst h; exact ht.rtId
    · -- find_node
      rename_i target _
      simp only [Option.some.injEq, Reply.response.injEq] at h
      subst h
      refine ⟨ht.rtId, ?_⟩
      have c1 := closest_nodesOk srt target ht.srtNodes
      have c2 := closest_nodesOk rt target ht.rtNodes
      split
      · refine ⟨?_, ?_⟩
        · simp only [List.length_append, List.length_take]
          have := c1.1; omega
        · intro n hn
          rcases List.mem_append.1 hn with e | e
          · exact c1.2 n e
          · exact c2.2 n ((List.take_subset _ _) e)
      · exact c1
    · -- get_peers
      rename_i ih _
      split at h
      · simp only [Option.some.injEq, Reply.response.injEq] at h
        subst h
        exact ⟨ht.rtId, generate_tokOk _ _, (randomSubset_spec Constants.PEERS_SAMPLE (by decide) _ _).1,
          closest_nodesOk rt ih ht.rtNodes⟩
      · simp only [Option.some.injEq, Reply.response.injEq] at h
        subst h
        exact ⟨ht.rtId, generate_tokOk _ _, closest_nodesOk rt ih ht.rtNodes⟩
    · -- get_signed_peers
      rename_i ih _
      split at h
      · rename_i outer inner hg
        simp only [Option.some.injEq, Reply.response.injEq] at h
        subst h
        have hin : (s'.signedPeers.get ih).2 = some inner := by rw [hg]
        rw [e3, Lru.get_snd] at hin
        have hm := Lru.find?_mem _ _ _ hin
        obtain ⟨hl, hmem⟩ := randomSubset_spec Constants.SIGNED_PEERS_SAMPLE (by decide) (inner.iter.map (·.2)) s'.rng
        refine ⟨ht.srtId, generate_tokOk _ _, hl, ?_, closest_nodesOk srt ih ht.srtNodes⟩
        intro p hp
        have := hmem p hp
        rw [List.mem_map] at this
        obtain ⟨q, hq, rfl⟩ := this
        exact ht.signed _ hm q hq
      · simp only [Option.some.injEq, Reply.response.injEq] at h
        subst h
        exact ⟨ht.srtId, generate_tokOk _ _, closest_nodesOk srt ih ht.srtNodes⟩
    · -- get
      rename_i target seq salt _
      split at h
      · simp only [Server.handleGetMutable, Option.some.injEq, Reply.response.injEq] at h
        subst h
        exact getMutableResponse_sized rt _ target _ _ ht.rtId ht.rtNodes (generate_tokOk _ _) (hitem target)
      · split at h
        · rename_i im v hg
          simp only [Option.some.injEq, Reply.response.injEq] at h
          subst h
          have hin : (s'.immutable.get target).2 = some v := by rw [hg]
          rw [e1, Lru.get_snd] at hin
          have hm := Lru.find?_mem _ _ _ hin
          exact ⟨ht.rtId, generate_tokOk _ _, closest_nodesOk rt target ht.rtNodes, hs.1 _ hm⟩
        · simp only [Server.handleGetMutable, Option.some.injEq, Reply.response.injEq] at h
          subst h
          exact getMutableResponse_sized rt _ target _ _ ht.rtId ht.rtNodes (generate_tokOk _ _) (hitem target)
    · -- put: the only response is the acknowledgement
      rename_i token spec _
      simp only [Option.some.injEq] at h
      have := handlePut_reply s' verify rt src wall req.requesterId token spec r (by
        generalize s'.handlePut verify rt src wall req.requesterId token spec = x at h
        exact h)
      rw [this]; exact ht.rtId


/-! ### the store invariant -/

theorem putMutableStore_sized (s : Server) (verify : Verify) (rt : RoutingTable) (target : Id) (v k : Bytes)
    (seq : Int) (sig : Bytes) (salt : Option Bytes) (cas : Option Int) (hs : StoreSized s)
    (hv : v.length ≤ Constants.MAX_VALUE_LEN) : StoreSized (s.putMutableStore verify rt target v k seq sig salt cas).1 := by
  have hget : ∀ p ∈ (s.mutable.get target).1.items, p.2.value.length ≤ Constants.MAX_VALUE_LEN :=
    fun p hp => hs.2 p (Lru.get_mem _ _ p hp)
  unfold Server.putMutableStore
  split
  · exact ⟨hs.1, hget⟩
  · split
    · exact ⟨hs.1, hget⟩
    · split
      · exact ⟨hs.1, hget⟩
      · refine ⟨hs.1, ?_⟩
        intro p hp
        rcases Lru.put_mem _ _ _ p hp with e | e
        · rw [e]; exact hv
        · exact hget p e

theorem handlePut_sized (s : Server) (verify : Verify) (rt : RoutingTable) (src : Addr) (wall : Nat) (rid : Id)
    (token : Bytes) (spec : PutSpec) (hs : StoreSized s) : StoreSized (s.handlePut verify rt src wall rid token spec).1 := by
  unfold Server.handlePut
  split
  · split
    · exact hs
    · unfold Server.addPeer; split <;> exact hs
  · split
    · exact hs
    · split
      · exact hs
      · split
        · exact hs
        · unfold Server.addSignedPeer; split <;> exact hs
  · split
    · exact hs
    · split
      · exact hs
      · split
        · exact hs
        · rename_i hlen _
          refine ⟨?_, hs.2⟩
          intro p hp
          rcases Lru.put_mem _ _ _ p hp with e | e
          · rw [e]; simp only; simp only [gt_iff_lt, Nat.not_lt] at hlen; exact hlen
          · exact hs.1 p e
  · split
    · exact hs
    · split
      · exact hs
      · split
        · exact hs
        · split
          · exact hs
          · rename_i hlen _ _
            exact putMutableStore_sized _ _ _ _ _ _ _ _ _ _ hs (by simp only [gt_iff_lt, Nat.not_lt] at hlen; exact hlen)

/-- **The store invariant holds after every request**, valid or not, authorised or not -/
theorem handleRequest_sized (s : Server) (verify : Verify) (allow : Allow) (rt srt : RoutingTable) (src : Addr)
    (now wall : Nat) (req : Request) (hs : StoreSized s) :
    StoreSized (s.handleRequest verify allow rt srt src now wall req).1 := by
  unfold Server.handleRequest
  split
  · exact hs
  · generalize hs' : (if s.tokens.shouldUpdate now = true then
        ({ s with tokens := (s.tokens.rotate s.rng now).1, rng := (s.tokens.rotate s.rng now).2 } : Server) else s) = s'
    have hs2 : StoreSized s' := by rw [← hs']; split <;> exact hs
    have hgm : ∀ t seq, StoreSized (s'.handleGetMutable rt src t seq).1 := by
      intro t seq
      exact ⟨hs2.1, fun p hp => hs2.2 p (Lru.get_mem _ _ p hp)⟩
    simp only
    split
    · exact hs2
    · exact hs2
    · split <;> exact hs2
    · split <;> exact hs2
    · rename_i t sq sl _
      split
      · rename_i rs _
        exact hgm t (some rs)
      · split
        · exact ⟨fun p hp => hs2.1 p (by rename_i im v hg; have := Lru.get_mem s'.immutable _ p (by rw [hg]; exact hp); exact this), hs2.2⟩
        · exact hgm t none
    · exact handlePut_sized _ _ _ _ _ _ _ _ hs2

theorem fresh_sized (a b c d : Nat) (rng : UInt64) (now : Nat) : StoreSized (Server.new a b c d rng now) := by
  constructor <;> (intro p hp; simp [Server.new] at hp)

/-- every state a server reaches from a fresh one through any requests whatsoever -/
theorem reachable_sized (a b c d : Nat) (rng : UInt64) (now0 : Nat) (verify : Verify) (allow : Allow)
    (reqs : List (RoutingTable × RoutingTable × Addr × Nat × Nat × Request)) :
    StoreSized (reqs.foldl (fun s x => (s.handleRequest verify allow x.1 x.2.1 x.2.2.1 x.2.2.2.1 x.2.2.2.2.1 x.2.2.2.2.2).1)
      (Server.new a b c d rng now0)) := by
  generalize hs0 : Server.new a b c d rng now0 = s0
  have h0 : StoreSized s0 := by rw [← hs0]; exact fresh_sized a b c d rng now0
  clear hs0
  induction reqs generalizing s0 with
  | nil => exact h0
  | cons x r ih => simp only [List.foldl_cons]; exact ih _ (handleRequest_sized _ _ _ _ _ _ _ _ _ h0)

/-! ### composition -/

/-- **Every answer of the model server fits the receive buffer of the requester.** -/
theorem server_reply_fits_mtu (s : Server) (verify : Verify) (allow : Allow) (rt srt : RoutingTable) (src : Addr)
    (now wall : Nat) (req : Request) (r : Response) (hs : StoreSized s) (ht : Typed s rt srt)
    (h : (s.handleRequest verify allow rt srt src now wall req).2 = some (.response r))
    (tid : UInt32) (version : Option Bytes) (ro : Bool) (hv : ∀ v, version = some v → v.length = 4) :
    (Krpc.toBytes ⟨tid, version, some src, .response r, ro⟩).length ≤ Constants.MTU := by
  obtain ⟨h1, h2⟩ := response_fits_mtu tid version (some src) r ro hv
    (server_reply_sized s verify allow rt srt src now wall req r hs ht h)
  exact Nat.le_trans h1 h2

/-! ### the bound is not idle: one Ethernet frame would not do -/

theorem encBytes_length_ge (b : Bytes) : b.length ≤ (encBytes b).length := by
  rw [encBytes_length_eq]; omega

/-- a sized answer — a 1000-byte mutable item with 20 closer nodes — that is longer than 1500 bytes -/
theorem mtu_needed :
    ∃ r, RespSized r ∧ 1500 < (Krpc.toBytes ⟨0, none, none, .response r, false⟩).length := by
  let node : Node := { id := ⟨List.replicate 20 1⟩, addr := ⟨0, 1⟩ }
  let ns : List Node := List.replicate 20 node
  refine ⟨.getMutable ⟨List.replicate 20 7⟩ [1, 2, 3, 4] (some ns) (List.replicate 1000 0) (List.replicate 32 5) 1
    (List.replicate 64 6), ?_, ?_⟩
  · refine ⟨by simp [idOk], by simp [TokOk], ⟨by simp [ns], ?_⟩, by rw [List.length_replicate]; decide, by simp, by unfold inI64; omega, by simp⟩
    intro n hn
    have : n = node := by simpa [ns] using hn
    rw [this]; simp [idOk, node]
  · have hn : ∀ n ∈ ns, idOk n.id := by
      intro n hn
      have : n = node := by simpa [ns] using hn
      rw [this]; simp [idOk, node]
    have h1 := nodesBytes_length ns hn
    have h2 := encBytes_length_ge (nodesBytes ns)
    have h3 := encBytes_length_ge (List.replicate 1000 (0 : UInt8))
    have hl : ns.length = 20 := by simp [ns]
    unfold Krpc.toBytes toBVal
    simp only [encode_dict_length, dsize_append, dsize_cons, dsize_nil, responseArgs, optNodes, optEntry,
      Option.map_some, Option.map_none, encode_bytes_length, List.length_replicate] at *
    omega


/-! ### … and is decoded by the requester as it was sent -/

theorem okLen_small (b : Bytes) (n : Nat) (h : b.length ≤ n) (hn : n < 18446744073709551616) : okLen b := by
  unfold okLen; omega

theorem respSized_wf (r : Response) (h : RespSized r) : C10.WFresp r ∧ C10.SizedResp r := by
  have hn : ∀ ns, OptNodesOk ns → C10.WFnodes ns ∧ C10.SizedNodes ns := by
    intro ns hns
    refine ⟨?_, ?_⟩
    · intro l hl n hn; subst hl; exact hns.2 n hn
    · intro l hl; subst hl
      have := nodesBytes_length l hns.2
      have hk : l.length ≤ 20 := hns.1
      exact okLen_small _ 520 (by omega) (by decide)
  have htok : ∀ t, TokOk t → okLen t := fun t ht => okLen_small t 9 ht (by decide)
  have hval : ∀ v : Bytes, v.length ≤ Constants.MAX_VALUE_LEN → okLen v := fun v hv => okLen_small v 1000 hv (by decide)
  cases r with
  | ping i => exact ⟨h, trivial⟩
  | findNode i ns =>
    refine ⟨⟨h.1, h.2.2⟩, ?_⟩
    have := nodesBytes_length ns h.2.2
    have hk : ns.length ≤ 20 := h.2.1
    exact okLen_small _ 520 (by omega) (by decide)
  | getPeers i tok vals ns =>
    obtain ⟨h1, h2, _, h4⟩ := h
    exact ⟨⟨h1, (hn ns h4).1⟩, htok tok h2, (hn ns h4).2⟩
  | getSignedPeers i tok ps ns =>
    obtain ⟨h1, h2, _, h4, h5⟩ := h
    exact ⟨⟨h1, (hn ns h5).1, h4⟩, htok tok h2, (hn ns h5).2⟩
  | getImmutable i tok ns v =>
    obtain ⟨h1, h2, h3, h4⟩ := h
    exact ⟨⟨h1, (hn ns h3).1⟩, htok tok h2, (hn ns h3).2, hval v h4⟩
  | getMutable i tok ns v k seq sig =>
    obtain ⟨h1, h2, h3, h4, h5, h6, h7⟩ := h
    exact ⟨⟨h1, (hn ns h3).1, h5, h7, h6⟩, htok tok h2, (hn ns h3).2, hval v h4⟩
  | noValues i tok ns =>
    obtain ⟨h1, h2, h3⟩ := h
    exact ⟨⟨h1, (hn ns h3).1⟩, htok tok h2, (hn ns h3).2⟩
  | noMoreRecentValue i tok ns seq =>
    obtain ⟨h1, h2, h3, h4⟩ := h
    exact ⟨⟨h1, (hn ns h3).1, h4⟩, htok tok h2, (hn ns h3).2⟩

/-- **What the server answered is what the requester's socket hands to its node**: the datagram is not
    cut by the receive buffer and decodes to the message that was sent (up to `norm`, which forgets what
    is not on the wire: tokens and last-seen times of listed nodes). -/
theorem server_reply_received_intact (s : Server) (verify : Verify) (allow : Allow) (rt srt : RoutingTable) (src : Addr)
    (now wall : Nat) (req : Request) (r : Response) (hs : StoreSized s) (ht : Typed s rt srt)
    (h : (s.handleRequest verify allow rt srt src now wall req).2 = some (.response r))
    (tid : UInt32) (version : Option Bytes) (ro : Bool) (hv : ∀ v, version = some v → v.length = 4) :
    Krpc.recvDatagram (Krpc.toBytes ⟨tid, version, some src, .response r, ro⟩)
      = .ok (some (C10.norm ⟨tid, version, some src, .response r, ro⟩)) := by
  have hsz := server_reply_sized s verify allow rt srt src now wall req r hs ht h
  have hfit := server_reply_fits_mtu s verify allow rt srt src now wall req r hs ht h tid version ro hv
  obtain ⟨hwf, hsized⟩ := respSized_wf r hsz
  unfold Krpc.recvDatagram
  rw [List.take_of_length_le hfit]
  exact C10.decode_encode _ ⟨hv, hwf⟩ hsized

/-- the receive buffer does cut longer datagrams: nothing longer than MTU bytes reaches the decoder -/
theorem recvDatagram_ignores_tail (bs tail : Bytes) (h : Constants.MTU ≤ bs.length) :
    Krpc.recvDatagram (bs ++ tail) = Krpc.recvDatagram bs := by
  unfold Krpc.recvDatagram
  rw [List.take_append_of_le_length h]


/-! ### the array types are kept by the server too -/

/-- the array types of a put request (`[u8; 32]` key, `[u8; 64]` signature, `i64` seq, `u64` timestamp) -/
def ReqTyped (req : Request) : Prop :=
  match req.rtype with
  | .put _ (.putMutable _ _ k seq sig _ _) => k.length = 32 ∧ sig.length = 64 ∧ inI64 seq
  | .put _ (.announceSignedPeer _ t k sig) => okPeer ⟨k, t, sig⟩
  | _ => True

theorem addSignedPeer_signed (s : Server) (ih : Id) (p : SignedPeer) (hp : SpOk p)
    (h : ∀ x ∈ s.signedPeers.items, ∀ q ∈ x.2.items, SpOk q.2) :
    ∀ x ∈ (s.addSignedPeer ih p).signedPeers.items, ∀ q ∈ x.2.items, SpOk q.2 := by
  unfold Server.addSignedPeer
  split
  · rename_i outer inner hg
    have hin : (s.signedPeers.get ih).2 = some inner := by rw [hg]
    rw [Lru.get_snd] at hin
    have hm := Lru.find?_mem _ _ _ hin
    have hout : ∀ x ∈ outer.items, x ∈ s.signedPeers.items := by
      intro x hx
      have : outer = (s.signedPeers.get ih).1 := by rw [hg]
      rw [this] at hx
      exact Lru.get_mem _ _ x hx
    intro x hx q hq
    simp only at hx
    rcases List.mem_cons.1 hx with e | e
    · rw [e] at hq
      simp only at hq
      rcases Lru.put_mem _ _ _ q hq with e2 | e2
      · rw [e2]; exact hp
      · exact h _ hm q e2
    · exact h x (hout x (List.drop_subset _ _ e)) q hq
  · intro x hx q hq
    simp only at hx
    rcases Lru.put_mem _ _ _ x hx with e | e
    · rw [e] at hq
      simp only at hq
      rcases Lru.put_mem _ _ _ q hq with e2 | e2
      · rw [e2]; exact hp
      · cases e2
    · exact h x e q hq

theorem handlePut_typed (s : Server) (verify : Verify) (rt srt : RoutingTable) (src : Addr) (wall : Nat) (rid : Id)
    (token : Bytes) (spec : PutSpec) (ht : Typed s rt srt)
    (hr : ReqTyped ⟨rid, .put token spec⟩) : Typed (s.handlePut verify rt src wall rid token spec).1 rt srt := by
  have same : ∀ s' : Server, s'.mutable = s.mutable → s'.signedPeers = s.signedPeers → Typed s' rt srt :=
    fun s' e1 e2 => ⟨ht.rtId, ht.srtId, ht.rtNodes, ht.srtNodes, by rw [e1]; exact ht.items, by rw [e2]; exact ht.signed⟩
  unfold Server.handlePut
  split
  · split
    · exact ht
    · exact same _ (by unfold Server.addPeer; split <;> rfl) (by unfold Server.addPeer; split <;> rfl)
  · split
    · exact ht
    · split
      · exact ht
      · split
        · exact ht
        · rename_i ih t k sig _ _ _
          refine ⟨ht.rtId, ht.srtId, ht.rtNodes, ht.srtNodes, ?_, addSignedPeer_signed s ih ⟨k, t, sig⟩ hr ht.signed⟩
          have : (s.addSignedPeer ih ⟨k, t, sig⟩).mutable = s.mutable := by unfold Server.addSignedPeer; split <;> rfl
          rw [this]; exact ht.items
  · split
    · exact ht
    · split
      · exact ht
      · split
        · exact ht
        · exact same _ rfl rfl
  · split
    · exact ht
    · split
      · exact ht
      · split
        · exact ht
        · split
          · exact ht
          · rename_i target v k seq sig salt cas _ _ _ _
            have hget : ∀ p ∈ (s.mutable.get target).1.items, p.2.key.length = 32 ∧ p.2.sig.length = 64 ∧ inI64 p.2.seq :=
              fun p hp => ht.items p (Lru.get_mem _ _ p hp)
            unfold Server.putMutableStore
            split
            · exact ⟨ht.rtId, ht.srtId, ht.rtNodes, ht.srtNodes, hget, ht.signed⟩
            · split
              · exact ⟨ht.rtId, ht.srtId, ht.rtNodes, ht.srtNodes, hget, ht.signed⟩
              · split
                · exact ⟨ht.rtId, ht.srtId, ht.rtNodes, ht.srtNodes, hget, ht.signed⟩
                · refine ⟨ht.rtId, ht.srtId, ht.rtNodes, ht.srtNodes, ?_, ht.signed⟩
                  intro p hp
                  rcases Lru.put_mem _ _ _ p hp with e | e
                  · rw [e]; exact hr
                  · exact hget p e

/-- the array types are an invariant of the server for requests that have them -/
theorem handleRequest_typed (s : Server) (verify : Verify) (allow : Allow) (rt srt : RoutingTable) (src : Addr)
    (now wall : Nat) (req : Request) (ht : Typed s rt srt) (hr : ReqTyped req) :
    Typed (s.handleRequest verify allow rt srt src now wall req).1 rt srt := by
  have same : ∀ s0 s' : Server, Typed s0 rt srt → s'.mutable = s0.mutable → s'.signedPeers = s0.signedPeers → Typed s' rt srt :=
    fun s0 s' h0 e1 e2 => ⟨h0.rtId, h0.srtId, h0.rtNodes, h0.srtNodes, by rw [e1]; exact h0.items, by rw [e2]; exact h0.signed⟩
  unfold Server.handleRequest
  split
  · exact ht
  · generalize hs' : (if s.tokens.shouldUpdate now = true then
        ({ s with tokens := (s.tokens.rotate s.rng now).1, rng := (s.tokens.rotate s.rng now).2 } : Server) else s) = s'
    have ht2 : Typed s' rt srt := by rw [← hs']; split; exact same s _ ht rfl rfl; exact ht
    have hgm : ∀ t seq, Typed (s'.handleGetMutable rt src t seq).1 rt srt := by
      intro t seq
      exact ⟨ht2.rtId, ht2.srtId, ht2.rtNodes, ht2.srtNodes, fun p hp => ht2.items p (Lru.get_mem _ _ p hp), ht2.signed⟩
    simp only
    split
    · exact ht2
    · exact ht2
    · split
      · exact same s' _ ht2 rfl rfl
      · exact ht2
    · rename_i ih _
      split
      · rename_i outer inner hg
        refine ⟨ht2.rtId, ht2.srtId, ht2.rtNodes, ht2.srtNodes, ht2.items, ?_⟩
        intro x hx
        have : outer = (s'.signedPeers.get ih).1 := by rw [hg]
        simp only at hx
        rw [this] at hx
        exact ht2.signed x (Lru.get_mem _ _ x hx)
      · exact ht2
    · rename_i t sq sl _
      split
      · rename_i rs _
        exact hgm t (some rs)
      · split
        · exact same s' _ ht2 rfl rfl
        · exact hgm t none
    · rename_i token spec heq
      have hr' : ReqTyped ⟨req.requesterId, .put token spec⟩ := by
        unfold ReqTyped at hr ⊢
        rw [heq] at hr
        exact hr
      exact handlePut_typed s' verify rt srt src wall req.requesterId token spec ht2 hr'

/-- the hypotheses are satisfiable: a fresh server between two empty tables under a 20-byte id -/
example : StoreSized (Server.new 0 0 0 0 1 0) ∧
    Typed (Server.new 0 0 0 0 1 0) { id := ⟨List.replicate 20 3⟩ } { id := ⟨List.replicate 20 3⟩ } := by
  refine ⟨fresh_sized 0 0 0 0 1 0, ⟨by simp [idOk], by simp [idOk], ?_, ?_, ?_, ?_⟩⟩
  · intro e he; simp [RoutingTable.entries] at he
  · intro e he; simp [RoutingTable.entries] at he
  · intro p hp; simp [Server.new] at hp
  · intro p hp; simp [Server.new] at hp

end Mainline.Props.C01
