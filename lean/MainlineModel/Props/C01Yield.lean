/-
  C01, the reader's last step, for the whole node — an answer carrying the value is handed to the callers.

  `node_yields_served_immutable`: in any state of a node that has a lookup registered for `target`, one
  of whose requests (by transaction id) the socket still attributes to the sender, a `getImmutable`
  answer from that sender carrying a value that hashes to `target` makes the iteration that receives it
  hand `v` to every `get_immutable` caller parked under `target` — whatever else the answer lists,
  whatever API call is picked up in the same iteration.  This is the converse of C02's "nothing
  inauthentic is yielded": everything authentic that arrives for a running lookup IS yielded.
  Together with `C08Held.node_ack_means_held` and `C01Served.node_serves_held_immutable` these are the
  three node-level links of "put Ok ⇒ get returns the value"; the network in between delivers datagrams.
-/
import MainlineModel.Props.C02Events
namespace Mainline.Props.C01Yield
open Mainline Mainline.Actor Mainline.Props.C02

theorem pickup_prefix (b : Actor) (env : Env) (msg : Option ApiMsg) : ∃ l, (b.pickup env msg).events = b.events ++ l := by
  unfold pickup
  split
  · exact ⟨[], by simp⟩
  · exact ⟨[], by simp⟩
  · exact ⟨_, rfl⟩
  · unfold pickupPut
    split
    · exact ⟨[], by simp [parkPutCaller, put_events]⟩
    · exact ⟨_, by simp only; rw [put_events]⟩
  · unfold pickupGet
    exact ⟨_, by simp only [parkGetCaller]; rw [get_events]⟩

/-- events are only ever appended in the rest of the iteration -/
theorem rest_prefix (a : Actor) (env : Env) (dgram : Option (Message × Addr)) (msg : Option ApiMsg) :
    ∃ l, (a.step env dgram msg).events = (a.preDone env dgram).events ++ l := by
  obtain ⟨l1, e1, _⟩ := rest_plain (a.preDone env dgram) env.now ((a.preDone env dgram).checkDonePuts env.now)
  obtain ⟨l2, e2⟩ := pickup_prefix (finishTick ((a.preDone env dgram).visitClosestAll env.now) env.now
    ((a.preDone env dgram).checkDonePuts env.now)) env msg
  refine ⟨l1 ++ l2, ?_⟩
  unfold Actor.step afterRecv
  simp only
  rw [maintenance_events, e2, e1, List.append_assoc]

theorem recvPhase_senders (a : Actor) (now : Nat) (dgram : Option (Message × Addr)) :
    (a.recvPhase now dgram).1.getSenders = a.getSenders ∧ (a.recvPhase now dgram).1.events = a.events ∧
    (a.recvPhase now dgram).1.core = a.core := by
  unfold recvPhase
  split
  · exact ⟨rfl, rfl, rfl⟩
  · exact ⟨rfl, rfl, rfl⟩

/-- **An authentic answer to a running lookup is handed to its callers.** -/
theorem node_yields_served_immutable (a : Actor) (env : Env) (m : Message) (src : Addr) (target : Id) (q : IterQuery)
    (senders : List Sender) (c : Nat) (i : Id) (tok : Bytes) (ns : Option (List Node)) (v : Bytes) (msg : Option ApiMsg)
    (hacc : (a.recvPhase env.now (some (m, src))).2 = some (m, src))
    (hro : m.readOnly = false)
    (hm : m.mtype = .response (.getImmutable i tok ns v))
    (hput : a.core.puts.find? (fun p => p.2.q.isInflight m.tid.toNat) = none)
    (hq : a.core.iter.find? (fun p => p.2.isInflight m.tid.toNat) = some (target, q))
    (htq : q.target = target) (hhash : hashImmutable v = target.bytes)
    (hs : alGet a.getSenders target = some senders) (hc : Sender.immutable c ∈ senders) :
    Event.value c (.immutable v) ∈ (a.step env (some (m, src)) msg).events := by
  obtain ⟨l, hl⟩ := rest_prefix a env (some (m, src)) msg
  rw [hl]
  apply List.mem_append_left
  unfold preDone
  obtain ⟨rs, _, rc⟩ := recvPhase_senders a env.now (some (m, src))
  rw [hacc]
  generalize (a.recvPhase env.now (some (m, src))).1 = a1 at rs rc
  -- the lookup produces the value
  have hval : (lookupStep q env src m).2.1 = some (.immutable v) := by
    unfold lookupStep
    have hqv : queryValue env.verify (absorb q env.now src m) m.mtype = (some (.immutable v), true) := by
      rw [hm]
      have ht := (absorb_fields q env.now src m).1
      simp [queryValue, ht, htq, hhash]
    rw [hqv]
  have hresp : (handleResponse a1.core env src m).2 = some (target, .immutable v) := by
    unfold handleResponse
    rw [rc]
    simp only [hro, Bool.false_eq_true, ite_false, hput, hq]
    split <;> simp [hval]
  unfold handleIncoming
  simp only [hm]
  unfold forwardValue
  simp only [hresp]
  have hsend : alGet a1.getSenders target = some senders := by rw [rs]; exact hs
  simp only [hsend]
  apply List.mem_append_right
  rw [List.mem_filterMap]
  exact ⟨.immutable c, hc, rfl⟩

end Mainline.Props.C01Yield
