/-
  C05 — No datagram can crash a node or an API caller.

  * `decode_never_panics`: for **every** byte string (no length bound) the model of
    `Message::from_bytes` returns `ok` — a decoded message or a decode error — never `panic`; the
    slicing operations of `messages.rs` are explicit partial operations in the model, so this is a
    statement about the guards in front of them, not a definition.
  * `inventory_classified`: T1 obligation — the inventory of potential panic sites extracted from
    the working tree (`Gen/PanicSites.lean`) equals, site by site, the list classified below.  A new,
    removed or moved `expect` / `unwrap` / `unreachable!` / slice / narrow-integer site breaks it.
  * `server_total`: the server model answers every request from every state (the sampling loop's
    slice is within its 4·len-byte chunk).
  Classes: modelled (a theorem covers it) · unreachable (by construction, one-line reason) ·
  external (OS clock / random source) · api-misuse (local caller passes an IPv6 address) ·
  actor-death (only after an actor panic) · modelled-later (counters of C20).
-/
import MainlineModel.Lemmas.KrpcLemmas
import MainlineModel.Gen.PanicSites
import MainlineModel.Gen.FacadeTwins
import MainlineModel.Model.Server
namespace Mainline.Props.C05
open Mainline Mainline.Krpc

/-- **decoding never panics**, whatever the bytes -/
theorem decode_never_panics (bs : Bytes) : ∃ r, fromBytes bs = .ok r := fromBytes_isOk bs

theorem decode_not_panic (bs : Bytes) (s : String) : fromBytes bs ≠ .panic s := by
  obtain ⟨r, h⟩ := decode_never_panics bs
  rw [h]; intro hc; cases hc

/-- every record conversion is total -/
theorem conversions_never_panic (bs : Bytes) :
    (∃ r, bytesToSockaddr bs = .ok r) ∧ (∃ r, bytesToNodes bs = .ok r) ∧ (∃ r, bytesToSignedPeer bs = .ok r) :=
  ⟨bytesToSockaddr_isOk bs, bytesToNodes_isOk bs, bytesToSignedPeer_isOk bs⟩

/-- the sampling loop only reads `chunk[index .. index+4]` with `index + 4 ≤ 4·len` -/
theorem sampling_slice_in_range (len index : Nat) (h : index < len) : index + 4 ≤ len * 4 := by omega

/-- site, class, justification -/
def classified : List (String × String × String) := [
  ("src/actor.rs::start_put_queries::expect#1", "unreachable", "find() over the very slice being iterated: the key is there"),
  ("src/actor/socket.rs::new::unimplemented#1", "unreachable", "a socket bound to 0.0.0.0 has an IPv4 local address"),
  ("src/actor/socket.rs::recv_from::slice#1", "unreachable", "&buf[..amt], amt <= MTU was returned by recv_from into that buffer"),
  ("src/common/closest_nodes.rs::take_until_secure::slice#1", "modelled", "ClosestNodes.takeUntilSecure: upper bound is min(.., len) (C11.takeUntilSecure_prefix)"),
  ("src/common/closest_nodes.rs::subnets_count::castu8#1", "unreachable", "at most 20 distinct subnets are counted"),
  ("src/common/closest_nodes.rs::subnet::castu8#1", "unreachable", "value masked to 6 bits"),
  ("src/common/closest_nodes.rs::distance::expect#1", "unreachable", "[0..16] of a 20-byte id"),
  ("src/common/closest_nodes.rs::distance::slice#1", "unreachable", "[0..16] of a 20-byte id"),
  ("src/common/id.rs::random::expect#1", "external", "OS random source failure"),
  ("src/common/id.rs::from_bytes::slice#1", "modelled", "Id.fromBytes: length checked to be 20 first (C19.fromBytes_ok_iff)"),
  ("src/common/id.rs::from_bytes::slice#2", "modelled", "Id.fromBytes: length checked to be 20 first (C19.fromBytes_ok_iff)"),
  ("src/common/id.rs::leading_zeros::castu8#1", "modelled", "Id.leadingZerosFrom: the cast is % 256, exact for 20 bytes (C19.leadingZeros_le_160)"),
  ("src/common/id.rs::xor::index#1", "unreachable", "index from enumerate() over a 20-byte array into a 20-byte array"),
  ("src/common/id.rs::from_ip::unimplemented#1", "api-misuse", "IPv6 address passed by the local caller; all network addresses are SocketAddrV4"),
  ("src/common/id.rs::from_ipv4::expect#1", "external", "OS random source failure / infallible conversion of a fixed-size slice"),
  ("src/common/id.rs::from_ipv4::slice#1", "unreachable", "[1..] of a 21-byte array"),
  ("src/common/id.rs::from_ipv4::expect#2", "external", "OS random source failure / infallible conversion of a fixed-size slice"),
  ("src/common/id.rs::from_ipv4::expect#3", "external", "OS random source failure / infallible conversion of a fixed-size slice"),
  ("src/common/id.rs::from_ipv4::slice#2", "unreachable", "[1..] of a 21-byte array"),
  ("src/common/id.rs::is_valid_for_ip::index#1", "unreachable", "constant index 19 into a 20-byte array"),
  ("src/common/id.rs::from_ipv4_and_r::index#1", "modelled", "Id.fromIpv4AndR on a 20-byte array (C19.fromIpv4AndR_valid)"),
  ("src/common/id.rs::id_prefix_ipv4::slice#1", "unreachable", "[..3] of a 4-byte array"),
  ("src/common/id.rs::id_prefix_ipv4::expect#1", "unreachable", "[..3] of a 4-byte array"),
  ("src/common/id.rs::hex_value::castu8#1", "unreachable", "to_digit(16) is below 16"),
  ("src/common/messages.rs::bytes_to_sockaddr::slice#1", "modelled", "Krpc.bytesToSockaddr (bytesToSockaddr_isOk)"),
  ("src/common/messages.rs::sockaddr_to_bytes::slice#1", "unreachable", "fixed ranges of a 6-byte array"),
  ("src/common/messages.rs::sockaddr_to_bytes::slice#2", "unreachable", "fixed ranges of a 6-byte array"),
  ("src/common/messages.rs::bytes_to_nodes4::slice#1", "modelled", "Krpc.bytesToNodesLoop (bytesToNodes_isOk)"),
  ("src/common/messages.rs::bytes_to_nodes4::slice#2", "modelled", "Krpc.bytesToNodesLoop (bytesToNodes_isOk)"),
  ("src/common/messages.rs::bytes_to_signed_peer::expect#1", "modelled", "Krpc.bytesToSignedPeer (bytesToSignedPeer_isOk); length check repaired by a fix: commit"),
  ("src/common/messages.rs::bytes_to_signed_peer::slice#1", "modelled", "Krpc.bytesToSignedPeer (bytesToSignedPeer_isOk); length check repaired by a fix: commit"),
  ("src/common/messages.rs::bytes_to_signed_peer::expect#2", "modelled", "Krpc.bytesToSignedPeer (bytesToSignedPeer_isOk); length check repaired by a fix: commit"),
  ("src/common/messages.rs::bytes_to_signed_peer::slice#2", "modelled", "Krpc.bytesToSignedPeer (bytesToSignedPeer_isOk); length check repaired by a fix: commit"),
  ("src/common/messages.rs::bytes_to_signed_peer::expect#3", "modelled", "Krpc.bytesToSignedPeer (bytesToSignedPeer_isOk); length check repaired by a fix: commit"),
  ("src/common/messages.rs::bytes_to_signed_peer::slice#3", "modelled", "Krpc.bytesToSignedPeer (bytesToSignedPeer_isOk); length check repaired by a fix: commit"),
  ("src/common/messages.rs::signed_peer_to_bytes::slice#1", "unreachable", "fixed ranges of a 104-byte array"),
  ("src/common/messages.rs::signed_peer_to_bytes::slice#2", "unreachable", "fixed ranges of a 104-byte array"),
  ("src/common/messages.rs::signed_peer_to_bytes::slice#3", "unreachable", "fixed ranges of a 104-byte array"),
  ("src/common/routing_table.rs::closest::slice#1", "modelled", "RoutingTable.closest: upper bound min(K, len)"),
  ("src/common/routing_table.rs::increment_responders_stats::narrow#1", "modelled-later", "usize counters (C20)"),
  ("src/common/routing_table.rs::increment_responders_stats::narrow#2", "modelled-later", "usize counters (C20)"),
  ("src/common/routing_table.rs::increment_dht_size_estimate::narrow#1", "modelled-later", "usize counters (C20)"),
  ("src/common/routing_table.rs::decrement_dht_size_estimate::narrow#1", "modelled-later", "usize counter decrement (C20: never underflows)"),
  ("src/common/routing_table.rs::decrement_responders_stats::narrow#1", "modelled-later", "usize counter decrements (C20: never underflow)"),
  ("src/common/routing_table.rs::decrement_responders_stats::narrow#2", "modelled-later", "usize counter decrements (C20: never underflow)"),
  ("src/common/routing_table.rs::next::narrow#1", "unreachable", "iterator indices bounded by the loop guard (<= 160)"),
  ("src/common/routing_table.rs::next::narrow#2", "unreachable", "iterator indices bounded by the loop guard (<= 160)"),
  ("src/common/routing_table.rs::next::narrow#3", "unreachable", "iterator indices bounded by the loop guard (<= 160)"),
  ("src/common/routing_table.rs::add::index#1", "modelled", "KBucket::add: index from position() / bucket known to be full (kbucketAdd_cases)"),
  ("src/common/signed_announce.rs::system_time::expect#1", "external", "system clock before the unix epoch"),
  ("src/core.rs::new::expect#1", "unreachable", "NonZeroUsize::new(1000)"),
  ("src/core.rs::supports_signed_peers::slice#1", "unreachable", "fixed ranges of 4-byte arrays"),
  ("src/core.rs::supports_signed_peers::slice#2", "unreachable", "fixed ranges of 4-byte arrays"),
  ("src/core.rs::supports_signed_peers::slice#3", "unreachable", "fixed ranges of 4-byte arrays"),
  ("src/core.rs::supports_signed_peers::slice#4", "unreachable", "fixed ranges of 4-byte arrays"),
  ("src/core/put_query.rs::success::narrow#1", "modelled", "PutQuery.success: usize tally after the fix (C08.stored_counts_acks, C08.tally_width)"),
  ("src/core/put_query.rs::error::index#1", "modelled", "PutQuery.error: usize tally; indices come from position() and the bubble loop keeps 0 < i (C08.tally_counts_errors)"),
  ("src/core/put_query.rs::error::narrow#1", "modelled", "PutQuery.error: usize tally; indices come from position() and the bubble loop keeps 0 < i (C08.tally_counts_errors)"),
  ("src/core/put_query.rs::error::index#2", "modelled", "PutQuery.error: usize tally; indices come from position() and the bubble loop keeps 0 < i (C08.tally_counts_errors)"),
  ("src/core/put_query.rs::error::index#3", "modelled", "PutQuery.error: usize tally; indices come from position() and the bubble loop keeps 0 < i (C08.tally_counts_errors)"),
  ("src/core/server.rs::new::expect#1", "unreachable", "NonZeroUsize::new of non-zero constants"),
  ("src/core/server.rs::new::expect#2", "unreachable", "NonZeroUsize::new of non-zero constants"),
  ("src/core/server.rs::new::expect#3", "unreachable", "NonZeroUsize::new of non-zero constants"),
  ("src/core/server.rs::new::expect#4", "unreachable", "NonZeroUsize::new of non-zero constants"),
  ("src/core/server.rs::new::expect#5", "unreachable", "NonZeroUsize::new of non-zero constants"),
  ("src/core/server.rs::new::expect#6", "unreachable", "NonZeroUsize::new of non-zero constants"),
  ("src/core/server/peers.rs::get_random_peers::expect#1", "modelled", "Server.sampleLoop: chunk has 4*len bytes and index + 4 <= 4*len"),
  ("src/core/server/peers.rs::get_random_peers::expect#2", "modelled", "Server.sampleLoop: chunk has 4*len bytes and index + 4 <= 4*len"),
  ("src/core/server/peers.rs::get_random_peers::slice#1", "modelled", "Server.sampleLoop: chunk has 4*len bytes and index + 4 <= 4*len"),
  ("src/core/server/signed_peers.rs::get_random_peers::expect#1", "modelled", "Server.sampleLoop"),
  ("src/core/server/signed_peers.rs::get_random_peers::expect#2", "modelled", "Server.sampleLoop"),
  ("src/core/server/signed_peers.rs::get_random_peers::slice#1", "modelled", "Server.sampleLoop"),
  ("src/core/server/tokens.rs::random::expect#1", "external", "OS random source failure"),
  ("src/dht.rs::new::expect#1", "actor-death", "the actor thread ended: only after an actor panic"),
  ("src/dht.rs::setup::expect#1", "actor-death", "as above"),
  ("src/dht.rs::info::expect#1", "actor-death", "as above"),
  ("src/dht.rs::to_bootstrap::expect#1", "actor-death", "as above"),
  ("src/dht.rs::find_node::expect#1", "actor-death", "as above"),
  ("src/dht.rs::announce_peer::unreachable#1", "api-misuse", "PutError::Concurrency for a non-mutable put: PutQuery::check never returns it (C08.non_mutable_never_concurrency) and check_concurrency_errors only applies to PutMutable; left: the local caller announces on an info_hash equal to the target of its own in-flight mutable put (callers are parked per target)"),
  ("src/dht.rs::announce_signed_peer::unreachable#1", "api-misuse", "as above (C08.non_mutable_never_concurrency)"),
  ("src/dht.rs::put_immutable::unreachable#1", "api-misuse", "as above (C08.non_mutable_never_concurrency)"),
  ("src/dht.rs::get_closest_nodes::expect#1", "actor-death", "as above"),
  ("src/dht.rs::put::expect#1", "actor-death", "as above"),
  ("src/dht.rs::send::expect#1", "actor-death", "as above"),
  ("src/dht/async_dht.rs::new::expect#1", "actor-death", "as dht.rs"),
  ("src/dht/async_dht.rs::info::expect#1", "actor-death", "as dht.rs"),
  ("src/dht/async_dht.rs::to_bootstrap::expect#1", "actor-death", "as dht.rs"),
  ("src/dht/async_dht.rs::find_node::expect#1", "actor-death", "as dht.rs"),
  ("src/dht/async_dht.rs::announce_peer::unreachable#1", "api-misuse", "as dht.rs (C08.non_mutable_never_concurrency)"),
  ("src/dht/async_dht.rs::announce_signed_peer::unreachable#1", "api-misuse", "as dht.rs (C08.non_mutable_never_concurrency)"),
  ("src/dht/async_dht.rs::put_immutable::unreachable#1", "api-misuse", "as dht.rs (C08.non_mutable_never_concurrency)"),
  ("src/dht/async_dht.rs::get_closest_nodes::expect#1", "actor-death", "as dht.rs"),
  ("src/dht/async_dht.rs::put::expect#1", "actor-death", "as dht.rs")
]

/-- T1: the panic-site inventory read from the source is exactly the classified list -/
theorem inventory_classified : PanicSites.inventory = classified.map (·.1) := by decide +kernel

/-- no site is left in a class that would make the property false -/
theorem no_open_remote_site : ∀ s ∈ classified, s.2.1 ≠ "remote-open" := by decide +kernel

/-! ### Non-vacuity (tests, labelled as tests) -/

/-- the datagram that used to kill a node (put with k but no seq) now decodes to an error -/
example : (match fromBytes ([100, 49, 58, 97, 100] ++ List.replicate 20 0) with | .ok none => true | _ => false) = true := by
  decide +kernel


/-- **T1 obligation — the two facades are twins.**  The correspondence streams drive the async facade
    (`AsyncDht`); the sync facade (`Dht`) is covered through this obligation: method by method its body
    equals the async one after normalisation (`.await`, `recv_async`, stream/iterator wrappers), as read
    from the working tree by `tools/facade_twins.py` on every run. -/
theorem facade_twins_agree : Mainline.Gen.facadeTwins.all (·.2) = true := by decide

end Mainline.Props.C05
