/-
  CapsNode.lean — C20, capacities, for the whole node: "stored peers, values … never exceed their
  configured capacities under any request history".

  `Caps`: every store of the node's server respects its capacity — the two value stores, the two
  per-info-hash stores, and every inner peer cache, whose capacity is the configured
  `max_peers_per_info_hash`.  `handleRequest_caps`: `Server::handle_request` keeps it for every request
  (LRU `put` evicts before it exceeds, `get` only reorders).  `reachable_caps`: it holds in every state a
  node reaches, through `StoreLift.reachable_store_invariant`.
-/
import MainlineModel.Props.StoreLift
namespace Mainline.Props.CapsNode
open Mainline Mainline.Actor Mainline.Props.StoreLift

/-- an LRU cache within its (positive) capacity -/
def Within {κ ν : Type} (c : Lru κ ν) : Prop := 1 ≤ c.cap ∧ c.len ≤ c.cap

structure Caps (s : Server) : Prop where
  imm : Within s.immutable
  mutv : Within s.mutable
  peers : Within s.peers
  speers : Within s.signedPeers
  maxp : 1 ≤ s.maxPeers
  inner : ∀ p ∈ s.peers.items, p.2.cap = s.maxPeers ∧ p.2.len ≤ p.2.cap
  sinner : ∀ p ∈ s.signedPeers.items, p.2.cap = s.maxPeers ∧ p.2.len ≤ p.2.cap

theorem caps_storesOnly : StoresOnly Caps := by
  intro s s' e1 e2 e3 e4 e5 h
  exact ⟨e3 ▸ h.imm, e4 ▸ h.mutv, e1 ▸ h.peers, e2 ▸ h.speers, e5 ▸ h.maxp,
    by rw [e1, e5]; exact h.inner, by rw [e2, e5]; exact h.sinner⟩

theorem within_get {κ ν : Type} [DecidableEq κ] (c : Lru κ ν) (k : κ) (h : Within c) : Within (c.get k).1 :=
  ⟨by rw [Lru.get_cap]; exact h.1, by rw [Lru.get_cap]; exact Nat.le_trans (Lru.get_len_le c k) h.2⟩

theorem within_put {κ ν : Type} [DecidableEq κ] (c : Lru κ ν) (k : κ) (v : ν) (h : Within c) : Within (c.put k v) :=
  ⟨by rw [Lru.put_cap]; exact h.1, by rw [Lru.put_cap]; exact Lru.put_len_le c k v h.1 h.2⟩

theorem fresh_inner {κ ν : Type} [DecidableEq κ] (cap : Nat) (hc : 1 ≤ cap) (k : κ) (v : ν) :
    (({ cap := cap } : Lru κ ν).put k v).cap = cap ∧ (({ cap := cap } : Lru κ ν).put k v).len ≤ (({ cap := cap } : Lru κ ν).put k v).cap := by
  have hw : Within ({ cap := cap } : Lru κ ν) := ⟨hc, by simp [Lru.len]⟩
  exact ⟨Lru.put_cap _ _ _, (within_put _ k v hw).2⟩

/-- the nested store of `add_peer`: the info hash's cache is promoted and updated in place, or created -/
theorem nested_add {κ ν : Type} [DecidableEq κ] (outer : Lru Id (Lru κ ν)) (mp : Nat) (hmp : 1 ≤ mp) (ih : Id) (k : κ) (v : ν)
    (hw : Within outer) (hin : ∀ p ∈ outer.items, p.2.cap = mp ∧ p.2.len ≤ p.2.cap) :
    let r : Lru Id (Lru κ ν) := match outer.get ih with
      | (o, some inner) => { o with items := (ih, inner.put k v) :: o.items.drop 1 }
      | (_, none) => outer.put ih (({ cap := mp } : Lru κ ν).put k v)
    Within r ∧ ∀ p ∈ r.items, p.2.cap = mp ∧ p.2.len ≤ p.2.cap := by
  simp only
  cases hg : outer.get ih with
  | mk o found =>
    cases found with
    | some inner =>
      simp only
      have ho : o = (outer.get ih).1 := by rw [hg]
      have hfind : (outer.get ih).2 = some inner := by rw [hg]
      rw [Lru.get_snd] at hfind
      have hmem := Lru.find?_mem _ _ _ hfind
      obtain ⟨hc, hl⟩ := hin _ hmem
      have hwo : Within o := by rw [ho]; exact within_get outer ih hw
      -- the promoted entry is at the head of `o`
      have hne : 1 ≤ o.items.length := by
        rw [ho]
        unfold Lru.get
        unfold Lru.find? at hfind
        cases hf : outer.items.find? (fun p => p.1 == ih) with
        | none => rw [hf] at hfind; cases hfind
        | some p => simp
      refine ⟨⟨hwo.1, ?_⟩, ?_⟩
      · have := hwo.2
        simp only [Lru.len, List.length_cons, List.length_drop] at this ⊢
        omega
      · intro p hp
        rcases List.mem_cons.1 hp with e | e
        · rw [e]
          have hwi : Within inner := ⟨by rw [hc]; exact hmp, hl⟩
          exact ⟨by rw [Lru.put_cap]; exact hc, (within_put inner k v hwi).2⟩
        · have : p ∈ o.items := List.drop_subset _ _ e
          rw [ho] at this
          exact hin p (Lru.get_mem _ _ p this)
    | none =>
      simp only
      refine ⟨within_put outer ih _ hw, ?_⟩
      intro p hp
      rcases Lru.put_mem _ _ _ p hp with e | e
      · rw [e]; exact fresh_inner mp hmp k v
      · exact hin p e

theorem addPeer_caps (s : Server) (ih pid : Id) (addr : Addr) (h : Caps s) : Caps (s.addPeer ih pid addr) := by
  obtain ⟨hw, hin⟩ := nested_add s.peers s.maxPeers h.maxp ih pid addr h.peers h.inner
  unfold Server.addPeer
  cases hg : s.peers.get ih with
  | mk o found =>
    rw [hg] at hw hin
    cases found with
    | some inner => exact ⟨h.imm, h.mutv, hw, h.speers, h.maxp, hin, h.sinner⟩
    | none => exact ⟨h.imm, h.mutv, hw, h.speers, h.maxp, hin, h.sinner⟩

theorem addSignedPeer_caps (s : Server) (ih : Id) (p : SignedPeer) (h : Caps s) : Caps (s.addSignedPeer ih p) := by
  obtain ⟨hw, hin⟩ := nested_add s.signedPeers s.maxPeers h.maxp ih p.k p h.speers h.sinner
  unfold Server.addSignedPeer
  cases hg : s.signedPeers.get ih with
  | mk o found =>
    rw [hg] at hw hin
    cases found with
    | some inner => exact ⟨h.imm, h.mutv, h.peers, hw, h.maxp, h.inner, hin⟩
    | none => exact ⟨h.imm, h.mutv, h.peers, hw, h.maxp, h.inner, hin⟩

theorem handlePut_caps (s : Server) (verify : Verify) (rt : RoutingTable) (src : Addr) (wall : Nat) (rid : Id)
    (token : Bytes) (spec : PutSpec) (h : Caps s) : Caps (s.handlePut verify rt src wall rid token spec).1 := by
  cases spec <;> simp only [Server.handlePut]
  · split
    · exact h
    · exact addPeer_caps s _ _ _ h
  · split
    · exact h
    · split
      · exact h
      · split
        · exact h
        · exact addSignedPeer_caps s _ _ h
  · split
    · exact h
    · split
      · exact h
      · split
        · exact h
        · exact ⟨within_put _ _ _ h.imm, h.mutv, h.peers, h.speers, h.maxp, h.inner, h.sinner⟩
  · split
    · exact h
    · split
      · exact h
      · split
        · exact h
        · split
          · exact h
          · unfold Server.putMutableStore
            rename_i target v k seq sig salt cas _ _ _ _
            have hg := within_get s.mutable target h.mutv
            split
            · exact ⟨h.imm, hg, h.peers, h.speers, h.maxp, h.inner, h.sinner⟩
            · split
              · exact ⟨h.imm, hg, h.peers, h.speers, h.maxp, h.inner, h.sinner⟩
              · split
                · exact ⟨h.imm, hg, h.peers, h.speers, h.maxp, h.inner, h.sinner⟩
                · exact ⟨h.imm, within_put _ _ _ hg, h.peers, h.speers, h.maxp, h.inner, h.sinner⟩

/-- **`Server::handle_request` keeps every store within its capacity**, for every request -/
theorem handleRequest_caps (s : Server) (verify : Verify) (allow : Allow) (rt srt : RoutingTable) (src : Addr)
    (now wall : Nat) (req : Request) (h : Caps s) : Caps (s.handleRequest verify allow rt srt src now wall req).1 := by
  unfold Server.handleRequest
  split
  · exact h
  · generalize hs0 : (if s.tokens.shouldUpdate now = true then
        ({ s with tokens := (s.tokens.rotate s.rng now).1, rng := (s.tokens.rotate s.rng now).2 } : Server) else s) = s0
    have h0 : Caps s0 := by
      rw [← hs0]; split
      · exact ⟨h.imm, h.mutv, h.peers, h.speers, h.maxp, h.inner, h.sinner⟩
      · exact h
    have hgm : ∀ t sq, Caps (s0.handleGetMutable rt src t sq).1 := by
      intro t sq
      exact ⟨h0.imm, within_get _ _ h0.mutv, h0.peers, h0.speers, h0.maxp, h0.inner, h0.sinner⟩
    simp only
    split
    · exact h0
    · exact h0
    · rename_i ih _
      split
      · rename_i outer inner hg
        have ho : outer = (s0.peers.get ih).1 := by rw [hg]
        refine ⟨h0.imm, h0.mutv, by rw [ho]; exact within_get _ _ h0.peers, h0.speers, h0.maxp, ?_, h0.sinner⟩
        intro p hp
        simp only at hp
        rw [ho] at hp
        exact h0.inner p (Lru.get_mem _ _ p hp)
      · exact h0
    · rename_i ih _
      split
      · rename_i outer inner hg
        have ho : outer = (s0.signedPeers.get ih).1 := by rw [hg]
        refine ⟨h0.imm, h0.mutv, h0.peers, by rw [ho]; exact within_get _ _ h0.speers, h0.maxp, h0.inner, ?_⟩
        intro p hp
        simp only at hp
        rw [ho] at hp
        exact h0.sinner p (Lru.get_mem _ _ p hp)
      · exact h0
    · rename_i t sq sl _
      split
      · rename_i rs _
        exact hgm t (some rs)
      · split
        · rename_i im v hg
          have : im = (s0.immutable.get t).1 := by rw [hg]
          exact ⟨by rw [this]; exact within_get _ _ h0.imm, h0.mutv, h0.peers, h0.speers, h0.maxp, h0.inner, h0.sinner⟩
        · exact hgm t none
    · exact handlePut_caps s0 verify rt src wall req.requesterId _ _ h0

theorem nz_pos (c d : Nat) (hd : 1 ≤ d) : 1 ≤ Server.nz c d := by
  unfold Server.nz
  split
  · exact hd
  · rename_i h; simp at h; omega

theorem fresh_caps (c1 c2 c3 c4 : Nat) (rng : UInt64) (now : Nat) : Caps (Server.new c1 c2 c3 c4 rng now) := by
  have e1 := nz_pos c1 Constants.MAX_INFO_HASHES (by decide)
  have e2 := nz_pos c2 Constants.MAX_PEERS (by decide)
  have e3 := nz_pos c3 Constants.MAX_VALUES (by decide)
  have e4 := nz_pos c4 Constants.MAX_VALUES (by decide)
  refine ⟨⟨e3, by simp [Server.new, Lru.len]⟩, ⟨e4, by simp [Server.new, Lru.len]⟩, ⟨e1, by simp [Server.new, Lru.len]⟩,
    ⟨e1, by simp [Server.new, Lru.len]⟩, e2, ?_, ?_⟩
  · intro p hp; simp [Server.new] at hp
  · intro p hp; simp [Server.new] at hp

/-- **C20, capacities, for the whole node**: in every state a node reaches — whatever requests arrived,
    valid or not, from whomever — no store of its server exceeds its configured capacity: at most
    `max_info_hashes` info hashes with at most `max_peers_per_info_hash` peers each (plain and signed), at
    most `max_immutable_values` / `max_mutable_values` values. -/
theorem reachable_caps (verify : Verify) (cfg : NodeConfig) (seed : UInt64) (t0 : Nat) (ins : List StepIn)
    (hv : ∀ i ∈ ins, i.env.verify = verify) :
    Caps (runSteps (Actor.create cfg seed t0) ins).core.server :=
  reachable_store_invariant caps_storesOnly verify
    (fun s allow rt srt src now wall req h => handleRequest_caps s verify allow rt srt src now wall req h)
    fresh_caps cfg seed t0 ins hv

end Mainline.Props.CapsNode
