/-
  C09 — a request answers nothing.

  Whatever transaction id an incoming REQUEST carries — also one of the node's own outstanding requests,
  also from the very peer that request was sent to — it consumes no entry of the request table, advances
  no registered lookup and touches no registered put: only responses and errors are ever attributed, and
  only by `C09.handed_up_iff`'s conditions.  (What a request does do — be answered in server mode, make a
  requester known — is C18 / C13.)
-/
import MainlineModel.Props.C09
import MainlineModel.Props.C06
import MainlineModel.Props.C02Events
import MainlineModel.Props.C07
namespace Mainline.Props.C09Requests
open Mainline Mainline.Actor

/-- the receive path leaves the request table alone when the datagram is a request -/
theorem request_keeps_table (a : Actor) (now : Nat) (m : Message) (src : Addr) (req : Request)
    (hm : m.mtype = .request req) :
    (a.recvPhase now (some (m, src))).1.sock.requests = a.sock.requests ∧
    (a.recvPhase now (some (m, src))).1.sock.nextTid = a.sock.nextTid := by
  unfold recvPhase
  simp only [hm]
  unfold Inflight.decide
  split <;> exact ⟨rfl, rfl⟩

/-- registered lookups are kept as they are -/
def Kept (l l' : List (Id × IterQuery)) : Prop := ∀ t q, alGet l t = some q → alGet l' t = some q

theorem kept_create : C07.CreateRel Kept := by
  refine ⟨fun l t q h => h, fun l1 l2 l3 h1 h2 t q h => h2 t q (h1 t q h), ?_⟩
  intro l t rid k seeds b tos now hnone _ t' q hq
  have hne : t' ≠ t := by intro e; subst e; rw [hnone] at hq; cases hq
  rw [alGet_alSet_other _ _ _ _ hne]; exact hq

/-- … and the first half of the tick, which handles it, changes no registered put and keeps every
    registered lookup exactly as it was (a server may start the lookup of its own id afterwards; nothing
    else is created, nothing is advanced) -/
theorem request_advances_nothing (a : Actor) (env : Env) (m : Message) (src : Addr) (req : Request)
    (hm : m.mtype = .request req) :
    (a.preDone env (some (m, src))).core.puts = a.core.puts ∧
    (a.preDone env (some (m, src))).events = a.events ∧
    ∀ t q, alGet a.core.iter t = some q → alGet (a.preDone env (some (m, src))).core.iter t = some q := by
  unfold preDone
  obtain ⟨rc, _, _⟩ := C06.recvPhase_frame a env.now (some (m, src))
  have re := C02.recvPhase_events a env.now (some (m, src))
  have hcase : (a.recvPhase env.now (some (m, src))).2 = none ∨ (a.recvPhase env.now (some (m, src))).2 = some (m, src) := by
    unfold recvPhase
    simp only
    split <;> simp
  generalize (a.recvPhase env.now (some (m, src))).1 = a1 at rc re ⊢
  generalize (a.recvPhase env.now (some (m, src))).2 = handed at hcase ⊢
  -- whatever is handed up is the request itself
  have hh : ∀ handed, handed = none ∨ handed = some (m, src) →
      ((a1.handleIncoming env handed).1.core.puts = a1.core.puts ∧
       (a1.handleIncoming env handed).1.events = a1.events ∧
       (a1.handleIncoming env handed).2 = none ∧
       ∀ t q, alGet a1.core.iter t = some q → alGet (a1.handleIncoming env handed).1.core.iter t = some q) := by
    intro handed hcase
    rcases hcase with rfl | rfl
    · refine ⟨?_, ?_, ?_, ?_⟩ <;> simp [handleIncoming]
    · unfold handleIncoming
      simp only [hm]
      unfold handleIncomingRequest
      obtain ⟨c1, _⟩ := handleRequest_cache a1.core env src m.readOnly m.version req
      have c2 := handleRequest_puts a1.core env src m.readOnly m.version req
      have hs : ∀ (b : Actor) (r : Option Reply), (b.sendReply src m.tid r).core = b.core ∧ (b.sendReply src m.tid r).events = b.events := by
        intro b r; unfold sendReply; split <;> exact ⟨rfl, rfl⟩
      split
      · obtain ⟨s1, s2⟩ := hs { a1 with core := (handleRequest a1.core env src m.readOnly m.version req).1 }
          (handleRequest a1.core env src m.readOnly m.version req).2.1
        generalize hb : sendReply { a1 with core := (handleRequest a1.core env src m.readOnly m.version req).1 } src m.tid
          (handleRequest a1.core env src m.readOnly m.version req).2.1 = b at s1 s2
        obtain ⟨p1, _, _, _⟩ := C06.populate_frame b env.now
        refine ⟨by rw [p1, s1]; exact c2, by rw [C02.populate_events, s2], trivial, ?_⟩
        intro t q hq
        have hb1 : alGet b.core.iter t = some q := by rw [s1]; simp only; rw [c1]; exact hq
        exact C07.populate_rel kept_create b env.now t q hb1
      · obtain ⟨s1, s2⟩ := hs { a1 with core := (handleRequest a1.core env src m.readOnly m.version req).1 }
          (handleRequest a1.core env src m.readOnly m.version req).2.1
        refine ⟨by rw [s1]; exact c2, by rw [s2], trivial, ?_⟩
        intro t q hq
        rw [s1]; simp only; rw [c1]; exact hq
  obtain ⟨h1, h2, h3, h4⟩ := hh handed hcase
  rw [h3]
  simp only [forwardValue]
  exact ⟨h1.trans (by rw [rc]), h2.trans re, fun t q hq => h4 t q (by rw [rc]; exact hq)⟩

end Mainline.Props.C09Requests
