/-
  C14, first clause, over time, for the whole node — "a peer that has answered one of this node's requests
  within the last 15 minutes is still in its routing table".

  `C13Join.answer_joins` puts the author of an accepted answer into the table, seen now.  Here: an entry
  that is not stale (heard from within the last 15 minutes) survives every iteration of the loop —
  whatever datagram arrives, whatever API call is picked up, through the ping round that purges stale
  entries — as an entry with the same id that is not stale either (`step_keeps_fresh_peer`); hence over
  every run, for as long as the clock stays within 15 minutes of the moment it was last heard from
  (`run_keeps_fresh_peer`).  The one exception is the re-keying of the table (a new BEP42 id once the
  node's public address is confirmed), which re-inserts every entry under the new id and may refuse some
  for capacity or per-IP limits: the theorem assumes the node's id is already valid for its address.
-/
import MainlineModel.Props.C14Node
namespace Mainline.Props.C14Fresh
open Mainline Mainline.Actor Mainline.RoutingTable Mainline.Props.C12 Mainline.Props.C14Node

/-- a peer is present and was heard from at `since` or later -/
def Fresh (rt : RoutingTable) (i : Id) (since : Nat) : Prop := ∃ e ∈ rt.entries, e.id = i ∧ since ≤ e.lastSeen

/-- the window in which a peer heard from at `since` is not stale -/
def InWindow (since now : Nat) : Prop := since ≤ now ∧ now ≤ since + 15 * 60 * 1000000000

theorem add_false_mem (rt : RoutingTable) (hinv : TableInv rt) (node : Node) (now : Nat)
    (h : (rt.add node now).2 = false) (e : Node) (he : e ∈ rt.entries) : e ∈ (rt.add node now).1.entries := by
  unfold RoutingTable.add at h ⊢
  split
  · exact he
  · split
    · exact he
    · rename_i h0 h1
      simp only [h0, h1, Bool.false_eq_true, ite_false] at h
      simp only
      rw [kbucketAdd_false _ node now h]
      rw [mem_entries_setBucket rt hinv.sorted]
      obtain ⟨b, hb, heb⟩ := (mem_entries rt e).1 he
      by_cases hkey : b.1 = rt.id.distance node.id
      · left
        have hfind : rt.bucket (rt.id.distance node.id) = some b.2 := by
          rw [bucket_eq_findB]
          exact findB_of_mem rt.buckets hinv.sorted _ _ (by rw [← hkey]; exact hb)
        rw [hfind]; exact heb
      · exact Or.inr ⟨b, hb, hkey, heb⟩

/-- `RoutingTable::add` of a node seen now keeps every peer heard from within the window -/
theorem add_keeps (rt : RoutingTable) (hinv : TableInv rt) (node : Node) (now : Nat) (hn : node.lastSeen = now)
    (i : Id) (L : Nat) (hw : InWindow L now) (h : Fresh rt i L) : Fresh (rt.add node now).1 i L := by
  obtain ⟨e, he, hid, hf⟩ := h
  by_cases hne : e.id = node.id
  · cases hr : (rt.add node now).2 with
    | true =>
      exact ⟨node, C14.add_true_mem rt hinv node now hr, by rw [← hne, hid], by rw [hn]; exact hw.1⟩
    | false => exact ⟨e, add_false_mem rt hinv node now hr e he, hid, hf⟩
  · refine ⟨e, add_keeps_fresh rt hinv node now e he ?_ hne, hid, hf⟩
    have := hw.2
    omega

theorem maybeAdd_keeps (c : Core) (now : Nat) (hk : TOk c now) (src : Addr) (version : Option Bytes) (ro : Bool)
    (req : Request) (i : Id) (L : Nat) (hw : InWindow L now) (h : Fresh c.rt i L) :
    Fresh (maybeAddNodeFromRequest c src version ro req now).rt i L := by
  unfold maybeAddNodeFromRequest
  split
  · split
    · unfold addRequester
      split
      · split
        · exact add_keeps c.rt hk.inv _ now rfl i L hw h
        · exact add_keeps c.rt hk.inv _ now rfl i L hw h
      · split
        · exact h
        · exact h
    · exact h
  · exact h

theorem addResponder_keeps (c : Core) (now : Nat) (hk : TOk c now) (src : Addr) (m : Message) (i : Id) (L : Nat)
    (hw : InWindow L now) (h : Fresh c.rt i L) : Fresh (addResponder c now src m).rt i L := by
  unfold addResponder
  split
  · split
    · exact add_keeps c.rt hk.inv _ now rfl i L hw h
    · exact add_keeps c.rt hk.inv _ now rfl i L hw h
  · exact h

/-- the node's id is valid for its (confirmed or alleged) public address: no re-keying is due -/
def Keyed (c : Core) : Prop := ∀ our, c.publicAddress = some our → c.rt.id.isValidForIp our.ip = true

theorem maybeAdd_fields (c : Core) (src : Addr) (version : Option Bytes) (ro : Bool) (req : Request) (now : Nat) :
    (maybeAddNodeFromRequest c src version ro req now).publicAddress = c.publicAddress ∧
    (maybeAddNodeFromRequest c src version ro req now).rt.id = c.rt.id := by
  unfold maybeAddNodeFromRequest
  split
  · split
    · unfold addRequester
      split
      · split
        · exact ⟨rfl, add_id _ _ _⟩
        · exact ⟨rfl, add_id _ _ _⟩
      · split <;> exact ⟨rfl, rfl⟩
    · exact ⟨rfl, rfl⟩
  · exact ⟨rfl, rfl⟩

theorem handleRequest_keeps (c : Core) (env : Env) (hk : TOk c env.now) (hkey : Keyed c) (src : Addr) (ro : Bool)
    (version : Option Bytes) (req : Request) (i : Id) (L : Nat) (hw : InWindow L env.now) (h : Fresh c.rt i L) :
    Fresh (handleRequest c env src ro version req).1.rt i L := by
  unfold handleRequest
  split
  · exact h
  · have h1 := maybeAdd_keeps c env.now hk src version ro req i L hw h
    obtain ⟨f1, f2⟩ := maybeAdd_fields c src version ro req env.now
    generalize maybeAddNodeFromRequest c src version ro req env.now = c1 at h1 f1 f2
    have h2 : (verifySelfPing c1 src req env.now).1.rt = c1.rt := by
      unfold verifySelfPing
      split
      · rename_i our hour
        split
        · have := hkey our (by rw [← f1]; exact hour)
          rw [f2, this]
          simp
        · rfl
      · rfl
    unfold serveRequest
    split
    · simp only; rw [h2]; exact h1
    · rw [h2]; exact h1

theorem handleResponse_rt (c : Core) (env : Env) (src : Addr) (m : Message) :
    (handleResponse c env src m).1.rt = c.rt ∨
    ∃ c', c'.rt = c.rt ∧ c'.srt = c.srt ∧ c'.lastPing = c.lastPing ∧ (handleResponse c env src m).1.rt = (addResponder c' env.now src m).rt := by
  unfold handleResponse
  split
  · exact Or.inl rfl
  · split
    · exact Or.inl rfl
    · split
      · rename_i target q _
        split
        · exact Or.inr ⟨{ c with iter := alSet c.iter target (lookupStep q env src m).1 }, rfl, rfl, rfl, rfl⟩
        · exact Or.inl rfl
      · split
        · exact Or.inr ⟨c, rfl, rfl, rfl, rfl⟩
        · exact Or.inl rfl

/-- the first half of the tick keeps every fresh peer fresh -/
theorem preDone_keeps (a : Actor) (env : Env) (hk : TOk a.core env.now) (hkey : Keyed a.core)
    (dgram : Option (Message × Addr)) (i : Id) (L : Nat) (hw : InWindow L env.now) (h : Fresh a.core.rt i L) :
    Fresh (a.preDone env dgram).core.rt i L := by
  unfold preDone
  rw [C06Time.forwardValue_core]
  obtain ⟨_, rc, _, _⟩ := recvPhase_time a env.now dgram
  generalize (a.recvPhase env.now dgram).1 = a1 at rc
  generalize (a.recvPhase env.now dgram).2 = handed
  rw [← rc] at hk hkey h
  unfold handleIncoming
  split
  · exact h
  · rename_i m src
    split
    · rename_i req _
      have hr := handleRequest_keeps a1.core env hk hkey src m.readOnly m.version req i L hw h
      unfold handleIncomingRequest
      split
      · have := populate_tbl (sendReply { a1 with core := (handleRequest a1.core env src m.readOnly m.version req).1 } src m.tid
          (handleRequest a1.core env src m.readOnly m.version req).2.1) env.now
        unfold tbl at this
        simp only [Prod.mk.injEq] at this
        rw [this.1, sendReply_core]; exact hr
      · rw [sendReply_core]; exact hr
    · simp only
      rcases handleResponse_rt a1.core env src m with e | ⟨c', e1, e2, e3, e⟩
      · rw [e]; exact h
      · rw [e]
        have hk' : TOk c' env.now := TOk.of_tbl (by unfold tbl; rw [e1, e2, e3]) hk
        exact addResponder_keeps c' env.now hk' src m i L hw (by rw [e1]; exact h)

/-- the maintenance purges only stale entries -/
theorem maintenance_keeps (a : Actor) (now : Nat) (hk : TOk a.core now) (i : Id) (L : Nat) (hw : InWindow L now)
    (h : Fresh a.core.rt i L) : Fresh (a.maintenance now).core.rt i L := by
  obtain ⟨e, he, hid, hf⟩ := h
  have hns : e.isStale now = false := by
    unfold Node.isStale Node.age secsToNs
    simp only [const_stale, decide_eq_false_iff_not, Nat.not_lt]
    have := hw.2
    omega
  unfold maintenance
  have h1 : tbl (a.bootstrapIfEmpty now).core = tbl a.core := by
    unfold bootstrapIfEmpty; split
    · exact populate_tbl a now
    · rfl
  have h2 : ∀ b : Actor, tbl (b.refreshTable now).core = tbl b.core := by
    intro b
    unfold refreshTable
    split
    · rw [populate_tbl]
      unfold adaptiveSwitch; split <;> rfl
    · rfl
  generalize hb : (a.bootstrapIfEmpty now).refreshTable now = b
  have hbt : tbl b.core = tbl a.core := by rw [← hb]; exact (h2 _).trans h1
  have hkb : TOk b.core now := TOk.of_tbl hbt hk
  have heb : e ∈ b.core.rt.entries := by
    have : b.core.rt = a.core.rt := by
      unfold tbl at hbt; simp only [Prod.mk.injEq] at hbt; exact hbt.1
    rw [this]; exact he
  unfold pingTable
  split
  · have hfold : ∀ (l : List Addr) (x : Actor), (l.foldl (fun a addr => a.ping addr now) x).core = x.core := by
      intro l
      induction l with
      | nil => intro x; rfl
      | cons y ys ih => intro x; simp only [List.foldl_cons]; rw [ih]; rfl
    rw [hfold]
    simp only [pingRound]
    exact ⟨e, (C14.prune_spec b.core.rt hkb.inv now e).2 ⟨heb, hns⟩, hid, hf⟩
  · exact ⟨e, heb, hid, hf⟩

/-- **One iteration keeps every fresh peer**: a peer heard from within the last 15 minutes is still in
    the routing table, not stale, at the end of the iteration — whatever datagram arrives (with 20-byte
    ids), whatever API message is picked up -/
theorem step_keeps_fresh_peer (a : Actor) (now0 : Nat) (hk : TOk a.core now0) (hkey : Keyed a.core) (env : Env)
    (hnow : now0 ≤ env.now) (dgram : Option (Message × Addr)) (hwf : DgramWf dgram) (msg : Option ApiMsg) (i : Id)
    (L : Nat) (hw : InWindow L env.now) (h : Fresh a.core.rt i L) : Fresh (a.step env dgram msg).core.rt i L := by
  have hk' := hk.mono hnow
  have hpre := preDone_keeps a env hk' hkey dgram i L hw h
  have hkpre := preDone_tok a env hk' dgram hwf
  have hrest : tbl ((a.afterRecv env dgram).pickup env msg).core = tbl (a.preDone env dgram).core := by
    unfold afterRecv
    rw [pickup_tbl, finishTick_tbl, visitClosestAll_tbl]
  rw [C06Time.step_core]
  apply maintenance_keeps _ env.now (TOk.of_tbl hrest hkpre) i L hw
  have : ((a.afterRecv env dgram).pickup env msg).core.rt = (a.preDone env dgram).core.rt := by
    unfold tbl at hrest; simp only [Prod.mk.injEq] at hrest; exact hrest.1
  rw [this]; exact hpre


/-- **Every run.**  A peer heard from at `since` is still in the routing table after any run whose clock
    stays within 15 minutes of `since`, as long as no re-keying is due on the way (`Keyed` in every state
    passed through: the node's id is valid for its public address — always so on private addresses, and
    from the first re-keying on). -/
theorem run_keeps_fresh_peer (i : Id) (L : Nat) : ∀ (ins : List StepIn) (a : Actor) (now0 : Nat),
    TOk a.core now0 → RunWf now0 ins → L ≤ now0 →
    (∀ k, k ≤ ins.length → Keyed (runSteps a (ins.take k)).core) →
    (∀ x ∈ ins, x.env.now ≤ L + 15 * 60 * 1000000000) →
    Fresh a.core.rt i L → Fresh (runSteps a ins).core.rt i L := by
  intro ins
  induction ins with
  | nil => intro a now0 _ _ _ _ _ h; exact h
  | cons x xs ih =>
    intro a now0 hk hr hL hkey hwin h
    obtain ⟨h1, h2, h3⟩ := hr
    have hw : InWindow L x.env.now := ⟨Nat.le_trans hL h1, hwin x List.mem_cons_self⟩
    have hk0 : Keyed a.core := by simpa [runSteps] using hkey 0 (Nat.zero_le _)
    have hstep := step_keeps_fresh_peer a now0 hk hk0 x.env h1 x.dgram h2 x.msg i L hw h
    have hkt := step_tables a now0 hk x.env h1 x.dgram h2 x.msg
    have : runSteps a (x :: xs) = runSteps (a.step x.env x.dgram x.msg) xs := rfl
    rw [this]
    refine ih _ x.env.now hkt h3 hw.1 ?_ (fun y hy => hwin y (List.mem_cons_of_mem _ hy)) hstep
    intro k hk'
    have := hkey (k + 1) (by simp; omega)
    simpa [runSteps, List.take_succ_cons] using this

/-- the hypotheses are satisfiable: a table holding one peer seen at time 5, looked at at time 7 -/
example : Fresh { id := ⟨List.replicate 20 0⟩, buckets := [(160, [{ id := ⟨List.replicate 20 255⟩, addr := ⟨1, 1⟩, lastSeen := 5 }])] }
    ⟨List.replicate 20 255⟩ 5 ∧ InWindow 5 7 := by
  refine ⟨⟨{ id := ⟨List.replicate 20 255⟩, addr := ⟨1, 1⟩, lastSeen := 5 }, by simp [RoutingTable.entries], rfl, Nat.le_refl _⟩, ?_⟩
  unfold InWindow; omega

end Mainline.Props.C14Fresh
