/-
  C08 — Put results tell the truth about acknowledgements.

  Model: `Model/PutQuery.lean` (`PutQuery::{start, success, error, check, is_done,
  most_common_error, majority_nodes_rejected_put_mutable}`) over `Model/Socket.lean`, after the
  `fix:` commits (usize tallies, concurrency errors for mutable puts only, `start` fails when
  nothing was sent).  Replies are an arbitrary list of events (acknowledgement / error code), of
  any length and in any order; which replies reach the query at all is decided by the socket
  (C09: the addressed peer only, in time, once).

  Not expressible here (checked by the `net` stream on whole nodes instead): that the acknowledging
  node really holds the value — on the server side this is C03 (`Props/C03.lean`).
-/
import MainlineModel.Lemmas.PutQueryLemmas
import MainlineModel.Lemmas.SocketLemmas
namespace Mainline.Props.C08
open Mainline Mainline.PutQuery

/-- a reply that reached the query -/
inductive Ev where
  | ack
  | err (code : Int)
  deriving DecidableEq, Repr

def applyEv (q : PutQuery) : Ev → PutQuery
  | .ack => q.success
  | .err c => q.error c

def acks (evs : List Ev) : Nat := (evs.filter (· == .ack)).length
def errsOf (evs : List Ev) (code : Int) : Nat := (evs.filter (· == .err code)).length

/-! ### the tallies are the numbers of replies received, whatever their number and order -/

theorem applyEv_fields (q : PutQuery) (e : Ev) :
    (applyEv q e).inflight = q.inflight ∧ (applyEv q e).isMutable = q.isMutable ∧
    (applyEv q e).extra = q.extra := by
  cases e with
  | ack => exact ⟨rfl, rfl, rfl⟩
  | err c =>
    simp only [applyEv, PutQuery.error]
    split
    · split <;> exact ⟨rfl, rfl, rfl⟩
    · exact ⟨rfl, rfl, rfl⟩

theorem error_storedAt (q : PutQuery) (c : Int) : (q.error c).storedAt = q.storedAt := by
  simp only [PutQuery.error]
  split
  · split <;> rfl
  · rfl

theorem run_fields (q : PutQuery) (evs : List Ev) :
    (evs.foldl applyEv q).inflight = q.inflight ∧ (evs.foldl applyEv q).isMutable = q.isMutable := by
  induction evs generalizing q with
  | nil => exact ⟨rfl, rfl⟩
  | cons e es ih =>
    obtain ⟨h1, h2, _⟩ := applyEv_fields q e
    obtain ⟨i1, i2⟩ := ih (applyEv q e)
    exact ⟨i1.trans h1, i2.trans h2⟩

/-- **Acknowledgements are counted exactly** (no 8-bit wrap, no overflow: the count is a natural
    number in the model and a `usize` in the code — `Constants.PUT_TALLY_BITS`). -/
theorem stored_counts_acks (q : PutQuery) (evs : List Ev) :
    (evs.foldl applyEv q).storedAt = q.storedAt + acks evs := by
  induction evs generalizing q with
  | nil => rfl
  | cons e es ih =>
    simp only [List.foldl_cons]
    rw [ih]
    cases e with
    | ack => simp [applyEv, success, acks, List.filter_cons]; omega
    | err c => simp [applyEv, error_storedAt, acks, List.filter_cons]

/-- the counters in the code are wide enough for any replica set that fits in memory -/
theorem tally_width : Constants.PUT_TALLY_BITS = 64 := by decide

/-- **Error replies are counted exactly, per code.** -/
theorem tally_counts_errors (q : PutQuery) (evs : List Ev) (code : Int) :
    tallyOf (evs.foldl applyEv q).errors code = tallyOf q.errors code + errsOf evs code := by
  induction evs generalizing q with
  | nil => rfl
  | cons e es ih =>
    simp only [List.foldl_cons]
    rw [ih]
    cases e with
    | ack => simp [applyEv, success, errsOf, List.filter_cons]
    | err c =>
      simp only [applyEv, error_tallyOf, errsOf, List.filter_cons]
      by_cases h : c = code
      · subst h; simp; omega
      · have : (Ev.err c == Ev.err code) = false := by
          simp only [beq_eq_false_iff_ne, ne_eq, Ev.err.injEq]; exact h
        simp [h, this]

theorem errInv_run (q : PutQuery) (hi : ErrInv q.errors) (evs : List Ev) :
    ErrInv (evs.foldl applyEv q).errors := by
  induction evs generalizing q with
  | nil => exact hi
  | cons e es ih =>
    simp only [List.foldl_cons]
    apply ih
    cases e with
    | ack => exact hi
    | err c => exact errInv_error q hi c

theorem errInv_nil : ErrInv [] := ⟨by simp, by simp, by simp⟩

/-! ### the verdict of `check` -/

theorem isDone_iff (q : PutQuery) (sock : Inflight) (now : Nat) :
    q.isDone sock now = true ↔
      q.inflight ≠ [] ∧ ∀ tid ∈ q.inflight, sock.isInflight tid now = false := by
  unfold isDone
  cases h : q.inflight with
  | nil => simp
  | cons t ts =>
    simp only [List.isEmpty_cons, Bool.false_eq_true, ite_false, Bool.not_eq_true', ne_eq,
      reduceCtorEq, not_false_eq_true, true_and]
    rw [List.any_eq_false]
    constructor
    · intro h tid ht; simpa using h tid ht
    · intro h tid ht; simpa using h tid ht

/-- **Ok iff acknowledged.** `check` reports success exactly when the put was started, none of its
    requests is still outstanding (each was answered or expired), and at least one acknowledgement
    was counted. -/
theorem check_ok_iff (q : PutQuery) (sock : Inflight) (now : Nat) :
    q.check sock now = .ok true ↔ q.isDone sock now = true ∧ 0 < q.storedAt := by
  unfold check
  split
  · rename_i hd
    simp only [hd, true_and]
    split
    · rename_i h0
      have : q.storedAt = 0 := by simpa using h0
      split <;> simp [this]
    · rename_i h0
      have : q.storedAt ≠ 0 := by simpa using h0
      simp; omega
  · rename_i hd
    simp only [hd, false_and, iff_false]
    split <;> simp

/-- history form: for a started put and any replies `evs`, the result is Ok iff all requests are
    answered or expired and at least one of the replies was an acknowledgement -/
theorem put_ok_iff_ack (q : PutQuery) (h0 : q.storedAt = 0) (evs : List Ev) (sock : Inflight) (now : Nat) :
    (evs.foldl applyEv q).check sock now = .ok true ↔
      (q.inflight ≠ [] ∧ ∀ tid ∈ q.inflight, sock.isInflight tid now = false) ∧ 0 < acks evs := by
  rw [check_ok_iff, isDone_iff, (run_fields q evs).1, stored_counts_acks, h0]
  simp

theorem mostCommonError_cases (q : PutQuery) (c : Nat) (e : PutErr) (h : q.mostCommonError = some (c, e)) :
    q.isMutable = true ∧
      ((e = .casFailed ∧ q.errors.head? = some (c, 301)) ∨
       (e = .notMostRecent ∧ q.errors.head? = some (c, 302))) := by
  unfold mostCommonError at h
  split at h
  · cases h
  · rename_i hm
    have hm' : q.isMutable = true := by simpa using hm
    refine ⟨hm', ?_⟩
    split at h
    · rename_i count code hh
      split at h
      · rename_i h301
        have : code = 301 := by simpa using h301
        subst this
        injection h with h; injection h with h1 h2
        subst h1; subst h2
        exact Or.inl ⟨rfl, hh⟩
      · split at h
        · rename_i h302
          have : code = 302 := by simpa using h302
          subst this
          injection h with h; injection h with h1 h2
          subst h1; subst h2
          exact Or.inr ⟨rfl, hh⟩
        · cases h
    · cases h

theorem majorityRejected_cases (q : PutQuery) (e : PutErr) (h : q.majorityRejected = some e) :
    ∃ c, q.mostCommonError = some (c, e) ∧ q.inflight.length / 2 + 1 ≤ c := by
  unfold majorityRejected at h
  simp only at h
  split at h
  · split at h
    · rename_i c e' hm
      split at h
      · rename_i hge
        split at h
        · injection h with h; subst h; exact ⟨c, hm, hge⟩
        · cases h
      · cases h
    · cases h
  · cases h

/-- every error `check` can return, and why -/
theorem check_error_cases (q : PutQuery) (sock : Inflight) (now : Nat) (e : PutErr)
    (h : q.check sock now = .error e) :
    (e = .timeout ∧ q.isDone sock now = true ∧ q.storedAt = 0) ∨
    (∃ c, q.mostCommonError = some (c, e)) := by
  unfold check at h
  split at h
  · rename_i hd
    split at h
    · rename_i h0
      split at h
      · rename_i c e' hm
        injection h with h; subst h
        exact Or.inr ⟨c, hm⟩
      · injection h with h; subst h
        exact Or.inl ⟨rfl, hd, by simpa using h0⟩
    · cases h
  · split at h
    · rename_i e' hm
      injection h with h; subst h
      obtain ⟨c, hc, _⟩ := majorityRejected_cases q e' hm
      exact Or.inr ⟨c, hc⟩
    · cases h

/-- **CasFailed / NotMostRecent only if a storing node said so.** If `check` fails with `CasFailed`
    (`NotMostRecent`), the put is for a mutable item and error code 301 (302) was counted at least
    once. -/
theorem concurrency_error_only_if_counted (q : PutQuery) (hi : ErrInv q.errors) (sock : Inflight)
    (now : Nat) :
    (q.check sock now = .error .casFailed → q.isMutable = true ∧ 0 < tallyOf q.errors 301) ∧
    (q.check sock now = .error .notMostRecent → q.isMutable = true ∧ 0 < tallyOf q.errors 302) := by
  constructor
  · intro h
    rcases check_error_cases q sock now _ h with ⟨h1, _⟩ | ⟨c, hc⟩
    · cases h1
    · obtain ⟨hm, h2 | h2⟩ := mostCommonError_cases q c _ hc
      · refine ⟨hm, ?_⟩
        have hmem : (c, (301 : Int)) ∈ q.errors := List.mem_of_mem_head? h2.2
        have := tallyOf_of_mem q.errors hi.nodup _ hmem
        have hp := hi.pos _ hmem
        simp only at this hp
        omega
      · cases h2.1
  · intro h
    rcases check_error_cases q sock now _ h with ⟨h1, _⟩ | ⟨c, hc⟩
    · cases h1
    · obtain ⟨hm, h2 | h2⟩ := mostCommonError_cases q c _ hc
      · cases h2.1
      · refine ⟨hm, ?_⟩
        have hmem : (c, (302 : Int)) ∈ q.errors := List.mem_of_mem_head? h2.2
        have := tallyOf_of_mem q.errors hi.nodup _ hmem
        have hp := hi.pos _ hmem
        simp only at this hp
        omega

/-- history form: a fresh put fails with CasFailed (NotMostRecent) only if a 301 (302) reply to
    this put was received -/
theorem concurrency_error_only_if_answered (q : PutQuery) (hq : q.errors = []) (evs : List Ev)
    (sock : Inflight) (now : Nat) :
    ((evs.foldl applyEv q).check sock now = .error .casFailed → q.isMutable = true ∧ 0 < errsOf evs 301) ∧
    ((evs.foldl applyEv q).check sock now = .error .notMostRecent → q.isMutable = true ∧ 0 < errsOf evs 302) := by
  have hi : ErrInv (evs.foldl applyEv q).errors := errInv_run q (by rw [hq]; exact errInv_nil) evs
  obtain ⟨h1, h2⟩ := concurrency_error_only_if_counted _ hi sock now
  have t1 := tally_counts_errors q evs 301
  have t2 := tally_counts_errors q evs 302
  rw [hq] at t1 t2
  simp only [tallyOf, Nat.zero_add] at t1 t2
  rw [(run_fields q evs).2] at h1 h2
  exact ⟨fun h => by rw [← t1]; exact h1 h, fun h => by rw [← t2]; exact h2 h⟩

/-- **…and a query error otherwise.** The only other errors `check` returns are query errors; it
    never returns ConflictRisk (that is decided before the put starts), and Timeout only for a
    finished put nobody acknowledged. -/
theorem check_error_kinds (q : PutQuery) (sock : Inflight) (now : Nat) (e : PutErr)
    (h : q.check sock now = .error e) : e = .timeout ∨ e = .casFailed ∨ e = .notMostRecent := by
  rcases check_error_cases q sock now e h with ⟨h1, _⟩ | ⟨c, hc⟩
  · exact Or.inl h1
  · obtain ⟨_, h2 | h2⟩ := mostCommonError_cases q c e hc
    · exact Or.inr (Or.inl h2.1)
    · exact Or.inr (Or.inr h2.1)

/-- puts of immutable items and announces never fail with a concurrency error (C17, last clause) -/
theorem non_mutable_never_concurrency (q : PutQuery) (hm : q.isMutable = false) (sock : Inflight)
    (now : Nat) (e : PutErr) (h : q.check sock now = .error e) : e = .timeout := by
  rcases check_error_cases q sock now e h with ⟨h1, _⟩ | ⟨c, hc⟩
  · exact h1
  · have := (mostCommonError_cases q c e hc).1
    rw [hm] at this; cases this

/-- a finished put that nobody acknowledged fails -/
theorem finished_without_ack_fails (q : PutQuery) (sock : Inflight) (now : Nat)
    (hd : q.isDone sock now = true) (h0 : q.storedAt = 0) : ∃ e, q.check sock now = .error e := by
  unfold check
  simp only [hd, ite_true, h0, beq_self_eq_true]
  split
  · exact ⟨_, rfl⟩
  · exact ⟨_, rfl⟩

/-- a put is pending only while one of its requests is outstanding -/
theorem pending_only_while_outstanding (q : PutQuery) (sock : Inflight) (now : Nat)
    (h : q.check sock now = .ok false) : q.isDone sock now = false := by
  unfold check at h
  split at h
  · split at h
    · split at h <;> cases h
    · cases h
  · rename_i hd; simpa using hd

/-! ### `start`: who is written to -/

/-- **Only token-bearing nodes are written to, each with its own token.** The datagrams sent by
    `start` are exactly the candidates (first `u8::MAX` closest nodes, then the extra nodes) that
    carry a token, in order, each with that node's address and that node's token. -/
theorem start_sends (q : PutQuery) (hq : q.inflight = []) (sock : Inflight) (closest : List Node)
    (hne : closest ≠ []) (now : Nat) :
    (q.start sock closest now).2.2.2 =
      (q.candidates closest).filterMap (fun n => n.token.map fun t => (n.addr, t)) ∧
    (q.start sock closest now).1.inflight.length =
      ((q.candidates closest).filterMap (fun n => n.token)).length := by
  unfold start
  have hs : q.started = false := by simp [started, hq]
  have hc : closest.isEmpty = false := by cases closest <;> simp_all
  simp only [hs, Bool.false_eq_true, ite_false, hc]
  obtain ⟨h1, h2⟩ := sendLoop_spec sock now (q.candidates closest) [] []
  simp only [hq]
  split <;> simp [h1, h2]

/-- no node without a token ever receives the write -/
theorem start_never_writes_tokenless (q : PutQuery) (hq : q.inflight = []) (sock : Inflight)
    (closest : List Node) (hne : closest ≠ []) (now : Nat) (a : Addr) (t : Bytes)
    (h : (a, t) ∈ (q.start sock closest now).2.2.2) :
    ∃ n ∈ q.candidates closest, n.addr = a ∧ n.token = some t := by
  rw [(start_sends q hq sock closest hne now).1] at h
  rw [List.mem_filterMap] at h
  obtain ⟨n, hn, hmap⟩ := h
  cases ht : n.token with
  | none => rw [ht] at hmap; cases hmap
  | some tok =>
    rw [ht] at hmap
    simp only [Option.map_some, Option.some.injEq, Prod.mk.injEq] at hmap
    exact ⟨n, hn, hmap.1, by rw [← hmap.2]; exact ht⟩

/-- `start` fails (NoClosestNodes) exactly when there is nobody to write to; otherwise the put is
    started, so it cannot stay pending forever (C06) -/
theorem start_result (q : PutQuery) (hq : q.inflight = []) (sock : Inflight) (closest : List Node)
    (now : Nat) :
    ((q.start sock closest now).2.2.1 = .error .noClosestNodes ↔
      (closest = [] ∨ ∀ n ∈ q.candidates closest, n.token = none)) ∧
    ((q.start sock closest now).2.2.1 = .ok () ↔ (q.start sock closest now).1.started = true) := by
  unfold start
  have hs : q.started = false := by simp [started, hq]
  simp only [hs, Bool.false_eq_true, ite_false]
  cases closest with
  | nil => simp [hs]
  | cons c cs =>
    simp only [List.isEmpty_cons, Bool.false_eq_true, ite_false, reduceCtorEq, false_or]
    obtain ⟨_, h2⟩ := sendLoop_spec sock now (q.candidates (c :: cs)) [] []
    simp only [List.length_nil, Nat.zero_add] at h2
    simp only [hq]
    have hempty : (sendLoop sock now (q.candidates (c :: cs)) [] []).2.1.isEmpty = true ↔
        ∀ n ∈ q.candidates (c :: cs), n.token = none := by
      rw [List.isEmpty_iff_length_eq_zero, h2, List.length_eq_zero_iff, List.filterMap_eq_nil_iff]
    split
    · rename_i he
      simp only [true_iff, reduceCtorEq, false_iff]
      refine ⟨hempty.1 he, ?_⟩
      simp [started, he]
    · rename_i he
      simp only [reduceCtorEq, false_iff, true_iff]
      refine ⟨fun h => he (hempty.2 h), ?_⟩
      simpa [started] using he

/-! ### non-vacuity -/

/-- three nodes (the second without a token), one extra node; replies 301, ack -/
def exQuery : PutQuery := { isMutable := true, extra := [{ id := ⟨[9]⟩, addr := ⟨9, 9⟩, token := some [9] }] }
def exClosest : List Node :=
  [{ id := ⟨[1]⟩, addr := ⟨1, 1⟩, token := some [1] }, { id := ⟨[2]⟩, addr := ⟨2, 2⟩ },
   { id := ⟨[3]⟩, addr := ⟨3, 3⟩, token := some [3] }]

example : (exQuery.start {} exClosest 0).2.2.2 = [(⟨1, 1⟩, [1]), (⟨3, 3⟩, [3]), (⟨9, 9⟩, [9])] := by decide
example : ErrInv ([Ev.err 301, .err 203, .err 301].foldl applyEv exQuery).errors :=
  errInv_run _ errInv_nil _
example : ([Ev.err 301, .err 203, .err 301, .ack].foldl applyEv exQuery).errors = [(2, 301), (1, 203)] ∧
    ([Ev.err 301, .err 203, .err 301, .ack].foldl applyEv exQuery).storedAt = 1 := by decide

end Mainline.Props.C08
