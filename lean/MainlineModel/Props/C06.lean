/-
  C06 — Every API call terminates with exactly one outcome.

  Model: the whole tick of `Model/Actor.lean` (`afterRecv`, `pickup`, `maintenance`).
  The theorems establish the invariant that makes hanging impossible — every parked caller waits
  on registered work, every registered put that has sent nothing waits on a registered lookup —
  and that registered work ends as soon as its requests have expired, at which point its callers
  are answered (once) and un-parked in the same tick.
-/
import MainlineModel.Gen.FacadeTwins
import MainlineModel.Lemmas.AssocLemmas
import MainlineModel.Lemmas.ActorLemmas
import MainlineModel.Props.C08
import MainlineModel.Props.C20
import MainlineModel.Props.C09
import MainlineModel.Lemmas.ShapeLemmas
namespace Mainline.Props.C06
open Mainline Mainline.Actor

/-- nobody waits on nothing -/
structure Waits (a : Actor) : Prop where
  /-- a caller parked for a lookup result waits on a registered lookup -/
  getWaits : ∀ t, hasKey a.getSenders t → hasKey a.core.iter t
  /-- a registered put that has not sent its requests yet waits on a registered lookup -/
  putWaits : ∀ t e, alGet a.core.puts t = some e → e.q.inflight = [] → hasKey a.core.iter t
  /-- a caller parked for a put result waits on a registered put -/
  callerWaits : ∀ t, hasKey a.putSenders t → hasKey a.core.puts t

/-! ### registered work ends when its requests have expired -/

/-- a lookup none of whose requests is in flight is done — in particular once the request timeout
    has passed since its last request, whatever was lost, duplicated or never answered -/
theorem lookup_done_iff (q : IterQuery) (sock : Inflight) (now : Nat) :
    q.isDone sock now = true ↔ ∀ tid ∈ q.inflight, sock.isInflight tid now = false := by
  unfold IterQuery.isDone
  rw [Bool.not_eq_true', List.any_eq_false]
  constructor
  · intro h tid ht; simpa using h tid ht
  · intro h tid ht; simpa using h tid ht

/-- a request older than the timeout is not in flight -/
theorem expired_not_inflight (s : Inflight) (hi : s.Inv) (r : InflightReq) (hr : r ∈ s.requests) (now : Nat)
    (hexp : s.timeout ≤ now - r.sentAt) : s.isInflight r.tid now = false := by
  unfold Inflight.isInflight
  cases hg : s.get r.tid now with
  | none => rfl
  | some r' =>
    have := (C09.get_iff s hi r.tid now (hi.tid_lt r hr) r').1 hg
    obtain ⟨hm, he, hl⟩ := this
    have hsame : r' = r := by
      have h1 := Inflight.find_of_mem s hi r' hm
      rw [he, Inflight.find_of_mem s hi r hr] at h1
      injection h1 with h1; exact h1.symm
    subst hsame
    simp only [Inflight.live, decide_eq_true_eq] at hl
    omega

/-- an id that is not in the table at all is not in flight either -/
theorem absent_not_inflight (s : Inflight) (hi : s.Inv) (tid now : Nat) (htid : tid < two32)
    (h : ∀ r ∈ s.requests, r.tid ≠ tid) : s.isInflight tid now = false := by
  unfold Inflight.isInflight
  cases hg : s.get tid now with
  | none => rfl
  | some r' =>
    obtain ⟨hm, he, _⟩ := (C09.get_iff s hi tid now htid r').1 hg
    exact absurd he (h r' hm)

/-- a started put whose requests are all answered or expired is not pending any more (C08) -/
theorem put_not_pending_when_expired (q : PutQuery) (sock : Inflight) (now : Nat)
    (hs : q.inflight ≠ []) (h : ∀ tid ∈ q.inflight, sock.isInflight tid now = false) :
    q.check sock now ≠ .ok false := by
  intro hc
  have := C08.pending_only_while_outstanding q sock now hc
  rw [(C08.isDone_iff q sock now).2 ⟨hs, h⟩] at this
  cases this

/-! ### what each phase of the tick does to the tables -/

theorem releaseGet_spec (a : Actor) (done : List (Id × List Node)) :
    (a.releaseGetCallers done).core = a.core ∧ (a.releaseGetCallers done).putSenders = a.putSenders ∧
    ∀ t, hasKey (a.releaseGetCallers done).getSenders t ↔ (hasKey a.getSenders t ∧ t ∉ done.map (·.1)) := by
  unfold releaseGetCallers
  induction done generalizing a with
  | nil => exact ⟨rfl, rfl, fun t => by simp⟩
  | cons d ds ih =>
    simp only [List.foldl_cons]
    obtain ⟨i1, i2, i3⟩ := ih (a.releaseGetOne d)
    have h1 : (a.releaseGetOne d).core = a.core ∧ (a.releaseGetOne d).putSenders = a.putSenders ∧
        ∀ t, hasKey (a.releaseGetOne d).getSenders t ↔ (hasKey a.getSenders t ∧ t ≠ d.1) := by
      unfold releaseGetOne
      cases hg : alGet a.getSenders d.1 with
      | none =>
        refine ⟨rfl, rfl, ?_⟩
        intro t
        constructor
        · intro h
          refine ⟨h, ?_⟩
          intro e; subst e
          unfold hasKey at h; rw [hg] at h; cases h
        · exact fun h => h.1
      | some senders =>
        refine ⟨rfl, rfl, ?_⟩
        intro t
        simp only [hasKey_alRemove]
        exact ⟨fun h => ⟨h.2, h.1⟩, fun h => ⟨h.2, h.1⟩⟩
    refine ⟨i1.trans h1.1, i2.trans h1.2.1, ?_⟩
    intro t
    rw [i3 t, h1.2.2 t]
    simp only [List.map_cons, List.mem_cons, not_or]
    exact ⟨fun h => ⟨h.1.1, h.1.2, h.2⟩, fun h => ⟨⟨h.1, h.2.1⟩, h.2.2⟩⟩

theorem releasePut_spec (a : Actor) (done : List (Id × Option PutErr)) :
    (a.releasePutCallers done).core = a.core ∧ (a.releasePutCallers done).getSenders = a.getSenders ∧
    ∀ t, hasKey (a.releasePutCallers done).putSenders t ↔ (hasKey a.putSenders t ∧ t ∉ done.map (·.1)) := by
  unfold releasePutCallers
  induction done generalizing a with
  | nil => exact ⟨rfl, rfl, fun t => by simp⟩
  | cons d ds ih =>
    simp only [List.foldl_cons]
    obtain ⟨i1, i2, i3⟩ := ih (a.releasePutOne d)
    have h1 : (a.releasePutOne d).core = a.core ∧ (a.releasePutOne d).getSenders = a.getSenders ∧
        ∀ t, hasKey (a.releasePutOne d).putSenders t ↔ (hasKey a.putSenders t ∧ t ≠ d.1) := by
      unfold releasePutOne
      cases hg : alGet a.putSenders d.1 with
      | none =>
        refine ⟨rfl, rfl, ?_⟩
        intro t
        constructor
        · intro h
          refine ⟨h, ?_⟩
          intro e; subst e
          unfold hasKey at h; rw [hg] at h; cases h
        · exact fun h => h.1
      | some cs =>
        refine ⟨rfl, rfl, ?_⟩
        intro t
        simp only [hasKey_alRemove]
        exact ⟨fun h => ⟨h.2, h.1⟩, fun h => ⟨h.2, h.1⟩⟩
    refine ⟨i1.trans h1.1, i2.trans h1.2.1, ?_⟩
    intro t
    rw [i3 t, h1.2.2 t]
    simp only [List.map_cons, List.mem_cons, not_or]
    exact ⟨fun h => ⟨h.1.1, h.1.2, h.2⟩, fun h => ⟨⟨h.1, h.2.1⟩, h.2.2⟩⟩

/-- `cleanup_done_queries` unregisters exactly the finished lookups and puts -/
theorem cleanupOneLookup_spec (acc : Core × Option Addr) (d : Id × List Node) :
    (cleanupOneLookup acc d).1.puts = acc.1.puts ∧
    ∀ t, hasKey (cleanupOneLookup acc d).1.iter t ↔ (hasKey acc.1.iter t ∧ t ≠ d.1) := by
  unfold cleanupOneLookup
  cases hg : alGet acc.1.iter d.1 with
  | none =>
    refine ⟨rfl, ?_⟩
    intro t
    constructor
    · intro h
      refine ⟨h, ?_⟩
      intro e; subst e
      unfold hasKey at h; rw [hg] at h; cases h
    · exact fun h => h.1
  | some q =>
    have hc : ∀ (c : Core) (q : IterQuery) (ns : List Node),
        (updateAddressVotes (cacheQuery c q ns) q).1.puts = c.puts ∧
        (updateAddressVotes (cacheQuery c q ns) q).1.iter = c.iter := by
      intro c q ns
      have h1 : (cacheQuery c q ns).puts = c.puts ∧ (cacheQuery c q ns).iter = c.iter := by
        have he : (evictIfFull c).puts = c.puts ∧ (evictIfFull c).iter = c.iter := by
          unfold evictIfFull
          split
          · unfold decrementCached
            split
            · split
              · exact ⟨rfl, rfl⟩
              · split <;> exact ⟨rfl, rfl⟩
            · exact ⟨rfl, rfl⟩
          · exact ⟨rfl, rfl⟩
        unfold cacheQuery
        split
        · exact he
        · unfold countEntry decrementCached
          split <;> (try split) <;> (try split) <;> (try split) <;> (try split) <;> exact he
      unfold updateAddressVotes
      split
      · split
        · exact h1
        · exact h1
      · exact h1
    simp only
    obtain ⟨c1, c2⟩ := hc { acc.1 with iter := alRemove acc.1.iter d.1 } q d.2
    split <;> (refine ⟨c1, ?_⟩; intro t; rw [c2]; simp only [hasKey_alRemove];
               exact ⟨fun h => ⟨h.2, h.1⟩, fun h => ⟨h.2, h.1⟩⟩)

theorem cleanupLookups_spec (done : List (Id × List Node)) (acc : Core × Option Addr) :
    (done.foldl cleanupOneLookup acc).1.puts = acc.1.puts ∧
    ∀ t, hasKey (done.foldl cleanupOneLookup acc).1.iter t ↔ (hasKey acc.1.iter t ∧ t ∉ done.map (·.1)) := by
  induction done generalizing acc with
  | nil => exact ⟨rfl, fun t => by simp⟩
  | cons d ds ih =>
    simp only [List.foldl_cons]
    obtain ⟨i1, i2⟩ := ih (cleanupOneLookup acc d)
    obtain ⟨h1, h2⟩ := cleanupOneLookup_spec acc d
    refine ⟨i1.trans h1, ?_⟩
    intro t
    rw [i2 t, h2 t]
    simp only [List.map_cons, List.mem_cons, not_or]
    exact ⟨fun h => ⟨h.1.1, h.1.2, h.2⟩, fun h => ⟨⟨h.1, h.2.1⟩, h.2.2⟩⟩

theorem removePuts_spec (done : List (Id × Option PutErr)) (c : Core) :
    (done.foldl removePut c).iter = c.iter ∧
    (∀ t, t ∉ done.map (·.1) → alGet (done.foldl removePut c).puts t = alGet c.puts t) ∧
    (∀ t, t ∈ done.map (·.1) → alGet (done.foldl removePut c).puts t = none) := by
  induction done generalizing c with
  | nil => exact ⟨rfl, fun t _ => rfl, fun t h => by simp at h⟩
  | cons d ds ih =>
    simp only [List.foldl_cons]
    obtain ⟨i1, i2, i3⟩ := ih (removePut c d)
    refine ⟨i1, ?_, ?_⟩
    · intro t ht
      simp only [List.map_cons, List.mem_cons, not_or] at ht
      rw [i2 t ht.2]
      exact alGet_alRemove_other c.puts d.1 t ht.1
    · intro t ht
      by_cases hm : t ∈ ds.map (·.1)
      · exact i3 t hm
      · simp only [List.map_cons, List.mem_cons] at ht
        rcases ht with rfl | ht
        · rw [i2 _ hm]; exact alGet_alRemove_self c.puts d.1
        · exact absurd ht hm

theorem cleanupDone_spec (c : Core) (di : List (Id × List Node)) (dp : List (Id × Option PutErr)) :
    (∀ t, hasKey (cleanupDone c di dp).1.iter t ↔ (hasKey c.iter t ∧ t ∉ di.map (·.1))) ∧
    (∀ t, t ∉ dp.map (·.1) → alGet (cleanupDone c di dp).1.puts t = alGet c.puts t) ∧
    (∀ t, t ∈ dp.map (·.1) → alGet (cleanupDone c di dp).1.puts t = none) := by
  unfold cleanupDone
  obtain ⟨l1, l2⟩ := cleanupLookups_spec di (c, none)
  obtain ⟨r1, r2, r3⟩ := removePuts_spec dp (di.foldl cleanupOneLookup (c, none)).1
  refine ⟨?_, ?_, ?_⟩
  · intro t; simp only; rw [r1]; exact l2 t
  · intro t ht; simp only; rw [r2 t ht, l1]
  · intro t ht; exact r3 t ht

/-- whenever `PutQuery::start` reports success the put has requests out -/
theorem start_ok_started (q : PutQuery) (sock : Inflight) (closest : List Node) (now : Nat)
    (h : (q.start sock closest now).2.2.1 = .ok ()) : (q.start sock closest now).1.inflight ≠ [] := by
  unfold PutQuery.start at h ⊢
  split at h
  · rename_i hs
    simp only [hs, ite_true]
    simpa [PutQuery.started] using hs
  · rename_i hs
    simp only [hs, Bool.false_eq_true, ite_false] at h ⊢
    split at h
    · cases h
    · rename_i hc
      simp only [hc, Bool.false_eq_true, ite_false] at h ⊢
      split at h
      · cases h
      · rename_i he
        simp only [he, Bool.false_eq_true, ite_false]
        simpa using he

theorem startPut_frame (a : Actor) (e : PutEntry) (closest : List Node) (now : Nat) :
    (startPut a e closest now).1.core.iter = a.core.iter ∧ (startPut a e closest now).1.core.puts = a.core.puts ∧
    (startPut a e closest now).1.getSenders = a.getSenders ∧ (startPut a e closest now).1.putSenders = a.putSenders ∧
    (startPut a e closest now).2.1.q = (e.q.start a.sock closest now).1 ∧
    (startPut a e closest now).2.2 = (e.q.start a.sock closest now).2.2.1 := by
  unfold startPut
  have hs : ∀ (b : Actor) (spec : PutSpec) (l : List ((Addr × Bytes) × Nat)),
      (sendPuts b spec l).core.iter = b.core.iter ∧ (sendPuts b spec l).core.puts = b.core.puts ∧
      (sendPuts b spec l).getSenders = b.getSenders ∧ (sendPuts b spec l).putSenders = b.putSenders := by
    intro b spec l
    unfold sendPuts
    induction l generalizing b with
    | nil => exact ⟨rfl, rfl, rfl, rfl⟩
    | cons x xs ih =>
      simp only [List.foldl_cons]
      obtain ⟨i1, i2, i3, i4⟩ := ih _
      exact ⟨i1, i2, i3, i4⟩
  obtain ⟨h1, h2, h3, h4⟩ := hs { a with sock := (e.q.start a.sock closest now).2.1 } e.spec
    ((e.q.start a.sock closest now).2.2.2.zip ((e.q.start a.sock closest now).1.inflight.drop e.q.inflight.length))
  exact ⟨h1, h2, h3, h4, rfl, rfl⟩

/-- one finished lookup: the put waiting on it is started or reported failed; nothing else moves -/
theorem startPutOne_spec (now : Nat) (acc : Actor × List (Id × Option PutErr)) (d : Id × List Node) :
    (startPutOne now acc d).1.core.iter = acc.1.core.iter ∧
    (startPutOne now acc d).1.getSenders = acc.1.getSenders ∧
    (startPutOne now acc d).1.putSenders = acc.1.putSenders ∧
    (∀ t, hasKey (startPutOne now acc d).1.core.puts t ↔ hasKey acc.1.core.puts t) ∧
    (∀ t, t ≠ d.1 → alGet (startPutOne now acc d).1.core.puts t = alGet acc.1.core.puts t) ∧
    (∀ e', alGet (startPutOne now acc d).1.core.puts d.1 = some e' →
        e'.q.inflight ≠ [] ∨ d.1 ∈ (startPutOne now acc d).2.map (·.1)) ∧
    (∀ t, t ∈ acc.2.map (·.1) → t ∈ (startPutOne now acc d).2.map (·.1)) := by
  unfold startPutOne
  cases hg : alGet acc.1.core.puts d.1 with
  | none =>
    refine ⟨rfl, rfl, rfl, fun t => Iff.rfl, fun t _ => rfl, ?_, fun t h => h⟩
    intro e' he'
    rw [hg] at he'; cases he'
  | some e =>
    obtain ⟨f1, f2, f3, f4, f5, f6⟩ := startPut_frame acc.1 e d.2 now
    simp only
    have hk : ∀ t, hasKey (alSet (startPut acc.1 e d.2 now).1.core.puts d.1 (startPut acc.1 e d.2 now).2.1) t ↔
        hasKey acc.1.core.puts t := by
      intro t
      rw [hasKey_alSet, f2]
      constructor
      · rintro (rfl | h)
        · unfold hasKey; rw [hg]; rfl
        · exact h
      · exact fun h => Or.inr h
    have ho : ∀ t, t ≠ d.1 →
        alGet (alSet (startPut acc.1 e d.2 now).1.core.puts d.1 (startPut acc.1 e d.2 now).2.1) t =
          alGet acc.1.core.puts t := by
      intro t ht; rw [alGet_alSet_other _ _ _ _ ht, f2]
    cases hr : (startPut acc.1 e d.2 now).2.2 with
    | error err =>
      refine ⟨f1, f3, f4, hk, ho, ?_, ?_⟩
      · intro e' _
        right
        simp
      · intro t ht
        simp only [List.map_append, List.mem_append]
        exact Or.inl ht
    | ok u =>
      refine ⟨f1, f3, f4, hk, ho, ?_, fun t h => h⟩
      intro e' he'
      left
      rw [alGet_alSet_self] at he'
      injection he' with he'
      rw [← he', f5]
      apply start_ok_started
      rw [← f6, hr]

theorem startPuts_spec (now : Nat) (di : List (Id × List Node)) (acc : Actor × List (Id × Option PutErr)) :
    (di.foldl (startPutOne now) acc).1.core.iter = acc.1.core.iter ∧
    (di.foldl (startPutOne now) acc).1.getSenders = acc.1.getSenders ∧
    (di.foldl (startPutOne now) acc).1.putSenders = acc.1.putSenders ∧
    (∀ t, hasKey (di.foldl (startPutOne now) acc).1.core.puts t ↔ hasKey acc.1.core.puts t) ∧
    (∀ t, t ∉ di.map (·.1) → alGet (di.foldl (startPutOne now) acc).1.core.puts t = alGet acc.1.core.puts t) ∧
    (∀ t, t ∈ di.map (·.1) → ∀ e', alGet (di.foldl (startPutOne now) acc).1.core.puts t = some e' →
        e'.q.inflight ≠ [] ∨ t ∈ (di.foldl (startPutOne now) acc).2.map (·.1)) ∧
    (∀ t, t ∈ acc.2.map (·.1) → t ∈ (di.foldl (startPutOne now) acc).2.map (·.1)) := by
  induction di generalizing acc with
  | nil =>
    refine ⟨rfl, rfl, rfl, fun t => Iff.rfl, fun t _ => rfl, ?_, fun t h => h⟩
    intro t ht; simp at ht
  | cons d ds ih =>
    simp only [List.foldl_cons]
    obtain ⟨i1, i2, i3, i4, i5, i6, i7⟩ := ih (startPutOne now acc d)
    obtain ⟨h1, h2, h3, h4, h5, h6, h7⟩ := startPutOne_spec now acc d
    refine ⟨i1.trans h1, i2.trans h2, i3.trans h3, fun t => (i4 t).trans (h4 t), ?_, ?_, fun t h => i7 t (h7 t h)⟩
    · intro t ht
      simp only [List.map_cons, List.mem_cons, not_or] at ht
      rw [i5 t ht.2, h5 t ht.1]
    · intro t ht e' he'
      by_cases hm : t ∈ ds.map (·.1)
      · exact i6 t hm e' he'
      · simp only [List.map_cons, List.mem_cons] at ht
        rcases ht with rfl | ht
        · rw [i5 _ hm] at he'
          rcases h6 e' he' with h | h
          · exact Or.inl h
          · exact Or.inr (i7 _ h)
        · exact absurd ht hm

/-- `visit_closest` sends requests; no table gains or loses a key -/
theorem visitClosest_frame (a : Actor) (target : Id) (now : Nat) :
    (a.visitClosest target now).core.puts = a.core.puts ∧
    (a.visitClosest target now).getSenders = a.getSenders ∧
    (a.visitClosest target now).putSenders = a.putSenders ∧
    (∀ t, hasKey (a.visitClosest target now).core.iter t ↔ hasKey a.core.iter t) := by
  unfold visitClosest
  cases hg : alGet a.core.iter target with
  | none => exact ⟨rfl, rfl, rfl, fun t => Iff.rfl⟩
  | some q =>
    simp only
    obtain ⟨hc, _⟩ := visitAll_core a q q.closestCandidates now
    have hsend : ∀ (b : Actor) (q : IterQuery) (tos : List Addr),
        (b.visitAll q tos now).1.getSenders = b.getSenders ∧ (b.visitAll q tos now).1.putSenders = b.putSenders := by
      intro b q tos
      unfold visitAll
      induction tos generalizing b q with
      | nil => exact ⟨rfl, rfl⟩
      | cons x xs ih =>
        simp only [List.foldl_cons]
        exact ih _ _
    obtain ⟨s1, s2⟩ := hsend a q q.closestCandidates
    refine ⟨by rw [hc], s1, s2, ?_⟩
    intro t
    rw [hasKey_alSet, hc]
    constructor
    · rintro (rfl | h)
      · unfold hasKey; rw [hg]; rfl
      · exact h
    · exact fun h => Or.inr h

theorem visitClosest_fold_frame (l : List (Id × IterQuery)) (a : Actor) (now : Nat) :
    (l.foldl (fun (a : Actor) (p : Id × IterQuery) => a.visitClosest p.1 now) a).core.puts = a.core.puts ∧
    (l.foldl (fun (a : Actor) (p : Id × IterQuery) => a.visitClosest p.1 now) a).getSenders = a.getSenders ∧
    (l.foldl (fun (a : Actor) (p : Id × IterQuery) => a.visitClosest p.1 now) a).putSenders = a.putSenders ∧
    (∀ t, hasKey (l.foldl (fun (a : Actor) (p : Id × IterQuery) => a.visitClosest p.1 now) a).core.iter t ↔
      hasKey a.core.iter t) := by
  induction l generalizing a with
  | nil => exact ⟨rfl, rfl, rfl, fun t => Iff.rfl⟩
  | cons p ps ih =>
    simp only [List.foldl_cons]
    obtain ⟨i1, i2, i3, i4⟩ := ih (a.visitClosest p.1 now)
    obtain ⟨h1, h2, h3, h4⟩ := visitClosest_frame a p.1 now
    exact ⟨i1.trans h1, i2.trans h2, i3.trans h3, fun t => (i4 t).trans (h4 t)⟩

theorem visitClosestAll_frame (a : Actor) (now : Nat) :
    (a.visitClosestAll now).core.puts = a.core.puts ∧
    (a.visitClosestAll now).getSenders = a.getSenders ∧
    (a.visitClosestAll now).putSenders = a.putSenders ∧
    (∀ t, hasKey (a.visitClosestAll now).core.iter t ↔ hasKey a.core.iter t) :=
  visitClosest_fold_frame a.core.iter a now

/-! #### starting a lookup -/

theorem visitAll_senders (b : Actor) (q : IterQuery) (tos : List Addr) (now : Nat) :
    (b.visitAll q tos now).1.getSenders = b.getSenders ∧ (b.visitAll q tos now).1.putSenders = b.putSenders := by
  unfold visitAll
  induction tos generalizing b q with
  | nil => exact ⟨rfl, rfl⟩
  | cons x xs ih =>
    simp only [List.foldl_cons]
    exact ih _ _

/-- `startLookup` registers a lookup for the target and removes nothing -/
theorem startLookup_frame (a : Actor) (k : GetKind) (target : Id) (extra : List Addr) (now : Nat) :
    (a.startLookup k target extra now).core.puts = a.core.puts ∧
    (a.startLookup k target extra now).getSenders = a.getSenders ∧
    (a.startLookup k target extra now).putSenders = a.putSenders ∧
    (∀ t, hasKey a.core.iter t → hasKey (a.startLookup k target extra now).core.iter t) ∧
    hasKey (a.startLookup k target extra now).core.iter target := by
  obtain ⟨_, _, _, c4, c5, _⟩ := createIter_fields a.core k target extra now
  unfold startLookup
  split
  · rename_i core q toVisit hm
    rw [hm] at c4 c5
    simp only at c4 c5
    obtain ⟨s1, s2⟩ := visitAll_senders { a with core := core } q toVisit now
    refine ⟨c5, s1, s2, ?_, ?_⟩
    · intro t ht
      simp only [hasKey_alSet, c4]
      exact Or.inr ht
    · simp only [hasKey_alSet]; exact Or.inl trivial
  · rename_i core hm
    rw [hm] at c4 c5
    simp only at c4 c5
    refine ⟨c5, rfl, rfl, fun t ht => by rw [c4]; exact ht, ?_⟩
    -- no new lookup is only returned when one is already registered
    have : hasKey a.core.iter target := by
      unfold createIterativeQuery at hm
      split at hm
      · rename_i h; exact h
      · simp at hm
    simp only [c4]; exact this

theorem get_frame (a : Actor) (k : GetKind) (target : Id) (extra : List Addr) (now : Nat) :
    (a.get k target extra now).1.core.puts = a.core.puts ∧
    (a.get k target extra now).1.getSenders = a.getSenders ∧
    (a.get k target extra now).1.putSenders = a.putSenders ∧
    (∀ t, hasKey a.core.iter t → hasKey (a.get k target extra now).1.core.iter t) ∧
    hasKey (a.get k target extra now).1.core.iter target := by
  unfold Actor.get
  cases hg : alGet a.core.iter target with
  | some q =>
    refine ⟨rfl, rfl, rfl, fun t h => h, ?_⟩
    unfold hasKey; rw [hg]; rfl
  | none => exact startLookup_frame a k target extra now

theorem populate_frame (a : Actor) (now : Nat) :
    (a.populate now).core.puts = a.core.puts ∧ (a.populate now).getSenders = a.getSenders ∧
    (a.populate now).putSenders = a.putSenders ∧
    (∀ t, hasKey a.core.iter t → hasKey (a.populate now).core.iter t) := by
  unfold populate
  split
  · exact ⟨rfl, rfl, rfl, fun t h => h⟩
  · obtain ⟨g1, g2, g3, g4, _⟩ := get_frame a .findNode a.id [] now
    exact ⟨g1, g2, g3, g4⟩

/-! #### incoming messages -/

theorem handleRequest_frame (c : Core) (env : Env) (src : Addr) (ro : Bool) (version : Option Bytes) (req : Request) :
    (handleRequest c env src ro version req).1.iter = c.iter ∧
    (handleRequest c env src ro version req).1.puts = c.puts := by
  have h1 : (maybeAddNodeFromRequest c src version ro req env.now).iter = c.iter ∧
      (maybeAddNodeFromRequest c src version ro req env.now).puts = c.puts := by
    unfold maybeAddNodeFromRequest
    split
    · split
      · unfold addRequester
        split
        · split <;> exact ⟨rfl, rfl⟩
        · split <;> exact ⟨rfl, rfl⟩
      · exact ⟨rfl, rfl⟩
    · exact ⟨rfl, rfl⟩
  have h2 : ∀ c' : Core, (verifySelfPing c' src req env.now).1.iter = c'.iter ∧
      (verifySelfPing c' src req env.now).1.puts = c'.puts := by
    intro c'
    unfold verifySelfPing
    split
    · split
      · split <;> exact ⟨rfl, rfl⟩
      · exact ⟨rfl, rfl⟩
    · exact ⟨rfl, rfl⟩
  unfold handleRequest
  split
  · exact ⟨rfl, rfl⟩
  · unfold serveRequest
    obtain ⟨a1, a2⟩ := h2 (maybeAddNodeFromRequest c src version ro req env.now)
    split
    · exact ⟨a1.trans h1.1, a2.trans h1.2⟩
    · exact ⟨a1.trans h1.1, a2.trans h1.2⟩

theorem putStep_inflight (q : PutQuery) (m : MessageType) : (putStep q m).inflight = q.inflight := by
  unfold putStep
  split
  · rfl
  · exact (C08.applyEv_fields q (.err _)).1
  · rfl

theorem addResponder_frame (c : Core) (now : Nat) (src : Addr) (m : Message) :
    (addResponder c now src m).iter = c.iter ∧ (addResponder c now src m).puts = c.puts := by
  unfold addResponder
  split
  · split <;> exact ⟨rfl, rfl⟩
  · exact ⟨rfl, rfl⟩

/-- a response changes no table's set of keys, and no put's list of requests -/
theorem handleResponse_frame (c : Core) (env : Env) (src : Addr) (m : Message) :
    (∀ t, hasKey (handleResponse c env src m).1.iter t ↔ hasKey c.iter t) ∧
    (∀ t, hasKey (handleResponse c env src m).1.puts t ↔ hasKey c.puts t) ∧
    (∀ t e', alGet (handleResponse c env src m).1.puts t = some e' → e'.q.inflight = [] →
      alGet c.puts t = some e') := by
  unfold handleResponse
  split
  · exact ⟨fun t => Iff.rfl, fun t => Iff.rfl, fun t e' h _ => h⟩
  · split
    · rename_i target e hf
      have hmem : (target, e) ∈ c.puts := List.mem_of_find?_eq_some hf
      have hk : hasKey c.puts target := hasKey_of_mem c.puts (target, e) hmem
      refine ⟨fun t => Iff.rfl, ?_, ?_⟩
      · intro t
        simp only [hasKey_alSet]
        constructor
        · rintro (rfl | h)
          · exact hk
          · exact h
        · exact fun h => Or.inr h
      · intro t e' he' hempty
        simp only at he'
        by_cases ht : t = target
        · subst ht
          rw [alGet_alSet_self] at he'
          injection he' with he'
          -- the put that owns the transaction id has requests out: it is not an unstarted put
          exfalso
          have hin : e.q.isInflight m.tid.toNat = true := by
            have := List.find?_some hf; simpa using this
          rw [← he'] at hempty
          simp only [putStep_inflight] at hempty
          simp [PutQuery.isInflight, hempty] at hin
        · rw [alGet_alSet_other _ _ _ _ ht] at he'
          exact he'
    · split
      · rename_i target q hf
        have hmem : (target, q) ∈ c.iter := List.mem_of_find?_eq_some hf
        have hk : hasKey c.iter target := hasKey_of_mem c.iter (target, q) hmem
        have hit : ∀ t, hasKey (alSet c.iter target (lookupStep q env src m).1) t ↔ hasKey c.iter t := by
          intro t
          rw [hasKey_alSet]
          constructor
          · rintro (rfl | h)
            · exact hk
            · exact h
          · exact fun h => Or.inr h
        split
        · obtain ⟨r1, r2⟩ := addResponder_frame { c with iter := alSet c.iter target (lookupStep q env src m).1 } env.now src m
          refine ⟨fun t => by rw [r1]; exact hit t, fun t => by rw [r2], fun t e' h _ => by rw [r2] at h; exact h⟩
        · exact ⟨hit, fun t => Iff.rfl, fun t e' h _ => h⟩
      · split
        · obtain ⟨r1, r2⟩ := addResponder_frame c env.now src m
          exact ⟨fun t => by rw [r1], fun t => by rw [r2], fun t e' h _ => by rw [r2] at h; exact h⟩
        · exact ⟨fun t => Iff.rfl, fun t => Iff.rfl, fun t e' h _ => h⟩

theorem sendReply_frame (a : Actor) (src : Addr) (tid : UInt32) (r : Option Reply) :
    (a.sendReply src tid r).core = a.core ∧ (a.sendReply src tid r).getSenders = a.getSenders ∧
    (a.sendReply src tid r).putSenders = a.putSenders := by
  unfold sendReply
  split <;> exact ⟨rfl, rfl, rfl⟩

/-- handling a datagram parks or releases nobody, unregisters no lookup, and leaves every put's
    registration (and every unstarted put) as it was -/
theorem handleIncoming_frame (a : Actor) (env : Env) (handed : Option (Message × Addr)) :
    (a.handleIncoming env handed).1.getSenders = a.getSenders ∧
    (a.handleIncoming env handed).1.putSenders = a.putSenders ∧
    (∀ t, hasKey a.core.iter t → hasKey (a.handleIncoming env handed).1.core.iter t) ∧
    (∀ t, hasKey (a.handleIncoming env handed).1.core.puts t ↔ hasKey a.core.puts t) ∧
    (∀ t e', alGet (a.handleIncoming env handed).1.core.puts t = some e' → e'.q.inflight = [] →
      alGet a.core.puts t = some e') := by
  unfold handleIncoming
  cases handed with
  | none => exact ⟨rfl, rfl, fun t h => h, fun t => Iff.rfl, fun t e' h _ => h⟩
  | some p =>
    obtain ⟨m, src⟩ := p
    simp only
    have hresp : ∀ c' v, (c', v) = handleResponse a.core env src m →
        ({ a with core := c' } : Actor).getSenders = a.getSenders ∧ ({ a with core := c' } : Actor).putSenders = a.putSenders ∧
        (∀ t, hasKey a.core.iter t → hasKey c'.iter t) ∧ (∀ t, hasKey c'.puts t ↔ hasKey a.core.puts t) ∧
        (∀ t e', alGet c'.puts t = some e' → e'.q.inflight = [] → alGet a.core.puts t = some e') := by
      intro c' v hcv
      obtain ⟨h1, h2, h3⟩ := handleResponse_frame a.core env src m
      rw [← hcv] at h1 h2 h3
      exact ⟨rfl, rfl, fun t ht => (h1 t).2 ht, h2, h3⟩
    cases hm : m.mtype with
    | request req =>
      simp only
      obtain ⟨r1, r2⟩ := handleRequest_frame a.core env src m.readOnly m.version req
      obtain ⟨b1, b2, b3⟩ := sendReply_frame { a with core := (handleRequest a.core env src m.readOnly m.version req).1 }
        src m.tid (handleRequest a.core env src m.readOnly m.version req).2.1
      unfold handleIncomingRequest
      split
      · obtain ⟨p1, p2, p3, p4⟩ := populate_frame (sendReply { a with core := (handleRequest a.core env src m.readOnly m.version req).1 }
          src m.tid (handleRequest a.core env src m.readOnly m.version req).2.1) env.now
        refine ⟨p2.trans b2, p3.trans b3, ?_, ?_, ?_⟩
        · intro t ht; apply p4; rw [b1]; simp only; rw [r1]; exact ht
        · intro t; rw [p1, b1]; simp only; rw [r2]
        · intro t e' h _; rw [p1, b1] at h; simp only at h; rw [r2] at h; exact h
      · refine ⟨b2, b3, ?_, ?_, ?_⟩
        · intro t ht; rw [b1]; simp only; rw [r1]; exact ht
        · intro t; rw [b1]; simp only; rw [r2]
        · intro t e' h _; rw [b1] at h; simp only at h; rw [r2] at h; exact h
    | response r => exact hresp _ _ rfl
    | error e => exact hresp _ _ rfl

theorem recvPhase_frame (a : Actor) (now : Nat) (dgram : Option (Message × Addr)) :
    (a.recvPhase now dgram).1.core = a.core ∧ (a.recvPhase now dgram).1.getSenders = a.getSenders ∧
    (a.recvPhase now dgram).1.putSenders = a.putSenders := by
  unfold recvPhase
  cases dgram with
  | none => exact ⟨rfl, rfl, rfl⟩
  | some p => exact ⟨rfl, rfl, rfl⟩

theorem forwardValue_frame (a : Actor) (v : Option (Id × Value)) :
    (a.forwardValue v).core = a.core ∧ (a.forwardValue v).getSenders = a.getSenders ∧
    (a.forwardValue v).putSenders = a.putSenders := by
  unfold forwardValue
  split
  · split <;> exact ⟨rfl, rfl, rfl⟩
  · exact ⟨rfl, rfl, rfl⟩

/-! ### the invariant is kept by the tick -/

theorem preDone_frame (a : Actor) (env : Env) (dgram : Option (Message × Addr)) :
    (a.preDone env dgram).getSenders = a.getSenders ∧ (a.preDone env dgram).putSenders = a.putSenders ∧
    (∀ t, hasKey a.core.iter t → hasKey (a.preDone env dgram).core.iter t) ∧
    (∀ t, hasKey (a.preDone env dgram).core.puts t ↔ hasKey a.core.puts t) ∧
    (∀ t e', alGet (a.preDone env dgram).core.puts t = some e' → e'.q.inflight = [] →
      alGet a.core.puts t = some e') := by
  unfold preDone
  obtain ⟨r1, r2, r3⟩ := recvPhase_frame a env.now dgram
  obtain ⟨h1, h2, h3, h4, h5⟩ := handleIncoming_frame (a.recvPhase env.now dgram).1 env (a.recvPhase env.now dgram).2
  obtain ⟨f1, f2, f3⟩ := forwardValue_frame (handleIncoming (a.recvPhase env.now dgram).1 env (a.recvPhase env.now dgram).2).1
    (handleIncoming (a.recvPhase env.now dgram).1 env (a.recvPhase env.now dgram).2).2
  rw [r1] at h3 h4 h5
  refine ⟨f2.trans (h1.trans r2), f3.trans (h2.trans r3), ?_, ?_, ?_⟩
  · intro t ht; rw [f1]; exact h3 t ht
  · intro t; rw [f1]; exact h4 t
  · intro t e' h he; rw [f1] at h; exact h5 t e' h he

/-- **The tick keeps the invariant**: after the part of a tick that follows `recv_from` — whatever
    datagram arrived, or none — nobody waits on nothing. -/
theorem afterRecv_waits (a : Actor) (hw : Waits a) (env : Env) (dgram : Option (Message × Addr)) :
    Waits (a.afterRecv env dgram) := by
  unfold afterRecv finishTick
  obtain ⟨p1, p2, p3, p4, p5⟩ := preDone_frame a env dgram
  generalize a.preDone env dgram = a3 at p1 p2 p3 p4 p5
  obtain ⟨v1, v2, v3, v4⟩ := visitClosestAll_frame a3 env.now
  generalize a3.checkDonePuts env.now = dp0
  generalize hv : a3.visitClosestAll env.now = a4 at v1 v2 v3 v4
  generalize a4.doneLookups env.now = di
  obtain ⟨s1, s2, s3, s4, s5, s6, _⟩ := startPuts_spec env.now di (a4, dp0)
  have hsp : startPuts a4 env.now di dp0 = di.foldl (startPutOne env.now) (a4, dp0) := rfl
  rw [hsp]
  generalize di.foldl (startPutOne env.now) (a4, dp0) = sp at s1 s2 s3 s4 s5 s6
  obtain ⟨c1, c2, c3⟩ := cleanupDone_spec sp.1.core di sp.2
  generalize cleanupDone sp.1.core di sp.2 = cd at c1 c2 c3
  -- the ping touches nothing we look at
  have hping : ∀ (b : Actor) (to : Option Addr), (b.pingOpt to env.now).core = b.core ∧
      (b.pingOpt to env.now).getSenders = b.getSenders ∧ (b.pingOpt to env.now).putSenders = b.putSenders := by
    intro b to; unfold pingOpt; split <;> exact ⟨rfl, rfl, rfl⟩
  obtain ⟨g1, g2, g3⟩ := hping { sp.1 with core := cd.1 } cd.2
  obtain ⟨rg1, rg2, rg3⟩ := releaseGet_spec (pingOpt { sp.1 with core := cd.1 } cd.2 env.now) di
  obtain ⟨rp1, rp2, rp3⟩ := releasePut_spec
    (releaseGetCallers (pingOpt { sp.1 with core := cd.1 } cd.2 env.now) di) sp.2
  have hcore : (releasePutCallers (releaseGetCallers (pingOpt { sp.1 with core := cd.1 } cd.2 env.now) di) sp.2).core = cd.1 := by
    rw [rp1, rg1, g1]
  refine ⟨?_, ?_, ?_⟩
  · -- getWaits
    intro t ht
    rw [rp2] at ht
    obtain ⟨hg, hnd⟩ := (rg3 t).1 ht
    rw [g2] at hg
    simp only at hg
    rw [s2] at hg
    simp only at hg
    rw [v2, p1] at hg
    have h1 := hw.getWaits t hg
    rw [hcore]
    refine (c1 t).2 ⟨?_, hnd⟩
    rw [s1]
    exact (v4 t).2 (p3 t h1)
  · -- putWaits
    intro t e' he' hempty
    rw [hcore] at he' ⊢
    by_cases hdp : t ∈ sp.2.map (·.1)
    · rw [c3 t hdp] at he'; cases he'
    · rw [c2 t hdp] at he'
      by_cases hdi : t ∈ di.map (·.1)
      · rcases s6 t hdi e' he' with h | h
        · exact absurd hempty h
        · exact absurd h hdp
      · rw [s5 t hdi] at he'
        simp only at he'
        rw [v1] at he'
        have h0 := p5 t e' he' hempty
        have h1 := hw.putWaits t e' h0 hempty
        refine (c1 t).2 ⟨?_, hdi⟩
        rw [s1]
        exact (v4 t).2 (p3 t h1)
  · -- callerWaits
    intro t ht
    obtain ⟨hp, hnd⟩ := (rp3 t).1 ht
    rw [rg2, g3] at hp
    simp only at hp
    rw [s3] at hp
    simp only at hp
    rw [v3, p2] at hp
    have h1 := hw.callerWaits t hp
    rw [hcore]
    unfold hasKey
    rw [c2 t hnd]
    have : hasKey sp.1.core.puts t := by
      rw [s4]; simp only; rw [v1]; exact (p4 t).2 h1
    exact this

/-! ### the invariant is kept by the message pick-up -/

theorem checkConcurrency_spec (c : Core) (spec : PutSpec) :
    (checkConcurrency c spec).1.iter = c.iter ∧ (checkConcurrency c spec).1.cache = c.cache ∧
    ((checkConcurrency c spec).2.isSome = true → (checkConcurrency c spec).1 = c) ∧
    (∀ t, t ≠ spec.target → alGet (checkConcurrency c spec).1.puts t = alGet c.puts t) ∧
    (∀ e', alGet (checkConcurrency c spec).1.puts spec.target = some e' → alGet c.puts spec.target = some e') := by
  cases spec with
  | putMutable target v k seq sig salt cas =>
    simp only [checkConcurrency, PutSpec.target]
    split
    · split
      · split
        · exact ⟨rfl, rfl, fun _ => rfl, fun t _ => rfl, fun e' h => h⟩
        · split
          · exact ⟨rfl, rfl, fun _ => rfl, fun t _ => rfl, fun e' h => h⟩
          · split
            · split
              · refine ⟨rfl, rfl, fun h => by simp at h, fun t ht => alGet_alRemove_other _ _ _ ht, ?_⟩
                intro e' h
                simp only at h
                rw [alGet_alRemove_self] at h; cases h
              · exact ⟨rfl, rfl, fun _ => rfl, fun t _ => rfl, fun e' h => h⟩
            · exact ⟨rfl, rfl, fun _ => rfl, fun t _ => rfl, fun e' h => h⟩
      · exact ⟨rfl, rfl, fun _ => rfl, fun t _ => rfl, fun e' h => h⟩
    · exact ⟨rfl, rfl, fun _ => rfl, fun t _ => rfl, fun e' h => h⟩
  | announcePeer _ _ _ => exact ⟨rfl, rfl, fun _ => rfl, fun t _ => rfl, fun e' h => h⟩
  | announceSignedPeer _ _ _ _ => exact ⟨rfl, rfl, fun _ => rfl, fun t _ => rfl, fun e' h => h⟩
  | putImmutable _ _ => exact ⟨rfl, rfl, fun _ => rfl, fun t _ => rfl, fun e' h => h⟩

/-- what an accepted put leaves behind: a registered put for the target that either has requests out
    or waits on a registered lookup; nothing else moves -/
structure PutAccepted (a a' : Actor) (target : Id) : Prop where
  getSenders : a'.getSenders = a.getSenders
  putSenders : a'.putSenders = a.putSenders
  iterMono : ∀ t, hasKey a.core.iter t → hasKey a'.core.iter t
  registered : ∃ e, alGet a'.core.puts target = some e ∧ (e.q.inflight = [] → hasKey a'.core.iter target)
  others : ∀ t, t ≠ target → alGet a'.core.puts t = alGet a.core.puts t
  shape : Shape a'.core

theorem registerPut_spec (a : Actor) (target : Id) (entry : PutEntry) :
    (registerPut a target entry).getSenders = a.getSenders ∧ (registerPut a target entry).putSenders = a.putSenders ∧
    (registerPut a target entry).core.iter = a.core.iter ∧ (registerPut a target entry).core.cache = a.core.cache ∧
    alGet (registerPut a target entry).core.puts target = some entry ∧
    (∀ t, t ≠ target → alGet (registerPut a target entry).core.puts t = alGet a.core.puts t) :=
  ⟨rfl, rfl, rfl, rfl, alGet_alSet_self _ _ _, fun t ht => alGet_alSet_other _ _ _ _ ht⟩

/-- `Actor::put` after the concurrency check never fails when the shape invariant holds (a fresh
    cache entry always offers a node to write to — this is where the proof forced the `valid_token`
    repair), and registers the put -/
theorem putAfterCheck_spec (a : Actor) (hs : Shape a.core) (spec : PutSpec) (extra : List Node) (now : Nat) :
    (a.putAfterCheck spec extra now).2 = .ok () ∧
    PutAccepted a (a.putAfterCheck spec extra now).1 spec.target := by
  obtain ⟨gs, gn⟩ := getCached_shape a.core hs spec.target now
  obtain ⟨g1, g2, g3, g4, g5, _⟩ := getCached_fields a.core spec.target now
  unfold putAfterCheck
  cases hc : (getCachedClosestNodes a.core spec.target now).2 with
  | some closest =>
    simp only
    obtain ⟨hok, hany⟩ := gn closest hc
    generalize hb : ({ a with core := (getCachedClosestNodes a.core spec.target now).1 } : Actor) = b
    have hbcore : b.core = (getCachedClosestNodes a.core spec.target now).1 := by rw [← hb]
    have hbg : b.getSenders = a.getSenders := by rw [← hb]
    have hbp : b.putSenders = a.putSenders := by rw [← hb]
    obtain ⟨f1, f2, f3, f4, f5, f6⟩ := startPut_frame b (newPutEntry spec extra) closest now
    have hstart : (startPut b (newPutEntry spec extra) closest now).2.2 = .ok () := by
      rw [f6]; exact start_succeeds _ rfl _ _ _ hok hany
    obtain ⟨sc1, sc2⟩ := startPut_core b (newPutEntry spec extra) closest now
    unfold putFromCache
    rw [hstart]
    simp only
    obtain ⟨r1, r2, r3, r4, r5, r6⟩ := registerPut_spec (startPut b (newPutEntry spec extra) closest now).1 spec.target
      (startPut b (newPutEntry spec extra) closest now).2.1
    refine ⟨trivial, ⟨r1.trans (f3.trans hbg), r2.trans (f4.trans hbp), ?_, ?_, ?_, ?_⟩⟩
    · intro t ht; rw [r3, f1, hbcore, g4]; exact ht
    · refine ⟨_, r5, ?_⟩
      intro hempty
      exfalso
      rw [f5] at hempty
      exact start_ok_started _ _ _ _ (by rw [← f6]; exact hstart) hempty
    · intro t ht; rw [r6 t ht, f2, hbcore, g5]
    · exact ⟨by rw [r3, sc1, hbcore]; exact gs.lookups, by rw [r4, sc2, hbcore]; exact gs.cache⟩
  | none =>
    simp only
    generalize hb : ({ a with core := (getCachedClosestNodes a.core spec.target now).1 } : Actor) = b
    have hbcore : b.core = (getCachedClosestNodes a.core spec.target now).1 := by rw [← hb]
    have hbg : b.getSenders = a.getSenders := by rw [← hb]
    have hbp : b.putSenders = a.putSenders := by rw [← hb]
    obtain ⟨q1, q2, q3, q4, q5⟩ := get_frame b (GetKind.ofPut spec) spec.target [] now
    have qs := get_shape b (by rw [hbcore]; exact gs) (GetKind.ofPut spec) spec.target [] now
    obtain ⟨r1, r2, r3, r4, r5, r6⟩ := registerPut_spec (b.get (GetKind.ofPut spec) spec.target [] now).1 spec.target
      (newPutEntry spec extra)
    refine ⟨trivial, ⟨r1.trans (q2.trans hbg), r2.trans (q3.trans hbp), ?_, ?_, ?_, ?_⟩⟩
    · intro t ht; rw [r3]; apply q4; rw [hbcore, g4]; exact ht
    · exact ⟨_, r5, fun _ => by rw [r3]; exact q5⟩
    · intro t ht; rw [r6 t ht, q1, hbcore, g5]
    · exact ⟨by rw [r3]; exact qs.lookups, by rw [r4]; exact qs.cache⟩

/-- both invariants together -/
structure Good (a : Actor) : Prop where
  waits : Waits a
  shape : Shape a.core

theorem hasKey_of_alGet {β} (l : List (Id × β)) (k : Id) (v : β) (h : alGet l k = some v) : hasKey l k := by
  unfold hasKey; rw [h]; rfl

/-- **The pick-up of an API message keeps the invariants** — whatever the call and whatever is
    already in flight (this is where overlapping calls on equal and different targets meet). -/
theorem pickup_good (a : Actor) (hg : Good a) (env : Env) (msg : Option ApiMsg) : Good (a.pickup env msg) := by
  obtain ⟨hw, hs⟩ := hg
  unfold pickup
  split
  · exact ⟨hw, hs⟩
  · exact ⟨hw, hs⟩
  · exact ⟨⟨hw.getWaits, hw.putWaits, hw.callerWaits⟩, hs⟩
  · -- put
    rename_i c spec extra
    obtain ⟨k1, k2, k3, k4, k5⟩ := checkConcurrency_spec a.core spec
    unfold pickupPut Actor.put
    cases hcc : (checkConcurrency a.core spec).2 with
    | some e =>
      simp only
      have : (checkConcurrency a.core spec).1 = a.core := k3 (by rw [hcc]; rfl)
      rw [this]
      exact ⟨⟨hw.getWaits, hw.putWaits, hw.callerWaits⟩, hs⟩
    | none =>
      simp only
      generalize hb : ({ a with core := (checkConcurrency a.core spec).1 } : Actor) = b
      have hbcore : b.core = (checkConcurrency a.core spec).1 := by rw [← hb]
      have hbg : b.getSenders = a.getSenders := by rw [← hb]
      have hbp : b.putSenders = a.putSenders := by rw [← hb]
      have hbs : Shape b.core := by rw [hbcore]; exact shape_of_eq _ _ hs k1 k2
      obtain ⟨hok, hacc⟩ := putAfterCheck_spec b hbs spec extra env.now
      rw [hok]
      simp only
      obtain ⟨e, he, hewait⟩ := hacc.registered
      refine ⟨⟨?_, ?_, ?_⟩, hacc.shape⟩
      · intro t ht
        have : hasKey a.getSenders t := by
          simp only [parkPutCaller] at ht; rw [hacc.getSenders, hbg] at ht; exact ht
        apply hacc.iterMono
        rw [hbcore, k1]
        exact hw.getWaits t this
      · intro t e' he' hempty
        simp only [parkPutCaller] at he' ⊢
        by_cases ht : t = spec.target
        · subst ht
          rw [he] at he'
          injection he' with he'
          subst he'
          exact hewait hempty
        · rw [hacc.others t ht, hbcore, k4 t ht] at he'
          apply hacc.iterMono
          rw [hbcore, k1]
          exact hw.putWaits t e' he' hempty
      · intro t ht
        simp only [parkPutCaller] at ht ⊢
        by_cases htt : t = spec.target
        · subst htt; exact hasKey_of_alGet _ _ _ he
        · rw [hasKey_alSet] at ht
          rcases ht with h | h
          · exact absurd h htt
          · rw [hacc.putSenders, hbp] at h
            have := hw.callerWaits t h
            unfold hasKey
            rw [hacc.others t htt, hbcore, k4 t htt]
            exact this
  · -- get
    rename_i kind target sender
    unfold pickupGet
    obtain ⟨q1, q2, q3, q4, q5⟩ := get_frame a kind target [] env.now
    have qs := get_shape a hs kind target [] env.now
    refine ⟨⟨?_, ?_, ?_⟩, qs⟩
    · intro t ht
      simp only [parkGetCaller] at ht ⊢
      rw [hasKey_alSet] at ht
      rcases ht with rfl | h
      · exact q5
      · rw [q2] at h; exact q4 t (hw.getWaits t h)
    · intro t e' he' hempty
      simp only [parkGetCaller] at he' ⊢
      rw [q1] at he'
      exact q4 t (hw.putWaits t e' he' hempty)
    · intro t ht
      simp only [parkGetCaller] at ht ⊢
      rw [q3] at ht
      rw [q1]
      exact hw.callerWaits t ht

/-- maintenance only ever adds lookups -/
theorem maintenance_good (a : Actor) (hg : Good a) (now : Nat) : Good (a.maintenance now) := by
  have hpop : ∀ b : Actor, Good b → Good (b.populate now) := by
    intro b ⟨hw, hs⟩
    obtain ⟨p1, p2, p3, p4⟩ := populate_frame b now
    refine ⟨⟨?_, ?_, ?_⟩, populate_shape b hs now⟩
    · intro t ht; rw [p2] at ht; exact p4 t (hw.getWaits t ht)
    · intro t e' he' hempty; rw [p1] at he'; exact p4 t (hw.putWaits t e' he' hempty)
    · intro t ht; rw [p3] at ht; rw [p1]; exact hw.callerWaits t ht
  unfold maintenance
  have h1 : Good (a.bootstrapIfEmpty now) := by
    unfold bootstrapIfEmpty; split
    · exact hpop a hg
    · exact hg
  have h2 : Good ((a.bootstrapIfEmpty now).refreshTable now) := by
    unfold refreshTable
    split
    · apply hpop
      obtain ⟨hw, hs⟩ := h1
      unfold adaptiveSwitch
      split
      · exact ⟨⟨hw.getWaits, hw.putWaits, hw.callerWaits⟩, ⟨hs.lookups, hs.cache⟩⟩
      · exact ⟨⟨hw.getWaits, hw.putWaits, hw.callerWaits⟩, ⟨hs.lookups, hs.cache⟩⟩
    · exact h1
  generalize (a.bootstrapIfEmpty now).refreshTable now = b at h2
  unfold pingTable
  split
  · have hfold : ∀ (l : List Addr) (x : Actor), (l.foldl (fun a addr => a.ping addr now) x).core = x.core ∧
        (l.foldl (fun a addr => a.ping addr now) x).getSenders = x.getSenders ∧
        (l.foldl (fun a addr => a.ping addr now) x).putSenders = x.putSenders := by
      intro l
      induction l with
      | nil => intro x; exact ⟨rfl, rfl, rfl⟩
      | cons y ys ih =>
        intro x
        simp only [List.foldl_cons]
        obtain ⟨i1, i2, i3⟩ := ih (x.ping y now)
        exact ⟨i1, i2, i3⟩
    obtain ⟨f1, f2, f3⟩ := hfold (pingRound { b.core with lastPing := now } now).2
      { b with core := (pingRound { b.core with lastPing := now } now).1 }
    obtain ⟨hw, hs⟩ := h2
    refine ⟨⟨?_, ?_, ?_⟩, ?_⟩
    · intro t ht; rw [f2] at ht; rw [f1]; exact hw.getWaits t ht
    · intro t e' he' hempty; rw [f1] at he' ⊢; exact hw.putWaits t e' he' hempty
    · intro t ht; rw [f3] at ht; rw [f1]; exact hw.callerWaits t ht
    · rw [f1]; exact ⟨hs.lookups, hs.cache⟩
  · exact h2

/-- **One iteration of the actor loop keeps the invariants.** -/
theorem step_good (a : Actor) (hg : Good a) (env : Env) (dgram : Option (Message × Addr)) (msg : Option ApiMsg) :
    Good (a.step env dgram msg) := by
  unfold Actor.step
  have h1 : Good (a.afterRecv env dgram) := ⟨afterRecv_waits a hg.waits env dgram, afterRecv_shape a hg.shape env dgram⟩
  have h2 := pickup_good _ h1 env msg
  have h3 := maintenance_good _ h2 env.now
  exact ⟨⟨h3.waits.getWaits, h3.waits.putWaits, h3.waits.callerWaits⟩, ⟨h3.shape.lookups, h3.shape.cache⟩⟩

theorem fresh_good (core : Core) (m : Bool) (h1 : core.iter = []) (h2 : core.puts = []) (h3 : core.cache.items = []) :
    Good { sockServerMode := m, core := core } := by
  refine ⟨⟨?_, ?_, ?_⟩, ⟨?_, ?_⟩⟩
  · intro t ht; cases ht
  · intro t e' he'; rw [h2] at he'; cases he'
  · intro t ht; cases ht
  · intro p hp; rw [h1] at hp; cases hp
  · intro p hp; rw [h3] at hp; cases hp

theorem good_of_sock (a : Actor) (h : Good a) (s : Inflight) : Good { a with sock := s } :=
  ⟨⟨h.waits.getWaits, h.waits.putWaits, h.waits.callerWaits⟩, ⟨h.shape.lookups, h.shape.cache⟩⟩

/-- a freshly created node -/
theorem create_good (cfg : NodeConfig) (seed : UInt64) (now : Nat) : Good (Actor.create cfg seed now) := by
  unfold Actor.create
  split <;>
  · simp only
    apply good_of_sock
    apply maintenance_good
    exact good_of_sock _ (fresh_good _ _ rfl rfl rfl) _

/-- **Every reachable state.** Whatever datagrams arrive (lost, duplicated, reordered, delayed, forged),
    whenever the clock advances, whatever API calls are queued and however they overlap: after any
    number of loop iterations every parked caller waits on registered work and every registered put
    that has sent nothing waits on a registered lookup. -/
theorem reachable_good (cfg : NodeConfig) (seed : UInt64) (t0 : Nat)
    (steps : List (Env × Option (Message × Addr) × Option ApiMsg)) :
    Good (steps.foldl (fun a s => a.step s.1 s.2.1 s.2.2) (Actor.create cfg seed t0)) := by
  have : ∀ (l : List (Env × Option (Message × Addr) × Option ApiMsg)) (a : Actor), Good a →
      Good (l.foldl (fun a s => a.step s.1 s.2.1 s.2.2) a) := by
    intro l
    induction l with
    | nil => intro a h; exact h
    | cons s ss ih => intro a h; simp only [List.foldl_cons]; exact ih _ (step_good a h s.1 s.2.1 s.2.2)
  exact this steps _ (create_good cfg seed t0)


/-- **T1 obligation — the two facades are twins.**  The correspondence streams drive the async facade
    (`AsyncDht`); the sync facade (`Dht`) is covered through this obligation: method by method its body
    equals the async one after normalisation (`.await`, `recv_async`, stream/iterator wrappers), as read
    from the working tree by `tools/facade_twins.py` on every run. -/
theorem facade_twins_agree : Mainline.Gen.facadeTwins.all (·.2) = true := by decide

end Mainline.Props.C06
