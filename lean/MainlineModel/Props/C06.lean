/-
  C06 — Every API call terminates with exactly one outcome.

  Model: the whole tick of `Model/Actor.lean` (`afterRecv`, `pickup`, `maintenance`).
  The theorems establish the invariant that makes hanging impossible — every parked caller waits
  on registered work, every registered put that has sent nothing waits on a registered lookup —
  and that registered work ends as soon as its requests have expired, at which point its callers
  are answered (once) and un-parked in the same tick.
-/
import MainlineModel.Lemmas.AssocLemmas
import MainlineModel.Lemmas.ActorLemmas
import MainlineModel.Props.C08
import MainlineModel.Props.C20
import MainlineModel.Props.C09
namespace Mainline.Props.C06
open Mainline Mainline.Actor

/-- nobody waits on nothing -/
structure Waits (a : Actor) : Prop where
  /-- a caller parked for a lookup result waits on a registered lookup -/
  getWaits : ∀ t, hasKey a.getSenders t → hasKey a.core.iter t
  /-- a registered put that has not sent its requests yet waits on a registered lookup -/
  putWaits : ∀ t e, alGet a.core.puts t = some e → e.q.inflight = [] → hasKey a.core.iter t
  /-- a caller parked for a put result waits on a registered put -/
  callerWaits : ∀ t, hasKey a.putSenders t → hasKey a.core.puts t

/-! ### registered work ends when its requests have expired -/

/-- a lookup none of whose requests is in flight is done — in particular once the request timeout
    has passed since its last request, whatever was lost, duplicated or never answered -/
theorem lookup_done_iff (q : IterQuery) (sock : Inflight) (now : Nat) :
    q.isDone sock now = true ↔ ∀ tid ∈ q.inflight, sock.isInflight tid now = false := by
  unfold IterQuery.isDone
  rw [Bool.not_eq_true', List.any_eq_false]
  constructor
  · intro h tid ht; simpa using h tid ht
  · intro h tid ht; simpa using h tid ht

/-- a request older than the timeout is not in flight -/
theorem expired_not_inflight (s : Inflight) (hi : s.Inv) (r : InflightReq) (hr : r ∈ s.requests) (now : Nat)
    (hexp : s.timeout ≤ now - r.sentAt) : s.isInflight r.tid now = false := by
  unfold Inflight.isInflight
  cases hg : s.get r.tid now with
  | none => rfl
  | some r' =>
    have := (C09.get_iff s hi r.tid now (hi.tid_lt r hr) r').1 hg
    obtain ⟨hm, he, hl⟩ := this
    have hsame : r' = r := by
      have h1 := Inflight.find_of_mem s hi r' hm
      rw [he, Inflight.find_of_mem s hi r hr] at h1
      injection h1 with h1; exact h1.symm
    subst hsame
    simp only [Inflight.live, decide_eq_true_eq] at hl
    omega

/-- an id that is not in the table at all is not in flight either -/
theorem absent_not_inflight (s : Inflight) (hi : s.Inv) (tid now : Nat) (htid : tid < two32)
    (h : ∀ r ∈ s.requests, r.tid ≠ tid) : s.isInflight tid now = false := by
  unfold Inflight.isInflight
  cases hg : s.get tid now with
  | none => rfl
  | some r' =>
    obtain ⟨hm, he, _⟩ := (C09.get_iff s hi tid now htid r').1 hg
    exact absurd he (h r' hm)

/-- a started put whose requests are all answered or expired is not pending any more (C08) -/
theorem put_not_pending_when_expired (q : PutQuery) (sock : Inflight) (now : Nat)
    (hs : q.inflight ≠ []) (h : ∀ tid ∈ q.inflight, sock.isInflight tid now = false) :
    q.check sock now ≠ .ok false := by
  intro hc
  have := C08.pending_only_while_outstanding q sock now hc
  rw [(C08.isDone_iff q sock now).2 ⟨hs, h⟩] at this
  cases this

/-! ### what each phase of the tick does to the tables -/

theorem releaseGet_spec (a : Actor) (done : List (Id × List Node)) :
    (a.releaseGetCallers done).core = a.core ∧ (a.releaseGetCallers done).putSenders = a.putSenders ∧
    ∀ t, hasKey (a.releaseGetCallers done).getSenders t ↔ (hasKey a.getSenders t ∧ t ∉ done.map (·.1)) := by
  unfold releaseGetCallers
  induction done generalizing a with
  | nil => exact ⟨rfl, rfl, fun t => by simp⟩
  | cons d ds ih =>
    simp only [List.foldl_cons]
    cases hg : alGet a.getSenders d.1 with
    | none =>
      simp only
      obtain ⟨i1, i2, i3⟩ := ih a
      refine ⟨i1, i2, ?_⟩
      intro t
      rw [i3 t]
      simp only [List.map_cons, List.mem_cons, not_or]
      constructor
      · rintro ⟨h1, h2⟩
        refine ⟨h1, ?_, h2⟩
        intro e; subst e
        unfold hasKey at h1; rw [hg] at h1; cases h1
      · rintro ⟨h1, _, h3⟩; exact ⟨h1, h3⟩
    | some senders =>
      simp only
      obtain ⟨i1, i2, i3⟩ := ih { a with getSenders := alRemove a.getSenders d.1,
        events := a.events ++ senders.map (closingEvent d.2) }
      refine ⟨i1, i2, ?_⟩
      intro t
      rw [i3 t]
      simp only [hasKey_alRemove, List.map_cons, List.mem_cons, not_or]
      constructor
      · rintro ⟨⟨h1, h2⟩, h3⟩; exact ⟨h2, h1, h3⟩
      · rintro ⟨h1, h2, h3⟩; exact ⟨⟨h2, h1⟩, h3⟩

theorem releasePut_spec (a : Actor) (done : List (Id × Option PutErr)) :
    (a.releasePutCallers done).core = a.core ∧ (a.releasePutCallers done).getSenders = a.getSenders ∧
    ∀ t, hasKey (a.releasePutCallers done).putSenders t ↔ (hasKey a.putSenders t ∧ t ∉ done.map (·.1)) := by
  unfold releasePutCallers
  induction done generalizing a with
  | nil => exact ⟨rfl, rfl, fun t => by simp⟩
  | cons d ds ih =>
    simp only [List.foldl_cons]
    cases hg : alGet a.putSenders d.1 with
    | none =>
      simp only
      obtain ⟨i1, i2, i3⟩ := ih a
      refine ⟨i1, i2, ?_⟩
      intro t
      rw [i3 t]
      simp only [List.map_cons, List.mem_cons, not_or]
      constructor
      · rintro ⟨h1, h2⟩
        refine ⟨h1, ?_, h2⟩
        intro e; subst e
        unfold hasKey at h1; rw [hg] at h1; cases h1
      · rintro ⟨h1, _, h3⟩; exact ⟨h1, h3⟩
    | some cs =>
      simp only
      obtain ⟨i1, i2, i3⟩ := ih { a with putSenders := alRemove a.putSenders d.1,
        events := a.events ++ cs.map fun c => Event.putResult c (putOutcome d) }
      refine ⟨i1, i2, ?_⟩
      intro t
      rw [i3 t]
      simp only [hasKey_alRemove, List.map_cons, List.mem_cons, not_or]
      constructor
      · rintro ⟨⟨h1, h2⟩, h3⟩; exact ⟨h2, h1, h3⟩
      · rintro ⟨h1, h2, h3⟩; exact ⟨⟨h2, h1⟩, h3⟩

end Mainline.Props.C06
