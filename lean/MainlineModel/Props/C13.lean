/-
  C13 — Joining works: bootstrap populates tables and connects the network.

  FULL STATEMENT (not proved as one theorem — see `C13_statement` below and DESIGN.md §11.6): in every
  network of live servers and joining nodes, every join ends with a non-empty table, the first node
  learns its joiners, the knows-graph of the live nodes stays strongly connected, with up to 20
  servers every lookup queries every server, and an unreachable bootstrap list yields "not
  bootstrapped" instead of a hang.

  PROVED HERE (`…_partial`): every step of the join handshake at the two nodes involved, for every
  state of those nodes — the joiner asks each bootstrap address for its own id at creation and
  whenever its table is empty; a server answers `find_node`; the first node of a network adds the
  requester; the joiner adds whoever answers; a lookup whose requests all expired is done (so an
  unreachable bootstrap list cannot hang: C06).  What is missing is the composition over a whole
  network (a multi-node model with message delivery), which the `mnet` stream observes — except the
  20-server clause, proved on the lookup's history (`upto20_every_reachable_server_queried_partial`).
-/
import MainlineModel.Props.C06
import MainlineModel.Props.C14
import MainlineModel.Model.Net
import MainlineModel.Props.C07
namespace Mainline.Props.C13
open Mainline Mainline.Actor

/-! ### the full statement, on the honest network (not proved as a whole) -/

/-- a first node (no bootstrap list, server mode) at `sAddr` and a joiner bootstrapping from it, then
    `rounds` rounds of the honest, loss-free network -/
def joinNet (verify : Verify) (t0 : Nat) (sAddr jAddr : Addr) (sSeed jSeed : UInt64) (jServer : Bool) (rounds : Nat) : Net :=
  let first : Actor := Actor.create { serverMode := true, bootstrap := [], publicIp := none } sSeed t0
  let joiner : Actor := Actor.create { serverMode := jServer, bootstrap := [sAddr], publicIp := none } jSeed t0
  (Net.settle verify 5000000 rounds (Net.collect { now := t0, nodes := [(sAddr, first), (jAddr, joiner)] })).1

/-- **C13 for one join** (the network-level clauses — strong connectivity of the knows-graph, every
    server queried in networks of up to 20 — quantify this over sequences of joins): after the
    join has settled the joiner's table is non-empty, and a server-mode joiner is known to the
    first node -/
def C13_statement : Prop :=
  ∀ (verify : Verify) (t0 : Nat) (sAddr jAddr : Addr) (sSeed jSeed : UInt64) (jServer : Bool) (rounds : Nat),
    sAddr ≠ jAddr → sAddr.port ≠ 0 → jAddr.port ≠ 0 → 2 ≤ rounds →
    (∃ j, (joinNet verify t0 sAddr jAddr sSeed jSeed jServer rounds).node? jAddr = some j ∧ j.core.rt.isEmpty = false) ∧
    (jServer = true → ∃ s, (joinNet verify t0 sAddr jAddr sSeed jSeed jServer rounds).node? sAddr = some s ∧
      ∃ e ∈ s.core.rt.nodes, e.addr = jAddr)

/-! ### the joiner asks -/

theorem visit_out (a : Actor) (q : IterQuery) (to : Addr) (now : Nat) :
    ∃ m, (a.visit q to now).1.out = a.out ++ [(to, m)] ∧ m.mtype = .request q.request := ⟨_, rfl, rfl⟩

theorem visit_request_fixed (a : Actor) (q : IterQuery) (to : Addr) (now : Nat) :
    (a.visit q to now).2.request = q.request := rfl

/-- `visitAll` sends the lookup's request to every address of the list (and keeps what was sent) -/
theorem visitAll_sends (a : Actor) (q : IterQuery) (tos : List Addr) (now : Nat) :
    (∀ x ∈ tos, ∃ m, (x, m) ∈ (a.visitAll q tos now).1.out ∧ m.mtype = .request q.request) ∧
    (∀ x ∈ a.out, x ∈ (a.visitAll q tos now).1.out) := by
  unfold visitAll
  induction tos generalizing a q with
  | nil => exact ⟨fun x h => (by cases h), fun x h => h⟩
  | cons t ts ih =>
    simp only [List.foldl_cons]
    obtain ⟨i1, i2⟩ := ih (a.visit q t now).1 (a.visit q t now).2
    obtain ⟨m, hm, hreq⟩ := visit_out a q t now
    refine ⟨?_, ?_⟩
    · intro y hy
      rcases List.mem_cons.1 hy with rfl | h
      · exact ⟨m, i2 _ (by rw [hm]; simp), hreq⟩
      · obtain ⟨m', hm', hr'⟩ := i1 y h
        exact ⟨m', hm', by rw [hr', visit_request_fixed]⟩
    · intro x hx
      exact i2 x (by rw [hm]; exact List.mem_append_left _ hx)

/-- a new lookup seeded with nothing asks every bootstrap address: `create_iterative_query` appends
    the bootstrap list whenever there are fewer candidates than bootstrap nodes -/
theorem createIter_visits_bootstrap_partial (c : Core) (k : GetKind) (target : Id) (extra : List Addr) (now : Nat)
    (q : IterQuery) (tv : List Addr) (h : (createIterativeQuery c k target extra now).2 = some (q, tv))
    (hfew : q.closest.nodes.isEmpty = true ∨ q.closest.nodes.length < c.bootstrap.length) :
    ∀ b ∈ c.bootstrap, b ∈ tv := by
  unfold createIterativeQuery at h
  split at h
  · cases h
  · simp only at h
    injection h with h
    injection h with hq htv
    rw [← htv]
    intro b hb
    have hcond : (q.closest.nodes.isEmpty || decide (q.closest.nodes.length < c.bootstrap.length)) = true := by
      rcases hfew with h1 | h1
      · simp [h1]
      · simp [h1]
    rw [← hq] at hcond
    have hbs : (getCachedClosestNodes c target now).1.bootstrap = c.bootstrap := (getCached_fields c target now).2.2.2.2.2.2.2.2
    simp only [hbs] at hcond ⊢
    simp only [hcond, ite_true, List.mem_append]
    exact Or.inl (Or.inr hb)

/-- **the lookup that a node starts is sent to every address it decided to visit** -/
theorem startLookup_sends_partial (a : Actor) (k : GetKind) (target : Id) (extra : List Addr) (now : Nat)
    (q : IterQuery) (tv : List Addr) (h : (createIterativeQuery a.core k target extra now).2 = some (q, tv)) :
    ∀ x ∈ tv, ∃ m, (x, m) ∈ (a.startLookup k target extra now).out ∧ m.mtype = .request q.request := by
  unfold startLookup
  cases hc : createIterativeQuery a.core k target extra now with
  | mk core made =>
    rw [hc] at h
    simp only at h
    subst h
    simp only
    exact (visitAll_sends { a with core := core } q tv now).1

/-! ### the server answers, and the first node learns the requester -/

/-- a server answers `find_node` with its own id and its closest nodes -/
theorem server_answers_find_node_partial (c : Core) (hs : c.serverMode = true) (env : Env) (src : Addr)
    (version : Option Bytes) (rid target : Id) (ro : Bool)
    (ha : c.allow { requesterId := rid, rtype := .findNode target } src = true) :
    ∃ nodes, (handleRequest c env src ro version { requesterId := rid, rtype := .findNode target }).2.1 =
      some (.response (.findNode (handleRequest c env src ro version { requesterId := rid, rtype := .findNode target }).1.rt.id nodes)) := by
  have hsm : ∀ c' : Core, (verifySelfPing c' src { requesterId := rid, rtype := .findNode target } env.now) = (c', false) := by
    intro c'
    unfold verifySelfPing
    split
    · simp [isPingReq]
    · rfl
  have hm : (maybeAddNodeFromRequest c src version ro { requesterId := rid, rtype := .findNode target } env.now).serverMode = true := by
    unfold maybeAddNodeFromRequest
    split
    · simp only
      unfold addRequester
      split
      · split <;> exact hs
      · split <;> exact hs
    · exact hs
  have hma := maybeAdd_allow c src version ro { requesterId := rid, rtype := .findNode target } env.now
  unfold handleRequest
  simp only [ha, Bool.not_true, Bool.false_eq_true, ite_false]
  unfold serveRequest
  rw [hsm]
  simp only [hm, ite_true]
  unfold Server.handleRequest
  simp only [hma, ha, Bool.not_true, Bool.false_eq_true, ite_false]
  split <;> exact ⟨_, rfl⟩

/-- the first node of a network (no bootstrap list) offers every non-read-only `find_node`
    requester to its routing table, under the id the requester is looking for (its own) -/
theorem first_node_learns_requester_partial (c : Core) (hs : c.serverMode = true) (hb : c.bootstrap.isEmpty = true)
    (src : Addr) (version : Option Bytes) (rid target : Id) (now : Nat) :
    (maybeAddNodeFromRequest c src version false { requesterId := rid, rtype := .findNode target } now).rt =
      (c.rt.add { id := target, addr := src, lastSeen := now } now).1 := by
  unfold maybeAddNodeFromRequest
  simp only [hs, Bool.not_false, Bool.and_self, ite_true]
  unfold addRequester
  simp only [hb, ite_true]
  split <;> rfl

/-! ### the joiner learns whoever answers -/

/-- a response that belongs to one of the node's lookups adds its author (unless it carried forged
    signed peers) to the routing table -/
theorem responder_is_added_partial (c : Core) (env : Env) (src : Addr) (m : Message) (hro : m.readOnly = false)
    (hnp : c.puts.find? (fun p => p.2.q.isInflight m.tid.toNat) = none)
    (target : Id) (q : IterQuery) (hq : c.iter.find? (fun p => p.2.isInflight m.tid.toNat) = some (target, q))
    (hadd : (lookupStep q env src m).2.2 = true) (i : Id) (hauthor : authorId m = some i) :
    (handleResponse c env src m).1.rt = (c.rt.add { id := i, addr := src, lastSeen := env.now } env.now).1 := by
  unfold handleResponse
  simp only [hro, Bool.false_eq_true, ite_false, hnp, hq, hadd, ite_true]
  unfold addResponder
  simp only [hauthor]
  split <;> rfl

/-! ### no hang on an unreachable bootstrap list -/

/-- once the bootstrap requests have expired the bootstrap lookup is done; it is then unregistered
    and its callers (`bootstrapped()` waits on it) are answered in that tick (C06, C20) -/
theorem unreachable_bootstrap_ends_partial (q : IterQuery) (sock : Inflight) (hi : sock.Inv) (now : Nat)
    (h : ∀ tid ∈ q.inflight, tid < two32 ∧ ∀ r ∈ sock.requests, r.tid = tid → sock.timeout ≤ now - r.sentAt) :
    q.isDone sock now = true := by
  rw [C06.lookup_done_iff]
  intro tid ht
  obtain ⟨hlt, hexp⟩ := h tid ht
  by_cases hex : ∃ r ∈ sock.requests, r.tid = tid
  · obtain ⟨r, hr, he⟩ := hex
    rw [← he]
    exact C06.expired_not_inflight sock hi r hr now (hexp r hr he)
  · exact C06.absent_not_inflight sock hi tid now hlt (fun r hr he => hex ⟨r, hr, he⟩)


/-! ### "with up to 20 servers a lookup started on any node queries every server" -/

/-- **The 20-server clause, on the lookup's history** (proved in `Props/C07.lean`): in a loss-free
    honest network of at most 20 nodes, a lookup that ends closed has queried every node reachable,
    through the servers' answers, from any address it queried — every server, when the knows-graph
    is strongly connected and the lookup queried at least one of them.  `_partial`: the statement is
    about the lookup's operations (`C07.lrun`), which are exactly what the model actor applies to its
    lookups (`C07.step_iter`, `C07.node_lookup_closure`); loss-free delivery is a hypothesis. -/
theorem upto20_every_reachable_server_queried_partial (U : Id → Addr → Prop) (hU : C07.Honest U) (univ : List Id)
    (huniv : ∀ i a, U i a → i ∈ univ) (hsmall : univ.length ≤ Constants.K)
    (q0 : IterQuery) (h0 : C07.CandOk U q0) (ops : List C07.LOp) (hops : C07.AllIn U (C07.listed ops))
    (hcl : C07.Closed (C07.lrun q0 ops)) (answers : Addr → Option (List Node))
    (hloss : C07.LossFree answers q0 ops) :
    ∀ a b, a ∈ (C07.lrun q0 ops).visited → C07.Reaches answers a b → b ∈ (C07.lrun q0 ops).visited :=
  C07.small_network_reachable_queried U hU univ huniv hsmall q0 h0 ops hops hcl answers hloss

end Mainline.Props.C13
