/-
  C07 at the level of the wire: the closest candidates were asked.

  `C07.AllClosed` (every registered lookup has marked the 20 closest candidates it knows as visited, at the
  end of every iteration) speaks about the lookup's own bookkeeping.  `Lemmas/VisLemmas.lean` ties that
  bookkeeping to the log of datagrams the node has put on the wire: an address is only ever marked
  visited together with a request datagram to it that carries the lookup's request (`VisLog`, kept by
  every iteration).  Together: in every reachable state, for every registered lookup and each of the 20
  closest candidates it knows, the log holds a request datagram to that candidate's address with exactly
  the lookup's request (`reachable_closest_were_asked`).
-/
import MainlineModel.Lemmas.VisLemmas
import MainlineModel.Props.C06Time
namespace Mainline.Props.C07Asked
open Mainline Mainline.Actor Mainline.Props.C06Time

theorem fresh_visLog (core : Core) (m : Bool) (n : Nat) (h1 : core.iter = []) :
    VisLog { sockServerMode := m, core := core, sock := { nextTid := n } } := by
  intro p h; rw [h1] at h; cases h

theorem boot_visLog (a0 : Actor) (now : Nat) (h0 : VisLog a0)
    (hb : a0.sock.nextTid + (({ (a0.maintenance now) with sock := (a0.maintenance now).sock.cleanup now } : Actor).out.length
      - a0.out.length) < two32) :
    VisLog { (a0.maintenance now) with sock := (a0.maintenance now).sock.cleanup now } :=
  ((maintenance_advV a0 now).trans (cleanup_advV (a0.maintenance now) now)).keep hb h0

theorem create_visLog (cfg : NodeConfig) (seed : UInt64) (now : Nat)
    (hb : cfg.firstTid % two32 + (Actor.create cfg seed now).out.length < two32) :
    VisLog (Actor.create cfg seed now) := by
  unfold Actor.create at hb ⊢
  split at hb <;>
  · simp only at hb ⊢
    apply boot_visLog
    · exact fresh_visLog _ _ _ rfl
    · simpa using hb

theorem run_visLog (T : Nat) (ins : List StepIn) : ∀ (a : Actor) (now0 : Nat), VisLog a → RunOk T a now0 ins →
    VisLog (runSteps a ins) := by
  induction ins with
  | nil => intro a now0 h _; exact h
  | cons i is ih =>
    intro a now0 h hr
    obtain ⟨_, _, _, h4, h5⟩ := hr
    exact ih _ _ (step_visLog a h i.env i.dgram i.msg h4) h5

theorem reachable_visLog (T : Nat) (cfg : NodeConfig) (seed : UInt64) (t0 : Nat)
    (hb : cfg.firstTid % two32 + (Actor.create cfg seed t0).out.length < two32)
    (ins : List StepIn) (hok : RunOk T (Actor.create cfg seed t0) t0 ins) :
    VisLog (runSteps (Actor.create cfg seed t0) ins) :=
  run_visLog T ins _ _ (create_visLog cfg seed t0 hb) hok

/-- **The closest candidates were asked.**  After any run of a node from its creation (any datagrams, any
    API calls, any clock; the id counter not wrapped): for every registered lookup `q` and every node `n`
    among the 20 closest candidates `q` knows, the node has sent a request datagram to `n.addr` that
    carries `q`'s request — the lookup's kind, its target, the node's id. -/
theorem reachable_closest_were_asked (T : Nat) (cfg : NodeConfig) (seed : UInt64) (t0 : Nat)
    (hb : cfg.firstTid % two32 + (Actor.create cfg seed t0).out.length < two32)
    (ins : List StepIn) (hok : RunOk T (Actor.create cfg seed t0) t0 ins)
    (t : Id) (q : IterQuery) (hq : alGet (runSteps (Actor.create cfg seed t0) ins).core.iter t = some q)
    (n : Node) (hn : n ∈ q.closest.nodes.take Constants.K) :
    ∃ tid, Sent (runSteps (Actor.create cfg seed t0) ins) tid n.addr q.request := by
  have hclosed := (reachable_ready T cfg seed t0 hb ins hok).closed t q hq n hn
  exact reachable_visLog T cfg seed t0 hb ins hok (t, q) (mem_of_alGet _ _ _ hq) n.addr hclosed

end Mainline.Props.C07Asked
