/-
  C11 at the level of the whole node — "… and therefore in find_node, get_peers and get responses".

  `served_nodes_are_closest`: whatever `Core::handle_request` answers to a lookup request, the closer nodes
  it lists are `RoutingTable::closest(target)` of the node's own tables AS THEY ARE AFTER the request was
  handled (the requester itself may just have been added): of the main table for `get_peers` and `get`,
  of the signed-peers table for `get_signed_peers`, and for `find_node` the signed-peers table's closest
  topped up to K from the main table's.  `C11.closest_spec` says what `closest` is (the first 20 entries,
  BEP42-secure first, then by XOR distance); `C14Node.reachable_tables` supplies its hypotheses in every
  reachable state.
-/
import MainlineModel.Props.C11
import MainlineModel.Props.C18
namespace Mainline.Props.C11Node
open Mainline Mainline.Actor

/-- the target a lookup request asks about -/
def lookupTarget : RequestType → Option Id
  | .findNode t => some t
  | .getPeers t => some t
  | .getSignedPeers t => some t
  | .getValue t _ _ => some t
  | _ => none

/-- the closer nodes a server lists for a lookup request, from its two tables -/
def expectedNodes (rt srt : RoutingTable) : RequestType → Option (List Node)
  | .findNode t =>
    some (if (srt.closest t).length < Constants.K then
      srt.closest t ++ (rt.closest t).take (Constants.K - (srt.closest t).length) else srt.closest t)
  | .getPeers t => some (rt.closest t)
  | .getSignedPeers t => some (srt.closest t)
  | .getValue t _ _ => some (rt.closest t)
  | _ => none

theorem server_nodes (s : Server) (verify : Verify) (allow : Allow) (rt srt : RoutingTable) (src : Addr)
    (now wall : Nat) (req : Request) (r : Response)
    (h : (s.handleRequest verify allow rt srt src now wall req).2 = some (.response r))
    (hl : (lookupTarget req.rtype).isSome = true) :
    Response.closerNodes r = expectedNodes rt srt req.rtype := by
  unfold Server.handleRequest at h
  split at h
  · cases h
  · simp only at h
    split at h
    · rename_i hp; rw [hp] at hl; cases hl
    · rename_i t hp
      simp only [Option.some.injEq, Reply.response.injEq] at h
      subst h
      rw [hp]
      simp only [Response.closerNodes, expectedNodes]
    · rename_i t hp
      rw [hp]
      split at h
      · simp only [Option.some.injEq, Reply.response.injEq] at h
        subst h; rfl
      · simp only [Option.some.injEq, Reply.response.injEq] at h
        subst h; rfl
    · rename_i t hp
      rw [hp]
      split at h
      · simp only [Option.some.injEq, Reply.response.injEq] at h
        subst h; rfl
      · simp only [Option.some.injEq, Reply.response.injEq] at h
        subst h; rfl
    · rename_i t seq salt hp
      rw [hp]
      have hgm : ∀ (s0 : Server) (sq : Option Int),
          Response.closerNodes (s0.handleGetMutable rt src t sq).2 = some (rt.closest t) := by
        intro s0 sq
        unfold Server.handleGetMutable Server.getMutableResponse
        simp only
        split
        · split
          · split <;> rfl
          · rfl
        · rfl
      split at h
      · simp only [Option.some.injEq, Reply.response.injEq] at h
        subst h; exact hgm _ _
      · split at h
        · simp only [Option.some.injEq, Reply.response.injEq] at h
          subst h; rfl
        · simp only [Option.some.injEq, Reply.response.injEq] at h
          subst h; exact hgm _ _
    · rename_i tok spec hp; rw [hp] at hl; cases hl

/-- **The closer nodes a node lists are the closest nodes of its own tables.** -/
theorem served_nodes_are_closest (c : Core) (env : Env) (src : Addr) (ro : Bool) (version : Option Bytes)
    (req : Request) (r : Response)
    (h : (handleRequest c env src ro version req).2.1 = some (.response r))
    (hl : (lookupTarget req.rtype).isSome = true) :
    Response.closerNodes r =
      expectedNodes (handleRequest c env src ro version req).1.rt (handleRequest c env src ro version req).1.srt req.rtype := by
  unfold handleRequest at h ⊢
  split at h
  · cases h
  · rename_i hal
    simp only [hal, Bool.false_eq_true, ite_false]
    generalize (verifySelfPing (maybeAddNodeFromRequest c src version ro req env.now) src req env.now).1 = c2 at h ⊢
    generalize (verifySelfPing (maybeAddNodeFromRequest c src version ro req env.now) src req env.now).2 = b at h ⊢
    unfold serveRequest at h ⊢
    split at h
    · rename_i hs
      simp only [hs, ite_true]
      exact server_nodes c2.server env.verify c2.allow c2.rt c2.srt src env.now env.wall req r h hl
    · cases h

end Mainline.Props.C11Node
