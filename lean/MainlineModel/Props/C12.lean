/-
  C12 — Routing table structural and Sybil-limit invariants.

  `TableInv` is preserved by every operation (`inv_new`, `inv_add`, `inv_remove`, `inv_resetId`),
  hence holds after **any** operation sequence (`inv_reachable`).  The clauses of the property are
  then read off `TableInv`: never its own id, ids pairwise distinct, every entry in the bucket of
  its distance, ≤ 20 per bucket, size / iteration / is_empty agree, per-IP limits.  Eviction:
  `add_loses_only_updated_or_stale_head`, `add_keeps_fresh`.
  The model is the code after the `fix:` commit that lets a known node be refreshed.
-/
import MainlineModel.Lemmas.TableLemmas
import MainlineModel.Lemmas.IdLemmas
import MainlineModel.Props.C19
namespace Mainline.Props.C12
open Mainline Mainline.RoutingTable

/-! ### T1 obligations -/
theorem const_k : Constants.K = 20 := by decide
theorem const_stale : Constants.STALE_TIME_SECS = 15 * 60 := by decide

/-- per-IP rule for two different entries: if they share an IP, at least one is BEP42-secure, and
    if both are secure their 21-bit id prefixes differ -/
def SybilOk (a b : Node) : Prop :=
  a.sameIp b = true →
    (a.isSecure = true ∨ b.isSecure = true) ∧
    (a.isSecure = true → b.isSecure = true → a.prefix21 ≠ b.prefix21)

theorem SybilOk.symm {a b : Node} (h : SybilOk a b) : SybilOk b a := by
  intro hs
  have hs' : a.sameIp b = true := by
    unfold Node.sameIp at *; simp only [beq_iff_eq] at *; exact hs.symm
  obtain ⟨h1, h2⟩ := h hs'
  exact ⟨h1.symm, fun hb ha e => h2 ha hb e.symm⟩

structure TableInv (rt : RoutingTable) : Prop where
  idWf : rt.id.bytes.length = 20
  sorted : keysSorted rt.buckets
  /-- bucket keys are distances -/
  keys : ∀ b ∈ rt.buckets, 1 ≤ b.1 ∧ b.1 ≤ 160
  /-- (3) every entry sits in the bucket matching its distance to the table's id -/
  dist : ∀ b ∈ rt.buckets, ∀ e ∈ b.2, rt.id.distance e.id = b.1 ∧ 1 ≤ b.1
  /-- (4) no bucket exceeds 20 entries -/
  size : ∀ b ∈ rt.buckets, b.2.length ≤ 20
  wf : ∀ b ∈ rt.buckets, ∀ e ∈ b.2, e.id.bytes.length = 20
  /-- (2, per bucket) ids are pairwise distinct -/
  idNe : ∀ b ∈ rt.buckets, b.2.Pairwise idNe
  /-- (6) per-IP Sybil limits -/
  sybil : ∀ e1 ∈ rt.entries, ∀ e2 ∈ rt.entries, e1.id ≠ e2.id → SybilOk e1 e2

theorem mem_entries (rt : RoutingTable) (e : Node) :
    e ∈ rt.entries ↔ ∃ b ∈ rt.buckets, e ∈ b.2 := by
  unfold entries; simp [List.mem_flatMap]

theorem inv_new (id : Id) (h : id.bytes.length = 20) : TableInv { id := id, buckets := [] } where
  idWf := h
  sorted := List.Pairwise.nil
  keys := by intro b hb; cases hb
  dist := by intro b hb; cases hb
  size := by intro b hb; cases hb
  wf := by intro b hb; cases hb
  idNe := by intro b hb; cases hb
  sybil := by intro e1 h1; simp [entries] at h1

/-- replacing one bucket by a list whose members are old entries or `node` -/
theorem inv_setBucket (rt : RoutingTable) (hinv : TableInv rt) (d : Nat) (ns : List Node) (node : Node)
    (hdk : 1 ≤ d ∧ d ≤ 160)
    (hd : ∀ e ∈ ns, rt.id.distance e.id = d ∧ 1 ≤ d)
    (hlen : ns.length ≤ 20) (hwf : ∀ e ∈ ns, e.id.bytes.length = 20) (hne : ns.Pairwise idNe)
    (hsub : ∀ e ∈ ns, e = node ∨ e ∈ rt.entries)
    (hnode : node ∈ ns → ∀ e ∈ rt.entries, e.id ≠ node.id → SybilOk node e) :
    TableInv (rt.setBucket d ns) := by
  have hmem := mem_setBucketIn rt.buckets hinv.sorted d ns
  have hent : ∀ e ∈ (rt.setBucket d ns).entries, e ∈ ns ∨ e ∈ rt.entries := by
    intro e he
    obtain ⟨b, hb, heb⟩ := (mem_entries _ e).1 he
    rcases (hmem b).1 hb with h | ⟨h, _⟩
    · rw [h] at heb; exact Or.inl heb
    · exact Or.inr ((mem_entries rt e).2 ⟨b, h, heb⟩)
  constructor
  · exact hinv.idWf
  · exact setBucketIn_sorted _ hinv.sorted _ _
  · intro b hb
    rcases (hmem b).1 hb with h | ⟨h, _⟩
    · rw [h]; exact hdk
    · exact hinv.keys b h
  · intro b hb e he
    rcases (hmem b).1 hb with h | ⟨h, _⟩
    · rw [h] at he ⊢; exact hd e he
    · exact hinv.dist b h e he
  · intro b hb
    rcases (hmem b).1 hb with h | ⟨h, _⟩
    · rw [h]; exact hlen
    · exact hinv.size b h
  · intro b hb e he
    rcases (hmem b).1 hb with h | ⟨h, _⟩
    · rw [h] at he; exact hwf e he
    · exact hinv.wf b h e he
  · intro b hb
    rcases (hmem b).1 hb with h | ⟨h, _⟩
    · rw [h]; exact hne
    · exact hinv.idNe b h
  · intro e1 h1 e2 h2 hneq
    have c1 : e1 = node ∧ node ∈ ns ∨ e1 ∈ rt.entries := by
      rcases hent e1 h1 with h | h
      · rcases hsub e1 h with h' | h'
        · exact Or.inl ⟨h', h' ▸ h⟩
        · exact Or.inr h'
      · exact Or.inr h
    have c2 : e2 = node ∧ node ∈ ns ∨ e2 ∈ rt.entries := by
      rcases hent e2 h2 with h | h
      · rcases hsub e2 h with h' | h'
        · exact Or.inl ⟨h', h' ▸ h⟩
        · exact Or.inr h'
      · exact Or.inr h
    rcases c1 with ⟨rfl, hn1⟩ | c1 <;> rcases c2 with ⟨rfl, hn2⟩ | c2
    · exact absurd rfl hneq
    · exact hnode hn1 e2 c2 (fun h => hneq h.symm)
    · exact (hnode hn2 e1 c1 hneq).symm
    · exact hinv.sybil e1 c1 e2 c2 hneq

theorem any_alreadyExists_false (rt : RoutingTable) (node : Node)
    (h : rt.buckets.any (fun b => node.alreadyExists b.2) = false) :
    ∀ e ∈ rt.entries, node.sameIp e = true → e.isSecure = true ∧ node.prefix21 ≠ e.prefix21 := by
  intro e he hs
  obtain ⟨b, hb, heb⟩ := (mem_entries rt e).1 he
  have h1 := List.any_eq_false.1 h b hb
  have h1' : node.alreadyExists b.2 = false := by simpa using h1
  unfold Node.alreadyExists at h1'
  have h2 := List.any_eq_false.1 h1' e heb
  simp only [hs, Bool.true_and, Bool.or_eq_true, Bool.not_eq_eq_eq_not, Bool.not_true, beq_iff_eq,
    not_or] at h2
  constructor
  · cases hsec : e.isSecure with
    | true => rfl
    | false => exact absurd hsec h2.1
  · exact h2.2

/-- **`add` preserves the invariant** (for every node with a 20-byte id, at every instant) -/
theorem inv_add (rt : RoutingTable) (hinv : TableInv rt) (node : Node) (now : Nat)
    (hwf : node.id.bytes.length = 20) : TableInv (rt.add node now).1 := by
  unfold RoutingTable.add
  split
  · exact hinv
  · rename_i hd0
    have hd1 : 1 ≤ rt.id.distance node.id := by
      have : rt.id.distance node.id ≠ 0 := by simpa using hd0
      omega
    split
    · exact hinv
    · rename_i hcond
      simp only
      have hcond : ¬ ((!rt.isUpdate node && rt.buckets.any (fun b => node.alreadyExists b.2)) = true) := hcond
      have hbsub : ∀ e ∈ (rt.bucket (rt.id.distance node.id)).getD [], e ∈ rt.entries ∧
          ((rt.id.distance node.id, (rt.bucket (rt.id.distance node.id)).getD []) ∈ rt.buckets) := by
        intro e he
        cases hb : rt.bucket (rt.id.distance node.id) with
        | none => rw [hb] at he; simp at he
        | some b =>
          rw [hb] at he
          simp only [Option.getD_some] at he ⊢
          have := findB_some_mem rt.buckets _ b (by rw [← bucket_eq_findB]; exact hb)
          exact ⟨(mem_entries rt e).2 ⟨_, this, he⟩, this⟩
      have hbucket : ∀ (P : List Node → Prop), P [] →
          (∀ b ∈ rt.buckets, P b.2) → P ((rt.bucket (rt.id.distance node.id)).getD []) := by
        intro P h0 hall
        cases hb : rt.bucket (rt.id.distance node.id) with
        | none => simpa using h0
        | some b =>
          simp only [Option.getD_some]
          exact hall _ (findB_some_mem rt.buckets _ b (by rw [← bucket_eq_findB]; exact hb))
      apply inv_setBucket rt hinv _ _ node
      · exact ⟨hd1, C19.distance_le_160 _ _⟩
      · intro e he
        rcases kbucketAdd_mem _ node now e he with h | h
        · rw [h]; exact ⟨rfl, hd1⟩
        · obtain ⟨_, hb⟩ := hbsub e h
          exact ⟨(hinv.dist _ hb e h).1, hd1⟩
      · have := kbucketAdd_length ((rt.bucket (rt.id.distance node.id)).getD []) node now
          (hbucket (fun l => l.length ≤ Constants.K) (by simp) (fun b hb => by
            have := hinv.size b hb; simpa only [const_k] using this))
        simpa only [const_k] using this
      · intro e he
        rcases kbucketAdd_mem _ node now e he with h | h
        · rw [h]; exact hwf
        · obtain ⟨_, hb⟩ := hbsub e h
          exact hinv.wf _ hb e h
      · exact kbucketAdd_idNe _ node now
          (hbucket (fun l => l.Pairwise idNe) List.Pairwise.nil (fun b hb => hinv.idNe b hb))
      · intro e he
        rcases kbucketAdd_mem _ node now e he with h | h
        · exact Or.inl h
        · exact Or.inr (hbsub e h).1
      · intro _ e he hne
        -- either no conflicting entry exists, or the node is an update of an entry with its id+ip
        have hor : (rt.buckets.any (fun b => node.alreadyExists b.2) = false) ∨
            (∃ x ∈ rt.entries, x.id = node.id ∧ x.sameIp node = true) := by
          cases hany : rt.buckets.any (fun b => node.alreadyExists b.2) with
          | false => exact Or.inl rfl
          | true =>
            right
            simp only [hany, Bool.and_true, Bool.not_eq_true', Bool.not_eq_false] at hcond
            unfold RoutingTable.isUpdate at hcond
            cases hb : rt.bucket (rt.id.distance node.id) with
            | none => simp [hb] at hcond
            | some b =>
              simp only [hb] at hcond
              obtain ⟨x, hx, hxp⟩ := List.any_eq_true.1 hcond
              simp only [Bool.and_eq_true, beq_iff_eq] at hxp
              have := findB_some_mem rt.buckets _ b (by rw [← bucket_eq_findB]; exact hb)
              exact ⟨x, (mem_entries rt x).2 ⟨_, this, hx⟩, hxp.1, hxp.2⟩
        rcases hor with hnone | ⟨x, hx, hxid, hxip⟩
        · intro hs
          obtain ⟨h1, h2⟩ := any_alreadyExists_false rt node hnone e he hs
          exact ⟨Or.inr h1, fun _ _ => h2⟩
        · -- transfer the old entry's compatibility to the incoming node (same id, same ip)
          have hxe : x.id ≠ e.id := by rw [hxid]; exact fun h => hne h.symm
          have hold := hinv.sybil x hx e he hxe
          have hip : x.addr.ip = node.addr.ip := by
            unfold Node.sameIp at hxip; simpa using hxip
          have hsec : x.isSecure = node.isSecure := by unfold Node.isSecure; rw [hxid, hip]
          have hpre : x.prefix21 = node.prefix21 := by unfold Node.prefix21; rw [hxid]
          intro hs
          have hs' : x.sameIp e = true := by
            unfold Node.sameIp at *; rw [hip]; exact hs
          obtain ⟨h1, h2⟩ := hold hs'
          rw [hsec] at h1 h2
          rw [hpre] at h2
          exact ⟨h1, h2⟩

theorem inv_remove (rt : RoutingTable) (hinv : TableInv rt) (nodeId : Id) :
    TableInv (rt.remove nodeId) := by
  unfold RoutingTable.remove
  split
  · rename_i b hb
    have hmemb := findB_some_mem rt.buckets _ b (by rw [← bucket_eq_findB]; exact hb)
    have hsubl : (b.filter (fun n => n.id != nodeId)).Sublist b := List.filter_sublist
    apply inv_setBucket rt hinv _ _ default
    · exact hinv.keys _ hmemb
    · intro e he
      have := hinv.dist _ hmemb e (hsubl.subset he)
      exact ⟨this.1, this.2⟩
    · exact Nat.le_trans hsubl.length_le (hinv.size _ hmemb)
    · intro e he; exact hinv.wf _ hmemb e (hsubl.subset he)
    · exact (hinv.idNe _ hmemb).sublist hsubl
    · intro e he; exact Or.inr ((mem_entries rt e).2 ⟨_, hmemb, hsubl.subset he⟩)
    · intro hdef e he hne
      exact hinv.sybil _ ((mem_entries rt _).2 ⟨_, hmemb, hsubl.subset hdef⟩) e he (fun h => hne h.symm)
  · exact hinv

theorem add_id (rt : RoutingTable) (node : Node) (now : Nat) : (rt.add node now).1.id = rt.id := by
  unfold RoutingTable.add
  split
  · rfl
  · split
    · rfl
    · rfl

theorem foldl_add_inv (ns : List Node) (now : Nat) (hwf : ∀ n ∈ ns, n.id.bytes.length = 20) :
    ∀ t : RoutingTable, TableInv t → TableInv (ns.foldl (fun t n => (t.add n now).1) t) := by
  induction ns with
  | nil => intro t h; exact h
  | cons n ns ih =>
    intro t h
    exact ih (fun m hm => hwf m (List.mem_cons_of_mem _ hm)) _
      (inv_add t h n now (hwf n List.mem_cons_self))

theorem mem_nodes_imp_mem_entries (rt : RoutingTable) (e : Node) (h : e ∈ rt.nodes) : e ∈ rt.entries := by
  unfold RoutingTable.nodes at h
  obtain ⟨d, _, hd⟩ := List.mem_flatMap.1 h
  cases hb : rt.bucket d with
  | none => rw [hb] at hd; simp at hd
  | some b =>
    rw [hb] at hd
    exact (mem_entries rt e).2 ⟨_, findB_some_mem rt.buckets d b (by rw [← bucket_eq_findB]; exact hb), hd⟩

/-- re-keying (`reset_id`) to any 20-byte id re-establishes the invariant for the new id -/
theorem inv_resetId (rt : RoutingTable) (hinv : TableInv rt) (id : Id) (now : Nat)
    (hid : id.bytes.length = 20) : TableInv (rt.resetId id now) := by
  unfold RoutingTable.resetId
  apply foldl_add_inv
  · intro n hn
    obtain ⟨b, hb, heb⟩ := (mem_entries rt n).1 (mem_nodes_imp_mem_entries rt n hn)
    exact hinv.wf b hb n heb
  · exact inv_new id hid

/-! ### every reachable table -/

inductive Op where
  | add (n : Node) (now : Nat)
  | remove (i : Id)
  | resetId (i : Id) (now : Nat)

def Op.wf : Op → Prop
  | .add n _ => n.id.bytes.length = 20
  | .remove _ => True
  | .resetId i _ => i.bytes.length = 20

def step (rt : RoutingTable) : Op → RoutingTable
  | .add n now => (rt.add n now).1
  | .remove i => rt.remove i
  | .resetId i now => rt.resetId i now

/-- after any sequence of add / remove / re-key operations, at any instants (the clock values in
    the operations are arbitrary — in particular monotone ones), the invariant holds -/
theorem inv_reachable (id : Id) (hid : id.bytes.length = 20) (ops : List Op) (hops : ∀ o ∈ ops, o.wf) :
    TableInv (ops.foldl step { id := id, buckets := [] }) := by
  suffices h : ∀ t, TableInv t → TableInv (ops.foldl step t) from h _ (inv_new id hid)
  induction ops with
  | nil => intro t h; exact h
  | cons o ops ih =>
    intro t h
    apply ih (fun o' ho' => hops o' (List.mem_cons_of_mem _ ho'))
    have ho := hops o List.mem_cons_self
    cases o with
    | add n now => exact inv_add t h n now (by simpa [Op.wf] using ho)
    | remove i => exact inv_remove t h i
    | resetId i now => exact inv_resetId t h i now (by simpa [Op.wf] using ho)

/-! ### the property's clauses, read off the invariant -/

/-- (1) never its own id -/
theorem no_own_id (rt : RoutingTable) (hinv : TableInv rt) : ∀ e ∈ rt.entries, e.id ≠ rt.id := by
  intro e he heq
  obtain ⟨b, hb, heb⟩ := (mem_entries rt e).1 he
  have hd := hinv.dist b hb e heb
  have : rt.id.distance e.id = 0 := by
    rw [heq]
    exact (C19.distance_eq_zero_iff rt.id rt.id hinv.idWf hinv.idWf).2 rfl
  omega

/-- (2) no two entries with one id -/
theorem ids_distinct (rt : RoutingTable) (hinv : TableInv rt) : (rt.entries.map (·.id)).Nodup := by
  unfold List.Nodup
  rw [List.pairwise_map]
  unfold entries
  rw [List.pairwise_flatMap]
  refine ⟨fun b hb => hinv.idNe b hb, ?_⟩
  apply List.Pairwise.imp_of_mem _ hinv.sorted
  intro b1 b2 h1 h2 hlt x hx y hy heq
  have d1 := (hinv.dist b1 h1 x hx).1
  have d2 := (hinv.dist b2 h2 y hy).1
  rw [heq] at d1
  omega

/-- (3)+(4) restated: bucket keys are distances in 1..160 and buckets hold at most 20 -/
theorem bucket_bounds (rt : RoutingTable) (hinv : TableInv rt) :
    ∀ b ∈ rt.buckets, b.2.length ≤ 20 ∧ (b.2 ≠ [] → 1 ≤ b.1 ∧ b.1 ≤ 160) := by
  intro b hb
  refine ⟨hinv.size b hb, ?_⟩
  intro hne
  cases hl : b.2 with
  | nil => exact absurd hl hne
  | cons e _ =>
    have := hinv.dist b hb e (by rw [hl]; exact List.mem_cons_self)
    have h160 := C19.distance_le_160 rt.id e.id
    omega

/-- (6) per IP: at most one non-secure entry, and no two secure entries sharing a 21-bit prefix -/
theorem sybil_limits (rt : RoutingTable) (hinv : TableInv rt) :
    ∀ e1 ∈ rt.entries, ∀ e2 ∈ rt.entries, e1.id ≠ e2.id → e1.addr.ip = e2.addr.ip →
      ¬ (e1.isSecure = false ∧ e2.isSecure = false) ∧
      (e1.isSecure = true → e2.isSecure = true → e1.prefix21 ≠ e2.prefix21) := by
  intro e1 h1 e2 h2 hne hip
  have := hinv.sybil e1 h1 e2 h2 hne (by unfold Node.sameIp; simpa using hip)
  refine ⟨?_, this.2⟩
  rintro ⟨ha, hb⟩
  rcases this.1 with h | h
  · rw [ha] at h; cases h
  · rw [hb] at h; cases h

/-! ### (5) size, iteration and is_empty agree -/

theorem flatMap_congr_mem {α β} (l : List α) (f g : α → List β) (h : ∀ x ∈ l, f x = g x) :
    l.flatMap f = l.flatMap g := by
  induction l with
  | nil => rfl
  | cons a l ih =>
    simp only [List.flatMap_cons]
    rw [h a List.mem_cons_self, ih (fun x hx => h x (List.mem_cons_of_mem _ hx))]

theorem flatMap_range_eq (bs : Buckets) (n lo : Nat) (hs : keysSorted bs)
    (hr : ∀ b ∈ bs, lo ≤ b.1 ∧ b.1 < lo + n) :
    (List.range' lo n).flatMap (fun d => (findB bs d).getD []) = bs.flatMap (·.2) := by
  induction n generalizing lo bs with
  | zero =>
    cases bs with
    | nil => rfl
    | cons b _ => have := hr b List.mem_cons_self; omega
  | succ n ih =>
    rw [List.range'_succ, List.flatMap_cons]
    cases bs with
    | nil =>
      have : ∀ l : List Nat, l.flatMap (fun d => (findB ([] : Buckets) d).getD []) = [] := by
        intro l; induction l with
        | nil => rfl
        | cons _ _ ih' => simp [List.flatMap_cons, findB]
      simp [findB]
    | cons b rest =>
      obtain ⟨k, v⟩ := b
      have hs0 := hs
      unfold keysSorted at hs
      rw [List.pairwise_cons] at hs
      have hk := hr (k, v) List.mem_cons_self
      simp only at hk
      by_cases hkl : k = lo
      · subst hkl
        rw [findB_cons]
        simp only [ite_true, Option.getD_some, List.flatMap_cons]
        congr 1
        have hrest : ∀ b ∈ rest, k + 1 ≤ b.1 ∧ b.1 < k + 1 + n := by
          intro b hb
          have := hs.1 b hb
          have := hr b (List.mem_cons_of_mem _ hb)
          simp only at *; omega
        rw [← ih rest (k + 1) hs.2 hrest]
        apply flatMap_congr_mem
        intro d hd
        have : k < d := by
          have := List.mem_range'_1.1 hd; omega
        rw [findB_cons]
        have : ¬ k = d := by omega
        simp [this]
      · have hnone : findB ((k, v) :: rest) lo = none := by
          apply findB_none_of_lt
          intro b hb
          rcases List.mem_cons.1 hb with h | h
          · rw [h]; simp only; omega
          · have := hs.1 b h; simp only at *; omega
        rw [hnone]
        simp only [Option.getD_none, List.nil_append]
        exact ih ((k, v) :: rest) (lo + 1) hs0 (by
          intro b hb
          have := hr b hb
          rcases List.mem_cons.1 hb with h | h
          · rw [h]; simp only; omega
          · have := hs.1 b h; simp only at *; omega)

/-- the hand-written iterator (bucket indices 1..=160) visits every entry exactly once, in bucket
    order (empty buckets may linger after `remove`; they contribute nothing either way) -/
theorem nodes_eq_entries (rt : RoutingTable) (hinv : TableInv rt) : rt.nodes = rt.entries := by
  unfold RoutingTable.nodes entries
  have := flatMap_range_eq rt.buckets 160 1 hinv.sorted (by
    intro b hb; have := hinv.keys b hb; omega)
  simpa [bucket_eq_findB] using this

theorem size_eq (rt : RoutingTable) : rt.size = rt.entries.length := by
  unfold size entries
  suffices h : ∀ (bs : Buckets) (acc : Nat),
      bs.foldl (fun acc b => acc + b.2.length) acc = acc + (bs.flatMap (·.2)).length from by
    simpa using h rt.buckets 0
  intro bs
  induction bs with
  | nil => intro acc; simp
  | cons b bs ih =>
    intro acc
    simp only [List.foldl_cons, List.flatMap_cons, List.length_append]
    rw [ih]; omega

theorem isEmpty_iff (rt : RoutingTable) : rt.isEmpty = true ↔ rt.entries = [] := by
  unfold isEmpty entries
  induction rt.buckets with
  | nil => simp
  | cons b bs ih =>
    simp only [List.all_cons, Bool.and_eq_true, List.flatMap_cons, List.append_eq_nil_iff]
    rw [ih]
    simp [List.isEmpty_iff]

/-! ### eviction -/

theorem mem_entries_setBucket (rt : RoutingTable) (hs : keysSorted rt.buckets) (d : Nat)
    (ns : List Node) (e : Node) :
    e ∈ (rt.setBucket d ns).entries ↔ e ∈ ns ∨ ∃ b ∈ rt.buckets, b.1 ≠ d ∧ e ∈ b.2 := by
  rw [mem_entries]
  constructor
  · rintro ⟨b, hb, heb⟩
    rcases (mem_setBucketIn rt.buckets hs d ns b).1 hb with h | ⟨h, hne⟩
    · rw [h] at heb; exact Or.inl heb
    · exact Or.inr ⟨b, h, hne, heb⟩
  · rintro (h | ⟨b, hb, hne, heb⟩)
    · exact ⟨(d, ns), (mem_setBucketIn rt.buckets hs d ns _).2 (Or.inl rfl), h⟩
    · exact ⟨b, (mem_setBucketIn rt.buckets hs d ns _).2 (Or.inr ⟨hb, hne⟩), heb⟩

/-- an entry that disappears in `add` either carried the incoming id (it was updated in place) or
    was the head — the least recently inserted-or-updated entry — of the incoming node's **full**
    bucket and stale (not heard from for more than 15 minutes) -/
theorem add_loses_only_updated_or_stale_head (rt : RoutingTable) (hinv : TableInv rt) (node : Node)
    (now : Nat) (e : Node) (he : e ∈ rt.entries) (hlost : e ∉ (rt.add node now).1.entries) :
    e.id = node.id ∨
      (∃ b, rt.bucket (rt.id.distance node.id) = some b ∧ b.length = 20 ∧ b.head? = some e ∧
        now - e.lastSeen > 15 * 60 * 1000000000) := by
  unfold RoutingTable.add at hlost
  split at hlost
  · exact absurd he hlost
  · split at hlost
    · exact absurd he hlost
    · simp only at hlost
      rw [mem_entries_setBucket rt hinv.sorted] at hlost
      simp only [not_or, not_exists, not_and] at hlost
      obtain ⟨b0, hb0, heb0⟩ := (mem_entries rt e).1 he
      by_cases hkey : b0.1 = rt.id.distance node.id
      · have hfind : rt.bucket (rt.id.distance node.id) = some b0.2 := by
          rw [bucket_eq_findB]
          exact findB_of_mem rt.buckets hinv.sorted _ _ (by rw [← hkey]; exact hb0)
        rw [hfind] at hlost
        simp only [Option.getD_some] at hlost
        rcases kbucketAdd_lost b0.2 node now e heb0 hlost.1 with h | ⟨hfull, hhead, hstale⟩
        · exact Or.inl h
        · right
          refine ⟨b0.2, hfind, ?_, hhead, ?_⟩
          · have := hinv.size b0 hb0
            simp only [const_k] at hfull; omega
          · unfold Node.isStale Node.age secsToNs at hstale
            simp only [const_stale, decide_eq_true_eq] at hstale
            omega
      · exact absurd heb0 (hlost.2 b0 hb0 hkey)

/-- adding never evicts a fresh node: an entry heard from within the last 15 minutes whose id is
    not the incoming one is still there afterwards -/
theorem add_keeps_fresh (rt : RoutingTable) (hinv : TableInv rt) (node : Node) (now : Nat) (e : Node)
    (he : e ∈ rt.entries) (hfresh : now - e.lastSeen ≤ 15 * 60 * 1000000000) (hne : e.id ≠ node.id) :
    e ∈ (rt.add node now).1.entries := by
  by_cases hin : e ∈ (rt.add node now).1.entries
  · exact hin
  · rcases add_loses_only_updated_or_stale_head rt hinv node now e he hin with h | ⟨_, _, _, _, h⟩
    · exact absurd h hne
    · omega

/-! ### Non-vacuity (tests, labelled as tests) -/

example : TableInv { id := ⟨List.replicate 20 0⟩, buckets := [] } := inv_new _ (by simp)
example :
    let own : Id := ⟨List.replicate 20 0⟩
    let n : Node := { id := ⟨List.replicate 19 0 ++ [1]⟩, addr := ⟨0x2d000001, 1⟩ }
    ((({ id := own, buckets := [] } : RoutingTable).add n 0).1.buckets.map (·.1)) = [1] := by
  decide +kernel

end Mainline.Props.C12
