/-
  C03 at the level of the whole node — "requests vetoed by the configured request filter get no
  reply and change nothing".

  `Props/C03.lean` proves the clause for the storing server (`Server.handleRequest`).  In the node the
  request passes through `Core::handle_request` first, which (before the fix fc1b11e) offered the
  sender of a `find_node` to the routing tables *before* the server consulted the filter: a banned
  address ended up in the tables and was advertised to others.  The check reported it (node stream,
  scenario P: `vetoed-request-changed-state`); the code now consults the filter first, and so does
  the model.  Here: a vetoed request leaves the whole core as it is and sends nothing.
-/
import MainlineModel.Lemmas.ActorLemmas
namespace Mainline.Props.C03Node
open Mainline Mainline.Actor

/-- `Core::handle_request` on a vetoed request: no reply, no change, no re-population -/
theorem vetoed_request_is_dropped (c : Core) (env : Env) (src : Addr) (ro : Bool) (version : Option Bytes)
    (req : Request) (h : c.allow req src = false) :
    handleRequest c env src ro version req = (c, none, false) := by
  unfold handleRequest
  simp [h]

/-- **A vetoed request changes nothing in the node and is not answered**: the routing tables, the
    stores, the token secrets, the registered lookups and puts, the modes and the voted address are
    all untouched, and no datagram is sent — for every state of the node, whatever the request. -/
theorem vetoed_datagram_changes_nothing (a : Actor) (env : Env) (m : Message) (src : Addr) (req : Request)
    (hm : m.mtype = .request req) (hv : a.core.allow req src = false) :
    (a.handleIncoming env (some (m, src))).1 = a ∧ (a.handleIncoming env (some (m, src))).2 = none := by
  unfold handleIncoming
  simp only [hm]
  unfold handleIncomingRequest
  rw [vetoed_request_is_dropped a.core env src m.readOnly m.version req hv]
  simp [sendReply]

/-- the filter a node is created with: every request from the banned address is vetoed, every other
    request allowed; no filter configured: everything allowed -/
theorem created_filter (cfg : NodeConfig) (seed : UInt64) (now : Nat) (req : Request) (src : Addr) :
    (Actor.create cfg seed now).core.allow req src =
      match cfg.denyIp with
      | some ip => src.ip != ip
      | none => true := by
  have hm : ∀ (b : Actor), (b.maintenance now).core.allow = b.core.allow := by
    intro b
    unfold maintenance
    have hc : ∀ (c : Core) (t : Id), (getCachedClosestNodes c t now).1.allow = c.allow := by
      intro c t; unfold getCachedClosestNodes; split <;> rfl
    have hi : ∀ (c : Core) (k : GetKind) (t : Id) (ex : List Addr), (createIterativeQuery c k t ex now).1.allow = c.allow := by
      intro c k t ex
      unfold createIterativeQuery
      split
      · rfl
      · simp only; exact hc c t
    have h1 : ∀ (x : Actor) (k : GetKind) (t : Id) (ex : List Addr), (x.get k t ex now).1.core.allow = x.core.allow := by
      intro x k t ex
      unfold Actor.get
      split
      · rfl
      · have := hi x.core k t ex
        unfold startLookup
        split
        · rename_i core q tv hm
          rw [hm] at this
          exact this
        · rename_i core hm
          rw [hm] at this
          exact this
    have h2 : ∀ x : Actor, (x.populate now).core.allow = x.core.allow := by
      intro x; unfold populate; split
      · rfl
      · exact h1 x _ _ _
    have h3 : ∀ x : Actor, (x.bootstrapIfEmpty now).core.allow = x.core.allow := by
      intro x; unfold bootstrapIfEmpty; split
      · exact h2 x
      · rfl
    have h4 : ∀ x : Actor, (x.refreshTable now).core.allow = x.core.allow := by
      intro x; unfold refreshTable; split
      · rw [h2]; unfold adaptiveSwitch; split <;> rfl
      · rfl
    have h5 : ∀ x : Actor, (x.pingTable now).core.allow = x.core.allow := by
      intro x; unfold pingTable; split
      · have hfold : ∀ (l : List Addr) (y : Actor), (l.foldl (fun a addr => a.ping addr now) y).core = y.core := by
          intro l
          induction l with
          | nil => intro y; rfl
          | cons z zs ih => intro y; simp only [List.foldl_cons]; rw [ih]; rfl
        rw [hfold]; rfl
      · rfl
    rw [h5, h4, h3]
  unfold Actor.create
  split <;> (simp only; rw [hm]; cases cfg.denyIp <;> rfl)

end Mainline.Props.C03Node
