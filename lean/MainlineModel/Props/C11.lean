/-
  C11 — Servers answer with the closest nodes they know.

  * the closest-nodes accumulator is strictly sorted by (BEP42-secure first, byte-wise XOR to the
    target) after **every** insertion sequence, and its contents are exactly what the first-come
    per-IP rule keeps (`accumulator_*`); a sorted list with given contents is unique
    (`sorted_perm_unique`), so the order does not depend on the insertion order;
  * `RoutingTable::closest` is the first 20 of the table's entries in that order (`closest_spec`
    and corollaries) — the model is the code after the `fix:` commit that stopped re-filtering the
    entries through the order-dependent per-IP rule;
  * `take_until_secure` returns a prefix of length ≥ min(20, available) for every value of the
    size-estimate / subnet parameters (`takeUntilSecure_prefix`).
-/
import MainlineModel.Lemmas.ClosestLemmas
import MainlineModel.Model.RoutingTable
namespace Mainline.Props.C11
open Mainline Mainline.ClosestNodes

/-! ### T1 obligation -/
theorem const_k : Constants.K = 20 := by decide

/-! ### the accumulator -/

/-- one insertion keeps the accumulator strictly sorted -/
theorem add_preserves_sorted (c : ClosestNodes) (n : Node)
    (h : c.nodes.Pairwise (keyLt c.target)) : (c.add n).nodes.Pairwise (keyLt c.target) := by
  unfold ClosestNodes.add
  split
  · exact h
  · exact insert_pairwise c n h

theorem foldl_add_target (t : Id) (ns : List Node) (c : ClosestNodes) (hc : c.target = t) :
    (ns.foldl ClosestNodes.add c).target = t := by
  induction ns generalizing c with
  | nil => exact hc
  | cons n ns ih => exact ih (c.add n) (by rw [add_target, hc])

/-- sorted after any insertion sequence, of any length, in any order -/
theorem accumulator_sorted_after_any_insertions (t : Id) (ns : List Node) :
    (ns.foldl ClosestNodes.add { target := t }).nodes.Pairwise (keyLt t) := by
  suffices h : ∀ c : ClosestNodes, c.target = t → c.nodes.Pairwise (keyLt t) →
      (ns.foldl ClosestNodes.add c).nodes.Pairwise (keyLt t) from
    h { target := t } rfl List.Pairwise.nil
  induction ns with
  | nil => intro c _ h; exact h
  | cons n ns ih =>
    intro c hc h
    apply ih (c.add n) (by rw [add_target, hc])
    have := add_preserves_sorted c n (by rw [hc]; exact h)
    rw [hc] at this; exact this

/-- the first-come rule, stated on an unordered `kept` list: a node is kept iff no kept node
    conflicts with it on its IP and no kept node has the same id in the same security class -/
def accepts (t : Id) (kept : List Node) (n : Node) : Bool :=
  !n.alreadyExists kept && !kept.any (fun e => cmpProbe t n e == .eq)

/-- contents kept from an arrival sequence (in arrival order) -/
def greedy (t : Id) : List Node → List Node → List Node
  | kept, [] => kept
  | kept, n :: rest => greedy t (if accepts t kept n then n :: kept else kept) rest

/-- contents after any insertion sequence: a permutation of what the first-come rule keeps -/
theorem accumulator_contents_after_any_insertions (t : Id) (ns : List Node) :
    (ns.foldl ClosestNodes.add { target := t }).nodes.Perm (greedy t [] ns) := by
  suffices h : ∀ (c : ClosestNodes) (kept : List Node), c.target = t → c.nodes.Pairwise (keyLt t) →
      c.nodes.Perm kept → (ns.foldl ClosestNodes.add c).nodes.Perm (greedy t kept ns) from
    h { target := t } [] rfl List.Pairwise.nil (List.Perm.refl _)
  induction ns with
  | nil => intro c kept _ _ hp; exact hp
  | cons n ns ih =>
    intro c kept hc hs hp
    simp only [List.foldl_cons, greedy]
    have hs' : c.nodes.Pairwise (keyLt c.target) := by rw [hc]; exact hs
    have hsorted : (c.add n).nodes.Pairwise (keyLt t) := by
      have := add_preserves_sorted c n hs'; rw [hc] at this; exact this
    apply ih (c.add n) _ (by rw [add_target, hc]) hsorted
    unfold ClosestNodes.add accepts
    rw [alreadyExists_perm n hp]
    cases hae : n.alreadyExists kept with
    | true => simpa using hp
    | false =>
      simp only [Bool.false_eq_true, ite_false, Bool.not_false, Bool.true_and]
      rcases insert_perm c n hs' with ⟨hperm, hne⟩ | ⟨heq, e, he, heeq⟩
      · have hnone : kept.any (fun e => cmpProbe t n e == .eq) = false := by
          rw [← hp.any_eq]
          apply List.any_eq_false.2
          intro e he
          have := hne e he
          rw [hc] at this
          simpa using this
        simp only [hnone, Bool.not_false, ite_true]
        exact hperm.trans (List.Perm.cons _ hp)
      · have hsome : kept.any (fun e => cmpProbe t n e == .eq) = true := by
          rw [← hp.any_eq]
          apply List.any_eq_true.2
          exact ⟨e, he, by rw [hc] at heeq; simp [heeq]⟩
        simp only [hsome, Bool.not_true, Bool.false_eq_true, ite_false]
        rw [heq]; exact hp

/-- a strictly sorted list is determined by its contents: with the two theorems above, the
    accumulator holds the same nodes in the same order for every insertion sequence that the
    first-come rule maps to the same contents -/
theorem sorted_perm_unique (t : Id) (l₁ l₂ : List Node) (hp : l₁.Perm l₂)
    (h₁ : l₁.Pairwise (keyLt t)) (h₂ : l₂.Pairwise (keyLt t)) : l₁ = l₂ := by
  induction l₁ generalizing l₂ with
  | nil => exact (List.Perm.nil_eq hp)
  | cons a l₁ ih =>
    cases l₂ with
    | nil => exact absurd hp.symm (by intro h; have := List.Perm.nil_eq h; cases this)
    | cons b l₂ =>
      rw [List.pairwise_cons] at h₁ h₂
      have hab : a = b := by
        by_cases hab : a = b
        · exact hab
        · exfalso
          have ha : a ∈ b :: l₂ := hp.subset (List.mem_cons_self)
          have hb : b ∈ a :: l₁ := hp.symm.subset (List.mem_cons_self)
          have ha' : a ∈ l₂ := by
            rcases List.mem_cons.1 ha with h | h
            · exact absurd h hab
            · exact h
          have hb' : b ∈ l₁ := by
            rcases List.mem_cons.1 hb with h | h
            · exact absurd h.symm hab
            · exact h
          exact keyLt_irrefl t a (keyLt_trans t (h₁.1 b hb') (h₂.1 a ha'))
      subst hab
      rw [ih l₂ (List.Perm.cons_inv hp) h₁.2 h₂.2]

/-! ### `take_until_secure` -/

/-- for every expected-distance and subnet parameter (so the floating-point size estimate cannot
    matter): a prefix of the accumulator, of length at least min(20, available) -/
theorem takeUntilSecure_prefix (c : ClosestNodes) (dk s : Nat) :
    ∃ n, min 20 c.nodes.length ≤ n ∧ n ≤ c.nodes.length ∧ c.takeUntilSecure dk s = c.nodes.take n := by
  have := ClosestNodes.takeUntilSecure_prefix c dk s
  simpa only [const_k] using this

/-! ### `RoutingTable::closest` -/

theorem xor_right_cancel (a b t : Bytes) (ha : a.length = t.length) (hb : b.length = t.length)
    (h : List.zipWith (· ^^^ ·) a t = List.zipWith (· ^^^ ·) b t) : a = b := by
  induction a generalizing b t with
  | nil =>
    cases t with
    | nil => cases b with
      | nil => rfl
      | cons _ _ => simp at hb
    | cons _ _ => simp at ha
  | cons x a ih =>
    cases t with
    | nil => simp at ha
    | cons z t =>
      cases b with
      | nil => simp at hb
      | cons y b =>
        simp only [List.zipWith_cons_cons, List.cons.injEq] at h
        have hxy : x = y := by
          have h1 : (x ^^^ z) ^^^ z = (y ^^^ z) ^^^ z := by rw [h.1]
          simpa [UInt8.xor_assoc] using h1
        rw [hxy, ih b t (by simpa using ha) (by simpa using hb) h.2]

/-- with 20-byte ids, the comparator answers `Equal` only for the same id -/
theorem cmpProbe_eq_same_id (t : Id) (n e : Node) (ht : t.bytes.length = 20)
    (hn : n.id.bytes.length = 20) (he : e.id.bytes.length = 20)
    (h : cmpProbe t n e = .eq) : e.id = n.id := by
  rcases (cmpProbe_eq_imp t n e h).2 with h | h
  · exact h
  · have := xor_right_cancel e.id.bytes n.id.bytes t.bytes (by omega) (by omega) h
    cases hx : e.id; cases hy : n.id; simp_all

theorem foldl_insert_spec (t : Id) (ht : t.bytes.length = 20) (es : List Node) :
    ∀ c : ClosestNodes, c.target = t → c.nodes.Pairwise (keyLt t) →
      (∀ x ∈ c.nodes, x.id.bytes.length = 20) → (∀ e ∈ es, e.id.bytes.length = 20) →
      (es.map (·.id)).Nodup → (∀ e ∈ es, ∀ x ∈ c.nodes, x.id ≠ e.id) →
      (es.foldl ClosestNodes.insert c).nodes.Pairwise (keyLt t) ∧
      (es.foldl ClosestNodes.insert c).nodes.Perm (es ++ c.nodes) := by
  induction es with
  | nil => intro c _ hs _ _ _ _; exact ⟨hs, List.Perm.refl _⟩
  | cons e es ih =>
    intro c hc hs hwfc hwfe hnd hdisj
    simp only [List.foldl_cons]
    have hs' : c.nodes.Pairwise (keyLt c.target) := by rw [hc]; exact hs
    have hsorted : (c.insert e).nodes.Pairwise (keyLt t) := by
      have := insert_pairwise c e hs'; rw [hc] at this; exact this
    simp only [List.map_cons, List.nodup_cons] at hnd
    have hperm : (c.insert e).nodes.Perm (e :: c.nodes) := by
      rcases insert_perm c e hs' with ⟨hp, _⟩ | ⟨_, x, hx, hxeq⟩
      · exact hp
      · exfalso
        rw [hc] at hxeq
        have := cmpProbe_eq_same_id t e x ht (hwfe e List.mem_cons_self) (hwfc x hx) hxeq
        exact hdisj e List.mem_cons_self x hx this
    have := ih (c.insert e) (by rw [insert_target, hc]) hsorted
      (by intro x hx
          rcases List.mem_cons.1 (hperm.subset hx) with h | h
          · rw [h]; exact hwfe e List.mem_cons_self
          · exact hwfc x h)
      (fun x hx => hwfe x (List.mem_cons_of_mem _ hx)) hnd.2
      (by intro e' he' x hx
          rcases List.mem_cons.1 (hperm.subset hx) with h | h
          · rw [h]; intro heq
            exact hnd.1 (List.mem_map.2 ⟨e', he', heq.symm⟩)
          · exact hdisj e' (List.mem_cons_of_mem _ he') x h)
    refine ⟨this.1, this.2.trans ?_⟩
    have h1 : (es ++ (c.insert e).nodes).Perm (es ++ e :: c.nodes) := List.Perm.append_left es hperm
    exact h1.trans (List.perm_middle)

/-- **closest = the first 20 of the table's entries, secure first then XOR distance.**
    `s` is the (unique, by `sorted_perm_unique`) sorted arrangement of all entries.  The
    hypotheses are the routing-table invariants proved in `Props/C12` (distinct ids, 20-byte ids). -/
theorem closest_spec (rt : RoutingTable) (t : Id) (ht : t.bytes.length = 20)
    (hwf : ∀ e ∈ rt.entries, e.id.bytes.length = 20) (hnd : (rt.entries.map (·.id)).Nodup) :
    ∃ s : List Node, s.Perm rt.entries ∧ s.Pairwise (keyLt t) ∧ rt.closest t = s.take 20 := by
  have h := foldl_insert_spec t ht rt.entries { target := t } rfl List.Pairwise.nil
    (by intro x hx; cases hx) hwf hnd (by intro e _ x hx; cases hx)
  refine ⟨(rt.entries.foldl ClosestNodes.insert { target := t }).nodes, ?_, h.1, ?_⟩
  · simpa using h.2
  · unfold RoutingTable.closest
    simp only [const_k]
    rw [List.take_eq_take_iff]
    omega

/-- at most 20, all members of the table, pairwise distinct, and nothing outside the answer is
    closer (in the secure-first XOR order) than anything inside when the answer is full -/
theorem closest_corollaries (rt : RoutingTable) (t : Id) (ht : t.bytes.length = 20)
    (hwf : ∀ e ∈ rt.entries, e.id.bytes.length = 20) (hnd : (rt.entries.map (·.id)).Nodup) :
    (rt.closest t).length ≤ 20 ∧
    (∀ x ∈ rt.closest t, x ∈ rt.entries) ∧
    (rt.closest t).Pairwise (keyLt t) ∧
    ((rt.closest t).length = min 20 rt.entries.length) ∧
    (∀ x ∈ rt.closest t, ∀ y ∈ rt.entries, y ∉ rt.closest t → keyLt t x y) := by
  obtain ⟨s, hperm, hsorted, heq⟩ := closest_spec rt t ht hwf hnd
  rw [heq]
  refine ⟨by simp [List.length_take]; omega, ?_, hsorted.sublist (List.take_sublist _ _), ?_, ?_⟩
  · intro x hx; exact hperm.subset ((List.take_sublist _ _).subset hx)
  · rw [List.length_take, hperm.length_eq]
  · intro x hx y hy hny
    have hys : y ∈ s := hperm.symm.subset hy
    have hyd : y ∈ s.drop 20 := by
      have : y ∈ s.take 20 ++ s.drop 20 := by rw [List.take_append_drop]; exact hys
      rcases List.mem_append.1 this with h | h
      · exact absurd h hny
      · exact h
    have hsplit : (s.take 20 ++ s.drop 20).Pairwise (keyLt t) := by
      rw [List.take_append_drop]; exact hsorted
    exact (List.pairwise_append.1 hsplit).2.2 x hx y hyd

/-! ### Non-vacuity (tests, labelled as tests) -/

/-- a two-node accumulator: the secure node sorts first although it is farther by XOR -/
example :
    let t : Id := ⟨List.replicate 20 0⟩
    let insecure : Node := { id := ⟨List.replicate 20 1⟩, addr := ⟨0x2d000001, 1⟩ }
    let secure : Node := { id := ⟨List.replicate 20 0xff⟩, addr := ⟨0x0a000001, 1⟩ }  -- 10.0.0.1: exempt
    (([insecure, secure].foldl ClosestNodes.add { target := t }).nodes.map (·.addr.ip)) =
      [0x0a000001, 0x2d000001] := by decide +kernel

end Mainline.Props.C11
