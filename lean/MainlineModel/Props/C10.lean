/-
  C10 — KRPC wire format round-trips and matches the BEPs.

  * `decode_encode`: for **every** well-formed `Message` (all request / response / error kinds, every
    optional field present or absent, full `i64` / `u64` ranges, any lengths below 2^64)
    `fromBytes (toBytes m) = ok (some (norm m))`, where `norm` is written out below and is the
    identity except for what is not on the wire: `implied_port none ↦ some false`, the `salt` a get
    request carries internally, and a node's token / last_seen.
  * `untagged_unambiguous` (inside `rawResponse_roundtrip`): for every typed response the first
    variant of the untagged enum — in the order read from the source by T1 — that parses is the
    intended one; `const_variant_order` pins that order.
  * `keys_sorted`: the encoder emits dictionaries with strictly increasing keys at both levels
    (canonical bencode; integers and lengths are minimal by `natToAscii`); `wire_keys` pins the
    BEP5/43/44 key names read from the source.
  * compact formats: 26 bytes per node, 6 per peer, 104 per signed peer; transaction ids of exactly
    2 or 4 bytes are accepted.
  Known finding (not a theorem): a 2-byte transaction id is re-encoded on 4 bytes, so the BEP
  examples (`t = "aa"`) do not re-encode byte-identically (DESIGN.md §6 #14).
-/
import MainlineModel.Lemmas.KrpcLemmas
set_option linter.unusedSimpArgs false
namespace Mainline.Props.C10
open Mainline Mainline.Krpc Mainline.Bencode Mainline.WireNames

/-! ### T1 obligations -/

theorem const_variant_order : Constants.RESPONSE_VARIANT_ORDER =
    ["GetMutable", "NoMoreRecentValue", "GetImmutable", "GetPeers", "GetSignedPeers", "NoValues", "FindNode", "Ping"] := by
  decide

/-- the BEP5 / BEP43 / BEP44 / signed-peers key names, as read from `messages/internal.rs` -/
theorem wire_keys :
    n_a = [97] ∧ n_e = [101] ∧ n_q = [113] ∧ n_r = [114] ∧ n_t = [116] ∧ n_v = [118] ∧ n_y = [121] ∧
    n_ip = [105, 112] ∧ n_ro = [114, 111] ∧ n_id = [105, 100] ∧ n_k = [107] ∧
    n_ping = [112, 105, 110, 103] ∧ n_find_node = [102, 105, 110, 100, 95, 110, 111, 100, 101] ∧
    n_get_peers = [103, 101, 116, 95, 112, 101, 101, 114, 115] ∧
    n_announce_peer = [97, 110, 110, 111, 117, 110, 99, 101, 95, 112, 101, 101, 114] ∧
    n_get = [103, 101, 116] ∧ n_put = [112, 117, 116] ∧
    n_target = [116, 97, 114, 103, 101, 116] ∧ n_info_hash = [105, 110, 102, 111, 95, 104, 97, 115, 104] ∧
    n_token = [116, 111, 107, 101, 110] ∧ n_nodes = [110, 111, 100, 101, 115] ∧
    n_values = [118, 97, 108, 117, 101, 115] ∧ n_port = [112, 111, 114, 116] ∧
    n_implied_port = [105, 109, 112, 108, 105, 101, 100, 95, 112, 111, 114, 116] ∧
    n_seq = [115, 101, 113] ∧ n_sig = [115, 105, 103] ∧ n_salt = [115, 97, 108, 116] ∧ n_cas = [99, 97, 115] ∧
    n_peers = [112, 101, 101, 114, 115] := by
  decide

/-! ### well-formedness (the representation invariants of the Rust types) and `norm` -/

def WFid (i : Id) : Prop := i.bytes.length = 20

def WFput : PutSpec → Prop
  | .announcePeer ih _ _ => WFid ih
  | .announceSignedPeer ih t k sig => WFid ih ∧ t < 18446744073709551616 ∧ k.length = 32 ∧ sig.length = 64
  | .putImmutable t _ => WFid t
  | .putMutable t _ k seq sig _ cas => WFid t ∧ k.length = 32 ∧ sig.length = 64 ∧ inI64 seq ∧ (∀ c, cas = some c → inI64 c)

def WFreq (r : Request) : Prop :=
  WFid r.requesterId ∧
  match r.rtype with
  | .ping => True
  | .findNode t => WFid t
  | .getPeers t => WFid t
  | .getSignedPeers t => WFid t
  | .getValue t seq _ => WFid t ∧ (∀ s, seq = some s → inI64 s)
  | .put _ spec => WFput spec

def normPut : PutSpec → PutSpec
  | .announcePeer ih port implied => .announcePeer ih port (some (implied == some true))
  | s => s

def normReq (r : Request) : Request :=
  match r.rtype with
  | .getValue t seq _ => ⟨r.requesterId, .getValue t seq none⟩
  | .put tok spec => ⟨r.requesterId, .put tok (normPut spec)⟩
  | _ => r

section Requests
attribute [local simp] requestArgs optEntry key rawRequest nestedKeysOk reqBytesN reqBytes optBytesN optBytes optInt reqInt
    asIntIn field keyIs asBytes requestOfRaw normReq normPut i64Min i64Max
    n_id n_target n_info_hash n_seq n_token n_port n_implied_port n_k n_sig n_t n_v n_cas n_salt
    n_ping n_find_node n_get_peers n_get_signed_peers n_get n_announce_peer n_announce_signed_peer n_put

theorem rawRequest_roundtrip (r : Request) (h : WFreq r) :
    (rawRequest (requestArgs r).1 (requestArgs r).2).bind requestOfRaw = some (normReq r) := by
  obtain ⟨rid, rt⟩ := r
  obtain ⟨hid, hrt⟩ := h
  simp only [WFid] at hid
  cases rt with
  | ping => simp [hid]
  | findNode t => simp only [WFid] at hrt; simp [hid, hrt]
  | getPeers t => simp only [WFid] at hrt; simp [hid, hrt]
  | getSignedPeers t => simp only [WFid] at hrt; simp [hid, hrt]
  | getValue t seq salt =>
    simp only [WFid] at hrt
    cases seq with
    | none => simp [hid, hrt.1]
    | some s =>
      have := hrt.2 s rfl
      unfold inI64 at this
      simp [hid, hrt.1, this.1, this.2]
  | put tok spec =>
    cases spec with
    | announcePeer ih port implied =>
      simp only [WFput, WFid] at hrt
      have hp := UInt16.toNat_lt port
      have hp' : (port.toNat : Int) ≤ 65535 := by omega
      cases implied with
      | none => simp [hid, hrt, hp']
      | some b => cases b <;> simp [hid, hrt, hp']
    | announceSignedPeer ih t k sig =>
      simp only [WFput, WFid] at hrt
      obtain ⟨h1, h2, h3, h4⟩ := hrt
      have hr := u64AsI64_range t
      unfold inI64 at hr
      simp [hid, h1, h3, h4, hr.1, hr.2, i64AsU64_u64AsI64 t h2]
    | putImmutable t v =>
      simp only [WFput, WFid] at hrt
      simp [hid, hrt]
    | putMutable t v k seq sig salt cas =>
      simp only [WFput, WFid] at hrt
      obtain ⟨h1, h2, h3, h4, h5⟩ := hrt
      unfold inI64 at h4
      cases salt <;> cases cas with
      | none => simp [hid, h1, h2, h3, h4.1, h4.2]
      | some c =>
        have := h5 c rfl
        unfold inI64 at this
        simp [hid, h1, h2, h3, h4.1, h4.2, this.1, this.2]

end Requests

/-! ### responses: the untagged enum picks the intended variant -/

def WFnodes (ns : Option (List Node)) : Prop := ∀ l, ns = some l → ∀ n ∈ l, WFid n.id

def WFresp : Response → Prop
  | .ping i => WFid i
  | .findNode i ns => WFid i ∧ ∀ n ∈ ns, WFid n.id
  | .getPeers i _ _ ns => WFid i ∧ WFnodes ns
  | .getSignedPeers i _ ps ns => WFid i ∧ WFnodes ns ∧ ∀ p ∈ ps, okPeer p
  | .getImmutable i _ ns _ => WFid i ∧ WFnodes ns
  | .getMutable i _ ns _ k seq sig => WFid i ∧ WFnodes ns ∧ k.length = 32 ∧ sig.length = 64 ∧ inI64 seq
  | .noValues i _ ns => WFid i ∧ WFnodes ns
  | .noMoreRecentValue i _ ns seq => WFid i ∧ WFnodes ns ∧ inI64 seq

def normNodes (ns : Option (List Node)) : Option (List Node) := ns.map (·.map normNode)

def normResp : Response → Response
  | .ping i => .ping i
  | .findNode i ns => .findNode i (ns.map normNode)
  | .getPeers i t v ns => .getPeers i t v (normNodes ns)
  | .getSignedPeers i t p ns => .getSignedPeers i t p (normNodes ns)
  | .getImmutable i t ns v => .getImmutable i t (normNodes ns) v
  | .getMutable i t ns v k seq sig => .getMutable i t (normNodes ns) v k seq sig
  | .noValues i t ns => .noValues i t (normNodes ns)
  | .noMoreRecentValue i t ns seq => .noMoreRecentValue i t (normNodes ns) seq

theorem optNodesOf_optNodes (ns : Option (List Node)) (h : WFnodes ns) :
    optNodesOf (ns.map nodesBytes) = .ok (some (normNodes ns)) := by
  cases ns with
  | none => rfl
  | some l =>
    simp only [Option.map_some, optNodesOf, bytesToNodes_nodesBytes l (h l rfl), Outcome.bind, normNodes]

section Responses
attribute [local simp] optEntry key reqBytesN reqBytes optBytesN optBytes optInt reqInt asIntIn field keyIs asBytes i64Min i64Max
  n_id n_token n_seq n_k n_sig n_v nestedKeysOk

theorem mapM_asBytes_comp {α : Type} (f : α → Bytes) (l : List α) :
    List.mapM (asBytes ∘ fun a => BVal.bytes (f a)) l = some (l.map f) := by
  induction l with
  | nil => rfl
  | cons a l ih => simp [List.mapM_cons, asBytes, ih]

attribute [local simp] mapM_asBytes_comp responseArgs optNodes rawResponse tryVariant reqBytesList n_nodes n_values n_peers
  mapM_asBytes List.findSome?

/-- the response dictionary of every typed response parses as the intended variant (first match in
    the source order of `DHTResponseSpecific`) and converts back to the response -/
theorem rawResponse_roundtrip (r : Response) (h : WFresp r) :
    ∃ raw, rawResponse (responseArgs r) = some raw ∧ responseOfRaw raw = .ok (some (normResp r)) := by
  cases r with
  | ping i =>
    simp only [WFresp, WFid] at h
    refine ⟨.ping i.bytes, ?_, rfl⟩
    simp [rawResponse, const_variant_order, h]
  | findNode i ns =>
    simp only [WFresp, WFid] at h
    refine ⟨.findNode i.bytes (nodesBytes ns), ?_, ?_⟩
    · simp [rawResponse, const_variant_order, h.1]
    · simp [responseOfRaw, bytesToNodes_nodesBytes ns h.2, Outcome.bind, normResp]
  | getPeers i tok vals ns =>
    simp only [WFresp, WFid] at h
    refine ⟨.getPeers i.bytes tok (ns.map nodesBytes) (vals.map addrBytes), ?_, ?_⟩
    · cases ns <;> simp [rawResponse, const_variant_order, h.1]
    · simp [responseOfRaw, optNodesOf_optNodes ns h.2, Outcome.bind, mapAll_sockaddr, normResp]
  | getSignedPeers i tok ps ns =>
    simp only [WFresp, WFid] at h
    refine ⟨.getSignedPeers i.bytes tok (ns.map nodesBytes) (ps.map signedPeerBytes), ?_, ?_⟩
    · cases ns <;> simp [rawResponse, const_variant_order, h.1]
    · simp [responseOfRaw, optNodesOf_optNodes ns h.2.1, Outcome.bind, mapAll_signedPeers ps h.2.2, normResp]
  | getImmutable i tok ns v =>
    simp only [WFresp, WFid] at h
    refine ⟨.getImmutable i.bytes tok (ns.map nodesBytes) v, ?_, ?_⟩
    · cases ns <;> simp [rawResponse, const_variant_order, h.1]
    · simp [responseOfRaw, optNodesOf_optNodes ns h.2, Outcome.bind, normResp]
  | getMutable i tok ns v k seq sig =>
    simp only [WFresp, WFid] at h
    obtain ⟨h1, h2, h3, h4, h5⟩ := h
    unfold inI64 at h5
    refine ⟨.getMutable i.bytes tok (ns.map nodesBytes) v k sig seq, ?_, ?_⟩
    · cases ns <;> simp [rawResponse, const_variant_order, h1, h3, h4, h5.1, h5.2]
    · simp [responseOfRaw, optNodesOf_optNodes ns h2, Outcome.bind, normResp]
  | noValues i tok ns =>
    simp only [WFresp, WFid] at h
    refine ⟨.noValues i.bytes tok (ns.map nodesBytes), ?_, ?_⟩
    · cases ns <;> simp [rawResponse, const_variant_order, h.1]
    · simp [responseOfRaw, optNodesOf_optNodes ns h.2, Outcome.bind, normResp]
  | noMoreRecentValue i tok ns seq =>
    simp only [WFresp, WFid] at h
    obtain ⟨h1, h2, h5⟩ := h
    unfold inI64 at h5
    refine ⟨.noMoreRecentValue i.bytes tok (ns.map nodesBytes) seq, ?_, ?_⟩
    · cases ns <;> simp [rawResponse, const_variant_order, h1, h5.1, h5.2]
    · simp [responseOfRaw, optNodesOf_optNodes ns h2, Outcome.bind, normResp]

end Responses

/-! ### whole messages -/

def WF (m : Message) : Prop :=
  (∀ v, m.version = some v → v.length = 4) ∧
  match m.mtype with
  | .request r => WFreq r
  | .response r => WFresp r
  | .error e => (-2147483648 ≤ e.code ∧ e.code ≤ 2147483647) ∧ validUtf8 e.description = true

/-- what is not on the wire is normalised; everything else is preserved -/
def norm (m : Message) : Message :=
  { m with mtype := match m.mtype with
      | .request r => .request (normReq r)
      | .response r => .response (normResp r)
      | .error e => .error e }

theorem topKeys_valid :
    validUtf8 [97] = true ∧ validUtf8 [101] = true ∧ validUtf8 [105, 112] = true ∧ validUtf8 [113] = true ∧
    validUtf8 [114] = true ∧ validUtf8 [114, 111] = true ∧ validUtf8 [116] = true ∧ validUtf8 [118] = true ∧
    validUtf8 [121] = true := by decide

theorem addrBytes_length (a : Addr) : (addrBytes a).length = 6 := rfl

/-- the typed decoder inverts the typed encoder (on the value tree) -/
theorem ofBVal_toBVal (m : Message) (h : WF m) : ofBVal (toBVal m) = .ok (some (norm m)) := by
  obtain ⟨tid, ver, rip, mt, ro⟩ := m
  obtain ⟨hv, hm⟩ := h
  simp only at hv hm
  obtain ⟨k1, k2, k3, k4, k5, k6, k7, k8, k9⟩ := topKeys_valid
  cases mt with
  | request r =>
    have hr := rawRequest_roundtrip r hm
    simp only [toBVal]
    generalize requestArgs r = qa at hr ⊢
    obtain ⟨q, a⟩ := qa
    simp only at hr
    cases ver with
    | none =>
      cases rip <;> cases ro <;>
        simp [ofBVal, topKeysOk, variantOf, tidOf_be32, bytesToSockaddr_addrBytes, addrBytes_length, Outcome.bind, norm,
          optEntry, key, reqBytes, optBytesN, optBytes, optInt, asIntIn, field, keyIs, asBytes,
          k1, k2, k3, k4, k5, k6, k7, k8, k9, n_a, n_e, n_ip, n_q, n_r, n_ro, n_y, n_t, n_v, hr]
    | some v =>
      have := hv v rfl
      cases rip <;> cases ro <;>
        simp [ofBVal, topKeysOk, variantOf, tidOf_be32, bytesToSockaddr_addrBytes, addrBytes_length, Outcome.bind, norm,
          optEntry, key, reqBytes, optBytesN, optBytes, optInt, asIntIn, field, keyIs, asBytes,
          k1, k2, k3, k4, k5, k6, k7, k8, k9, n_a, n_e, n_ip, n_q, n_r, n_ro, n_y, n_t, n_v, hr, this]
  | response r =>
    obtain ⟨raw, hr1, hr2⟩ := rawResponse_roundtrip r hm
    simp only [toBVal]
    generalize responseArgs r = ra at hr1 ⊢
    cases ver with
    | none =>
      cases rip <;> cases ro <;>
        simp [ofBVal, topKeysOk, variantOf, tidOf_be32, bytesToSockaddr_addrBytes, addrBytes_length, Outcome.bind, norm,
          optEntry, key, reqBytes, optBytesN, optBytes, optInt, asIntIn, field, keyIs, asBytes,
          k1, k2, k3, k4, k5, k6, k7, k8, k9, n_a, n_e, n_ip, n_q, n_r, n_ro, n_y, n_t, n_v, hr1, hr2]
    | some v =>
      have := hv v rfl
      cases rip <;> cases ro <;>
        simp [ofBVal, topKeysOk, variantOf, tidOf_be32, bytesToSockaddr_addrBytes, addrBytes_length, Outcome.bind, norm,
          optEntry, key, reqBytes, optBytesN, optBytes, optInt, asIntIn, field, keyIs, asBytes,
          k1, k2, k3, k4, k5, k6, k7, k8, k9, n_a, n_e, n_ip, n_q, n_r, n_ro, n_y, n_t, n_v, hr1, hr2, this]
  | error e =>
    obtain ⟨⟨hc1, hc2⟩, hd⟩ := hm
    simp only [toBVal]
    cases ver with
    | none =>
      cases rip <;> cases ro <;>
        simp [ofBVal, topKeysOk, variantOf, tidOf_be32, bytesToSockaddr_addrBytes, addrBytes_length, Outcome.bind, norm,
          optEntry, key, reqBytes, optBytesN, optBytes, optInt, asIntIn, field, keyIs, asBytes,
          k1, k2, k3, k4, k5, k6, k7, k8, k9, n_a, n_e, n_ip, n_q, n_r, n_ro, n_y, n_t, n_v, hc1, hc2, hd]
    | some v =>
      have := hv v rfl
      cases rip <;> cases ro <;>
        simp [ofBVal, topKeysOk, variantOf, tidOf_be32, bytesToSockaddr_addrBytes, addrBytes_length, Outcome.bind, norm,
          optEntry, key, reqBytes, optBytesN, optBytes, optInt, asIntIn, field, keyIs, asBytes,
          k1, k2, k3, k4, k5, k6, k7, k8, k9, n_a, n_e, n_ip, n_q, n_r, n_ro, n_y, n_t, n_v, hc1, hc2, hd, this]

/-! ### from the value tree to bytes -/

/-- sizes: every variable-length byte string (and compact node list) is shorter than 2^64 bytes -/
def SizedPut : PutSpec → Prop
  | .putImmutable _ v => okLen v
  | .putMutable _ v _ _ _ salt _ => okLen v ∧ (∀ s, salt = some s → okLen s)
  | _ => True

def SizedNodes (ns : Option (List Node)) : Prop := ∀ l, ns = some l → okLen (nodesBytes l)

def SizedReq (r : Request) : Prop :=
  match r.rtype with
  | .put tok spec => okLen tok ∧ SizedPut spec
  | _ => True

def SizedResp : Response → Prop
  | .ping _ => True
  | .findNode _ ns => okLen (nodesBytes ns)
  | .getPeers _ tok _ ns => okLen tok ∧ SizedNodes ns
  | .getSignedPeers _ tok _ ns => okLen tok ∧ SizedNodes ns
  | .getImmutable _ tok ns v => okLen tok ∧ SizedNodes ns ∧ okLen v
  | .getMutable _ tok ns v _ _ _ => okLen tok ∧ SizedNodes ns ∧ okLen v
  | .noValues _ tok ns => okLen tok ∧ SizedNodes ns
  | .noMoreRecentValue _ tok ns _ => okLen tok ∧ SizedNodes ns

def Sized (m : Message) : Prop :=
  match m.mtype with
  | .request r => SizedReq r
  | .response r => SizedResp r
  | .error e => okLen e.description

theorem okLen_of_small (b : Bytes) (n : Nat) (h : b.length = n) (hn : n < 18446744073709551616) : okLen b := by
  unfold okLen; omega

def EntryOK (p : BVal × BVal) : Prop :=
  (∃ k, p.1 = .bytes k ∧ okLen k) ∧ Top p.2 ∧ (arrayFieldLen p.1 = none ∨ ∃ b, p.2 = .bytes b ∧ okLen b)

theorem topEntries_nil : TopEntries [] := by intro p hp; cases hp
theorem topEntries_cons (p : BVal × BVal) (d : List (BVal × BVal)) (hp : EntryOK p) (hd : TopEntries d) :
    TopEntries (p :: d) := by
  intro q hq
  rcases List.mem_cons.1 hq with e | e
  · rw [e]; exact hp
  · exact hd q e
theorem topEntries_append (d1 d2 : List (BVal × BVal)) (h1 : TopEntries d1) (h2 : TopEntries d2) :
    TopEntries (d1 ++ d2) := by
  intro q hq
  rcases List.mem_append.1 hq with e | e
  · exact h1 q e
  · exact h2 q e

def LeafEntryOK (p : BVal × BVal) : Prop := (∃ k, p.1 = .bytes k ∧ okLen k) ∧ Leaf p.2

theorem leafEntries_nil : LeafEntries [] := by intro p hp; cases hp
theorem leafEntries_cons (p : BVal × BVal) (d : List (BVal × BVal)) (hp : LeafEntryOK p) (hd : LeafEntries d) :
    LeafEntries (p :: d) := by
  intro q hq
  rcases List.mem_cons.1 hq with e | e
  · rw [e]; exact hp
  · exact hd q e
theorem leafEntries_append (d1 d2 : List (BVal × BVal)) (h1 : LeafEntries d1) (h2 : LeafEntries d2) :
    LeafEntries (d1 ++ d2) := by
  intro q hq
  rcases List.mem_append.1 hq with e | e
  · exact h1 q e
  · exact h2 q e

theorem leafEntry_bytes (k b : Bytes) (hk : okLen k) (hb : okLen b) : LeafEntryOK (.bytes k, .bytes b) :=
  ⟨⟨k, rfl, hk⟩, Leaf.bytes b hb⟩
theorem leafEntry_int (k : Bytes) (i : Int) (hk : okLen k) (hi : inI64 i) : LeafEntryOK (.bytes k, .int i) :=
  ⟨⟨k, rfl, hk⟩, Leaf.int i hi⟩

theorem okLen_id (i : Id) (h : WFid i) : okLen i.bytes := okLen_of_small _ 20 h (by decide)

theorem leafEntries_optInt (k : Bytes) (hk : okLen k) (o : Option Int) (h : ∀ i, o = some i → inI64 i) :
    LeafEntries (optEntry k (o.map .int)) := by
  cases o with
  | none => exact leafEntries_nil
  | some i => exact leafEntries_cons _ _ (leafEntry_int k i hk (h i rfl)) leafEntries_nil

theorem leafEntries_optBytes (k : Bytes) (hk : okLen k) (o : Option Bytes) (h : ∀ b, o = some b → okLen b) :
    LeafEntries (optEntry k (o.map .bytes)) := by
  cases o with
  | none => exact leafEntries_nil
  | some b => exact leafEntries_cons _ _ (leafEntry_bytes k b hk (h b rfl)) leafEntries_nil

theorem leafEntries_optNodes (ns : Option (List Node)) (h : SizedNodes ns) : LeafEntries (optNodes ns) := by
  cases ns with
  | none => exact leafEntries_nil
  | some l => exact leafEntries_cons _ _ (leafEntry_bytes n_nodes _ (by unfold okLen; decide) (h l rfl)) leafEntries_nil

/-- the `a` dictionary of every request consists of leaves -/
theorem requestArgs_leaves (r : Request) (h : WFreq r) (hs : SizedReq r) :
    LeafEntries (requestArgs r).2 ∧ okLen (requestArgs r).1 := by
  obtain ⟨rid, rt⟩ := r
  obtain ⟨hid, hrt⟩ := h
  have hidl := okLen_id rid hid
  have eid : LeafEntryOK (key n_id, BVal.bytes rid.bytes) := leafEntry_bytes n_id _ (by unfold okLen; decide) hidl
  cases rt with
  | ping => exact ⟨leafEntries_cons _ _ eid leafEntries_nil, by simp only [requestArgs]; unfold okLen; decide⟩
  | findNode t =>
    exact ⟨leafEntries_cons _ _ eid (leafEntries_cons _ _ (leafEntry_bytes n_target _ (by unfold okLen; decide) (okLen_id t hrt)) leafEntries_nil), by simp only [requestArgs]; unfold okLen; decide⟩
  | getPeers t =>
    exact ⟨leafEntries_cons _ _ eid (leafEntries_cons _ _ (leafEntry_bytes n_info_hash _ (by unfold okLen; decide) (okLen_id t hrt)) leafEntries_nil), by simp only [requestArgs]; unfold okLen; decide⟩
  | getSignedPeers t =>
    exact ⟨leafEntries_cons _ _ eid (leafEntries_cons _ _ (leafEntry_bytes n_info_hash _ (by unfold okLen; decide) (okLen_id t hrt)) leafEntries_nil), by simp only [requestArgs]; unfold okLen; decide⟩
  | getValue t seq salt =>
    refine ⟨?_, by simp only [requestArgs]; unfold okLen; decide⟩
    simp only [requestArgs]
    exact leafEntries_append _ _ (leafEntries_append _ _ (leafEntries_cons _ _ eid leafEntries_nil)
      (leafEntries_optInt n_seq (by unfold okLen; decide) seq hrt.2))
      (leafEntries_cons _ _ (leafEntry_bytes n_target _ (by unfold okLen; decide) (okLen_id t hrt.1)) leafEntries_nil)
  | put tok spec =>
    obtain ⟨htok, hsp⟩ := hs
    have etok : LeafEntryOK (key n_token, BVal.bytes tok) := leafEntry_bytes n_token _ (by unfold okLen; decide) htok
    cases spec with
    | announcePeer ih port implied =>
      refine ⟨?_, by simp only [requestArgs]; unfold okLen; decide⟩
      simp only [requestArgs]
      refine leafEntries_cons _ _ eid (leafEntries_cons _ _ (leafEntry_int n_implied_port _ (by unfold okLen; decide) ?_)
        (leafEntries_cons _ _ (leafEntry_bytes n_info_hash _ (by unfold okLen; decide) (okLen_id ih hrt))
        (leafEntries_cons _ _ (leafEntry_int n_port _ (by unfold okLen; decide) ?_) (leafEntries_cons _ _ etok leafEntries_nil))))
      · unfold inI64; split <;> omega
      · have := UInt16.toNat_lt port; unfold inI64; omega
    | announceSignedPeer ih t k sig =>
      obtain ⟨h1, h2, h3, h4⟩ := hrt
      refine ⟨?_, by simp only [requestArgs]; unfold okLen; decide⟩
      simp only [requestArgs]
      exact leafEntries_cons _ _ eid (leafEntries_cons _ _ (leafEntry_bytes n_info_hash _ (by unfold okLen; decide) (okLen_id ih h1))
        (leafEntries_cons _ _ (leafEntry_bytes n_k _ (by unfold okLen; decide) (okLen_of_small _ 32 h3 (by decide)))
        (leafEntries_cons _ _ (leafEntry_bytes n_sig _ (by unfold okLen; decide) (okLen_of_small _ 64 h4 (by decide)))
        (leafEntries_cons _ _ (leafEntry_int n_t _ (by unfold okLen; decide) (u64AsI64_range t))
        (leafEntries_cons _ _ etok leafEntries_nil)))))
    | putImmutable t v =>
      refine ⟨?_, by simp only [requestArgs]; unfold okLen; decide⟩
      simp only [requestArgs]
      exact leafEntries_cons _ _ eid (leafEntries_cons _ _ (leafEntry_bytes n_target _ (by unfold okLen; decide) (okLen_id t hrt))
        (leafEntries_cons _ _ etok (leafEntries_cons _ _ (leafEntry_bytes n_v _ (by unfold okLen; decide) hsp) leafEntries_nil)))
    | putMutable t v k seq sig salt cas =>
      obtain ⟨h1, h2, h3, h4, h5⟩ := hrt
      obtain ⟨hv, hsalt⟩ := hsp
      refine ⟨?_, by simp only [requestArgs]; unfold okLen; decide⟩
      simp only [requestArgs]
      exact leafEntries_append _ _ (leafEntries_append _ _ (leafEntries_append _ _
        (leafEntries_optInt n_cas (by unfold okLen; decide) cas h5)
        (leafEntries_cons _ _ eid (leafEntries_cons _ _ (leafEntry_bytes n_k _ (by unfold okLen; decide) (okLen_of_small _ 32 h2 (by decide))) leafEntries_nil)))
        (leafEntries_optBytes n_salt (by unfold okLen; decide) salt hsalt))
        (leafEntries_cons _ _ (leafEntry_int n_seq _ (by unfold okLen; decide) h4)
        (leafEntries_cons _ _ (leafEntry_bytes n_sig _ (by unfold okLen; decide) (okLen_of_small _ 64 h3 (by decide)))
        (leafEntries_cons _ _ (leafEntry_bytes n_target _ (by unfold okLen; decide) (okLen_id t h1))
        (leafEntries_cons _ _ etok (leafEntries_cons _ _ (leafEntry_bytes n_v _ (by unfold okLen; decide) hv) leafEntries_nil)))))

theorem leaf_bytesList_map {α : Type} (f : α → Bytes) (l : List α) (h : ∀ a ∈ l, okLen (f a)) :
    Leaf (.list (l.map (fun a => BVal.bytes (f a)))) := by
  have : l.map (fun a => BVal.bytes (f a)) = (l.map f).map BVal.bytes := by simp [List.map_map]
  rw [this]
  apply Leaf.bytesList
  intro b hb
  obtain ⟨a, ha, rfl⟩ := List.mem_map.1 hb
  exact h a ha

/-- the `r` dictionary of every response consists of leaves -/
theorem responseArgs_leaves (r : Response) (h : WFresp r) (hs : SizedResp r) :
    LeafEntries (responseArgs r) := by
  have kid : okLen n_id := by unfold okLen; decide
  have ktok : okLen n_token := by unfold okLen; decide
  cases r with
  | ping i => exact leafEntries_cons _ _ (leafEntry_bytes n_id _ kid (okLen_id i h)) leafEntries_nil
  | findNode i ns =>
    exact leafEntries_cons _ _ (leafEntry_bytes n_id _ kid (okLen_id i h.1))
      (leafEntries_cons _ _ (leafEntry_bytes n_nodes _ (by unfold okLen; decide) hs) leafEntries_nil)
  | getPeers i tok vals ns =>
    simp only [responseArgs]
    exact leafEntries_append _ _ (leafEntries_append _ _
      (leafEntries_cons _ _ (leafEntry_bytes n_id _ kid (okLen_id i h.1)) leafEntries_nil) (leafEntries_optNodes ns hs.2))
      (leafEntries_cons _ _ (leafEntry_bytes n_token _ ktok hs.1)
      (leafEntries_cons _ _ ⟨⟨n_values, rfl, by unfold okLen; decide⟩,
        leaf_bytesList_map addrBytes vals (fun a _ => okLen_of_small _ 6 rfl (by decide))⟩ leafEntries_nil))
  | getSignedPeers i tok ps ns =>
    simp only [responseArgs]
    exact leafEntries_append _ _ (leafEntries_append _ _
      (leafEntries_cons _ _ (leafEntry_bytes n_id _ kid (okLen_id i h.1)) leafEntries_nil) (leafEntries_optNodes ns hs.2))
      (leafEntries_cons _ _ ⟨⟨n_peers, rfl, by unfold okLen; decide⟩,
        leaf_bytesList_map signedPeerBytes ps (fun p hp => by
          obtain ⟨h1, h2, _⟩ := h.2.2 p hp
          exact okLen_of_small _ 104 (by simp [signedPeerBytes, h1, h2, be64]) (by decide))⟩
      (leafEntries_cons _ _ (leafEntry_bytes n_token _ ktok hs.1) leafEntries_nil))
  | getImmutable i tok ns v =>
    simp only [responseArgs]
    exact leafEntries_append _ _ (leafEntries_append _ _
      (leafEntries_cons _ _ (leafEntry_bytes n_id _ kid (okLen_id i h.1)) leafEntries_nil) (leafEntries_optNodes ns hs.2.1))
      (leafEntries_cons _ _ (leafEntry_bytes n_token _ ktok hs.1)
      (leafEntries_cons _ _ (leafEntry_bytes n_v _ (by unfold okLen; decide) hs.2.2) leafEntries_nil))
  | getMutable i tok ns v k seq sig =>
    obtain ⟨h1, h2, h3, h4, h5⟩ := h
    simp only [responseArgs]
    exact leafEntries_append _ _ (leafEntries_append _ _
      (leafEntries_cons _ _ (leafEntry_bytes n_id _ kid (okLen_id i h1))
        (leafEntries_cons _ _ (leafEntry_bytes n_k _ (by unfold okLen; decide) (okLen_of_small _ 32 h3 (by decide))) leafEntries_nil))
      (leafEntries_optNodes ns hs.2.1))
      (leafEntries_cons _ _ (leafEntry_int n_seq _ (by unfold okLen; decide) h5)
      (leafEntries_cons _ _ (leafEntry_bytes n_sig _ (by unfold okLen; decide) (okLen_of_small _ 64 h4 (by decide)))
      (leafEntries_cons _ _ (leafEntry_bytes n_token _ ktok hs.1)
      (leafEntries_cons _ _ (leafEntry_bytes n_v _ (by unfold okLen; decide) hs.2.2) leafEntries_nil))))
  | noValues i tok ns =>
    simp only [responseArgs]
    exact leafEntries_append _ _ (leafEntries_append _ _
      (leafEntries_cons _ _ (leafEntry_bytes n_id _ kid (okLen_id i h.1)) leafEntries_nil) (leafEntries_optNodes ns hs.2))
      (leafEntries_cons _ _ (leafEntry_bytes n_token _ ktok hs.1) leafEntries_nil)
  | noMoreRecentValue i tok ns seq =>
    simp only [responseArgs]
    exact leafEntries_append _ _ (leafEntries_append _ _
      (leafEntries_cons _ _ (leafEntry_bytes n_id _ kid (okLen_id i h.1)) leafEntries_nil) (leafEntries_optNodes ns hs.2))
      (leafEntries_cons _ _ (leafEntry_int n_seq _ (by unfold okLen; decide) h.2.2)
      (leafEntries_cons _ _ (leafEntry_bytes n_token _ ktok hs.1) leafEntries_nil))

/-! ### the top-level dictionary -/

theorem encodeDict_append (d1 d2 : List (BVal × BVal)) :
    encodeDict (d1 ++ d2) = encodeDict d1 ++ encodeDict d2 := by
  induction d1 with
  | nil => rfl
  | cons p d1 ih => obtain ⟨k, v⟩ := p; simp [encodeDict, ih]

theorem entry_ip (o : Option Addr) : TopEntries (optEntry n_ip (o.map (fun a => BVal.bytes (addrBytes a)))) := by
  cases o with
  | none => exact topEntries_nil
  | some a =>
    refine topEntries_cons _ _ ⟨⟨n_ip, rfl, by unfold okLen; decide⟩, Top.leaf _ (Leaf.bytes _ ?_), Or.inr ⟨_, rfl, ?_⟩⟩ topEntries_nil
    all_goals exact okLen_of_small _ 6 rfl (by decide)

theorem entry_v (o : Option Bytes) (h : ∀ v, o = some v → v.length = 4) :
    TopEntries (optEntry n_v (o.map BVal.bytes)) := by
  cases o with
  | none => exact topEntries_nil
  | some v =>
    have := okLen_of_small v 4 (h v rfl) (by decide)
    exact topEntries_cons _ _ ⟨⟨n_v, rfl, by unfold okLen; decide⟩, Top.leaf _ (Leaf.bytes _ this), Or.inr ⟨_, rfl, this⟩⟩ topEntries_nil

theorem entry_ro (b : Bool) : TopEntries [(key n_ro, BVal.int (if b then 1 else 0))] := by
  refine topEntries_cons _ _ ⟨⟨n_ro, rfl, by unfold okLen; decide⟩, Top.leaf _ (Leaf.int _ ?_), Or.inl (by simp only [key]; decide)⟩ topEntries_nil
  unfold inI64; cases b <;> simp

theorem entry_t (t : UInt32) : TopEntries [(key n_t, BVal.bytes (be32 t))] :=
  topEntries_cons _ _ ⟨⟨n_t, rfl, by unfold okLen; decide⟩,
    Top.leaf _ (Leaf.bytes _ (okLen_of_small _ 4 rfl (by decide))), Or.inl (by simp only [key]; decide)⟩ topEntries_nil

theorem entry_bytes (k b : Bytes) (hk : okLen k) (hb : okLen b) (ha : arrayFieldLen (.bytes k) = none) :
    TopEntries [(key k, BVal.bytes b)] :=
  topEntries_cons _ _ ⟨⟨k, rfl, hk⟩, Top.leaf _ (Leaf.bytes _ hb), Or.inl ha⟩ topEntries_nil

/-- the encoder's output is a dictionary of the shape the parser lemmas cover -/
theorem toBVal_entries (m : Message) (h : WF m) (hs : Sized m) :
    ∃ d, toBVal m = .dict d ∧ TopEntries d ∧ (encodeDict d).length ≥ 13 := by
  obtain ⟨tid, ver, rip, mt, ro⟩ := m
  obtain ⟨hv, hm⟩ := h
  simp only at hv hm
  have hlen_t : (encodeDict [(key n_t, BVal.bytes (be32 tid))]).length = 9 := by
    simp [encodeDict, encode, encBytes, key, n_t, be32, natToAscii, natDigits]
  have hy : ∀ c : Bytes, c.length = 1 → (encodeDict [(key n_y, key c)]).length = 6 := by
    intro c hc
    simp [encodeDict, encode, encBytes, key, n_y, hc, natToAscii, natDigits]
  cases mt with
  | request r =>
    obtain ⟨hleaf, hq⟩ := requestArgs_leaves r hm hs
    simp only [toBVal]
    generalize requestArgs r = qa at hleaf hq ⊢
    obtain ⟨q, a⟩ := qa
    refine ⟨_, rfl, ?_, ?_⟩
    · exact topEntries_append _ _ (topEntries_append _ _ (topEntries_append _ _ (topEntries_append _ _
        (topEntries_append _ _ (topEntries_append _ _
          (topEntries_cons _ _ ⟨⟨n_a, rfl, by unfold okLen; decide⟩, Top.dict a hleaf, Or.inl (by simp only [key]; decide)⟩ topEntries_nil)
          (entry_ip rip))
          (entry_bytes n_q q (by unfold okLen; decide) hq (by decide)))
          (entry_ro ro)) (entry_t tid)) (entry_v ver hv))
        (entry_bytes n_y n_q (by unfold okLen; decide) (by unfold okLen; decide) (by decide))
    · simp only [encodeDict_append, List.length_append, hlen_t, hy n_q rfl]; omega
  | response r =>
    have hleaf := responseArgs_leaves r hm hs
    simp only [toBVal]
    refine ⟨_, rfl, ?_, ?_⟩
    · exact topEntries_append _ _ (topEntries_append _ _ (topEntries_append _ _ (topEntries_append _ _
        (topEntries_append _ _ (entry_ip rip)
          (topEntries_cons _ _ ⟨⟨n_r, rfl, by unfold okLen; decide⟩, Top.dict _ hleaf, Or.inl (by simp only [key]; decide)⟩ topEntries_nil))
          (entry_ro ro)) (entry_t tid)) (entry_v ver hv))
        (entry_bytes n_y n_r (by unfold okLen; decide) (by unfold okLen; decide) (by decide))
    · simp only [encodeDict_append, List.length_append, hlen_t, hy n_r rfl]; omega
  | error e =>
    obtain ⟨⟨hc1, hc2⟩, hd⟩ := hm
    simp only [toBVal]
    refine ⟨_, rfl, ?_, ?_⟩
    · exact topEntries_append _ _ (topEntries_append _ _ (topEntries_append _ _ (topEntries_append _ _
        (topEntries_append _ _
          (topEntries_cons _ _ ⟨⟨n_e, rfl, by unfold okLen; decide⟩,
            Top.leaf _ (Leaf.pair e.code e.description (by unfold inI64; omega) hs), Or.inl (by simp only [key]; decide)⟩ topEntries_nil)
          (entry_ip rip))
          (entry_ro ro)) (entry_t tid)) (entry_v ver hv))
        (entry_bytes n_y n_e (by unfold okLen; decide) (by unfold okLen; decide) (by decide))
    · simp only [encodeDict_append, List.length_append, hlen_t, hy n_e rfl]; omega

/-- **decode ∘ encode = norm** on bytes, for every well-formed message of every kind -/
theorem decode_encode (m : Message) (h : WF m) (hs : Sized m) :
    fromBytes (toBytes m) = .ok (some (norm m)) := by
  obtain ⟨d, hd, htop, hlen⟩ := toBVal_entries m h hs
  have hof := ofBVal_toBVal m h
  unfold toBytes fromBytes
  rw [hd] at hof ⊢
  simp only [encode, List.cons_append, List.nil_append, List.length_cons, List.length_append, List.length_nil]
  have h15 : ¬ ((encodeDict d).length + 1 + 1 < 15) := by omega
  simp only [h15, ite_false]
  have := parseTopEntries_enc d htop ((encodeDict d).length + (0 + 1) + 2) [] [] (by omega)
  simp only [List.reverse_nil, List.nil_append] at this
  rw [this]
  exact hof

/-- nothing the library can build makes its own decoder reject or panic -/
theorem encode_then_decode_never_fails (m : Message) (h : WF m) (hs : Sized m) :
    ∃ m', fromBytes (toBytes m) = .ok (some m') := ⟨_, decode_encode m h hs⟩

/-! ### canonical form, compact formats, transaction ids -/

/-- keys of a dictionary are byte strings in strictly increasing order -/
def sortedKeys : List (BVal × BVal) → Bool
  | (.bytes a, _) :: (.bytes b, v) :: rest => bytesLt a b && sortedKeys ((.bytes b, v) :: rest)
  | [(.bytes _, _)] => true
  | [] => true
  | _ => false

section Sorted
attribute [local simp] sortedKeys bytesLt bytesCmp requestArgs responseArgs optEntry optNodes key
  n_a n_e n_ip n_q n_r n_ro n_t n_v n_y n_id n_target n_info_hash n_seq n_token n_port n_implied_port n_k n_sig
  n_cas n_salt n_nodes n_values n_peers

/-- the argument dictionary of every request has strictly increasing keys -/
theorem request_keys_sorted (r : Request) : sortedKeys (requestArgs r).2 = true := by
  obtain ⟨rid, rt⟩ := r
  cases rt with
  | ping => simp
  | findNode t => simp
  | getPeers t => simp
  | getSignedPeers t => simp
  | getValue t seq salt => cases seq <;> simp
  | put tok spec =>
    cases spec with
    | announcePeer ih port implied => simp
    | announceSignedPeer ih t k sig => simp
    | putImmutable t v => simp
    | putMutable t v k seq sig salt cas => cases salt <;> cases cas <;> simp

/-- … and so has the dictionary of every response -/
theorem response_keys_sorted (r : Response) : sortedKeys (responseArgs r) = true := by
  cases r with
  | ping i => simp
  | findNode i ns => simp
  | getPeers i tok vals ns => cases ns <;> simp
  | getSignedPeers i tok ps ns => cases ns <;> simp
  | getImmutable i tok ns v => cases ns <;> simp
  | getMutable i tok ns v k seq sig => cases ns <;> simp
  | noValues i tok ns => cases ns <;> simp
  | noMoreRecentValue i tok ns seq => cases ns <;> simp

/-- … and the top-level dictionary of every message -/
theorem top_keys_sorted (m : Message) : ∃ d, toBVal m = .dict d ∧ sortedKeys d = true := by
  obtain ⟨tid, ver, rip, mt, ro⟩ := m
  cases mt with
  | request r =>
    simp only [toBVal]
    generalize Krpc.requestArgs r = qa
    obtain ⟨q, a⟩ := qa
    exact ⟨_, rfl, by cases ver <;> cases rip <;> simp⟩
  | response r =>
    simp only [toBVal]
    generalize Krpc.responseArgs r = ra
    exact ⟨_, rfl, by cases ver <;> cases rip <;> simp⟩
  | error e =>
    simp only [toBVal]
    exact ⟨_, rfl, by cases ver <;> cases rip <;> simp⟩
end Sorted

/-- compact node info: 26 bytes per node (id ‖ ip ‖ port) -/
theorem compact_nodes_length (ns : List Node) (h : ∀ n ∈ ns, n.id.bytes.length = 20) :
    (nodesBytes ns).length = 26 * ns.length := nodesBytes_length ns h

/-- compact peer info: 6 bytes (ip ‖ port, big-endian), and it decodes back -/
theorem compact_peer (a : Addr) : (addrBytes a).length = 6 ∧ bytesToSockaddr (addrBytes a) = .ok (some a) :=
  ⟨rfl, bytesToSockaddr_addrBytes a⟩

/-- signed peer record: 104 bytes (k ‖ t ‖ sig), and it decodes back -/
theorem compact_signed_peer (p : SignedPeer) (h : okPeer p) :
    (signedPeerBytes p).length = 104 ∧ bytesToSignedPeer (signedPeerBytes p) = .ok (some p) := by
  refine ⟨?_, bytesToSignedPeer_bytes p h⟩
  obtain ⟨h1, h2, _⟩ := h
  simp [signedPeerBytes, h1, h2, be64]

/-- a record of any other length is a decode error (never a panic, never a truncation) -/
theorem signed_peer_wrong_length (bs : Bytes) (h : bs.length ≠ 104) : bytesToSignedPeer bs = .ok none := by
  unfold bytesToSignedPeer
  have : (bs.length != 104) = true := by simpa using h
  simp [this]

/-- exactly 2- and 4-byte transaction ids are accepted -/
theorem tid_widths (bs : Bytes) : (tidOf bs).isSome = true ↔ bs.length = 2 ∨ bs.length = 4 := by
  unfold tidOf
  by_cases h : bs.length = 2 ∨ bs.length = 4
  · simp [h]
  · simp [h]

/-! ### BEP examples, kernel-evaluated — tests, labelled as tests (the same bytes go through the real codec in T2) -/

/-- BEP5 ping query -/
example : (match fromBytes [100, 49, 58, 97, 100, 50, 58, 105, 100, 50, 48, 58, 97, 98, 99, 100, 101, 102, 103, 104, 105, 106, 48, 49, 50, 51, 52, 53, 54, 55, 56, 57, 101, 49, 58, 113, 52, 58, 112, 105, 110, 103, 49, 58, 116, 50, 58, 97, 97, 49, 58, 121, 49, 58, 113, 101] with
    | .ok (some ⟨t, none, none, .request ⟨i, .ping⟩, false⟩) => t == 0x6161 && i.bytes == [97, 98, 99, 100, 101, 102, 103, 104, 105, 106, 48, 49, 50, 51, 52, 53, 54, 55, 56, 57]
    | _ => false) = true := by decide +kernel
/-- BEP5 error message -/
example : (match fromBytes [100, 49, 58, 101, 108, 105, 50, 48, 49, 101, 50, 51, 58, 65, 32, 71, 101, 110, 101, 114, 105, 99, 32, 69, 114, 114, 111, 114, 32, 79, 99, 117, 114, 114, 101, 100, 101, 49, 58, 116, 50, 58, 97, 97, 49, 58, 121, 49, 58, 101, 101] with
    | .ok (some ⟨_, _, _, .error ⟨201, _⟩, _⟩) => true
    | _ => false) = true := by decide +kernel
/-- BEP5 get_peers response with two compact peers -/
example : (match fromBytes [100, 49, 58, 114, 100, 50, 58, 105, 100, 50, 48, 58, 97, 98, 99, 100, 101, 102, 103, 104, 105, 106, 48, 49, 50, 51, 52, 53, 54, 55, 56, 57, 53, 58, 116, 111, 107, 101, 110, 56, 58, 97, 111, 101, 117, 115, 110, 116, 104, 54, 58, 118, 97, 108, 117, 101, 115, 108, 54, 58, 97, 120, 106, 101, 46, 117, 54, 58, 105, 100, 104, 116, 110, 109, 101, 101, 49, 58, 116, 50, 58, 97, 97, 49, 58, 121, 49, 58, 114, 101] with
    | .ok (some ⟨_, _, _, .response (.getPeers _ tok vals none), _⟩) => tok.length == 8 && vals.length == 2
    | _ => false) = true := by decide +kernel
/-- BEP5 announce_peer with implied_port = 1 -/
example : (match fromBytes [100, 49, 58, 97, 100, 50, 58, 105, 100, 50, 48, 58, 97, 98, 99, 100, 101, 102, 103, 104, 105, 106, 48, 49, 50, 51, 52, 53, 54, 55, 56, 57, 49, 50, 58, 105, 109, 112, 108, 105, 101, 100, 95, 112, 111, 114, 116, 105, 49, 101, 57, 58, 105, 110, 102, 111, 95, 104, 97, 115, 104, 50, 48, 58, 109, 110, 111, 112, 113, 114, 115, 116, 117, 118, 119, 120, 121, 122, 49, 50, 51, 52, 53, 54, 52, 58, 112, 111, 114, 116, 105, 54, 56, 56, 49, 101, 53, 58, 116, 111, 107, 101, 110, 56, 58, 97, 111, 101, 117, 115, 110, 116, 104, 101, 49, 58, 113, 49, 51, 58, 97, 110, 110, 111, 117, 110, 99, 101, 95, 112, 101, 101, 114, 49, 58, 116, 50, 58, 97, 97, 49, 58, 121, 49, 58, 113, 101] with
    | .ok (some ⟨_, _, _, .request ⟨_, .put _ (.announcePeer _ port (some true))⟩, _⟩) => port == 6881
    | _ => false) = true := by decide +kernel
/-- the hypotheses of `decode_encode` are satisfiable -/
example : WF ⟨7, none, none, .request ⟨⟨List.replicate 20 1⟩, .ping⟩, false⟩ ∧
    Sized ⟨7, none, none, .request ⟨⟨List.replicate 20 1⟩, .ping⟩, false⟩ := by
  refine ⟨⟨(fun v h => by cases h), ?_⟩, ?_⟩
  · exact ⟨by simp [WFid], trivial⟩
  · simp [Sized, SizedReq]

end Mainline.Props.C10
