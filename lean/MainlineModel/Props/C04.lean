/-
  C04 — Mutable items never roll back; seq and CAS rules hold (BEP44).

  For every server state and every request (hence, by induction, every history):
  * `cas_mismatch_301`, `lower_seq_302`: the two rejections, both leaving every lookup unchanged;
  * `valid_put_accepted`: a valid put with `seq ≥ stored` (in particular the same item again, or
    another value with the same seq) and a matching or absent `cas` is accepted and is what the
    store then holds;
  * `mutable_step`: after **any** request the item found under a target is either the one found
    before, or the item of a just-accepted put for that target whose seq is ≥ the previous one;
    `seq_never_decreases` / `seq_monotone_while_stored`: the stored seq never decreases as long as
    the target stays stored (after an eviction the slot is empty and any seq is accepted again —
    the property text allows exactly this);
  * `get_reply_spec`: a get returns exactly the stored item, or only its seq when the request's
    seq filter is at or above it, or no value when nothing is stored.
-/
import MainlineModel.Props.C03
namespace Mainline.Props.C04
open Mainline Mainline.Server Mainline.Props.C03

/-- the stateless part of the acceptance condition of a mutable put -/
def Stateless (s : Server) (src : Addr) (token : Bytes) (target : Id) (v k : Bytes)
    (salt : Option Bytes) : Prop :=
  s.tokens.validate src.ip token = true ∧ v.length ≤ 1000 ∧
  (∀ sl, salt = some sl → sl.length ≤ 64) ∧ target.bytes = targetFromKey k salt

theorem handlePut_mutable_of_stateless (s : Server) (verify : Verify) (rt : RoutingTable) (src : Addr)
    (wall : Nat) (rid : Id) (token : Bytes) (target : Id) (v k : Bytes) (seq : Int) (sig : Bytes)
    (salt : Option Bytes) (cas : Option Int) (h : Stateless s src token target v k salt) :
    s.handlePut verify rt src wall rid token (.putMutable target v k seq sig salt cas) =
      s.putMutableStore verify rt target v k seq sig salt cas := by
  obtain ⟨h1, h2, h3, h4⟩ := h
  have h2' : ¬ v.length > Constants.MAX_VALUE_LEN := by simp only [const_value_len]; omega
  have h3' : saltTooBig salt = false := (saltTooBig_iff salt).2 h3
  simp [handlePut, tokenOk, h1, h2', h3', h4]

/-- `cas` differs from the stored seq: error 301, nothing changes -/
theorem cas_mismatch_301 (s : Server) (verify : Verify) (rt : RoutingTable) (src : Addr)
    (wall : Nat) (rid : Id) (token : Bytes) (target : Id) (v k : Bytes) (seq : Int) (sig : Bytes)
    (salt : Option Bytes) (c : Int) (p : StoredItem)
    (hst : Stateless s src token target v k salt)
    (hp : s.mutable.find? target = some p) (hc : p.seq ≠ c) :
    (s.handlePut verify rt src wall rid token (.putMutable target v k seq sig salt (some c))).2 = .error 301 ∧
    sameContents (s.handlePut verify rt src wall rid token (.putMutable target v k seq sig salt (some c))).1 s := by
  rw [handlePut_mutable_of_stateless _ _ _ _ _ _ _ _ _ _ _ _ _ _ hst]
  unfold putMutableStore
  rw [Lru.get_snd, hp]
  have : casBad (some p) (some c) = true := by simp [casBad, hc]
  simp only [this, ite_true]
  exact ⟨trivial, sameContents_promote s target⟩

/-- seq lower than the stored one (cas absent or matching): error 302, nothing changes -/
theorem lower_seq_302 (s : Server) (verify : Verify) (rt : RoutingTable) (src : Addr)
    (wall : Nat) (rid : Id) (token : Bytes) (target : Id) (v k : Bytes) (seq : Int) (sig : Bytes)
    (salt : Option Bytes) (cas : Option Int) (p : StoredItem)
    (hst : Stateless s src token target v k salt)
    (hp : s.mutable.find? target = some p) (hcas : casOk (some p) cas) (hlt : seq < p.seq) :
    (s.handlePut verify rt src wall rid token (.putMutable target v k seq sig salt cas)).2 = .error 302 ∧
    sameContents (s.handlePut verify rt src wall rid token (.putMutable target v k seq sig salt cas)).1 s := by
  rw [handlePut_mutable_of_stateless _ _ _ _ _ _ _ _ _ _ _ _ _ _ hst]
  unfold putMutableStore
  rw [Lru.get_snd, hp]
  have h1 : casBad (some p) cas = false := (casBad_iff _ _).2 hcas
  have h2 : seqTooOld (some p) seq = true := by simp [seqTooOld, hlt]
  simp only [h1, h2, ite_true, Bool.false_eq_true, ite_false]
  exact ⟨trivial, sameContents_promote s target⟩

/-- a valid put whose seq is at least the stored one (or with nothing stored), with `cas` absent
    or equal to the stored seq, is accepted and becomes the stored item — this covers the same item
    again and a different value with an equal seq -/
theorem valid_put_accepted (s : Server) (verify : Verify) (rt : RoutingTable) (src : Addr)
    (wall : Nat) (rid : Id) (token : Bytes) (target : Id) (v k : Bytes) (seq : Int) (sig : Bytes)
    (salt : Option Bytes) (cas : Option Int)
    (hst : Stateless s src token target v k salt)
    (hcas : casOk (s.mutable.find? target) cas) (hseq : seqOk (s.mutable.find? target) seq)
    (hsig : verify k (encodeSignable seq v salt) sig = true) :
    (s.handlePut verify rt src wall rid token (.putMutable target v k seq sig salt cas)).2 = ok rt ∧
    (s.handlePut verify rt src wall rid token (.putMutable target v k seq sig salt cas)).1.mutable.find? target
      = some ⟨k, seq, v, sig, salt⟩ := by
  rw [handlePut_mutable_of_stateless _ _ _ _ _ _ _ _ _ _ _ _ _ _ hst]
  unfold putMutableStore
  rw [Lru.get_snd]
  have h1 := (casBad_iff _ _).2 hcas
  have h2 := (seqTooOld_iff _ _).2 hseq
  simp only [h1, h2, hsig, Bool.false_eq_true, ite_false, Bool.not_true]
  exact ⟨trivial, Lru.find?_put_self _ _ _⟩

/-! ### one step of any kind -/

theorem putMutableStore_find (s : Server) (verify : Verify) (rt : RoutingTable) (target : Id)
    (v k : Bytes) (seq : Int) (sig : Bytes) (salt : Option Bytes) (cas : Option Int) (t : Id)
    (x : StoredItem)
    (h : (s.putMutableStore verify rt target v k seq sig salt cas).1.mutable.find? t = some x) :
    s.mutable.find? t = some x ∨
      (t = target ∧ x = ⟨k, seq, v, sig, salt⟩ ∧ seqOk (s.mutable.find? target) seq ∧
        casOk (s.mutable.find? target) cas) := by
  unfold putMutableStore at h
  rw [Lru.get_snd] at h
  cases hc : casBad (s.mutable.find? target) cas
  · cases hq : seqTooOld (s.mutable.find? target) seq
    · cases hv : verify k (encodeSignable seq v salt) sig
      · simp only [hc, hq, hv, Bool.false_eq_true, ite_false, Bool.not_false, ite_true] at h
        left; rw [← Lru.find?_get_fst s.mutable target t]; exact h
      · simp only [hc, hq, hv, Bool.false_eq_true, ite_false, Bool.not_true] at h
        by_cases ht : t = target
        · subst ht
          rw [Lru.find?_put_self] at h
          right
          exact ⟨rfl, by simpa using h.symm, (seqTooOld_iff _ _).1 hq, (casBad_iff _ _).1 hc⟩
        · left
          have := Lru.find?_put_other _ _ _ _ _ ht h
          rw [← Lru.find?_get_fst s.mutable target t]; exact this
    · simp only [hc, hq, Bool.false_eq_true, ite_false, ite_true] at h
      left; rw [← Lru.find?_get_fst s.mutable target t]; exact h
  · simp only [hc, ite_true] at h
    left; rw [← Lru.find?_get_fst s.mutable target t]; exact h

theorem handlePut_find (s : Server) (verify : Verify) (rt : RoutingTable) (src : Addr) (wall : Nat)
    (rid : Id) (token : Bytes) (spec : PutSpec) (t : Id) (x : StoredItem)
    (h : (s.handlePut verify rt src wall rid token spec).1.mutable.find? t = some x) :
    s.mutable.find? t = some x ∨
      (∃ v k seq sig salt cas, spec = .putMutable t v k seq sig salt cas ∧ x = ⟨k, seq, v, sig, salt⟩ ∧
        seqOk (s.mutable.find? t) seq ∧ casOk (s.mutable.find? t) cas) := by
  cases spec with
  | announcePeer ih port implied =>
    left; simp only [handlePut] at h; split at h
    · exact h
    · simpa using h
  | announceSignedPeer ih ts k sig =>
    left; simp only [handlePut] at h
    split at h
    · exact h
    · split at h
      · exact h
      · split at h
        · exact h
        · simpa using h
  | putImmutable target v =>
    left; simp only [handlePut] at h
    split at h
    · exact h
    · split at h
      · exact h
      · split at h <;> exact h
  | putMutable target v k seq sig salt cas =>
    simp only [handlePut] at h
    split at h
    · exact Or.inl h
    · split at h
      · exact Or.inl h
      · split at h
        · exact Or.inl h
        · split at h
          · exact Or.inl h
          · rcases putMutableStore_find _ _ _ _ _ _ _ _ _ _ _ _ h with h' | ⟨h1, h2, h3, h4⟩
            · exact Or.inl h'
            · subst h1
              exact Or.inr ⟨v, k, seq, sig, salt, cas, rfl, h2, h3, h4⟩

/-- **after any request**, what is found under a target is what was found before, or the item of a
    put for that target that satisfied the seq and cas rules against what was found before -/
theorem mutable_step (s : Server) (verify : Verify) (allow : Allow) (rt srt : RoutingTable)
    (src : Addr) (now wall : Nat) (req : Request) (t : Id) (x : StoredItem)
    (h : (s.handleRequest verify allow rt srt src now wall req).1.mutable.find? t = some x) :
    s.mutable.find? t = some x ∨
      (∃ token v k seq sig salt cas, req.rtype = .put token (.putMutable t v k seq sig salt cas) ∧
        x = ⟨k, seq, v, sig, salt⟩ ∧ seqOk (s.mutable.find? t) seq ∧ casOk (s.mutable.find? t) cas) := by
  unfold handleRequest at h
  split at h
  · exact Or.inl h
  · generalize hs0 : (if s.tokens.shouldUpdate now = true then
        ({ s with tokens := (s.tokens.rotate s.rng now).1, rng := (s.tokens.rotate s.rng now).2 } : Server)
      else s) = s0 at h
    have hmu : s0.mutable = s.mutable := by rw [← hs0]; split <;> rfl
    simp only at h
    have hgm : ∀ (tt : Id) (sq : Option Int),
        (s0.handleGetMutable rt src tt sq).1.mutable.find? t = some x → s.mutable.find? t = some x := by
      intro tt sq hh
      unfold handleGetMutable at hh
      simp only at hh
      rw [Lru.find?_get_fst, hmu] at hh; exact hh
    cases hr : req.rtype with
    | ping => rw [hr] at h; simp only at h; rw [hmu] at h; exact Or.inl h
    | findNode _ => rw [hr] at h; simp only at h; rw [hmu] at h; exact Or.inl h
    | getPeers ih =>
      rw [hr] at h; simp only at h
      split at h <;> (simp only at h; rw [hmu] at h; exact Or.inl h)
    | getSignedPeers ih =>
      rw [hr] at h; simp only at h
      split at h <;> (simp only at h; rw [hmu] at h; exact Or.inl h)
    | getValue target seq salt =>
      rw [hr] at h; simp only at h
      cases seq with
      | some sq => exact Or.inl (hgm target (some sq) h)
      | none =>
        simp only at h
        split at h
        · simp only at h; rw [hmu] at h; exact Or.inl h
        · exact Or.inl (hgm target none h)
    | put token spec =>
      rw [hr] at h; simp only at h
      rcases handlePut_find s0 verify rt src wall req.requesterId token spec t x h with h' | ⟨v, k, seq, sig, salt, cas, e1, e2, e3, e4⟩
      · rw [hmu] at h'; exact Or.inl h'
      · rw [hmu] at e3 e4
        exact Or.inr ⟨token, v, k, seq, sig, salt, cas, by rw [e1], e2, e3, e4⟩

/-- the sequence number stored under a target never decreases in one step -/
theorem seq_never_decreases (s : Server) (verify : Verify) (allow : Allow) (rt srt : RoutingTable)
    (src : Addr) (now wall : Nat) (req : Request) (t : Id) (p p' : StoredItem)
    (hb : s.mutable.find? t = some p)
    (ha : (s.handleRequest verify allow rt srt src now wall req).1.mutable.find? t = some p') :
    p.seq ≤ p'.seq := by
  rcases mutable_step s verify allow rt srt src now wall req t p' ha with h | ⟨_, _, _, seq, _, _, _, _, e2, e3, _⟩
  · rw [hb] at h; cases h; exact Int.le_refl _
  · rw [hb] at e3
    simp only [seqOk] at e3
    rw [e2]; exact e3

/-- **every history**: as long as the target stays stored (no eviction in between), its seq at the
    end is at least its seq at the start -/
theorem seq_monotone_while_stored (verify : Verify) (allow : Allow) (rt srt : RoutingTable) (t : Id)
    (h : List Ev) :
    ∀ (s : Server) (p p' : StoredItem), s.mutable.find? t = some p →
      (∀ pre, pre <+: h → (run verify allow rt srt s pre).mutable.find? t ≠ none) →
      (run verify allow rt srt s h).mutable.find? t = some p' → p.seq ≤ p'.seq := by
  induction h with
  | nil =>
    intro s p p' hp _ hp'
    simp only [run, List.foldl_nil] at hp'
    rw [hp] at hp'; cases hp'; exact Int.le_refl _
  | cons e h ih =>
    intro s p p' hp hall hp'
    have h1 := hall [e] (by simp)
    simp only [run, List.foldl_cons, List.foldl_nil] at h1
    cases hq : (s.handleRequest verify allow rt srt e.src e.now e.wall e.req).1.mutable.find? t with
    | none => exact absurd hq h1
    | some q =>
      have hstep := seq_never_decreases s verify allow rt srt e.src e.now e.wall e.req t p q hp hq
      have := ih _ q p' hq
        (by intro pre hpre
            have := hall (e :: pre) (by simpa using hpre)
            simpa [run] using this)
        (by simpa [run] using hp')
      exact Int.le_trans hstep this

/-! ### reads -/

/-- a get returns exactly the stored item, or only its seq when the request's seq filter is at or
    above the stored seq, or no value when nothing is stored -/
theorem get_reply_spec (s : Server) (rt : RoutingTable) (src : Addr) (target : Id) (seq : Option Int) :
    (s.handleGetMutable rt src target seq).2 =
      match s.mutable.find? target, seq with
      | none, _ => .noValues rt.id (s.tokens.generate src.ip) (some (rt.closest target))
      | some item, some rs =>
        if item.seq ≤ rs then
          .noMoreRecentValue rt.id (s.tokens.generate src.ip) (some (rt.closest target)) item.seq
        else .getMutable rt.id (s.tokens.generate src.ip) (some (rt.closest target)) item.value item.key item.seq item.sig
      | some item, none =>
        .getMutable rt.id (s.tokens.generate src.ip) (some (rt.closest target)) item.value item.key item.seq item.sig := by
  rw [served_mutable_is_stored]
  cases s.mutable.find? target <;> cases seq <;> rfl

/-- reads do not change what is stored -/
theorem get_changes_nothing (s : Server) (rt : RoutingTable) (src : Addr) (target : Id) (seq : Option Int) :
    sameContents (s.handleGetMutable rt src target seq).1 s := by
  unfold handleGetMutable; exact sameContents_promote s target

/-! ### Non-vacuity (tests, labelled as tests) -/

/-- seq 2 stored, put with seq 1 → 302; put with cas 5 → 301; put with seq 3 cas 2 → accepted -/
example :
    let item : StoredItem := ⟨[1], 2, [9], [7], none⟩
    let t : Id := ⟨targetFromKey [1] none⟩
    let s : Server := { (Server.new 2 2 2 2 7 0) with mutable := { cap := 2, items := [(t, item)] } }
    let src : Addr := ⟨0x2d000001, 1⟩
    let rt : RoutingTable := { id := ⟨List.replicate 20 0⟩ }
    let tok := s.tokens.generate src.ip
    (s.handlePut (fun _ _ _ => true) rt src 0 ⟨[]⟩ tok (.putMutable t [8] [1] 1 [7] none none)).2 = .error 302 ∧
    (s.handlePut (fun _ _ _ => true) rt src 0 ⟨[]⟩ tok (.putMutable t [8] [1] 3 [7] none (some 5))).2 = .error 301 ∧
    (s.handlePut (fun _ _ _ => true) rt src 0 ⟨[]⟩ tok (.putMutable t [8] [1] 3 [7] none (some 2))).2 = ok rt := by
  decide +kernel

end Mainline.Props.C04
