/-
  C08 / C01, server side of an acknowledgement, for the whole node — "… so the value is then held by at
  least one node able to serve it".

  A node answers only requests, only to their sender and under their transaction id
  (`response_answers_the_datagram`), and when the request was a put of any of the four kinds and the
  answer is a response (the acknowledgement) then, at the end of that iteration of the loop, the node's
  server holds exactly what was put (`node_ack_means_held`): the bytes under their target, the item with
  that key, seq, value and signature, the announcer's address with the announced (or implied) port, the
  signed announcement.  Together with the writer's side (`C08Node.ok_needs_counted_ack`: Ok needs an
  acknowledgement the socket accepted for one of the put's requests, i.e. from the addressed node under
  the request's id) this is the chain "Ok ⇒ some node holds the value" up to the honest delivery of
  datagrams.
-/
import MainlineModel.Props.C18
import MainlineModel.Props.C07
import MainlineModel.Lemmas.TimeLemmas
namespace Mainline.Props.C08Held
open Mainline Mainline.Actor

/-- what an acknowledged put leaves in the acknowledging server -/
def Held (s : Server) (rid : Id) (src : Addr) : PutSpec → Prop
  | .putImmutable t v => s.immutable.find? t = some v
  | .putMutable t v k seq sig salt _ => s.mutable.find? t = some ⟨k, seq, v, sig, salt⟩
  | .announcePeer ih port implied =>
    ∃ inner, s.peers.find? ih = some inner ∧ inner.find? rid = some (Server.announcedPeer src port implied)
  | .announceSignedPeer ih t k sig =>
    ∃ inner, s.signedPeers.find? ih = some inner ∧ inner.find? k = some ⟨k, t, sig⟩

theorem handlePut_ack_held (s : Server) (verify : Verify) (rt : RoutingTable) (src : Addr) (wall : Nat) (rid : Id)
    (token : Bytes) (spec : PutSpec) (r : Response)
    (h : (s.handlePut verify rt src wall rid token spec).2 = .response r) :
    Held (s.handlePut verify rt src wall rid token spec).1 rid src spec := by
  cases spec with
  | announcePeer ih port implied =>
    simp only [Server.handlePut] at h ⊢
    split at h
    · cases h
    · rename_i htok
      simp only [htok, Bool.false_eq_true, ite_false, Held]
      unfold Server.addPeer
      cases hg : s.peers.get ih with
      | mk outer found =>
        cases found with
        | some inner =>
          simp only
          refine ⟨inner.put rid _, ?_, Lru.find?_put_self _ _ _⟩
          rw [Lru.find?_cons]; simp
        | none =>
          simp only
          exact ⟨_, Lru.find?_put_self _ _ _, Lru.find?_put_self _ _ _⟩
  | announceSignedPeer ih t k sig =>
    simp only [Server.handlePut] at h ⊢
    split at h
    · cases h
    · split at h
      · cases h
      · split at h
        · cases h
        · rename_i h1 h2 h3
          simp only [h1, h2, h3, Bool.false_eq_true, ite_false, Held]
          unfold Server.addSignedPeer
          cases hg : s.signedPeers.get ih with
          | mk outer found =>
            cases found with
            | some inner =>
              simp only
              refine ⟨inner.put k _, ?_, Lru.find?_put_self _ _ _⟩
              rw [Lru.find?_cons]; simp
            | none =>
              simp only
              exact ⟨_, Lru.find?_put_self _ _ _, Lru.find?_put_self _ _ _⟩
  | putImmutable target v =>
    simp only [Server.handlePut] at h ⊢
    split at h
    · cases h
    · split at h
      · cases h
      · split at h
        · cases h
        · rename_i h1 h2 h3
          simp only [h1, h2, h3, Bool.false_eq_true, ite_false, Held]
          exact Lru.find?_put_self _ _ _
  | putMutable target v k seq sig salt cas =>
    simp only [Server.handlePut] at h ⊢
    split at h
    · cases h
    · split at h
      · cases h
      · split at h
        · cases h
        · split at h
          · cases h
          · rename_i h1 h2 h3 h4
            simp only [h1, h2, h3, h4, Bool.false_eq_true, ite_false, Held]
            unfold Server.putMutableStore at h ⊢
            split at h
            · cases h
            · split at h
              · cases h
              · split at h
                · cases h
                · rename_i g1 g2 g3
                  simp only [g1, g2, g3, Bool.false_eq_true, ite_false]
                  exact Lru.find?_put_self _ _ _

theorem handleRequest_ack_held (s : Server) (verify : Verify) (allow : Allow) (rt srt : RoutingTable) (src : Addr)
    (now wall : Nat) (rid : Id) (token : Bytes) (spec : PutSpec) (r : Response)
    (h : (s.handleRequest verify allow rt srt src now wall ⟨rid, .put token spec⟩).2 = some (.response r)) :
    Held (s.handleRequest verify allow rt srt src now wall ⟨rid, .put token spec⟩).1 rid src spec := by
  unfold Server.handleRequest at h ⊢
  split at h
  · cases h
  · rename_i hal
    simp only [hal, Bool.false_eq_true, ite_false] at h ⊢
    simp only [Option.some.injEq] at h
    exact handlePut_ack_held _ verify rt src wall rid token spec r h

/-- what the node's server holds depends only on its four stores -/
theorem held_of_stores {s s' : Server} (h1 : s'.peers = s.peers) (h2 : s'.signedPeers = s.signedPeers)
    (h3 : s'.immutable = s.immutable) (h4 : s'.mutable = s.mutable) (rid : Id) (src : Addr) (spec : PutSpec)
    (h : Held s rid src spec) : Held s' rid src spec := by
  cases spec <;> simp only [Held] at h ⊢
  · rw [h1]; exact h
  · rw [h2]; exact h
  · rw [h3]; exact h
  · rw [h4]; exact h

theorem held_of_held {a a' : Actor} (h : C18.held a' = C18.held a) (rid : Id) (src : Addr) (spec : PutSpec)
    (hh : Held a.core.server rid src spec) : Held a'.core.server rid src spec := by
  unfold C18.held at h
  simp only [Prod.mk.injEq] at h
  exact held_of_stores h.1 h.2.1 h.2.2.1 h.2.2.2 rid src spec hh

/-- a stretch of the loop that changes nothing the server holds and sends only requests -/
structure Tail (a a' : Actor) : Prop where
  stores : C18.held a' = C18.held a
  sent : ∃ l, a'.out = a.out ++ l ∧ ∀ x ∈ l, ∃ r, x.2.mtype = .request r

theorem Tail.refl (a : Actor) : Tail a a := ⟨rfl, [], by simp, by intro x h; cases h⟩

theorem Tail.trans {a b c : Actor} (h1 : Tail a b) (h2 : Tail b c) : Tail a c := by
  obtain ⟨l1, e1, p1⟩ := h1.sent
  obtain ⟨l2, e2, p2⟩ := h2.sent
  refine ⟨h2.stores.trans h1.stores, l1 ++ l2, by rw [e2, e1, List.append_assoc], ?_⟩
  intro x hx
  rcases List.mem_append.1 hx with h | h
  · exact p1 x h
  · exact p2 x h

theorem Tail.of_quiet {a a' : Actor} (h : C18.Quiet a a') : Tail a a' := by
  obtain ⟨l, e, p⟩ := h.sent
  exact ⟨h.stores, l, e, fun x hx => (p x hx).1⟩

theorem refreshTable_tail (a : Actor) (now : Nat) : Tail a (a.refreshTable now) := by
  rcases C18.refreshTable_cases a now with h | ⟨_, _, _, _, hh, l, e, p⟩
  · exact Tail.of_quiet h
  · exact ⟨hh, l, e, fun x hx => (p x hx).1⟩

theorem maintenance_tail (a : Actor) (now : Nat) : Tail a (a.maintenance now) := by
  unfold maintenance
  exact ((Tail.of_quiet (C18.bootstrapIfEmpty_quiet a now)).trans (refreshTable_tail _ now)).trans
    (Tail.of_quiet (C18.pingTable_quiet _ now))

/-- everything after the datagram has been handled -/
theorem rest_tail (b : Actor) (env : Env) (dp : List (Id × Option PutErr)) (msg : Option ApiMsg) :
    Tail b (((finishTick (b.visitClosestAll env.now) env.now dp).pickup env msg).maintenance env.now) :=
  (((Tail.of_quiet (C18.visitClosestAll_quiet b env.now)).trans
    (Tail.of_quiet (C18.finishTick_quiet _ env.now dp))).trans
    (Tail.of_quiet (C18.pickup_quiet _ env msg))).trans (maintenance_tail _ env.now)

/-- the stores as a function of the core -/
def heldC (c : Core) := (c.server.peers, c.server.signedPeers, c.server.immutable, c.server.mutable)

theorem held_eq (a : Actor) : C18.held a = heldC a.core := rfl

/-- the datagram a reply answers -/
def IsReplyTo (x : Addr × Message) (m : Message) (src : Addr) (reply : Option Reply) : Prop :=
  x.1 = src ∧ x.2.tid = m.tid ∧
    ((∃ r, reply = some (.response r) ∧ x.2.mtype = .response r) ∨
     (∃ code e, reply = some (.error code) ∧ x.2.mtype = .error e))

theorem sendReply_out (b : Actor) (m : Message) (src : Addr) (reply : Option Reply) :
    (reply = none ∧ (b.sendReply src m.tid reply).out = b.out) ∨
    ∃ x, (b.sendReply src m.tid reply).out = b.out ++ [x] ∧ IsReplyTo x m src reply := by
  unfold sendReply
  split
  · rename_i r
    exact Or.inr ⟨_, rfl, rfl, rfl, Or.inl ⟨r, rfl, rfl⟩⟩
  · rename_i code
    exact Or.inr ⟨_, rfl, rfl, rfl, Or.inr ⟨code, _, rfl, rfl⟩⟩
  · exact Or.inl ⟨rfl, rfl⟩

/-- what the first half of the tick does to the stores and puts on the wire: nothing but requests, unless
    the datagram is a request; then the stores are those `handle_request` leaves, and at most one reply —
    to the sender of the datagram, under its transaction id — precedes the requests -/
theorem preDone_out (a : Actor) (env : Env) (dgram : Option (Message × Addr)) :
    (C18.held (a.preDone env dgram) = C18.held a ∧
      ∃ l, (a.preDone env dgram).out = a.out ++ l ∧ ∀ x ∈ l, ∃ r, x.2.mtype = .request r) ∨
    ∃ m src req, dgram = some (m, src) ∧ m.mtype = .request req ∧
      C18.held (a.preDone env dgram) = heldC (handleRequest a.core env src m.readOnly m.version req).1 ∧
      ∃ l0 l, (a.preDone env dgram).out = a.out ++ l0 ++ l ∧ (∀ x ∈ l, ∃ r, x.2.mtype = .request r) ∧
        (((handleRequest a.core env src m.readOnly m.version req).2.1 = none ∧ l0 = []) ∨
          ∃ x, l0 = [x] ∧ IsReplyTo x m src (handleRequest a.core env src m.readOnly m.version req).2.1) := by
  unfold preDone
  obtain ⟨ro, rc, _, _⟩ := recvPhase_time a env.now dgram
  have hh : ∀ m src, (a.recvPhase env.now dgram).2 = some (m, src) → dgram = some (m, src) :=
    fun m src h => C07.recvPhase_handed a env.now dgram m src h
  generalize (a.recvPhase env.now dgram).1 = a1 at ro rc
  generalize (a.recvPhase env.now dgram).2 = handed at hh
  have fv : ∀ (b : Actor) v, (b.forwardValue v).out = b.out ∧ C18.held (b.forwardValue v) = C18.held b := by
    intro b v
    unfold forwardValue
    split
    · split <;> exact ⟨rfl, rfl⟩
    · exact ⟨rfl, rfl⟩
  have ha1 : C18.held a1 = C18.held a := by unfold C18.held; rw [rc]
  unfold handleIncoming
  split
  · left
    obtain ⟨f1, f2⟩ := fv a1 none
    exact ⟨by rw [f2, ha1], [], by rw [f1, ro]; simp, by intro x h; cases h⟩
  · rename_i m src
    split
    · rename_i req hreq
      right
      refine ⟨m, src, req, hh m src rfl, hreq, ?_⟩
      obtain ⟨f1, f2⟩ := fv (a1.handleIncomingRequest env m src req) none
      rw [f1, f2, ← rc]
      generalize hb : ({ a1 with core := (handleRequest a1.core env src m.readOnly m.version req).1 } : Actor) = b
      have hbo : b.out = a.out := by rw [← hb]; exact ro
      have hbh : C18.held b = heldC (handleRequest a1.core env src m.readOnly m.version req).1 := by rw [← hb]; rfl
      have hsr : C18.held (b.sendReply src m.tid (handleRequest a1.core env src m.readOnly m.version req).2.1) = C18.held b := by
        rw [held_eq, held_eq, sendReply_core]
      unfold handleIncomingRequest
      rw [hb]
      split
      · have hq := C18.populate_quiet (b.sendReply src m.tid (handleRequest a1.core env src m.readOnly m.version req).2.1) env.now
        obtain ⟨l, hl, hp⟩ := hq.sent
        refine ⟨by rw [hq.stores, hsr, hbh], ?_⟩
        rcases sendReply_out b m src (handleRequest a1.core env src m.readOnly m.version req).2.1 with ⟨hn, h0⟩ | ⟨x, h0, hx⟩
        · exact ⟨[], l, by rw [hl, h0, hbo]; simp, fun y hy => (hp y hy).1, Or.inl ⟨hn, rfl⟩⟩
        · exact ⟨[x], l, by rw [hl, h0, hbo], fun y hy => (hp y hy).1, Or.inr ⟨x, rfl, hx⟩⟩
      · refine ⟨by rw [hsr, hbh], ?_⟩
        rcases sendReply_out b m src (handleRequest a1.core env src m.readOnly m.version req).2.1 with ⟨hn, h0⟩ | ⟨x, h0, hx⟩
        · exact ⟨[], [], by rw [h0, hbo]; simp, (by intro y hy; cases hy), Or.inl ⟨hn, rfl⟩⟩
        · exact ⟨[x], [], by rw [h0, hbo]; simp, (by intro y hy; cases hy), Or.inr ⟨x, rfl, hx⟩⟩
    · left
      obtain ⟨f1, f2⟩ := fv { a1 with core := (handleResponse a1.core env src m).1 } (handleResponse a1.core env src m).2
      obtain ⟨_, h2⟩ := C18.handleResponse_mode a1.core env src m
      refine ⟨?_, [], by rw [f1]; simp [ro], by intro x h; cases h⟩
      rw [f2, ← ha1]
      unfold C18.held
      simp only [h2]

/-- **A node answers only requests, only to their sender, under their transaction id**: every response
    or error among the datagrams one iteration puts on the wire is the reply `handle_request` made to the
    datagram of that iteration -/
theorem response_answers_the_datagram (a : Actor) (env : Env) (dgram : Option (Message × Addr)) (msg : Option ApiMsg) :
    ∃ l, (a.step env dgram msg).out = a.out ++ l ∧
      ∀ x ∈ l, (∃ r, x.2.mtype = .request r) ∨
        ∃ m src req, dgram = some (m, src) ∧ m.mtype = .request req ∧
          IsReplyTo x m src (handleRequest a.core env src m.readOnly m.version req).2.1 := by
  have ht := rest_tail (a.preDone env dgram) env ((a.preDone env dgram).checkDonePuts env.now) msg
  obtain ⟨lt, et, pt⟩ := ht.sent
  have hstep : (a.step env dgram msg).out = (a.preDone env dgram).out ++ lt := by
    unfold Actor.step afterRecv
    exact et
  rcases preDone_out a env dgram with ⟨_, l, e, p⟩ | ⟨m, src, req, hd, hm, _, l0, l, e, p, h0⟩
  · refine ⟨l ++ lt, by rw [hstep, e, List.append_assoc], ?_⟩
    intro x hx
    rcases List.mem_append.1 hx with h | h
    · exact Or.inl (p x h)
    · exact Or.inl (pt x h)
  · refine ⟨l0 ++ l ++ lt, by rw [hstep, e]; simp [List.append_assoc], ?_⟩
    intro x hx
    rcases List.mem_append.1 hx with h | h
    · rcases List.mem_append.1 h with h' | h'
      · rcases h0 with ⟨_, e0⟩ | ⟨y, e0, hy⟩
        · rw [e0] at h'; cases h'
        · rw [e0] at h'
          simp only [List.mem_singleton] at h'
          subst h'
          exact Or.inr ⟨m, src, req, hd, hm, hy⟩
      · exact Or.inl (p x h')
    · exact Or.inl (pt x h)

/-- the server part of `Core::handle_request` answers a put with a response only when its server holds
    what was put -/
theorem core_ack_held (c : Core) (env : Env) (src : Addr) (ro : Bool) (version : Option Bytes) (rid : Id)
    (token : Bytes) (spec : PutSpec) (r : Response)
    (h : (handleRequest c env src ro version ⟨rid, .put token spec⟩).2.1 = some (.response r)) :
    C08Held.Held (handleRequest c env src ro version ⟨rid, .put token spec⟩).1.server rid src spec := by
  unfold handleRequest at h ⊢
  split at h
  · cases h
  · rename_i hal
    simp only [hal, Bool.false_eq_true, ite_false] at h ⊢
    unfold serveRequest at h ⊢
    split at h
    · rename_i hsm
      simp only [hsm, ite_true] at h ⊢
      exact handleRequest_ack_held _ env.verify _ _ _ src env.now env.wall rid token spec r h
    · cases h

/-- **An acknowledged put is held.**  If the datagram of this iteration is a put request of any kind and
    the node puts a response to it on the wire, then at the end of the iteration its server holds what was
    put — whatever else happened in that iteration (other datagrams cannot: there is one per iteration). -/
theorem node_ack_means_held (a : Actor) (env : Env) (m : Message) (src : Addr) (msg : Option ApiMsg)
    (rid : Id) (token : Bytes) (spec : PutSpec) (hm : m.mtype = .request ⟨rid, .put token spec⟩)
    (l : List (Addr × Message)) (hl : (a.step env (some (m, src)) msg).out = a.out ++ l)
    (hack : ∃ x ∈ l, ∃ r, x.2.mtype = .response r) :
    Held (a.step env (some (m, src)) msg).core.server rid src spec := by
  have ht := rest_tail (a.preDone env (some (m, src))) env ((a.preDone env (some (m, src))).checkDonePuts env.now) msg
  obtain ⟨lt, et, pt⟩ := ht.sent
  have hstep : (a.step env (some (m, src)) msg).out = (a.preDone env (some (m, src))).out ++ lt := by
    unfold Actor.step afterRecv
    exact et
  have hheld : C18.held (a.step env (some (m, src)) msg) = C18.held (a.preDone env (some (m, src))) := by
    unfold Actor.step afterRecv
    exact ht.stores
  obtain ⟨x, hx, r, hr⟩ := hack
  rcases preDone_out a env (some (m, src)) with ⟨_, l', e, p⟩ | ⟨m', src', req, hd, hm', hst, l0, l', e, p, h0⟩
  · -- only requests were sent: there is no response
    exfalso
    have : l = l' ++ lt := by
      have h1 : a.out ++ l = a.out ++ (l' ++ lt) := by
        rw [← hl, hstep, e]; simp only [List.append_assoc]
      exact List.append_cancel_left h1
    rw [this] at hx
    rcases List.mem_append.1 hx with h | h
    · obtain ⟨q, hq⟩ := p x h; rw [hq] at hr; cases hr
    · obtain ⟨q, hq⟩ := pt x h; rw [hq] at hr; cases hr
  · simp only [Option.some.injEq, Prod.mk.injEq] at hd
    obtain ⟨rfl, rfl⟩ := hd
    rw [hm] at hm'
    injection hm' with hm'
    subst hm'
    have : l = l0 ++ l' ++ lt := by
      have h1 : a.out ++ l = a.out ++ (l0 ++ l' ++ lt) := by
        rw [← hl, hstep, e]; simp only [List.append_assoc]
      exact List.append_cancel_left h1
    rw [this] at hx
    have hreply : ∃ r', (handleRequest a.core env src m.readOnly m.version ⟨rid, .put token spec⟩).2.1 = some (.response r') := by
      rcases List.mem_append.1 hx with h | h
      · rcases List.mem_append.1 h with h' | h'
        · rcases h0 with ⟨_, e0⟩ | ⟨y, e0, _, _, hy⟩
          · rw [e0] at h'; cases h'
          · rw [e0] at h'
            simp only [List.mem_singleton] at h'
            subst h'
            rcases hy with ⟨r', h1, _⟩ | ⟨code, e', _, h2⟩
            · exact ⟨r', h1⟩
            · rw [h2] at hr; cases hr
        · obtain ⟨q, hq⟩ := p x h'; rw [hq] at hr; cases hr
      · obtain ⟨q, hq⟩ := pt x h; rw [hq] at hr; cases hr
    obtain ⟨r', hr'⟩ := hreply
    have hcore := core_ack_held a.core env src m.readOnly m.version rid token spec r' hr'
    have : C18.held (a.step env (some (m, src)) msg)
        = heldC (handleRequest a.core env src m.readOnly m.version ⟨rid, .put token spec⟩).1 := hheld.trans hst
    unfold C18.held heldC at this
    simp only [Prod.mk.injEq] at this
    exact held_of_stores this.1 this.2.1 this.2.2.1 this.2.2.2 rid src spec hcore

end Mainline.Props.C08Held
